/-
Vocabulary for the C17 theorems.  Specification only.
-/
import AnnetModel.Model.Implicit
import AnnetModel.Spec.Acl

namespace Annet.Implicit.Spec
open Annet Annet.Implicit

mutual
  /-- sibling keys pairwise distinct at every level (Python dict) -/
  def NoDupKeys : Cfg → Prop
    | .mk ks => NoDupKeysL ks
  def NoDupKeysL : List (String × Cfg) → Prop
    | [] => True
    | (k, c) :: rest => (∀ e ∈ rest, e.1 ≠ k) ∧ NoDupKeys c ∧ NoDupKeysL rest
end

def hasKey (t : Cfg) (k : String) : Bool := t.kids.any (·.1 == k)

/-- the tree has a (non-empty) line of the kind the rule describes -/
def hasLineOfKind (rule : IRule) (t : Cfg) : Bool :=
  t.kids.any fun e => !e.1.isEmpty && (rowMatches rule e.1 == some true)

/-- no rule rows repeat among siblings (dict keys of the compiled rules) -/
def RowsDistinct (rules : List IRule) : Prop := (rules.map (·.row)).Nodup

/-- the sibling rules have pairwise disjoint languages, at every level: no line is matched by two of them
(true of every shipped implicit rule set; it is what makes `implicit_config_tree[line] = …` never overwrite) -/
inductive Disjoint : List IRule → Prop
  | mk (rules : List IRule) :
      (∀ r1 ∈ rules, ∀ r2 ∈ rules, r1.row ≠ r2.row → ∀ line, rowMatches r1 line = some true → rowMatches r2 line = some true → False) →
      (∀ r ∈ rules, Disjoint r.children) → Disjoint rules

end Annet.Implicit.Spec
