/-
Vocabulary for the C08 theorems.  Specification only.
-/
import AnnetModel.Model.Patch

namespace Annet.Patch.Spec
open Annet Annet.Patch

/-- the comparison is a strict weak order (what Python's tuple comparison of sort keys is) -/
structure StrictWeak {α : Type} (lt : α → α → Bool) : Prop where
  irrefl : ∀ a, lt a a = false
  trans : ∀ a b c, lt a b = true → lt b c = true → lt a c = true
  negTrans : ∀ a b c, lt a b = false → lt b c = false → lt a c = false

/-- no element is strictly greater than a later one -/
def Sorted {α : Type} (lt : α → α → Bool) (l : List α) : Prop := l.Pairwise (fun a b => lt b a = false)

mutual
  /-- all root-to-command paths of a patch tree -/
  def ptPaths : PTree → List (List String)
    | .mk items => ptPathsL items
  def ptPathsL : List (String × Option PTree × SortKey) → List (List String)
    | [] => []
    | (row, none, _) :: rest => [row] :: ptPathsL rest
    | (row, some c, _) :: rest => ([row] :: (ptPaths c).map (row :: ·)) ++ ptPathsL rest
end

mutual
  /-- equality of config trees up to the order of siblings, at every depth -/
  inductive CfgPermL : List (String × Cfg) → List (String × Cfg) → Prop
    | nil : CfgPermL [] []
    | cons {k : String} {c c' : Cfg} {a b b1 b2 : List (String × Cfg)} :
        CfgPerm c c' → b = b1 ++ (k, c') :: b2 → CfgPermL a (b1 ++ b2) → CfgPermL ((k, c) :: a) b
  inductive CfgPerm : Cfg → Cfg → Prop
    | mk {a b : List (String × Cfg)} : CfgPermL a b → CfgPerm (.mk a) (.mk b)
end

/-- key of a config row as `order_config` computes it -/
def ocKey (it : OCItem) : SOrd × Bool := (signed it.order it.direct, it.direct)

end Annet.Patch.Spec
