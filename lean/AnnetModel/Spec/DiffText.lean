/-
Specification vocabulary for the text views of a diff (C03, last clause): the reader an operator applies to the
text (`parseSigned` for `formatter.diff`, `parsePre` for `gen_pre_as_diff`; both are twins of the readers in
harness/props/c03.py), the rows for which the reading is unambiguous, and equality of entry forests
"per level as a multiset".

Core Lean only.
-/
import AnnetModel.Model.DiffText

namespace Annet.DiffText

def Sign.ofChar : Char → Option Sign
  | '-' => some .minus | '+' => some .plus | '>' => some .gt | ' ' => some .space | _ => none

/-- `while ind and rest.startswith(ind): rest = rest[len(ind):]; lvl += 1` (fuel = length of the text) -/
def stripIndentAux (ind : Txt) : Nat → Txt → Nat × Txt
  | 0, t => (0, t)
  | fuel + 1, t =>
    if !ind.isEmpty && ind.isPrefixOf t then
      let r := stripIndentAux ind fuel (t.drop ind.length)
      (r.1 + 1, r.2)
    else (0, t)

def stripIndent (ind : Txt) (t : Txt) : Nat × Txt := stripIndentAux ind t.length t

/-- `rest[:-len(suf)]` when `suf` is non-empty and `rest.endswith(suf)` -/
def stripSuffix (suf t : Txt) : Option Txt :=
  if !suf.isEmpty && suf.isSuffixOf t then some (t.take (t.length - suf.length)) else none

/-- the suffix loop of the reader: block-begin mark first, then statement end, at most one of them -/
def stripBody (f : Fmt) (body : Txt) : Txt :=
  match stripSuffix f.blockBegin body with
  | some r => r
  | none =>
    match stripSuffix f.stmtEnd body with
    | some r => r
    | none => body

structure PLine where
  sign : Sign
  lvl : Nat
  row : Txt
  deriving Repr, Inhabited, DecidableEq

/-- one line of `formatter.diff`: `none` = not a diff line, `some none` = a block-end line (skipped) -/
def readLine (f : Fmt) : Txt → Option (Option PLine)
  | c :: _ :: rest =>
    match Sign.ofChar c with
    | none => none
    | some s =>
      let r := stripIndent f.indent rest
      if !f.blockEnd.isEmpty && r.2 == f.blockEnd then some none
      else some (some ⟨s, r.1, stripBody f r.2⟩)
  | _ => none

def readLines (f : Fmt) : List Txt → Option (List PLine)
  | [] => some []
  | l :: rest =>
    match readLine f l, readLines f rest with
    | some (some p), some ps => some (p :: ps)
    | some none, some ps => some ps
    | _, _ => none

/-- the stack discipline of the reader, as a recursive descent: an entry owns the following lines that are deeper -/
def build : Nat → Nat → List PLine → List SItem × List PLine
  | 0, _, ls => ([], ls)
  | _ + 1, _, [] => ([], [])
  | fuel + 1, lvl, l :: ls =>
    if l.lvl < lvl then ([], l :: ls)
    else
      let kids := build fuel (l.lvl + 1) ls
      let sibs := build fuel lvl kids.2
      (SItem.mk l.sign l.row kids.1 :: sibs.1, sibs.2)

/-- read `formatter.diff(diff)` back -/
def parseSigned (f : Fmt) (lines : List Txt) : Option (List SItem) :=
  match readLines f lines with
  | none => none
  | some ps => some (build (ps.length + 1) 0 ps).1

/-! ### rows for which the reading is unambiguous -/

/-- formatter parameters: a non-empty indent unit, and a block-end mark that does not look indented -/
def FmtOK (f : Fmt) : Prop :=
  f.indent ≠ [] ∧ ¬ f.indent <+: f.blockEnd

/-- what `_diff_lines` appends to the row of a leaf / of a block -/
def suffixOf (f : Fmt) (isBlock : Bool) : Txt := if isBlock then f.blockBegin else f.stmtEnd

/-- a row the reader gets back: it does not begin with the indent unit, the printed body is not the block-end
mark, and stripping the (at most one) suffix returns the row -/
def RowOK (f : Fmt) (isBlock : Bool) (row : Txt) : Prop :=
  ¬ f.indent <+: (row ++ suffixOf f isBlock) ∧
  (f.blockEnd ≠ [] → row ++ suffixOf f isBlock ≠ f.blockEnd) ∧
  stripBody f (row ++ suffixOf f isBlock) = row

mutual
  def RowsOKItem (f : Fmt) : SItem → Prop
    | .mk _ row ch => RowOK f (!ch.isEmpty) row ∧ RowsOK f ch
  def RowsOK (f : Fmt) : List SItem → Prop
    | [] => True
    | i :: rest => RowsOKItem f i ∧ RowsOK f rest
end

/-! ### the `annet diff` view -/

/-- number of leading blanks and the rest -/
def spanBlanks : Txt → Nat × Txt
  | ' ' :: t => let r := spanBlanks t; (r.1 + 1, r.2)
  | t => (0, t)

/-- `sign, rest = ln[0], ln[1:]; lead = leading blanks of rest; lvl = (lead - 1) // len(indent); row = rest[lead:]` -/
def readPreLine (k : Nat) : Txt → Option PLine
  | c :: rest =>
    match Sign.ofChar c with
    | none => none
    | some s => let r := spanBlanks rest; some ⟨s, (r.1 - 1) / k, r.2⟩
  | [] => none

def readPreLines (k : Nat) : List Txt → Option (List PLine)
  | [] => some []
  | l :: rest =>
    match readPreLine k l, readPreLines k rest with
    | some p, some ps => some (p :: ps)
    | _, _ => none

/-- read `gen_pre_as_diff(...)` (indent = `k` blanks) back -/
def parsePre (k : Nat) (lines : List Txt) : Option (List SItem) :=
  match readPreLines k lines with
  | none => none
  | some ps => some (build (ps.length + 1) 0 ps).1

mutual
  /-- rows of the `annet diff` view must not begin with a blank -/
  def NoLeadBlankItem : SItem → Prop
    | .mk _ row ch => row.head? ≠ some ' ' ∧ NoLeadBlank ch
  def NoLeadBlank : List SItem → Prop
    | [] => True
    | i :: rest => NoLeadBlankItem i ∧ NoLeadBlank rest
end

mutual
  /-- the same entry up to the order of nested entries at every level -/
  inductive SEqv : SItem → SItem → Prop
    | mk {s : Sign} {r : Txt} {c1 c2 : List SItem} : SPermv c1 c2 → SEqv (.mk s r c1) (.mk s r c2)
  /-- equal "per level as a multiset" -/
  inductive SPermv : List SItem → List SItem → Prop
    | nil : SPermv [] []
    | cons {a b : SItem} {l1 l2 : List SItem} : SEqv a b → SPermv l1 l2 → SPermv (a :: l1) (b :: l2)
    | swap {a b : SItem} {l : List SItem} : SPermv (a :: b :: l) (b :: a :: l)
    | trans {l1 l2 l3 : List SItem} : SPermv l1 l2 → SPermv l2 l3 → SPermv l1 l3
end

end Annet.DiffText
