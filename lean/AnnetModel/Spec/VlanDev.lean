/-
C11 — specification only (not annet code): what a device does with the VLAN-list commands.

A device holds one VLAN set per list (`port trunk allow-pass vlan`, `vlan batch`, `switchport trunk
allowed vlan`, …).  Commands either remove the listed ids, add them, clear the list, or (Cisco,
`switchport trunk allowed vlan X` without `add`) replace it.  The device reads range syntax with its
own reader (`readH`, `readC`), written independently of annet's `expand` functions: `a to b` / `a-b`
need `a < b` and denote the closed interval.

Sets are `List Nat` up to membership.
-/
import AnnetModel.Model.Vlan

namespace Annet.Vlan.Spec
open Annet.Vlan

/-- effect of one command on the VLAN set -/
inductive Act where
  | rem (vs : List Nat)
  | add (vs : List Nat)
  | clear
  | set (vs : List Nat)
  deriving Repr, DecidableEq

def Act.apply : Act → List Nat → List Nat
  | .rem X, S => S.filter fun v => !X.contains v
  | .add Y, S => S ++ Y
  | .clear, _ => []
  | .set Y, _ => Y

/-- closed interval `a..b` -/
def interval (a b : Nat) : List Nat := List.range' a (b + 1 - a)

/-- Huawei range list: `a` | `a to b` with `a < b`, blank separated -/
def readH : HRow → Option (List Nat)
  | [] => some []
  | .n a :: .to :: .n b :: rest => if a < b then (readH rest).map (interval a b ++ ·) else none
  | .n a :: rest => (readH rest).map (a :: ·)
  | _ => none

/-- Cisco range list: `a` | `a-b` with `a < b`, comma separated -/
def readC : List (List Nat) → Option (List Nat)
  | [] => some []
  | [a] :: rest => (readC rest).map (a :: ·)
  | [a, b] :: rest => if a < b then (readC rest).map (interval a b ++ ·) else none
  | _ => none

/-- a Huawei list: its prefix (`port trunk allow-pass vlan`) and, if the platform has one, the
command that deletes the whole list (`undo port trunk allow-pass vlan all`, `undo instance 1`) -/
structure HDev where
  pfx : HRow
  clearCmd : Option HRow

/-- `undo <pfx> <ranges>` removes, `<pfx> <ranges>` adds, the clear command empties;
anything else is not a command of this list (`none`). -/
def interpH (d : HDev) (cmd : HRow) : Option Act :=
  if some cmd = d.clearCmd then some .clear
  else match cmd with
    | [] => none
    | t :: rest =>
      if t = .w "undo" then
        if d.pfx.isPrefixOf rest && !(rest.drop d.pfx.length).isEmpty then
          (readH (rest.drop d.pfx.length)).map .rem
        else none
      else if d.pfx.isPrefixOf cmd && !(cmd.drop d.pfx.length).isEmpty then
        (readH (cmd.drop d.pfx.length)).map .add
      else none

/-- the device behind a Huawei rule: `multi_all` lists have `undo <pfx> all`, a `single` list is deleted as a
whole by the rule's reverse command `rev` (`undo instance 1`), plain `multi` lists (`vlan batch`) have neither -/
def hDevice (m : HMode) (p rev : HRow) : HDev :=
  { pfx := p
    clearCmd := match m with
      | .multiAll => some (.w "undo" :: (p ++ [.w "all"]))
      | .single => some rev
      | .multi => none }

/-- NOT the shipped code: `single` applied to the leaf rows of one key **as it was before the
repair 7d0d905** (huawei/vlandb.py:63 read `elif not multi and not multi_all:`), i.e. the whole-key
reverse command was emitted whenever one line was removed and none added, unchanged sibling lines or
not.  Everywhere else the old and the repaired rule coincide.  Only used to document what the repair
changed (`C11_huawei_single_old_rule_false`). -/
def hLeafSingleOldRule (rev : HRow) (old new : List HRow) : Except Err (List (Yield HRow Unit)) :=
  let d := leafBuckets old new
  if d.affected.isEmpty && d.removed.length = 1 && d.added.isEmpty then .ok [⟨false, rev, none⟩]
  else hLeaf .single rev old new

/-- a Cisco list: prefix and whether changes are explicit (`add` / `remove` keywords:
`switchport trunk allowed vlan`) or not (`vlan`, `vlan group … vlan-list`) -/
structure CDev where
  pfx : CRow
  explicit : Bool

/-- the device behind a Cisco rule: `swtrunk` lists are explicit, `simple` ones are not -/
def cDevice (m : CMode) (p : CRow) : CDev :=
  { pfx := p, explicit := match m with | .swtrunk => true | .simple => false }

def readC1 (parts : List (List Nat)) : Option (List Nat) :=
  if parts.isEmpty then none else readC parts

/-- `<pfx> none` empties; `no <pfx> [remove] <spec>` removes; `<pfx> add <spec>` / (implicit lists)
`<pfx> <spec>` adds; on an explicit list `<pfx> <spec>` replaces the whole list. -/
def interpC (d : CDev) (cmd : CRow) : Option Act :=
  if cmd = d.pfx ++ [.w "none"] then some .clear
  else match cmd with
    | [] => none
    | t :: rest =>
      if t = .w "no" then
        if d.pfx.isPrefixOf rest then
          match rest.drop d.pfx.length, d.explicit with
          | [.w kw, .spec parts], true => if kw = "remove" then (readC1 parts).map .rem else none
          | [.spec parts], false => (readC1 parts).map .rem
          | _, _ => none
        else none
      else if d.pfx.isPrefixOf cmd then
        match cmd.drop d.pfx.length, d.explicit with
        | [.w kw, .spec parts], true => if kw = "add" then (readC1 parts).map .add else none
        | [.spec parts], true => (readC1 parts).map .set
        | [.spec parts], false => (readC1 parts).map .add
        | _, _ => none
      else none

/-- run the commands one after the other; `none` if one of them is not understood -/
def runDev {ρ : Type} (interp : ρ → Option Act) : List ρ → List Nat → Option (List Nat)
  | [], S => some S
  | c :: cs, S =>
    match interp c with
    | some a => runDev interp cs (a.apply S)
    | none => none

/-- all the states the device goes through, the initial one included -/
def traceDev {ρ : Type} (interp : ρ → Option Act) : List ρ → List Nat → Option (List (List Nat))
  | [], S => some [S]
  | c :: cs, S =>
    match interp c with
    | some a => (traceDev interp cs (a.apply S)).map (S :: ·)
    | none => none

/-- the lines of one side are pairwise disjoint as VLAN sets: they are a splitting of a range list -/
def Disj {ρ : Type} (vl : ρ → List Nat) (rows : List ρ) : Prop :=
  ∀ a ∈ rows, ∀ b ∈ rows, a ≠ b → ∀ v ∈ vl a, v ∉ vl b

/-- the VLAN set a list of lines denotes -/
def setOf {ρ : Type} (vl : ρ → List Nat) (rows : List ρ) : List Nat := rows.flatMap vl

/-- executing `cmds` in this order from `Sold`: every command is understood and the device ends
with exactly the set `Snew` -/
def EndsIn {ρ : Type} (interp : ρ → Option Act) (cmds : List ρ) (Sold Snew : List Nat) : Prop :=
  ∃ S', runDev interp cmds Sold = some S' ∧ ∀ v, v ∈ S' ↔ v ∈ Snew

/-- … and no state on the way (the first and the last included) lacks a VLAN that is in both sets -/
def KeepsCommon {ρ : Type} (interp : ρ → Option Act) (cmds : List ρ) (Sold Snew : List Nat) : Prop :=
  ∃ T, traceDev interp cmds Sold = some T ∧ ∀ st ∈ T, ∀ v, v ∈ Sold → v ∈ Snew → v ∈ st

/-- the prefix `_parse_vlancfg` finds in a row (if it parses) -/
def pfxOf (r : HRow) : Option HRow :=
  match hParseVlancfg r with
  | .ok (p, _) => some p
  | .error _ => none

/-- the ids `_parse_vlancfg` finds in a row (if it parses) -/
def idsOf (r : HRow) : List Nat :=
  match hParseVlancfg r with
  | .ok (_, ids) => ids
  | .error _ => []

def isBatchRow (it : DItem) : Bool := pfxOf it.row == some [.w "vlan", .w "batch"]

/-- the ids `_parse_vlancfg` (cisco) finds in a row (if it parses) -/
def idsOfC (r : CRow) : List Nat :=
  match cParseVlancfg r with
  | .ok (_, ids) => ids
  | .error _ => []

end Annet.Vlan.Spec
