/-
C08, first sentence of the property, in terms of the rulebook: which sort key `Orderer.get_order` gives a command.
Specification vocabulary.
-/
import AnnetModel.Model.Patch

namespace Annet.Patch
open Annet.Rules Annet.Pattern

/-- an ordering rule without `%order_reverse`, `%scope` and `%global`, whose row and negated row are inside the grammar -/
def PlainO (v : Vendor) (r : ORule) : Prop :=
  r.orderReverse = false ∧ r.scope = none ∧ r.isGlobal = false ∧ (oDirectPat r).isSome ∧ (oReversePat v r).isSome

/-- the rule matches the command, written as the rule says or in negated form -/
def oMatches (v : Vendor) (r : ORule) (row : String) : Bool :=
  ((oDirectPat r).bind fun p => p.match? row.toList).isSome || ((oReversePat v r).bind fun p => p.match? row.toList).isSome

end Annet.Patch
