/-
Test-only logic functions, the Lean twins of harness/logicmods/verif.py.  They are NOT annet code: they stand for
the vendor logics that look at the UNCHANGED bucket (huawei vlan lists / prefix lists, aruba ap-env), so that the
correspondence check exercises the front ends with bucket-sensitive logic tables (C16, C20).
-/
import AnnetModel.Model.Patch

namespace Annet.TestLogics
open Annet Annet.Rules Annet.Patch

def lastWord (row : String) : String :=
  String.ofList ((Pattern.splitBlank row.toList).getLast?.getD [])

def entries (l : List PreEntry) : List Yield := l.map fun e => ⟨true, e.row, some e.children⟩

/-- `verif.sensitive` -/
def sensitive : LogicFn := fun v attrs it =>
  match it with
  | .mk key a r m f u =>
    match reverseCmd v attrs key with
    | none => .error .grammar
    | some rev =>
      if !r.isEmpty && a.isEmpty && f.isEmpty && m.isEmpty then
        if !u.isEmpty then .ok (r.map fun e => ⟨false, rev ++ " only " ++ lastWord e.row, none⟩)
        else .ok [⟨false, rev ++ " all", none⟩]
      else
        .ok (entries a ++ entries m ++ entries f ++ (if r.isEmpty then [] else [⟨false, rev, none⟩]))

/-- `verif.always` -/
def always : LogicFn := fun v attrs it =>
  match it with
  | .mk key a r m f u =>
    let rows := (u ++ a ++ f ++ m).map (·.row)
    match rows with
    | row :: _ => .ok [⟨true, "refresh " ++ row, none⟩]
    | [] =>
      if r.isEmpty then .ok [] else
        match reverseCmd v attrs key with
        | none => .error .grammar
        | some rev => .ok [⟨false, rev, none⟩]

/-- the common logics plus the test logics -/
def runLogicPlus : LogicFn := fun v attrs it =>
  if attrs.logic == "verif.sensitive" then sensitive v attrs it
  else if attrs.logic == "verif.always" then always v attrs it
  else runLogic v attrs it

end Annet.TestLogics
