/-
Specification of the offside rule (C05), written declaratively and *not* as a
stack machine: the ancestors of a line are found by scanning backwards for the
nearest preceding line with strictly smaller indentation, repeatedly.

This file is specification, not annet code (trusted base item 5 of DESIGN §4).
-/
import AnnetModel.Model.Offside

namespace Annet.Offside.Spec

/-- `chain prevRev b`: scanning the preceding significant lines of the section
(nearest first), collect the nearest line with indent `< b`, then the nearest
one before *that* with smaller indent still, and so on. -/
def chain : List (Nat × String) → Nat → List (Nat × String)
  | [], _ => []
  | (k, s) :: rest, b => if k < b then (k, s) :: chain rest k else chain rest b

/-- The last line together with its ancestors: the open blocks. -/
def openChain : List (Nat × String) → List (Nat × String)
  | [] => []
  | (k, s) :: rest => (k, s) :: chain rest k

/-- A new line with indent `k` is consistent with the preceding lines of its
section iff it is not left of the section's first line and it either does not
dedent, or dedents to the column of an open block. -/
def consistent (prevRev : List (Nat × String)) (k : Nat) : Bool :=
  match prevRev with
  | [] => true
  | (k0, s0) :: rest =>
    (match ((k0, s0) :: rest).getLast? with
      | some (g, _) => decide (g ≤ k)
      | none => true) &&
    (decide (k0 ≤ k) || (openChain ((k0, s0) :: rest)).any (fun p => p.1 == k))

/-- Path of a line: bodies of its ancestors, outermost first, then itself. -/
def path (prevRev : List (Nat × String)) (k : Nat) (s : String) : List String :=
  ((chain prevRev k).map (·.2)).reverse ++ [s]

/-- Reference parser over items; `prevRev` = significant lines of the current
section so far, nearest first; `n` = 1-based line number. -/
def run : List Item → List (Nat × String) → Nat → Except Nat (List (List String))
  | [], _, _ => .ok []
  | .blank :: rest, prev, n => run rest prev (n + 1)
  | .sectionEnd :: rest, _, n => run rest [] (n + 1)
  | .text k s :: rest, prev, n =>
    if consistent prev k then
      match run rest ((k, s) :: prev) (n + 1) with
      | .error e => .error e
      | .ok out => .ok (path prev k s :: out)
    else .error n

def stacks (items : List Item) : Except Nat (List (List String)) := run items [] 1

/-- scale / shift every indent by a map -/
def mapIndent (f : Nat → Nat) : Item → Item
  | .text k s => .text (f k) s
  | i => i

end Annet.Offside.Spec
