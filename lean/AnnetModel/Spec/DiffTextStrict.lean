/-
A strict reader for the `formatter.diff` view of a diff (C03, last clause).

`parseSigned` (Spec/DiffText.lean) drops the block-end lines, whatever their sign and position.  The strict reader
keeps them (`RLine.close sign level`) and checks the bracket discipline: a block-end line is accepted only right
after the children of an entry with at least one child, at the level of that entry and with the SIGN of that entry
(`CommonFormatter._diff_lines` prints `"%s %s%s" % (sign, indent * level, block_end)` with the sign of the block's
own entry); such a line is then mandatory.

Core Lean only.
-/
import AnnetModel.Spec.DiffText

namespace Annet.DiffText

/-- a line as the strict reader sees it: an entry, or a block-end line with its sign and level -/
inductive RLine where
  | entry (p : PLine)
  | close (s : Sign) (lvl : Nat)
  deriving Repr, Inhabited, DecidableEq

/-- the level of a line -/
def RLine.level : RLine → Nat
  | .entry p => p.lvl
  | .close _ l => l

/-- one line of `formatter.diff`, block-end lines kept: `none` = not a diff line -/
def readLineS (f : Fmt) : Txt → Option RLine
  | c :: _ :: rest =>
    match Sign.ofChar c with
    | none => none
    | some s =>
      let r := stripIndent f.indent rest
      if !f.blockEnd.isEmpty && r.2 == f.blockEnd then some (.close s r.1)
      else some (.entry ⟨s, r.1, stripBody f r.2⟩)
  | _ => none

def readLinesS (f : Fmt) : List Txt → Option (List RLine)
  | [] => some []
  | l :: rest =>
    match readLineS f l, readLinesS f rest with
    | some p, some ps => some (p :: ps)
    | _, _ => none

/-- what must follow the children `kids` of an entry with sign `s` at level `lvl`: when the formatter has a
block-end mark (`he`) and there is at least one child, a block-end line with the same sign and level (consumed);
otherwise nothing is consumed -/
def takeClose (he : Bool) (s : Sign) (lvl : Nat) (kids : List SItem) (rest : List RLine) : Option (List RLine) :=
  if he && !kids.isEmpty then
    match rest with
    | .close s' l' :: r => if s' = s ∧ l' = lvl then some r else none
    | _ => none
  else some rest

/-- the recursive descent of `build`, with the bracket discipline checked (`he`: the formatter has a block-end
mark).  A block-end line is legal only where `takeClose` expects it; one of a smaller level ends the current list
(the enclosing block checks it); any other one makes the parse fail. -/
def buildS (he : Bool) : Nat → Nat → List RLine → Option (List SItem × List RLine)
  | 0, _, _ => none
  | _ + 1, _, [] => some ([], [])
  | _ + 1, lvl, .close s l :: ls => if l < lvl then some ([], .close s l :: ls) else none
  | fuel + 1, lvl, .entry p :: ls =>
    if p.lvl < lvl then some ([], .entry p :: ls)
    else
      match buildS he fuel (p.lvl + 1) ls with
      | none => none
      | some kids =>
        match takeClose he p.sign p.lvl kids.1 kids.2 with
        | none => none
        | some r =>
          match buildS he fuel lvl r with
          | none => none
          | some sibs => some (SItem.mk p.sign p.row kids.1 :: sibs.1, sibs.2)

/-- read `formatter.diff(diff)` back, checking the block-end lines; nothing may be left over -/
def parseSignedStrict (f : Fmt) (lines : List Txt) : Option (List SItem) :=
  match readLinesS f lines with
  | none => none
  | some ps =>
    match buildS (!f.blockEnd.isEmpty) (ps.length + 1) 0 ps with
    | some (items, []) => some items
    | _ => none

end Annet.DiffText
