/-
C13 — specification-only definitions: how the property reads a document through a
concrete pointer, what "selected by a glob pointer" means, the zones of a pointer
with respect to a pattern, the one-schema hypothesis (`SpineObj`) and its weakening
`SpineNoArr`, sub-documents, and the resolver rule of before commit 33969c0.
None of this is annet code.
-/
import AnnetModel.Model.Json

namespace Annet.Json

/-- The value at a concrete pointer: objects by key, arrays by canonical decimal
index.  Strings and the other scalars have no children (RFC 6901). -/
def getP : Ptr → J → Option J
  | [], d => some d
  | k :: rest, .obj kvs =>
    match lookup k kvs with
    | some c => getP rest c
    | none => none
  | k :: rest, .arr xs =>
    match parseIndex k with
    | some i =>
      match xs[i]? with
      | some c => getP rest c
      | none => none
    | none => none
  | _ :: _, _ => none

/-- `q` is selected by the glob parts `p`: same length, every part matches. -/
def matchPtr : List String → Ptr → Bool
  | [], [] => true
  | g :: gs, k :: ks => fnmatch k g && matchPtr gs ks
  | _, _ => false

/-- `q` is on the spine of `p`: it matches the first `|q|` parts of `p` (`|q| ≤ |p|`). -/
def prefMatch : List String → Ptr → Bool
  | _, [] => true
  | g :: gs, k :: ks => fnmatch k g && prefMatch gs ks
  | [], _ :: _ => false

/-- `q` is inside the region of `p`: its first `|p|` parts are selected by `p`. -/
def covers : List String → Ptr → Bool
  | [], _ => true
  | g :: gs, k :: ks => fnmatch k g && covers gs ks
  | _ :: _, [] => false

/-- `q` is outside `p`: it leaves the pattern at some part (neither inside nor an ancestor). -/
def outsideOf (p : List String) (q : Ptr) : Bool := !prefMatch p q && !covers p q

/-- One schema: whatever a document has at a proper ancestor of a selectable pointer
is an object ("a path is an object in every document that has it"). -/
def SpineObj (ps : List (List String)) (d : J) : Prop :=
  ∀ p ∈ ps, ∀ q : Ptr, q.length < p.length → prefMatch p q = true → ∀ v, getP q d = some v → v.isObj = true

/-- executable sufficient test for `SpineObj [p] d`: walking `d` along `p`, every node met before
the last part is an object -/
def spineOk : List String → J → Bool
  | [], _ => true
  | g :: gs, .obj kvs => kvs.all (fun kv => !fnmatch kv.1 g || spineOk gs kv.2)
  | _ :: _, _ => false

def J.isArr : J → Bool
  | .arr _ => true
  | _ => false

/-- No array above a selectable pointer: whatever a document has at a proper ancestor of a
selectable pointer is an object or a scalar (a string, a number, `true`/`false`, `null`).
Weaker than `SpineObj`; sufficient for the fragment and for filtered documents since
commit 33969c0 (a pattern stops at a string as it stops at any other scalar). -/
def SpineNoArr (ps : List (List String)) (d : J) : Prop :=
  ∀ p ∈ ps, ∀ q : Ptr, q.length < p.length → prefMatch p q = true → ∀ v, getP q d = some v → v.isArr = false

/-- executable sufficient test for `SpineNoArr [p] d` -/
def noArrOk : List String → J → Bool
  | [], _ => true
  | g :: gs, .obj kvs => kvs.all (fun kv => !fnmatch kv.1 g || noArrOk gs kv.2)
  | _ :: _, .arr _ => false
  | _ :: _, _ => true

/-- every acl text is a JSON pointer and `ps` lists their (unescaped) parts -/
def ParsedAcl : List String → List (List String) → Prop
  | [], [] => True
  | pat :: acl, p :: ps => parsePointer pat = .ok p ∧ ParsedAcl acl ps
  | _, _ => False

/-- the acl texts of a chain of generators and their parsed parts, generator by generator -/
def ParsedGens : List (J × List String) → List (List (List String)) → Prop
  | [], [] => True
  | g :: gens, ps :: pss => ParsedAcl g.2 ps ∧ ParsedGens gens pss
  | _, _ => False

/-- `r|acl == f|acl` -/
def InsideEq (ps : List (List String)) (r f : J) : Prop :=
  ∀ p ∈ ps, ∀ q, covers p q = true → getP q r = getP q f

/-- `r|not acl == old|not acl` (ancestors of selected pointers are neither inside nor outside) -/
def OutsideEq (ps : List (List String)) (r old : J) : Prop :=
  ∀ q, (∀ p ∈ ps, outsideOf p q = true) → getP q r = getP q old

/-- `d` has an object at pointer `a` -/
def ObjAt (a : Ptr) (d : J) : Prop := ∃ kvs, getP a d = some (.obj kvs)

/-- two pointers part ways at some index both have -/
def Div : Ptr → Ptr → Prop
  | a :: as, b :: bs => a ≠ b ∨ Div as bs
  | _, _ => False

/-- reference update along an object path: create missing ancestors, then bind the last key -/
def setO : Ptr → J → J → J
  | [], v, _ => v
  | k :: rest, v, .obj kvs =>
    let child := match lookup k kvs with
      | some c => c
      | none => J.obj []
    .obj (upsert k (setO rest v child) kvs)
  | _ :: _, _, d => d

/-- reference removal of a key along an object path -/
def popO : Ptr → J → J
  | [], d => d
  | [k], .obj kvs => .obj (erase k kvs)
  | k :: k2 :: rest, .obj kvs =>
    match lookup k kvs with
    | some c => .obj (upsert k (popO (k2 :: rest) c) kvs)
    | none => .obj kvs
  | _ :: _, d => d

/-- the ancestors of `q` that `d` has are objects, down to the parent of the last part -/
def Admits : Ptr → J → Prop
  | [], _ => True
  | [_], d => d.isObj = true
  | k :: k2 :: rest, .obj kvs =>
    match lookup k kvs with
    | none => True
    | some c => Admits (k2 :: rest) c
  | _ :: _ :: _, _ => False

/-- the parent of the last part of `q` exists in `d` and all ancestors are objects -/
def PopOk : Ptr → J → Prop
  | [], _ => True
  | [_], d => d.isObj = true
  | k :: k2 :: rest, .obj kvs =>
    match lookup k kvs with
    | none => False
    | some c => PopOk (k2 :: rest) c
  | _ :: _ :: _, _ => False

mutual
  /-- `r` is a sub-document of `d`: objects keep a subset of the keys, everything else is equal -/
  def isSub : J → J → Bool
    | .obj kvs, .obj kvs' => isSubKvs kvs kvs'
    | r, d => J.beq r d
  def isSubKvs : List (String × J) → List (String × J) → Bool
    | [], _ => true
    | (k, v) :: rest, kvs' =>
      (match lookup k kvs' with
       | some v' => isSub v v'
       | none => false) && isSubKvs rest kvs'
end

/-- stable insertion by `path` (after every operation whose path is not greater) -/
def insertByPath (o : Op) : List Op → List Op
  | [] => [o]
  | x :: xs => if o.path < x.path then o :: x :: xs else x :: insertByPath o xs

/-- `sorted(ops, key=itemgetter("path"))`: what `make_patch` did before commit 18103e9 -/
def sortByPath (ops : List Op) : List Op :=
  ops.foldl (fun acc o => insertByPath o acc) []

/-! ### the resolver BEFORE commit 33969c0 (`elif isinstance(doc, Sequence):`)

Not annet code any more: kept to state why the repair matters (`…_old_rule_false`). -/

/-- a Python `str` is a `Sequence`: the old rule enumerated its characters as children -/
def childrenOfOld : J → List (String × J)
  | .str s => (strChars s).zipIdx.map (fun (v, i) => (idxKey i, v))
  | d => childrenOf d

def levelStepOld (part : String) (matched : List (Ptr × J)) : List (Ptr × J) :=
  matched.flatMap fun m =>
    ((childrenOfOld m.2).filter (fun kv => fnmatch kv.1 part)).map fun kv => (m.1 ++ [kv.1], kv.2)

def resolveOld (pattern : String) (d : J) : Except Err (List Ptr) := do
  let parts ← parsePointer pattern
  ((parts.foldl (fun m part => levelStepOld part m) [([], d)]).map (·.1)).mapM rebuild

/-- `apply_json_fragment` over the old resolver -/
def fragStepOld (f : J) (r : J) (pattern : String) : Except Err J := do
  let newPtrs ← resolveOld pattern f
  let oldPtrs ← resolveOld pattern r
  let r1 ← newPtrs.foldlM (setStep f) r
  let toDelete := oldPtrs.filter (fun q => !(newPtrs.contains q))
  toDelete.foldlM (fun r q => popPtr q r) r1

def applyFragmentOld (old f : J) (acl : List String) : Except Err J :=
  acl.foldlM (fragStepOld f) old

/-- `apply_acl_filters` over the old resolver -/
def filterStepOld (content : J) (result : J) (f : String) : Except Err J :=
  let text := pyStrip f
  if text = "" then .ok result
  else do
    let ptrs ← resolveOld text content
    ptrs.foldlM (filterPtr content) result

def applyAclFiltersOld (content : J) (filters : List String) : Except Err J :=
  filters.foldlM (filterStepOld content) (.obj [])

/-- the assumption under which the patch law is stated: the diff library is correct -/
def LibCorrect (lib : J → J → List Op) : Prop :=
  ∀ a b, applyPatch a (lib a b) = .ok b

end Annet.Json
