/-
The abstract view of one level of the device: a finite map from slots (rule, key) to the line holding
the slot.  `Spec/Device.lean`'s concrete level (an ordered list of lines) refines it.  Specification only.
-/
import AnnetModel.Spec.Device
import AnnetModel.Model.Api

namespace Annet.Device.Abs
open Annet Annet.Rules Annet.Device

abbrev Slot := String × List String

def slotOf (rules : PRules) (row : String) : Option Slot :=
  (classify rules row).map fun mc => (mc.1.rawRule, mc.1.key)

/-- the line holding a slot at a level (first one) -/
def holder (rules : PRules) (kids : List (String × Cfg)) (s : Slot) : Option String :=
  (kids.find? fun e => slotOf rules e.1 == some s).map (·.1)

/-- well-formed level: every line is known to the rules and no two lines hold the same slot -/
def WF (rules : PRules) (kids : List (String × Cfg)) : Prop :=
  (∀ e ∈ kids, (slotOf rules e.1).isSome) ∧
  (kids.map fun e => slotOf rules e.1).Nodup

/-- an abstract command of a flat patch -/
inductive Cmd where
  | put (row : String)
  | del (row : String)      -- `reverse row`
  | nop                      -- block-exit word
  deriving Repr, DecidableEq

def Cmd.text (env : Env) : Cmd → String
  | .put r => r
  | .del r => env.reverse ++ " " ++ r
  | .nop => env.exits.headD ""

/-- the abstract machine: a command updates one slot of the map -/
def absStep (rules : PRules) (f : Slot → Option String) : Cmd → Slot → Option String
  | .put r, s => if slotOf rules r = some s then some r else f s
  | .del r, s => if slotOf rules r = some s then none else f s
  | .nop, s => f s

/-- the commands a patch tree sends at its top level, as single-word paths (flat patches) -/
def flatPaths (t : Patch.PTree) : List (List String) := t.items.map fun it => [it.1]

def rowsOf (c : Cfg) : List String := c.kids.map (·.1)

end Annet.Device.Abs
