/-
Specification-only definitions for C09 (not annet code): what "the displayed patch" and
"the rule chain matching a block path" mean.
-/
import AnnetModel.Model.Format
import AnnetModel.Model.Deploy

namespace Annet.Format.Spec
open Annet.Format

/-- The loop of `cmd_paths` *without* the dictionary: the block path of every row the generator
yields, in order, repetitions kept.  This is the list of block paths of the lines shown by
`patch()` (see `C09_shown_lines_are_block_paths`). -/
def rawPathsAux : List Tok → List String → Except PyErr (List (List String × Ctx))
  | [], _ => .ok []
  | .bb :: rest, path =>
    match path.getLast? with
    | none => .error .indexError
    | some t => rawPathsAux rest (path ++ [t])
  | .be :: rest, path =>
    if path.isEmpty then .error .indexError else rawPathsAux rest path.dropLast
  | .row r c :: rest, path =>
    let path' := path.dropLast ++ [r]
    (rawPathsAux rest path').map ((path', c) :: ·)

/-- block paths of the shown lines of `formatter.patch(pt)` -/
def shownPaths (ex : FCtx → List Mark) (pt : PT) : Except PyErr (List (List String × Ctx)) :=
  rawPathsAux (blocksTree ex none pt) []

/-- the ordered dictionary built from a list of `(key, value)` assignments -/
def odictOfList {κ ν : Type} [BEq κ] (l : List (κ × ν)) : List (κ × ν) :=
  l.foldl (fun d e => odictSet d e.1 e.2) []

/-- a well-formed result of `block_exit`: nothing, `block_wrapper(x)`, or a bare statement -/
def ExitOk (ms : List Mark) : Prop := ms = [] ∨ (∃ x, ms = blockWrapper x) ∨ (∃ x, ms = [.s x])

/-- token lists that are a sequence of rows and bracketed blocks (what a generator yields below a
row that is already on the path) -/
inductive Seg : List Tok → Prop
  | nil : Seg []
  | row (r : String) (c : Ctx) {rest : List Tok} : Seg rest → Seg (.row r c :: rest)
  | block {inner rest : List Tok} : Seg inner → Seg rest → Seg (.bb :: (inner ++ .be :: rest))

/-- keep the first occurrence of every key -/
def dedupKeys {κ : Type} [BEq κ] : List κ → List κ
  | [] => []
  | k :: ks => k :: (dedupKeys ks).filter (fun k' => !(k' == k))

/-- the bare statement of a `block_exit` result (yielded at the level of the block's own row) -/
def bareWords (ms : List Mark) : List String :=
  match ms with
  | [.s x] => if x.isEmpty then [] else [x]
  | _ => []

/-- the statement of a `block_wrapper(x)` result (yielded one level deeper, after the block's rows) -/
def wrappedWords (ms : List Mark) : List String :=
  match ms with
  | [.bb, .s x, .be] => if x.isEmpty then [] else [x]
  | _ => []

/-- the commands shown at the level of `items`: the rows, and the bare exit statements after blocks -/
def levelWords (ex : FCtx → List Mark) (parent : Option FCtx) (prev : Option (String × Ctx)) : List Item → List String
  | [] => []
  | (row, none, rc) :: rest => row :: levelWords ex parent (some (row, rc)) rest
  | (row, some _, rc) :: rest =>
    row :: (bareWords (ex (ctxAt parent prev row rc rest)) ++ levelWords ex parent (some (row, rc)) rest)

mutual
  /-- `NoDupPaths`, structurally: in every block the rows, the bare exit statements and the exit
  statement the formatter appends to the block (`extra`) are pairwise distinct -/
  def NoDupTree (ex : FCtx → List Mark) (parent : Option FCtx) (extra : List String) : PT → Prop
    | .mk items => (levelWords ex parent none items ++ extra).Nodup ∧ NoDupItems ex parent none items
  def NoDupItems (ex : FCtx → List Mark) (parent : Option FCtx) (prev : Option (String × Ctx)) : List Item → Prop
    | [] => True
    | (row, none, rc) :: rest => NoDupItems ex parent (some (row, rc)) rest
    | (row, some c, rc) :: rest =>
      NoDupTree ex (some (ctxAt parent prev row rc rest)) (wrappedWords (ex (ctxAt parent prev row rc rest))) c ∧
      NoDupItems ex parent (some (row, rc)) rest
end

def NoDupPaths (ex : FCtx → List Mark) (pt : PT) : Prop := NoDupTree ex none [] pt

/-- block paths contributed by the exit statements of the block of `row` -/
def exitFlat (ms : List Mark) (pre : List String) (row : String) (last : Ctx) : List (List String × Ctx) :=
  (wrappedWords ms).map (fun x => (pre ++ [row, x], last)) ++ (bareWords ms).map (fun x => (pre ++ [x], last))

mutual
  /-- the block paths of the shown lines, by recursion on the tree (`pre` = path of the enclosing block) -/
  def flatTree (ex : FCtx → List Mark) (parent : Option FCtx) (pre : List String) : PT → List (List String × Ctx)
    | .mk items => flatItems ex parent none pre items
  def flatItems (ex : FCtx → List Mark) (parent : Option FCtx) (prev : Option (String × Ctx)) (pre : List String) :
      List Item → List (List String × Ctx)
    | [] => []
    | (row, none, rc) :: rest => (pre ++ [row], rc) :: flatItems ex parent (some (row, rc)) pre rest
    | (row, some c, rc) :: rest =>
      (pre ++ [row], rc) :: (flatTree ex (some (ctxAt parent prev row rc rest)) (pre ++ [row]) c ++
        (exitFlat (ex (ctxAt parent prev row rc rest)) pre row
            (lastCtx rc (blocksTree ex (some (ctxAt parent prev row rc rest)) c)) ++
          flatItems ex parent (some (row, rc)) pre rest))
end

end Annet.Format.Spec

namespace Annet.Deploy.Spec
open Annet.Deploy
open Annet.Format (Ctx)

/-- `%ifcontext` of a rule holds for the context of the command -/
def ctxHolds (ctx : Ctx) (r : DRule) : Bool :=
  match matchContext r.ifcontext ctx with
  | .ok true => true
  | _ => false

/-- The rule chain the property speaks about: at every level the *first* rule whose pattern
matches the row and whose `%ifcontext` holds; a row no rule matches (an ancestor block without a
rule of its own) is skipped; the chain must end at the last row of the path, else the default. -/
def specChain (rx : Rx) (ctx : Ctx) : List DRule → List String → DRule
  | _, [] => defaultRule
  | rules, row :: more =>
    match rules.find? (fun r => rx r.row row && ctxHolds ctx r) with
    | none => specChain rx ctx rules more
    | some r => if more.isEmpty then r else specChain rx ctx r.children more

/-- sibling rules have disjoint languages: no command is matched by two of them -/
def SiblingsDisjoint (rx : Rx) (rules : List DRule) : Prop :=
  ∀ row, rules.Pairwise (fun a b => ¬ (rx a.row row = true ∧ rx b.row row = true))

mutual
  /-- … at every level of the rulebook -/
  def DisjointL (rx : Rx) : List DRule → Prop
    | [] => True
    | r :: rs => DisjointR rx r ∧ DisjointL rx rs
  def DisjointR (rx : Rx) : DRule → Prop
    | .mk _ _ _ _ _ ch => SiblingsDisjoint rx ch ∧ DisjointL rx ch
end

def Disjoint (rx : Rx) (rules : List DRule) : Prop := SiblingsDisjoint rx rules ∧ DisjointL rx rules

end Annet.Deploy.Spec
