/-
Vocabulary for the C10 theorems.  Specification only (not annet code).
-/
import AnnetModel.Model.Gen
import AnnetModel.Spec.Acl
import AnnetModel.Spec.Implicit

namespace Annet.Gen.Spec
open Annet Annet.Acl Annet.Acl.Spec Annet.Offside

/-! ### exclusive ownership -/

/-- generator `n` owns a deletable rule among the matches: some matching rule lists `n` with `cant_delete` false -/
def Owns (ms : List Match) (n : String) : Prop :=
  ∃ m ∈ ms, (n, false) ∈ m.rule.genNames.zip m.rule.cantDelete

/-- the generators that may delete `row` at `rules`, if there are at least two of them -/
def conflictNames (v : Vendor) (rules : Rules) (row : String) : Option (List String) :=
  match findMatches v row rules with
  | some ms => if (canDeleteNames ms).length > 1 then some (canDeleteNames ms) else none
  | none => none

mutual
  /-- document-order first row, among the rows the filter reaches, that at least two generators may delete -/
  def firstConflict (v : Vendor) (rules : Rules) (path : List String) : Cfg → Option (List String × List String)
    | .mk ks => firstConflictL v rules path ks
  def firstConflictL (v : Vendor) (rules : Rules) (path : List String) :
      List (String × Cfg) → Option (List String × List String)
    | [] => none
    | (row, ch) :: rest =>
      match conflictNames v rules row with
      | some ns => some (path ++ [row], ns)
      | none =>
        match passRow v rules row with
        | none => firstConflictL v rules path rest
        | some cr =>
          match firstConflict v cr (path ++ [row]) ch with
          | some q => some q
          | none => firstConflictL v rules path rest
end

/-! ### where yielded lines belong

A generator program denotes a *layout*: every yield stands for its own lines (relative to the column of the block
it is yielded in), every block for a header line and a body further to the right.  `specPaths` says which
path every line belongs to: the block path, then the line's path inside its own yield. -/

inductive LOp where
  | emit (items : List Item)                                    -- a yield: its lines, classified, relative columns
  | block (header : String) (width : Nat) (body : List LOp)     -- a header line and a body `width` columns further right
  deriving Inhabited

/-- move a line `B` columns to the right -/
def shiftItem (B : Nat) : Item → Item
  | .text k s => .text (B + k) s
  | i => i

mutual
  /-- the lines of the generator's output, with absolute columns -/
  def layout (B : Nat) : LOp → List Item
    | .emit items => items.map (shiftItem B)
    | .block h w body => .text B h :: layoutL (B + w) body
  def layoutL (B : Nat) : List LOp → List Item
    | [] => []
    | op :: rest => layout B op ++ layoutL B rest
end

mutual
  /-- the paths of all lines, in output order: `none` if the lines of some yield are inconsistently indented
  among themselves -/
  def specPaths (path : List String) : LOp → Option (List (List String))
    | .emit items =>
      match stacks items with
      | .ok ss => some (ss.map (path ++ ·))
      | .error _ => none
    | .block h _ body =>
      match specPathsL (path ++ [h]) body with
      | some ps => some ((path ++ [h]) :: ps)
      | none => none
  def specPathsL (path : List String) : List LOp → Option (List (List String))
    | [] => some []
    | op :: rest =>
      match specPaths path op, specPathsL path rest with
      | some a, some b => some (a ++ b)
      | _, _ => none
end

/-- the first significant line of a yield starts at the block's column, and no line is a Huawei section end -/
def OwnOk : List Item → Bool
  | [] => true
  | .blank :: rest => OwnOk rest
  | .sectionEnd :: _ => false
  | .text k _ :: rest => k == 0 && rest.all (· != .sectionEnd)

mutual
  /-- every yield satisfies `OwnOk`, every block body is indented by at least one column -/
  def WF : LOp → Bool
    | .emit items => OwnOk items
    | .block _ w body => decide (0 < w) && WFL body
  def WFL : List LOp → Bool
    | [] => true
    | op :: rest => WF op && WFL rest
end

/-! ### the layout a generator program denotes -/

/-- the classified lines of a yielded text, columns relative to the block it is yielded in -/
def ownItems (text : String) : List Item :=
  (splitAndStrip text.toList).map fun r => classify comments (String.ofList r)

/-- `_split_and_strip` as it was before fix e9aec0a: a text without a newline was one row, taken verbatim -/
def splitAndStripOld (text : List Char) : List (List Char) :=
  if text.contains '\n' then splitNl (strip (joinNl (dedentLines (splitNl text))))
  else [text]

/-- the classified lines of a yielded text under the old rule -/
def ownItemsOld (text : String) : List Item :=
  (splitAndStripOld text.toList).map fun r => classify comments (String.ofList r)

/-- a block header must be one significant line starting at the block's column -/
def headerOf (h : String) : Option String :=
  match ownItems h with
  | [.text 0 body] => some body
  | _ => none

/-- a block indent must be a non-empty string of blanks and tabs -/
def IndentOk (s : String) : Bool := !s.toList.isEmpty && s.toList.all isBlankTab

def blockLayout (toks : List Val) (ind : String) (body : Option (List LOp)) : Option (List LOp) :=
  match joinToks toks, body with
  | some h, some b =>
    match headerOf h with
    | some hb => if IndentOk ind then some [.block hb ind.length b] else none
    | none => none
  | _, _ => none

def multiLayout : List (List Val) → Option (List LOp) → Option (List LOp)
  | [], inner => inner
  | b :: bs, inner => blockLayout b "  " (multiLayout bs inner)

mutual
  /-- `none`: the program raises, or uses a header / indent outside the domain of the layout theorem -/
  def toLayout : Op → Option (List LOp)
    | .yieldStr text => some [.emit (ownItems text)]
    | .yieldTuple vals =>
      match joinToks (flattenList vals) with
      | some t => some [.emit (ownItems t)]
      | none => none
    | .block toks indent body => blockLayout toks (indent.getD "  ") (toLayoutL body)
    | .blockIf toks cond body =>
      if cond.getD (defaultCond toks) then blockLayout toks "  " (toLayoutL body) else toLayoutL body
    | .multiblock blocks body => multiLayout blocks (toLayoutL body)
  def toLayoutL : List Op → Option (List LOp)
    | [] => some []
    | op :: rest =>
      match toLayout op, toLayoutL rest with
      | some a, some b => some (a ++ b)
      | _, _ => none
end

/-! ### the run over all generators -/

/-- every generator passes its own run (`cs` are the results of `_run_partial_generator`, in order) -/
def AllOk (v : Vendor) (sp : Splitter) : List GenDef → List Cfg → Prop
  | [], [] => True
  | g :: gens, c :: cs => runPartial v sp g = .ok c ∧ AllOk v sp gens cs
  | _, _ => False

/-- what the loop leaves in `partial_results` when no generator fails and the class names are distinct -/
def resultsOf : List GenDef → List Cfg → List Result
  | g :: gens, c :: cs => ⟨g.name, g.acl, c⟩ :: resultsOf gens cs
  | _, _ => []

end Annet.Gen.Spec
