/-
Vocabulary for `C14_refs_defined_cumulus`: who refers to a named list and who defines it in the text
`CumulusPolicyGenerator.generate_cumulus_rpl` emits (FRR syntax of the rows the generator produces).
Specification only (nothing here is annet code).
-/
import AnnetModel.Spec.Rpl

namespace Annet.Rpl.Spec
open Annet.Rpl

/-- the kinds of named lists in the Cumulus (FRR) text are those of the Arista text: community, extcommunity and
large-community lists, prefix lists (either family), as-path access lists -/
abbrev RefKindC := RefKindA

/-- the named list a row *inside a route-map entry* (a row behind `FRR_INDENT`) refers to:
`match community N`, `match large-community-list N`, `match extcommunity N`, `match ip address prefix-list N`,
`match ipv6 address prefix-list N`, `match as-path N`, `set comm-list N delete`.
(`set large-community N additive` / `set extcommunity rt N additive` pass the name where FRR expects a value; they are
not references in FRR's syntax and are not read as such.) -/
def refsOfRowC : List Str → List (RefKindC × Str)
  | ind :: h :: rest =>
    if ind != [' '] then []
    else if h == s "match community" then namedA .communityList rest.head?
    else if h == s "match large-community-list" then namedA .largeCommunityList rest.head?
    else if h == s "match extcommunity" then namedA .extcommunityList rest.head?
    else if h == s "set comm-list" then namedA .communityList rest.head?
    else if h == s "match" then
      match rest with
      | n :: rest' =>
        if n == s "ip address prefix-list" || n == s "ipv6 address prefix-list" then namedA .prefixList rest'.head?
        else if rest'.isEmpty then namedA .asPathList (dropPrefix (s "as-path ") n)
        else []
      | [] => []
    else []
  | _ => []

/-- the named list a top-level row defines: `bgp community-list standard|expanded N …`,
`bgp large-community-list … N …`, `bgp extcommunity … N …`, `ip|ipv6 prefix-list N …`, `ip as-path access-list N …` -/
def defsOfRowC : List Str → List (RefKindC × Str)
  | h :: rest =>
    if h == s "bgp community-list" then namedA .communityList rest.tail.head?
    else if h == s "bgp large-community-list" then namedA .largeCommunityList rest.tail.head?
    else if h == s "bgp extcommunity" then namedA .extcommunityList rest.tail.head?
    else if h == s "ip as-path access-list" then namedA .asPathList rest.head?
    else if h == s "ip" || h == s "ipv6" then
      match rest with
      | n :: rest' => if n == s "prefix-list" then namedA .prefixList rest'.head? else []
      | [] => []
    else []
  | [] => []

def refsC (rows : List (List Str)) : List (RefKindC × Str) := rows.flatMap refsOfRowC
def defsC (rows : List (List Str)) : List (RefKindC × Str) := rows.flatMap defsOfRowC

end Annet.Rpl.Spec
