/-
Provenance of patch commands (C02 clause (a), end to end): every item of the patch tree `make_patch` builds from
`make_pre(diff)` with the common logic functions stems from a diff entry of the same level — it is that entry's row
(a direct command, possibly a block whose children stem from the entry's children), the removal command
`rule["reverse"].format(*key)` of a REMOVED (or, for `common.ordered`, MOVED) entry, or the `commit` pseudo command of a
`%force_commit` rule.  Nothing else can appear in a patch.

Core Lean only.
-/
import AnnetModel.Model.Patch

namespace Annet.Patch
open Annet.Rules Annet.Diff

mutual
  /-- the patch tree stems from the diff entries `d`, level by level -/
  inductive ProvT (v : Vendor) : List DItem → PTree → Prop
    | mk {d : List DItem} {items : List (String × Option PTree × SortKey)} :
        ProvL v d items → ProvT v d (.mk items)
  inductive ProvL (v : Vendor) : List DItem → List (String × Option PTree × SortKey) → Prop
    | nil {d : List DItem} : ProvL v d []
    | cons {d : List DItem} {it : String × Option PTree × SortKey} {rest : List (String × Option PTree × SortKey)} :
        ProvI v d it → ProvL v d rest → ProvL v d (it :: rest)
  inductive ProvI (v : Vendor) : List DItem → String × Option PTree × SortKey → Prop
    /-- the row of a changed (or affected) entry, sent as a leaf command -/
    | leaf {d : List DItem} {e : DItem} {k : SortKey} :
        e ∈ d → e.op ≠ .unchanged → ProvI v d (e.row, none, k)
    /-- the row of an entry, sent as a block whose commands stem from the entry's children -/
    | block {d : List DItem} {e : DItem} {c : PTree} {k : SortKey} :
        e ∈ d → e.op ≠ .unchanged → ProvT v e.children c → ProvI v d (e.row, some c, k)
    /-- the removal command of a REMOVED / MOVED entry: the reverse template of its rule (`e'` carries the rule's
    attributes: `make_pre` keeps those of the first entry of the rule) filled with the entry's key -/
    | reverse {d : List DItem} {e e' : DItem} {row : String} {k : SortKey} :
        e ∈ d → (e.op = .removed ∨ e.op = .moved) → e' ∈ d → e'.m.rawRule = e.m.rawRule →
        reverseCmd v e'.m.attrs e.m.key = some row → ProvI v d (row, none, k)
    /-- the `commit` pseudo command after an item of a `%force_commit` rule -/
    | commit {d : List DItem} {e' : DItem} {k : SortKey} :
        e' ∈ d → e'.m.attrs.forceCommit = true → ProvI v d ("commit", none, k)
end

end Annet.Patch
