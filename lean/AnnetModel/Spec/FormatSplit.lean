/-
Specification-only definitions for C04: the well-formed domain of every vendor (decidable predicates),
the reference rendering of a tree (one line per row, `w·depth` blanks of indentation) and the two
statements `RoundTrip` / `FixPoint`.

This file is specification, not annet code (trusted base item 5 of DESIGN §4).
-/
import AnnetModel.Model.FormatSplit

namespace Annet.FormatSplit
open Annet Annet.Offside

/-- `n` blanks -/
def blanks (n : Nat) : Str := List.replicate n ' '

mutual
  /-- reference rendering: every row on its own line, in document order, behind `w * depth` blanks -/
  def render (w d : Nat) : Cfg → List Str
    | .mk ks => renderL w d ks
  def renderL (w d : Nat) : List (String × Cfg) → List Str
    | [] => []
    | (k, c) :: rest => (blanks (w * d) ++ k.toList) :: (render w (d + 1) c ++ renderL w d rest)
end

mutual
  /-- the same as offside items -/
  def items (w d : Nat) : Cfg → List Item
    | .mk ks => itemsL w d ks
  def itemsL (w d : Nat) : List (String × Cfg) → List Item
    | [] => []
    | (k, c) :: rest => Item.text (w * d) k :: (items w (d + 1) c ++ itemsL w d rest)
end

/-! ## rows -/

/-- A row every vendor can carry: not empty, no leading or trailing whitespace, no line break, and
not a comment for `parse_to_tree` (`!`, `#`). -/
def rowBase (r : Str) : Bool :=
  match r with
  | [] => false
  | c :: _ =>
    !pyIsSpace c && c != '!' && c != '#' && !(r.getLast?.any pyIsSpace) && !r.contains '\n'

/-- no two consecutive blanks (the vendors that run `split_remove_spaces` collapse them) -/
def noDbl : Str → Bool
  | ' ' :: ' ' :: _ => false
  | _ :: cs => noDbl cs
  | [] => true

/-- Juniper family: no tab, last character none of `; { }`, no end-of-line comment marker `; ##`,
not a `/* … */` comment row -/
def junRowOk (r : Str) : Bool :=
  !r.contains '\t' &&
  !(r.getLast?.any fun c => c == ';' || c == '{' || c == '}') &&
  !hasInfix "; ##".toList r &&
  !commentBegin.isPrefixOf r

/-- the per-vendor condition on one row (`cisco`: the condition of the PARTIAL theorem) -/
def rowOk (k : Kind) (r : String) : Bool :=
  rowBase r.toList &&
  match k with
  | .common => true
  | .ros => true
  | .huawei => noDbl r.toList && !(huaweiEndBlocks.any fun p => p.isPrefixOf r.toList)
  | .nexusLike => noDbl r.toList
  | .asr => noDbl r.toList && !(asrEndBlocks.any fun p => p.isSuffixOf r.toList)
  | .cisco => noDbl r.toList && !addressFamily.isPrefixOf r.toList
  | .juniper => junRowOk r.toList
  | .ribbon => junRowOk r.toList
  | .nokia => junRowOk r.toList

/-- Cisco at full strength: rows are words, none is the formatter's own delimiter (`exit`,
`exit-address-family`); rows starting with `address-family` are ordinary rows. -/
def ciscoRowFull (r : String) : Bool :=
  rowBase r.toList && noDbl r.toList && r != "exit" && r != "exit-address-family"

/-! ## trees -/

mutual
  /-- every row satisfies `ok` and sibling rows are pairwise distinct (an `OrderedDict`), at every level -/
  def wf (ok : String → Bool) : Cfg → Bool
    | .mk ks => wfL ok ks
  def wfL (ok : String → Bool) : List (String × Cfg) → Bool
    | [] => true
    | (k, c) :: rest => ok k && !(rest.any fun e => e.1 == k) && wf ok c && wfL ok rest
end

/-- a RouterOS section word: one printable word without `/`, not a comment, not one of the two
sections that `split` post-processes (`/file`, `/user ssh-keys`) -/
def rosSection (k : String) : Bool :=
  rowBase k.toList && !(k.toList.any fun c => pyIsSpace c || c == '/') && !rosHasSplitter ('/' :: k.toList)

mutual
  /-- RouterOS at full strength: a section holds leaf rows first, then sub-sections (any depth) -/
  def rosBody : Cfg → Bool
    | .mk ks => rosBodyL false ks
  /-- `seenSection`: a sub-section came earlier among these siblings -/
  def rosBodyL (seenSection : Bool) : List (String × Cfg) → Bool
    | [] => true
    | (k, c) :: rest =>
      !(rest.any fun e => e.1 == k) &&
      (if c.kids.isEmpty then !seenSection && rowBase k.toList && rosBodyL seenSection rest
       else rosSection k && rosBody c && rosBodyL true rest)
end

/-- the top level holds sections only -/
def rosTop (t : Cfg) : Bool := t.kids.all (fun e => !e.2.kids.isEmpty) && rosBody t

/-- RouterOS, the condition of the PARTIAL theorem: sections of depth one -/
def rosFlat (t : Cfg) : Bool :=
  rosTop t && t.kids.all fun e => e.2.kids.all fun e' => e'.2.kids.isEmpty

/-- the well-formed domain of a formatter for which the round trip is PROVED
(Cisco: no `address-family` row; RouterOS: sections of depth one) -/
def WF (k : Kind) (t : Cfg) : Bool :=
  match k with
  | .ros => rosFlat t
  | .nokia => wf (rowOk .nokia) t && !(t.kids.any fun e => e.1 == "configure")
  | k => wf (rowOk k) t

/-- the domain the property quantifies over (Cisco and RouterOS at full strength) -/
def WFfull (k : Kind) (t : Cfg) : Bool :=
  match k with
  | .ros => rosTop t
  | .cisco => wf ciscoRowFull t
  | k => WF k t

/-! ## the statements -/

/-- `parse_to_tree(formatter.join(t), formatter.split) == t` -/
def RoundTrip (f : Fmt) (t : Cfg) : Prop :=
  ∃ s, join f t = some s ∧ parse f s = some (.ok t)

/-- for the text `s = join(t)`: `join(parse(s)) == s` -/
def FixPoint (f : Fmt) (t : Cfg) : Prop :=
  ∃ s t', join f t = some s ∧ parse f s = some (.ok t') ∧ join f t' = some s

end Annet.FormatSplit
