/-
Specification-only definitions for C04: the well-formed domain of every vendor (decidable predicates),
the reference rendering of a tree (one line per row, `w·depth` blanks of indentation) and the two
statements `RoundTrip` / `FixPoint`.

This file is specification, not annet code (trusted base item 5 of DESIGN §4).
-/
import AnnetModel.Model.FormatSplit

namespace Annet.FormatSplit
open Annet Annet.Offside

/-- `n` blanks -/
def blanks (n : Nat) : Str := List.replicate n ' '

mutual
  /-- reference rendering: every row on its own line, in document order, behind `w * depth` blanks -/
  def render (w d : Nat) : Cfg → List Str
    | .mk ks => renderL w d ks
  def renderL (w d : Nat) : List (String × Cfg) → List Str
    | [] => []
    | (k, c) :: rest => (blanks (w * d) ++ k.toList) :: (render w (d + 1) c ++ renderL w d rest)
end

mutual
  /-- the same as offside items -/
  def items (w d : Nat) : Cfg → List Item
    | .mk ks => itemsL w d ks
  def itemsL (w d : Nat) : List (String × Cfg) → List Item
    | [] => []
    | (k, c) :: rest => Item.text (w * d) k :: (items w (d + 1) c ++ itemsL w d rest)
end

/-! ## rows -/

/-- A row every vendor can carry: not empty, no leading or trailing whitespace, no line break, and
not a comment for `parse_to_tree` (`!`, `#`). -/
def rowBase (r : Str) : Bool :=
  match r with
  | [] => false
  | c :: _ =>
    !pyIsSpace c && c != '!' && c != '#' && !(r.getLast?.any pyIsSpace) && !r.contains '\n'

/-- no two consecutive blanks (the vendors that run `split_remove_spaces` collapse them) -/
def noDbl : Str → Bool
  | ' ' :: ' ' :: _ => false
  | _ :: cs => noDbl cs
  | [] => true

/-- Juniper family: no tab, last character none of `; { }`, no end-of-line comment marker `; ##`,
not a `/* … */` comment row -/
def junRowOk (r : Str) : Bool :=
  !r.contains '\t' &&
  !(r.getLast?.any fun c => c == ';' || c == '{' || c == '}') &&
  !hasInfix "; ##".toList r &&
  !commentBegin.isPrefixOf r

/-- the per-vendor condition on one row: words without the vendor's own delimiters -/
def rowOk (k : Kind) (r : String) : Bool :=
  rowBase r.toList &&
  match k with
  | .common => true
  | .ros => true
  | .huawei => noDbl r.toList && !(huaweiEndBlocks.any fun p => p.isPrefixOf r.toList)
  | .nexusLike => noDbl r.toList
  | .asr => noDbl r.toList && !(asrEndBlocks.any fun p => p.isSuffixOf r.toList)
  | .cisco => noDbl r.toList && r.toList != exitAddressFamily
  | .juniper => junRowOk r.toList
  | .ribbon => junRowOk r.toList
  | .nokia => junRowOk r.toList

/-! ## trees -/

mutual
  /-- every row satisfies `ok` and sibling rows are pairwise distinct (an `OrderedDict`), at every level -/
  def wf (ok : String → Bool) : Cfg → Bool
    | .mk ks => wfL ok ks
  def wfL (ok : String → Bool) : List (String × Cfg) → Bool
    | [] => true
    | (k, c) :: rest => ok k && !(rest.any fun e => e.1 == k) && wf ok c && wfL ok rest
end

/-- `" ".join(path)`: how RouterOS prints the path of a section -/
def pathStr : List String → Str
  | [] => []
  | [k] => k.toList
  | k :: k' :: ks => k.toList ++ ' ' :: pathStr (k' :: ks)

/-- a RouterOS section word: one printable word without `/`, not a comment -/
def rosWord (k : String) : Bool :=
  rowBase k.toList && !(k.toList.any fun c => pyIsSpace c || c == '/')

mutual
  /-- RouterOS: the body of the section with path `p` holds leaf rows first, then sub-sections (any
  depth); no section path is one of the two that `split` post-processes (`/file`, `/user ssh-keys`) -/
  def rosBody (p : List String) : Cfg → Bool
    | .mk ks => rosBodyL p false ks
  /-- `seenSection`: a sub-section came earlier among these siblings -/
  def rosBodyL (p : List String) (seenSection : Bool) : List (String × Cfg) → Bool
    | [] => true
    | (k, c) :: rest =>
      !(rest.any fun e => e.1 == k) &&
      (if c.kids.isEmpty then !seenSection && rowBase k.toList && rosBodyL p seenSection rest
       else rosWord k && !rosHasSplitter ('/' :: pathStr (p ++ [k])) && rosBody (p ++ [k]) c &&
         rosBodyL p true rest)
end

/-- RouterOS: the top level holds sections only -/
def rosTop (t : Cfg) : Bool := t.kids.all (fun e => !e.2.kids.isEmpty) && rosBody [] t

/-- The well-formed domain of a formatter class — the domain the property quantifies over:
rows of words without the vendor's delimiters, distinct siblings; Nokia: no top-level `configure`;
RouterOS: sections, each holding leaf rows and then sub-sections. -/
def WF (k : Kind) (t : Cfg) : Bool :=
  match k with
  | .ros => rosTop t
  | .nokia => wf (rowOk .nokia) t && !(t.kids.any fun e => e.1 == "configure")
  | k => wf (rowOk k) t

/-- (name kept from the time when Cisco and RouterOS were only proved on a smaller domain) -/
abbrev WFfull := WF

mutual
  /-- reference lines of a RouterOS body after `split`: a section is announced by its whole path, one
  word per line at depths 0, 1, …; its leaf rows follow at depth `path length` -/
  def rosLines (w : Nat) (p : List String) : Cfg → List Str
    | .mk ks => rosLinesL w p ks
  def rosLinesL (w : Nat) (p : List String) : List (String × Cfg) → List Str
    | [] => []
    | (k, c) :: rest =>
      if c.kids.isEmpty then (blanks (w * p.length) ++ k.toList) :: rosLinesL w p rest
      else (((p ++ [k]).zipIdx.map fun e => blanks (w * e.2) ++ e.1.toList)
        ++ rosLines w (p ++ [k]) c) ++ rosLinesL w p rest
end

mutual
  /-- what RouterOS `join` prints: `/path words` for a section, leaf rows behind `w * path length` blanks -/
  def rosText (w : Nat) (p : List String) : Cfg → List Str
    | .mk ks => rosTextL w p ks
  def rosTextL (w : Nat) (p : List String) : List (String × Cfg) → List Str
    | [] => []
    | (k, c) :: rest =>
      if c.kids.isEmpty then (blanks (w * p.length) ++ k.toList) :: rosTextL w p rest
      else (('/' :: pathStr (p ++ [k])) :: rosText w (p ++ [k]) c) ++ rosTextL w p rest
end

/-! ## the two rules as they were before the fixes (for the record; not annet code any more) -/

/-- `_split_indent` before 13137d1: every `address-family` row shifts what follows -/
def ciscoSplitIndentOld (line : Str) (indent : Int) (exits : List Str) : List Str × Int :=
  let s := strip line
  if exits.contains s then (exits.erase s, indent - 1)
  else if addressFamily.isPrefixOf s then (exits ++ [exitAddressFamily], indent + 1)
  else (exits, indent)

def ciscoLoopOld : List Str → Int → List Str → List Str
  | [], _, _ => []
  | item :: rest, indent, exits =>
    let (exits', indent') := ciscoSplitIndentOld item indent exits
    (List.replicate indent.toNat ' ' ++ item) :: ciscoLoopOld rest indent' exits'

def ciscoSplitOld (text : Str) : List Str := ciscoLoopOld (splitRemoveSpaces text) 0 ["exit".toList]

mutual
  /-- `RosFormatter.blocks_and_context` before c926070: the prefix is `context.parent.row` (`ctx[1]`) -/
  def rosBlocksOld (ctx : List Str) : Cfg → List Tok
    | .mk ks => rosBlocksOldL ctx none false ks
  def rosBlocksOldL (ctx : List Str) (prevProw : Option Str) (inLeaf : Bool) :
      List (String × Cfg) → List Tok
    | [] => if inLeaf && (prevProw.any (!·.isEmpty)) then [.be] else []
    | (k, c) :: rest =>
      if c.kids.isEmpty then
        (if !inLeaf && (prevProw.any (!·.isEmpty)) then [.row (prevProw.getD []), .bb] else [])
          ++ .row k.toList :: rosBlocksOldL ctx prevProw true rest
      else
        (if inLeaf && (prevProw.any (!·.isEmpty)) then [.be] else []) ++
        (match ctx with
          | _ :: p :: _ =>
            if !p.isEmpty then
              let prow := p ++ ' ' :: k.toList
              .row prow :: .bb :: rosBlocksOld (prow :: ctx) c ++ .be :: rosBlocksOldL ctx (some p) false rest
            else
              .row k.toList :: .bb :: rosBlocksOld (k.toList :: ctx) c ++ .be :: rosBlocksOldL ctx prevProw false rest
          | _ =>
            .row k.toList :: .bb :: rosBlocksOld (k.toList :: ctx) c ++ .be :: rosBlocksOldL ctx prevProw false rest)
end

def rosJoinOld (indent : Str) (t : Cfg) : Str :=
  joinNl (rosFormatted none (indentBlocks indent 0 (rosBlocksOld [] t)))

/-! ## the statements -/

/-- `parse_to_tree(formatter.join(t), formatter.split) == t` -/
def RoundTrip (f : Fmt) (t : Cfg) : Prop :=
  ∃ s, join f t = some s ∧ parse f s = some (.ok t)

/-- for the text `s = join(t)`: `join(parse(s)) == s` -/
def FixPoint (f : Fmt) (t : Cfg) : Prop :=
  ∃ s t', join f t = some s ∧ parse f s = some (.ok t') ∧ join f t' = some s

end Annet.FormatSplit
