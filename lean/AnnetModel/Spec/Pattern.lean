/-
Vocabulary for the C07 theorems: well-formed token lists, clean words, and the
substitution of a key into a pattern.  Specification only.
-/
import AnnetModel.Model.Pattern

namespace Annet.Pattern
open Annet.Offside (pyIsSpace)

/-- a configuration word: non-empty, no whitespace -/
def cleanWord (w : List Char) : Prop := w ≠ [] ∧ ∀ c ∈ w, pyIsSpace c = false

/-- `~` only as the last token; literal words are clean (what `parseRow` produces) -/
def WFToks : List Tok → Prop
  | [] => True
  | [.tilde] => True
  | .tilde :: _ :: _ => False
  | .lit w :: more => cleanWord w ∧ WFToks more
  | .star :: more => WFToks more

/-- the rule's words with the key substituted for the placeholders -/
def subst : List Tok → List (List Char) → List (List Char)
  | [], _ => []
  | .lit w :: more, key => w :: subst more key
  | _ :: more, k :: key => k :: subst more key
  | _ :: _, [] => []

/-- the rule row already starts with the negation word (`row.startswith(prefix + " ")`) -/
def startsWithPrefixTok (pre : List Char) : List Tok → Bool
  | .lit w :: _ :: _ => w == pre
  | _ => false

def endsWithTilde (toks : List Tok) : Bool := toks.getLast? == some .tilde

end Annet.Pattern
