/-
C03 for the WHOLE `make_diff`, at every depth (the theorems of Props/C03.lean speak of one diff-logic group = one call of
`base_diff`): vocabulary.  Specification only.

`RTree` is a configuration seen as rows and nesting only; `projOld` / `projNew` read the old / new side back from a diff
(drop ADDED / REMOVED entries, at every depth); `RPerm` is equality per level as a multiset (the diff lists a level
group by group, one group per diff logic, so the order of a whole level is not preserved across groups).
-/
import AnnetModel.Spec.Diff

namespace Annet.Diff.Spec
open Annet Annet.Rules Annet.Diff

inductive RTree where
  | mk (kids : List (String × RTree))
  deriving Repr, Inhabited

mutual
  /-- rows and nesting of an annotated configuration -/
  def rtreeOf : ACfg → RTree
    | .mk ks => .mk (rtreeOfL ks)
  def rtreeOfL : List (String × PMatch × ACfg) → List (String × RTree)
    | [] => []
    | (row, _, c) :: rest => (row, rtreeOf c) :: rtreeOfL rest
end

mutual
  /-- drop the ADDED entries of a diff, at every depth: what the diff says `old` was -/
  def projOld : List DItem → List (String × RTree)
    | [] => []
    | .mk op row ch _ :: rest =>
      if op == .added then projOld rest else (row, .mk (projOld ch)) :: projOld rest
end

mutual
  /-- drop the REMOVED entries of a diff, at every depth: what the diff says `new` is -/
  def projNew : List DItem → List (String × RTree)
    | [] => []
    | .mk op row ch _ :: rest =>
      if op == .removed then projNew rest else (row, .mk (projNew ch)) :: projNew rest
end

mutual
  /-- the same block up to the order of the rows at every level -/
  inductive REqv : String × RTree → String × RTree → Prop
    | mk {r : String} {c1 c2 : List (String × RTree)} : RPerm c1 c2 → REqv (r, .mk c1) (r, .mk c2)
  /-- equal per level as a multiset -/
  inductive RPerm : List (String × RTree) → List (String × RTree) → Prop
    | nil : RPerm [] []
    | cons {a b : String × RTree} {l1 l2 : List (String × RTree)} : REqv a b → RPerm l1 l2 → RPerm (a :: l1) (b :: l2)
    | swap {a b : String × RTree} {l : List (String × RTree)} : RPerm (a :: b :: l) (b :: a :: l)
    | trans {l1 l2 l3 : List (String × RTree)} : RPerm l1 l2 → RPerm l2 l3 → RPerm l1 l3
end

mutual
  /-- every rule that knows a row of the configuration compares with `default_diff` or `ordered_diff`
  (`rewrite_diff` deliberately drops a group that did not change, so the projections cannot hold for it) -/
  def PlainLogics : ACfg → Prop
    | .mk ks => PlainLogicsL ks
  def PlainLogicsL : List (String × PMatch × ACfg) → Prop
    | [] => True
    | (_, m, c) :: rest =>
      (m.attrs.diffLogic = "common.default_diff" ∨ m.attrs.diffLogic = "common.ordered_diff") ∧
      PlainLogics c ∧ PlainLogicsL rest
end

/-- children of the line `row` of a level (`[]` when absent) -/
def kidsOf (l : Level) (row : String) : Level :=
  match lookupA l row with
  | some (_, c) => c.kids
  | none => []

mutual
  /-- ops are exact at every depth: ADDED only if absent from old and present in new, REMOVED the other way round,
  every other op only for rows present on both sides; children are judged against the children of the row -/
  def ExactL (old new : Level) : List DItem → Prop
    | [] => True
    | i :: rest => ExactI old new i ∧ ExactL old new rest
  def ExactI (old new : Level) : DItem → Prop
    | .mk op row ch _ =>
      (op = .added → hasRow old row = false ∧ hasRow new row = true) ∧
      (op = .removed → hasRow old row = true ∧ hasRow new row = false) ∧
      (op ≠ .added → op ≠ .removed → hasRow old row = true ∧ hasRow new row = true) ∧
      ExactL (kidsOf old row) (kidsOf new row) ch
end

end Annet.Diff.Spec
