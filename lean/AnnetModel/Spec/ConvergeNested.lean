/-
Vocabulary for the end-to-end convergence theorem of C01 on NESTED configurations (stage 2 of DESIGN §5 C01).
Specification only.

`applyTree` executes a patch tree structurally on the device specification: a leaf item is a leaf command
(`Device.execLeaf`), a block item enters (creating if absent) the block and executes its children there with
the block's child rules.  (The formatter's linearisation of a patch tree into command paths, including the
exit words, is C09's subject; `Device.execPath` on those paths performs exactly these steps.)
-/
import AnnetModel.Spec.Converge

namespace Annet.ConvergeNested
open Annet Annet.Rules Annet.Device Annet.Device.Abs Annet.Patch

/-- run `inner` on the children of the (first) line `c` of a level -/
def inBlock (inner : List (String × Cfg) → List (String × Cfg)) (c : String) :
    List (String × Cfg) → List (String × Cfg)
  | [] => []
  | (row, .mk ch) :: more =>
    if row == c then (row, .mk (inner ch)) :: more else (row, .mk ch) :: inBlock inner c more

mutual
  /-- execute the items of a patch tree, in order, at one level of the device -/
  def applyItems (env : Env) (rules : PRules) : List (String × Option PTree × SortKey) → List (String × Cfg) →
      List (String × Cfg)
    | [], kids => kids
    | (row, none, _) :: rest, kids => applyItems env rules rest (execLeaf env rules row kids)
    | (row, some t, _) :: rest, kids =>
      match classify rules row with
      | none => applyItems env rules rest kids
      | some (m, cr) =>
        applyItems env rules rest (inBlock (applyTree env cr t) row (putLine rules m row kids))
  def applyTree (env : Env) (rules : PRules) : PTree → List (String × Cfg) → List (String × Cfg)
    | .mk items, kids => applyItems env rules items kids
end

mutual
  /-- a rulebook of any depth over the default diff logic and the `default` / `undo_redo` patch logics, without
  `%global` rules (every rule: not an ignore rule, has a children dictionary whose global part is empty) -/
  def NestedRulesL : List PRule → Prop
    | [] => True
    | r :: rest => NestedRule r ∧ NestedRulesL rest
  def NestedRule : PRule → Prop
    | .mk _ ign attrs ch =>
      ign = false ∧ attrs.diffLogic = "common.default_diff" ∧
      (attrs.logic = "common.default" ∨ attrs.logic = "common.undo_redo") ∧ attrs.forceCommit = false ∧
      (match ch with
        | some (cl, cg) => cg = [] ∧ NestedRulesL cl
        | none => False)
end

mutual
  /-- rule texts are pairwise distinct at every level (a compiled rulebook is a dict keyed by the rule text) -/
  def DistinctRawL : List PRule → Prop
    | [] => True
    | r :: rest => (∀ r' ∈ rest, r'.rawRule ≠ r.rawRule) ∧ DistinctRawR r ∧ DistinctRawL rest
  def DistinctRawR : PRule → Prop
    | .mk _ _ _ (some (cl, _)) => DistinctRawL cl
    | .mk _ _ _ none => True
end

def NestedRules (rules : PRules) : Prop := rules.glob = [] ∧ NestedRulesL rules.loc ∧ DistinctRawL rules.loc

/-- exactly one rule of the level matches the row (so a block's rules are that rule's child rules: nothing is merged) -/
def uniqueMatch (rules : PRules) (row : String) : Prop :=
  (rules.loc.filter fun r => (Pattern.parseRow false r.attrs.row.toList).any
      fun p => (p.match? row.toList).isSome).length = 1

mutual
  /-- a configuration all of whose lines instantiate exactly one rule at their level, one line per (rule, key) -/
  def GoodL (rules : PRules) : List (String × Cfg) → Prop
    | [] => True
    | (row, c) :: rest =>
      (match classify rules row with
        | some (_, cr) => uniqueMatch rules row ∧ GoodC cr c
        | none => False) ∧ GoodL rules rest
  def GoodC (rules : PRules) : Cfg → Prop
    | .mk ks => WF rules ks ∧ GoodL rules ks
end

mutual
  /-- the removal commands and the lines are understood by the device, at every level (cf. `Converge.CmdsOK`) -/
  def CmdsOKL (v : Vendor) (env : Env) : List PRule → Prop
    | [] => True
    | r :: rest => CmdsOKR v env r ∧ CmdsOKL v env rest
  def CmdsOKR (v : Vendor) (env : Env) : PRule → Prop
    | .mk _ _ _ (some (cl, cg)) => Converge.CmdsOK v env ⟨cl, cg⟩ ∧ CmdsOKL v env cl
    | .mk _ _ _ none => True
end

def CmdsOKAll (v : Vendor) (env : Env) (rules : PRules) : Prop :=
  Converge.CmdsOK v env rules ∧ CmdsOKL v env rules.loc

mutual
  /-- two device levels hold the same lines, slot by slot, recursively in every block -/
  def SameL (rules : PRules) : List (String × Cfg) → List (String × Cfg) → Prop
    | [], _ => True
    | (row, ca) :: rest, b =>
      (∀ cb, (row, cb) ∈ b →
        match classify rules row with
        | some (_, cr) => SameC cr ca cb
        | none => True) ∧ SameL rules rest b
  def SameC (rules : PRules) : Cfg → Cfg → Prop
    | .mk a, .mk b => (∀ s, holder rules a s = holder rules b s) ∧ SameL rules a b
end

/-! ### the linearisation of a patch tree into command paths
(what `BlockExitFormatter.cmd_paths` produces for a patch whose blocks end with the vendor's exit word:
the row, the paths of the children below it, then `[row, exit]`; tied to the real `cmd_paths` by C01's
correspondence on every run) -/
mutual
  def treePaths (exit : String) : PTree → List (List String)
    | .mk items => itemsPaths exit items
  def itemsPaths (exit : String) : List (String × Option PTree × SortKey) → List (List String)
    | [] => []
    | (row, none, _) :: rest => [row] :: itemsPaths exit rest
    | (row, some t, _) :: rest =>
      [row] :: ((treePaths exit t).map (row :: ·) ++ [row, exit] :: itemsPaths exit rest)
end

end Annet.ConvergeNested
