/-
Vocabulary for the C03 theorems.  Specification only.
-/
import AnnetModel.Model.Diff

namespace Annet.Diff.Spec
open Annet Annet.Rules Annet.Diff

abbrev Level := List (String × PMatch × ACfg)

def rowsOf (l : Level) : List String := l.map (·.1)

mutual
  /-- sibling rows pairwise distinct at every level (Python dict keys) -/
  def NoDupRows : ACfg → Prop
    | .mk ks => NoDupRowsL ks
  def NoDupRowsL : List (String × PMatch × ACfg) → Prop
    | [] => True
    | (r, _, c) :: rest => (∀ x ∈ rest, x.1 ≠ r) ∧ NoDupRows c ∧ NoDupRowsL rest
end

/-- `block_in_disorder` after processing `new[0..i]` against `old` (closed form): some row up to and
including position `i` is new or sits at another index than in `old`. -/
def disorderUpTo (old new : Level) (i : Nat) : Bool :=
  (List.range (i + 1)).any fun j =>
    match new[j]? with
    | none => false
    | some e => !hasRow old e.1 || indexOf old e.1 != j

/-- the signs the operator sees: only op, row and nesting -/
inductive Entry where
  | mk (op : Op) (row : String) (children : List Entry)
  deriving Repr

mutual
  def erase : List DItem → List Entry
    | [] => []
    | .mk op row ch _ :: rest => .mk op row (erase ch) :: erase rest
end

end Annet.Diff.Spec
