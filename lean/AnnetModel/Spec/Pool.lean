/-
Specification-side definitions for the worker pool (C12): reachability under any
schedule, the property "exactly one result per submitted id", the two hypotheses
used by the partial theorems, and weak fairness of an infinite run.
Not annet code.
-/
import AnnetModel.Model.Pool

namespace Annet.Pool

/-- States reachable from `init c` by some schedule whose every step satisfies `ok`
(`ok := fun _ _ => True` is "every interleaving"). -/
inductive ReachP (c : Cfg) (ok : State → Ev → Prop) : State → Prop where
  | init : ReachP c ok (init c)
  | step {s s' : State} (e : Ev) : ReachP c ok s → ok s e → step c s e = some s' → ReachP c ok s'

/-- Reachable by any interleaving of parent and workers. -/
def Reach (c : Cfg) : State → Prop := ReachP c (fun _ _ => True)

/-- The parent is between a `done_queue.get` that timed out and the loop-exit test of
the same iteration (parallel.py:374-422 with `queue_empty = True`). -/
def PC.afterTimeout : PC → Bool
  | .check none _ _ => true
  | .post none _ => true
  | _ => false

/-- Schedule restriction of the partial theorem: no result reaches the pipe inside the
window `afterTimeout`. -/
def NoFlushInWindow (s : State) (e : Ev) : Prop :=
  ∀ w, e = .flush w → s.pc.afterTimeout = false

def ReachNoRace (c : Cfg) : State → Prop := ReachP c NoFlushInWindow

/-- THE PROPERTY (safety half): in every terminal state the caller holds exactly the
submitted results (as a multiset; `Res` carries the payload `f id`). -/
def ExactlyOnce (c : Cfg) : Prop :=
  ∀ s, Reach c s → s.terminal = true → s.delivered.Perm c.submitted

/-- No failed task aborts the run: `tolerate_fails`, or no submitted id raises. -/
def Tolerant (c : Cfg) : Prop :=
  c.tolerate = true ∨ ∀ id ∈ c.ids, (c.out id).isExc = false

/-- Every outcome can be pickled (only exceptions can fail to, see `Out.sendable`). -/
def Sendable (c : Cfg) : Prop := ∀ id ∈ c.ids, (c.out id).sendable = true

/-- An infinite run: a sequence of states, each obtained from the previous one by an
event, or equal to it once terminal (a terminated `irun` stays terminated). -/
structure Run (c : Cfg) where
  st : Nat → State
  ev : Nat → Ev
  start : st 0 = init c
  next : ∀ n, step c (st n) (ev n) = some (st (n + 1)) ∨ ((st n).terminal = true ∧ st (n + 1) = st n)

/-- The agent (a worker process, or the parent) that performs an event. -/
inductive Agent where
  | worker (w : Nat)
  | parent
  deriving DecidableEq

def Ev.agent : Ev → Agent
  | .take w => .worker w
  | .finish w => .worker w
  | .flush w => .worker w
  | .feederDie w => .worker w
  | .exit w => .worker w
  | .parent => .parent

def Enabled (c : Cfg) (s : State) (a : Agent) : Prop :=
  ∃ e, e.agent = a ∧ (step c s e).isSome = true

/-- Weak fairness: an agent that stays enabled from some moment on eventually takes a
step (the OS does not starve a runnable process forever; the caller keeps consuming). -/
def Run.WeaklyFair {c : Cfg} (r : Run c) : Prop :=
  ∀ (a : Agent) (n : Nat), ∃ m, n ≤ m ∧
    (¬ Enabled c (r.st m) a ∨ (step c (r.st m) (r.ev m) = some (r.st (m + 1)) ∧ (r.ev m).agent = a))

end Annet.Pool
