/-
Vocabulary for the C14 theorems.  Specification only (nothing here is annet code).
-/
import AnnetModel.Model.RplRun
import AnnetModel.Model.RplCumulus

namespace Annet.Rpl.Spec
open Annet.Rpl

/-! ### "error before any line" -/

/-- the property of one element's stream: it either yields rows, or raises — never rows and then an error -/
def ErrorBeforeLines {α : Type} (o : Out α) : Prop := ∀ e, o.2 = some e → o.1 = []

instance {α : Type} (o : Out α) : Decidable (ErrorBeforeLines o) :=
  match h : o.2 with
  | none => isTrue (by intro e he; simp [h] at he)
  | some e =>
    match h1 : o.1 with
    | [] => isTrue (by intro _ _; exact h1)
    | x :: xs => isFalse (by intro hc; have := hc e h; simp [h1] at this)

def CommAct.names (a : CommAct) : List Str := a.replaced.getD [] ++ a.added ++ a.removed

def known (cl : List CommList) (n : Str) : Bool := (getComm cl n).isSome

/-- every community list an action names exists in the entity set -/
def actNamesKnown (cl : List CommList) (a : Action) : Bool :=
  match a.val with
  | .comm c => (CommAct.names c).all (known cl)
  | _ => true

/-- every list a condition names exists in the entity set -/
def condNamesKnown (inp : Input) (c : Cond) : Bool :=
  match c.field, c.val with
  | .extcommunityRt, .names l => l.all (known inp.clists)
  | .ipPrefix, .pfx names _ _ => names.all fun n => (getPl inp.plists n).isSome
  | .ipv6Prefix, .pfx names _ _ => names.all fun n => (getPl inp.plists n).isSome
  | _, _ => true

/-- all the named lists have one of the given types -/
def typesIn (cl : List CommList) (ts : List CType) (names : List Str) : Bool :=
  names.all fun n => match getComm cl n with
    | some c => ts.contains c.type
    | none => false

/-- Arista: the one action shape that can still raise after a row — `extcommunity` add + remove where a *removed*
list is not an RT/SOO list (`ValueError: ... is not subtype of extcommunity`, an invalid input) — is excluded -/
def safeActA (cl : List CommList) (a : Action) : Bool :=
  match a.field, a.val with
  | .extcommunity, .comm c =>
    c.replaced.isSome || c.added.isEmpty || c.removed.isEmpty || typesIn cl [.rt, .soo] c.removed
  | _, _ => true

/-- Cumulus: the one remaining shape — `extcommunity.set(...)` naming a list that is not an RT/SOO list -/
def safeActC (cl : List CommList) (a : Action) : Bool :=
  match a.field, a.val with
  | .extcommunity, .comm c =>
    match c.replaced with
    | some r => !c.added.isEmpty || !c.removed.isEmpty || r.isEmpty || typesIn cl [.rt, .soo] r
    | none => true
  | _, _ => true

/-- rows of the elements that completed before the first failing one -/
def completedRows {α : Type} : List (Out α) → List α
  | [] => []
  | o :: os => match o.2 with
    | none => o.1 ++ completedRows os
    | some _ => []

/-- the exception of the first failing element -/
def firstErr {α : Type} : List (Out α) → Option Err
  | [] => none
  | o :: os => match o.2 with
    | none => firstErr os
    | some e => some e

/-- the elements of a Huawei statement, in stream order: conditions, actions, the `goto next-node` trailer -/
def stmtElemsH (inp : Input) (st : Stmt) : List (Out (List Str)) :=
  st.conds.map (matchH inp) ++ st.acts.map (thenH inp.clists) ++
    [if st.result == .next then emit [[s "goto next-node"]] else emit []]

/-- the elements of an Arista statement: conditions, actions, the `continue` trailer -/
def stmtElemsA (inp : Input) (st : Stmt) : List (Out (List Str)) :=
  st.conds.map (matchA inp) ++ st.acts.map (thenA inp.clists) ++
    [if st.result == .next then emit [[s "continue"]] else emit []]

/-- the elements of a Cumulus statement: conditions and actions -/
def stmtElemsC (inp : Input) (st : Stmt) : List (Out (List Str)) :=
  st.conds.map (cumMatch inp) ++ st.acts.map (cumThen inp.clists)

/-! ### named lists: who refers to them, who defines them (Huawei) -/

inductive RefKind where
  | communityFilter | largeCommunityFilter | extcommunityFilter | extcommunityListSoo | rdFilter | prefixList
  | asPathFilter
  deriving Repr, DecidableEq, Inhabited

/-- `x[len(pre):]` if `x.startswith(pre)` -/
def dropPrefix (pre x : Str) : Option Str := if pre.isPrefixOf x then some (x.drop pre.length) else none

def named (k : RefKind) (n : Option Str) : List (RefKind × Str) :=
  match n with
  | some x => [(k, x)]
  | none => []

/-- the named list a row of a Huawei `route-policy` node refers to (VRP syntax of the rows the generator emits) -/
def refsOfRowH : List Str → List (RefKind × Str)
  | h :: rest =>
    if h == s "if-match community-filter" then named .communityFilter rest.head?
    else if h == s "if-match large-community-filter" then named .largeCommunityFilter rest.head?
    else if h == s "if-match extcommunity-filter" then named .extcommunityFilter rest.head?
    else if h == s "if-match extcommunity-list soo" then named .extcommunityListSoo rest.head?
    else if h == s "if-match rd-filter" then named .rdFilter rest.head?
    else if h == s "apply comm-filter" then named .communityFilter rest.head?
    else if h == s "apply extcommunity-filter rt" then named .extcommunityFilter rest.head?
    else if h == s "if-match" then
      match rest with
      | n :: rest' =>
        if n == s "ip-prefix" || n == s "ipv6 address prefix-list" then named .prefixList rest'.head?
        else named .asPathFilter (dropPrefix (s "as-path-filter ") n)
      | [] => []
    else []
  | [] => []

/-- the named list a row of a Huawei list generator defines -/
def defsOfRowH : List Str → List (RefKind × Str)
  | h :: rest =>
    if h == s "ip community-filter" then named .communityFilter rest.tail.head?
    else if h == s "ip large-community-filter" then named .largeCommunityFilter rest.tail.head?
    else if h == s "ip extcommunity-filter" then named .extcommunityFilter rest.tail.head?
    else if h == s "ip extcommunity-list soo" then named .extcommunityListSoo rest.tail.head?
    else if h == s "ip rd-filter" then named .rdFilter rest.head?
    else if h == s "ip as-path-filter" then named .asPathFilter rest.head?
    else if h == s "ip" then
      match rest with
      | n :: rest' => if n == s "ip-prefix" || n == s "ipv6-prefix" then named .prefixList rest'.head? else []
      | [] => []
    else []
  | [] => []

/-- references made by the rows inside `route-policy` nodes -/
def refsH (ls : List Line) : List (RefKind × Str) := (ls.filter (fun l => !l.path.isEmpty)).flatMap fun l => refsOfRowH l.toks

def defsH (ls : List Line) : List (RefKind × Str) := ls.flatMap fun l => defsOfRowH l.toks

/-- every list a condition / action names has the community type of its field -/
def condTyped (cl : List CommList) (c : Cond) : Bool :=
  match c.field, c.val with
  | .community, .names l => typesIn cl [.basic] l
  | .largeCommunity, .names l => typesIn cl [.large] l
  | .extcommunityRt, .names l => typesIn cl [.rt] l
  | .extcommunitySoo, .names l => typesIn cl [.soo] l
  | _, _ => true

def actTyped (cl : List CommList) (a : Action) : Bool :=
  match a.field, a.val with
  | .community, .comm c => typesIn cl [.basic] (CommAct.names c)
  | .largeCommunity, .comm c => typesIn cl [.large] (CommAct.names c)
  | .extcommunityRt, .comm c => typesIn cl [.rt] (CommAct.names c)
  | .extcommunitySoo, .comm c => typesIn cl [.soo] (CommAct.names c)
  | _, _ => true

/-- the program uses every community list under the field of its own type -/
def TypeConsistent (inp : Input) : Prop :=
  ∀ p ∈ inp.policies, ∀ st ∈ p.stmts,
    (∀ c ∈ st.conds, condTyped inp.clists c = true) ∧ (∀ a ∈ st.acts, actTyped inp.clists a = true)

/-- no list, prefix list or filter is empty -/
def NonEmptyLists (inp : Input) : Prop :=
  (∀ c ∈ inp.clists, c.members ≠ []) ∧ (∀ pl ∈ inp.plists, pl.members ≠ []) ∧ (∀ f ∈ inp.rds, f.members ≠ [])

/-! ### named lists: who refers to them, who defines them (Arista) -/

inductive RefKindA where
  | communityList | extcommunityList | largeCommunityList | prefixList | asPathList
  deriving Repr, DecidableEq, Inhabited

def namedA (k : RefKindA) (n : Option Str) : List (RefKindA × Str) :=
  match n with
  | some x => [(k, x)]
  | none => []

/-- drop a trailing keyword (`additive`, `delete`) -/
def stripTrail (kw : Str) (l : List Str) : List Str := if l.getLast? == some kw then l.dropLast else l

/-- the named lists a row of an Arista `route-map` entry refers to (EOS syntax of the rows the generator emits) -/
def refsOfRowA : List Str → List (RefKindA × Str)
  | h :: rest =>
    if h == s "match" then
      match rest with
      | n :: rest' =>
        if n == s "community" then rest'.map (RefKindA.communityList, ·)
        else if n == s "extcommunity" then rest'.map (RefKindA.extcommunityList, ·)
        else if n == s "large-community" then rest'.map (RefKindA.largeCommunityList, ·)
        else if n == s "ip address prefix-list" || n == s "ipv6 address prefix-list" then
          namedA .prefixList rest'.head?
        else if rest'.isEmpty then namedA .asPathList (dropPrefix (s "as-path ") n)
        else []
      | [] => []
    else if h == s "set" then
      match rest with
      | n :: rest' =>
        if n == s "community community-list" then
          (stripTrail (s "additive") rest').map (RefKindA.communityList, ·)
        else if n == s "large-community large-community-list" then
          (stripTrail (s "additive") rest').map (RefKindA.largeCommunityList, ·)
        else []
      | [] => []
    else if h == s "set large-community large-community-list" then
      (stripTrail (s "delete") rest).map (RefKindA.largeCommunityList, ·)
    else []
  | [] => []

/-- the named list a row of an Arista list generator defines -/
def defsOfRowA : List Str → List (RefKindA × Str)
  | h :: rest =>
    if h == s "ip community-list" then namedA .communityList rest.tail.head?
    else if h == s "ip extcommunity-list" then namedA .extcommunityList rest.tail.head?
    else if h == s "ip large-community-list" then namedA .largeCommunityList rest.tail.head?
    else if h == s "ip as-path access-list" then namedA .asPathList rest.head?
    else if h == s "ip" || h == s "ipv6" then
      match rest with
      | n :: rest' => if n == s "prefix-list" then namedA .prefixList rest'.head? else []
      | [] => []
    else []
  | [] => []

def refsA (ls : List Line) : List (RefKindA × Str) :=
  (ls.filter (fun l => !l.path.isEmpty)).flatMap fun l => refsOfRowA l.toks

def defsA (ls : List Line) : List (RefKindA × Str) := ls.flatMap fun l => defsOfRowA l.toks

end Annet.Rpl.Spec
