/-
L7 — the device of C01/C02: "a device that holds one line per rulebook rule and key".

SPECIFICATION, not annet code (trusted base item 5 of DESIGN §4).  The reading:
  * the device state is a config tree; a command path `(p₁ … pₖ)` enters (creating if absent) the blocks
    `p₁ … pₖ₋₁`, each classified by the rules reached along the path, and executes `pₖ` there;
  * `pₖ` equal to one of the vendor's block-exit words is a no-op;
  * `pₖ = reverse ++ " " ++ r'` where `r'` is known to the rules there: the stored line with the same
    (rule, key) as `r'` is removed together with its subtree (removing an absent line is a no-op);
  * otherwise `pₖ` is classified to (rule, key): a stored line with the same text is kept with its
    subtree; else the stored line with that (rule, key) is replaced in place and its old subtree
    discarded; if there is none the line is appended (should several lines hold the slot, only one survives);
  * the lines of a level that `%rewrite` rules own are dropped the first time a patch sends a command
    for such a line at that level ("can only be rewritten entirely", huawei.rul:352-354, cisco.rul:91-101:
    the block content is re-sent as a whole).

Core Lean only (evaluated by the driver for the cross-check with the Python twin).
-/
import AnnetModel.Model.Patch

namespace Annet.Device
open Annet Annet.Rules

structure Env where
  reverse : String
  exits : List String          -- block-exit words: no-ops
  deriving Repr, Inhabited

/-- (rule, key) of a row at a rules level, with the rules for its children -/
def classify (rules : PRules) (row : String) : Option (PMatch × PRules) :=
  match matchRow row rules with
  | .found m cr => some (m, cr)
  | _ => none

def sameSlot (rules : PRules) (m : PMatch) (row : String) : Bool :=
  match classify rules row with
  | some (m', _) => m'.rawRule == m.rawRule && m'.key == m.key
  | none => false

/-- `some r'` if the command is the vendor's negation word followed by `r'` -/
def stripReverse (env : Env) (c : String) : Option String :=
  let pre := env.reverse.toList ++ [' ']
  if env.reverse != "" && pre.isPrefixOf c.toList then some (String.ofList (c.toList.drop pre.length)) else none

def isRewriteRule (r : PRule) : Bool := r.attrs.logic == "common.rewrite"

/-- replace the first line holding the slot by `(c, {})` and drop the other holders -/
def replaceFirst (rules : PRules) (m : PMatch) (c : String) : Bool → List (String × Cfg) → List (String × Cfg)
  | _, [] => []
  | done, e :: rest =>
    if sameSlot rules m e.1 then
      if done then replaceFirst rules m c true rest else (c, .mk []) :: replaceFirst rules m c true rest
    else e :: replaceFirst rules m c done rest

/-- put a line at a level: a holder of the slot with the same text is kept (other holders dropped);
otherwise the first holder is replaced in place (subtree discarded, other holders dropped); with no
holder the line is appended -/
def putLine (rules : PRules) (m : PMatch) (c : String) (kids : List (String × Cfg)) : List (String × Cfg) :=
  if kids.any (fun e => e.1 == c) then kids.filter fun e => e.1 == c || !sameSlot rules m e.1
  else if kids.any (fun e => sameSlot rules m e.1) then replaceFirst rules m c false kids
  else kids ++ [(c, .mk [])]

/-- execute the last word of a command path at a level -/
def execLeaf (env : Env) (rules : PRules) (c : String) (kids : List (String × Cfg)) : List (String × Cfg) :=
  if env.exits.contains c then kids
  else
    match (stripReverse env c).bind (fun r' => (classify rules r').map fun mc => mc.1) with
    | some m => kids.filter fun e => !sameSlot rules m e.1
    | none =>
      match classify rules c with
      | some (m, _) => putLine rules m c kids
      | none => kids          -- a command no rule knows: the model device ignores it

/-- lines of a block that `%rewrite` child rules own -/
def clearRewrite (cr : PRules) (kids : List (String × Cfg)) : List (String × Cfg) :=
  kids.filter fun e =>
    match classify cr e.1 with
    | some (m, _) => m.attrs.logic != "common.rewrite"
    | none => true

/-- state threaded through a patch: the block paths already entered -/
abbrev Visited := List (List String)

/-- descend into the (unique) line `c` of a level and run `inner` on its children -/
def descend (inner : Visited → List (String × Cfg) → List (String × Cfg) × Visited) (c : String) :
    List (String × Cfg) → Visited → List (String × Cfg) × Visited
  | [], v => ([], v)
  | (row, .mk ch) :: more, v =>
    if row == c then
      let (ch', v') := inner v ch
      ((row, .mk ch') :: more, v')
    else
      let (more', v') := descend inner c more v
      ((row, .mk ch) :: more', v')

/-- the command word `c` is a line of a `%rewrite` rule at this level -/
def isRewriteCmd (rules : PRules) (c : String) : Bool :=
  match classify rules c with
  | some (m, _) => m.attrs.logic == "common.rewrite"
  | none => false

/-- execute one command path below `here`; `vis` = levels whose `%rewrite` lines were already cleared by this patch -/
def execPath (env : Env) : List String → PRules → List String → Visited → List (String × Cfg) →
    List (String × Cfg) × Visited
  | [], _, _, vis, kids => (kids, vis)
  | [c], rules, here, vis, kids =>
    let clear := isRewriteCmd rules c && !vis.contains here
    (execLeaf env rules c (if clear then clearRewrite rules kids else kids), if clear then vis ++ [here] else vis)
  | c :: c2 :: rest, rules, here, vis, kids =>
    match classify rules c with
    | none => (kids, vis)
    | some (m, cr) =>
      let clear := m.attrs.logic == "common.rewrite" && !vis.contains here
      let kids0 := if clear then clearRewrite rules kids else kids
      let vis0 := if clear then vis ++ [here] else vis
      descend (fun v ch => execPath env (c2 :: rest) cr (here ++ [c]) v ch) c (putLine rules m c kids0) vis0

/-- execute the command paths of a patch, in order, on a device -/
def applyCmds (env : Env) (rules : PRules) (paths : List (List String)) (dev : Cfg) : Cfg :=
  .mk (paths.foldl (fun (st : List (String × Cfg) × Visited) p => execPath env p rules [] st.2 st.1) (dev.kids, [])).1

end Annet.Device
