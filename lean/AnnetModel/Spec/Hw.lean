/-
C18 — specification-only definitions: what `get_rulebook` computes when there are no caches.
The loader as a function of the model string, the software version and the environment only.
-/
import AnnetModel.Model.Hw

namespace Annet.Hw.Spec
open Annet.Hw

variable {μ σ ν κ τ β : Type}

/-- `_render_rul(name, hw)` without caches -/
def pureRender (E : Env μ σ ν κ τ β) (name : κ) (model : μ) (soft : σ) : Rendered τ :=
  match E.readEscaped name with
  | none => .notFound
  | some esc =>
    match E.render esc model soft with
    | none => .failed
    | some t => .ok t

/-- `get_rulebook(hw)` without caches -/
def pureGet (E : Env μ σ ν κ τ β) (model : μ) (soft : σ) : Except RbErr (β × β × β) :=
  match (E.vendorOf model).filter E.registered with
  | none => .error .unknownVendor
  | some v =>
    let rv := E.alias v
    match pureRender E (E.fileName rv 0) model soft with
    | .notFound => .error .fileNotFound
    | .failed => .error .renderFailed
    | .ok ptext =>
      match E.compile 0 ptext rv with
      | none => .error .compileFailed
      | some patching =>
        match pureRender E (E.fileName v 1) model soft with
        | .failed => .error .renderFailed
        | ro =>
          match E.compile 1 (textOr E ro) v with
          | none => .error .compileFailed
          | some ordering =>
            match pureRender E (E.fileName v 2) model soft with
            | .failed => .error .renderFailed
            | rd =>
              match E.compile 2 (textOr E rd) v with
              | none => .error .compileFailed
              | some deploying => .ok (patching, ordering, deploying)

end Annet.Hw.Spec
