/-
The AUDITED list of process-lifetime state of the annet modules a pool worker runs (specification of C20's hidden
hypothesis: "nothing but these places can carry information from one device to the next").  The translator of
harness/props/c20.py regenerates the actual list from the Python ASTs on every run (`Gen/Effects.lean`, `processState`);
`C20_process_state_audited` (Props/C20.lean) says the two are equal.  A new cache, a new module- or class-level container,
a mutable default argument or a new `global` breaks that theorem: the check then searches job histories for a device whose
result depends on what was processed before, and reports the place either way.

Why each audited entry cannot make a result depend on history:
* constant tables never written after import: `diff_ops`, `ops_color`, `ops_order`, `ops_sign`, `_comment_macros`,
  `_PARAMS_SCHEME`, `VENDOR_ALIASES`, the `TAGS` defaults of the generator base classes, `VRPVersion.ATTR_NAMES`;
* memoised PURE functions of their (hashable, immutable) arguments — texts, vendor names, model strings:
  `_compile_mako`, `parse_hw_model`, `_make_reverse` (acl and patching), `compile_acl_text`, `compile_ref_acl_text`,
  `_simplify_text`, `compile_ordering_text`, `compile_row_regexp`, `import_rulebook_function`, `compile_deploying_text`,
  `compile_patching_text`, `get_context`, `_get_template_context`, `_warn_no_generators_in_context`; what they return is
  shared between devices, which is why C20 also proves that the computations do not write to the compiled objects
  (`C20_inputs_unchanged`, `C20_no_escape`) and checks it on the real code by deep snapshots;
* configuration set once at start-up: the `global` paths of `annet/lib.py`, the connector entry points;
* `_old_resolve_running … live_configs`: the running-config cache of the legacy fetcher, keyed by device.
-/
namespace Annet.ProcessState

def audited : List String := [
  "annet/annlib/diff.py:diff_ops = <mutable>",
  "annet/annlib/diff.py:ops_color = <mutable>",
  "annet/annlib/diff.py:ops_order = <mutable>",
  "annet/annlib/diff.py:ops_sign = <mutable>",
  "annet/annlib/lib.py:_compile_mako @lru_cache",
  "annet/annlib/netdev/devdb/__init__.py:parse_hw_model @functools.lru_cache",
  "annet/annlib/patching.py:_comment_macros = <mutable>",
  "annet/annlib/rbparser/acl.py:_PARAMS_SCHEME = <mutable>",
  "annet/annlib/rbparser/acl.py:_make_reverse @functools.lru_cache",
  "annet/annlib/rbparser/acl.py:compile_acl_text @functools.lru_cache",
  "annet/annlib/rbparser/acl.py:compile_ref_acl_text @functools.lru_cache",
  "annet/annlib/rbparser/deploying.py:_simplify_text @functools.lru_cache",
  "annet/annlib/rbparser/ordering.py:compile_ordering_text @functools.lru_cache",
  "annet/annlib/rbparser/platform.py:VENDOR_ALIASES = <mutable>",
  "annet/annlib/rbparser/syntax.py:compile_row_regexp @functools.lru_cache",
  "annet/connectors.py:_entry_point @cached_property",
  "annet/gen.py:_old_resolve_running global live_configs",
  "annet/generators/entire.py:Entire.TAGS = <mutable>",
  "annet/generators/jsonfragment.py:JSONFragment.TAGS = <mutable>",
  "annet/generators/partial.py:PartialGenerator.TAGS = <mutable>",
  "annet/lib.py:_get_template_context @lru_cache",
  "annet/lib.py:_warn_no_generators_in_context @lru_cache",
  "annet/lib.py:get_context @lru_cache",
  "annet/lib.py:set_default_context_path global _DEFAULT_CONTEXT_PATH",
  "annet/lib.py:set_homedir_path global _HOMEDIR_PATH",
  "annet/lib.py:set_template_context_path global _TEMPLATE_CONTEXT_PATH",
  "annet/rulebook/common.py:import_rulebook_function @functools.lru_cache",
  "annet/rulebook/deploying.py:compile_deploying_text @functools.lru_cache",
  "annet/rulebook/huawei/misc.py:VRPVersion.ATTR_NAMES = <mutable>",
  "annet/rulebook/patching.py:_make_reverse @functools.lru_cache",
  "annet/rulebook/patching.py:compile_patching_text @functools.lru_cache"
]

end Annet.ProcessState
