/-
Vocabulary for the C06 theorems.  Specification only.
-/
import AnnetModel.Model.Acl

namespace Annet.Acl.Spec
open Annet Annet.Acl

mutual
  /-- order-preserving sub-tree: rows may be dropped (with their subtrees), nothing is added or reordered -/
  inductive SubL : List (String × Cfg) → List (String × Cfg) → Prop
    | nil (l : List (String × Cfg)) : SubL [] l
    | skip {a l : List (String × Cfg)} (x : String × Cfg) : SubL a l → SubL a (x :: l)
    | keep {a l : List (String × Cfg)} {c c' : Cfg} (k : String) : Sub c c' → SubL a l → SubL ((k, c) :: a) ((k, c') :: l)
  inductive Sub : Cfg → Cfg → Prop
    | mk {a b : List (String × Cfg)} : SubL a b → Sub (.mk a) (.mk b)
end

/-- a row passes the ACL at `rules`: it has a match, the selected (first) match is not an ignore rule and
is not "reverse form of a rule that only has cant_delete generators"; returns the rules for its children -/
def passRow (v : Vendor) (rules : Rules) (row : String) : Option Rules :=
  match matchRowToAcl v row rules false with
  | .ok (some (m, cr)) => if m.isReverse && m.rule.cantDelete.all id then none else some cr
  | _ => none

/-- walk a path from `rules`: `some` = every row of the path passes at the rules reached along it -/
def walk (v : Vendor) : Rules → List String → Option Rules
  | rules, [] => some rules
  | rules, r :: rest =>
    match passRow v rules r with
    | none => none
    | some cr => walk v cr rest

/-- no rule row outside the grammar is ever consulted (the model's only non-annet error) -/
def NoGrammarErr (r : Except Err Cfg) : Prop := r ≠ .error .grammar

mutual
  /-- document-order first row that has *no* ACL match at a covered parent -/
  def firstUnmatched (v : Vendor) (rules : Rules) (path : List String) : Cfg → Option (List String)
    | .mk ks => firstUnmatchedL v rules path ks
  def firstUnmatchedL (v : Vendor) (rules : Rules) (path : List String) :
      List (String × Cfg) → Option (List String)
    | [] => none
    | (row, ch) :: rest =>
      match matchRowToAcl v row rules false with
      | .ok (some (m, cr)) =>
        if m.isReverse && m.rule.cantDelete.all id then firstUnmatchedL v rules path rest
        else match firstUnmatched v cr (path ++ [row]) ch with
          | some q => some q
          | none => firstUnmatchedL v rules path rest
      | _ => some (path ++ [row])
end

mutual
  def allRowsNonEmpty : Cfg → Bool
    | .mk ks => allRowsNonEmptyL ks
  def allRowsNonEmptyL : List (String × Cfg) → Bool
    | [] => true
    | (row, ch) :: rest => !row.toList.isEmpty && allRowsNonEmpty ch && allRowsNonEmptyL rest
end

end Annet.Acl.Spec
