/-
Vocabulary for the end-to-end convergence theorem of C01 on flat configurations (stage 1 of DESIGN §5 C01).
Specification only.
-/
import AnnetModel.Spec.DeviceAbs
import AnnetModel.Spec.Sort

namespace Annet.Converge
open Annet Annet.Rules Annet.Device Annet.Device.Abs

/-- every line is a leaf -/
def FlatCfg (c : Cfg) : Prop := ∀ e ∈ c.kids, e.2 = .mk []

/-- a one-level rulebook over the default diff logic and the `default` / `undo_redo` patch logics.
Last conjunct: the raw rule text determines the rule's parameters — a compiled rulebook is a Python dict
keyed by the raw rule text, so raw texts are pairwise distinct (`make_pre` groups rows by raw rule text and
takes the parameters of the first row it sees).  Without it the statement is false of the model: with the rules
`x: "sysname"` and `x: "mtu *"` sharing the raw text `x`, old = {sysname a, mtu 1}, new = {} the patch is
`undo sysname`, `undo sysname` and `mtu 1` stays. -/
def FlatRules (rules : PRules) : Prop :=
  rules.glob = [] ∧ (∀ r ∈ rules.loc,
    r.ignore = false ∧ r.children = some ([], []) ∧ r.attrs.diffLogic = "common.default_diff" ∧
    (r.attrs.logic = "common.default" ∨ r.attrs.logic = "common.undo_redo") ∧ r.attrs.forceCommit = false) ∧
  (∀ r ∈ rules.loc, ∀ r' ∈ rules.loc, r.rawRule = r'.rawRule → r.attrs = r'.attrs)

/-- every line instantiates a rule -/
def AllKnown (rules : PRules) (c : Cfg) : Prop := ∀ e ∈ c.kids, (slotOf rules e.1).isSome

/-- The removal command of a rule is understood by the device as the removal of that rule's slot, and a
configuration line is never mistaken for a removal or an exit word (C07's reverse round trip and the
"no rule row starts with the negation word" domain restriction, stated as what the proof needs). -/
structure CmdsOK (v : Vendor) (env : Env) (rules : PRules) : Prop where
  sameReverse : env.reverse = v.reverse
  /-- the vendor's block-exit word (if any) is one of the device's exit words: `get_order` gives a command
  equal to it the order `+inf`, direct.  Without it the statement is false of the model: with `v.exit = "undo mtu"`,
  exits = ["quit"], rule `mtu` (undo_redo), one unrelated ordering rule, old = {mtu 1500}, new = {mtu 9000} the patch
  is sorted `mtu 9000`, `undo mtu` and the device ends up empty. -/
  exitKnown : v.exit = "" ∨ env.exits.contains v.exit = true
  removal : ∀ row m cr, classify rules row = some (m, cr) →
    ∀ c, Patch.reverseCmd v m.attrs m.key = some c →
      ¬ env.exits.contains c = true ∧ ∃ r', stripReverse env c = some r' ∧ slotOf rules r' = some (m.rawRule, m.key)
  line : ∀ row, (slotOf rules row).isSome →
    ¬ env.exits.contains row = true ∧ ((stripReverse env row).bind fun r' => slotOf rules r') = none

mutual
  /-- no `%order_reverse` rule anywhere (such a rule may pin a removal after the re-creation of its key) -/
  def NoPin : List ORule → Prop
    | [] => True
    | r :: rest => NoPinRule r ∧ NoPin rest
  def NoPinRule : ORule → Prop
    | .mk _ _ orev _ _ ch => orev = false ∧ NoPin ch
end

end Annet.Converge
