/-
C19 — specification-only definitions (not annet code): what "the winning
generator" means, what a canonical Unix text is, and the full-strength
statements of the two clauses that are false of the code as it is.
-/
import AnnetModel.Model.Files

namespace Annet.Files.Spec
open Annet.Files

/-- `r` is a result of highest priority for path `p` among `rs`. -/
def IsWinner (rs : List EntireResult) (p : Path) (r : EntireResult) : Prop :=
  r ∈ rs ∧ r.path = p ∧ p ≠ [] ∧ ∀ r' ∈ rs, r'.path = p → r'.prio ≤ r.prio

/-- Generators competing for one path have different priorities
(the hypothesis under which the property speaks of *the* winner). -/
def DistinctPrio (rs : List EntireResult) : Prop :=
  rs.Pairwise (fun a b => a.path = b.path → a.prio ≠ b.prio)

/-- The results `run_file_generators` feeds to `add_entire`, in listing order:
what each supported, non-raising generator produces on its own. -/
def produced (dev : Dev) (gens : List Gen) : List EntireResult :=
  gens.filterMap fun g =>
    match runEntireGenerator dev g with
    | .ok (some r) => some r
    | _ => none

/-- What `new_files(safe)` makes of a result. -/
def planned (safe : Bool) (r : EntireResult) : Option (Text × Text) :=
  if !safe || r.isSafe then some (r.output, r.reload) else none

/-- The upload condition the code evaluates for file `p` with generated content `c`. -/
def uploads (ud : UDiff) (inp : JobIn) (p : Path) (c : Text) : Prop :=
  joinNl (diffFile ud (lookup p inp.oldFiles) c) ≠ [] ∨ inp.reload = .force

/-- `"\n".join(after + exit)` with its separator, as appended to a reload command -/
def driverTail (drv : DriverCmds) : Text :=
  if joinNl (drv.after ++ drv.exit) = [] then [] else '\n' :: joinNl (drv.after ++ drv.exit)

/-- Canonical Unix text: `\n` is the only line break used, and a non-empty text
ends with one. -/
def endsNlOrEmpty : Text → Bool
  | [] => true
  | [c] => c == '\n'
  | _ :: c' :: rest => endsNlOrEmpty (c' :: rest)

def Canonical (t : Text) : Prop :=
  (∀ c ∈ t, isSep c = true → c = '\n') ∧ endsNlOrEmpty t = true

/-- inverse of `splitlines` on canonical texts -/
def unlines (ls : List Text) : Text := ls.flatMap (· ++ ['\n'])

/-- FULL-STRENGTH upload clause of C19 (false of the code, see
`C19_upload_iff_differs_false`): a planned file is scheduled for upload exactly when
its generated content differs from the device's content or reload is forced. -/
def UploadIffDiffers : Prop :=
  ∀ (ud : UDiff), UdSpec ud → ∀ (inp : JobIn) (out : JobOut),
    inp.err = false → NoDupKeys inp.newFiles → parseResult ud inp = .ok out →
    ∀ p c rl, lookup p inp.newFiles = some (c, rl) →
      ((lookup p out.files).isSome ↔ (lookup p inp.oldFiles ≠ some c ∨ inp.reload = .force))

/-- FULL-STRENGTH diff clause of C19 (false of the code, see
`C19_diff_empty_iff_equal_false`): a planned file is shown by `pc_diff` exactly when
its generated content differs from the device's content. -/
def DiffShownIffDiffers : Prop :=
  ∀ (ud : UDiff), UdSpec ud → ∀ (old : List (Path × Text)) (new : NewFiles),
    NoDupKeys new → ∀ p c rl, lookup p new = some (c, rl) →
      ((∃ e ∈ pcDiffEntries ud old new, e.1 = p) ↔ lookup p old ≠ some c)

/-! ### data of the falsity witnesses -/

/-- toy instance of the `difflib` parameter used by the witnesses and examples -/
def udToy : UDiff := fun a b => if a = b then [] else [['-'], ['+']]

/-- device has `a`, generated `a\n`, reloads enabled but not forced -/
def witnessIn : JobIn :=
  { hostname := ['h'], err := false, oldFiles := [(['f'], ['a'])],
    newFiles := [(['f'], (['a', '\n'], ['r']))], reload := .yes,
    drv := { before := [], after := [], exit := [] } }

end Annet.Files.Spec
