/-
JSON glue shared by all driver ops.  Not part of the model: only (de)serialises.
-/
import Lean.Data.Json
import AnnetModel.Model.Tree

namespace Annet.Glue
open Lean

partial def cfgToJson : Cfg → Json
  | .mk ks => Json.arr (ks.map fun (k, c) => Json.arr #[Json.str k, cfgToJson c]).toArray

partial def cfgOfJson (j : Json) : Except String Cfg := do
  let arr ← j.getArr?
  let ks ← arr.toList.mapM fun e => do
    let pair ← e.getArr?
    if pair.size != 2 then throw "cfg: pair expected"
    let k ← pair[0]!.getStr?
    let c ← cfgOfJson pair[1]!
    pure (k, c)
  pure (.mk ks)

def strList (j : Json) : Except String (List String) := do
  let arr ← j.getArr?
  arr.toList.mapM (·.getStr?)

def natList (j : Json) : Except String (List Nat) := do
  let arr ← j.getArr?
  arr.toList.mapM (·.getNat?)

def jStrs (l : List String) : Json := Json.arr (l.map Json.str).toArray
def jNat (n : Nat) : Json := Json.num (JsonNumber.fromNat n)
def jInt (n : Int) : Json := Json.num (JsonNumber.fromInt n)
def jNats (l : List Nat) : Json := Json.arr (l.map jNat).toArray

def arg (j : Json) (k : String) : Except String Json := j.getObjVal? k

abbrev Handler := Json → Except String Json

end Annet.Glue
