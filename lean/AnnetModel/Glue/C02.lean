import AnnetModel.Glue.Rb
import AnnetModel.Glue.C06
import AnnetModel.Model.AclDiff

namespace Annet.Glue.C02
open Lean Annet.Glue Annet.AclDiff

/-- `{"op":"c02.patch", vendor, patching, ordering, old, new, "acl_trees":…, "acl_vendor":{reverse,juniper}}` →
`_diff_and_patch` with an ACL -/
def patchH : Handler := fun j => do
  let job ← Rb.jobOfJson j
  let trees ← C06.treesOfJson (← arg j "acl_trees")
  let av ← C06.vendorOfJson (← arg j "acl_vendor")
  match deviceModeAcl Patch.runLogic job.v av (Acl.compileAcl trees) job.rules job.ordering job.old job.new with
  | .error (.acl e) => pure (C06.errToJson e)
  | .error (.patch e) => pure (Rb.pErr e)
  | .ok res => pure (Json.mkObj [("patch", Rb.ptreeToJson res.patch),
                                 ("stripped", Json.arr (res.diff.map Rb.ditemToJson).toArray)])

def handlers : List (String × Handler) := [("c02.patch", patchH)]

end Annet.Glue.C02
