/-
Glue for the rulebook pipeline (diff / patch / ordering): serves C01 C02 C03 C08 C16 C17.
-/
import AnnetModel.Model.Collapse
import AnnetModel.Glue.Common
import AnnetModel.Model.Api
import AnnetModel.Spec.TestLogics
import AnnetModel.Spec.DiffText
import AnnetModel.Spec.DiffTextStrict
import AnnetModel.Spec.ConvergeNested

namespace Annet.Glue.Rb
open Lean Annet.Glue Annet.Rules Annet.Diff Annet.Patch

partial def rawPOfJson (j : Json) : Except String RawP := do
  let raw ← (← arg j "raw_rule").getStr?
  let row ← (← arg j "row").getStr?
  let ign ← (← arg j "ignore").getBool?
  let g ← (← arg j "global").getBool?
  let logic ← (← arg j "logic").getStr?
  let dl ← (← arg j "diff_logic").getStr?
  let ord ← (← arg j "ordered").getBool?
  let rew ← (← arg j "rewrite").getBool?
  let parent ← (← arg j "parent").getBool?
  let fc ← (← arg j "force_commit").getBool?
  let ch ← (← (← arg j "children").getArr?).toList.mapM rawPOfJson
  pure (.mk raw row ign g logic dl ord rew parent fc ch)

partial def rawOOfJson (j : Json) : Except String RawO := do
  let raw ← (← arg j "raw_rule").getStr?
  let row ← (← arg j "row").getStr?
  let normal ← (← arg j "normal").getBool?
  let orev ← (← arg j "order_reverse").getBool?
  let g ← (← arg j "global").getBool?
  let scope : Option (List String) ← match j.getObjVal? "scope" with
    | .ok Json.null => pure none
    | .ok s => do pure (some (← strList s))
    | .error _ => pure none
  let ch ← (← (← arg j "children").getArr?).toList.mapM rawOOfJson
  pure (.mk raw row normal orev g scope ch)

def vendorOfJson (j : Json) : Except String Vendor := do
  let rev ← (← arg j "reverse").getStr?
  let ex ← (← arg j "exit").getStr?
  let dd ← (← arg j "default_diff").getStr?
  let od ← (← arg j "ordered_diff").getStr?
  pure { reverse := rev, exit := ex, defaultDiff := dd, orderedDiff := od }

partial def ditemToJson : DItem → Json
  | .mk op row ch m =>
    Json.arr #[Json.str op.name, Json.str row, Json.arr (ch.map ditemToJson).toArray,
               Json.arr #[Json.str m.rawRule, jStrs m.key]]

def sordToJson : SOrd → Json
  | .fin i => jInt i
  | .inf => Json.str "inf"

partial def ptreeToJson : PTree → Json
  | .mk items => Json.arr (items.map fun (row, ch, k) =>
      Json.arr #[Json.str row,
                 (match ch with | none => Json.null | some c => ptreeToJson c),
                 Json.arr #[sordToJson k.ord, Json.str k.rawRule, Json.bool k.direct]]).toArray

def dErr : Diff.Err → Json
  | .grammar => Json.mkObj [("grammar", false)]
  | .unmodelledLogic n => Json.mkObj [("grammar", false), ("unmodelled", n)]
  | .assertion w => Json.mkObj [("err", "AssertionError"), ("what", w)]

def pErr : Patch.Err → Json
  | .diff e => dErr e
  | .grammar => Json.mkObj [("grammar", false)]
  | .unmodelledLogic n => Json.mkObj [("grammar", false), ("unmodelled", n)]
  | .assertion w => Json.mkObj [("err", "AssertionError"), ("what", w)]

structure Job where
  v : Vendor
  rules : PRules
  ordering : List ORule
  old : Cfg
  new : Cfg

def jobOfJson (j : Json) : Except String Job := do
  let v ← vendorOfJson (← arg j "vendor")
  let rp ← (← (← arg j "patching").getArr?).toList.mapM rawPOfJson
  let ro ← (← (← arg j "ordering").getArr?).toList.mapM rawOOfJson
  let old ← cfgOfJson (← arg j "old")
  let new ← cfgOfJson (← arg j "new")
  pure { v := v, rules := compileP v rp, ordering := compileO ro, old := old, new := new }

def fmtOfJson (j : Json) : Except String (String × DiffText.Fmt) := do
  let name ← (← arg j "name").getStr?
  let ind ← (← arg j "indent").getStr?
  let bb ← (← arg j "block_begin").getStr?
  let be ← (← arg j "block_end").getStr?
  let se ← (← arg j "statement_end").getStr?
  pure (name, ⟨ind.toList, bb.toList, be.toList, se.toList⟩)

partial def sitemBeq : DiffText.SItem → DiffText.SItem → Bool
  | .mk s r c, .mk s' r' c' => s == s' && r == r' && c.length == c'.length && (c.zip c').all fun (a, b) => sitemBeq a b

/-- equality per level as a multiset (the harness's `multiset`): remove a matching entry for every entry -/
partial def sitemPermEq (l1 l2 : List DiffText.SItem) : Bool :=
  let eqv (a b : DiffText.SItem) : Bool :=
    a.sign == b.sign && a.row == b.row && sitemPermEq a.children b.children
  let rec rm (a : DiffText.SItem) : List DiffText.SItem → Option (List DiffText.SItem)
    | [] => none
    | b :: bs => if eqv a b then some bs else (rm a bs).map (b :: ·)
  match l1 with
  | [] => l2.isEmpty
  | a :: as =>
    match rm a l2 with
    | none => false
    | some l2' => sitemPermEq as l2'

/-- the two text views of the stripped diff (Model/DiffText.lean) and whether the readers of Spec/DiffText.lean
get the entries back -/
def textViews (j : Json) (sd : List DItem) : Except String (List (String × Json)) := do
  match j.getObjVal? "fmts" with
  | .error _ => pure []
  | .ok fj =>
    let fmts ← (← fj.getArr?).toList.mapM fmtOfJson
    match DiffText.signedList sd with
    | none => pure [("texts", Json.str "unchanged-entry")]
    | some s =>
      let texts := fmts.map fun (name, f) =>
        let lines := DiffText.diffText f s
        let back := match DiffText.parseSignedStrict f lines with
          | some b => b.length == s.length && (b.zip s).all fun (x, y) => sitemBeq x y
          | none => false
        Json.arr #[Json.str name, jStrs (lines.map String.ofList), Json.bool back]
      let k := 2
      let plines := DiffText.preText (List.replicate k ' ') sd
      let pback := match DiffText.parsePre k plines with
        | some b => sitemPermEq b s
        | none => false
      pure [("texts", Json.arr texts.toArray), ("pre_text", jStrs (plines.map String.ofList)),
            ("pre_back", Json.bool pback)]

/-- `{"op":"rb.diff", vendor, patching, ordering, old, new[, fmts]}` → `make_diff(old, new, rb, [])`, its stripped form
and (with `fmts`) the text views of the stripped form -/
def diffH : Handler := fun j => do
  let job ← jobOfJson j
  match makeDiff job.rules job.old job.new with
  | .error e => pure (dErr e)
  | .ok d =>
    let tv ← textViews j (stripUnchanged d)
    pure (Json.mkObj ([("diff", Json.arr (d.map ditemToJson).toArray),
                       ("stripped", Json.arr ((stripUnchanged d).map ditemToJson).toArray)] ++ tv))

/-- `{"op":"rb.patch", …, "do_commit":b, "mode":"device"|"file"}` → the front ends of api/__init__.py
(`Api.deviceMode` = `_diff_and_patch`, `Api.fileMode` = `_read_old_new_diff_patch`) -/
def patchH : Handler := fun j => do
  let job ← jobOfJson j
  let doCommit ← (← arg j "do_commit").getBool?
  let mode := match j.getObjVal? "mode" with
    | .ok (Json.str m) => m
    | _ => "device"
  let lg := Annet.TestLogics.runLogicPlus
  let r := if mode == "file" then Api.fileMode lg job.v job.rules job.ordering job.old job.new
           else Api.deviceMode lg job.v job.rules job.ordering doCommit job.old job.new
  match r with
  | .error e => pure (pErr e)
  | .ok res => pure (Json.mkObj [("patch", ptreeToJson res.patch),
                                 ("stripped", Json.arr (res.diff.map ditemToJson).toArray),
                                 ("tree_paths", Json.arr ((ConvergeNested.treePaths job.v.exit res.patch).map jStrs).toArray)])

/-- `{"op":"rb.order_config", vendor, ordering, config}` -/
def orderH : Handler := fun j => do
  let v ← vendorOfJson (← arg j "vendor")
  let ro ← (← (← arg j "ordering").getArr?).toList.mapM rawOOfJson
  let cfg ← cfgOfJson (← arg j "config")
  match orderConfig v (compileO ro) cfg with
  | none => pure (Json.mkObj [("grammar", false)])
  | some c => pure (Json.mkObj [("ok", cfgToJson c)])

/-- `{"op":"rb.collapse","devs":[{name, hw_vendor, <the fields of rb.diff>, fmts:[the device's own formatter]},…]}` →
`collapse_diffs` (Model/Collapse.lean) over the devices' own stripped diffs, keyed by the text of the device's formatter
(Model/DiffText.lean): the device names of every group and the index of the device whose diff is shown for it -/
def collapseH : Handler := fun j => do
  let devs ← (← arg j "devs").getArr?
  let mut es : List (Collapse.Entry Nat) := []
  let mut idx := 0
  for dj in devs.toList do
    let name ← (← arg dj "name").getStr?
    let hv ← (← arg dj "hw_vendor").getStr?
    let job ← jobOfJson dj
    let fmts ← (← (← arg dj "fmts").getArr?).toList.mapM fmtOfJson
    match fmts.head? with
    | none => throw "rb.collapse: fmts"
    | some (_, f) =>
      match makeDiff job.rules job.old job.new with
      | .error e => return dErr e
      | .ok d =>
        match DiffText.signedList (stripUnchanged d) with
        | none => throw "rb.collapse: unchanged entry"
        | some s => es := es ++ [⟨name.toList, hv.toList, idx, DiffText.diffText f s⟩]
    idx := idx + 1
  pure (Json.mkObj [("groups", Json.arr ((Collapse.collapse es).map fun (ds, i) =>
    Json.arr #[jStrs (ds.map String.ofList), jNat i]).toArray)])

def handlers : List (String × Handler) :=
  [("rb.diff", diffH), ("rb.patch", patchH), ("rb.order_config", orderH), ("rb.collapse", collapseH)]

end Annet.Glue.Rb
