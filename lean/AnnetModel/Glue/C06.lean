import AnnetModel.Glue.Common
import AnnetModel.Model.Acl

namespace Annet.Glue.C06
open Lean Annet.Glue Annet.Acl

partial def rawOfJson (j : Json) : Except String RawRule := do
  let row ← (← arg j "row").getStr?
  let ign ← (← arg j "ignore").getBool?
  let g ← (← arg j "global").getBool?
  let cd ← (← (← arg j "cant_delete").getArr?).toList.mapM (·.getBool?)
  let prio ← (← arg j "prio").getNat?
  let names ← strList (← arg j "generator_names")
  let ch ← (← (← arg j "children").getArr?).toList.mapM rawOfJson
  pure (.mk row ign g cd prio names ch)

def treesOfJson (j : Json) : Except String (List (List RawRule)) := do
  (← j.getArr?).toList.mapM fun t => do (← t.getArr?).toList.mapM rawOfJson

partial def ruleToJson : Rule → Json
  | .mk id row ign cd prio names ch =>
    Json.mkObj [("id", id), ("row", row), ("ignore", ign), ("cant_delete", Json.arr (cd.map Json.bool).toArray),
      ("prio", jNat prio), ("generator_names", jStrs names),
      ("children", match ch with
        | none => Json.null
        | some (l, g) => Json.mkObj [("local", Json.arr (l.map ruleToJson).toArray),
                                      ("global", Json.arr (g.map ruleToJson).toArray)])]

def rulesToJson (r : Rules) : Json :=
  Json.mkObj [("local", Json.arr (r.loc.map ruleToJson).toArray), ("global", Json.arr (r.glob.map ruleToJson).toArray)]

def vendorOfJson (j : Json) : Except String Vendor := do
  let rev ← (← arg j "reverse").getStr?
  let jun ← (← arg j "juniper").getBool?
  pure { reverse := rev, juniper := jun }

def errToJson : Err → Json
  | .grammar => Json.mkObj [("grammar", false)]
  | .aclError p => Json.mkObj [("err", "AclError"), ("path", jStrs p)]
  | .notExclusive p n => Json.mkObj [("err", "AclNotExclusiveError"), ("path", jStrs p), ("names", jStrs n)]

/-- `{"op":"c06.compile","trees":[[raw…]]}` -/
def compileH : Handler := fun j => do
  let trees ← treesOfJson (← arg j "trees")
  pure (Json.mkObj [("ok", rulesToJson (compileAcl trees))])

/-- `{"op":"c06.apply","trees":…,"vendor":{…},"fatal":b,"exclusive":b,"config":tree}` -/
def applyH : Handler := fun j => do
  let trees ← treesOfJson (← arg j "trees")
  let v ← vendorOfJson (← arg j "vendor")
  let fatal ← (← arg j "fatal").getBool?
  let excl ← (← arg j "exclusive").getBool?
  let cfg ← cfgOfJson (← arg j "config")
  match applyAcl v fatal excl (compileAcl trees) [] cfg with
  | .error e => pure (errToJson e)
  | .ok t => pure (Json.mkObj [("ok", cfgToJson t)])

def handlers : List (String × Handler) := [("c06.compile", compileH), ("c06.apply", applyH)]

end Annet.Glue.C06
