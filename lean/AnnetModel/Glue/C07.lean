import AnnetModel.Glue.Common
import AnnetModel.Model.Pattern

namespace Annet.Glue.C07
open Lean Annet.Glue Annet.Pattern

def jchars (l : List Char) : Json := Json.str (String.ofList l)

/-- `{"op":"c07.match","pattern":row,"row":text}` →
`{"grammar":false}` | `{"grammar":true,"match":null|[groups]}` -/
def matchH : Handler := fun j => do
  let pat ← (← arg j "pattern").getStr?
  let row ← (← arg j "row").getStr?
  match parseRow false pat.toList with
  | none => pure (Json.mkObj [("grammar", false)])
  | some p =>
    match p.match? row.toList with
    | none => pure (Json.mkObj [("grammar", true), ("match", Json.null), ("source", jchars (patternSource p))])
    | some ks => pure (Json.mkObj [("grammar", true), ("match", Json.arr (ks.map jchars).toArray),
                                    ("source", jchars (patternSource p))])

/-- `{"op":"c07.reverse","pattern":row,"prefix":p}` → template text of patching `_make_reverse` -/
def reverseH : Handler := fun j => do
  let pat ← (← arg j "pattern").getStr?
  let pre ← (← arg j "prefix").getStr?
  match parseRow true pat.toList with
  | none => pure (Json.mkObj [("grammar", false)])
  | some p =>
    if p.ellipsis then pure (Json.mkObj [("grammar", false)]) else
    pure (Json.mkObj [("grammar", true), ("template", jchars (renderTemplate (makeReverse pre.toList p.toks)))])

/-- `{"op":"c07.format","pattern":row,"prefix":p,"key":[..]}` → removal command text or null -/
def formatH : Handler := fun j => do
  let pat ← (← arg j "pattern").getStr?
  let pre ← (← arg j "prefix").getStr?
  let key ← strList (← arg j "key")
  match parseRow true pat.toList with
  | none => pure (Json.mkObj [("grammar", false)])
  | some p =>
    if p.ellipsis then pure (Json.mkObj [("grammar", false)]) else
    match format (makeReverse pre.toList p.toks) (key.map String.toList) with
    | none => pure (Json.mkObj [("grammar", true), ("cmd", Json.null)])
    | some ws => pure (Json.mkObj [("grammar", true), ("cmd", jchars (joinWords ws))])

/-- `{"op":"c07.negate","row":row,"prefix":p}` → ACL/ordering negated row -/
def negateH : Handler := fun j => do
  let row ← (← arg j "row").getStr?
  let pre ← (← arg j "prefix").getStr?
  pure (Json.mkObj [("ok", jchars (joinWords (negate pre.toList (splitBlank row.toList))))])

def handlers : List (String × Handler) :=
  [("c07.match", matchH), ("c07.reverse", reverseH), ("c07.format", formatH), ("c07.negate", negateH)]

end Annet.Glue.C07
