import AnnetModel.Glue.Common
import AnnetModel.Model.Hw

namespace Annet.Glue.C18
open Lean Annet.Glue Annet.Hw

def strLists (j : Json) : Except String (List (List String)) := do
  let arr ← j.getArr?
  arr.toList.mapM strList

def jPaths (l : List (List String)) : Json := Json.arr (l.map jStrs).toArray

/-- `[[["Huawei","CE"], " CE\\d+"], …]` -/
def dbOfJson (j : Json) : Except String (List (List String × String)) := do
  let arr ← j.getArr?
  arr.toList.mapM fun e => do
    let pair ← e.getArr?
    if pair.size != 2 then throw "db: pair expected"
    pure (← strList pair[0]!, ← pair[1]!.getStr?)

/-- `[["huawei", ["Huawei"]], …]` in registration order; expressions are parsed by `parseExpr` -/
def vendorsOfJson (j : Json) : Except String (List (String × List (List String × Nat))) := do
  let arr ← j.getArr?
  arr.toList.mapM fun e => do
    let pair ← e.getArr?
    if pair.size != 2 then throw "vendors: pair expected"
    pure (← pair[0]!.getStr?, (← strList pair[1]!).map parseExpr)

def jMatch : Option Bool → Json
  | none => Json.str "AttributeError"
  | some b => Json.bool b

def jVendor : Option (Option String) → Json
  | none => Json.str "AttributeError"
  | some none => Json.null
  | some (some v) => Json.mkObj [("vendor", Json.str v)]

def evalOn (h : HwSets String) (exprs : List String)
    (vendors : List (String × List (List String × Nat))) : List (String × Json) :=
  [("match", Json.arr (exprs.map fun e => jMatch (hwMatchPath h (parseExpr e).1)).toArray),
   ("vendor", jVendor (registryMatch h vendors))]

/-- `{"op":"c18.hw","db":…,"true":[patterns that match],"exprs":[…],"vendors":[…],"full":bool}`:
`parse_hw_model` on the given database under the given outcome of the regexp searches, then `hw.match` on
every expression and `Registry.match` on the vendors. -/
def hw : Handler := fun j => do
  let db ← dbOfJson (← arg j "db")
  let truePats ← strList (← arg j "true")
  let exprs ← strList (← arg j "exprs")
  let vendors ← vendorsOfJson (← arg j "vendors")
  let full := (j.getObjVal? "full" >>= (·.getBool?)).toOption.getD false
  match parseHw db (fun r => truePats.contains r) with
  | .error .keyError => pure (Json.mkObj [("err", "KeyError")])
  | .error .typeError => pure (Json.mkObj [("err", "TypeError")])
  | .ok h =>
    pure (Json.mkObj ([("true", jPaths h.trueS), ("nfalse", jNat h.falseS.length)]
      ++ (if full then [("false", jPaths h.falseS)] else [])
      ++ evalOn h exprs vendors))

/-- `{"op":"c18.leaf","trueS":[[…]],"falseS":[[…]],"exprs":[…],"vendors":[…]}`: a `HardwareLeaf` built on
arbitrary sets. -/
def leaf : Handler := fun j => do
  let t ← strLists (← arg j "trueS")
  let f ← strLists (← arg j "falseS")
  let exprs ← strList (← arg j "exprs")
  let vendors ← vendorsOfJson (← arg j "vendors")
  pure (Json.mkObj (evalOn ⟨t, f⟩ exprs vendors))

/-! provider histories: the parameters of `Env` arrive as finite tables computed by the real functions -/

def optStr (j : Json) : Option String := j.getStr?.toOption

def rows (j : Json) : Except String (List (Array Json)) := do
  let arr ← j.getArr?
  arr.toList.mapM (·.getArr?)

def envOfJson (j : Json) : Except String (Env String String String String String String) := do
  let vendorOf ← (← rows (← arg j "vendor_of")).mapM fun r => do
    if r.size != 2 then throw "vendor_of row"
    pure (← r[0]!.getStr?, optStr r[1]!)
  let registered ← strList (← arg j "registered")
  let alias ← (← rows (← arg j "alias")).mapM fun r => do
    if r.size != 2 then throw "alias row"
    pure (← r[0]!.getStr?, ← r[1]!.getStr?)
  let escaped ← (← rows (← arg j "escaped")).mapM fun r => do
    if r.size != 2 then throw "escaped row"
    pure (← r[0]!.getStr?, ← r[1]!.getStr?)
  let render ← (← rows (← arg j "render")).mapM fun r => do
    if r.size != 4 then throw "render row"
    pure ((← r[0]!.getStr?, ← r[1]!.getStr?, ← r[2]!.getStr?), optStr r[3]!)
  let compile ← (← rows (← arg j "compile")).mapM fun r => do
    if r.size != 4 then throw "compile row"
    pure ((← r[0]!.getNat?, ← r[1]!.getStr?, ← r[2]!.getStr?), optStr r[3]!)
  pure {
    vendorOf := fun m => (assocGet m vendorOf).join
    registered := fun v => registered.contains v
    alias := fun v => match assocGet v alias with | some a => a | none => v
    fileName := fun v i => v ++ (if i == 0 then ".rul" else if i == 1 then ".order" else ".deploy")
    readEscaped := fun n => assocGet n escaped
    render := fun t m s => (assocGet (t, m, s) render).join
    compile := fun i t v => (assocGet (i, t, v) compile).join
    emptyText := "" }

def jRb : Except RbErr (String × String × String) → Json
  | .ok (p, o, d) => jStrs [p, o, d]
  | .error .unknownVendor => Json.str "unknownVendor"
  | .error .fileNotFound => Json.str "fileNotFound"
  | .error .renderFailed => Json.str "renderFailed"
  | .error .compileFailed => Json.str "compileFailed"

def runCalls (E : Env String String String String String String)
    (st : Provider String String String String) : List (String × String) → List Json
  | [] => []
  | (m, s) :: rest =>
    let r := getRulebook E st m s
    jRb r.2 :: runCalls E r.1 rest

/-- `{"op":"c18.provider","history":[[model,soft],…], tables…}`: one provider instance, the calls in order -/
def provider : Handler := fun j => do
  let E ← envOfJson j
  let hist ← (← rows (← arg j "history")).mapM fun r => do
    if r.size != 2 then throw "history row"
    pure (← r[0]!.getStr?, ← r[1]!.getStr?)
  pure (Json.mkObj [("results", Json.arr (runCalls E Provider.fresh hist).toArray)])

/-- `{"op":"c18.escape","text":…}` → `_escape_mako(text)` -/
def escape : Handler := fun j => do
  let text ← (← arg j "text").getStr?
  pure (Json.mkObj [("ok", Json.str (escapeMako text))])

def handlers : List (String × Handler) :=
  [("c18.hw", hw), ("c18.leaf", leaf), ("c18.provider", provider), ("c18.escape", escape)]

end Annet.Glue.C18
