import AnnetModel.Glue.Common
import AnnetModel.Model.Offside

namespace Annet.Glue.C05
open Lean Annet.Glue Annet.Offside

/-- `{"op":"c05.parse","lines":[...],"comments":[...]}` →
`{"ok": tree}` or `{"err":"ParserError","line":n}`; also returns the stacks. -/
def parse : Handler := fun j => do
  let lines ← strList (← arg j "lines")
  let comments ← strList (← arg j "comments")
  let items := lines.map (classify comments)
  match stacks items with
  | .error n => pure (Json.mkObj [("err", "ParserError"), ("line", jNat n)])
  | .ok ss => pure (Json.mkObj [("ok", cfgToJson (treeOfStacks ss)),
                                 ("stacks", Json.arr (ss.map jStrs).toArray)])

/-- `{"op":"c05.split","text":...}` → lines as `CommonFormatter.split` gives them -/
def split : Handler := fun j => do
  let text ← (← arg j "text").getStr?
  pure (Json.mkObj [("ok", jStrs (splitCommon text))])

/-- `{"op":"c05.parse_text","text":...,"comments":[...]}`: split as CommonFormatter, then parse -/
def parseText : Handler := fun j => do
  let text ← (← arg j "text").getStr?
  let comments ← strList (← arg j "comments")
  match parseToTree comments (splitCommon text) with
  | .error n => pure (Json.mkObj [("err", "ParserError"), ("line", jNat n)])
  | .ok t => pure (Json.mkObj [("ok", cfgToJson t)])

def handlers : List (String × Handler) := [("c05.parse", parse), ("c05.split", split), ("c05.parse_text", parseText)]

end Annet.Glue.C05
