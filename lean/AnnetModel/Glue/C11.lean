/-
JSON glue for C11.  Only lexes rows into the model's tokens, calls the model, renders tokens back.
Lexing = `str.split()` (ASCII blanks) + classification of each part (`isdigit`, `== "to"`,
`[\d,-]+`), and for Cisco the `re.sub(r",\s+", ",", row)` of cisco/vlandb.py:81.
-/
import AnnetModel.Glue.Common
import AnnetModel.Model.Vlan

namespace Annet.Glue.C11
open Lean Annet.Glue Annet.Vlan

def isBlank (c : Char) : Bool := c == ' ' || c == '\t' || c == '\n' || c == '\r'

/-- `str.split()` on char lists -/
def splitWsGo : List Char → List Char → List (List Char) → List (List Char)
  | [], cur, acc => (if cur.isEmpty then acc else cur.reverse :: acc).reverse
  | c :: rest, cur, acc =>
    if isBlank c then splitWsGo rest [] (if cur.isEmpty then acc else cur.reverse :: acc)
    else splitWsGo rest (c :: cur) acc

def splitWs (cs : List Char) : List (List Char) := splitWsGo cs [] []

def splitOnCharGo (sep : Char) : List Char → List Char → List (List Char) → List (List Char)
  | [], cur, acc => (cur.reverse :: acc).reverse
  | c :: rest, cur, acc =>
    if c == sep then splitOnCharGo sep rest [] (cur.reverse :: acc) else splitOnCharGo sep rest (c :: cur) acc

def splitOnChar (sep : Char) (cs : List Char) : List (List Char) := splitOnCharGo sep cs [] []

def natOfDigits (cs : List Char) : Option Nat :=
  if cs.isEmpty || !cs.all Char.isDigit then none
  else some (cs.foldl (fun a c => a * 10 + (c.toNat - '0'.toNat)) 0)

def lexH (row : String) : HRow :=
  (splitWs row.toList).map fun w =>
    if w == "to".toList then .to
    else match natOfDigits w with
      | some v => .n v
      | none => .w (String.ofList w)

def renderHTok : HTok → String
  | .w s => s
  | .n v => toString v
  | .to => "to"

def showH (r : HRow) : String := " ".intercalate (r.map renderHTok)

/-- `re.sub(r",\s+", ",", row)` -/
def subCommaWs : List Char → Bool → List Char
  | [], _ => []
  | c :: rest, skipping =>
    if skipping && isBlank c then subCommaWs rest true
    else c :: subCommaWs rest (c == ',')

def lexSpec (w : List Char) : Option (List (List Nat)) :=
  if w.isEmpty || !w.all (fun c => c.isDigit || c == ',' || c == '-') then none
  else (splitOnChar ',' w).mapM fun part => (splitOnChar '-' part).mapM natOfDigits

def lexC (row : String) : CRow :=
  (splitWs (subCommaWs row.toList false)).map fun w =>
    match lexSpec w with
    | some parts => .spec parts
    | none => .w (String.ofList w)

def showSpec (parts : List (List Nat)) : String :=
  ",".intercalate (parts.map fun p => "-".intercalate (p.map toString))

def renderCTok : CTok → String
  | .w s => s
  | .spec parts => showSpec parts

def showC (r : CRow) : String := " ".intercalate (r.map renderCTok)

def errName : Err → String
  | .value => "ValueError"
  | .index => "IndexError"
  | .assertion => "AssertionError"

def jErr (e : Err) : Json := Json.mkObj [("err", Json.str (errName e))]

def rowsH (j : Json) : Except String (List HRow) := do
  let l ← strList j
  pure (l.map lexH)

def optArr (j : Json) (k : String) : Except String Json :=
  match j.getObjVal? k with
  | .ok v => pure v
  | .error _ => pure (Json.arr #[])

def jYieldsH (ys : List (Yield HRow Unit)) : Json :=
  Json.arr (ys.map fun y => Json.arr #[Json.bool y.direct, Json.str (showH y.row)]).toArray

def modeH (s : String) : Except String HMode :=
  match s with
  | "single" => pure .single
  | "multi" => pure .multi
  | "multi_all" => pure .multiAll
  | _ => throw s!"bad huawei mode {s}"

/-- `{"op":"c11.h_expand","row":"2 to 5 10"}` -/
def hExpand : Handler := fun j => do
  let row ← (← arg j "row").getStr?
  match huaweiExpand (lexH row) with
  | .ok vl => pure (Json.mkObj [("ok", jNats vl)])
  | .error e => pure (jErr e)

/-- `{"op":"c11.c_expand","row":"2-5,10"}`: the row must lex as one spec word -/
def cExpand : Handler := fun j => do
  let row ← (← arg j "row").getStr?
  match lexSpec row.toList with
  | none => throw "c_expand: not a spec"
  | some parts =>
    match ciscoExpand parts with
    | .ok vl => pure (Json.mkObj [("ok", jNats vl)])
    | .error e => pure (jErr e)

/-- `{"op":"c11.collapse","vlans":[…],"sep":"to"|"-","tiny":bool,"chunk_len":n}` →
the list (or list of chunks) of formatted items, as `collapse_vlandb` returns them -/
def collapseH : Handler := fun j => do
  let vl ← natList (← arg j "vlans")
  let sep ← (← arg j "sep").getStr?
  let tiny ← (← arg j "tiny").getBool?
  let cl ← (← arg j "chunk_len").getNat?
  let item (r : Nat × Nat) : String :=
    if sep == "to" then showH (renderH r) else showSpec [renderC r]
  match collapseChunks tiny cl vl with
  | .error e => pure (jErr e)
  | .ok chunks =>
    -- the round trip: join the formatted items as the callers do and expand them again
    let flat := chunks.flatten
    let back := if sep == "to" then huaweiExpand (renderHs flat) else ciscoExpand (flat.map renderC)
    match back with
    | .error e => pure (Json.mkObj [("ok", Json.null), ("back", jErr e)])
    | .ok b =>
      if cl == 0 then pure (Json.mkObj [("ok", jStrs ((chunks.headD []).map item)), ("back", jNats b)])
      else pure (Json.mkObj [("ok", Json.arr (chunks.map fun c => jStrs (c.map item)).toArray), ("back", jNats b)])

def bucketsH (j : Json) : Except String (Buckets HRow) := do
  pure { added := ← rowsH (← optArr j "added"), removed := ← rowsH (← optArr j "removed"),
         affected := ← rowsH (← optArr j "affected"), unchanged := ← rowsH (← optArr j "unchanged") }

/-- `{"op":"c11.h_logic","mode":…,"rev":"undo …","added":[rows],"removed":[…],"unchanged":[…],"affected":[…]}` -/
def hLogicH : Handler := fun j => do
  let m ← modeH (← (← arg j "mode").getStr?)
  let rev ← (← arg j "rev").getStr?
  let d ← bucketsH j
  match hLogic m (lexH rev) d with
  | .ok ys => pure (Json.mkObj [("ok", jYieldsH ys)])
  | .error e => pure (jErr e)

/-- `{"op":"c11.h_pipe","mode":…,"rev":…,"old":[rows],"new":[rows]}`: bucketing + logic -/
def hPipe : Handler := fun j => do
  let m ← modeH (← (← arg j "mode").getStr?)
  let rev ← (← arg j "rev").getStr?
  let old ← rowsH (← arg j "old")
  let new ← rowsH (← arg j "new")
  match hLeaf m (lexH rev) old new with
  | .ok ys => pure (Json.mkObj [("ok", jYieldsH ys)])
  | .error e => pure (jErr e)

def opOf (s : String) : Except String Op :=
  match s with
  | "added" => pure .added
  | "removed" => pure .removed
  | "affected" => pure .affected
  | "moved" => pure .moved
  | "unchanged" => pure .unchanged
  | _ => throw s!"bad op {s}"

def opName : Op → String
  | .added => "added" | .removed => "removed" | .affected => "affected"
  | .moved => "moved" | .unchanged => "unchanged"

/-- `{"op":"c11.h_vlan_diff","new":[rows],"items":[[op,row,hasChildren],…]}` -/
def hVlanDiffH : Handler := fun j => do
  let new ← rowsH (← arg j "new")
  let arr ← (← arg j "items").getArr?
  let items ← arr.toList.mapM fun e => do
    let t ← e.getArr?
    if t.size != 3 then throw "item: triple expected"
    pure ({ op := ← opOf (← t[0]!.getStr?), row := lexH (← t[1]!.getStr?),
            hasChildren := ← t[2]!.getBool? } : DItem)
  match hVlanDiff new items with
  | .error e => pure (jErr e)
  | .ok out => pure (Json.mkObj [("ok", Json.arr (out.map fun it =>
      Json.arr #[Json.str (opName it.op), Json.str (showH it.row), Json.bool it.hasChildren]).toArray)])

def actionsC (j : Json) : Except String (List (CAction String)) := do
  let arr ← j.getArr?
  arr.toList.mapM fun e => do
    let row ← (← arg e "row").getStr?
    let ch := match e.getObjVal? "children" with
      | .ok (Json.str s) => some s
      | _ => none
    pure { row := lexC row, children := ch }

def modeC (s : String) : Except String CMode :=
  match s with
  | "simple" => pure .simple
  | "swtrunk" => pure .swtrunk
  | _ => throw s!"bad cisco mode {s}"

def jYieldsC (ys : List (Yield CRow String)) : Json :=
  Json.arr (ys.map fun y => Json.arr #[Json.bool y.direct, Json.str (showC y.row),
    match y.children with | some s => Json.str s | none => Json.null]).toArray

/-- `{"op":"c11.c_logic","mode":…,"catalyst":bool,"added":[{"row":…,"children":id|null}],…}` -/
def cLogicH : Handler := fun j => do
  let m ← modeC (← (← arg j "mode").getStr?)
  let cat ← (← arg j "catalyst").getBool?
  let d : Buckets (CAction String) :=
    { added := ← actionsC (← optArr j "added"), removed := ← actionsC (← optArr j "removed"),
      affected := ← actionsC (← optArr j "affected"), unchanged := ← actionsC (← optArr j "unchanged") }
  match cLogic m cat d with
  | .ok ys => pure (Json.mkObj [("ok", jYieldsC ys)])
  | .error e => pure (jErr e)

/-- `{"op":"c11.c_pipe","mode":…,"catalyst":bool,"old":[rows],"new":[rows]}`: leaf rows only -/
def cPipe : Handler := fun j => do
  let m ← modeC (← (← arg j "mode").getStr?)
  let cat ← (← arg j "catalyst").getBool?
  let old := (← strList (← arg j "old")).map lexC
  let new := (← strList (← arg j "new")).map lexC
  -- optional: the interface diff logic of the vendor and which sides are port-channel members
  let iface := match j.getObjVal? "iface" with
    | .ok (Json.str "nexus") => some IfaceDiff.nexus
    | .ok (Json.str "cisco") => some IfaceDiff.cisco
    | _ => none
  let flag (k : String) : Bool := match j.getObjVal? k with
    | .ok (Json.bool b) => b
    | _ => false
  let r : Except Err (List (Yield CRow String)) := match iface with
    | some d => cLeafIface d m cat (flag "old_member") (flag "new_member") old new
    | none => cLeaf m cat old new
  match r with
  | .ok ys => pure (Json.mkObj [("ok", jYieldsC ys)])
  | .error e => pure (jErr e)

def handlers : List (String × Handler) :=
  [("c11.h_expand", hExpand), ("c11.c_expand", cExpand), ("c11.collapse", collapseH),
   ("c11.h_logic", hLogicH), ("c11.h_pipe", hPipe), ("c11.h_vlan_diff", hVlanDiffH),
   ("c11.c_logic", cLogicH), ("c11.c_pipe", cPipe)]

end Annet.Glue.C11
