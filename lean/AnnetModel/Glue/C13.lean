/-
JSON glue for C13.  Documents travel as: scalars as themselves, arrays as
`{"a":[…]}`, objects as `{"o":[[key, value], …]}` (Lean's `Json.obj` is a sorted
map; the pair list keeps Python's insertion order, which the model predicts).
-/
import AnnetModel.Glue.Common
import AnnetModel.Model.Json

namespace Annet.Glue.C13
open Lean Annet.Glue Annet.Json

partial def decode (j : Json) : Except String J :=
  match j with
  | .null => pure .null
  | .bool b => pure (.bool b)
  | .str s => pure (.str s)
  | .num n =>
    if n.exponent = 0 then pure (.num n.mantissa) else throw "c13: non-integer number"
  | .arr _ => throw "c13: bare array"
  | .obj _ =>
    match j.getObjVal? "a" with
    | .ok (.arr xs) => do
      let ys ← xs.toList.mapM decode
      pure (.arr ys)
    | _ =>
      match j.getObjVal? "o" with
      | .ok (.arr ps) => do
        let kvs ← ps.toList.mapM fun p => do
          let pair ← p.getArr?
          if pair.size != 2 then throw "c13: pair expected"
          let k ← pair[0]!.getStr?
          let v ← decode pair[1]!
          pure (k, v)
        pure (.obj kvs)
      | _ => throw "c13: tagged object expected"

partial def encode : J → Json
  | .null => .null
  | .bool b => .bool b
  | .num n => jInt n
  | .str s => .str s
  | .arr xs => Json.mkObj [("a", Json.arr (xs.map encode).toArray)]
  | .obj kvs => Json.mkObj [("o", Json.arr (kvs.map fun (k, v) => Json.arr #[Json.str k, encode v]).toArray)]

def errName : Err → String
  | .pointer => "JsonPointerException"
  | .index => "IndexError"
  | .type => "TypeError"
  | .attr => "AttributeError"
  | .conflict => "JsonPatchConflict"
  | .invalid => "InvalidJsonPatch"

def reply (r : Except Err J) : Json :=
  match r with
  | .ok d => Json.mkObj [("ok", encode d)]
  | .error e => Json.mkObj [("err", Json.str (errName e))]

def fragment : Handler := fun j => do
  let old ← decode (← arg j "old")
  let f ← decode (← arg j "f")
  let acl ← strList (← arg j "acl")
  let r := applyFragment old f acl
  let again := match r with
    | .ok d => reply (applyFragment d f acl)
    | .error _ => Json.null
  pure (Json.mkObj [("r", reply r), ("again", again)])

def chain : Handler := fun j => do
  let old ← decode (← arg j "old")
  let gens ← (← (← arg j "gens").getArr?).toList.mapM fun g => do
    let f ← decode (← arg g "f")
    let acl ← strList (← arg g "acl")
    pure (f, acl)
  pure (reply (applyChain old gens))

def resolveH : Handler := fun j => do
  let d ← decode (← arg j "doc")
  let pattern ← (← arg j "pattern").getStr?
  match resolve pattern d with
  | .ok ps => pure (Json.mkObj [("ok", Json.arr (ps.map jStrs).toArray)])
  | .error e => pure (Json.mkObj [("err", Json.str (errName e))])

def filters : Handler := fun j => do
  let d ← decode (← arg j "doc")
  let fs ← strList (← arg j "filters")
  pure (reply (applyAclFilters d fs))

def decodeOp (j : Json) : Except String Op := do
  let op ← (← arg j "op").getStr?
  let path ← (← arg j "path").getStr?
  let src ← match j.getObjVal? "from" with
    | .ok s => do pure (some (← s.getStr?))
    | .error _ => pure none
  let value ← match j.getObjVal? "value" with
    | .ok v => do pure (some (← decode v))
    | .error _ => pure none
  pure { op := op, path := path, src := src, value := value }

def patch : Handler := fun j => do
  let d ← decode (← arg j "doc")
  let ops ← (← (← arg j "ops").getArr?).toList.mapM decodeOp
  pure (reply (applyPatch d ops))

def fnmatchH : Handler := fun j => do
  let name ← (← arg j "name").getStr?
  let pat ← (← arg j "pat").getStr?
  pure (Json.mkObj [("ok", Json.bool (fnmatch name pat))])

def pointerH : Handler := fun j => do
  let s ← (← arg j "s").getStr?
  match parsePointer s with
  | .ok p => pure (Json.mkObj [("ok", jStrs p), ("path", Json.str (path p))])
  | .error e => pure (Json.mkObj [("err", Json.str (errName e))])

def handlers : List (String × Handler) :=
  [("c13.fragment", fragment), ("c13.chain", chain), ("c13.resolve", resolveH),
   ("c13.filters", filters), ("c13.patch", patch), ("c13.fnmatch", fnmatchH),
   ("c13.pointer", pointerH)]

end Annet.Glue.C13
