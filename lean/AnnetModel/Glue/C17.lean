import AnnetModel.Glue.Common
import AnnetModel.Model.Implicit

namespace Annet.Glue.C17
open Lean Annet.Glue Annet.Implicit

partial def ruleOfJson (j : Json) : Except String IRule := do
  let row ← (← arg j "row").getStr?
  let ign ← (← arg j "ignore").getBool?
  let ch ← (← (← arg j "children").getArr?).toList.mapM ruleOfJson
  pure (.mk row ign ch)

/-- `{"op":"c17.complete","rules":[…],"tree":…}` → implicit.config result and the merged tree -/
def completeH : Handler := fun j => do
  let rules ← (← (← arg j "rules").getArr?).toList.mapM ruleOfJson
  let t ← cfgOfJson (← arg j "tree")
  match config rules t with
  | none => pure (Json.mkObj [("grammar", false)])
  | some imp => pure (Json.mkObj [("implicit", cfgToJson imp), ("merged", cfgToJson (merge t imp))])

def handlers : List (String × Handler) := [("c17.complete", completeH)]

end Annet.Glue.C17
