/-
Glue for C20 (effect model).  The flags and the write-set table come from `Gen/Effects.lean`, which the harness
regenerates from /repo's ASTs before the build; a request may override the flags (`"flags":[oldnew, attrs, match]`).
-/
import AnnetModel.Glue.Rb
import AnnetModel.Model.Effects
import AnnetModel.Gen.Effects

namespace Annet.Glue.C20
open Lean Annet.Glue Annet.Effects Annet.Diff

def valOfJson (j : Json) : Except String Val :=
  match j with
  | .str s => pure (.str s)
  | .bool b => pure (.bool b)
  | .arr _ => do pure (.strs (← strList j))
  | _ => throw "val: string, bool or list of strings expected"

def valToJson : Val → Json
  | .str s => Json.str s
  | .bool b => Json.bool b
  | .strs l => jStrs l

def attrsOfJson (j : Json) : Except String Attrs := do
  (← j.getArr?).toList.mapM fun e => do
    let p ← e.getArr?
    if p.size != 2 then throw "attrs: pair expected"
    pure (← p[0]!.getStr?, ← valOfJson p[1]!)

def attrsToJson (a : Attrs) : Json := Json.mkObj (a.map fun (f, v) => (f, valToJson v))

def opOfJson (j : Json) : Except String Op := do
  match ← j.getStr? with
  | "added" => pure .added
  | "removed" => pure .removed
  | "moved" => pure .moved
  | "affected" => pure .affected
  | "unchanged" => pure .unchanged
  | s => throw s!"op: {s}"

def effOfJson (j : Json) : Except String Eff := do
  let a ← j.getArr?
  let tag ← a[0]!.getStr?
  match tag with
  | "set" => pure (.setField (← a[1]!.getStr?) (← valOfJson a[2]!))
  | "append" => pure (.appendStr (← a[1]!.getStr?) (← a[2]!.getStr?))
  | "replace" => pure (.replaceStr (← a[1]!.getStr?) (← a[2]!.getStr?) (← a[3]!.getStr?))
  | "push" => pure (.pushList (← a[1]!.getStr?) (← a[2]!.getStr?))
  | "move" => pure (.moveBucket (← opOfJson a[1]!) (← opOfJson a[2]!))
  | "clear" => pure (.clearBucket (← opOfJson a[1]!))
  | s => throw s!"eff: {s}"

def guardOfJson (j : Json) : Except String Guard := do
  match j with
  | .str "always" => pure .always
  | _ =>
    let a ← j.getArr?
    match ← a[0]!.getStr? with
    | "if" => pure (.nonEmpty (← opOfJson a[1]!))
    | "ifnot" => pure (.isEmpty (← opOfJson a[1]!))
    | s => throw s!"guard: {s}"

def yieldOfJson (j : Json) : Except String (Option YieldSpec) := do
  match j with
  | .null => pure none
  | .str "reverse" => pure (some .reverse)
  | .str "reverse_raw" => pure (some .reverseRaw)
  | .str "default" => pure (some .default)
  | _ =>
    let a ← j.getArr?
    match ← a[0]!.getStr? with
    | "literal" => pure (some (.literal (← a[1]!.getStr?)))
    | s => throw s!"yield: {s}"

def phaseOfJson (j : Json) : Except String Phase := do
  let a ← j.getArr?
  if a.size != 3 then throw "phase: [guard, effs, yield]"
  pure { guard := ← guardOfJson a[0]!, effs := ← (← a[1]!.getArr?).toList.mapM effOfJson, yld := ← yieldOfJson a[2]! }

def bucketsOfJson (j : Json) : Except String Buckets := do
  pure { added := ← strList (← arg j "added"), removed := ← strList (← arg j "removed"),
         moved := ← strList (← arg j "moved"), affected := ← strList (← arg j "affected"),
         unchanged := ← strList (← arg j "unchanged") }

def flagsOfJson (j : Json) : Except String Flags :=
  match j.getObjVal? "flags" with
  | .ok f => do
    let a ← f.getArr?
    pure ⟨← a[0]!.getBool?, ← a[1]!.getBool?, ← a[2]!.getBool?⟩
  | .error _ => pure Annet.Gen.Effects.flags

def errName : Effects.Err → String
  | .assertion => "AssertionError"
  | .keyError => "KeyError"
  | .typeError => "TypeError"
  | .badRule => "BadRule"

def flagsH : Handler := fun _ =>
  let f := Annet.Gen.Effects.flags
  pure (Json.mkObj [("flags", Json.arr #[Json.bool f.copyOldNew, Json.bool f.copyAttrs, Json.bool f.copyMatch]),
                    ("table", jNat Annet.Gen.Effects.table.length)])

/-- `{"op":"c20.heap", rules:[{attrs, logic:[phase], dlogic:[eff]}], jobs:[{rows, items, add_comments, do_commit}]}`:
the jobs are run one after the other in one process (`Effects.runJob`) -/
def heapH : Handler := fun j => do
  let fl ← flagsOfJson j
  let rules ← (← (← arg j "rules").getArr?).toList.mapM fun r => do
    let attrs ← attrsOfJson (← arg r "attrs")
    let logic ← match ← arg r "logic" with
      | .str "common.default" => pure lDefault
      | .str "common.default_instead_undo" => pure lDefaultInsteadUndo
      | .str "huawei.bgp.undo_commit" => pure lUndoCommit
      | .str "cisco.misc.no_ipv6_nd_suppress_ra" => pure lNoIpv6NdSuppressRa
      | .str s => throw s!"logic {s} is not written in the effect language"
      | l => do (← l.getArr?).toList.mapM phaseOfJson
    let dlogic ← (← (← arg r "dlogic").getArr?).toList.mapM effOfJson
    pure (attrs, logic, dlogic)
  let T : Tables := {
    logic := fun r => match rules[r]? with
      | some (_, l, _) => phaseLogic l
      | none => phaseLogic [],
    dlogic := fun r => match rules[r]? with
      | some (_, _, d) => effDLogic d
      | none => effDLogic [] }
  let jobs ← (← (← arg j "jobs").getArr?).toList.mapM fun jb => do
    let rows ← natList (← arg jb "rows")
    let items ← (← (← arg jb "items").getArr?).toList.mapM fun it => do
      pure ({ rule := ← (← arg it "rule").getNat?, key := ← strList (← arg it "key"),
              buckets := ← bucketsOfJson (← arg it "buckets") } : Item)
    pure (({ rows := rows, items := items } : Job), ← (← arg jb "add_comments").getBool?,
          ← (← arg jb "do_commit").getBool?)
  let mut p : Proc := { rb := rules.map (·.1), glob := [] }
  let mut out : Array Json := #[]
  for (jb, addC, doC) in jobs do
    let st0 := jb.rows.foldl (rowStep fl T) (JSt.start p)
    let st := runJobSt fl T p jb
    let res : Json := match st.err with
      | some e => Json.mkObj [("err", errName e)]
      | none => Json.mkObj [("rows", jStrs (st.emits.flatMap (renderEmit addC doC)))]
    let pre : Json :=
      if st0.err.isSome then Json.null
      else Json.mkObj ((jb.rows.eraseDups.filterMap fun r => (preCell fl st r).map fun a => (toString r, attrsToJson a)))
    out := out.push (Json.mkObj [("res", res), ("pre", pre), ("rb", Json.arr (st.rb.map attrsToJson).toArray)])
    p := st.proc
  pure (Json.mkObj [("jobs", Json.arr out)])

/-- `{"op":"c20.trees", vendor, patching, ordering, old, new}`: the trees `apply_diff_rb` leaves behind, and the
caller's trees after `make_diff` -/
def treesH : Handler := fun j => do
  let fl ← flagsOfJson j
  let job ← Annet.Glue.Rb.jobOfJson j
  match prune job.rules job.old, prune job.rules job.new,
        callerTreeAfter fl job.rules job.old, callerTreeAfter fl job.rules job.new with
  | .ok io, .ok inw, .ok co, .ok cn =>
    pure (Json.mkObj [("inner_old", cfgToJson io), ("inner_new", cfgToJson inw),
                      ("caller_old", cfgToJson co), ("caller_new", cfgToJson cn)])
  | _, _, _, _ => pure (Json.mkObj [("grammar", false)])

def groupsOfJson (j : Json) : Except String (Option Groups) :=
  match j with
  | .null => pure none
  | _ => do
    let a ← j.getArr?
    let l ← a.toList.mapM fun e => do
      let p ← e.getArr?
      pure (← p[0]!.getStr?, ← p[1]!.getStr?)
    pure (some l)

def groupsToJson : Option Groups → Json
  | none => Json.null
  | some g => Json.arr (g.map fun (k, v) => Json.arr #[Json.str k, Json.str v]).toArray

/-- `{"op":"c20.acl", n, rows:[{dm:[…], rm:[…], sel:[r, is_reverse] | null}]}` -/
def aclH : Handler := fun j => do
  let n ← (← arg j "n").getNat?
  let rows ← (← (← arg j "rows").getArr?).toList.mapM fun r => do
    let dm ← (← (← arg r "dm").getArr?).toList.mapM groupsOfJson
    let rm ← (← (← arg r "rm").getArr?).toList.mapM groupsOfJson
    let sel : Option (Nat × Bool) ← match ← arg r "sel" with
      | .null => pure none
      | s => do
        let a ← s.getArr?
        pure (some (← a[0]!.getNat?, ← a[1]!.getBool?))
    pure (dm, rm, sel)
  let dm : Nat → Nat → Option Groups := fun jx r => match rows[jx]? with
    | some (d, _, _) => (d[r]?).join
    | none => none
  let rm : Nat → Nat → Option Groups := fun jx r => match rows[jx]? with
    | some (_, m, _) => (m[r]?).join
    | none => none
  let sel : Nat → List (Nat × Bool) → Option (Nat × Bool) := fun jx ms => match rows[jx]? with
    | some (_, _, some s) => if ms.contains s then some s else none
    | _ => none
  let (reads, sc) := aclRows sel dm rm rows.length 0 (List.replicate n none)
  pure (Json.mkObj [
    ("reads", Json.arr (reads.map fun
      | none => Json.null
      | some (r, isRev, g) => Json.arr #[jNat r, Json.bool isRev, groupsToJson g]).toArray),
    ("scratch", Json.arr (sc.map groupsToJson).toArray)])

def rootOfString : String → Root
  | "rule" => .rule | "key" => .key | "diff" => .diff | "hw" => .hw | "rule_pre" => .rulePre
  | "root_pre" => .rootPre | "old" => .old | "new" => .new | "diff_pre" => .diffPre | "_pops" => .pops
  | "<global>" => .global | _ => .otherArg

/-- `{"op":"c20.table_check", observed:[[name, root, field]]}` → the observed writes the regenerated table does not
predict -/
def tableCheckH : Handler := fun j => do
  let obs ← (← (← arg j "observed").getArr?).toList.mapM fun e => do
    let a ← e.getArr?
    pure (← a[0]!.getStr?, ← a[1]!.getStr?, ← a[2]!.getStr?)
  let bad := obs.filter fun (name, root, field) => !tableAllows Annet.Gen.Effects.table name (rootOfString root) field
  pure (Json.mkObj [("outside_table", Json.arr (bad.map fun (n, r, f) => jStrs [n, r, f]).toArray)])

def handlers : List (String × Handler) :=
  [("c20.flags", flagsH), ("c20.heap", heapH), ("c20.trees", treesH), ("c20.acl", aclH),
   ("c20.table_check", tableCheckH)]

end Annet.Glue.C20
