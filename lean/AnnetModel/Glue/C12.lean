import AnnetModel.Glue.Common
import AnnetModel.Model.Pool
import Std.Data.HashMap

namespace Annet.Glue.C12
open Lean Annet.Glue Annet.Pool

/-! JSON forms
out   : ["ok", v] | ["exc", e, sendable]
att   : ["val", v] | ["net"] | ["err", e, sendable]
cfg   : {"ids":[..], "calls":[[id,[att..]]..], "net_retry":k, "parallel":p, "max_tasks":m,
         "tolerate":bool, "rule":"old"|"head"|"drained"}
event : "T3" take, "F3" finish, "L3" flush, "K3" feeder dies, "X3" exit, "P" parent
-/

def outToJson : Out → Json
  | .ok v => Json.arr #[Json.str "ok", jInt v]
  | .exc e s => Json.arr #[Json.str "exc", jNat e, Json.bool s]

def attOfJson (j : Json) : Except String Att := do
  let a ← j.getArr?
  let k ← (a[0]?.getD Json.null).getStr?
  match k with
  | "val" => pure (.val (← (a[1]?.getD Json.null).getInt?))
  | "net" => pure .netErr
  | "err" => pure (.err (← (a[1]?.getD Json.null).getNat?) (← (a[2]?.getD Json.null).getBool?))
  | _ => throw s!"att: {k}"

/-- `call a` for an attempt table: the last entry repeats. -/
def callOf (atts : List Att) (a : Nat) : Att :=
  match atts[a]? with
  | some x => x
  | none => atts.getLast?.getD (.val 0)

def resToJson (r : Res) : Json := Json.arr #[jNat r.id, outToJson r.out]

def ruleOfString : String → Except String ExitRule
  | "old" => pure .old
  | "head" => pure .head
  | "drained" => pure .drained
  | s => throw s!"rule: {s}"

def poolCfgOfJson (j : Json) : Except String Pool.Cfg := do
  let ids ← natList (← arg j "ids")
  let netRetry ← (← arg j "net_retry").getNat?
  let callsJ ← (← arg j "calls").getArr?
  let calls ← callsJ.toList.mapM fun e => do
    let p ← e.getArr?
    let id ← (p[0]?.getD Json.null).getNat?
    let atts ← (← (p[1]?.getD Json.null).getArr?).toList.mapM attOfJson
    pure (id, atts)
  let table : List (Nat × Out) := calls.map fun (id, atts) => (id, invokeRetry (callOf atts) netRetry 0)
  let out : Id → Out := fun id => (table.lookup id).getD (.ok 0)
  pure { ids := ids, out := out,
         parallel := (← (← arg j "parallel").getNat?),
         maxTasks := (← (← arg j "max_tasks").getNat?),
         tolerate := (← (← arg j "tolerate").getBool?),
         rule := (← ruleOfString (← (← arg j "rule").getStr?)) }

def evOfString (s : String) : Except String Ev := do
  let cs := s.toList
  match cs with
  | ['P'] => pure .parent
  | k :: ds =>
    match (String.ofList ds).toNat? with
    | none => throw s!"event: {s}"
    | some w =>
      match k with
      | 'T' => pure (.take w)
      | 'F' => pure (.finish w)
      | 'L' => pure (.flush w)
      | 'X' => pure (.exit w)
      | 'K' => pure (.feederDie w)
      | _ => throw s!"event: {s}"
  | [] => throw "event: empty"

def evToString : Ev → String
  | .take w => s!"T{w}"
  | .finish w => s!"F{w}"
  | .flush w => s!"L{w}"
  | .exit w => s!"X{w}"
  | .feederDie w => s!"K{w}"
  | .parent => "P"

def codeJson : Code → Json
  | .zero => jNat 0
  | .nine => jNat 9

def optIdJson : Option Res → Json
  | some r => jNat r.id
  | none => Json.null

def pcName : PC → String
  | .get => "get"
  | .check .. => "check"
  | .post .. => "post"
  | .restart .. => "restart"
  | .done => "done"
  | .aborted _ => "aborted"

/-- What an observer sees of one accepted step (computed from pre- and post-state). -/
def observe (s s' : State) : Ev → Json
  | .take _ =>
    match s.taskQ with
    | .stop :: _ => Json.str "stop"
    | .invoke id :: _ => jNat id
    | [] => Json.null
  | .finish i =>
    match s.ws[i]? with
    | some ⟨.busy _ id, _⟩ => jNat id
    | _ => Json.null
  | .flush i =>
    match s.ws[i]? with
    | some ⟨_, r :: _⟩ => Json.arr #[jNat r.id, Json.bool r.out.sendable]
    | _ => Json.null
  | .feederDie i =>
    match s.ws[i]? with
    | some ⟨_, b⟩ => Json.arr (b.map fun r => jNat r.id).toArray
    | _ => Json.null
  | .exit i =>
    match s'.ws[i]? with
    | some ⟨.exited c, _⟩ => codeJson c
    | _ => Json.null
  | .parent =>
    match s.pc with
    | .get =>
      match s'.pc with
      | .check got _ _ => Json.arr #[Json.str "get", optIdJson got]
      | _ => Json.null
    | .check _ (i :: _) _ =>
      let seen := match s.ws[i]? with
        | some ⟨.exited c, _⟩ => codeJson c
        | _ => Json.null
      Json.arr #[Json.str "read", jNat i, seen]
    | .check _ [] _ => Json.arr #[Json.str "scanned"]
    | .post got _ =>
      match s'.pc with
      | .aborted _ => Json.arr #[Json.str "abort"]
      | .done => Json.arr #[Json.str "yield", optIdJson got, Json.str "break"]
      | _ => Json.arr #[Json.str "yield", optIdJson got, Json.str "loop"]
    | .restart (i :: _) => Json.arr #[Json.str "start", jNat i]
    | .restart [] => Json.arr #[Json.str "loop"]
    | _ => Json.null

def inflightCount (s : State) : Nat :=
  s.doneQ.length + (s.ws.map fun w => w.buf.length + (match w.st with | .busy .. => 1 | _ => 0)).sum +
  (s.taskQ.filter fun t => t != .stop).length +
  (match s.pc with | .check (some _) .. => 1 | .post (some _) _ => 1 | _ => 0)

def stateSummary (s : State) : List (String × Json) :=
  [("pc", Json.str (pcName s.pc)),
   ("delivered", Json.arr (s.delivered.map resToJson).toArray),
   ("dropped", Json.arr (s.dropped.map resToJson).toArray),
   ("tasks_done", jNat s.tasksDone),
   ("inflight", jNat (inflightCount s)),
   ("pool", jNats s.pool)]

/-- `{"op":"c12.replay","cfg":…,"events":[…]}` → every event must be enabled in turn. -/
def replay : Handler := fun j => do
  let c ← poolCfgOfJson (← arg j "cfg")
  let evs ← (← strList (← arg j "events")).mapM evOfString
  let mut s := init c
  let mut obs : Array Json := #[]
  let mut n := 0
  let mut ok := true
  for e in evs do
    match step c s e with
    | some s' =>
      obs := obs.push (observe s s' e)
      s := s'
      n := n + 1
    | none =>
      ok := false
      break
  pure (Json.mkObj ([("accepted", Json.bool ok), ("steps", jNat n), ("obs", Json.arr obs)] ++ stateSummary s))

/-- `{"op":"c12.single","cfg":…}` → the single-process path. -/
def singleH : Handler := fun j => do
  let c ← poolCfgOfJson (← arg j "cfg")
  let (rs, raised) := single c c.ids
  pure (Json.mkObj [("pool_size", jNat c.poolSize),
                    ("delivered", Json.arr (rs.map resToJson).toArray), ("raised", Json.bool raised)])

def outOfJson (j : Json) : Except String Out := do
  let a ← j.getArr?
  let k ← (a[0]?.getD Json.null).getStr?
  match k with
  | "ok" => pure (.ok (← (a[1]?.getD Json.null).getInt?))
  | "exc" => pure (.exc (← (a[1]?.getD Json.null).getNat?) (← (a[2]?.getD Json.null).getBool?))
  | _ => throw s!"out: {k}"

/-- `{"op":"c12.run","delivered":[[id,out]..],"strict":bool}` → `Parallel.run`'s dicts. -/
def runH : Handler := fun j => do
  let ds ← (← (← arg j "delivered").getArr?).toList.mapM fun e => do
    let p ← e.getArr?
    pure (Res.mk (← (p[0]?.getD Json.null).getNat?) (← outOfJson (p[1]?.getD Json.null)))
  let strict ← (← arg j "strict").getBool?
  match run ds strict with
  | .runtimeError n => pure (Json.mkObj [("err", Json.str "RuntimeError"), ("nfail", jNat n)])
  | .ok succ fail =>
    pure (Json.mkObj [("success", Json.arr (succ.map fun (k, v) => Json.arr #[jNat k, jInt v]).toArray),
                      ("fail", Json.arr (fail.map fun (k, e) => Json.arr #[jNat k, jNat e]).toArray)])

/-- `{"op":"c12.retry","atts":[…],"net_retry":k}` → `invoke_retry`. -/
def retryH : Handler := fun j => do
  let atts ← (← (← arg j "atts").getArr?).toList.mapM attOfJson
  let k ← (← arg j "net_retry").getNat?
  pure (Json.mkObj [("out", outToJson (invokeRetry (callOf atts) k 0))])

def samePerm (a b : List Res) : Bool :=
  a.length == b.length && (a ++ b).all fun r => a.count r == b.count r

def allEvents (s : State) : List Ev :=
  Ev.parent :: (List.range s.ws.length).flatMap fun i => [Ev.take i, Ev.finish i, Ev.flush i, Ev.feederDie i, Ev.exit i]

def afterTimeout : PC → Bool
  | .check none _ _ => true
  | .post none _ => true
  | _ => false

/-- Breadth-first exploration of every schedule (bounded by `limit` states).
`atomic`: no `flush` between a timed-out `get` and the loop-exit test. -/
partial def exploreLoop (c : Pool.Cfg) (atomic : Bool) (limit : Nat)
    (seen : Std.HashMap State (Option (State × Ev))) (frontier : List State)
    (acc : Nat × Nat × Nat × Option State) : Std.HashMap State (Option (State × Ev)) × (Nat × Nat × Nat × Option State) × Bool :=
  match frontier with
  | [] => (seen, acc, false)
  | _ =>
    if seen.size > limit then (seen, acc, true) else
    let (seen', next, acc') := frontier.foldl (init := (seen, ([] : List State), acc)) fun (seen, next, acc) s =>
      let (terms, bad, dead, firstBad) := acc
      if s.terminal then
        let isBad := !samePerm s.delivered c.submitted
        (seen, next, (terms + 1, bad + (if isBad then 1 else 0), dead,
          if isBad && firstBad.isNone then some s else firstBad))
      else
        let succs := (allEvents s).filterMap fun e =>
          if atomic && afterTimeout s.pc && (match e with | .flush _ => true | _ => false) then none
          else (step c s e).map fun s' => (e, s')
        let acc := if succs.isEmpty then (terms, bad, dead + 1, firstBad) else acc
        succs.foldl (init := (seen, next, acc)) fun (seen, next, acc) (e, s') =>
          if seen.contains s' then (seen, next, acc) else (seen.insert s' (some (s, e)), s' :: next, acc)
    exploreLoop c atomic limit seen' next acc'

partial def pathTo (seen : Std.HashMap State (Option (State × Ev))) (s : State) (acc : List Ev) : List Ev :=
  match seen.get? s with
  | some (some (p, e)) => pathTo seen p (e :: acc)
  | _ => acc

/-- `{"op":"c12.explore","cfg":…,"atomic":bool,"limit":n}` -/
def exploreH : Handler := fun j => do
  let c ← poolCfgOfJson (← arg j "cfg")
  let atomic ← (← arg j "atomic").getBool?
  let limit ← (← arg j "limit").getNat?
  let s0 := init c
  let (seen, (terms, bad, dead, firstBad), truncated) :=
    exploreLoop c atomic limit ((∅ : Std.HashMap State (Option (State × Ev))).insert s0 none) [s0] (0, 0, 0, none)
  let witness := match firstBad with
    | some s => Json.arr ((pathTo seen s []).map fun e => Json.str (evToString e)).toArray
    | none => Json.null
  let wstate := match firstBad with
    | some s => Json.mkObj (stateSummary s)
    | none => Json.null
  pure (Json.mkObj [("states", jNat seen.size), ("terminal", jNat terms), ("bad_terminal", jNat bad),
                    ("deadlocks", jNat dead), ("truncated", Json.bool truncated),
                    ("witness", witness), ("witness_state", wstate)])

def handlers : List (String × Handler) :=
  [("c12.replay", replay), ("c12.single", singleH), ("c12.run", runH), ("c12.retry", retryH),
   ("c12.explore", exploreH)]

end Annet.Glue.C12
