import AnnetModel.Glue.Rb
import AnnetModel.Spec.Device

namespace Annet.Glue.C01
open Lean Annet.Glue Annet.Rules Annet.Device

/-- `{"op":"c01.apply","vendor":{…},"patching":[raw…],"exits":[…],"paths":[[…]],"dev":tree}` →
the device after executing the command paths (specification `Spec/Device.lean`) -/
def applyH : Handler := fun j => do
  let v ← Rb.vendorOfJson (← arg j "vendor")
  let rp ← (← (← arg j "patching").getArr?).toList.mapM Rb.rawPOfJson
  let exits ← strList (← arg j "exits")
  let paths ← (← (← arg j "paths").getArr?).toList.mapM strList
  let dev ← cfgOfJson (← arg j "dev")
  let env : Env := { reverse := v.reverse, exits := exits }
  pure (Json.mkObj [("ok", cfgToJson (applyCmds env (compileP v rp) paths dev))])

def handlers : List (String × Handler) := [("c01.apply", applyH)]

end Annet.Glue.C01
