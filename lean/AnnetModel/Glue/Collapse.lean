import AnnetModel.Glue.Common
import AnnetModel.Model.Collapse

namespace Annet.Glue.Collapse
open Lean Annet.Glue Annet.Collapse

/-- `{"op":"collapse","entries":[{"dev":…,"vendor":…,"key":[lines…]},…]}` → the groups of `collapse_diffs`: device names
of every group and the index (in the input) of the entry whose diff is shown for it -/
def collapseH : Handler := fun j => do
  let arr ← (← arg j "entries").getArr?
  let es ← arr.toList.zipIdx.mapM fun (e, i) => do
    let dev ← (← arg e "dev").getStr?
    let vendor ← (← arg e "vendor").getStr?
    let key ← strList (← arg e "key")
    pure ({ dev := dev.toList, vendor := vendor.toList, diff := i, key := key.map String.toList } : Entry Nat)
  pure (Json.arr ((collapse es).map fun (devs, i) =>
    Json.arr #[jStrs (devs.map String.ofList), jNat i]).toArray)

def handlers : List (String × Handler) := [("collapse", collapseH)]

end Annet.Glue.Collapse
