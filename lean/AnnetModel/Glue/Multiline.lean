import AnnetModel.Glue.Common
import AnnetModel.Model.Multiline

namespace Annet.Glue.Multiline
open Lean Annet.Glue Annet.Multiline

partial def itemsToJson (l : List MItem) : Json :=
  Json.arr (l.map fun
    | .mk o r ch => Json.arr #[Json.str o.name, Json.str r, itemsToJson ch]).toArray

/-- `{"op":"c03.multiline","rule":"head"|"fixed","old":[[row,[…]],…],"new":[…]}` (the rows of one `%multiline` group, the
tree encoding of the other ops) → `{"ok":[[op,row,[children…]],…],"marked":…}` (the result of `multiline_diff`; the same after `mark_unchanged`) or `{"err":"KeyError"}` -/
def multilineH : Handler := fun j => do
  let old ← cfgOfJson (← arg j "old")
  let new ← cfgOfJson (← arg j "new")
  let rule ← match (← (← arg j "rule").getStr?) with
    | "head" => pure Rule.head
    | "fixed" => pure Rule.fixed
    | r => throw s!"c03.multiline: rule {r}"
  match multilineDiffWith rule old.kids new.kids with
  | none => pure (Json.mkObj [("err", Json.str "KeyError")])
  | some d => pure (Json.mkObj [("ok", itemsToJson d), ("marked", itemsToJson (markUnchanged d))])

def handlers : List (String × Handler) := [("c03.multiline", multilineH)]

end Annet.Glue.Multiline
