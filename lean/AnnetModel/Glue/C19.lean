import AnnetModel.Glue.Common
import AnnetModel.Model.Files

/-
JSON glue for C19 (not part of the model).  Texts come in as JSON strings and go
out as arrays of code points, because the line protocol reader on the Python side
splits the driver's output with `str.splitlines()` and Lean's JSON printer leaves
U+0085 / U+2028 / U+2029 unescaped.
-/
namespace Annet.Glue.C19
open Lean Annet.Glue Annet.Files

def jText (t : Text) : Json := Json.arr (t.map (fun c => jNat c.toNat)).toArray
def jTexts (l : List Text) : Json := Json.arr (l.map jText).toArray

def text (j : Json) : Except String Text := do pure (← j.getStr?).toList

def texts (j : Json) : Except String (List Text) := do
  (← j.getArr?).toList.mapM text

def optText (j : Json) : Except String (Option Text) :=
  if j.isNull then pure none else do pure (some (← text j))

def part (j : Json) : Except String Part := do
  match j.getObjVal? "s" with
  | .ok s => pure (.str (← text s))
  | .error _ => pure (.tup (← texts (← arg j "t")))

def runRes (j : Json) : Except String RunRes := do
  let k ← (← arg j "k").getStr?
  match k with
  | "unsupported" => pure .notSupported
  | "none" => pure .none
  | "bad" => pure .badType
  | "str" => pure (.str (← text (← arg j "s")))
  | "parts" => do
    let ps ← (← (← arg j "ps").getArr?).toList.mapM part
    pure (.parts ps)
  | _ => throw s!"bad run kind {k}"

def gen (j : Json) : Except String Gen := do
  let path ← optText (← arg j "path")
  let pj ← arg j "prio"
  let prio ← if pj.isNull then pure none else do pure (some (← pj.getInt?))
  let run ← runRes (← arg j "run")
  let reload ← optText (← arg j "reload")
  let safe ← (← arg j "safe").getBool?
  pure { path, prio, run, reload, isSafe := safe }

def pairs (j : Json) : Except String (List (Path × Text)) := do
  (← j.getArr?).toList.mapM fun e => do
    let a ← e.getArr?
    if a.size != 2 then throw "pair expected"
    pure (← text a[0]!, ← text a[1]!)

/-- the `difflib` table sent by the harness; a missing entry is a glue failure -/
def udTable (j : Json) : Except String (List ((List Text × List Text) × List Text)) := do
  (← j.getArr?).toList.mapM fun e => do
    let a ← e.getArr?
    if a.size != 3 then throw "ud triple expected"
    pure ((← texts a[0]!, ← texts a[1]!), ← texts a[2]!)

def missMark : List Text := ["\x00ud-table-miss".toList]

def udOf (tab : List ((List Text × List Text) × List Text)) : UDiff := fun a b =>
  match tab.find? (fun e => e.1 = (a, b)) with
  | some e => e.2
  | none => missMark

def jNewFiles (nf : NewFiles) : Json :=
  Json.arr (nf.map fun (p, (o, r)) => Json.arr #[jText p, jText o, jText r]).toArray

def jPairs (d : List (Path × Text)) : Json :=
  Json.arr (d.map fun (p, t) => Json.arr #[jText p, jText t]).toArray

def errName : Err → String
  | .notSupported => "NotSupportedDevice"
  | .exception => "Exception"
  | .assertion => "AssertionError"

def permute (gens : List Gen) (perm : List Nat) : Except String (List Gen) :=
  perm.mapM fun i => match gens[i]? with
    | some g => pure g
    | none => throw "bad permutation index"

def reloadOf (s : String) : Except String Reload :=
  match s with
  | "no" => pure .no
  | "yes" => pure .yes
  | "force" => pure .force
  | _ => throw "bad reload flag"

/-- `{"op":"c19.case", …}`: run the generators in every listed order, then
`parse_result` and `pc_diff` on the result of the first order. -/
def case : Handler := fun j => do
  let dj ← arg j "dev"
  let dev : Dev := { isPC := ← (← arg dj "pc").getBool?, soft := ← text (← arg dj "soft") }
  let gens ← (← (← arg j "gens").getArr?).toList.mapM gen
  let perms ← (← (← arg j "perms").getArr?).toList.mapM natList
  let old ← pairs (← arg j "old")
  let reload ← reloadOf (← (← arg j "reload").getStr?)
  let aclSafe ← (← arg j "acl_safe").getBool?
  let hostname ← text (← arg j "hostname")
  let dv ← arg j "drv"
  let drv : DriverCmds := { before := ← texts (← arg dv "before"), after := ← texts (← arg dv "after"),
                            exit := ← texts (← arg dv "exit") }
  let resErr ← (← arg j "res_err").getBool?
  let tab ← udTable (← arg j "ud")
  let ud := udOf tab
  let mut permOut : Array Json := #[]
  for perm in perms do
    let gs ← permute gens perm
    match runFileGenerators dev gs with
    | .error e => permOut := permOut.push (Json.mkObj [("err", errName e)])
    | .ok res =>
      permOut := permOut.push (Json.mkObj [("new", jNewFiles (newFiles false res)),
                                           ("safe_new", jNewFiles (newFiles true res))])
  -- each generator called directly: `gen(device)` and `gen.get_reload_cmds(device)`
  let direct := Json.arr (gens.map fun g =>
    let rl := jText (getReloadCmds dev (g.path.getD []) g.reload)
    match callEntire g.run with
    | .ok t => Json.mkObj [("out", jText t), ("reload", rl)]
    | .error e => Json.mkObj [("err", errName e), ("reload", rl)]).toArray
  let first ← match perms.head? with
    | some p => permute gens p
    | none => throw "no permutation"
  match runFileGenerators dev first with
  | .error e => pure (Json.mkObj [("err", errName e), ("perms", Json.arr permOut), ("direct", direct)])
  | .ok res =>
    let nf := newFiles aclSafe res
    let inp : JobIn := { hostname, err := resErr, oldFiles := old, newFiles := nf, reload, drv }
    let diffEntries := pcDiff ud hostname old nf
    if (diffFiles ud old nf).any (fun e => e.2.1 == missMark) then
      throw "difflib table has no entry for a pair of line lists the model asked for"
    let jobJ := match parseResult ud inp with
      | .error .keyError => Json.mkObj [("err", "KeyError")]
      | .ok out => Json.mkObj [
          ("failed", Json.bool out.failed), ("has_diff", Json.bool out.hasDiff),
          ("deployed", Json.bool out.deployed), ("files", jPairs out.files), ("cmds", jPairs out.cmds),
          ("cmds_pre_files", jPairs out.cmdsPre), ("diff_lines", jTexts out.diffLines),
          ("cmd_lines", jTexts out.cmdLines)]
    pure (Json.mkObj [("ok", Json.mkObj [
      ("perms", Json.arr permOut), ("direct", direct), ("job", jobJ),
      ("pc_diff", Json.arr (diffEntries.map fun (l, ls) => Json.arr #[jText l, jTexts ls]).toArray)])])

/-- `{"op":"c19.splitlines","text":…}` → `str.splitlines()` of the model -/
def splitlinesH : Handler := fun j => do
  pure (Json.mkObj [("ok", jTexts (splitlines (← text (← arg j "text"))))])

/-- `{"op":"c19.none_word","text":…}` → `re.search(r"\bNone\b", text) is not None` of the model -/
def noneWordH : Handler := fun j => do
  pure (Json.mkObj [("ok", Json.bool (hasNoneWord (← text (← arg j "text"))))])

def handlers : List (String × Handler) :=
  [("c19.case", case), ("c19.splitlines", splitlinesH), ("c19.none_word", noneWordH)]

end Annet.Glue.C19
