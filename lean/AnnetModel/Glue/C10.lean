import AnnetModel.Glue.Common
import AnnetModel.Model.Gen

namespace Annet.Glue.C10
open Lean Annet.Glue Annet.Acl Annet.Gen

partial def rawOfJson (j : Json) : Except String RawRule := do
  let row ← (← arg j "row").getStr?
  let ign ← (← arg j "ignore").getBool?
  let g ← (← arg j "global").getBool?
  let cd ← (← (← arg j "cant_delete").getArr?).toList.mapM (·.getBool?)
  let prio ← (← arg j "prio").getNat?
  let names ← strList (← arg j "generator_names")
  let ch ← (← (← arg j "children").getArr?).toList.mapM rawOfJson
  pure (.mk row ign g cd prio names ch)

partial def rawToJson : RawRule → Json
  | .mk row ign g cd prio names ch =>
    Json.mkObj [("row", row), ("ignore", ign), ("global", g), ("cant_delete", Json.arr (cd.map Json.bool).toArray),
      ("prio", jNat prio), ("generator_names", jStrs names), ("children", Json.arr (ch.map rawToJson).toArray)]

def vendorOfJson (j : Json) : Except String Vendor := do
  let rev ← (← arg j "reverse").getStr?
  let jun ← (← arg j "juniper").getBool?
  pure { reverse := rev, juniper := jun }

def splitterOfJson (j : Json) : Except String Splitter := do
  match (← j.getStr?) with
  | "common" => pure .common
  | "removeSpaces" => pure .removeSpaces
  | "huawei" => pure .huawei
  | s => throw s!"unknown splitter {s}"

partial def valOfJson (j : Json) : Except String Val :=
  match j with
  | .null => pure .none
  | .str s => pure (.str s)
  | .arr a => do pure (.tup (← a.toList.mapM valOfJson))
  | _ => throw "val: string, null or array expected"

def valsOfJson (j : Json) : Except String (List Val) := do (← j.getArr?).toList.mapM valOfJson

partial def opOfJson (j : Json) : Except String Op := do
  let a ← j.getArr?
  let kind ← a[0]!.getStr?
  let ops (j : Json) : Except String (List Op) := do (← j.getArr?).toList.mapM opOfJson
  match kind with
  | "y" => pure (.yieldStr (← a[1]!.getStr?))
  | "t" => pure (.yieldTuple (← valsOfJson a[1]!))
  | "b" =>
    let ind ← match a[2]! with
      | .null => pure none
      | x => do pure (some (← x.getStr?))
    pure (.block (← valsOfJson a[1]!) ind (← ops a[3]!))
  | "bi" =>
    let cond ← match a[2]! with
      | .null => pure none
      | x => do pure (some (← x.getBool?))
    pure (.blockIf (← valsOfJson a[1]!) cond (← ops a[3]!))
  | "mb" =>
    let blocks ← (← a[1]!.getArr?).toList.mapM valsOfJson
    pure (.multiblock blocks (← ops a[2]!))
  | k => throw s!"unknown op kind {k}"

def opsOfJson (j : Json) : Except String (List Op) := do (← j.getArr?).toList.mapM opOfJson

def genOfJson (j : Json) : Except String GenDef := do
  let name ← (← arg j "name").getStr?
  let ops ← opsOfJson (← arg j "ops")
  let acl ← (← (← arg j "acl").getArr?).toList.mapM rawOfJson
  pure { name := name, ops := ops, acl := acl }

def errToJson : RunErr → Json
  | .generator g => Json.mkObj [("err", "GeneratorError"), ("cause", "generator"), ("gen", g)]
  | .parser g n => Json.mkObj [("err", "GeneratorError"), ("cause", "ParserError"), ("gen", g), ("line", jNat n)]
  | .acl g p => Json.mkObj [("err", "GeneratorError"), ("cause", "AclError"), ("gen", g), ("path", jStrs p)]
  | .notExclusive p ns => Json.mkObj [("err", "AclNotExclusiveError"), ("path", jStrs p), ("names", jStrs ns)]
  | .grammar => Json.mkObj [("grammar", false)]

/-- `{"op":"c10.splitstrip","text":…}` → rows of `_split_and_strip` -/
def splitStripH : Handler := fun j => do
  let text ← (← arg j "text").getStr?
  pure (Json.mkObj [("ok", jStrs ((splitAndStrip text.toList).map String.ofList))])

/-- `{"op":"c10.rows","ops":…}` → the generator's rows -/
def rowsH : Handler := fun j => do
  let ops ← opsOfJson (← arg j "ops")
  match runGen ops with
  | none => pure (Json.mkObj [("err", "generator")])
  | some rows => pure (Json.mkObj [("ok", jStrs rows)])

/-- `{"op":"c10.split","splitter":…,"rows":[…]}` -/
def splitH : Handler := fun j => do
  let sp ← splitterOfJson (← arg j "splitter")
  let rows ← strList (← arg j "rows")
  pure (Json.mkObj [("ok", jStrs (split sp rows))])

/-- `{"op":"c10.oldnew","vendor":…,"splitter":…,"gens":[{name, ops, acl}]}` → `.new`, the per-generator results and
the combined rule tree, or the error -/
def oldNewH : Handler := fun j => do
  let v ← vendorOfJson (← arg j "vendor")
  let sp ← splitterOfJson (← arg j "splitter")
  let gens ← (← (← arg j "gens").getArr?).toList.mapM genOfJson
  match oldNew v sp gens with
  | .error e => pure (errToJson e)
  | .ok t =>
    let rows := gens.map fun g => match runGen g.ops with
      | some rows => Json.arr #[Json.str g.name, jStrs rows]
      | none => Json.null
    let combined := match runPartials v sp gens [] with
      | .ok rs => Json.arr ((combineAcl rs).map rawToJson).toArray
      | .error _ => Json.null
    pure (Json.mkObj [("ok", cfgToJson t), ("rows", Json.arr rows.toArray), ("combined", combined)])

/-- `{"op":"c10.oldnewfull","vendor":…,"splitter":…,"gens":[…],"no_acl":bool,"exclusive":bool,"filter":null|[raw rules],
"old":tree}` → `.old` and `.new` of `_old_new_per_device` for a device with a configuration and a filter ACL -/
def oldNewFullH : Handler := fun j => do
  let v ← vendorOfJson (← arg j "vendor")
  let sp ← splitterOfJson (← arg j "splitter")
  let gens ← (← (← arg j "gens").getArr?).toList.mapM genOfJson
  let noAcl ← (← arg j "no_acl").getBool?
  let excl ← (← arg j "exclusive").getBool?
  let fj ← arg j "filter"
  let filter ← if fj.isNull then pure none else do
    let rs ← (← fj.getArr?).toList.mapM rawOfJson
    pure (some rs)
  let old ← cfgOfJson (← arg j "old")
  match oldNewFull v sp gens noAcl excl filter old with
  | .error e => pure (errToJson e)
  | .ok r => pure (Json.mkObj [("old", cfgToJson r.old), ("new", cfgToJson r.new)])

def handlers : List (String × Handler) :=
  [("c10.splitstrip", splitStripH), ("c10.rows", rowsH), ("c10.split", splitH), ("c10.oldnew", oldNewH),
   ("c10.oldnewfull", oldNewFullH)]

end Annet.Glue.C10
