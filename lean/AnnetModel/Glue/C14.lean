/-
JSON glue for C14 (`c14.run`, `c14.acl`): (de)serialises only.
-/
import AnnetModel.Glue.Common
import AnnetModel.Model.RplRun
import AnnetModel.Model.RplCumulus

namespace Annet.Glue.C14
open Lean Annet.Glue Annet.Rpl

def str (j : Json) : Except String Str := do pure (← j.getStr?).toList

def strs (j : Json) : Except String (List Str) := do
  (← j.getArr?).toList.mapM str

def optStr (j : Json) : Except String (Option Str) :=
  match j with
  | .null => pure none
  | _ => do pure (some (← str j))

def optStrs (j : Json) : Except String (Option (List Str)) :=
  match j with
  | .null => pure none
  | _ => do pure (some (← strs j))

def field (j : Json) (k : String) : Except String Json := j.getObjVal? k

def fieldD (j : Json) (k : String) : Json := (j.getObjVal? k).toOption.getD Json.null

def mfield : String → Except String MField
  | "community" => pure .community | "large_community" => pure .largeCommunity
  | "extcommunity_rt" => pure .extcommunityRt | "extcommunity_soo" => pure .extcommunitySoo
  | "rd" => pure .rd | "interface" => pure .interface | "protocol" => pure .protocol | "net_len" => pure .netLen
  | "local_pref" => pure .localPref | "metric" => pure .metric | "family" => pure .family
  | "as_path_length" => pure .asPathLength | "as_path_filter" => pure .asPathFilter
  | "ipv6_prefix" => pure .ipv6Prefix | "ip_prefix" => pure .ipPrefix
  | x => throw s!"match field {x}"

def tfield : String → Except String TField
  | "community" => pure .community | "large_community" => pure .largeCommunity
  | "extcommunity_rt" => pure .extcommunityRt | "extcommunity_soo" => pure .extcommunitySoo
  | "extcommunity" => pure .extcommunity | "as_path" => pure .asPath | "local_pref" => pure .localPref
  | "metric" => pure .metric | "rpki_valid_state" => pure .rpkiValidState | "resolution" => pure .resolution
  | "mpls_label" => pure .mplsLabel | "metric_type" => pure .metricType | "origin" => pure .origin
  | "tag" => pure .tag | "next_hop" => pure .nextHop
  | x => throw s!"then field {x}"

def opOf : String → Except String Op
  | "EQ" => pure .eq | "GE" => pure .ge | "GT" => pure .gt | "LE" => pure .le | "LT" => pure .lt
  | "BETWEEN_INCLUDED" => pure .betweenIncluded | "HAS" => pure .has | "HAS_ANY" => pure .hasAny
  | "CUSTOM" => pure .custom
  | x => throw s!"operator {x}"

def atypeOf : String → Except String AType
  | "SET" => pure .set | "ADD" => pure .add | "REMOVE" => pure .remove | "CUSTOM" => pure .custom
  | x => throw s!"action type {x}"

def resultOf : String → Except String Result
  | "ALLOW" => pure .allow | "DENY" => pure .deny | "NEXT" => pure .next | "NEXT_POLICY" => pure .nextPolicy
  | x => throw s!"result {x}"

def cvalOf (j : Json) : Except String CVal := do
  match (← (← field j "k").getStr?) with
  | "names" => pure (.names (← strs (← field j "names")))
  | "pfx" => pure (.pfx (← strs (← field j "names")) (← optStr (fieldD j "a")) (← optStr (fieldD j "b")))
  | "pair" => pure (.pair (← str (← field j "a")) (← str (← field j "b")))
  | "scalar" => pure (.scalar (← str (← field j "s")))
  | x => throw s!"cond value {x}"

def avalOf (j : Json) : Except String AVal := do
  match (← (← field j "k").getStr?) with
  | "comm" => pure (.comm { replaced := ← optStrs (fieldD j "replaced"), added := ← strs (← field j "added"),
                            removed := ← strs (← field j "removed") })
  | "aspath" => pure (.asPath { set := ← optStrs (fieldD j "set"), prepend := ← strs (← field j "prepend"),
                                expand := ← strs (← field j "expand"), expandLastAs := ← str (← field j "expand_last_as"),
                                delete := ← strs (← field j "delete") })
  | "nexthop" => pure (.nextHop { target := ← str (← field j "target"), addr := ← str (← field j "addr") })
  | "scalar" => pure (.scalar (← str (← field j "s")))
  | x => throw s!"action value {x}"

def condOf (j : Json) : Except String Cond := do
  pure { field := ← mfield (← (← field j "field").getStr?), op := ← opOf (← (← field j "op").getStr?),
         val := ← cvalOf (← field j "val") }

def actOf (j : Json) : Except String Action := do
  pure { field := ← tfield (← (← field j "field").getStr?), type := ← atypeOf (← (← field j "type").getStr?),
         val := ← avalOf (← field j "val") }

def stmtOf (j : Json) : Except String Stmt := do
  pure { name := ← optStr (fieldD j "name"), number := ← optStr (fieldD j "number"),
         result := ← resultOf (← (← field j "result").getStr?),
         conds := ← (← (← field j "conds").getArr?).toList.mapM condOf,
         acts := ← (← (← field j "acts").getArr?).toList.mapM actOf }

def policyOf (j : Json) : Except String Policy := do
  pure { name := ← str (← field j "name"), stmts := ← (← (← field j "stmts").getArr?).toList.mapM stmtOf }

def ctypeOf : String → Except String CType
  | "BASIC" => pure .basic | "RT" => pure .rt | "SOO" => pure .soo | "COST" => pure .cost | "LARGE" => pure .large
  | x => throw s!"community type {x}"

def clistOf (j : Json) : Except String CommList := do
  let logic ← match (← (← field j "logic").getStr?) with
    | "AND" => pure Logic.and | "OR" => pure Logic.or | x => throw s!"logic {x}"
  pure { name := ← str (← field j "name"), members := ← strs (← field j "members"),
         type := ← ctypeOf (← (← field j "type").getStr?), logic := logic,
         useRegex := ← (← field j "use_regex").getBool? }

def plistOf (j : Json) : Except String PrefixList := do
  let ms ← (← (← field j "members").getArr?).toList.mapM fun m => do
    pure ({ net := ← str (← field m "net"), addr := ← str (← field m "addr"), len := ← str (← field m "len"),
            ge := ← optStr (fieldD m "ge"), le := ← optStr (fieldD m "le") } : PlMember)
  pure { name := ← str (← field j "name"), members := ms }

def inputOf (j : Json) : Except String Input := do
  pure { policies := ← (← (← field j "policies").getArr?).toList.mapM policyOf,
         clists := ← (← (← field j "clists").getArr?).toList.mapM clistOf,
         plists := ← (← (← field j "plists").getArr?).toList.mapM plistOf,
         aspaths := ← (← (← field j "aspaths").getArr?).toList.mapM (fun a => do
            pure ({ name := ← str (← field a "name"), filters := ← strs (← field a "filters") } : AsPathFilter)),
         rds := ← (← (← field j "rds").getArr?).toList.mapM (fun a => do
            pure ({ name := ← str (← field a "name"), number := ← str (← field a "number"),
                    members := ← strs (← field a "members") } : RdFilter)) }

def jStr (x : Str) : Json := Json.str (String.ofList x)

def errName : Err → String
  | .notImplemented => "NotImplementedError" | .runtime => "RuntimeError" | .value => "ValueError"
  | .key => "KeyError" | .index => "IndexError" | .attribute => "AttributeError"
  | .invalidYield => "InvalidValueFromGenerator" | .unmodelled => "UNMODELLED"

def jErr : Option Err → Json
  | none => Json.null
  | some e => Json.str (errName e)

def lineJson (l : Line) : Json := Json.arr #[Json.arr (l.path.map jStr).toArray, jStr l.text]

def streamJson (o : Out Line) : Json :=
  Json.mkObj [("lines", Json.arr (o.1.map lineJson).toArray), ("err", jErr o.2)]

def textStreamJson (o : Out (List Str)) : Json :=
  Json.mkObj [("lines", Json.arr (o.1.map fun t => jStr (joinSp t)).toArray), ("err", jErr o.2)]

def unmodelled {α : Type} (o : Out α) : Bool := o.2 == some .unmodelled

def kinds : List (String × GenKind) :=
  [("policy", .policy), ("prefix", .prefix), ("community", .community), ("aspath", .aspath), ("rd", .rd)]

def skip : Json := Json.mkObj [("skip", true)]

/-- `{"op":"c14.run","vendor":…,"policies":…,"clists":…,"plists":…,"aspaths":…,"rds":…}` -/
def runH : Handler := fun j => do
  let inp ← inputOf j
  let vendor ← (← field j "vendor").getStr?
  if vendor == "cumulus" then
    let st := runCumulus inp
    let elems := (elementInputs inp).map runCumulus
    if unmodelled st || elems.any unmodelled then return skip
    return Json.mkObj [("ok", Json.mkObj [("vendor", vendor), ("stream", textStreamJson st),
                                          ("elems", Json.arr (elems.map textStreamJson).toArray)])]
  let v ← match vendor with
    | "huawei" => pure Vend.huawei
    | "arista" => pure Vend.arista
    | x => throw s!"vendor {x}"
  let mut gens : List (String × Json) := []
  let mut bad := false
  for (name, k) in kinds do
    let st := runGen inp v k
    if unmodelled st then bad := true
    let partialJ : Json := match runPartial inp v k with
      | none => Json.mkObj [("none", true)]
      | some (.ok c) => Json.mkObj [("ok", cfgToJson c)]
      | some (.error (.gen e)) => Json.mkObj [("err", "GeneratorError"), ("cause", errName e)]
      | some (.error .parser) => Json.mkObj [("err", "GeneratorError"), ("cause", "ParserError")]
      | some (.error (.acl _)) => Json.mkObj [("err", "GeneratorError"), ("cause", "AclError")]
      | some (.error .grammar) => Json.mkObj [("grammar", false)]
    if (partialJ.getObjVal? "grammar").isOk then bad := true
    let streamJ : Json := if (genAcl v k).isNone then Json.mkObj [("none", true)] else streamJson st
    gens := gens ++ [(name, Json.mkObj [("partial", partialJ), ("stream", streamJ)])]
  let elems := (elementInputs inp).map fun e => runGen e v .policy
  if bad || elems.any unmodelled then return skip
  return Json.mkObj [("ok", Json.mkObj [("vendor", vendor), ("gens", Json.mkObj gens),
                                        ("elems", Json.arr (elems.map streamJson).toArray)])]

partial def rawToJson : Annet.Acl.RawRule → Json
  | .mk row ign g cd prio names ch =>
    Json.mkObj [("row", row), ("ignore", ign), ("global", g), ("cant_delete", Json.arr (cd.map Json.bool).toArray),
                ("prio", jNat prio), ("generator_names", jStrs names), ("children", Json.arr (ch.map rawToJson).toArray)]

/-- `{"op":"c14.acl","vendor":…,"gen":…}` → the model's rule tree of `acl_<vendor>` (or null) -/
def aclH : Handler := fun j => do
  let v ← match (← (← field j "vendor").getStr?) with
    | "huawei" => pure Vend.huawei
    | "arista" => pure Vend.arista
    | x => throw s!"vendor {x}"
  let k ← match kinds.lookup (← (← field j "gen").getStr?) with
    | some k => pure k
    | none => throw "gen"
  match genAcl v k with
  | none => pure (Json.mkObj [("ok", Json.null)])
  | some rules => pure (Json.mkObj [("ok", Json.arr #[Json.arr (rules.map rawToJson).toArray])])

def handlers : List (String × Handler) := [("c14.run", runH), ("c14.acl", aclH)]

end Annet.Glue.C14
