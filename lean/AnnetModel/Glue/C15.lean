import AnnetModel.Glue.Common
import AnnetModel.Model.MeshExec

/-! JSON glue for C15: only (de)serialises and builds the parameter closures (match matrix, handler
tables, storage) from the shipped data.  Not part of the model. -/

namespace Annet.Glue.C15
open Lean Annet.Glue Annet.Mesh

partial def mergerOfJson (j : Json) : Except String Merger :=
  match j with
  | .str "forbidChange" => pure .forbidChange
  | .str "useFirst" => pure .useFirst
  | .str "useLast" => pure .useLast
  | .str "forbid" => pure .forbid
  | .str "unite" => pure .unite
  | .str "concat" => pure .concat
  | _ =>
    match j.getObjVal? "merge" with
    | .ok t => do
      let arr ← t.getArr?
      let es ← arr.toList.mapM fun e => do
        let pr ← e.getArr?
        if pr.size != 2 then throw "table: pair expected"
        pure ((← pr[0]!.getStr?), (← mergerOfJson pr[1]!))
      pure (.merge es)
    | .error _ =>
      match j.getObjVal? "dictMerge" with
      | .ok vm => do pure (.dictMerge (← mergerOfJson vm))
      | .error _ => throw s!"bad merger {j.compress}"

def tableOfJson (j : Json) : Except String Table := do
  match ← mergerOfJson (Json.mkObj [("merge", j)]) with
  | .merge t => pure t
  | _ => throw "table"

partial def valOfJson (j : Json) : Except String Val := do
  match j.getObjVal? "atom" with
  | .ok a => return .atom (← a.getStr?)
  | .error _ => pure ()
  match j.getObjVal? "set" with
  | .ok a => return .set (← strList a)
  | .error _ => pure ()
  match j.getObjVal? "seq" with
  | .ok a => return .seq (← strList a)
  | .error _ => pure ()
  let kvs (a : Json) : Except String (List (String × Val)) := do
    let arr ← a.getArr?
    arr.toList.mapM fun e => do
      let pr ← e.getArr?
      if pr.size != 2 then throw "val: pair expected"
      pure ((← pr[0]!.getStr?), (← valOfJson pr[1]!))
  match j.getObjVal? "model" with
  | .ok a => return .model (← kvs a)
  | .error _ => pure ()
  match j.getObjVal? "dict" with
  | .ok a => return .dict (← kvs a)
  | .error _ => throw s!"bad val {j.compress}"

partial def valToJson : Val → Json
  | .atom s => Json.mkObj [("atom", Json.str s)]
  | .set xs => Json.mkObj [("set", jStrs xs)]
  | .seq xs => Json.mkObj [("seq", jStrs xs)]
  | .model fs => Json.mkObj [("model", Json.arr (fs.map fun (k, v) => Json.arr #[Json.str k, valToJson v]).toArray)]
  | .dict fs => Json.mkObj [("dict", Json.arr (fs.map fun (k, v) => Json.arr #[Json.str k, valToJson v]).toArray)]

def fieldsOfJson (j : Json) : Except String Fields := do
  match ← valOfJson (Json.mkObj [("model", j)]) with
  | .model fs => pure fs
  | _ => throw "fields"

def fieldsToJson (fs : Fields) : Json :=
  Json.arr (fs.map fun (k, v) => Json.arr #[Json.str k, valToJson v]).toArray

def mergeErrJson : MergeErr → Json
  | .forbidden => Json.mkObj [("err", "forbidden")]
  | .typeError => Json.mkObj [("err", "typeError")]
  | .unsupported => Json.mkObj [("err", "unsupported")]

def mergeResJson : Except MergeErr Val → Json
  | .ok v => Json.mkObj [("ok", valToJson v)]
  | .error e => mergeErrJson e

/-- `{"op":"c15.merge","table":…,"objs":[a,b(,c)]}` → merge(a,b), merge(b,a), merge(a,b,c), merge(a,merge(b,c)) -/
def merge : Handler := fun j => do
  let t ← tableOfJson (← arg j "table")
  let objs ← (← (← arg j "objs").getArr?).toList.mapM valOfJson
  let m := Merger.merge t
  match objs with
  | [a, b] =>
    pure (Json.mkObj [("ab", mergeResJson (mergeVal m a b)), ("ba", mergeResJson (mergeVal m b a))])
  | [a, b, c] =>
    let fa := match a with | .model f => f | _ => []
    let fb := match b with | .model f => f | _ => []
    let fc := match c with | .model f => f | _ => []
    pure (Json.mkObj [("ab", mergeResJson (mergeVal m a b)), ("ba", mergeResJson (mergeVal m b a)),
      ("abc", mergeResJson ((mergeMany t fa [fb, fc]).map .model)),
      ("a_bc", mergeResJson (mergeVal m b c >>= fun r => mergeVal m a r))])
  | _ => throw "objs: 2 or 3 expected"

def execErrJson : ExecErr → Json
  | .valueError => Json.mkObj [("err", "ValueError")]
  | .attributeError => Json.mkObj [("err", "AttributeError")]
  | .loadError => Json.mkObj [("err", "LoadError")]
  | .indexError => Json.mkObj [("err", "IndexError")]
  | .unsupported => Json.mkObj [("err", "Unsupported")]

structure HEntry where
  l : String
  r : String
  ports : Option (List String)
  a : Assign

def assignOfJson (e : Json) : Except String Assign := do
  pure ⟨← fieldsOfJson (← arg e "left"), ← fieldsOfJson (← arg e "right"), ← fieldsOfJson (← arg e "session")⟩

def hentryOfJson (e : Json) : Except String HEntry := do
  let ports ← match e.getObjVal? "ports" with
    | .ok .null => pure none
    | .ok p => pure (some (← strList p))
    | .error _ => pure none
  pure ⟨← (← arg e "l").getStr?, ← (← arg e "r").getStr?, ports, ← assignOfJson e⟩

def emptyAssign : Assign := ⟨[], [], []⟩

/-- first entry for `(l, r)` whose port set is the given one (or which accepts any ports) -/
def findEntry (tab : List HEntry) (l r : String) (ports : Option PortPairs) : Assign :=
  let key := ports.map fun ps => ps.map fun p => p.1 ++ "|" ++ p.2
  match tab.find? (fun e => e.l == l && e.r == r &&
      (match e.ports, key with
       | none, _ => true
       | some _, none => false
       | some ps, some k => ps.length == k.length && k.all (ps.contains ·))) with
  | some e => e.a
  | none => emptyAssign

def pairsOfJson (j : Json) : Except String (List (String × String)) := do
  (← j.getArr?).toList.mapM fun e => do
    let pr ← e.getArr?
    if pr.size != 2 then throw "pair expected"
    pure ((← pr[0]!.getStr?), (← pr[1]!.getStr?))

def directRuleOfJson (j : Json) : Except String DirectRule := do
  let m ← pairsOfJson (← arg j "match")
  let sep ← (← arg j "separate").getBool?
  let tab ← (← (← arg j "h").getArr?).toList.mapM hentryOfJson
  pure { isMatch := fun a b => m.contains (a, b), separate := sep,
         handler := fun l r ports _ => findEntry tab l r (some ports) }

def indirectRuleOfJson (j : Json) : Except String IndirectRule := do
  let m ← pairsOfJson (← arg j "match")
  let tab ← (← (← arg j "h").getArr?).toList.mapM hentryOfJson
  pure { isMatch := fun a b => m.contains (a, b), handler := fun l r => findEntry tab l r none }

def virtualRuleOfJson (j : Json) : Except String VirtualRule := do
  let m ← strList (← arg j "match")
  let num ← natList (← arg j "num")
  let tab ← (← (← arg j "h").getArr?).toList.mapM fun e => do
    pure ((← (← arg e "dev").getStr?), (← (← arg e "num").getNat?), (← assignOfJson e))
  pure { isMatch := fun a => m.contains a, num := num,
         handler := fun d n => match tab.find? (fun e => e.1 == d && e.2.1 == n) with
           | some e => e.2.2
           | none => emptyAssign }

structure DevInfo where
  fqdn : String
  neighbours : List String
  ifaces : List String
  conns : List (String × PortPairs)

def storageOfJson (j : Json) : Except String Storage := do
  let all ← strList (← arg j "all")
  let devs ← (← (← arg j "devices").getArr?).toList.mapM fun d => do
    let conns ← (← (← arg d "conns").getArr?).toList.mapM fun c => do
      let pr ← c.getArr?
      if pr.size != 2 then throw "conns: pair expected"
      pure ((← pr[0]!.getStr?), (← pairsOfJson pr[1]!))
    pure (DevInfo.mk (← (← arg d "fqdn").getStr?) (← strList (← arg d "neighbours")) (← strList (← arg d "ifaces")) conns)
  let find (f : String) : Option DevInfo := devs.find? (·.fqdn == f)
  pure {
    allFqdns := all
    neighbours := fun d => match find d with | some i => i.neighbours | none => []
    conns := fun d n => match find d with
      | some i => (match i.conns.find? (·.1 == n) with | some c => c.2 | none => [])
      | none => []
    known := fun d => (find d).isSome
    ifaces := fun d => match find d with | some i => i.ifaces | none => []
    lagName := fun a => "Trunk" ++ String.ofList (a.toList.drop 1)
    subifName := fun p a => p ++ "." ++ String.ofList (a.toList.drop 1)
    sviName := fun a => "Vlan" ++ String.ofList (a.toList.drop 1) }

def optStr : Option String → Json
  | none => Json.null
  | some s => Json.str s

def optVal : Option Val → Json
  | none => Json.null
  | some v => valToJson v

def peerToJson (p : PeerOut) : Json :=
  Json.mkObj [("addr", Json.str p.addr), ("interface", optStr p.interface), ("remote_as", jNat p.remoteAs),
    ("hostname", Json.str p.hostname), ("families", optVal p.families), ("vrf_name", optVal p.vrfName),
    ("group_name", optVal p.groupName), ("description", optVal p.description),
    ("import_policy", optVal p.importPolicy), ("export_policy", optVal p.exportPolicy),
    ("update_source", optVal p.updateSource),
    ("local_as", match p.localAs with | none => Json.null | some n => jNat n),
    ("options", fieldsToJson p.options), ("laddr", optVal p.localAddr), ("lvrf", optVal p.localVrf)]

def callToJson : IfCall → Json
  | .makeLag lag ports min => Json.mkObj [("c", "lag"), ("lag", Json.str lag), ("ports", jStrs ports), ("min", optStr min)]
  | .addSubif iface subif => Json.mkObj [("c", "subif"), ("iface", Json.str iface), ("subif", Json.str subif)]
  | .addSvi svi => Json.mkObj [("c", "svi"), ("svi", Json.str svi)]
  | .addAddr iface addr vrf => Json.mkObj [("c", "addr"), ("iface", Json.str iface), ("addr", Json.str addr), ("vrf", optStr vrf)]

/-- `{"op":"c15.execute_for", device, storage, tables, ips, direct, indirect, virtual, ginit, ginsts}` →
`{"globals": {"ok": fields}|{"err":…}, "exec": {"ok": {"peers":[…], "calls":[…]}}|{"err":…}}`;
`execute_for` computes the global options first, so their error is the error of the whole call. -/
def executeForH : Handler := fun j => do
  let device ← (← arg j "device").getStr?
  let st ← storageOfJson (← arg j "storage")
  let tj ← arg j "tables"
  let T : Tables := {
    directDto := ← tableOfJson (← arg tj "direct"), indirectDto := ← tableOfJson (← arg tj "indirect"),
    virtualLocal := ← tableOfJson (← arg tj "vlocal"), virtualPeer := ← tableOfJson (← arg tj "vpeer"),
    optFields := ← strList (← arg tj "opt") }
  let gtab ← tableOfJson (← arg tj "globals")
  let ips ← (← (← arg j "ips").getArr?).toList.mapM fun e => do
    let pr ← e.getArr?
    if pr.size != 2 then throw "ips: pair expected"
    let v ← match pr[1]! with
      | .null => pure none
      | x => pure (some (← x.getStr?))
    pure ((← pr[0]!.getStr?), v)
  let ipOf (s : String) : Option String := match ips.find? (·.1 == s) with
    | some e => e.2
    | none => none
  let reg : Registry := {
    direct := ← (← (← arg j "direct").getArr?).toList.mapM directRuleOfJson
    indirect := ← (← (← arg j "indirect").getArr?).toList.mapM indirectRuleOfJson
    virt := ← (← (← arg j "virtual").getArr?).toList.mapM virtualRuleOfJson }
  let ginit ← fieldsOfJson (← arg j "ginit")
  let ginsts ← (← (← arg j "ginsts").getArr?).toList.mapM fieldsOfJson
  match executeGlobals gtab ginit ginsts with
  | .error e => pure (Json.mkObj [("globals", execErrJson e), ("exec", execErrJson e)])
  | .ok g =>
    let ex := match executeFor T st ipOf reg device with
      | .error e => execErrJson e
      | .ok out => Json.mkObj [("ok", Json.mkObj [("peers", Json.arr (out.peers.map peerToJson).toArray),
                                                   ("calls", Json.arr (out.calls.map callToJson).toArray)])]
    pure (Json.mkObj [("globals", Json.mkObj [("ok", fieldsToJson g)]), ("exec", ex)])

def handlers : List (String × Handler) := [("c15.merge", merge), ("c15.execute_for", executeForH)]

end Annet.Glue.C15
