/-
JSON glue for C09: patch text / command paths (Model/Format.lean) and the deploy command list
(Model/Deploy.lean with the regenerated table Gen/ApplyTab.lean).  Only (de)serialises.
-/
import AnnetModel.Glue.Common
import AnnetModel.Model.Format
import AnnetModel.Model.Deploy
import AnnetModel.Gen.ApplyTab

namespace Annet.Glue.C09
open Lean Annet.Glue Annet.Format Annet.Deploy

def ctxOfJson (j : Json) : Except String Ctx := do
  match j with
  | Json.null => pure []
  | _ =>
    let o ← j.getObj?
    o.toList.mapM fun (k, v) => do pure (k, ← v.getStr?)

def ctxToJson (c : Ctx) : Json := Json.mkObj (c.map fun (k, v) => (k, Json.str v))

partial def ptOfJson (j : Json) : Except String PT := do
  let arr ← j.getArr?
  let items ← arr.toList.mapM fun e => do
    let t ← e.getArr?
    if t.size != 3 then throw "patch item: triple expected"
    let row ← t[0]!.getStr?
    let child ← match t[1]! with
      | Json.null => pure none
      | c => do pure (some (← ptOfJson c))
    let ctx ← ctxOfJson t[2]!
    pure (row, child, ctx)
  pure (.mk items)

/-- `{"cls": <formatter class name>, "indent": <make_formatter(indent=…)>}` -/
def fmtOfJson (j : Json) : Except String Fmt := do
  let cls ← (← arg j "cls").getStr?
  let indent ← (← arg j "indent").getStr?
  match cls with
  | "CommonFormatter" | "OptixtransFormatter" => pure (mkCommon indent)
  | "HuaweiFormatter" => pure (mkHuawei indent)
  | "CiscoFormatter" => pure (mkCisco indent)
  | "AsrFormatter" => pure (mkAsr indent)
  | "NexusFormatter" | "B4comFormatter" | "ArubaFormatter" | "AristaFormatter" => pure (mkPlainExit indent)
  | other => throw s!"formatter class not modelled: {other}"

partial def ruleOfJson (j : Json) : Except String DRule := do
  let row ← (← arg j "row").getStr?
  let timeout ← (← arg j "timeout").getNat?
  let logic ← (← arg j "apply_logic").getStr?
  let dialogs ← (← (← arg j "dialogs").getArr?).toList.mapM fun d => do
    let t ← d.getArr?
    if t.size != 3 then throw "dialog: triple expected"
    pure ({ text := ← t[0]!.getStr?, answer := ← t[1]!.getStr?, sendNl := ← t[2]!.getBool? } : Dialog)
  let ifc ← strList (← arg j "ifcontext")
  let ch ← (← (← arg j "children").getArr?).toList.mapM ruleOfJson
  pure (.mk row timeout logic dialogs ifc ch)

def pathsToJson (ps : List (List String × Ctx)) : Json :=
  Json.arr (ps.map fun (p, c) => Json.arr #[jStrs p, ctxToJson c]).toArray

def pathsOfJson (j : Json) : Except String (List (List String × Ctx)) := do
  (← j.getArr?).toList.mapM fun e => do
    let t ← e.getArr?
    if t.size != 2 then throw "path: pair expected"
    pure (← strList t[0]!, ← ctxOfJson t[1]!)

def errName : Deploy.Err → String
  | .valueError => "ValueError"
  | .sendNlFalse => "SendNlFalse"
  | .unknownHw => "UnknownHw"
  | .indexError => "IndexError"

def cmdToJson (c : Cmd) : Json :=
  Json.arr #[Json.str c.cmd, jNat c.level, jNat c.timeout,
    Json.arr (c.questions.map fun q => Json.arr #[Json.str q.question, Json.str q.answer, Json.bool q.isRegexp]).toArray]

def linesToJson (ls : List (Nat × String)) : Json :=
  Json.arr (ls.map fun (l, r) => Json.arr #[jNat l, Json.str r]).toArray

/-- `{"op":"c09.format","fmt":{…},"patch":[…]}` → text, lines, cmd paths of one formatter object -/
def format : Handler := fun j => do
  let f ← fmtOfJson (← arg j "fmt")
  let pt ← ptOfJson (← arg j "patch")
  let paths := match cmdPaths f pt with
    | .ok ps => pathsToJson ps
    | .error _ => Json.mkObj [("err", "IndexError")]
  pure (Json.mkObj [("text", Json.str (patchText f pt)), ("lines", linesToJson (patchLines f pt)), ("paths", paths)])

def deployArgs (j : Json) : Except String (Rx × String × List DRule × Bool × Bool) := do
  let hw ← (← arg j "hw").getStr?
  let rules ← (← (← arg j "rules").getArr?).toList.mapM ruleOfJson
  let extra ← (← (← arg j "rx_extra").getArr?).toList.mapM fun e => do
    let t ← e.getArr?
    if t.size != 2 then throw "rx_extra: pair expected"
    pure (← t[0]!.getStr?, ← t[1]!.getStr?)
  let dc ← (← arg j "do_commit").getBool?
  let df ← (← arg j "do_finalize").getBool?
  pure (rxGrammar extra, hw, rules, dc, df)

def cmdsJson (r : Except Deploy.Err (List Cmd)) : Json :=
  match r with
  | .ok cs => Json.arr (cs.map cmdToJson).toArray
  | .error e => Json.mkObj [("err", errName e)]

/-- `{"op":"c09.deploy", "hw":…, "rules":[…], "rx_extra":[…], "paths":[…], "do_commit":b, "do_finalize":b}`:
`apply_deploy_rulebook` on given command paths (used for the set-style vendors, whose `cmd_paths`
are not modelled) -/
def deploy : Handler := fun j => do
  let (rx, hw, rules, dc, df) ← deployArgs j
  let paths ← pathsOfJson (← arg j "paths")
  pure (Json.mkObj [("cmds", cmdsJson (applyDeployRulebook rx Annet.Gen.applyTab hw rules paths df dc))])

/-- `{"op":"c09.run", "show":{fmt}, "send":{fmt}, "patch":[…], + the arguments of c09.deploy without paths}`:
the whole chain PatchTree → shown text, command paths (production formatter) → command list -/
def run : Handler := fun j => do
  let fShow ← fmtOfJson (← arg j "show")
  let fSend ← fmtOfJson (← arg j "send")
  let pt ← ptOfJson (← arg j "patch")
  let (rx, hw, rules, dc, df) ← deployArgs j
  let showPaths := match cmdPaths fShow pt with
    | .ok ps => pathsToJson ps
    | .error _ => Json.mkObj [("err", "IndexError")]
  let (paths, cmds) := match cmdPaths fSend pt with
    | .ok ps => (pathsToJson ps, cmdsJson (applyDeployRulebook rx Annet.Gen.applyTab hw rules ps df dc))
    | .error _ => (Json.mkObj [("err", "IndexError")], Json.mkObj [("err", "IndexError")])
  pure (Json.mkObj [("text", Json.str (patchText fShow pt)), ("lines", linesToJson (patchLines fShow pt)),
                    ("unit", Json.str fShow.indent), ("show_paths", showPaths), ("paths", paths), ("cmds", cmds)])

/-- `{"op":"c09.match", "rules":[…], "rx_extra":[…], "path":[…], "ctx":{…}}` → the matched rule's
`(row, timeout)` or the default -/
def matchRule : Handler := fun j => do
  let rules ← (← (← arg j "rules").getArr?).toList.mapM ruleOfJson
  let extra ← (← (← arg j "rx_extra").getArr?).toList.mapM fun e => do
    let t ← e.getArr?
    if t.size != 2 then throw "rx_extra: pair expected"
    pure (← t[0]!.getStr?, ← t[1]!.getStr?)
  let path ← strList (← arg j "path")
  let ctx ← ctxOfJson (← arg j "ctx")
  match matchDeployRule (rxGrammar extra) rules path ctx with
  | .ok r => pure (Json.mkObj [("row", Json.str r.row), ("timeout", jNat r.timeout)])
  | .error e => pure (Json.mkObj [("err", errName e)])

def handlers : List (String × Handler) :=
  [("c09.format", format), ("c09.deploy", deploy), ("c09.run", run), ("c09.match", matchRule)]

end Annet.Glue.C09
