import AnnetModel.Glue.Common
import AnnetModel.Model.FormatSplit

/-
JSON glue for C04 (not part of the model).  Texts travel as JSON strings; the harness never sends the
three code points U+0085/U+2028/U+2029 (Lean's JSON printer leaves them unescaped and the Python side
reads the driver's output with `splitlines()`).
-/
namespace Annet.Glue.C04
open Lean Annet.Glue Annet.FormatSplit

def jText (t : Str) : Json := Json.str (String.ofList t)
def jLines (l : List Str) : Json := Json.arr (l.map jText).toArray

def jParse : Except Nat Cfg → Json
  | .ok t => Json.mkObj [("ok", cfgToJson t)]
  | .error n => Json.mkObj [("err", "ParserError"), ("line", jNat n)]

def unsupported (what : String) : Json := Json.mkObj [("unsupported", Json.str what)]

def fmtOf (j : Json) : Except String Fmt := do
  let vendor ← (← arg j "vendor").getStr?
  let ij ← arg j "indent"
  let kw ← if ij.isNull then pure none else do pure (some (← ij.getStr?).toList)
  match kindOf vendor with
  | none => throw s!"unknown vendor {vendor}"
  | some k => pure (mkFormatter k kw)

/-- split + parse of a text: `[("lines", …), ("parse", …)]`, or `none` when not modelled -/
def parseFields (f : Fmt) (text : Str) : Option (List (String × Json) × Option Cfg) :=
  match split f text with
  | none => none
  | some ls =>
    let r := Annet.Offside.parseToTree comments (ls.map String.ofList)
    some ([("lines", jLines ls), ("parse", jParse r)], (match r with | .ok t => some t | .error _ => none))

/-- join, split, parse, join again -/
def cycle (f : Fmt) (t : Cfg) : Json :=
  match join f t with
  | none => unsupported "join"
  | some s =>
    match parseFields f s with
    | none => unsupported "split"
    | some (fields, r) =>
      let again := match r with
        | none => [("rejoin", Json.null)]
        | some t' => match join f t' with
          | none => [("rejoin", unsupported "join")]
          | some s' => [("rejoin", jText s')]
      Json.mkObj ([("join", jText s)] ++ fields ++ again)

/-- `{"op":"c04.tree","vendor":v,"indent":i|null,"tree":t}` -/
def tree : Handler := fun j => do
  let f ← fmtOf j
  let t ← cfgOfJson (← arg j "tree")
  pure (cycle f t)

/-- `{"op":"c04.text","vendor":v,"indent":i|null,"text":s}`: parse a device text, then the cycle on the
parsed tree -/
def text : Handler := fun j => do
  let f ← fmtOf j
  let s := (← (← arg j "text").getStr?).toList
  match parseFields f s with
  | none => pure (unsupported "split")
  | some (fields, r) =>
    pure (Json.mkObj (fields ++ [("cycle", match r with | none => Json.null | some t => cycle f t)]))

def handlers : List (String × Handler) := [("c04.tree", tree), ("c04.text", text)]

end Annet.Glue.C04
