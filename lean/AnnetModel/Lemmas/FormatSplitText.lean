/-
C04 helper lemmas, part 2: `split` of the indentation vendors (Common, Huawei, Nexus-like, Asr, Cisco) undoes `join` line by line.
-/
import AnnetModel.Lemmas.FormatSplitBase

namespace Annet.FormatSplit.Lemmas
open Annet Annet.Offside Annet.FormatSplit

/-! ## `noDbl` -/

theorem noDbl_tail (c : Char) (cs : Str) (h : noDbl (c :: cs) = true) : noDbl cs = true := by
  unfold noDbl at h
  split at h
  · exact absurd h (by simp)
  · rename_i heq; cases heq; exact h
  · rename_i heq; cases heq

theorem noDbl_replicate_le (n : Nat) (c : Char) (cs : Str)
    (h : noDbl (List.replicate n ' ' ++ c :: cs) = true) : n ≤ 1 := by
  match n, h with
  | 0, _ => omega
  | 1, _ => omega
  | n + 2, h =>
    simp [List.replicate_succ, noDbl] at h

theorem noDbl_append_right (a b : Str) (h : noDbl (a ++ b) = true) : noDbl b = true := by
  induction a with
  | nil => simpa using h
  | cons c cs ih => exact ih (noDbl_tail c _ h)

/-! ## `removeSpacesGo` -/

theorem removeSpacesGo_append_nl (l rest : Str) : ∀ (p : Bool) (n : Nat),
    removeSpacesGo p n (l ++ '\n' :: rest)
      = removeSpacesGo p n l ++ '\n' :: removeSpacesGo false 0 rest := by
  induction l with
  | nil =>
    intro p n
    have h1 : ('\n' == ' ') = false := by decide
    have h2 : pyIsSpace '\n' = true := by decide
    simp [removeSpacesGo, h1, h2]
  | cons c cs ih =>
    intro p n
    simp only [List.cons_append, removeSpacesGo]
    split
    · exact ih p (n + 1)
    · rw [ih]; simp

theorem removeSpacesGo_blanks (k : Nat) (l : Str) : ∀ (p : Bool) (n : Nat),
    removeSpacesGo p n (blanks k ++ l) = removeSpacesGo p (n + k) l := by
  induction k with
  | zero => intro p n; simp [blanks]
  | succ k ih =>
    intro p n
    have := ih p (n + 1)
    simp only [blanks] at this ⊢
    simp only [List.replicate_succ, List.cons_append, removeSpacesGo, beq_self_eq_true, if_true]
    rw [this]
    congr 1
    omega

theorem removeSpacesGo_noDbl (l : Str) : ∀ (p : Bool) (n : Nat),
    noDbl (List.replicate n ' ' ++ l) = true →
    removeSpacesGo p n l = List.replicate n ' ' ++ l := by
  induction l with
  | nil => intro p n _; simp [removeSpacesGo]
  | cons c cs ih =>
    intro p n h
    simp only [removeSpacesGo]
    split
    · rename_i hc
      have hc' : c = ' ' := by simpa using hc
      subst hc'
      have e : List.replicate n ' ' ++ ' ' :: cs = List.replicate (n + 1) ' ' ++ cs := by
        rw [List.replicate_succ']; simp
      rw [e] at h ⊢
      exact ih p (n + 1) h
    · have hn := noDbl_replicate_le n c cs h
      have hcs : noDbl cs = true := noDbl_tail c cs (noDbl_append_right _ _ h)
      have h2 : decide (2 ≤ n) = false := by simp; omega
      rw [ih _ 0 (by simpa using hcs)]
      simp [h2]

theorem rowBase_cons (r : Str) (h : rowBase r = true) :
    ∃ c cs, r = c :: cs ∧ pyIsSpace c = false ∧ c ≠ ' ' := by
  cases r with
  | nil => simp [rowBase] at h
  | cons c cs =>
    simp only [rowBase, Bool.and_eq_true, Bool.not_eq_true'] at h
    refine ⟨c, cs, rfl, h.1.1.1.1, ?_⟩
    intro e
    have := h.1.1.1.1
    rw [e] at this
    exact absurd this (by decide)

/-- a line of a rendering is a fixed point of the blank-collapsing state machine -/
theorem removeSpacesGo_line (n : Nat) (r : Str) (hb : rowBase r = true) (hd : noDbl r = true) :
    removeSpacesGo false 0 (blanks n ++ r) = blanks n ++ r := by
  obtain ⟨c, cs, rfl, _, hne⟩ := rowBase_cons r hb
  rw [removeSpacesGo_blanks]
  have hc : (c == ' ') = false := by simpa using hne
  simp only [removeSpacesGo, hc, Bool.false_and, Bool.false_eq_true, if_false, Nat.zero_add, blanks]
  rw [removeSpacesGo_noDbl cs _ 0 (by simpa using noDbl_tail c cs hd)]
  simp

/-- `split_remove_spaces` leaves a text alone whose lines are blanks followed by a row without double
blanks -/
theorem removeSpaces_joinNl (ls : List Str)
    (h : ∀ l ∈ ls, ∃ n r, l = blanks n ++ r ∧ rowBase r = true ∧ noDbl r = true) :
    removeSpaces (joinNl ls) = joinNl ls := by
  induction ls with
  | nil => simp [removeSpaces, joinNl, removeSpacesGo]
  | cons l rest ih =>
    obtain ⟨n, r, rfl, hb, hd⟩ := h l (by simp)
    cases rest with
    | nil =>
      simp only [joinNl, removeSpaces]
      exact removeSpacesGo_line n r hb hd
    | cons l' ls =>
      have ih' := ih (fun x hx => h x (by simp [hx]))
      simp only [removeSpaces] at ih' ⊢
      simp only [joinNl] at ih' ⊢
      rw [removeSpacesGo_append_nl, removeSpacesGo_line n r hb hd, ih']

/-! ## `strip` of a rendered line -/

theorem lstrip_blanks (n : Nat) (r : Str) : lstrip (blanks n ++ r) = lstrip r := by
  induction n with
  | zero => simp [blanks]
  | succ n ih =>
    have hsp : pyIsSpace ' ' = true := by decide
    simp only [blanks, lstrip] at ih ⊢
    simp only [List.replicate_succ, List.cons_append, List.dropWhile_cons, hsp, if_true]
    exact ih

theorem strip_line (n : Nat) (r : Str) (hb : rowBase r = true) : strip (blanks n ++ r) = r := by
  have hlast : (r.getLast?.any pyIsSpace) = false := by
    cases r with
    | nil => simp [rowBase] at hb
    | cons c cs =>
      simp only [rowBase, Bool.and_eq_true, Bool.not_eq_true'] at hb
      exact hb.1.2
  obtain ⟨c, cs, rfl, hc, _⟩ := rowBase_cons r hb
  simp only [strip, lstrip_blanks]
  have h1 : lstrip (c :: cs) = c :: cs := by simp [lstrip, hc]
  rw [h1]
  have h2 : lstrip (c :: cs).reverse = (c :: cs).reverse := by
    have hh := List.head?_reverse (l := c :: cs)
    generalize (c :: cs).reverse = q at hh ⊢
    cases q with
    | nil => simp [lstrip]
    | cons a as =>
      simp only [List.head?_cons] at hh
      rw [← hh] at hlast
      simp only [Option.any_some] at hlast
      simp [lstrip, hlast]
  rw [h2, List.reverse_reverse]

/-! ## Asr: suffixes -/

theorem suffix_blanks (p : Str) (c : Char) (cs : Str) (hp : p = c :: cs) (hc : c ≠ ' ') (n : Nat)
    (r : Str) (h : p <:+ blanks n ++ r) : p <:+ r := by
  induction n with
  | zero => simpa [blanks] using h
  | succ n ih =>
    simp only [blanks, List.replicate_succ, List.cons_append] at h
    rcases List.suffix_cons_iff.mp h with h | h
    · rw [hp] at h
      simp only [List.cons.injEq] at h
      exact absurd h.1 hc
    · exact ih h

theorem asr_heads : ∀ p ∈ asrEndBlocks, ∃ c cs, p = c :: cs ∧ c ≠ ' ' := by
  simp [asrEndBlocks]

theorem asr_keep (n : Nat) (r : Str)
    (h : (asrEndBlocks.any fun p => p.isSuffixOf r) = false) :
    (asrEndBlocks.any fun p => p.isSuffixOf (blanks n ++ r)) = false := by
  rw [Bool.eq_false_iff] at h ⊢
  intro hx
  apply h
  rw [List.any_eq_true] at hx ⊢
  obtain ⟨p, hp, hs⟩ := hx
  refine ⟨p, hp, ?_⟩
  rw [List.isSuffixOf_iff_suffix] at hs ⊢
  obtain ⟨c, cs, e, hc⟩ := asr_heads p hp
  exact suffix_blanks p c cs e hc n r hs

/-! ## Cisco: without an `exit-address-family` line no section is ever "closed at the same indent" -/

theorem closedAtSameIndentGo_false (level : Nat) (ls : List Str)
    (h : ∀ l ∈ ls, strip l ≠ exitAddressFamily) :
    ∀ first, closedAtSameIndentGo level exitAddressFamily first ls = false := by
  induction ls with
  | nil => intro first; simp [closedAtSameIndentGo]
  | cons l rest ih =>
    intro first
    have hl : (strip l == exitAddressFamily) = false := by
      simpa using h l (by simp)
    have hrest : ∀ x ∈ rest, strip x ≠ exitAddressFamily := fun x hx => h x (by simp [hx])
    simp only [closedAtSameIndentGo, hl, Bool.and_false, Bool.false_eq_true, if_false, ih hrest]
    split <;> rfl

theorem ciscoLoop_id (ls : List Str) : ∀ (indent : Int) (exits : List Str), indent ≤ 0 →
    (∀ l ∈ ls, strip l ≠ exitAddressFamily) →
    ciscoLoop ls indent exits = ls := by
  induction ls with
  | nil => intro indent exits _ _; simp [ciscoLoop]
  | cons l rest ih =>
    intro indent exits hi h
    have hrest : ∀ x ∈ rest, strip x ≠ exitAddressFamily :=
      fun x hx => h x (by simp [hx])
    simp only [ciscoLoop, ciscoSplitIndent, closedAtSameIndent,
      closedAtSameIndentGo_false _ rest hrest, Bool.false_eq_true, if_false]
    rw [Int.toNat_of_nonpos hi]
    split
    · rw [ih _ _ (by omega) hrest]; simp
    · split
      · rw [ih _ _ hi hrest]; simp
      · rw [ih _ _ hi hrest]; simp

/-! ## the five formatters -/

theorem rowOk_base (k : Kind) (r : String) (h : rowOk k r = true) : rowBase r.toList = true := by
  simp only [rowOk, Bool.and_eq_true] at h
  exact h.1

theorem line_plain (n : Nat) (r : Str) (hb : rowBase r = true) :
    blanks n ++ r ≠ [] ∧ '\n' ∉ blanks n ++ r := by
  have hnl : '\n' ∉ r := by
    cases r with
    | nil => simp [rowBase] at hb
    | cons c cs =>
      simp only [rowBase, Bool.and_eq_true, Bool.not_eq_true'] at hb
      have := hb.2
      intro hm
      rw [← List.contains_iff_mem] at hm
      rw [hm] at this
      exact absurd this (by simp)
  obtain ⟨c, cs, rfl, _, _⟩ := rowBase_cons r hb
  refine ⟨by simp, ?_⟩
  intro hm
  rw [List.mem_append] at hm
  rcases hm with hm | hm
  · simp only [blanks, List.mem_replicate] at hm
    exact absurd hm.2 (by decide)
  · exact hnl hm

theorem commonSplit_render (k : Kind) (w : Nat) (t : Cfg) (h : wf (rowOk k) t = true) :
    commonSplit (joinNl (render w 0 t)) = render w 0 t := by
  apply commonSplit_joinNl
  intro l hl
  obtain ⟨n, r, rfl, hr⟩ := mem_render (rowOk k) w 0 t h l hl
  exact line_plain n _ (rowOk_base k r hr)

theorem splitRemoveSpaces_render (k : Kind) (w : Nat) (t : Cfg) (h : wf (rowOk k) t = true)
    (hd : ∀ r, rowOk k r = true → noDbl r.toList = true) :
    splitRemoveSpaces (joinNl (render w 0 t)) = render w 0 t := by
  simp only [splitRemoveSpaces]
  rw [removeSpaces_joinNl, commonSplit_render k w t h]
  intro l hl
  obtain ⟨n, r, rfl, hr⟩ := mem_render (rowOk k) w 0 t h l hl
  exact ⟨n, r.toList, rfl, rowOk_base k r hr, hd r hr⟩

/-- the five indentation formatters: `split(join(t))` is the reference rendering -/
theorem split_join_indent (k : Kind)
    (hk : k = .common ∨ k = .huawei ∨ k = .nexusLike ∨ k = .asr ∨ k = .cisco)
    (w : Nat) (hw : 0 < w) (t : Cfg) (h : wf (rowOk k) t = true) :
    split ⟨k, blanks w⟩ (commonJoin (blanks w) t) = some (render w 0 t) := by
  have _ := hw
  rw [commonJoin_eq]
  rcases hk with rfl | rfl | rfl | rfl | rfl
  · -- common
    simp only [split]
    rw [commonSplit_render _ w t h]
  · -- huawei
    simp only [split, huaweiSplit]
    rw [splitRemoveSpaces_render _ w t h (by
      intro r hr
      simp only [rowOk, Bool.and_eq_true] at hr
      exact hr.2.1)]
    congr 1
    rw [List.filter_eq_self]
    intro l hl
    obtain ⟨n, r, rfl, hr⟩ := mem_render _ w 0 t h l hl
    rw [strip_line n _ (rowOk_base _ r hr)]
    simp only [rowOk, Bool.and_eq_true] at hr
    exact hr.2.2
  · -- nexusLike
    simp only [split]
    rw [splitRemoveSpaces_render _ w t h (by
      intro r hr
      simp only [rowOk, Bool.and_eq_true] at hr
      exact hr.2)]
  · -- asr
    simp only [split, asrSplit]
    rw [splitRemoveSpaces_render _ w t h (by
      intro r hr
      simp only [rowOk, Bool.and_eq_true] at hr
      exact hr.2.1)]
    congr 1
    rw [List.filter_eq_self]
    intro l hl
    obtain ⟨n, r, rfl, hr⟩ := mem_render _ w 0 t h l hl
    simp only [rowOk, Bool.and_eq_true, Bool.not_eq_true'] at hr
    rw [asr_keep n _ hr.2.2]
    rfl
  · -- cisco
    simp only [split, ciscoSplit]
    rw [splitRemoveSpaces_render _ w t h (by
      intro r hr
      simp only [rowOk, Bool.and_eq_true] at hr
      exact hr.2.1)]
    congr 1
    apply ciscoLoop_id _ 0 _ (by omega)
    intro l hl
    obtain ⟨n, r, rfl, hr⟩ := mem_render _ w 0 t h l hl
    rw [strip_line n _ (rowOk_base _ r hr)]
    simp only [rowOk, Bool.and_eq_true, bne_iff_ne] at hr
    exact hr.2.2

end Annet.FormatSplit.Lemmas
