/-
C13 helper lemmas, part D: `apply_acl_filters` returns a sub-document; chains of
generators; composition of patches.
-/
import AnnetModel.Lemmas.JsonFragment

namespace Annet.Json.Lemmas
open Annet.Json

/-! ### sub-documents -/

mutual
  theorem beq_refl : ∀ d : J, J.beq d d = true
    | .null => rfl
    | .bool b => by simp [J.beq]
    | .num n => by simp [J.beq]
    | .str s => by simp [J.beq]
    | .arr xs => by simp [J.beq, beqList_refl xs]
    | .obj kvs => by simp [J.beq, beqKvs_refl kvs]
  theorem beqList_refl : ∀ xs : List J, J.beqList xs xs = true
    | [] => rfl
    | x :: xs => by simp [J.beqList, beq_refl x, beqList_refl xs]
  theorem beqKvs_refl : ∀ kvs : List (String × J), J.beqKvs kvs kvs = true
    | [] => rfl
    | (k, x) :: rest => by simp [J.beqKvs, beq_refl x, beqKvs_refl rest]
end

mutual
  theorem isSub_refl : ∀ d : J, d.wf = true → isSub d d = true
    | .null, _ => rfl
    | .bool b, _ => by simp [isSub, J.beq]
    | .num n, _ => by simp [isSub, J.beq]
    | .str s, _ => by simp [isSub, J.beq]
    | .arr xs, _ => by simp [isSub, beq_refl]
    | .obj kvs, h => by
      simp only [isSub]
      exact isSubKvs_refl kvs kvs (by simpa [J.wf] using h) (fun k v hm => lookup_of_mem k v kvs (by simpa [J.wf] using h) hm)
  theorem isSubKvs_refl : ∀ (l kvs : List (String × J)), J.wfKvs l = true →
      (∀ k v, (k, v) ∈ l → lookup k kvs = some v) → isSubKvs l kvs = true
    | [], _, _, _ => rfl
    | (k, v) :: rest, kvs, hw, hl => by
      simp only [J.wfKvs, Bool.and_eq_true] at hw
      simp only [isSubKvs, hl k v (by simp), Bool.and_eq_true]
      exact ⟨isSub_refl v hw.1.2, isSubKvs_refl rest kvs hw.2 (fun k' v' hm => hl k' v' (by simp [hm]))⟩
end

theorem isSub_obj_right (r : J) (kvs : List (String × J)) (h : isSub r (.obj kvs) = true) : ∃ rk, r = .obj rk := by
  cases r with
  | obj rk => exact ⟨rk, rfl⟩
  | null => simp [isSub, J.beq] at h
  | bool b => simp [isSub, J.beq] at h
  | num n => simp [isSub, J.beq] at h
  | str s => simp [isSub, J.beq] at h
  | arr xs => simp [isSub, J.beq] at h

theorem isSubKvs_lookup (rk dk : List (String × J)) (k : String) (c : J) (h : isSubKvs rk dk = true)
    (hl : lookup k rk = some c) : ∃ dc, lookup k dk = some dc ∧ isSub c dc = true := by
  induction rk with
  | nil => simp [lookup] at hl
  | cons a rest ih =>
    obtain ⟨k2, v2⟩ := a
    simp only [isSubKvs, Bool.and_eq_true] at h
    by_cases h2 : k2 = k
    · subst h2
      simp [lookup] at hl
      subst hl
      cases hd : lookup k2 dk with
      | none => simp [hd] at h
      | some dc => simp only [hd] at h; exact ⟨dc, rfl, h.1⟩
    · simp [lookup, h2] at hl
      exact ih h.2 hl

theorem isSubKvs_upsert (rk dk : List (String × J)) (k : String) (v dc : J) (h : isSubKvs rk dk = true)
    (hd : lookup k dk = some dc) (hv : isSub v dc = true) : isSubKvs (upsert k v rk) dk = true := by
  induction rk with
  | nil => simp [upsert, isSubKvs, hd, hv]
  | cons a rest ih =>
    obtain ⟨k2, v2⟩ := a
    simp only [isSubKvs, Bool.and_eq_true] at h
    by_cases h2 : k2 = k
    · subst h2
      simp [upsert, isSubKvs, hd, hv, h.2]
    · simp only [upsert, h2, if_false, isSubKvs, Bool.and_eq_true]
      exact ⟨h.1, ih h.2⟩

/-- every proper prefix of `q` is an object of `d`, and `d` has `q` -/
def ObjPath (q : Ptr) (d : J) : Prop := ∀ a c, q = a ++ c → c ≠ [] → ObjAt a d

theorem objPath_root (k : String) (rest : Ptr) (d : J) (h : ObjPath (k :: rest) d) : ∃ dk, d = .obj dk := by
  obtain ⟨dk, hd⟩ := h [] (k :: rest) rfl (by simp)
  simp only [getP, Option.some.injEq] at hd
  exact ⟨dk, hd⟩

theorem objPath_child (k k2 : String) (rest : Ptr) (dk : List (String × J)) (h : ObjPath (k :: k2 :: rest) (.obj dk)) :
    ∃ dc, lookup k dk = some dc ∧ ObjPath (k2 :: rest) dc := by
  obtain ⟨kvs', h1⟩ := h [k] (k2 :: rest) rfl (by simp)
  simp only [getP] at h1
  cases hl : lookup k dk with
  | none => simp [hl] at h1
  | some dc =>
    refine ⟨dc, rfl, ?_⟩
    intro a c hq hc
    obtain ⟨kvs2, h2⟩ := h (k :: a) c (by simp [hq]) hc
    exact ⟨kvs2, by simpa [getP, hl] using h2⟩

theorem admits_of_sub (q : Ptr) (r d : J) (hs : isSub r d = true) (hp : ObjPath q d) : Admits q r := by
  induction q generalizing r d with
  | nil => trivial
  | cons k rest ih =>
    obtain ⟨dk, rfl⟩ := objPath_root k rest d hp
    obtain ⟨rk, rfl⟩ := isSub_obj_right r dk hs
    cases rest with
    | nil => simp [Admits, J.isObj]
    | cons k2 r2 =>
      simp only [Admits]
      cases hl : lookup k rk with
      | none => trivial
      | some c =>
        obtain ⟨dc, hd, hpc⟩ := objPath_child k k2 r2 dk hp
        obtain ⟨dc', hd', hsc⟩ := isSubKvs_lookup rk dk k c (by simpa [isSub] using hs) hl
        rw [hd] at hd'
        cases hd'
        exact ih c dc hsc hpc

theorem isSub_setO (q : Ptr) (r d part : J) (hq : q ≠ []) (hs : isSub r d = true) (hp : ObjPath q d)
    (hg : getP q d = some part) (hw : d.wf = true) : isSub (setO q part r) d = true := by
  induction q generalizing r d with
  | nil => exact absurd rfl hq
  | cons k rest ih =>
    obtain ⟨dk, rfl⟩ := objPath_root k rest d hp
    obtain ⟨rk, rfl⟩ := isSub_obj_right r dk hs
    have hk : J.wfKvs dk = true := by simpa [J.wf] using hw
    simp only [getP] at hg
    cases hd : lookup k dk with
    | none => simp [hd] at hg
    | some dc =>
      simp only [hd] at hg
      simp only [setO, isSub]
      apply isSubKvs_upsert rk dk k _ dc (by simpa [isSub] using hs) hd
      cases rest with
      | nil =>
        simp only [getP, Option.some.injEq] at hg
        subst hg
        simp only [setO]
        exact isSub_refl dc (wf_of_lookup k dk dc hk hd)
      | cons k2 r2 =>
        obtain ⟨dc', hd', hpc⟩ := objPath_child k k2 r2 dk hp
        rw [hd] at hd'
        cases hd'
        apply ih _ dc (by simp) ?_ hpc hg (wf_of_lookup k dk dc hk hd)
        cases hl : lookup k rk with
        | none =>
          obtain ⟨dk2, rfl⟩ := objPath_root k2 r2 dc hpc
          simp [isSub, isSubKvs]
        | some c =>
          obtain ⟨dc2, hd2, hsc⟩ := isSubKvs_lookup rk dk k c (by simpa [isSub] using hs) hl
          rw [hd] at hd2
          cases hd2
          exact hsc

/-- lines 112-119 of jsontools.py: create the path, then `add` the value -/
theorem mkPath_add (q : Ptr) (v d : J) (ha : Admits q d) (hq : q ≠ []) :
    (do let r1 ← mkPath q d; atParent (addLast v) q r1) = .ok (setO q v d) := by
  induction q generalizing d with
  | nil => exact absurd rfl hq
  | cons k rest ih =>
    obtain ⟨kvs, rfl⟩ := admits_obj (k :: rest) d (by simp) ha
    cases rest with
    | nil =>
      simp only [mkPath, setO]
      simp [bind, Except.bind, atParent, addLast, upsert_upsert]
    | cons k2 r =>
      have hchild : Admits (k2 :: r) (match lookup k kvs with | none => J.obj [] | some c => c) := by
        cases hl : lookup k kvs with
        | none => exact admits_empty _
        | some c => exact admits_child k (k2 :: r) kvs c ha hl (by simp)
      have := ih _ hchild (by simp)
      simp only [mkPath]
      cases hm : mkPath (k2 :: r) (match lookup k kvs with | none => J.obj [] | some c => c) with
      | error e => simp [hm, bind, Except.bind] at this
      | ok c' =>
        simp only [hm, bind, Except.bind] at this
        simp only [bind, Except.bind, atParent, lookup_upsert_self, this, setO, upsert_upsert]
        congr 3
        cases lookup k kvs <;> rfl

theorem filterPtr_eq (content result : J) (q : Ptr) (part : J) (hq : q ≠ []) (hg : getP q content = some part)
    (ha : Admits q result) : filterPtr content result q = .ok (setO q part result) := by
  have := mkPath_add q part result ha hq
  simp only [filterPtr, getPtr_of_getP q content part hg, parsePointer_path]
  cases hm : mkPath q result with
  | error e => simp [hm, bind, Except.bind] at this
  | ok r1 =>
    simp only [hm, bind, Except.bind] at this
    simp only [bind, Except.bind]
    cases q with
    | nil => exact absurd rfl hq
    | cons _ _ => simpa [opAdd] using this

theorem objPath_of_mem (ps : List (List String)) (p : List String) (hp : p ∈ ps) (d : J) (hs : SpineNoArr ps d)
    (q : Ptr) (hm : matchPtr p q = true) (hg : getP q d ≠ none) : ObjPath q d := by
  intro a c hqe hc
  subst hqe
  have hla : a.length < p.length := by
    rw [← matchPtr_length p _ hm]
    cases c with
    | nil => exact absurd rfl hc
    | cons _ _ => simp
  rw [getP_append] at hg
  cases hga : getP a d with
  | none => simp [hga] at hg
  | some w =>
    have := isObj_of_getP_below c w hc (by simpa [hga] using hg)
      (hs p hp a hla (prefMatch_of_matchPtr p a c hm) w hga)
    cases w <;> simp [J.isObj] at this
    exact ⟨_, hga⟩

theorem filter_ptrs (ps : List (List String)) (p : List String) (hp : p ∈ ps) (hpne : p ≠ []) (d : J)
    (hw : d.wf = true) (hs : SpineNoArr ps d) (L : List Ptr)
    (hL : ∀ q ∈ L, matchPtr p q = true ∧ getP q d ≠ none) (result : J) (hr : isSub result d = true) :
    ∃ r, L.foldlM (filterPtr d) result = .ok r ∧ isSub r d = true := by
  induction L generalizing result with
  | nil => exact ⟨result, rfl, hr⟩
  | cons q L ih =>
    obtain ⟨hm, hg⟩ := hL q (by simp)
    have hq : q ≠ [] := by
      intro e; subst e
      have := matchPtr_length p [] hm
      cases p with
      | nil => exact hpne rfl
      | cons _ _ => simp at this
    have hop := objPath_of_mem ps p hp d hs q hm hg
    cases hv : getP q d with
    | none => exact absurd hv hg
    | some part =>
      have h1 := filterPtr_eq d result q part hq hv (admits_of_sub q result d hr hop)
      obtain ⟨r, g1, g2⟩ := ih (fun x hx => hL x (by simp [hx])) _ (isSub_setO q result d part hq hr hop hv hw)
      exact ⟨r, by rw [List.foldlM_cons, h1]; exact g1, g2⟩

theorem filters_sub (d : J) (F : List String) (ps : List (List String))
    (hF : ∀ t ∈ F, pyStrip t = "" ∨ ∃ p ∈ ps, p ≠ [] ∧ parsePointer (pyStrip t) = .ok p)
    (hw : d.wf = true) (hs : SpineNoArr ps d) (hobj : d.isObj = true) :
    ∃ r, applyAclFilters d F = .ok r ∧ isSub r d = true := by
  have gen : ∀ (F : List String), (∀ t ∈ F, pyStrip t = "" ∨ ∃ p ∈ ps, p ≠ [] ∧ parsePointer (pyStrip t) = .ok p) →
      ∀ result, isSub result d = true → ∃ r, F.foldlM (filterStep d) result = .ok r ∧ isSub r d = true := by
    intro F
    induction F with
    | nil => intro _ result hr; exact ⟨result, rfl, hr⟩
    | cons t F ih =>
      intro hF result hr
      have hrest := ih (fun x hx => hF x (by simp [hx]))
      rcases hF t (by simp) with he | ⟨p, hp, hpne, hparse⟩
      · obtain ⟨r, g1, g2⟩ := hrest result hr
        exact ⟨r, by rw [List.foldlM_cons]; simp only [filterStep, he, if_true]; exact g1, g2⟩
      · by_cases he : pyStrip t = ""
        · obtain ⟨r, g1, g2⟩ := hrest result hr
          exact ⟨r, by rw [List.foldlM_cons]; simp only [filterStep, he, if_true]; exact g1, g2⟩
        · have hmem := fun q => mem_resolveRec p d q hw
          obtain ⟨r1, f1, f2⟩ := filter_ptrs ps p hp hpne d hw hs (resolveRec p d) (fun q hq => (hmem q).1 hq) result hr
          obtain ⟨r, g1, g2⟩ := hrest r1 f2
          refine ⟨r, ?_, g2⟩
          rw [List.foldlM_cons]
          simp only [filterStep, he, if_false, resolve_eq (pyStrip t) p d hparse hpne]
          show (do let x ← (resolveRec p d).foldlM (filterPtr d) result; F.foldlM (filterStep d) x) = _
          rw [f1]
          exact g1
  cases d with
  | obj dk => exact gen F hF (.obj []) (by simp [isSub, isSubKvs])
  | null => simp [J.isObj] at hobj
  | bool b => simp [J.isObj] at hobj
  | num n => simp [J.isObj] at hobj
  | str s => simp [J.isObj] at hobj
  | arr xs => simp [J.isObj] at hobj

/-! ### chains of generators -/

theorem fragment_step_sub (PS : List (List String)) (cfg f : J) (acl : List String) (L : List (List String))
    (hparse : ParsedAcl acl L) (hL : ∀ p ∈ L, p ∈ PS ∧ p ≠ [])
    (hwc : cfg.wf = true) (hwf : f.wf = true) (hsc : SpineObj PS cfg) (hsf : SpineObj PS f) :
    ∃ r, applyFragment cfg f acl = .ok r ∧ r.wf = true ∧ SpineObj PS r ∧ InsideEq L r f ∧ OutsideEq L r cfg := by
  obtain ⟨r, h1, h2, h3, h4, h5, _, _⟩ :=
    frag_fold PS f hwf (spineNoArr_of_spineObj PS f hsf) L hL cfg hwc (spineRel_of_spineObj PS f cfg hsc)
  refine ⟨r, ?_, h2, spineObj_of_spineRel PS f r h3 hsf, ?_, fun q ho => h5 q ho⟩
  · rw [applyFragment_eq f acl L cfg hparse (fun p hp => (hL p hp).2)]; exact h1
  · intro p hp q hc
    obtain ⟨a, c, rfl, hm⟩ := covers_split p q hc
    rw [getP_append, getP_append, h4 p hp a hm]

theorem chain_prefix (PS : List (List String)) (gens : List (J × List String)) (pss : List (List (List String)))
    (hparse : ParsedGens gens pss) (hsub : ∀ ps ∈ pss, ∀ p ∈ ps, p ∈ PS ∧ p ≠ [])
    (hg : ∀ g ∈ gens, g.1.wf = true ∧ SpineObj PS g.1) (cfg : J) (hwc : cfg.wf = true) (hsc : SpineObj PS cfg) :
    ∃ r, applyChain cfg gens = .ok r ∧ r.wf = true ∧ SpineObj PS r ∧ OutsideEq PS r cfg := by
  induction gens generalizing pss cfg with
  | nil => exact ⟨cfg, rfl, hwc, hsc, fun _ _ => rfl⟩
  | cons g gens ih =>
    cases pss with
    | nil => exact absurd hparse (by simp [ParsedGens])
    | cons ps pss =>
      obtain ⟨hp1, hprest⟩ := hparse
      obtain ⟨hgw, hgs⟩ := hg g (by simp)
      obtain ⟨r1, a1, a2, a3, _, a5⟩ :=
        fragment_step_sub PS cfg g.1 g.2 ps hp1 (hsub ps (by simp)) hwc hgw hsc hgs
      obtain ⟨r, b1, b2, b3, b4⟩ := ih pss hprest (fun x hx => hsub x (by simp [hx]))
        (fun x hx => hg x (by simp [hx])) r1 a2 a3
      refine ⟨r, ?_, b2, b3, ?_⟩
      · simp only [applyChain, List.foldlM_cons, a1]
        exact b1
      · intro q ho
        rw [b4 q ho, a5 q (fun p hp => ho p (hsub ps (by simp) p hp).1)]

theorem parsedGens_append (gens : List (J × List String)) (g : J × List String) (pss : List (List (List String)))
    (ps : List (List String)) (h : ParsedGens (gens ++ [g]) (pss ++ [ps])) :
    ParsedGens gens pss ∧ ParsedAcl g.2 ps := by
  induction gens generalizing pss with
  | nil =>
    cases pss with
    | nil => exact ⟨trivial, h.1⟩
    | cons a rest =>
      cases rest <;> simp [ParsedGens] at h
  | cons g0 gens ih =>
    cases pss with
    | nil =>
      cases gens <;> simp [ParsedGens] at h
    | cons a rest =>
      obtain ⟨h1, h2⟩ := h
      obtain ⟨i1, i2⟩ := ih rest h2
      exact ⟨⟨h1, i1⟩, i2⟩

theorem chain_laws (old : J) (gens : List (J × List String)) (f : J) (acl : List String)
    (pss : List (List (List String))) (ps : List (List String))
    (hparse : ParsedGens (gens ++ [(f, acl)]) (pss ++ [ps]))
    (hne : ∀ p ∈ (pss ++ [ps]).flatten, p ≠ [])
    (hwo : old.wf = true) (hso : SpineObj (pss ++ [ps]).flatten old)
    (hg : ∀ g ∈ gens ++ [(f, acl)], g.1.wf = true ∧ SpineObj (pss ++ [ps]).flatten g.1) :
    ∃ r, applyChain old (gens ++ [(f, acl)]) = .ok r ∧ InsideEq ps r f ∧
      OutsideEq (pss ++ [ps]).flatten r old := by
  obtain ⟨hp1, hp2⟩ := parsedGens_append gens (f, acl) pss ps hparse
  have hsub : ∀ x ∈ pss ++ [ps], ∀ p ∈ x, p ∈ (pss ++ [ps]).flatten ∧ p ≠ [] := by
    intro x hx p hp
    have : p ∈ (pss ++ [ps]).flatten := List.mem_flatten.2 ⟨x, hx, hp⟩
    exact ⟨this, hne p this⟩
  obtain ⟨r1, a1, a2, a3, a4⟩ := chain_prefix _ gens pss hp1 (fun x hx => hsub x (by simp [hx]))
    (fun g hgm => hg g (by simp [hgm])) old hwo hso
  obtain ⟨hfw, hfs⟩ := hg (f, acl) (by simp)
  obtain ⟨r, b1, _, _, b4, b5⟩ := fragment_step_sub _ r1 f acl ps hp2 (hsub ps (by simp)) a2 hfw a3 hfs
  refine ⟨r, ?_, b4, ?_⟩
  · simp only [applyChain, List.foldlM_append, List.foldlM_cons, List.foldlM_nil]
    have : gens.foldlM (fun cfg g => applyFragment cfg g.1 g.2) old = .ok r1 := a1
    rw [this]
    simp [bind, Except.bind, b1, pure, Except.pure]
  · intro q ho
    rw [b5 q (fun p hp => ho p (hsub ps (by simp) p hp).1), a4 q ho]

/-! ### patches -/

theorem forM_append_ok (p q : List Op) :
    (p ++ q).forM validOp = (do p.forM validOp; q.forM validOp) := by
  simp [List.forM_append]

theorem patch_append (d : J) (p q : List Op) (hq : q.forM validOp = .ok ()) :
    applyPatch d (p ++ q) = (applyPatch d p).bind (fun d1 => applyPatch d1 q) := by
  simp only [applyPatch, forM_append_ok, List.foldlM_append, hq]
  cases hp : p.forM validOp with
  | error e => rfl
  | ok u =>
    cases List.foldlM applyOp d p with
    | error e => simp [bind, Except.bind]
    | ok d1 => simp [bind, Except.bind]

end Annet.Json.Lemmas
