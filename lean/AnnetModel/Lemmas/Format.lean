/-
Lemmas for C09 (formatter side): the generators yield well-bracketed token lists; on such lists
the level counter of `_indent_blocks` and the path stack of `cmd_paths` move in lock step; the
dictionary of `cmd_paths` is the identity on lists without repeated keys and a first-occurrence
de-duplication otherwise.
-/
import AnnetModel.Spec.Format

namespace Annet.Format.Lemmas
open Annet.Format Annet.Format.Spec

theorem emap_nil {ε α : Type} (e : Except ε (List α)) : e.map ([] ++ ·) = e := by
  cases e <;> simp [Except.map]

theorem emap_cons {ε α : Type} (e : Except ε (List α)) (a : α) (ps : List α) :
    (e.map (ps ++ ·)).map (a :: ·) = e.map ((a :: ps) ++ ·) := by
  cases e <;> simp [Except.map]

theorem emap_app {ε α : Type} (e : Except ε (List α)) (ps1 ps2 : List α) :
    (e.map (ps2 ++ ·)).map (ps1 ++ ·) = e.map ((ps1 ++ ps2) ++ ·) := by
  cases e <;> simp [Except.map]

/-! ### well-bracketed token lists -/

theorem seg_append {a b : List Tok} (ha : Seg a) (hb : Seg b) : Seg (a ++ b) := by
  induction ha with
  | nil => simpa using hb
  | row r c _ ih => exact Seg.row r c ih
  | @block inner rest hi _ _ ih2 =>
    have : Tok.bb :: (inner ++ Tok.be :: rest) ++ b = Tok.bb :: (inner ++ Tok.be :: (rest ++ b)) := by simp
    rw [this]
    exact Seg.block hi ih2

theorem seg_exitToks {ms : List Mark} (h : ExitOk ms) (last : Ctx) : Seg (exitToks ms last) := by
  rcases h with h | ⟨x, h⟩ | ⟨x, h⟩
  · subst h; exact Seg.nil
  · subst h
    by_cases hx : x = ""
    · have : exitToks (blockWrapper x) last = Tok.bb :: ([] ++ Tok.be :: []) := by
        simp [exitToks, blockWrapper, List.filterMap, hx]
      rw [this]; exact Seg.block Seg.nil Seg.nil
    · have : exitToks (blockWrapper x) last = Tok.bb :: ([Tok.row x last] ++ Tok.be :: []) := by
        simp [exitToks, blockWrapper, List.filterMap, hx]
      rw [this]; exact Seg.block (Seg.row x last Seg.nil) Seg.nil
  · subst h
    by_cases hx : x = ""
    · have : exitToks [Mark.s x] last = [] := by simp [exitToks, List.filterMap, hx]
      rw [this]; exact Seg.nil
    · have : exitToks [Mark.s x] last = [Tok.row x last] := by simp [exitToks, List.filterMap, hx]
      rw [this]; exact Seg.row x last Seg.nil

mutual
  theorem seg_blocksTree (ex : FCtx → List Mark) (hex : ∀ cx, ExitOk (ex cx)) (parent : Option FCtx) :
      ∀ t : PT, Seg (blocksTree ex parent t)
    | .mk items => by
      rw [blocksTree]
      exact seg_blocksItems ex hex parent none items
  theorem seg_blocksItems (ex : FCtx → List Mark) (hex : ∀ cx, ExitOk (ex cx)) (parent : Option FCtx)
      (prev : Option (String × Ctx)) : ∀ items : List Item, Seg (blocksItems ex parent prev items)
    | [] => by rw [blocksItems]; exact Seg.nil
    | (row, none, rc) :: rest => by
      rw [blocksItems]
      exact Seg.row row rc (seg_blocksItems ex hex parent (some (row, rc)) rest)
    | (row, some c, rc) :: rest => by
      rw [blocksItems]
      refine Seg.row row rc (Seg.block (seg_blocksTree ex hex _ c) ?_)
      exact seg_append (seg_exitToks (hex _) _) (seg_blocksItems ex hex parent (some (row, rc)) rest)
end

/-! ### level counter and path stack in lock step -/

def dl (e : List String × Ctx) : Nat × String := depthLast e.1

/-- On a well-bracketed segment below a non-empty path the path loop cannot fail, and the
`(len(path)-1, path[-1])` of the paths it records are the `(level, row)` pairs of `_indent_blocks`. -/
theorem seg_run {ts : List Tok} (h : Seg ts) :
    ∀ (pre : List String) (x : String) (more : List Tok),
      ∃ (x' : String) (ps : List (List String × Ctx)),
        rawPathsAux (ts ++ more) (pre ++ [x]) = (rawPathsAux more (pre ++ [x'])).map (ps ++ ·) ∧
        indentAux (ts ++ more) pre.length = ps.map dl ++ indentAux more pre.length := by
  induction h with
  | nil =>
    intro pre x more
    refine ⟨x, [], ?_, ?_⟩
    · exact (emap_nil _).symm
    · simp
  | row r c _ ih =>
    intro pre x more
    obtain ⟨x', ps, h1, h2⟩ := ih pre r more
    refine ⟨x', (pre ++ [r], c) :: ps, ?_, ?_⟩
    · simp only [List.cons_append, rawPathsAux, List.dropLast_concat]
      rw [h1, emap_cons]
      rfl
    · simp only [List.cons_append, indentAux, List.map_cons]
      rw [h2]
      simp [dl, depthLast]
  | @block inner rest _ _ ih1 ih2 =>
    intro pre x more
    obtain ⟨x1, ps1, h1, h2⟩ := ih1 (pre ++ [x]) x (Tok.be :: (rest ++ more))
    obtain ⟨x2, ps2, h3, h4⟩ := ih2 pre x more
    refine ⟨x2, ps1 ++ ps2, ?_, ?_⟩
    · have e : (Tok.bb :: (inner ++ Tok.be :: rest)) ++ more = Tok.bb :: (inner ++ Tok.be :: (rest ++ more)) := by simp
      rw [e]
      simp only [rawPathsAux, List.getLast?_concat]
      rw [h1]
      simp only [rawPathsAux, List.dropLast_concat]
      have hne : (pre ++ [x] ++ [x1]).isEmpty = false := by simp
      rw [hne]
      simp only [Bool.false_eq_true, if_false]
      rw [h3, emap_app]
    · have e : (Tok.bb :: (inner ++ Tok.be :: rest)) ++ more = Tok.bb :: (inner ++ Tok.be :: (rest ++ more)) := by simp
      rw [e]
      simp only [indentAux]
      have hl : (pre ++ [x]).length = pre.length + 1 := by simp
      rw [← hl, h2]
      simp only [indentAux]
      rw [hl, Nat.add_sub_cancel, h4]
      simp

/-- first token of the items of a tree -/
theorem blocksItems_cons (ex : FCtx → List Mark) (hex : ∀ cx, ExitOk (ex cx)) (parent : Option FCtx)
    (prev : Option (String × Ctx)) (it : Item) (rest : List Item) :
    ∃ r c tl, blocksItems ex parent prev (it :: rest) = Tok.row r c :: tl ∧ Seg tl := by
  obtain ⟨row, ch, rc⟩ := it
  cases ch with
  | none =>
    refine ⟨row, rc, _, by rw [blocksItems], seg_blocksItems ex hex parent _ rest⟩
  | some c =>
    refine ⟨row, rc, _, by rw [blocksItems], ?_⟩
    exact Seg.block (seg_blocksTree ex hex _ c)
      (seg_append (seg_exitToks (hex _) _) (seg_blocksItems ex hex parent _ rest))

/-- The shown lines are exactly the block paths of the rows the generator yields:
same commands, same order, depth = length of the block path − 1, exit statements included;
and the path loop never raises. -/
theorem shown_lines_are_block_paths (ex : FCtx → List Mark) (hex : ∀ cx, ExitOk (ex cx)) (pt : PT) :
    ∃ ps, shownPaths ex pt = .ok ps ∧ patchLinesOf ex pt = ps.map dl := by
  obtain ⟨items⟩ := pt
  unfold shownPaths patchLinesOf
  rw [blocksTree]
  cases items with
  | nil => exact ⟨[], by simp [blocksItems, rawPathsAux], by simp [blocksItems, indentAux]⟩
  | cons it rest =>
    obtain ⟨r, c, tl, he, hs⟩ := blocksItems_cons ex hex none none it rest
    rw [he]
    obtain ⟨x', ps, h1, h2⟩ := seg_run hs [] r []
    simp only [List.append_nil, List.nil_append, List.length_nil] at h1 h2
    refine ⟨([r], c) :: ps, ?_, ?_⟩
    · simp only [rawPathsAux, List.dropLast_nil, List.nil_append]
      rw [h1]
      simp [rawPathsAux, Except.map]
    · simp only [indentAux, List.map_cons]
      rw [h2]
      simp [dl, depthLast, indentAux]

/-! ### the dictionary -/

theorem cmdPathsAux_eq (ts : List Tok) :
    ∀ (path : List String) (ret : List (List String × Ctx)),
      cmdPathsAux ts path ret =
        (rawPathsAux ts path).map (fun l => l.foldl (fun d e => odictSet d e.1 e.2) ret) := by
  induction ts with
  | nil => intro path ret; simp [cmdPathsAux, rawPathsAux, Except.map]
  | cons t rest ih =>
    intro path ret
    cases t with
    | bb =>
      simp only [cmdPathsAux, rawPathsAux]
      cases path.getLast? with
      | none => simp [Except.map]
      | some t => exact ih _ _
    | be =>
      simp only [cmdPathsAux, rawPathsAux]
      split
      · simp [Except.map]
      · exact ih _ _
    | row r c =>
      simp only [cmdPathsAux, rawPathsAux]
      rw [ih]
      cases rawPathsAux rest (path.dropLast ++ [r]) <;> simp [Except.map]

theorem odictSet_fresh {κ ν : Type} [BEq κ] [LawfulBEq κ] (d : List (κ × ν)) (k : κ) (v : ν)
    (h : k ∉ d.map (·.1)) : odictSet d k v = d ++ [(k, v)] := by
  unfold odictSet
  have : d.any (fun e => e.1 == k) = false := by
    rw [List.any_eq_false]
    intro e he heq
    have : e.1 = k := by simpa using heq
    exact h (List.mem_map.mpr ⟨e, he, this⟩)
  simp [this]

theorem foldl_odictSet_nodup {κ ν : Type} [BEq κ] [LawfulBEq κ] (l : List (κ × ν)) :
    ∀ (d : List (κ × ν)), ((d ++ l).map (·.1)).Nodup →
      l.foldl (fun d e => odictSet d e.1 e.2) d = d ++ l := by
  induction l with
  | nil => intro d _; simp
  | cons e rest ih =>
    intro d hnd
    simp only [List.foldl_cons]
    have hfresh : e.1 ∉ d.map (·.1) := by
      intro hmem
      rw [List.map_append, List.map_cons] at hnd
      have := (List.nodup_append.mp hnd).2.2 _ hmem e.1 (List.mem_cons_self)
      exact this rfl
    rw [odictSet_fresh d e.1 e.2 hfresh]
    have : d ++ [(e.1, e.2)] ++ rest = d ++ e :: rest := by simp
    rw [ih (d ++ [(e.1, e.2)]) (by rw [this]; exact hnd), this]

theorem odictOfList_nodup {κ ν : Type} [BEq κ] [LawfulBEq κ] (l : List (κ × ν)) (h : (l.map (·.1)).Nodup) :
    odictOfList l = l := by
  unfold odictOfList
  simpa using foldl_odictSet_nodup l [] (by simpa using h)

/-- `cmd_paths` = the dictionary built from the block paths of the shown lines; it never raises. -/
theorem cmdPathsOf_eq (ex : FCtx → List Mark) (pt : PT) :
    cmdPathsOf ex pt = (shownPaths ex pt).map odictOfList := by
  unfold cmdPathsOf shownPaths odictOfList
  exact cmdPathsAux_eq _ _ _

theorem odictSet_keys {κ ν : Type} [BEq κ] [LawfulBEq κ] (d : List (κ × ν)) (k : κ) (v : ν) :
    (odictSet d k v).map (·.1) = if k ∈ d.map (·.1) then d.map (·.1) else d.map (·.1) ++ [k] := by
  unfold odictSet
  by_cases h : k ∈ d.map (·.1)
  · have hany : d.any (fun e => e.1 == k) = true := by
      obtain ⟨e, he, hk⟩ := List.mem_map.mp h
      exact List.any_eq_true.mpr ⟨e, he, by simp [hk]⟩
    simp only [hany, if_true, h]
    rw [List.map_map]
    apply List.map_congr_left
    intro e _
    by_cases hk : e.1 == k <;> simp [hk]
  · have hany : d.any (fun e => e.1 == k) = false := by
      rw [List.any_eq_false]
      intro e he heq
      exact h (List.mem_map.mpr ⟨e, he, by simpa using heq⟩)
    simp [hany, h]

theorem filtA {κ : Type} [BEq κ] [LawfulBEq κ] (K : List κ) (e : κ) (L : List κ) (h : K.contains e = true) :
    (L.filter (fun k => !(k == e))).filter (fun k => !K.contains k) = L.filter (fun k => !K.contains k) := by
  rw [List.filter_filter]
  apply List.filter_congr
  intro k _
  cases hK : K.contains k with
  | true => rfl
  | false =>
    cases hke : k == e with
    | false => rfl
    | true =>
      have : k = e := eq_of_beq hke
      rw [this, h] at hK
      exact absurd hK (by decide)

theorem containsApp {κ : Type} [BEq κ] [LawfulBEq κ] (K : List κ) (e k : κ) :
    (K ++ [e]).contains k = (K.contains k || k == e) := by
  induction K with
  | nil => simp only [List.nil_append, List.contains_cons, List.contains_nil, Bool.or_false, Bool.false_or]
  | cons a K ih =>
    simp only [List.cons_append, List.contains_cons, ih, Bool.or_assoc]

theorem filtB {κ : Type} [BEq κ] [LawfulBEq κ] (K : List κ) (e : κ) (L : List κ) :
    L.filter (fun k => !(K ++ [e]).contains k) = (L.filter (fun k => !(k == e))).filter (fun k => !K.contains k) := by
  rw [List.filter_filter]
  apply List.filter_congr
  intro k _
  rw [containsApp]
  cases K.contains k <;> cases (k == e) <;> rfl

theorem foldl_odictSet_keys {κ ν : Type} [BEq κ] [LawfulBEq κ] (l : List (κ × ν)) :
    ∀ (d : List (κ × ν)),
      (l.foldl (fun d e => odictSet d e.1 e.2) d).map (·.1) =
        d.map (·.1) ++ (dedupKeys (l.map (·.1))).filter (fun k => !(d.map (·.1)).contains k) := by
  induction l with
  | nil => intro d; simp [dedupKeys]
  | cons e rest ih =>
    intro d
    simp only [List.foldl_cons, List.map_cons, dedupKeys]
    rw [ih, odictSet_keys]
    by_cases h : e.1 ∈ d.map (·.1)
    · have hc : (List.map (fun x => x.1) d).contains e.1 = true := List.contains_iff_mem.mpr h
      rw [if_pos h, List.filter_cons, hc]
      simp only [Bool.not_true, Bool.false_eq_true, if_false]
      rw [filtA _ _ _ hc]
    · have hc : (List.map (fun x => x.1) d).contains e.1 = false := by
        cases hh : (List.map (fun x => x.1) d).contains e.1
        · rfl
        · exact absurd (List.contains_iff_mem.mp hh) h
      rw [if_neg h, List.filter_cons, hc]
      simp only [Bool.not_false, if_true, List.append_assoc, List.singleton_append]
      rw [filtB]

/-- what the dictionary keeps of a key list: the first occurrence of every key, in order -/
theorem odictOfList_keys {κ ν : Type} [BEq κ] [LawfulBEq κ] (l : List (κ × ν)) :
    (odictOfList l).map (·.1) = dedupKeys (l.map (·.1)) := by
  unfold odictOfList
  rw [foldl_odictSet_keys]
  simp

/-! ### every real formatter's `block_exit` is well formed -/

theorem baseBlockExit_ok (f : Fmt) (cx : FCtx) : ExitOk (baseBlockExit f cx) := by
  unfold baseBlockExit
  split
  · exact Or.inl rfl
  · split
    · exact Or.inr (Or.inl ⟨_, rfl⟩)
    · exact Or.inl rfl

theorem blockExit_ok (f : Fmt) (cx : FCtx) : ExitOk (blockExit f cx) := by
  unfold blockExit
  split
  · exact Or.inl rfl
  · exact baseBlockExit_ok f cx
  · unfold huaweiBlockExit
    simp only
    split
    · exact Or.inr (Or.inl ⟨_, rfl⟩)
    · split
      · exact Or.inr (Or.inl ⟨_, rfl⟩)
      · split
        · split
          · exact Or.inr (Or.inr ⟨_, rfl⟩)
          · split
            · exact Or.inr (Or.inr ⟨_, rfl⟩)
            · exact Or.inl rfl
        · exact baseBlockExit_ok f cx
  · unfold ciscoBlockExit
    split
    · exact Or.inr (Or.inl ⟨_, rfl⟩)
    · exact baseBlockExit_ok f cx
  · unfold asrBlockExit
    simp only
    split
    · exact Or.inr (Or.inl ⟨_, rfl⟩)
    · split
      · exact Or.inr (Or.inl ⟨_, rfl⟩)
      · split
        · exact Or.inr (Or.inl ⟨_, rfl⟩)
        · exact baseBlockExit_ok f cx

/-! ### the block paths of the shown lines, computed on the tree -/

theorem emap_id {ε α : Type} (e : Except ε α) : e.map (fun x => x) = e := by
  cases e <;> rfl

/-- running the path loop over the exit statements of a block whose row is on top of the path -/
theorem run_exitToks {ms : List Mark} (h : ExitOk ms) (last : Ctx) (pre : List String) (row : String) (more : List Tok) :
    ∃ x', rawPathsAux (exitToks ms last ++ more) (pre ++ [row]) =
      (rawPathsAux more (pre ++ [x'])).map (exitFlat ms pre row last ++ ·) := by
  rcases h with h | ⟨x, h⟩ | ⟨x, h⟩
  · subst h
    exact ⟨row, by simp [exitToks, exitFlat, wrappedWords, bareWords, emap_id]⟩
  · subst h
    by_cases hx : x = ""
    · refine ⟨row, ?_⟩
      have e : exitToks (blockWrapper x) last = [Tok.bb, Tok.be] := by simp [exitToks, blockWrapper, List.filterMap, hx]
      have f : exitFlat (blockWrapper x) pre row last = [] := by simp [exitFlat, wrappedWords, bareWords, blockWrapper, hx]
      rw [e, f]
      simp [rawPathsAux, emap_id]
    · refine ⟨row, ?_⟩
      have e : exitToks (blockWrapper x) last = [Tok.bb, Tok.row x last, Tok.be] := by
        simp [exitToks, blockWrapper, List.filterMap, hx]
      have f : exitFlat (blockWrapper x) pre row last = [(pre ++ [row, x], last)] := by
        simp [exitFlat, wrappedWords, bareWords, blockWrapper, hx]
      rw [e, f]
      simp [rawPathsAux]
  · subst h
    by_cases hx : x = ""
    · refine ⟨row, ?_⟩
      have e : exitToks [Mark.s x] last = [] := by simp [exitToks, List.filterMap, hx]
      have f : exitFlat [Mark.s x] pre row last = [] := by simp [exitFlat, wrappedWords, bareWords, hx]
      rw [e, f]; simp [emap_id]
    · refine ⟨x, ?_⟩
      have e : exitToks [Mark.s x] last = [Tok.row x last] := by simp [exitToks, List.filterMap, hx]
      have f : exitFlat [Mark.s x] pre row last = [(pre ++ [x], last)] := by simp [exitFlat, wrappedWords, bareWords, hx]
      rw [e, f]
      simp [rawPathsAux]


mutual
  theorem run_blocksTree (ex : FCtx → List Mark) (hex : ∀ cx, ExitOk (ex cx)) :
      ∀ (t : PT) (parent : Option FCtx) (pre : List String) (x : String) (more : List Tok),
        ∃ x', rawPathsAux (blocksTree ex parent t ++ more) (pre ++ [x]) =
          (rawPathsAux more (pre ++ [x'])).map (flatTree ex parent pre t ++ ·)
    | .mk items, parent, pre, x, more => by
      rw [blocksTree, flatTree]
      exact run_blocksItems ex hex items parent none pre x more
  theorem run_blocksItems (ex : FCtx → List Mark) (hex : ∀ cx, ExitOk (ex cx)) :
      ∀ (items : List Item) (parent : Option FCtx) (prev : Option (String × Ctx)) (pre : List String) (x : String)
        (more : List Tok),
        ∃ x', rawPathsAux (blocksItems ex parent prev items ++ more) (pre ++ [x]) =
          (rawPathsAux more (pre ++ [x'])).map (flatItems ex parent prev pre items ++ ·)
    | [], parent, prev, pre, x, more => by
      rw [blocksItems, flatItems]
      exact ⟨x, by simp [emap_id]⟩
    | (row, none, rc) :: rest, parent, prev, pre, x, more => by
      rw [blocksItems, flatItems]
      obtain ⟨x', h⟩ := run_blocksItems ex hex rest parent (some (row, rc)) pre row more
      refine ⟨x', ?_⟩
      simp only [List.cons_append, rawPathsAux, List.dropLast_concat]
      rw [h, emap_cons]
      rfl
    | (row, some c, rc) :: rest, parent, prev, pre, x, more => by
      rw [blocksItems, flatItems]
      obtain ⟨x2, h2⟩ := run_exitToks (hex (ctxAt parent prev row rc rest))
        (lastCtx rc (blocksTree ex (some (ctxAt parent prev row rc rest)) c)) pre row
        (blocksItems ex parent (some (row, rc)) rest ++ more)
      obtain ⟨x3, h3⟩ := run_blocksItems ex hex rest parent (some (row, rc)) pre x2 more
      obtain ⟨x1, h1⟩ := run_blocksTree ex hex c (some (ctxAt parent prev row rc rest)) (pre ++ [row]) row
        (Tok.be :: (exitToks (ex (ctxAt parent prev row rc rest))
            (lastCtx rc (blocksTree ex (some (ctxAt parent prev row rc rest)) c)) ++
          (blocksItems ex parent (some (row, rc)) rest ++ more)))
      refine ⟨x3, ?_⟩
      have e : ∀ (inner ext rst : List Tok),
          (Tok.row row rc :: Tok.bb :: (inner ++ Tok.be :: (ext ++ rst))) ++ more =
            Tok.row row rc :: Tok.bb :: (inner ++ Tok.be :: (ext ++ (rst ++ more))) := by intros; simp
      rw [e]
      simp only [rawPathsAux, List.dropLast_concat, List.getLast?_concat]
      rw [h1]
      simp only [rawPathsAux, List.dropLast_concat]
      have hne : (pre ++ [row] ++ [x1]).isEmpty = false := by simp
      rw [hne]
      simp only [Bool.false_eq_true, if_false]
      rw [h2, h3, emap_app, emap_app, emap_cons]
      simp only [List.append_assoc, List.cons_append]
end

/-- the block paths of the shown lines, computed on the tree -/
theorem shownPaths_eq_flat (ex : FCtx → List Mark) (hex : ∀ cx, ExitOk (ex cx)) (pt : PT) :
    shownPaths ex pt = .ok (flatTree ex none [] pt) := by
  obtain ⟨items⟩ := pt
  unfold shownPaths
  cases items with
  | nil => simp [blocksTree, blocksItems, flatTree, flatItems, rawPathsAux]
  | cons it rest =>
    obtain ⟨x', h⟩ := run_blocksTree ex hex (.mk (it :: rest)) none [] "" []
    simp only [List.append_nil, List.nil_append] at h
    have e : rawPathsAux (blocksTree ex none (.mk (it :: rest))) [] =
        rawPathsAux (blocksTree ex none (.mk (it :: rest))) [""] := by
      obtain ⟨r, c, tl, he, _⟩ := blocksItems_cons ex hex none none it rest
      rw [blocksTree, he]
      simp [rawPathsAux]
    rw [e, h]
    simp [rawPathsAux, Except.map]


/-! ### structural `NoDupPaths` ⇒ no block path is shown twice -/

theorem nodup_map_inj {α β : Type} (f : α → β) (hf : ∀ a b, f a = f b → a = b) :
    ∀ (l : List α), l.Nodup → (l.map f).Nodup := by
  intro l
  induction l with
  | nil => intro _; simp
  | cons a l ih =>
    intro h
    rw [List.nodup_cons] at h
    rw [List.map_cons, List.nodup_cons]
    refine ⟨?_, ih h.2⟩
    intro hm
    obtain ⟨b, hb, hfb⟩ := List.mem_map.mp hm
    rw [hf b a hfb] at hb
    exact h.1 hb

theorem head_eq_of_append_eq {pre t1 t2 : List String} {a b : String} (h : pre ++ a :: t1 = pre ++ b :: t2) :
    a = b ∧ t1 = t2 := by
  have := List.append_cancel_left h
  injection this with h1 h2
  exact ⟨h1, h2⟩

theorem exitFlat_keys (ms : List Mark) (pre : List String) (row : String) (last : Ctx) :
    (exitFlat ms pre row last).map (·.1) =
      (wrappedWords ms).map (fun x => pre ++ row :: [x]) ++ (bareWords ms).map (fun x => pre ++ [x]) := by
  simp [exitFlat, List.map_map, Function.comp_def]

mutual
  theorem flatTree_form (ex : FCtx → List Mark) :
      ∀ (t : PT) (parent : Option FCtx) (pre : List String),
        ∀ k ∈ (flatTree ex parent pre t).map (·.1), ∃ w tail, k = pre ++ w :: tail ∧ w ∈ levelWords ex parent none t.items
    | .mk items, parent, pre => by
      rw [flatTree]
      exact flatItems_form ex items parent none pre
  theorem flatItems_form (ex : FCtx → List Mark) :
      ∀ (items : List Item) (parent : Option FCtx) (prev : Option (String × Ctx)) (pre : List String),
        ∀ k ∈ (flatItems ex parent prev pre items).map (·.1),
          ∃ w tail, k = pre ++ w :: tail ∧ w ∈ levelWords ex parent prev items
    | [], parent, prev, pre => by
      intro k hk
      simp [flatItems] at hk
    | (row, none, rc) :: rest, parent, prev, pre => by
      intro k hk
      rw [flatItems, List.map_cons, List.mem_cons] at hk
      rw [levelWords]
      rcases hk with hk | hk
      · exact ⟨row, [], hk, List.mem_cons_self⟩
      · obtain ⟨w, tail, h1, h2⟩ := flatItems_form ex rest parent (some (row, rc)) pre k hk
        exact ⟨w, tail, h1, List.mem_cons_of_mem _ h2⟩
    | (row, some c, rc) :: rest, parent, prev, pre => by
      intro k hk
      rw [flatItems, List.map_cons, List.mem_cons, List.map_append, List.mem_append, List.map_append, List.mem_append,
        exitFlat_keys, List.mem_append] at hk
      rw [levelWords]
      rcases hk with hk | hk | (hk | hk) | hk
      · exact ⟨row, [], hk, List.mem_cons_self⟩
      · obtain ⟨w, tail, h1, _⟩ := flatTree_form ex c _ (pre ++ [row]) k hk
        exact ⟨row, w :: tail, by rw [h1]; simp, List.mem_cons_self⟩
      · obtain ⟨x, _, hx⟩ := List.mem_map.mp hk
        exact ⟨row, [x], hx.symm, List.mem_cons_self⟩
      · obtain ⟨x, hx1, hx⟩ := List.mem_map.mp hk
        exact ⟨x, [], hx.symm, List.mem_cons_of_mem _ (List.mem_append_left _ hx1)⟩
      · obtain ⟨w, tail, h1, h2⟩ := flatItems_form ex rest parent (some (row, rc)) pre k hk
        exact ⟨w, tail, h1, List.mem_cons_of_mem _ (List.mem_append_right _ h2)⟩
end

mutual
  theorem nodup_flatTree (ex : FCtx → List Mark) :
      ∀ (t : PT) (parent : Option FCtx) (pre : List String) (extra : List String), NoDupTree ex parent extra t →
        ((flatTree ex parent pre t).map (·.1) ++ extra.map (fun x => pre ++ [x])).Nodup
    | .mk items, parent, pre, extra => by
      intro h
      rw [NoDupTree] at h
      obtain ⟨hlw, hitems⟩ := h
      rw [List.nodup_append] at hlw
      rw [flatTree, List.nodup_append]
      refine ⟨nodup_flatItems ex items parent none pre hlw.1 hitems, ?_, ?_⟩
      · exact nodup_map_inj _ (fun a b hab => by
          have := List.append_cancel_left hab
          injection this) _ hlw.2.1
      · intro k hk k' hk' heq
        obtain ⟨w, tail, h1, h2⟩ := flatItems_form ex items parent none pre k hk
        obtain ⟨x, hx1, hx⟩ := List.mem_map.mp hk'
        rw [h1, ← hx] at heq
        have := (head_eq_of_append_eq heq).1
        exact hlw.2.2 w h2 x hx1 this
  theorem nodup_flatItems (ex : FCtx → List Mark) :
      ∀ (items : List Item) (parent : Option FCtx) (prev : Option (String × Ctx)) (pre : List String),
        (levelWords ex parent prev items).Nodup → NoDupItems ex parent prev items →
        ((flatItems ex parent prev pre items).map (·.1)).Nodup
    | [], parent, prev, pre => by
      intro _ _
      simp [flatItems]
    | (row, none, rc) :: rest, parent, prev, pre => by
      intro hlw hnd
      rw [levelWords, List.nodup_cons] at hlw
      rw [NoDupItems] at hnd
      rw [flatItems, List.map_cons, List.nodup_cons]
      refine ⟨?_, nodup_flatItems ex rest parent (some (row, rc)) pre hlw.2 hnd⟩
      intro hk
      obtain ⟨w, tail, h1, h2⟩ := flatItems_form ex rest parent (some (row, rc)) pre _ hk
      have := (head_eq_of_append_eq h1).1
      rw [← this] at h2
      exact hlw.1 h2
    | (row, some c, rc) :: rest, parent, prev, pre => by
      intro hlw hnd
      rw [levelWords, List.nodup_cons, List.nodup_append] at hlw
      obtain ⟨hrow, hbare, hrest, hdisj⟩ := hlw
      rw [NoDupItems] at hnd
      obtain ⟨hc, hr⟩ := hnd
      have ihc := nodup_flatTree ex c _ (pre ++ [row]) _ hc
      have ihr := nodup_flatItems ex rest parent (some (row, rc)) pre hrest hr
      have hwk : (wrappedWords (ex (ctxAt parent prev row rc rest))).map (fun x => pre ++ [row] ++ [x]) =
          (wrappedWords (ex (ctxAt parent prev row rc rest))).map (fun x => pre ++ row :: [x]) := by
        apply List.map_congr_left; intro x _; simp
      rw [hwk] at ihc
      rw [flatItems, List.map_cons, List.map_append, List.map_append, exitFlat_keys, List.nodup_cons]
      -- abbreviations
      generalize hKc : List.map (fun x => x.1) (flatTree ex (some (ctxAt parent prev row rc rest)) (pre ++ [row]) c) = Kc at *
      generalize hKw : List.map (fun x => pre ++ row :: [x]) (wrappedWords (ex (ctxAt parent prev row rc rest))) = Kw at *
      generalize hKr : List.map (fun x => x.1) (flatItems ex parent (some (row, rc)) pre rest) = Kr at *
      have formC : ∀ k ∈ Kc ++ Kw, ∃ t, k = pre ++ row :: t ∧ t ≠ [] := by
        intro k hk
        rcases List.mem_append.mp hk with hk | hk
        · rw [← hKc] at hk
          obtain ⟨w, tail, h1, _⟩ := flatTree_form ex c _ (pre ++ [row]) k hk
          exact ⟨w :: tail, by rw [h1]; simp, by simp⟩
        · rw [← hKw] at hk
          obtain ⟨x, _, hx⟩ := List.mem_map.mp hk
          exact ⟨[x], hx.symm, by simp⟩
      have formR : ∀ k ∈ Kr, ∃ w tail, k = pre ++ w :: tail ∧ w ∈ levelWords ex parent (some (row, rc)) rest := by
        intro k hk
        rw [← hKr] at hk
        exact flatItems_form ex rest parent (some (row, rc)) pre k hk
      have formB : ∀ k ∈ (bareWords (ex (ctxAt parent prev row rc rest))).map (fun x => pre ++ [x]),
          ∃ x, k = pre ++ [x] ∧ x ∈ bareWords (ex (ctxAt parent prev row rc rest)) := by
        intro k hk
        obtain ⟨x, hx1, hx⟩ := List.mem_map.mp hk
        exact ⟨x, hx.symm, hx1⟩
      refine ⟨?_, ?_⟩
      · -- the block's own path occurs nowhere else
        intro hk
        rcases List.mem_append.mp hk with hk | hk
        · obtain ⟨t, h1, h2⟩ := formC _ (List.mem_append_left _ hk)
          have := (head_eq_of_append_eq h1).2
          exact h2 this.symm
        · rcases List.mem_append.mp hk with hk | hk
          · rcases List.mem_append.mp hk with hk | hk
            · obtain ⟨t, h1, h2⟩ := formC _ (List.mem_append_right _ hk)
              exact h2 (head_eq_of_append_eq h1).2.symm
            · obtain ⟨x, h1, h2⟩ := formB _ hk
              have := (head_eq_of_append_eq h1).1
              rw [← this] at h2
              exact hrow (List.mem_append_left _ h2)
          · obtain ⟨w, tail, h1, h2⟩ := formR _ hk
            have := (head_eq_of_append_eq h1).1
            rw [← this] at h2
            exact hrow (List.mem_append_right _ h2)
      · -- the rest is duplicate free
        have hB : ((bareWords (ex (ctxAt parent prev row rc rest))).map (fun x => pre ++ [x])).Nodup :=
          nodup_map_inj _ (fun a b hab => by
            have := List.append_cancel_left hab
            injection this) _ hbare
        have hBR : ((bareWords (ex (ctxAt parent prev row rc rest))).map (fun x => pre ++ [x]) ++ Kr).Nodup := by
          rw [List.nodup_append]
          refine ⟨hB, ihr, ?_⟩
          intro k hk k' hk' heq
          obtain ⟨x, h1, h2⟩ := formB _ hk
          obtain ⟨w, tail, h3, h4⟩ := formR _ hk'
          rw [h1, h3] at heq
          have := (head_eq_of_append_eq heq).1
          exact hdisj x h2 w h4 this
        have hall : ((Kc ++ Kw) ++ ((bareWords (ex (ctxAt parent prev row rc rest))).map (fun x => pre ++ [x]) ++ Kr)).Nodup := by
          rw [List.nodup_append]
          refine ⟨ihc, hBR, ?_⟩
          intro k hk k' hk' heq
          obtain ⟨t, h1, _⟩ := formC _ hk
          rcases List.mem_append.mp hk' with hk' | hk'
          · obtain ⟨x, h3, h4⟩ := formB _ hk'
            rw [h1, h3] at heq
            have := (head_eq_of_append_eq heq).1
            rw [← this] at h4
            exact hrow (List.mem_append_left _ h4)
          · obtain ⟨w, tail, h3, h4⟩ := formR _ hk'
            rw [h1, h3] at heq
            have := (head_eq_of_append_eq heq).1
            rw [← this] at h4
            exact hrow (List.mem_append_right _ h4)
        simpa [List.append_assoc] using hall
end

/-- structural `NoDupPaths` ⇒ no block path is shown twice -/
theorem noDupPaths_nodup (ex : FCtx → List Mark) (hex : ∀ cx, ExitOk (ex cx)) (pt : PT) (h : NoDupPaths ex pt) :
    ∃ sp, shownPaths ex pt = .ok sp ∧ (sp.map (·.1)).Nodup := by
  refine ⟨_, shownPaths_eq_flat ex hex pt, ?_⟩
  have := nodup_flatTree ex pt none [] [] h
  simpa using this

end Annet.Format.Lemmas
