/-
Helper lemmas for C14 (streams with errors; "error before any line").
-/
import AnnetModel.Spec.Rpl

namespace Annet.Rpl.Lemmas
open Annet.Rpl Annet.Rpl.Spec

/-! ### streams -/

@[simp] theorem emit_fst {α : Type} (l : List α) : (emit l).1 = l := rfl
@[simp] theorem emit_snd {α : Type} (l : List α) : (emit l).2 = none := rfl
@[simp] theorem fail_fst {α : Type} (e : Err) : (fail e : Out α).1 = [] := rfl
@[simp] theorem fail_snd {α : Type} (e : Err) : (fail e : Out α).2 = some e := rfl

@[simp] theorem emit_seq {α : Type} (l : List α) (b : Out α) : (emit l).seq b = (l ++ b.1, b.2) := rfl
@[simp] theorem fail_seq {α : Type} (e : Err) (b : Out α) : (fail e).seq b = fail e := rfl

theorem seq_of_none {α : Type} (a b : Out α) (h : a.2 = none) : a.seq b = (a.1 ++ b.1, b.2) := by
  unfold Out.seq; rw [h]

theorem seq_of_some {α : Type} (a b : Out α) (e : Err) (h : a.2 = some e) : a.seq b = a := by
  unfold Out.seq; rw [h]

@[simp] theorem raiseIf_true {α : Type} (e : Err) : (raiseIf true e : Out α) = fail e := rfl
@[simp] theorem raiseIf_false {α : Type} (e : Err) : (raiseIf false e : Out α) = emit [] := rfl

theorem ebl_fail {α : Type} (e : Err) : ErrorBeforeLines (fail e : Out α) := by
  intro _ _; rfl

theorem ebl_emit {α : Type} (l : List α) : ErrorBeforeLines (emit l) := by
  intro e he; simp at he

theorem ebl_of_no_err {α : Type} (o : Out α) (h : o.2 = none) : ErrorBeforeLines o := by
  intro e he; rw [h] at he; cases he

theorem ebl_of_no_rows {α : Type} (o : Out α) (h : o.1 = []) : ErrorBeforeLines o := by
  intro _ _; exact h

theorem ebl_mapRows {α β : Type} (f : α → β) (o : Out α) (h : ErrorBeforeLines o) : ErrorBeforeLines (o.mapRows f) := by
  intro e he
  have := h e he
  simp [Out.mapRows, this]

/-- the stream of a sequence: rows of the elements that completed, then the rows of the failing one -/
theorem seqAll_cons {α : Type} (o : Out α) (os : List (Out α)) : seqAll (o :: os) = o.seq (seqAll os) := rfl

theorem seqAll_no_err {α : Type} (os : List (Out α)) (h : ∀ o ∈ os, o.2 = none) :
    seqAll os = (os.flatMap (·.1), none) := by
  induction os with
  | nil => rfl
  | cons o os ih =>
    have ho := h o (by simp)
    rw [seqAll_cons, seq_of_none _ _ ho, ih (fun x hx => h x (by simp [hx]))]
    simp

/-- if every element keeps "error before lines", the rows of a run are exactly the rows of the elements that
completed before the first failing element -/
theorem seqAll_completed {α : Type} (os : List (Out α)) (h : ∀ o ∈ os, ErrorBeforeLines o) :
    (seqAll os).1 = completedRows os := by
  induction os with
  | nil => rfl
  | cons o os ih =>
    rw [seqAll_cons]
    unfold completedRows
    cases ho : o.2 with
    | none =>
      rw [seq_of_none _ _ ho]
      simp [ih (fun x hx => h x (by simp [hx]))]
    | some e =>
      rw [seq_of_some _ _ e ho]
      exact h o (by simp) e ho

theorem seqAll_err_mem {α : Type} (os : List (Out α)) (e : Err) (h : (seqAll os).2 = some e) :
    ∃ o ∈ os, o.2 = some e := by
  induction os with
  | nil => simp [seqAll] at h
  | cons o os ih =>
    rw [seqAll_cons] at h
    cases ho : o.2 with
    | none =>
      rw [seq_of_none _ _ ho] at h
      obtain ⟨x, hx, hxe⟩ := ih h
      exact ⟨x, by simp [hx], hxe⟩
    | some e' =>
      rw [seq_of_some _ _ e' ho] at h
      exact ⟨o, by simp, h⟩

/-- rows of a run come from its elements -/
theorem seqAll_rows_mem {α : Type} (os : List (Out α)) (x : α) (h : x ∈ (seqAll os).1) :
    ∃ o ∈ os, x ∈ o.1 := by
  induction os with
  | nil => simp [seqAll] at h
  | cons o os ih =>
    rw [seqAll_cons] at h
    cases ho : o.2 with
    | none =>
      rw [seq_of_none _ _ ho] at h
      simp at h
      rcases h with h | h
      · exact ⟨o, by simp, h⟩
      · obtain ⟨y, hy, hxy⟩ := ih h
        exact ⟨y, by simp [hy], hxy⟩
    | some e' =>
      rw [seq_of_some _ _ e' ho] at h
      exact ⟨o, by simp, h⟩

theorem seqAll_ok_all {α : Type} (os : List (Out α)) (h : (seqAll os).2 = none) : ∀ o ∈ os, o.2 = none := by
  induction os with
  | nil => simp
  | cons o os ih =>
    rw [seqAll_cons] at h
    cases ho : o.2 with
    | none =>
      rw [seq_of_none _ _ ho] at h
      intro x hx
      simp at hx
      rcases hx with rfl | hx
      · exact ho
      · exact ih h x hx
    | some e' =>
      rw [seq_of_some _ _ e' ho] at h
      rw [ho] at h; cases h

theorem seqAll_ok_rows {α : Type} (os : List (Out α)) (h : (seqAll os).2 = none) :
    (seqAll os).1 = os.flatMap (·.1) := by
  rw [seqAll_no_err os (seqAll_ok_all os h)]

/-! ### lookups under "names known" -/

theorem membersOf_known (cl : List CommList) (ns : List Str) (h : ns.all (known cl) = true) :
    ∃ ms, membersOf cl ns = .ok ms := by
  induction ns with
  | nil => exact ⟨[], rfl⟩
  | cons n ns ih =>
    simp only [List.all_cons, Bool.and_eq_true] at h
    obtain ⟨ms, hms⟩ := ih h.2
    unfold known at h
    cases hg : getComm cl n with
    | none => simp [hg] at h
    | some c => exact ⟨c.members ++ ms, by simp [membersOf, hg, hms]⟩

theorem seqAll_map_no_err {α β : Type} (l : List β) (f : β → Out α) (h : ∀ x ∈ l, (f x).2 = none) :
    (seqAll (l.map f)).2 = none := by
  rw [seqAll_no_err]
  intro o ho
  simp only [List.mem_map] at ho
  obtain ⟨x, hx, rfl⟩ := ho
  exact h x hx

theorem all_append_known {cl : List CommList} {a b : List Str} (h : (a ++ b).all (known cl) = true) :
    a.all (known cl) = true ∧ b.all (known cl) = true := by
  simpa [List.all_append] using h

theorem membersOf_known' (cl : List CommList) (ns : List Str) (h : ns.all (known cl) = true) (e : Err) :
    membersOf cl ns ≠ .error e := by
  obtain ⟨ms, h⟩ := membersOf_known cl ns h
  simp [h]

/-- the three name lists of a community action are known -/
theorem names_known_split {cl : List CommList} {c : CommAct} (hk : (CommAct.names c).all (known cl) = true) :
    (c.replaced.getD []).all (known cl) = true ∧ c.added.all (known cl) = true ∧ c.removed.all (known cl) = true := by
  unfold CommAct.names at hk
  obtain ⟨hk1, hk3⟩ := all_append_known hk
  obtain ⟨hk1, hk2⟩ := all_append_known hk1
  exact ⟨hk1, hk2, hk3⟩

theorem groupAdd_keys (acc : List (CType × List Str)) (t : CType) (ms : List Str) (g : CType × List Str)
    (hg : g ∈ groupAdd acc t ms) : g.1 = t ∨ ∃ g' ∈ acc, g'.1 = g.1 := by
  unfold groupAdd at hg
  split at hg
  · simp only [List.mem_map] at hg
    obtain ⟨x, hx, hxe⟩ := hg
    split at hxe
    · subst hxe; right; exact ⟨x, hx, rfl⟩
    · subst hxe; right; exact ⟨x, hx, rfl⟩
  · simp only [List.mem_append, List.mem_singleton] at hg
    rcases hg with hg | hg
    · right; exact ⟨g, hg, rfl⟩
    · left; rw [hg]

/-- grouping lists whose types are all in `ts` succeeds and yields only groups of those types -/
theorem groupMembers_types (cl : List CommList) (ts : List CType) (ns : List Str) :
    ∀ acc : List (CType × List Str), (∀ g ∈ acc, g.1 ∈ ts) → typesIn cl ts ns = true →
      ∃ gs, groupMembers cl ns acc = .ok gs ∧ ∀ g ∈ gs, g.1 ∈ ts := by
  induction ns with
  | nil => intro acc hacc _; exact ⟨acc, rfl, hacc⟩
  | cons n ns ih =>
    intro acc hacc ht
    unfold typesIn at ht
    simp only [List.all_cons, Bool.and_eq_true] at ht
    obtain ⟨h1, h2⟩ := ht
    cases hg : getComm cl n with
    | none => simp [hg] at h1
    | some c =>
      simp only [hg] at h1
      have hc : c.type ∈ ts := by simpa using h1
      have hacc' : ∀ g ∈ groupAdd acc c.type c.members, g.1 ∈ ts := by
        intro g hgm
        rcases groupAdd_keys acc c.type c.members g hgm with h | ⟨g', hg', he⟩
        · rw [h]; exact hc
        · rw [← he]; exact hacc g' hg'
      obtain ⟨gs, hgs, hall⟩ := ih (groupAdd acc c.type c.members) hacc' (by unfold typesIn; exact h2)
      exact ⟨gs, by simp [groupMembers, hg, hgs], hall⟩

/-! ### "error before any line", Huawei actions (policy.py:175-377) -/

theorem ebl_thenCommunityH (cl : List CommList) (c : CommAct) (hk : (CommAct.names c).all (known cl) = true) :
    ErrorBeforeLines (thenCommunityH cl c) := by
  obtain ⟨hk1, hk2, _⟩ := names_known_split hk
  have h2 := membersOf_known' cl _ hk2
  intro e he
  unfold thenCommunityH at he ⊢
  cases hr : c.replaced with
  | none =>
    simp only [hr] at he ⊢
    (repeat' split at he) <;> simp_all
  | some r =>
    simp only [hr, Option.getD_some] at he hk1 ⊢
    have h1 := membersOf_known' cl _ hk1
    (repeat' split at he) <;> simp_all

theorem ebl_thenLargeH (cl : List CommList) (c : CommAct) (hk : (CommAct.names c).all (known cl) = true) :
    ErrorBeforeLines (thenLargeH cl c) := by
  obtain ⟨hk1, hk2, hk3⟩ := names_known_split hk
  have h2 := membersOf_known' cl _ hk2
  have h3 := membersOf_known' cl _ hk3
  intro e he
  unfold thenLargeH at he ⊢
  cases hr : c.replaced with
  | none =>
    simp only [hr] at he ⊢
    (repeat' split at he) <;> simp_all
  | some r =>
    simp only [hr, Option.getD_some] at he hk1 ⊢
    have h1 := membersOf_known' cl _ hk1
    (repeat' split at he) <;> simp_all

theorem ebl_thenExtRtH (cl : List CommList) (c : CommAct) (hk : (CommAct.names c).all (known cl) = true) :
    ErrorBeforeLines (thenExtRtH cl c) := by
  obtain ⟨_, hk2, _⟩ := names_known_split hk
  have h2 := membersOf_known' cl _ hk2
  intro e he
  unfold thenExtRtH at he ⊢
  (repeat' split at he) <;> simp_all

theorem ebl_thenExtSooH (cl : List CommList) (c : CommAct) : ErrorBeforeLines (thenExtSooH cl c) := by
  intro e he
  unfold thenExtSooH at he ⊢
  cases hr : c.replaced.isSome <;> cases hrm : c.removed.isEmpty <;> simp_all
  all_goals ((repeat' split at he) <;> simp_all)

theorem ebl_thenAsPathH (p : AsPathAct) : ErrorBeforeLines (thenAsPathH p) := by
  intro e he
  unfold thenAsPathH at he ⊢
  cases hset : p.set <;> cases hp : p.prepend.isEmpty <;> cases hx : p.expand.isEmpty <;>
    cases hl : p.expandLastAs.isEmpty <;> simp_all
  all_goals ((repeat' split at he) <;> simp_all)

theorem ebl_allOrNothing {α : Type} (o : Out α) : ErrorBeforeLines (allOrNothing o) := by
  intro e he
  unfold allOrNothing at he ⊢
  cases ho : o.2 with
  | some e' => rfl
  | none => simp [ho] at he

theorem ebl_thenExtH (cl : List CommList) (c : CommAct) : ErrorBeforeLines (thenExtH cl c) := by
  unfold thenExtH
  split
  · exact ebl_fail _
  · exact ebl_allOrNothing _

theorem ebl_thenGenericH (a : Action) : ErrorBeforeLines (thenGenericH a) := by
  intro e he
  unfold thenGenericH at he ⊢
  (repeat' split at he) <;> simp_all

/-- `_huawei_then`: an action whose lists exist either yields its rows or raises before any of them -/
theorem ebl_thenH (cl : List CommList) (a : Action) (hk : actNamesKnown cl a = true) :
    ErrorBeforeLines (thenH cl a) := by
  unfold thenH
  unfold actNamesKnown at hk
  cases hf : a.field <;> cases hv : a.val <;> simp only [hf, hv] at hk ⊢
  all_goals first
    | exact ebl_fail _
    | exact ebl_thenCommunityH cl _ hk
    | exact ebl_thenLargeH cl _ hk
    | exact ebl_thenExtRtH cl _ hk
    | exact ebl_thenExtSooH cl _
    | exact ebl_thenExtH cl _
    | exact ebl_thenAsPathH _
    | exact ebl_thenGenericH a
    | (unfold thenNextHopRowsH; (repeat' split) <;> first | exact ebl_emit _ | exact ebl_fail _)
    | (simp only [scalarOf]; (repeat' split) <;> first | exact ebl_emit _ | exact ebl_fail _)

/-! ### "error before any line", Arista actions (policy.py:519-756) -/

theorem ebl_thenCommunityA (cl : List CommList) (c : CommAct) (hk : (CommAct.names c).all (known cl) = true) :
    ErrorBeforeLines (thenCommunityA cl c) := by
  obtain ⟨_, _, hk3⟩ := names_known_split hk
  have h3 := membersOf_known' cl _ hk3
  intro e he
  unfold thenCommunityA at he ⊢
  cases hr : c.replaced with
  | none =>
    simp only [hr] at he ⊢
    (repeat' split at he) <;> simp_all
  | some r =>
    simp only [hr] at he ⊢
    (repeat' split at he) <;> simp_all

theorem ebl_thenLargeA (c : CommAct) : ErrorBeforeLines (thenLargeA c) := by
  intro e he
  unfold thenLargeA at he ⊢
  cases hr : c.replaced with
  | none =>
    simp only [hr] at he ⊢
    (repeat' split at he) <;> simp_all
  | some r =>
    simp only [hr] at he ⊢
    (repeat' split at he) <;> simp_all

/-- holds unconditionally: both rows are built from `removed`, so the second lookup cannot fail after the first -/
theorem ebl_thenExtRtSooA (cl : List CommList) (pre : Str) (dh : List Str) (c : CommAct) :
    ErrorBeforeLines (thenExtRtSooA cl pre dh c) := by
  intro e he
  unfold thenExtRtSooA at he ⊢
  cases hm : membersOf cl c.removed <;> simp only [hm] at he ⊢ <;> (repeat' split at he) <;> simp_all

theorem renderExtA_types (cl : List CommList) (ns : List Str) (h : typesIn cl [.rt, .soo] ns = true) :
    ∃ ms, renderExtA cl ns = .ok ms := by
  induction ns with
  | nil => exact ⟨[], rfl⟩
  | cons n ns ih =>
    unfold typesIn at h
    simp only [List.all_cons, Bool.and_eq_true] at h
    obtain ⟨h1, h2⟩ := h
    obtain ⟨ms, hms⟩ := ih (by unfold typesIn; exact h2)
    cases hg : getComm cl n with
    | none => simp [hg] at h1
    | some c =>
      simp only [hg] at h1
      have hc : c.type = .rt ∨ c.type = .soo := by simpa using h1
      rcases hc with hc | hc <;> simp [renderExtA, hg, hc, extTypeStr, hms]

theorem ebl_thenExtA (cl : List CommList) (c : CommAct)
    (hs : (c.replaced.isSome || c.added.isEmpty || c.removed.isEmpty || typesIn cl [.rt, .soo] c.removed) = true) :
    ErrorBeforeLines (thenExtA cl c) := by
  intro e he
  unfold thenExtA at he ⊢
  cases hr : c.replaced with
  | some r =>
    simp only [hr] at he ⊢
    (repeat' split at he) <;> simp_all
  | none =>
    simp only [hr] at he hs ⊢
    cases ha : c.added.isEmpty <;> cases hrm : c.removed.isEmpty <;> simp [ha, hrm] at he hs ⊢
    · obtain ⟨ms, hms⟩ := renderExtA_types cl _ hs
      simp only [hms] at he ⊢
      (repeat' split at he) <;> simp_all
    · (repeat' split at he) <;> simp_all
    · (repeat' split at he) <;> simp_all

theorem ebl_thenAsPathA (p : AsPathAct) : ErrorBeforeLines (thenAsPathA p) := by
  intro e he
  unfold thenAsPathA at he ⊢
  cases hset : p.set <;> cases hp : p.prepend.isEmpty <;> cases hx : p.expand.isEmpty <;>
    cases hl : p.delete.isEmpty <;> simp_all
  all_goals ((repeat' split at he) <;> simp_all)

theorem ebl_thenNextHopRowsA (n : NextHop) : ErrorBeforeLines (thenNextHopRowsA n) := by
  unfold thenNextHopRowsA
  (repeat' split) <;> first | exact ebl_emit _ | exact ebl_fail _

/-- `_arista_then`: for the shapes of `safeActA`, an action either yields its rows or raises before any of them -/
theorem ebl_thenA (cl : List CommList) (a : Action) (hk : actNamesKnown cl a = true) (hs : safeActA cl a = true) :
    ErrorBeforeLines (thenA cl a) := by
  unfold thenA
  unfold actNamesKnown at hk
  unfold safeActA at hs
  cases hf : a.field <;> cases hv : a.val <;> simp only [hf, hv] at hk hs ⊢
  all_goals first
    | exact ebl_fail _
    | exact ebl_thenCommunityA cl _ hk
    | exact ebl_thenLargeA _
    | exact ebl_thenExtRtSooA cl _ _ _
    | exact ebl_thenExtA cl _ hs
    | exact ebl_thenAsPathA _
    | exact ebl_thenNextHopRowsA _
    | (simp only [scalarOf]; (repeat' split) <;> first | exact ebl_emit _ | exact ebl_fail _)

/-! ### "error before any line", Cumulus actions (cumulus_frr.py:253-443) -/

theorem ebl_cumThenCommunity (cl : List CommList) (c : CommAct) (hk : (CommAct.names c).all (known cl) = true) :
    ErrorBeforeLines (cumThenCommunity cl c) := by
  obtain ⟨hk1, hk2, _⟩ := names_known_split hk
  have h2 := membersOf_known' cl _ hk2
  intro e he
  unfold cumThenCommunity at he ⊢
  cases hr : c.replaced with
  | none =>
    simp only [hr] at he ⊢
    (repeat' split at he) <;> simp_all
  | some r =>
    simp only [hr, Option.getD_some] at he hk1 ⊢
    have h1 := membersOf_known' cl _ hk1
    (repeat' split at he) <;> simp_all

theorem ebl_cumThenAddOnly (kind : Str) (c : CommAct) : ErrorBeforeLines (cumThenAddOnly kind c) := by
  intro e he
  unfold cumThenAddOnly at he ⊢
  cases hr : c.replaced.isSome <;> cases hrm : c.removed.isEmpty <;> simp_all

theorem ebl_cumThenExt (cl : List CommList) (c : CommAct)
    (hs : (match c.replaced with
      | some r => !c.added.isEmpty || !c.removed.isEmpty || r.isEmpty || typesIn cl [.rt, .soo] r
      | none => true) = true) :
    ErrorBeforeLines (cumThenExt cl c) := by
  unfold cumThenExt
  cases hr : c.replaced with
  | none =>
    simp only [hr]
    apply ebl_of_no_rows
    cases ha : c.added.isEmpty <;> cases hrm : c.removed.isEmpty <;> simp [ha, hrm]
  | some r =>
    simp only [hr] at hs ⊢
    cases ha : c.added.isEmpty <;> cases hrm : c.removed.isEmpty <;> simp [ha, hrm] at hs ⊢
    · exact ebl_fail _
    · exact ebl_fail _
    · exact ebl_fail _
    · rcases hs with hs | hs
      · simp [hs]; exact ebl_emit _
      · cases hre : r.isEmpty
        · obtain ⟨gs, hgs, hall⟩ := groupMembers_types cl [.rt, .soo] r [] (by simp) hs
          simp at hre
          simp only [hre, if_false, hgs]
          apply ebl_of_no_err
          have hno := seqAll_map_no_err gs cumExtGroup (by
            intro g hg
            have := hall g hg
            obtain ⟨t, ms⟩ := g
            simp at this
            rcases this with rfl | rfl <;> simp [cumExtGroup, extTypeStr])
          rw [seq_of_none _ _ hno]
          all_goals simp
        · simp at hre
          simp [hre]; exact ebl_emit _

theorem snd_seq_none {α : Type} (a b : Out α) (ha : a.2 = none) (hb : b.2 = none) : (a.seq b).2 = none := by
  unfold Out.seq; rw [ha]; exact hb

theorem ebl_raiseIf_seq {α : Type} (c : Bool) (e : Err) (r : Out α) (hr : r.2 = none) :
    ErrorBeforeLines ((raiseIf c e).seq r) := by
  cases c
  · intro e' he
    have : ((raiseIf false e : Out α).seq r).2 = none := snd_seq_none _ _ rfl hr
    rw [this] at he; cases he
  · intro _ _; rfl

theorem ebl_cumThenAsPath (p : AsPathAct) : ErrorBeforeLines (cumThenAsPath p) := by
  unfold cumThenAsPath
  exact ebl_raiseIf_seq _ _ _ (snd_seq_none _ _ rfl (snd_seq_none _ _ rfl
    (snd_seq_none _ _ (by split <;> rfl) (by split <;> rfl))))

theorem ebl_cumThenNextHop (n : NextHop) : ErrorBeforeLines (cumThenNextHop n) := by
  unfold cumThenNextHop
  (repeat' split) <;> first | exact ebl_emit _ | exact ebl_fail _

/-- `_cumulus_policy_then`: for the shapes of `safeActC` -/
theorem ebl_cumThen (cl : List CommList) (a : Action) (hk : actNamesKnown cl a = true) (hs : safeActC cl a = true) :
    ErrorBeforeLines (cumThen cl a) := by
  unfold cumThen
  unfold actNamesKnown at hk
  unfold safeActC at hs
  cases hf : a.field <;> cases hv : a.val <;> simp only [hf, hv] at hk hs ⊢
  all_goals first
    | exact ebl_fail _
    | exact ebl_cumThenCommunity cl _ hk
    | exact ebl_cumThenAddOnly _ _
    | exact ebl_cumThenExt cl _ hs
    | exact ebl_cumThenAsPath _
    | exact ebl_cumThenNextHop _
    | (simp only [scalarOf]; (repeat' split) <;> first | exact ebl_emit _ | exact ebl_fail _)

/-! ### "error before any line", conditions (policy.py:89-173, 428-517; cumulus_frr.py:212-251) -/

theorem getPrefix_known (pls : List PrefixList) (n : Str) (a b : Option Str) (h : (getPl pls n).isSome = true) :
    ∃ pl, getPrefix pls n a b = .ok pl := by
  unfold getPrefix
  cases hg : getPl pls n with
  | none => simp [hg] at h
  | some orig => simp only; split <;> exact ⟨_, rfl⟩

theorem pfxRows_no_err (pls : List PrefixList) (mk : Str → List Str) (a b : Option Str) (names : List Str)
    (h : names.all (fun n => (getPl pls n).isSome) = true) : (pfxRows pls mk a b names).2 = none := by
  induction names with
  | nil => rfl
  | cons n ns ih =>
    simp only [List.all_cons, Bool.and_eq_true] at h
    obtain ⟨pl, hpl⟩ := getPrefix_known pls n a b h.1
    simp [pfxRows, hpl, ih h.2]

theorem extRtRowH_no_err (cl : List CommList) (n : Str) (h : known cl n = true) : (extRtRowH cl n).2 = none := by
  unfold known at h
  unfold extRtRowH
  cases hg : getComm cl n with
  | none => simp [hg] at h
  | some c => simp only; split <;> rfl

theorem ebl_asPathLenH (c : Cond) : ErrorBeforeLines (asPathLenH c) := by
  unfold asPathLenH
  split <;> first | exact ebl_emit _ | exact ebl_fail _

theorem ebl_asPathLenA (c : Cond) : ErrorBeforeLines (asPathLenA c) := by
  unfold asPathLenA
  split <;> first | exact ebl_emit _ | exact ebl_fail _

/-- `_huawei_match`: every condition whose names exist either yields its rows or raises before any of them -/
theorem ebl_matchH (inp : Input) (c : Cond) (hk : condNamesKnown inp c = true) : ErrorBeforeLines (matchH inp c) := by
  unfold matchH
  unfold condNamesKnown at hk
  cases hf : c.field <;> cases hv : c.val <;> simp only [hf, hv] at hk ⊢
  all_goals first
    | exact ebl_fail _
    | exact ebl_asPathLenH c
    | exact ebl_of_no_err _ (pfxRows_no_err _ _ _ _ _ hk)
    | ((repeat' split) <;> first | exact ebl_emit _ | exact ebl_fail _)
    | skip
  -- extcommunity_rt: one lookup per name
  · (repeat' split) <;> first
      | exact ebl_fail _
      | exact ebl_of_no_err _ (seqAll_map_no_err _ _ (fun n hn => extRtRowH_no_err _ n (List.all_eq_true.mp hk n hn)))

/-- `_arista_match` -/
theorem ebl_matchA (inp : Input) (c : Cond) (hk : condNamesKnown inp c = true) : ErrorBeforeLines (matchA inp c) := by
  unfold matchA
  unfold condNamesKnown at hk
  cases hf : c.field <;> cases hv : c.val <;> simp only [hf, hv, matchCommA] at hk ⊢
  all_goals first
    | exact ebl_fail _
    | exact ebl_asPathLenA c
    | exact ebl_of_no_err _ (pfxRows_no_err _ _ _ _ _ hk)
    | ((repeat' split) <;> first | exact ebl_emit _ | exact ebl_fail _)

/-- `_cumulus_policy_match` -/
theorem ebl_cumMatch (inp : Input) (c : Cond) (hk : condNamesKnown inp c = true) :
    ErrorBeforeLines (cumMatch inp c) := by
  unfold cumMatch
  unfold condNamesKnown at hk
  cases hf : c.field <;> cases hv : c.val <;> simp only [hf, hv, cumMatchComm] at hk ⊢
  all_goals first
    | exact ebl_fail _
    | exact ebl_emit _
    | exact ebl_of_no_err _ (pfxRows_no_err _ _ _ _ _ hk)
    | ((repeat' split) <;> first | exact ebl_emit _ | exact ebl_fail _)

/-! ### the stream of a statement -/

theorem seq_assoc {α : Type} (a b c : Out α) : (a.seq b).seq c = a.seq (b.seq c) := by
  obtain ⟨a1, a2⟩ := a
  obtain ⟨b1, b2⟩ := b
  obtain ⟨c1, c2⟩ := c
  cases a2 <;> cases b2 <;> simp [Out.seq]

theorem seq_emit_nil {α : Type} (a : Out α) : a.seq (emit []) = a := by
  cases ha : a.2 with
  | some e => rw [seq_of_some a _ e ha]
  | none =>
    rw [seq_of_none a _ ha]
    simp only [emit_fst, List.append_nil, emit_snd]
    rw [← ha]

theorem seqAll_append {α : Type} (xs ys : List (Out α)) : seqAll (xs ++ ys) = (seqAll xs).seq (seqAll ys) := by
  induction xs with
  | nil =>
    show seqAll ys = (emit []).seq (seqAll ys)
    simp
  | cons x xs ih => rw [List.cons_append, seqAll_cons, seqAll_cons, ih, seq_assoc]

theorem seqAll_singleton {α : Type} (o : Out α) : seqAll [o] = o := by
  rw [seqAll_cons]; exact seq_emit_nil o

/-- the exception of a run is the exception of its first failing element -/
theorem seqAll_firstErr {α : Type} (os : List (Out α)) : (seqAll os).2 = firstErr os := by
  induction os with
  | nil => rfl
  | cons o os ih =>
    rw [seqAll_cons]
    unfold firstErr
    cases ho : o.2 with
    | none => rw [seq_of_none _ _ ho]; exact ih
    | some e => rw [seq_of_some _ _ e ho]; exact ho

/-- if every element keeps "error before any line", a run is: the rows of the elements that completed, and the
exception of the first failing element (which contributed no row) -/
theorem seqAll_clean {α : Type} (os : List (Out α)) (h : ∀ o ∈ os, ErrorBeforeLines o) :
    seqAll os = (completedRows os, firstErr os) := by
  rw [← seqAll_completed os h, ← seqAll_firstErr os]

theorem statementH_eq (inp : Input) (p : Policy) (st : Stmt) (num res : Str) (hn : st.number = some num)
    (hr : resultWord st.result = some res) :
    statementH inp p st = inBlock [s "route-policy", p.name, res, s "node", num] (seqAll (stmtElemsH inp st)) := by
  unfold statementH stmtElemsH
  simp only [hn, hr]
  rw [seqAll_append, seqAll_append, seqAll_singleton, seq_assoc]

theorem statementA_eq (inp : Input) (p : Policy) (st : Stmt) (num res : Str) (hn : st.number = some num)
    (hr : resultWord st.result = some res) :
    statementA inp p st = inBlock [s "route-map", p.name, res, num] (seqAll (stmtElemsA inp st)) := by
  unfold statementA stmtElemsA
  simp only [hn, hr]
  rw [seqAll_append, seqAll_append, seqAll_singleton, seq_assoc]

theorem inBlock_eq (header : List Str) (body : Out (List Str)) :
    inBlock header body = (Line.mk [] header :: body.1.map (Line.mk [joinSp header]), body.2) := by
  unfold inBlock
  simp [Out.mapRows]

theorem ebl_trailer (b : Bool) (row : List Str) : ErrorBeforeLines (if b then emit [row] else emit []) := by
  split <;> exact ebl_emit _



theorem mapRows_seq {α β : Type} (f : α → β) (a b : Out α) : (a.seq b).mapRows f = (a.mapRows f).seq (b.mapRows f) := by
  obtain ⟨a1, a2⟩ := a
  obtain ⟨b1, b2⟩ := b
  cases a2 <;> simp [Out.seq, Out.mapRows]

theorem mapRows_seqAll {α β : Type} (f : α → β) (os : List (Out α)) :
    (seqAll os).mapRows f = seqAll (os.map (·.mapRows f)) := by
  induction os with
  | nil => rfl
  | cons o os ih => rw [seqAll_cons, mapRows_seq, ih]; rfl

theorem completedRows_map {α β : Type} (f : α → β) (os : List (Out α)) :
    completedRows (os.map (·.mapRows f)) = (completedRows os).map f := by
  induction os with
  | nil => rfl
  | cons o os ih =>
    simp only [List.map_cons, completedRows]
    have hm : (o.mapRows f).2 = o.2 := rfl
    have hm1 : (o.mapRows f).1 = o.1.map f := rfl
    rw [hm]
    cases ho : o.2 with
    | none => simp only [hm1, ih, List.map_append]
    | some e => rfl

theorem firstErr_map {α β : Type} (f : α → β) (os : List (Out α)) :
    firstErr (os.map (·.mapRows f)) = firstErr os := by
  induction os with
  | nil => rfl
  | cons o os ih =>
    simp only [List.map_cons, firstErr]
    have hm : (o.mapRows f).2 = o.2 := rfl
    rw [hm]
    cases ho : o.2 with
    | none => exact ih
    | some e => rfl

/-- the stream of a Cumulus statement whose elements keep "error before any line": the `route-map` row, the rows of
the elements that completed (behind `FRR_INDENT`), and — only if nothing raised — `on-match next` and `!` -/
theorem cumStatement_clean (inp : Input) (p : Policy) (st : Stmt) (num res : Str)
    (hr : resultWord st.result = some res) (h : ∀ o ∈ stmtElemsC inp st, ErrorBeforeLines o) :
    cumStatement inp p st num =
      ([s "route-map", p.name, res, num] :: (completedRows (stmtElemsC inp st)).map indentRow ++
         (match firstErr (stmtElemsC inp st) with
          | none => (if st.result == .next then [indentRow [s "on-match next"]] else []) ++ [[s "!"]]
          | some _ => []),
       firstErr (stmtElemsC inp st)) := by
  unfold cumStatement
  simp only [hr]
  rw [← seq_assoc ((seqAll (st.conds.map (cumMatch inp))).mapRows indentRow), ← mapRows_seq, ← seqAll_append,
    mapRows_seqAll]
  have hel : st.conds.map (cumMatch inp) ++ st.acts.map (cumThen inp.clists) = stmtElemsC inp st := rfl
  rw [hel]
  have hebl : ∀ o ∈ (stmtElemsC inp st).map (·.mapRows indentRow), ErrorBeforeLines o := by
    intro o ho
    simp only [List.mem_map] at ho
    obtain ⟨x, hx, rfl⟩ := ho
    exact ebl_mapRows _ _ (h x hx)
  rw [seqAll_clean _ hebl, completedRows_map, firstErr_map]
  cases hfe : firstErr (stmtElemsC inp st) with
  | some e => simp [Out.seq]
  | none =>
    by_cases hn : (st.result == Result.next) = true <;> simp [Out.seq, hn]


end Annet.Rpl.Lemmas
