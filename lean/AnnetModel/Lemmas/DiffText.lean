/-
Lemmas for the text views of a diff (C03, last clause).  Statements are fixed by Props/C03.lean.
Helpers: Lemmas/DiffTextBase.lean (the reader of `formatter.diff`, `build` inverts the preorder listing),
Lemmas/DiffTextPre.lean (the `annet diff` view: `make_pre` only regroups the entries).
-/
import AnnetModel.Spec.DiffText
import AnnetModel.Lemmas.DiffTextBase
import AnnetModel.Lemmas.DiffTextPre

namespace Annet.DiffText
open Annet.Rules Annet.Diff Annet.Patch

/-- reading `formatter.diff(d)` back gives `d` -/
theorem diff_text_roundtrip (f : Fmt) (d : List SItem) (hf : FmtOK f) (hd : RowsOK f d) :
    parseSigned f (diffText f d) = some d := by
  simp only [parseSigned, diffText, readLines_linesList f hf 0 d hd, build_flat]

/-- hence the text determines the entries -/
theorem diff_text_injective (f : Fmt) (d1 d2 : List SItem) (hf : FmtOK f)
    (h1 : RowsOK f d1) (h2 : RowsOK f d2) (h : diffText f d1 = diffText f d2) : d1 = d2 := by
  have e1 := diff_text_roundtrip f d1 hf h1
  have e2 := diff_text_roundtrip f d2 hf h2
  rw [h, e2] at e1
  exact (Option.some.inj e1).symm

mutual
  theorem signedItem_stripItem : ∀ i : DItem, i.op ≠ .unchanged → ∃ x, signedItem (stripItem i) = some x
    | .mk op row ch m, h => by
      obtain ⟨cs, hcs⟩ := signedList_stripUnchanged ch
      simp only [DItem.op] at h
      cases op <;> simp [stripItem, signedItem, signOfOp, hcs] at h ⊢
  theorem signedList_stripUnchanged : ∀ d : List DItem, ∃ s, signedList (stripUnchanged d) = some s
    | [] => ⟨[], by simp [stripUnchanged, signedList]⟩
    | i :: rest => by
      obtain ⟨xs, hxs⟩ := signedList_stripUnchanged rest
      by_cases h : i.op = .unchanged
      · exact ⟨xs, by simp [stripUnchanged, h, hxs]⟩
      · obtain ⟨x, hx⟩ := signedItem_stripItem i h
        exact ⟨x :: xs, by simp [stripUnchanged, h, signedList, hx, hxs]⟩
end

/-- a stripped diff has a sign for every entry (`sign_map[flag]` never raises KeyError on it) -/
theorem stripped_has_signs (d : List DItem) : ∃ s, signedList (stripUnchanged d) = some s :=
  signedList_stripUnchanged d

/-- formatters without marks (Huawei, Cisco, Arista, Nexus, B4com, ...): a row only has to not begin with the indent unit -/
theorem rowOK_plain (ind row : Txt) (b : Bool) (h : ¬ ind <+: row) :
    RowOK ⟨ind, [], [], []⟩ b row := by
  refine ⟨?_, ?_, ?_⟩
  · simpa [suffixOf] using h
  · intro hne; exact absurd rfl hne
  · simp [suffixOf, stripBody, stripSuffix]

/-- reading `gen_pre_as_diff(make_pre(d))` back gives `d`, per level as a multiset -/
theorem pre_text_roundtrip (k : Nat) (hk : 0 < k) (d : List DItem) (s : List SItem)
    (hs : signedList d = some s) (hb : NoLeadBlank s) :
    ∃ p, parsePre k (preText (List.replicate k ' ') d) = some p ∧ SPermv p s := by
  have hp : SPermv (forestPre (makePre d)) s := by
    have := makePreAcc_spermv d s [] wfr_nil hs
    simpa [makePre, forestPre, forestRules] using this
  refine ⟨forestPre (makePre d), ?_, hp⟩
  exact parsePre_preLines k hk (makePre d) ((noLeadBlank_spermv hp).mpr hb)

/-! ### corollaries for concrete formatters -/

/-- the Junos-like formatter: four blanks, ` {` … `}`, `;` -/
def junosFmt : Fmt := ⟨"    ".toList, " {".toList, "}".toList, ";".toList⟩

/-- the formatters without marks, indent of two blanks -/
def plainFmt : Fmt := ⟨"  ".toList, [], [], []⟩

theorem fmtOK_junos : FmtOK junosFmt := by unfold FmtOK; decide

theorem fmtOK_plain : FmtOK plainFmt := by unfold FmtOK; decide

/-- under the Junos-like formatter the only thing that can go wrong is a printed body that begins with the
indent unit: the block-end test and the suffix stripping never fail (rows ending in `;` or ` {` included,
since the reader strips at most one mark, the one the printer appended) -/
theorem rowOK_junos_iff (b : Bool) (row : Txt) :
    RowOK junosFmt b row ↔ ¬ junosFmt.indent <+: row ++ suffixOf junosFmt b := by
  constructor
  · exact fun h => h.1
  · intro h
    refine ⟨h, ?_, ?_⟩
    · intro _ he
      have := congrArg List.getLast? he
      cases b <;> simp [junosFmt, suffixOf] at this
    · cases b
      · have h1 : stripSuffix junosFmt.blockBegin (row ++ junosFmt.stmtEnd) = none := by
          simp [stripSuffix, junosFmt, List.isSuffixOf, List.isPrefixOf]
        have h2 : stripSuffix junosFmt.stmtEnd (row ++ junosFmt.stmtEnd) = some row := by
          simp [stripSuffix, junosFmt]
        simp [stripBody, suffixOf, h1, h2]
      · have h1 : stripSuffix junosFmt.blockBegin (row ++ junosFmt.blockBegin) = some row := by
          simp [stripSuffix, junosFmt]
        simp [stripBody, suffixOf, h1]

/-- a simple sufficient condition: the row does not begin with a blank (the empty row is fine) -/
theorem rowOK_junos (b : Bool) (row : Txt) (h : row.head? ≠ some ' ') : RowOK junosFmt b row := by
  rw [rowOK_junos_iff]
  cases row with
  | nil => cases b <;> simp [junosFmt, suffixOf]
  | cons c t =>
    have hc : c ≠ ' ' := by simpa using h
    simp [junosFmt, List.cons_prefix_cons, Ne.symm hc]

/-! ### non-vacuity: the hypotheses of the round trip hold for concrete nested diffs -/

mutual
  theorem rowsOKItem_junos : ∀ i : SItem, NoLeadBlankItem i → RowsOKItem junosFmt i
    | .mk _ row ch, h => by
      simp only [NoLeadBlankItem] at h
      simp only [RowsOKItem]
      exact ⟨rowOK_junos _ row h.1, rowsOK_junos ch h.2⟩
  /-- for the Junos-like formatter the hypothesis of the `annet diff` view suffices: no row begins with a blank -/
  theorem rowsOK_junos : ∀ d : List SItem, NoLeadBlank d → RowsOK junosFmt d
    | [], _ => by simp [RowsOK]
    | i :: rest, h => by
      simp only [NoLeadBlank] at h
      simp only [RowsOK]
      exact ⟨rowsOKItem_junos i h.1, rowsOK_junos rest h.2⟩
end

mutual
  theorem rowsOKItem_plain : ∀ i : SItem, NoLeadBlankItem i → RowsOKItem plainFmt i
    | .mk _ row ch, h => by
      simp only [NoLeadBlankItem] at h
      simp only [RowsOKItem]
      refine ⟨rowOK_plain _ row _ ?_, rowsOK_plain ch h.2⟩
      cases row with
      | nil => simp
      | cons c t =>
        have hc : c ≠ ' ' := by simpa using h.1
        simp [List.cons_prefix_cons, Ne.symm hc]
  /-- likewise for the formatters without marks (indent of two blanks) -/
  theorem rowsOK_plain : ∀ d : List SItem, NoLeadBlank d → RowsOK plainFmt d
    | [], _ => by simp [RowsOK]
    | i :: rest, h => by
      simp only [NoLeadBlank] at h
      simp only [RowsOK]
      exact ⟨rowsOKItem_plain i h.1, rowsOK_plain rest h.2⟩
end

/-- depth 3, seven entries, all four signs; rows containing blanks, `/`, a trailing `;` and a trailing ` {` -/
def exForest : List SItem :=
  [ .mk .space "interfaces".toList
      [ .mk .space "ge-0/0/0".toList [ .mk .minus "mtu 1500".toList [], .mk .plus "mtu 9000".toList [] ],
        .mk .gt "lo0".toList [ .mk .plus "unit 0 {".toList [] ] ],
    .mk .minus "system;".toList [] ]

example : FmtOK junosFmt ∧ RowsOK junosFmt exForest := by
  refine ⟨fmtOK_junos, rowsOK_junos _ ?_⟩
  simp [exForest, NoLeadBlank, NoLeadBlankItem]

/-- the same without the corollary: `RowOK` is decidable row by row -/
example : RowsOK junosFmt exForest := by
  simp only [exForest, RowsOK, RowsOKItem, RowOK, and_true]
  decide

example : FmtOK plainFmt ∧ RowsOK plainFmt exForest := by
  refine ⟨fmtOK_plain, ?_⟩
  simp only [exForest, RowsOK, RowsOKItem, RowOK, and_true]
  decide

example : NoLeadBlank exForest := by
  simp [exForest, NoLeadBlank, NoLeadBlankItem]

/-- what the operator sees (Junos-like), and that reading it back returns the entries -/
example : diffText junosFmt exForest =
    [ "  interfaces {".toList,
      "      ge-0/0/0 {".toList,
      "-         mtu 1500;".toList,
      "+         mtu 9000;".toList,
      "      }".toList,
      ">     lo0 {".toList,
      "+         unit 0 {;".toList,
      ">     }".toList,
      "  }".toList,
      "- system;;".toList ] := by decide

example : parseSigned junosFmt (diffText junosFmt exForest) = some exForest :=
  diff_text_roundtrip junosFmt exForest fmtOK_junos (by
    simp only [exForest, RowsOK, RowsOKItem, RowOK, and_true]; decide)

example : parseSigned plainFmt (diffText plainFmt exForest) = some exForest :=
  diff_text_roundtrip plainFmt exForest fmtOK_plain
    (by simp [exForest, RowsOK, RowsOKItem, plainFmt, rowOK_plain])

/-- the hypothesis `RowOK` is not void: a row that begins with the indent unit is read one level too deep -/
example : ¬ RowOK plainFmt false "  x".toList := by
  simp only [RowOK]; decide

example : parseSigned plainFmt (diffText plainFmt [.mk .plus "a".toList [], .mk .plus "  x".toList []]) =
    some [.mk .plus "a".toList [.mk .plus "x".toList []]] := by rfl

/-! ### non-vacuity of the `annet diff` round trip -/

def exM (raw : String) (key : List String) : PMatch := ⟨raw, key, default⟩

def exDiff : List DItem :=
  [ .mk .removed "vlan 10" [] (exM "vlan *" ["10"]),
    .mk .affected "interface ge1" [ .mk .added "mtu 9000" [] (exM "mtu *" ["9000"]),
                                    .mk .removed "mtu 1500" [] (exM "mtu *" ["1500"]),
                                    .mk .moved "description x" [] (exM "description *" ["x"]) ]
      (exM "interface *" ["ge1"]),
    .mk .added "vlan 20" [] (exM "vlan *" ["20"]) ]

def exSigned : List SItem :=
  [ .mk .minus "vlan 10".toList [],
    .mk .space "interface ge1".toList
      [ .mk .plus "mtu 9000".toList [], .mk .minus "mtu 1500".toList [], .mk .gt "description x".toList [] ],
    .mk .plus "vlan 20".toList [] ]

example : signedList exDiff = some exSigned ∧ NoLeadBlank exSigned := by
  refine ⟨by rfl, ?_⟩
  simp [exSigned, NoLeadBlank, NoLeadBlankItem]

/-- `make_pre` regroups by rule: `vlan 20` is printed before `interface ge1`; the reading is `exSigned` up to that -/
example : (preText (List.replicate 2 ' ') exDiff) =
    [ "- vlan 10".toList, "+ vlan 20".toList, "  interface ge1".toList, "+   mtu 9000".toList,
      "-   mtu 1500".toList, ">   description x".toList ] := by decide

end Annet.DiffText
