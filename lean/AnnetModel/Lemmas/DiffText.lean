/-
Lemmas for the text views of a diff (C03, last clause).  Statements are fixed by Props/C03.lean.
-/
import AnnetModel.Spec.DiffText

namespace Annet.DiffText
open Annet.Diff Annet.Patch

/-- reading `formatter.diff(d)` back gives `d` -/
theorem diff_text_roundtrip (f : Fmt) (d : List SItem) (hf : FmtOK f) (hd : RowsOK f d) :
    parseSigned f (diffText f d) = some d := by
  sorry

/-- hence the text determines the entries -/
theorem diff_text_injective (f : Fmt) (d1 d2 : List SItem) (hf : FmtOK f)
    (h1 : RowsOK f d1) (h2 : RowsOK f d2) (h : diffText f d1 = diffText f d2) : d1 = d2 := by
  sorry

/-- a stripped diff has a sign for every entry (`sign_map[flag]` never raises KeyError on it) -/
theorem stripped_has_signs (d : List DItem) : ∃ s, signedList (stripUnchanged d) = some s := by
  sorry

/-- formatters without marks (Huawei, Cisco, Arista, Nexus, B4com, ...): a row only has to not begin with the indent unit -/
theorem rowOK_plain (ind row : Txt) (b : Bool) (h : ¬ ind <+: row) :
    RowOK ⟨ind, [], [], []⟩ b row := by
  sorry

/-- reading `gen_pre_as_diff(make_pre(d))` back gives `d`, per level as a multiset -/
theorem pre_text_roundtrip (k : Nat) (hk : 0 < k) (d : List DItem) (s : List SItem)
    (hs : signedList d = some s) (hb : NoLeadBlank s) :
    ∃ p, parsePre k (preText (List.replicate k ' ') d) = some p ∧ SPermv p s := by
  sorry

end Annet.DiffText
