/-
Lemmas about `collapse_diffs` (`Model/Collapse.lean`): the groups partition the devices, all members of a group have
the text of the group's first device, and — through the text round trip of `Spec/DiffText.lean` — the same diff.
-/
import AnnetModel.Model.Collapse
import AnnetModel.Lemmas.DiffTextStrict

namespace Annet.Collapse

/-! ### helpers -/

theorem insertSorted_perm {δ : Type} (x : Entry δ) (l : List (Entry δ)) : (insertSorted x l).Perm (x :: l) := by
  induction l with
  | nil => exact List.Perm.refl _
  | cons y ys ih =>
    simp only [insertSorted]
    split
    · exact (List.Perm.cons y ih).trans (List.Perm.swap x y ys)
    · exact List.Perm.refl _

/-- the three ways `groupRuns (x :: xs)` is built from `groupRuns xs` -/
theorem groupRuns_cons_cases {δ : Type} (x : Entry δ) (xs : List (Entry δ)) :
    (groupRuns xs = [] ∧ groupRuns (x :: xs) = [[x]]) ∨
    (∃ y g gs, groupRuns xs = (y :: g) :: gs ∧ x.key = y.key ∧ groupRuns (x :: xs) = (x :: y :: g) :: gs) ∨
    (∃ y g gs, groupRuns xs = (y :: g) :: gs ∧ x.key ≠ y.key ∧ groupRuns (x :: xs) = [x] :: (y :: g) :: gs) ∨
    (∃ gs, groupRuns xs = [] :: gs ∧ groupRuns (x :: xs) = [[x]]) := by
  cases h : groupRuns xs with
  | nil => left; exact ⟨rfl, by simp [groupRuns, h]⟩
  | cons g0 gs =>
    cases g0 with
    | nil => right; right; right; exact ⟨gs, rfl, by simp [groupRuns, h]⟩
    | cons y g =>
      by_cases hk : x.key = y.key
      · right; left; exact ⟨y, g, gs, rfl, hk, by simp [groupRuns, h, hk]⟩
      · right; right; left; exact ⟨y, g, gs, rfl, hk, by simp [groupRuns, h, hk]⟩

/-- sorting only permutes -/
theorem sortEntries_perm {δ : Type} (es : List (Entry δ)) : (sortEntries es).Perm es := by
  induction es with
  | nil => exact List.Perm.refl _
  | cons x xs ih =>
    have : sortEntries (x :: xs) = insertSorted x (sortEntries xs) := rfl
    rw [this]
    exact (insertSorted_perm x _).trans (List.Perm.cons x ih)

/-- no group is empty -/
theorem groupRuns_ne_nil {δ : Type} (l : List (Entry δ)) : ∀ g ∈ groupRuns l, g ≠ [] := by
  induction l with
  | nil => intro g hg; simp [groupRuns] at hg
  | cons x xs ih =>
    rcases groupRuns_cons_cases x xs with ⟨_, h2⟩ | ⟨y, g, gs, h1, _, h2⟩ | ⟨y, g, gs, h1, _, h2⟩ | ⟨gs, _, h2⟩
    · rw [h2]; intro g hg; simp at hg; simp [hg]
    · rw [h2]; intro g' hg
      rcases List.mem_cons.1 hg with rfl | hg
      · simp
      · exact ih g' (by rw [h1]; exact List.mem_cons_of_mem _ hg)
    · rw [h2]; intro g' hg
      rcases List.mem_cons.1 hg with rfl | hg
      · simp
      · exact ih g' (by rw [h1]; exact hg)
    · rw [h2]; intro g hg; simp at hg; simp [hg]

/-- the cases that really occur -/
theorem groupRuns_cons_cases' {δ : Type} (x : Entry δ) (xs : List (Entry δ)) :
    (groupRuns xs = [] ∧ groupRuns (x :: xs) = [[x]]) ∨
    (∃ y g gs, groupRuns xs = (y :: g) :: gs ∧ x.key = y.key ∧ groupRuns (x :: xs) = (x :: y :: g) :: gs) ∨
    (∃ y g gs, groupRuns xs = (y :: g) :: gs ∧ x.key ≠ y.key ∧ groupRuns (x :: xs) = [x] :: (y :: g) :: gs) := by
  rcases groupRuns_cons_cases x xs with h | h | h | ⟨gs, h1, _⟩
  · exact Or.inl h
  · exact Or.inr (Or.inl h)
  · exact Or.inr (Or.inr h)
  · exact absurd rfl (groupRuns_ne_nil xs [] (by rw [h1]; exact List.mem_cons_self))

/-- grouping only cuts the list into pieces -/
theorem groupRuns_flatten {δ : Type} (l : List (Entry δ)) : (groupRuns l).flatten = l := by
  induction l with
  | nil => simp [groupRuns]
  | cons x xs ih =>
    rcases groupRuns_cons_cases' x xs with ⟨h1, h2⟩ | ⟨y, g, gs, h1, _, h2⟩ | ⟨y, g, gs, h1, _, h2⟩
    · rw [h1] at ih; rw [h2]; simpa using ih
    · rw [h1] at ih; rw [h2]; simpa using ih
    · rw [h1] at ih; rw [h2]; simpa using ih

/-- all members of a group have the key of its first member -/
theorem groupRuns_same_key {δ : Type} (l : List (Entry δ)) :
    ∀ g ∈ groupRuns l, ∀ x ∈ g, ∀ y ∈ g, x.key = y.key := by
  induction l with
  | nil => intro g hg; simp [groupRuns] at hg
  | cons x xs ih =>
    rcases groupRuns_cons_cases' x xs with ⟨h1, h2⟩ | ⟨y, g, gs, h1, hk, h2⟩ | ⟨y, g, gs, h1, hk, h2⟩
    · rw [h2]; intro g hg a ha b hb
      simp at hg; subst hg; simp at ha hb; rw [ha, hb]
    · rw [h2]; rw [h1] at ih; intro g' hg a ha b hb
      rcases List.mem_cons.1 hg with rfl | hg
      · have hy : ∀ c ∈ x :: y :: g, c.key = y.key := by
          intro c hc
          rcases List.mem_cons.1 hc with rfl | hc
          · exact hk
          · exact ih (y :: g) List.mem_cons_self c hc y List.mem_cons_self
        rw [hy a ha, hy b hb]
      · exact ih g' (List.mem_cons_of_mem _ hg) a ha b hb
    · rw [h2]; rw [h1] at ih; intro g' hg a ha b hb
      rcases List.mem_cons.1 hg with rfl | hg
      · simp at ha hb; rw [ha, hb]
      · exact ih g' hg a ha b hb

/-- `groupRuns_maximal`, with `getElem?` (easier to rewrite) -/
theorem groupRuns_maximal' {δ : Type} (l : List (Entry δ)) :
    ∀ i a b, (groupRuns l)[i]? = some a → (groupRuns l)[i + 1]? = some b →
      ∀ x ∈ a.getLast?, ∀ y ∈ b.head?, x.key ≠ y.key := by
  induction l with
  | nil => intro i a b ha; simp [groupRuns] at ha
  | cons x xs ih =>
    rcases groupRuns_cons_cases' x xs with ⟨h1, h2⟩ | ⟨y, g, gs, h1, hk, h2⟩ | ⟨y, g, gs, h1, hk, h2⟩
    · rw [h2]; intro i a b _ hb; simp at hb
    · rw [h2]; rw [h1] at ih; intro i a b ha hb
      cases i with
      | zero =>
        simp at ha hb
        subst ha
        intro u hu v hv
        refine ih 0 (y :: g) b (by simp) (by simpa using hb) u ?_ v hv
        simpa [List.getLast?_cons_cons] using hu
      | succ j =>
        simp at ha hb
        exact ih (j + 1) a b (by simpa using ha) (by simpa using hb)
    · rw [h2]; rw [h1] at ih; intro i a b ha hb
      cases i with
      | zero =>
        simp at ha hb
        subst ha; subst hb
        intro u hu v hv
        simp at hu hv
        subst hu; subst hv
        exact hk
      | succ j =>
        simp only [List.getElem?_cons_succ] at ha hb
        exact ih j a b ha hb

/-- consecutive groups have different keys (runs are maximal) -/
theorem groupRuns_maximal {δ : Type} (l : List (Entry δ)) :
    ∀ i (h : i + 1 < (groupRuns l).length),
      ∀ x ∈ ((groupRuns l)[i]'(by omega)).getLast?, ∀ y ∈ ((groupRuns l)[i + 1]'h).head?, x.key ≠ y.key := by
  intro i h
  exact groupRuns_maximal' l i _ _ (List.getElem?_eq_getElem (by omega)) (List.getElem?_eq_getElem h)

/-- THE PARTITION: every device is in exactly one group (as a multiset, the groups are the input) -/
theorem groups_perm {δ : Type} (es : List (Entry δ)) : (groups es).flatten.Perm es := by
  unfold groups
  rw [groupRuns_flatten]
  exact sortEntries_perm es

theorem groups_same_key {δ : Type} (es : List (Entry δ)) :
    ∀ g ∈ groups es, ∀ x ∈ g, ∀ y ∈ g, x.key = y.key :=
  groupRuns_same_key (sortEntries es)

theorem collapse_flatMap_aux {δ : Type} (F : List (Entry δ) → Option (List Txt × δ))
    (hF : ∀ x t, F (x :: t) = some ((x :: t).map (·.dev), x.diff))
    (L : List (List (Entry δ))) (hL : ∀ g ∈ L, g ≠ []) :
    ((L.filterMap F).flatMap (·.1)) = L.flatten.map (·.dev) := by
  induction L with
  | nil => rfl
  | cons g gs ih =>
    have ih' := ih (fun g' hg' => hL g' (List.mem_cons_of_mem _ hg'))
    cases g with
    | nil => exact absurd rfl (hL [] List.mem_cons_self)
    | cons x t =>
      simp only [List.filterMap_cons, hF, List.flatMap_cons, List.flatten_cons, List.map_append, ih']

/-- the device names of `collapse`, concatenated, are the device names of the input up to order -/
theorem collapse_devices_perm {δ : Type} (es : List (Entry δ)) :
    ((collapse es).flatMap (·.1)).Perm (es.map (·.dev)) := by
  unfold collapse
  rw [collapse_flatMap_aux _ (fun _ _ => rfl) (groups es) (groupRuns_ne_nil (sortEntries es))]
  exact (groups_perm es).map _

/-- what is shown for a group is the diff of one of its members, and every member has the same text as that one -/
theorem collapse_group_spec {δ : Type} (es : List (Entry δ)) :
    ∀ p ∈ collapse es, ∃ g ∈ groups es, ∃ r ∈ g, p.1 = g.map (·.dev) ∧ p.2 = r.diff ∧ ∀ x ∈ g, x.key = r.key := by
  intro p hp
  unfold collapse at hp
  obtain ⟨g, hg, hgp⟩ := List.mem_filterMap.1 hp
  cases g with
  | nil => simp at hgp
  | cons r t =>
    simp only [Option.some.injEq] at hgp
    subst hgp
    exact ⟨r :: t, hg, r, List.mem_cons_self, rfl, rfl,
      fun x hx => groups_same_key es (r :: t) hg x hx r List.mem_cons_self⟩

open Annet.DiffText in
/-- FAITHFULNESS: when the text compared is the rendered diff itself (no line masked), every device of a group has
exactly the diff shown for the group: same entries, same signs, same nesting. -/
theorem collapse_faithful (f : Fmt) (hf : FmtOK f) (es : List (Entry (List SItem)))
    (hk : ∀ e ∈ es, e.key = diffText f e.diff ∧ RowsOK f e.diff) :
    ∀ p ∈ collapse es, ∃ g ∈ groups es, p.1 = g.map (·.dev) ∧ ∀ x ∈ g, x ∈ es ∧ x.diff = p.2 := by
  intro p hp
  obtain ⟨g, hg, r, hr, h1, h2, h3⟩ := collapse_group_spec es p hp
  have hmem : ∀ x ∈ g, x ∈ es := fun x hx =>
    (groups_perm es).mem_iff.1 (List.mem_flatten.2 ⟨g, hg, hx⟩)
  refine ⟨g, hg, h1, fun x hx => ⟨hmem x hx, ?_⟩⟩
  rw [h2]
  obtain ⟨kx, ox⟩ := hk x (hmem x hx)
  obtain ⟨kr, or'⟩ := hk r (hmem r hr)
  exact diff_text_injective f x.diff r.diff hf ox or' (by rw [← kx, ← kr]; exact h3 x hx)

end Annet.Collapse
