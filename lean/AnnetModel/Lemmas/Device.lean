/-
Helper lemmas for C01: one level of the specification device refines a finite map slot ↦ line.

`sameSlot` is `slotOf … == some (rule, key)` (`sameSlot_eq`; `matchRow` stays opaque).  Under `WF` the slot
images of a level are `Nodup`, so a slot has at most one holder (`inj_of_nodup_map`, `holder_of_mem`) and
`replaceFirst … false` replaces exactly that line in place (`rf_false_cons_holder`, `rf_false_map`,
`rf_false_find`).  `put_keeps_same_line` and `leaf_preserves_others` do not need `WF`.
-/
import AnnetModel.Spec.DeviceAbs

namespace Annet.Device.Lemmas
open Annet Annet.Rules Annet.Device Annet.Device.Abs

theorem inj_of_nodup_map {α β} (f : α → β) : (l : List α) → (l.map f).Nodup →
    ∀ x ∈ l, ∀ y ∈ l, f x = f y → x = y
  | [], _, _, hx, _, _, _ => by cases hx
  | a :: l, hn, x, hx, y, hy, hxy => by
    simp only [List.map_cons, List.nodup_cons] at hn
    rcases List.mem_cons.1 hx with hx1 | hx1 <;> rcases List.mem_cons.1 hy with hy1 | hy1
    · rw [hx1, hy1]
    · subst hx1; exact (hn.1 (hxy ▸ List.mem_map_of_mem hy1)).elim
    · subst hy1; exact (hn.1 (hxy ▸ List.mem_map_of_mem hx1)).elim
    · exact inj_of_nodup_map f l hn.2 x hx1 y hy1 hxy

theorem find?_congr' {α} {p q : α → Bool} : (l : List α) → (∀ x ∈ l, p x = q x) → l.find? p = l.find? q
  | [], _ => rfl
  | a :: l, h => by
    simp only [List.find?_cons, h a (List.mem_cons_self ..)]
    rw [find?_congr' l (fun x hx => h x (List.mem_cons_of_mem _ hx))]

theorem nodup_of_nodup_map {α β} (f : α → β) : (l : List α) → (l.map f).Nodup → l.Nodup
  | [], _ => List.nodup_nil
  | a :: l, hn => by
    simp only [List.map_cons, List.nodup_cons] at hn ⊢
    exact ⟨fun h => hn.1 (List.mem_map_of_mem h), nodup_of_nodup_map f l hn.2⟩

theorem sameSlot_eq (rules : PRules) (m : PMatch) (row : String) :
    sameSlot rules m row = (slotOf rules row == some (m.rawRule, m.key)) := by
  unfold sameSlot slotOf
  cases classify rules row with
  | none => simp
  | some mc =>
    obtain ⟨m', cr⟩ := mc
    rw [Bool.eq_iff_iff]; simp

theorem holder_of_mem {rules : PRules} {kids : List (String × Cfg)} (hwf : WF rules kids)
    {e : String × Cfg} (he : e ∈ kids) {s : Slot} (hs : slotOf rules e.1 = some s) :
    holder rules kids s = some e.1 := by
  unfold holder
  cases hf : kids.find? (fun e => slotOf rules e.1 == some s) with
  | none =>
    rw [List.find?_eq_none] at hf
    have := hf e he
    simp [hs] at this
  | some e' =>
    have h1 := List.find?_some hf
    have h2 := List.mem_of_find?_eq_some hf
    have : e' = e := inj_of_nodup_map _ kids hwf.2 e' h2 e he (by simp at h1; rw [h1, hs])
    simp [this]

theorem execLeaf_put (env : Env) (rules : PRules) (c : String) (kids : List (String × Cfg))
    {m : PMatch} {cr : PRules} (hcl : classify rules c = some (m, cr))
    (hne : ¬ env.exits.contains c = true)
    (hnr : ((stripReverse env c).bind fun r' => slotOf rules r') = none) :
    execLeaf env rules c kids = putLine rules m c kids := by
  have h : ((stripReverse env c).bind fun r' => (classify rules r').map fun mc => mc.1) = none := by
    cases hs : stripReverse env c with
    | none => rfl
    | some r' =>
      rw [hs] at hnr
      simp [slotOf] at hnr ⊢
      exact hnr
  unfold execLeaf
  rw [if_neg hne, h]
  simp only [hcl]

theorem rf_true (rules : PRules) (m : PMatch) (c : String) : (l : List (String × Cfg)) →
    replaceFirst rules m c true l = l.filter (fun e => !sameSlot rules m e.1)
  | [] => by simp [replaceFirst]
  | e :: rest => by
    rw [replaceFirst, rf_true rules m c rest]
    cases h : sameSlot rules m e.1 <;> simp [h]


theorem wf_iff (rules : PRules) (l : List (String × Cfg)) :
    WF rules l ↔ (∀ o ∈ l.map (fun e => slotOf rules e.1), o.isSome = true) ∧
      (l.map fun e => slotOf rules e.1).Nodup := by
  unfold WF
  constructor
  · rintro ⟨h1, h2⟩
    refine ⟨fun o ho => ?_, h2⟩
    obtain ⟨e, he, rfl⟩ := List.mem_map.1 ho
    exact h1 e he
  · rintro ⟨h1, h2⟩
    exact ⟨fun e he => h1 _ (List.mem_map_of_mem (f := fun e => slotOf rules e.1) he), h2⟩

theorem wf_of_map_eq {rules : PRules} {a b : List (String × Cfg)}
    (h : b.map (fun e => slotOf rules e.1) = a.map (fun e => slotOf rules e.1)) (hwf : WF rules a) :
    WF rules b := by
  rw [wf_iff] at hwf ⊢; rw [h]; exact hwf

theorem wf_filter {rules : PRules} {kids : List (String × Cfg)} (p : String × Cfg → Bool)
    (hwf : WF rules kids) : WF rules (kids.filter p) :=
  ⟨fun e he => hwf.1 e (List.mem_filter.1 he).1, hwf.2.sublist (List.filter_sublist.map _)⟩

theorem filter_noholder {rules : PRules} {m : PMatch} {l : List (String × Cfg)}
    (h : ∀ e ∈ l, sameSlot rules m e.1 = false) : l.filter (fun e => !sameSlot rules m e.1) = l := by
  rw [List.filter_eq_self]; intro e he; simp [h e he]

/-- under `Nodup` the first holder is the only one -/
theorem rf_false_cons_holder (rules : PRules) (m : PMatch) (c : String) (e : String × Cfg)
    (rest : List (String × Cfg)) (hn : ((e :: rest).map fun e => slotOf rules e.1).Nodup)
    (h : sameSlot rules m e.1 = true) :
    replaceFirst rules m c false (e :: rest) = (c, .mk []) :: rest := by
  simp only [List.map_cons, List.nodup_cons] at hn
  have hrest : ∀ x ∈ rest, sameSlot rules m x.1 = false := by
    intro x hx
    cases hx' : sameSlot rules m x.1 with
    | false => rfl
    | true =>
      rw [sameSlot_eq, beq_iff_eq] at h hx'
      exact (hn.1 (by rw [h, ← hx']; exact List.mem_map_of_mem (f := fun e => slotOf rules e.1) hx)).elim
  rw [replaceFirst]
  simp [h, rf_true, filter_noholder hrest]

theorem rf_false_map (rules : PRules) (m : PMatch) (c : String)
    (hc : slotOf rules c = some (m.rawRule, m.key)) :
    (l : List (String × Cfg)) → (l.map fun e => slotOf rules e.1).Nodup →
    (replaceFirst rules m c false l).map (fun e => slotOf rules e.1) = l.map (fun e => slotOf rules e.1)
  | [], _ => by simp [replaceFirst]
  | e :: rest, hn => by
    cases h : sameSlot rules m e.1 with
    | false =>
      simp only [List.map_cons, List.nodup_cons] at hn
      rw [replaceFirst]
      simp [h, rf_false_map rules m c hc rest hn.2]
    | true =>
      rw [rf_false_cons_holder rules m c e rest hn h]
      rw [sameSlot_eq, beq_iff_eq] at h
      simp [hc, h]

theorem rf_false_find (rules : PRules) (m : PMatch) (c : String)
    (hc : slotOf rules c = some (m.rawRule, m.key)) (s : Slot) :
    (l : List (String × Cfg)) → (l.map fun e => slotOf rules e.1).Nodup →
    l.any (fun e => sameSlot rules m e.1) = true →
    ((replaceFirst rules m c false l).find? (fun e => slotOf rules e.1 == some s)).map (·.1) =
      if slotOf rules c = some s then some c
      else (l.find? (fun e => slotOf rules e.1 == some s)).map (·.1)
  | [], _, ha => by simp at ha
  | e :: rest, hn, ha => by
    cases h : sameSlot rules m e.1 with
    | false =>
      have hn' := hn
      simp only [List.map_cons, List.nodup_cons] at hn'
      have ha' : rest.any (fun e => sameSlot rules m e.1) = true := by
        simpa [h] using ha
      have ih := rf_false_find rules m c hc s rest hn'.2 ha'
      rw [replaceFirst]
      simp only [h, Bool.false_eq_true, if_false, List.find?_cons]
      cases hp : (slotOf rules e.1 == some s) with
      | false => simpa using ih
      | true =>
        rw [beq_iff_eq] at hp
        rw [sameSlot_eq] at h
        have : ¬ slotOf rules c = some s := by
          intro hcs
          rw [hc] at hcs; rw [hp, hcs] at h; simp at h
        simp [this]
    | true =>
      rw [rf_false_cons_holder rules m c e rest hn h]
      rw [sameSlot_eq, beq_iff_eq] at h
      simp only [List.find?_cons, h, hc]
      by_cases hs : (m.rawRule, m.key) = s
      · simp [hs]
      · have : ((m.rawRule, m.key) == s) = false := by simpa using hs
        simp [hs, this]


theorem slotOf_of_classify {rules : PRules} {c : String} {m : PMatch} {cr : PRules}
    (hcl : classify rules c = some (m, cr)) : slotOf rules c = some (m.rawRule, m.key) := by
  simp [slotOf, hcl]

theorem putLine_refines (rules : PRules) (m : PMatch) (c : String) (kids : List (String × Cfg))
    (hwf : WF rules kids) (hc : slotOf rules c = some (m.rawRule, m.key)) :
    WF rules (putLine rules m c kids) ∧
    ∀ s, holder rules (putLine rules m c kids) s = absStep rules (holder rules kids) (.put c) s := by
  unfold putLine
  by_cases h1 : kids.any (fun e => e.1 == c) = true
  · rw [if_pos h1]
    obtain ⟨e0, he0, hec⟩ := List.any_eq_true.1 h1
    rw [beq_iff_eq] at hec
    have hall : kids.filter (fun e => e.1 == c || !sameSlot rules m e.1) = kids := by
      rw [List.filter_eq_self]
      intro e he
      cases hss : sameSlot rules m e.1 with
      | false => simp
      | true =>
        rw [sameSlot_eq, beq_iff_eq] at hss
        have : e = e0 := inj_of_nodup_map _ kids hwf.2 e he e0 he0 (by show slotOf rules e.1 = slotOf rules e0.1; rw [hss, hec, hc])
        simp [this, hec]
    rw [hall]
    refine ⟨hwf, fun s => ?_⟩
    simp only [absStep]
    split
    · next hs => rw [holder_of_mem hwf he0 (by rw [hec]; exact hs), hec]
    · rfl
  · rw [if_neg h1]
    by_cases h2 : kids.any (fun e => sameSlot rules m e.1) = true
    · rw [if_pos h2]
      exact ⟨wf_of_map_eq (rf_false_map rules m c hc kids hwf.2) hwf, fun s => by
        simp only [holder, absStep]; exact rf_false_find rules m c hc s kids hwf.2 h2⟩
    · rw [if_neg h2]
      have hno : ∀ e ∈ kids, slotOf rules e.1 ≠ some (m.rawRule, m.key) := by
        intro e he hs
        apply h2; rw [List.any_eq_true]; exact ⟨e, he, by rw [sameSlot_eq, hs]; simp⟩
      constructor
      · rw [wf_iff] at hwf ⊢
        simp only [List.map_append, List.map_cons, List.map_nil, hc]
        constructor
        · intro o ho
          rcases List.mem_append.1 ho with h | h
          · exact hwf.1 o h
          · simp at h; simp [h]
        · rw [List.nodup_append]
          refine ⟨hwf.2, by simp, ?_⟩
          intro a ha b hb
          simp at hb; subst hb
          obtain ⟨e, he, rfl⟩ := List.mem_map.1 ha
          exact hno e he
      · intro s
        simp only [holder, absStep, List.find?_append]
        by_cases hs : slotOf rules c = some s
        · rw [if_pos hs]
          have : kids.find? (fun e => slotOf rules e.1 == some s) = none := by
            rw [List.find?_eq_none]
            intro e he
            have := hno e he
            rw [← hc, hs] at this
            simpa using this
          simp [this, hs]
        · rw [if_neg hs]
          simp [hs]

/-- `put`: afterwards the slot of `c` is held by `c`, every other slot is held as before, and the level
stays well-formed. -/
theorem put_refines (env : Env) (rules : PRules) (c : String) (kids : List (String × Cfg))
    (hwf : WF rules kids) (hc : (slotOf rules c).isSome)
    (hne : ¬ env.exits.contains c = true)
    (hnr : ((stripReverse env c).bind fun r' => slotOf rules r') = none) :
    WF rules (execLeaf env rules c kids) ∧
    ∀ s, holder rules (execLeaf env rules c kids) s = absStep rules (holder rules kids) (.put c) s := by
  cases hcl : classify rules c with
  | none => simp [slotOf, hcl] at hc
  | some mc =>
    obtain ⟨m, cr⟩ := mc
    rw [execLeaf_put env rules c kids hcl hne hnr]
    exact putLine_refines rules m c kids hwf (slotOf_of_classify hcl)


/-- `reverse r'`: afterwards nobody holds the slot of `r'`, every other slot is held as before. -/
theorem del_refines (env : Env) (rules : PRules) (c r' : String) (kids : List (String × Cfg))
    (hwf : WF rules kids) (hne : ¬ env.exits.contains c = true)
    (hs : stripReverse env c = some r') (hr : (slotOf rules r').isSome) :
    WF rules (execLeaf env rules c kids) ∧
    ∀ s, holder rules (execLeaf env rules c kids) s = absStep rules (holder rules kids) (.del r') s := by
  cases hcl : classify rules r' with
  | none => simp [slotOf, hcl] at hr
  | some mc =>
    obtain ⟨m, cr⟩ := mc
    have hslot := slotOf_of_classify hcl
    have hex : execLeaf env rules c kids = kids.filter (fun e => !sameSlot rules m e.1) := by
      unfold execLeaf
      rw [if_neg hne, hs]
      simp [hcl]
    rw [hex]
    refine ⟨wf_filter _ hwf, fun s => ?_⟩
    simp only [holder, absStep, List.find?_filter, hslot]
    by_cases h : some (m.rawRule, m.key) = some s
    · rw [if_pos h]
      rw [Option.map_eq_none_iff, List.find?_eq_none]
      intro e he
      rw [sameSlot_eq, h]
      simp
    · rw [if_neg h]
      congr 1
      apply find?_congr'
      intro e he
      rw [sameSlot_eq]
      cases hp : slotOf rules e.1 == some s with
      | false => simp
      | true =>
        rw [beq_iff_eq] at hp
        rw [hp]
        have : (some s == some (m.rawRule, m.key)) = false := by
          rw [beq_eq_false_iff_ne]; exact fun h' => h h'.symm
        simp [this]

/-- a block-exit word changes nothing -/
theorem exit_noop (env : Env) (rules : PRules) (c : String) (kids : List (String × Cfg))
    (h : env.exits.contains c = true) : execLeaf env rules c kids = kids := by
  unfold execLeaf
  rw [if_pos h]

set_option linter.unusedVariables false in
/-- a `put` keeps the subtree of a line that is already there with the same text -/
theorem put_keeps_same_line (env : Env) (rules : PRules) (c : String) (sub : Cfg) (kids : List (String × Cfg))
    (hwf : WF rules kids) (hc : (slotOf rules c).isSome) (hne : ¬ env.exits.contains c = true)
    (hnr : ((stripReverse env c).bind fun r' => slotOf rules r') = none) (hin : (c, sub) ∈ kids) :
    (c, sub) ∈ execLeaf env rules c kids := by
  cases hcl : classify rules c with
  | none => simp [slotOf, hcl] at hc
  | some mc =>
    obtain ⟨m, cr⟩ := mc
    rw [execLeaf_put env rules c kids hcl hne hnr]
    unfold putLine
    have h1 : kids.any (fun e => e.1 == c) = true := List.any_eq_true.2 ⟨_, hin, by simp⟩
    rw [if_pos h1, List.mem_filter]
    exact ⟨hin, by simp⟩

theorem rf_filter_other (rules : PRules) (m : PMatch) (c : String) (s : Slot)
    (hc : slotOf rules c ≠ some s) (hm : some (m.rawRule, m.key) ≠ some s) :
    (done : Bool) → (l : List (String × Cfg)) →
    (replaceFirst rules m c done l).filter (fun e => slotOf rules e.1 == some s) =
      l.filter (fun e => slotOf rules e.1 == some s)
  | _, [] => by simp [replaceFirst]
  | done, e :: rest => by
    rw [replaceFirst]
    have hcf : (slotOf rules c == some s) = false := by rw [beq_eq_false_iff_ne]; exact hc
    cases h : sameSlot rules m e.1 with
    | false =>
      simp only [Bool.false_eq_true, if_false, List.filter_cons,
        rf_filter_other rules m c s hc hm done rest]
    | true =>
      have he : (slotOf rules e.1 == some s) = false := by
        rw [sameSlot_eq, beq_iff_eq] at h
        rw [beq_eq_false_iff_ne, h]; exact hm
      cases done with
      | true => simp [he, rf_filter_other rules m c s hc hm true rest]
      | false => simp [he, hcf, rf_filter_other rules m c s hc hm true rest]

set_option linter.unusedVariables false in
/-- lines of other slots are untouched (with their subtrees, in their order) by any leaf command -/
theorem leaf_preserves_others (env : Env) (rules : PRules) (c : String) (kids : List (String × Cfg)) (s : Slot)
    (hwf : WF rules kids)
    (hother : slotOf rules c ≠ some s)
    (hother' : ∀ r', stripReverse env c = some r' → slotOf rules r' ≠ some s) :
    (execLeaf env rules c kids).filter (fun e => slotOf rules e.1 == some s) =
      kids.filter (fun e => slotOf rules e.1 == some s) := by
  have filt : ∀ (m : PMatch), some (m.rawRule, m.key) ≠ some s → ∀ e : String × Cfg,
      (slotOf rules e.1 == some s) = true → sameSlot rules m e.1 = false := by
    intro m hm e he
    rw [beq_iff_eq] at he
    rw [sameSlot_eq, he, beq_eq_false_iff_ne]
    exact fun h => hm h.symm
  unfold execLeaf
  split
  · rfl
  · split
    · next m heq =>
      obtain ⟨r', hr', hm⟩ := Option.bind_eq_some_iff.1 heq
      obtain ⟨mc, hmc, rfl⟩ := Option.map_eq_some_iff.1 hm
      have hm' : some (mc.1.rawRule, mc.1.key) ≠ some s := by
        have := hother' r' hr'
        rwa [slotOf_of_classify (m := mc.1) (cr := mc.2) hmc] at this
      rw [List.filter_filter]
      apply List.filter_congr
      intro e he
      cases hp : slotOf rules e.1 == some s with
      | false => simp
      | true => simp [filt mc.1 hm' e hp]
    · split
      · next m cr hcl =>
        have hm' : some (m.rawRule, m.key) ≠ some s := by
          rwa [slotOf_of_classify hcl] at hother
        unfold putLine
        split
        · rw [List.filter_filter]
          apply List.filter_congr
          intro e he
          cases hp : slotOf rules e.1 == some s with
          | false => simp
          | true => simp [filt m hm' e hp]
        · split
          · exact rf_filter_other rules m c s hother hm' false kids
          · have hcf : (slotOf rules c == some s) = false := by
              rw [beq_eq_false_iff_ne]; exact hother
            simp [List.filter_append, hcf]
      · rfl

/-- two well-formed levels with the same abstract map have the same lines up to order -/
theorem same_map_perm (rules : PRules) (a b : List (String × Cfg)) (ha : WF rules a) (hb : WF rules b)
    (h : ∀ s, holder rules a s = holder rules b s) : (a.map (·.1)).Perm (b.map (·.1)) := by
  have sub : ∀ a b : List (String × Cfg), WF rules a → WF rules b →
      (∀ s, holder rules a s = holder rules b s) → ∀ r, r ∈ a.map (·.1) → r ∈ b.map (·.1) := by
    intro a b ha hb h r hr
    obtain ⟨e, he, rfl⟩ := List.mem_map.1 hr
    obtain ⟨s, hs⟩ := Option.isSome_iff_exists.1 (ha.1 e he)
    have h2 := holder_of_mem ha he hs
    rw [h] at h2
    unfold holder at h2
    obtain ⟨e', he', heq⟩ := Option.map_eq_some_iff.1 h2
    rw [← heq]
    exact List.mem_map_of_mem (List.mem_of_find?_eq_some he')
  have nd : ∀ a : List (String × Cfg), WF rules a → (a.map (·.1)).Nodup := by
    intro a ha
    apply nodup_of_nodup_map (slotOf rules)
    rw [List.map_map]
    exact ha.2
  exact (List.perm_ext_iff_of_nodup (nd a ha) (nd b hb)).2
    fun r => ⟨sub a b ha hb h r, sub b a hb ha (fun s => (h s).symm) r⟩

end Annet.Device.Lemmas
