/-
C04 helper lemmas, part 6: whatever `parse_to_tree` returns for ANY text split by
`CommonFormatter.split` is a well-formed tree (rows are non-empty, stripped, no comments, no line
breaks; sibling rows distinct).  Hence every parsed device text is in the domain of the round trip.
-/
import AnnetModel.Spec.FormatSplit
import AnnetModel.Lemmas.Offside

namespace Annet.FormatSplit.Lemmas
open Annet Annet.Offside Annet.FormatSplit

/-! ### lines -/

theorem pw_splitNl_ne_nil (text : Str) : splitNl text ≠ [] := by
  cases text with
  | nil => simp [splitNl]
  | cons c cs =>
    simp only [splitNl]
    split
    · simp
    · split <;> simp

theorem pw_splitNl_noNl (text : Str) : ∀ l ∈ splitNl text, '\n' ∉ l := by
  induction text with
  | nil => intro l hl; simp [splitNl] at hl; subst hl; simp
  | cons c cs ih =>
    intro l hl
    simp only [splitNl] at hl
    split at hl
    · rcases List.mem_cons.mp hl with rfl | h
      · simp
      · exact ih l h
    · rename_i hc
      split at hl
      · rename_i l0 ls heq
        rw [heq] at ih
        rcases List.mem_cons.mp hl with rfl | h
        · have := ih l0 (by simp)
          intro hm
          rcases List.mem_cons.mp hm with h1 | h1
          · exact hc (by simp [← h1])
          · exact this h1
        · exact ih l (List.mem_cons_of_mem _ h)
      · simp at hl
        subst hl
        intro hm
        simp at hm
        exact hc (by simp [← hm])

/-! ### rows -/

theorem pw_strip_prefix (cs : List Char) : strip cs <+: lstrip cs := by
  unfold strip
  have h : lstrip (lstrip cs).reverse <:+ (lstrip cs).reverse := by
    unfold lstrip; exact List.dropWhile_suffix _
  have := List.reverse_prefix.mpr h
  simpa using this

theorem pw_lstrip_suffix (cs : List Char) : lstrip cs <:+ cs := by
  unfold lstrip; exact List.dropWhile_suffix _

theorem pw_strip_subset (cs : List Char) : ∀ c ∈ strip cs, c ∈ cs := by
  intro c hc
  exact (pw_lstrip_suffix cs).subset ((pw_strip_prefix cs).subset hc)

theorem pw_strip_head (cs : List Char) (c : Char) (t : List Char) (h : strip cs = c :: t) :
    pyIsSpace c = false := by
  obtain ⟨u, hu⟩ := pw_strip_prefix cs
  rw [h] at hu
  exact Offside.Lemmas.dropWhile_head_false pyIsSpace cs c (t ++ u) (by
    unfold lstrip at hu; rw [← hu]; simp)

theorem pw_strip_last (cs : List Char) : (strip cs).getLast?.any pyIsSpace = false := by
  unfold strip
  rw [List.getLast?_reverse]
  generalize hl : lstrip (lstrip cs).reverse = l
  cases l with
  | nil => simp
  | cons c t =>
    unfold lstrip at hl
    have := Offside.Lemmas.dropWhile_head_false pyIsSpace _ c t hl
    simp [this]

theorem pw_classify_good (cs : List Char) (k : Nat) (body : String) (hnl : '\n' ∉ cs)
    (h : classify comments (String.ofList cs) = .text k body) :
    rowBase body.toList = true := by
  unfold classify at h
  simp only [String.toList_ofList] at h
  split at h
  · cases h
  · split at h
    · cases h
    · rename_i h2
      injection h with _ hb
      subst hb
      simp only [String.toList_ofList]
      simp only [Bool.or_eq_true, not_or] at h2
      obtain ⟨hne, hcm⟩ := h2
      have hlast := pw_strip_last cs
      have hsub := pw_strip_subset cs
      generalize hs : strip cs = s at *
      cases s with
      | nil => simp at hne
      | cons c t =>
        have hhead := pw_strip_head cs c t hs
        have hnl' : '\n' ∉ c :: t := fun hm => hnl (hsub _ hm)
        have e1 : "!".toList = ['!'] := rfl
        have e2 : "#".toList = ['#'] := rfl
        simp only [comments, List.any_cons, List.any_nil, startsWith, e1, e2, Bool.or_false,
          Bool.or_eq_true, not_or] at hcm
        simp [List.isPrefixOf] at hcm
        unfold rowBase
        simp only [hlast, hhead]
        have h1 : c ≠ '!' := fun e => hcm.1 e.symm
        have h2 : c ≠ '#' := fun e => hcm.2 e.symm
        simp [h1, h2]
        simpa using hnl'

/-! ### stacks -/

theorem pw_run_good (P : String → Prop) (items : List Item)
    (hitems : ∀ k b, Item.text k b ∈ items → P b) :
    ∀ (st : St) (stack : List String) (n : Nat) (out : List (List String)),
      (∀ s ∈ stack, P s) → runItems items st stack n = .ok out → ∀ p ∈ out, ∀ s ∈ p, P s := by
  induction items with
  | nil =>
    intro st stack n out _ h
    simp [runItems] at h
    subst h
    simp
  | cons it rest ih =>
    have ih' := ih (fun k b hm => hitems k b (List.mem_cons_of_mem _ hm))
    intro st stack n out hstack h
    cases it with
    | blank =>
      simp only [runItems] at h
      exact ih' _ _ _ _ hstack h
    | sectionEnd =>
      simp only [runItems] at h
      exact ih' _ _ _ _ hstack h
    | text lvl body =>
      cases hst : stepText st lvl with
      | none =>
        rw [Offside.Lemmas.runItems_text_none hst] at h
        cases h
      | some r =>
        obtain ⟨st', depth⟩ := r
        rw [Offside.Lemmas.runItems_text_some hst] at h
        have hstack' : ∀ s ∈ restack stack depth body, P s := by
          intro s hs
          rw [Offside.Lemmas.restack_eq] at hs
          rcases List.mem_append.mp hs with h1 | h1
          · exact hstack s (List.mem_of_mem_take h1)
          · simp at h1
            subst h1
            exact hitems lvl _ (by simp)
        cases hr : runItems rest st' (restack stack depth body) (n + 1) with
        | error e => rw [hr] at h; cases h
        | ok out' =>
          rw [hr] at h
          have : out = restack stack depth body :: out' := by
            simp [Except.map] at h
            exact h.symm
          subst this
          intro p hp
          rcases List.mem_cons.mp hp with rfl | hp'
          · exact hstack'
          · exact ih' _ _ _ _ hstack' hr p hp'

/-! ### trees -/

theorem pw_any_map_key (g : String × Cfg → String × Cfg) (hg : ∀ e, (g e).1 = e.1) (k : String)
    (ks : List (String × Cfg)) :
    (ks.map g).any (fun e => e.1 == k) = ks.any (fun e => e.1 == k) := by
  induction ks with
  | nil => rfl
  | cons a r ih => simp only [List.map_cons, List.any_cons, hg, ih]

theorem pw_wfL_append (ok : String → Bool) (k : String) (c : Cfg) (hk : ok k = true)
    (hc : wf ok c = true) :
    ∀ ks : List (String × Cfg), wfL ok ks = true → Cfg.hasKey ks k = false →
      wfL ok (ks ++ [(k, c)]) = true := by
  intro ks
  induction ks with
  | nil => intro _ _; simp [wfL, hk, hc]
  | cons a r ih =>
    obtain ⟨k', c'⟩ := a
    intro h hn
    simp only [wfL, Bool.and_eq_true] at h
    simp only [Cfg.hasKey, List.any_cons, Bool.or_eq_false_iff] at hn
    obtain ⟨⟨⟨h1, h2⟩, h3⟩, h4⟩ := h
    have := ih h4 (by simpa [Cfg.hasKey] using hn.2)
    simp only [List.cons_append, wfL, Bool.and_eq_true, List.any_append]
    refine ⟨⟨⟨h1, ?_⟩, h3⟩, this⟩
    have hkk : (k == k') = false := by
      have := hn.1
      simp at this ⊢
      exact fun e => this e.symm
    simp only [List.any_cons, List.any_nil, hkk, Bool.or_false]
    exact h2

theorem pw_wfL_map (ok : String → Bool) (k : String) (f : Cfg → Cfg)
    (hf : ∀ c, wf ok c = true → wf ok (f c) = true) :
    ∀ ks : List (String × Cfg), wfL ok ks = true →
      wfL ok (ks.map fun p => if p.1 == k then (p.1, f p.2) else p) = true := by
  intro ks
  induction ks with
  | nil => intro _; simp [wfL]
  | cons a r ih =>
    obtain ⟨k', c'⟩ := a
    intro h
    simp only [wfL, Bool.and_eq_true] at h
    obtain ⟨⟨⟨h1, h2⟩, h3⟩, h4⟩ := h
    have hr := ih h4
    have hany := pw_any_map_key (fun p => if p.1 == k then (p.1, f p.2) else p)
      (by intro e; split <;> rfl) k' r
    simp only [List.map_cons]
    by_cases hk : (k' == k) = true
    · simp only [hk, if_true, wfL, Bool.and_eq_true]
      exact ⟨⟨⟨h1, by rw [hany]; exact h2⟩, hf _ h3⟩, hr⟩
    · have hk' : (k' == k) = false := by simpa using hk
      simp only [hk', Bool.false_eq_true, if_false, wfL, Bool.and_eq_true]
      exact ⟨⟨⟨h1, by rw [hany]; exact h2⟩, h3⟩, hr⟩

theorem pw_wf_empty (ok : String → Bool) : wf ok Cfg.empty = true := by
  simp [Cfg.empty, wf, wfL]

theorem pw_wf_insertPath (ok : String → Bool) (p : List String) (hp : ∀ k ∈ p, ok k = true) :
    ∀ t : Cfg, wf ok t = true → wf ok (Cfg.insertPath p t) = true := by
  induction p with
  | nil => intro t h; cases t; simpa [Cfg.insertPath] using h
  | cons k rest ih =>
    have ih' := ih (fun k' hk' => hp k' (List.mem_cons_of_mem _ hk'))
    have hk := hp k (by simp)
    intro t h
    cases t with
    | mk ks =>
      simp only [wf] at h
      simp only [Cfg.insertPath]
      split
      · simp only [wf]
        exact pw_wfL_map ok k (Cfg.insertPath rest) ih' ks h
      · rename_i hn
        simp only [wf]
        exact pw_wfL_append ok k _ hk (ih' _ (pw_wf_empty ok)) ks h (by simpa using hn)

theorem pw_wf_foldl (ok : String → Bool) (ss : List (List String))
    (hss : ∀ p ∈ ss, ∀ k ∈ p, ok k = true) :
    ∀ t : Cfg, wf ok t = true →
      wf ok (ss.foldl (fun t p => Cfg.insertPath p t) t) = true := by
  induction ss with
  | nil => intro t h; simpa using h
  | cons p r ih =>
    intro t h
    simp only [List.foldl_cons]
    exact ih (fun q hq => hss q (List.mem_cons_of_mem _ hq)) _
      (pw_wf_insertPath ok p (hss p (by simp)) t h)

/-- every tree the parser returns for a text cut into lines at `"\n"` is well formed -/
theorem parsed_wf (text : Str) (t : Cfg)
    (h : parseToTree comments ((commonSplit text).map String.ofList) = .ok t) :
    wf (fun r => rowBase r.toList) t = true := by
  unfold parseToTree parseItems at h
  split at h
  · cases h
  · rename_i ss hss
    injection h with h
    subst h
    unfold treeOfStacks
    refine pw_wf_foldl _ ss ?_ _ (pw_wf_empty _)
    unfold stacks at hss
    refine pw_run_good (fun s => rowBase s.toList = true) _ ?_ _ _ _ _ (by simp) hss
    intro k b hm
    simp only [List.map_map, List.mem_map, Function.comp] at hm
    obtain ⟨cs, hcs, hcl⟩ := hm
    have hcs' : cs ∈ splitNl text := by
      unfold commonSplit nonEmpty at hcs
      exact (List.mem_filter.mp hcs).1
    exact pw_classify_good cs k b (pw_splitNl_noNl text cs hcs') hcl

end Annet.FormatSplit.Lemmas
