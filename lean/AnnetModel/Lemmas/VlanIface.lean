/-
Port-channel members and the VLAN-list logic (`Model/Vlan.lean`, `cLeafIface`).
-/
import AnnetModel.Lemmas.Vlan

namespace Annet.Vlan
open Spec Lemmas

/-- NX-OS keeps a member's `switchport` rows: membership does not matter for the VLAN logic -/
theorem cLeafIface_nexus {χ : Type} (m : CMode) (catalyst oldMember newMember : Bool) (old new : List CRow) :
    cLeafIface (χ := χ) .nexus m catalyst oldMember newMember old new = cLeaf m catalyst old new := by
  simp [cLeafIface, memberRows, switchportAllowedOnMember]

/-- neither side is a member: both vendors are the plain VLAN logic -/
theorem cLeafIface_not_member {χ : Type} (d : IfaceDiff) (m : CMode) (catalyst : Bool) (old new : List CRow) :
    cLeafIface (χ := χ) d m catalyst false false old new = cLeaf m catalyst old new := by
  simp [cLeafIface, memberRows]

/-- NX-OS, any membership on either side (in particular a port that leaves its port-channel): the commands end in
exactly the new set and never remove a common VLAN — `C11_cisco_exact` / `…_never_removes_common` carry over -/
theorem nexus_member_exact {χ : Type} (m : CMode) (catalyst oldMember newMember : Bool) (p : CRow) (old new : List CRow)
    (vl : CRow → List Nat)
    (hp0 : p ≠ []) (hp : p.head? ≠ some (.w "no"))
    (hparse : ∀ r, r ∈ old ∨ r ∈ new → cParseVlancfg r = .ok (p, vl r))
    (hold : Disj vl old) (hnew : Disj vl new)
    (hnone : ∀ r ∈ new, vl r = [] → new = [r]) :
    ∃ ys, cLeafIface (χ := χ) .nexus m catalyst oldMember newMember old new = .ok ys ∧
      ∀ cs, cs.Perm (ys.map (·.row)) →
        EndsIn (interpC (cDevice m p)) cs (setOf vl old) (setOf vl new) ∧
        KeepsCommon (interpC (cDevice m p)) cs (setOf vl old) (setOf vl new) := by
  rw [cLeafIface_nexus]
  exact cisco_core (χ := χ) m catalyst p old new vl hp0 hp hparse hold hnew hnone

/-- the prefix of the witness: `switchport trunk allowed vlan` -/
def swP : CRow := [.w "switchport", .w "trunk", .w "allowed", .w "vlan"]
def swOld : List CRow := [swP ++ [.spec [[10], [20]]]]
def swNew : List CRow := [swP ++ [.spec [[10]]]]
def swIds (r : CRow) : List Nat := match cParseVlancfg r with | .ok (_, vl) => vl | .error _ => []

/-- F11d — FALSE for Cisco IOS: a port with `channel-group` and `switchport trunk allowed vlan 10,20` in old, without
`channel-group` and with `… vlan 10` in new.  The member's rows are hidden from the old side, the logic sees the whole new
list as added and sends `switchport trunk allowed vlan add 10` only: executed on {10, 20} it leaves {10, 20}, not {10}. -/
theorem cisco_leaves_port_channel_false :
    cLeafIface (χ := Unit) .cisco .swtrunk false true false swOld swNew = .ok [⟨true, swP ++ [.w "add", .spec [[10]]], none⟩] ∧
    ¬ EndsIn (interpC (cDevice .swtrunk swP)) [swP ++ [.w "add", .spec [[10]]]] (setOf swIds swOld) (setOf swIds swNew) ∧
    -- … while NX-OS removes vlan 20
    cLeafIface (χ := Unit) .nexus .swtrunk false true false swOld swNew =
      .ok [⟨false, .w "no" :: (swP ++ [.w "remove", .spec [[20]]]), none⟩] := by
  refine ⟨rfl, ?_, rfl⟩
  rintro ⟨S', hr, hm⟩
  have hrun : runDev (interpC (cDevice .swtrunk swP)) [swP ++ [.w "add", .spec [[10]]]] (setOf swIds swOld)
      = some [10, 20, 10] := by decide
  rw [hrun] at hr
  cases hr
  have h20 : (20 : Nat) ∉ setOf swIds swNew := by decide
  exact h20 ((hm 20).mp (by simp))

end Annet.Vlan
