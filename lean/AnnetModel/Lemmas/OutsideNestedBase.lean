/-
Helpers for `Lemmas/OutsideNested.lean` (C02 clause (b), end to end at every depth).

* `ClassN`: every entry of a diff, at every depth, carries the match the rules reached along its path give its row
  (the nested form of `OutsideFlat.Classified`); it holds for the diff `make_diff` computes under an ACL
  (`makeDiffAcl_classN`: through `call_diff_logic`, `apply_acl_diff`, `mark_unchanged`).
* the device: `putLine` / `inBlock` on another slot; `putLine` / `inBlock` / `execLeaf` on a line that is already there.

Core Lean only.
-/
import AnnetModel.Lemmas.OutsideFlatBase
import AnnetModel.Spec.ConvergeNested

namespace Annet.AclDiff.OutsideNested
open Annet Annet.Rules Annet.Diff Annet.Diff.Spec Annet.Diff.Lemmas Annet.Device Annet.Device.Abs
open Annet.AclDiff.OutsideFlat

/-! ### nested classification of a diff -/

/-- every entry, at every depth, carries the match of its row under the rules reached along its path -/
inductive ClassN : PRules → List DItem → Prop
  | nil (rules : PRules) : ClassN rules []
  | cons {rules cr : PRules} {i : DItem} {rest : List DItem} :
      classify rules i.row = some (i.m, cr) → ClassN cr i.children → ClassN rules rest → ClassN rules (i :: rest)

theorem classN_iff {rules : PRules} {d : List DItem} :
    ClassN rules d ↔ ∀ e ∈ d, ∃ cr, classify rules e.row = some (e.m, cr) ∧ ClassN cr e.children := by
  induction d with
  | nil =>
    constructor
    · intro _ e he
      cases he
    · intro _
      exact .nil rules
  | cons i rest ih =>
    constructor
    · intro h e he
      cases h with
      | cons h1 h2 h3 =>
        rcases List.mem_cons.1 he with rfl | he
        · exact ⟨_, h1, h2⟩
        · exact ih.1 h3 e he
    · intro h
      obtain ⟨cr, h1, h2⟩ := h i List.mem_cons_self
      exact .cons h1 h2 (ih.2 fun e he => h e (List.mem_cons_of_mem _ he))

theorem ClassN.classified {rules : PRules} {d : List DItem} (h : ClassN rules d) : Classified rules d := by
  intro e he
  obtain ⟨cr, h1, _⟩ := classN_iff.1 h e he
  exact ⟨cr, h1⟩

theorem ClassN.perm {rules : PRules} {d d' : List DItem} (h : ClassN rules d) (hp : d'.Perm d) : ClassN rules d' :=
  classN_iff.2 fun e he => classN_iff.1 h e (hp.mem_iff.1 he)

theorem ClassN.append {rules : PRules} {d d' : List DItem} (h : ClassN rules d) (h' : ClassN rules d') :
    ClassN rules (d ++ d') :=
  classN_iff.2 fun e he => (List.mem_append.1 he).elim (classN_iff.1 h e) (classN_iff.1 h' e)

/-- what the recursive call of a diff logic must guarantee -/
def RecOK (rec : Rec) : Prop :=
  ∀ (rules : PRules) (pops : List Pop) (o n : Level) (d : List DItem),
    AnnL rules o → AnnL rules n → rec pops o n = .ok d → ClassN rules d

theorem removedItems_classN {rec : Rec} (hrec : RecOK rec) (rules : PRules) (pops : List Pop) (new : Level) :
    ∀ (old : Level) (idx : Nat) (rs : List (Nat × DItem)), AnnL rules old →
      removedItems rec pops new idx old = .ok rs → ClassN rules (rs.map (·.2)) := by
  intro old
  induction old with
  | nil =>
    intro idx rs _ h
    simp only [removedItems, Except.ok.injEq] at h
    subst h
    exact .nil rules
  | cons e rest ih =>
    obtain ⟨row, m, ch⟩ := e
    intro idx rs ha h
    have hrest : AnnL rules rest := (annL_iff _ _).2 fun x hx => (annL_iff _ _).1 ha x (List.mem_cons_of_mem _ hx)
    rw [removedItems] at h
    split at h
    · exact ih _ _ hrest h
    · split at h
      · cases h
      · rename_i cs hcs
        split at h
        · cases h
        · rename_i more hmore
          cases h
          obtain ⟨cr, hm, hk⟩ := (annL_iff _ _).1 ha _ List.mem_cons_self
          refine .cons (cr := cr) ?_ (hrec cr _ _ _ _ hk (annL_nil cr) hcs) (ih _ _ hrest hmore)
          simp only [DItem.row, DItem.m] at hm ⊢
          unfold classify
          rw [hm]

theorem annL_oldKids {rules cr : PRules} {old : Level} {row : String} {m : PMatch} (ha : AnnL rules old)
    (hm : matchRow row rules = .found m cr) : AnnL cr (oldKids old row) := by
  rcases oldKids_cases old row with h | ⟨e, he, hr, h⟩
  · rw [h]; exact annL_nil cr
  · rw [h]
    obtain ⟨cr', hm', hk⟩ := (annL_iff _ _).1 ha e he
    rw [hr, hm] at hm'
    injection hm' with _ hc
    subst hc
    exact hk

theorem newItems_classN {rec : Rec} (hrec : RecOK rec) (rules : PRules) (pops : List Pop) (m2a : Bool) (old : Level)
    (hao : AnnL rules old) :
    ∀ (new : Level) (idx : Nat) (dis : Bool) (ns : List (Nat × DItem)), AnnL rules new →
      newItems rec pops m2a old idx dis new = .ok ns → ClassN rules (ns.map (·.2)) := by
  intro new
  induction new with
  | nil =>
    intro idx dis ns _ h
    simp only [newItems, Except.ok.injEq] at h
    subst h
    exact .nil rules
  | cons e rest ih =>
    obtain ⟨row, m, ch⟩ := e
    intro idx dis ns ha h
    have hrest : AnnL rules rest := (annL_iff _ _).2 fun x hx => (annL_iff _ _).1 ha x (List.mem_cons_of_mem _ hx)
    rw [newItems_cons] at h
    split at h
    · cases h
    · rename_i cs hcs
      split at h
      · cases h
      · rename_i more hmore
        cases h
        obtain ⟨cr, hm, hk⟩ := (annL_iff _ _).1 ha _ List.mem_cons_self
        refine .cons (cr := cr) ?_ (hrec cr _ _ _ _ (annL_oldKids hao hm) hk hcs) (ih _ _ _ hrest hmore)
        simp only [DItem.row, DItem.m] at hm ⊢
        unfold classify
        rw [hm]

theorem baseDiff_classN {rec : Rec} (hrec : RecOK rec) {rules : PRules} {pops : List Pop} {m2a : Bool}
    {old new : Level} {d : List DItem} (hao : AnnL rules old) (han : AnnL rules new)
    (h : baseDiff rec pops m2a old new = .ok d) : ClassN rules d := by
  obtain ⟨rs, ns, hr, hn, rfl⟩ := baseDiff_inv h
  have h1 := removedItems_classN hrec rules pops new old 0 rs hao hr
  have h2 := newItems_classN hrec rules pops m2a old hao new 0 false ns han hn
  have := h1.append h2
  rw [← List.map_append] at this
  exact this.perm ((sortIdx_perm _).map _)

theorem affectedToMoved_classN {rules : PRules} {d : List DItem} (h : ClassN rules d) :
    ClassN rules (affectedToMoved d) := by
  induction h with
  | nil rules => rw [affectedToMoved]; exact .nil rules
  | @cons rules cr i rest h1 _ _ ih2 ih3 =>
    obtain ⟨o, r, ch, m⟩ := i
    rw [affectedToMoved, affectedToMovedItem]
    exact .cons (cr := cr) h1 ih2 ih3

theorem runLogic_classN {rec : Rec} (hrec : RecOK rec) {rules : PRules} {pops : List Pop} {l : String}
    {o n : Level} {d : List DItem} (hao : AnnL rules o) (han : AnnL rules n)
    (h : Diff.runLogic rec pops l o n = .ok d) : ClassN rules d := by
  unfold Diff.runLogic at h
  split at h
  · exact baseDiff_classN hrec hao han h
  · split at h
    · exact baseDiff_classN hrec hao han h
    · split at h
      · simp only at h
        split at h
        · cases h
        · rename_i d0 hd0
          have h0 := baseDiff_classN hrec hao han hd0
          split at h
          · cases h; exact h0
          · split at h
            · cases h; exact .nil rules
            · cases h; exact affectedToMoved_classN h0
      · cases h

theorem annL_filter {rules : PRules} {l : Level} (h : AnnL rules l) (p : String × PMatch × ACfg → Bool) :
    AnnL rules (l.filter p) :=
  (annL_iff _ _).2 fun x hx => (annL_iff _ _).1 h x (List.mem_filter.1 hx).1

theorem runLogics_classN {rec : Rec} (hrec : RecOK rec) {rules : PRules} {pops : List Pop} {old new : Level}
    (hao : AnnL rules old) (han : AnnL rules new) :
    ∀ (ls : List String) (d : List DItem), runLogics rec pops old new ls = .ok d → ClassN rules d
  | [], d, h => by
    rw [runLogics] at h
    cases h
    exact .nil rules
  | l :: ls, d, h => by
    rw [runLogics] at h
    split at h
    · cases h
    · rename_i d1 hd1
      split at h
      · cases h
      · rename_i ds hds
        cases h
        exact (runLogic_classN hrec (annL_filter hao _) (annL_filter han _) hd1).append
          (runLogics_classN hrec hao han ls ds hds)

theorem callDiffLogic_recOK : ∀ fuel : Nat, RecOK (callDiffLogic fuel)
  | 0 => by
    intro rules pops o n d _ _ h
    rw [callDiffLogic] at h
    cases h
    exact .nil rules
  | fuel + 1 => by
    intro rules pops o n d hao han h
    rw [callDiffLogic] at h
    exact runLogics_classN (callDiffLogic_recOK fuel) hao han _ d h

theorem applyAclDiff_classN (v : Acl.Vendor) {rules : PRules} {d : List DItem} (h : ClassN rules d) :
    ∀ (acl : Acl.Rules) (d' : List DItem), applyAclDiff v acl d = .ok d' → ClassN rules d' := by
  induction h with
  | nil rules =>
    intro acl d' h
    rw [Lemmas.applyAclDiff_nil] at h
    cases h
    exact .nil rules
  | @cons rules cr i rest h1 _ _ ih2 ih3 =>
    intro acl d' h
    obtain ⟨oi, r, h1', h2', rfl⟩ := Lemmas.applyAclDiff_cons_ok h
    cases oi with
    | none => exact ih3 acl r h2'
    | some i'' =>
      obtain ⟨op, row, ch, m⟩ := i
      obtain ⟨am, acr, ch', _, hch, rfl⟩ := Lemmas.aclDiffItem_ok h1'
      exact .cons (cr := cr) h1 (ih2 acr ch' hch) (ih3 acl r h2')

theorem markUnchanged_classN {rules : PRules} {d : List DItem} (h : ClassN rules d) :
    ClassN rules (markUnchanged d) := by
  induction h with
  | nil rules => rw [markUnchanged]; exact .nil rules
  | @cons rules cr i rest h1 h2 _ ih2 ih3 =>
    obtain ⟨o, r, ch, m⟩ := i
    rw [markUnchanged, markItem]
    split
    · exact .cons (cr := cr) h1 ih2 ih3
    · exact .cons (cr := cr) h1 h2 ih3

/-- the diff `make_diff` computes under an ACL is classified at every depth -/
theorem makeDiffAcl_classN {av : Acl.Vendor} {acl : Acl.Rules} {rules : PRules} {old new : Cfg}
    {d : List DItem} (h : makeDiffAcl av acl rules old new = .ok d) : ClassN rules d := by
  unfold makeDiffAcl at h
  split at h
  · cases h
  · cases h
  · rename_i o n ho hn
    split at h
    · cases h
    · rename_i d0 hd0
      split at h
      · cases h
      · rename_i d' hd'
        cases h
        have hao := (annC_iff _ _).1 (annotate_annC _ _ _ ho)
        have han := (annC_iff _ _).1 (annotate_annC _ _ _ hn)
        exact markUnchanged_classN (applyAclDiff_classN av (callDiffLogic_recOK _ rules _ _ _ _ hao han hd0) acl d' hd')

/-- what `deviceModeAcl` computes, with the nested classification -/
theorem deviceModeAcl_invN {pv : Rules.Vendor} {av : Acl.Vendor} {acl : Acl.Rules} {rules : PRules}
    {ordering : List ORule} {old new : Cfg} {res : Api.Result}
    (h : deviceModeAcl Patch.runLogic pv av acl rules ordering old new = .ok res) :
    ∃ d, res.diff = stripUnchanged d ∧ ClassN rules d ∧ Patch.ProvT pv d res.patch := by
  unfold deviceModeAcl at h
  split at h
  · cases h
  · cases h
  · split at h
    · cases h
    · rename_i d hd
      split at h
      · cases h
      · rename_i p hp
        cases h
        exact ⟨d, rfl, makeDiffAcl_classN hd, Patch.patch_provenance pv ordering true d p hp⟩

/-- a changed entry is shown, with its children stripped -/
theorem stripItem_mem : ∀ (d : List DItem) (e : DItem), e ∈ d → e.op ≠ .unchanged → stripItem e ∈ stripUnchanged d
  | [], e, h, _ => by cases h
  | j :: rest, e, h, hop => by
    rw [stripUnchanged_cons]
    rcases List.mem_cons.1 h with rfl | h
    · have : (e.op == Op.unchanged) = false := by
        cases ho : e.op <;> first | rfl | exact absurd ho hop
      rw [this]
      exact List.mem_cons_self
    · have := stripItem_mem rest e h hop
      split
      · exact this
      · exact List.mem_cons_of_mem _ this

theorem stripItem_children (e : DItem) : (stripItem e).children = stripUnchanged e.children := by
  obtain ⟨o, r, ch, m⟩ := e
  rw [stripItem]
  rfl

/-! ### the device: another slot, and a line that is already there -/

open Annet.ConvergeNested in
/-- `inBlock` on a line of another slot leaves the lines of slot `s` alone -/
theorem inBlock_filter_other (rules : PRules) (inner : List (String × Cfg) → List (String × Cfg)) (c : String)
    (s : Slot) (hc : slotOf rules c ≠ some s) :
    ∀ l : List (String × Cfg), (inBlock inner c l).filter (fun e => slotOf rules e.1 == some s) =
      l.filter (fun e => slotOf rules e.1 == some s)
  | [] => by simp [inBlock]
  | (row, .mk ch) :: more => by
    rw [inBlock]
    split
    · rename_i hrow
      have : (slotOf rules row == some s) = false := by
        rw [beq_iff_eq.1 hrow, beq_eq_false_iff_ne]; exact hc
      simp [this]
    · simp only [List.filter_cons, inBlock_filter_other rules inner c s hc more]

/-- `putLine` on another slot leaves the lines of slot `s` alone -/
theorem putLine_filter_other (rules : PRules) (m : PMatch) (c : String) (s : Slot) (kids : List (String × Cfg))
    (hc : slotOf rules c ≠ some s) (hm : some (m.rawRule, m.key) ≠ some s) :
    (putLine rules m c kids).filter (fun e => slotOf rules e.1 == some s) =
      kids.filter (fun e => slotOf rules e.1 == some s) := by
  unfold putLine
  split
  · rw [List.filter_filter]
    apply List.filter_congr
    intro e _
    cases hp : slotOf rules e.1 == some s with
    | false => simp
    | true =>
      rw [beq_iff_eq] at hp
      have : sameSlot rules m e.1 = false := by
        rw [Device.Lemmas.sameSlot_eq, hp, beq_eq_false_iff_ne]
        exact fun h => hm h.symm
      simp [this]
  · split
    · exact Device.Lemmas.rf_filter_other rules m c s hc hm false kids
    · have hcf : (slotOf rules c == some s) = false := by
        rw [beq_eq_false_iff_ne]; exact hc
      simp [List.filter_append, hcf]

theorem find?_filter_of_imp {α : Type} (p q : α → Bool) : ∀ (l : List α), (∀ x ∈ l, q x = true → p x = true) →
    (l.filter p).find? q = l.find? q
  | [], _ => rfl
  | a :: l, h => by
    have ih := find?_filter_of_imp p q l fun x hx => h x (List.mem_cons_of_mem _ hx)
    rw [List.filter_cons]
    cases hq : q a with
    | true =>
      rw [if_pos (h a List.mem_cons_self hq), List.find?_cons, List.find?_cons, hq]
    | false =>
      split
      · rw [List.find?_cons, List.find?_cons, hq, ih]
      · rw [List.find?_cons, hq, ih]

/-- the first line with the text `r` only depends on the lines of the slot of `r` -/
theorem find_of_filter_eq {rules : PRules} {r : String} {s : Slot} (hr : slotOf rules r = some s)
    {l l' : List (String × Cfg)}
    (h : l.filter (fun e => slotOf rules e.1 == some s) = l'.filter (fun e => slotOf rules e.1 == some s)) :
    l.find? (fun e => e.1 == r) = l'.find? (fun e => e.1 == r) := by
  have key : ∀ l : List (String × Cfg),
      (l.filter (fun e => slotOf rules e.1 == some s)).find? (fun e => e.1 == r) = l.find? (fun e => e.1 == r) := by
    intro l
    apply find?_filter_of_imp
    intro x _ hx
    rw [beq_iff_eq.1 hx, hr]
    exact beq_self_eq_true _
  rw [← key l, ← key l', h]

/-- `putLine` of a line that is already there keeps (the first occurrence of) it, with its subtree -/
theorem putLine_find_self (rules : PRules) (m : PMatch) (r : String) (kids : List (String × Cfg))
    (e0 : String × Cfg) (h : kids.find? (fun e => e.1 == r) = some e0) :
    (putLine rules m r kids).find? (fun e => e.1 == r) = some e0 := by
  unfold putLine
  have hany : kids.any (fun e => e.1 == r) = true :=
    List.any_eq_true.2 ⟨e0, List.mem_of_find?_eq_some h, List.find?_some (p := fun e : String × Cfg => e.1 == r) h⟩
  rw [if_pos hany, find?_filter_of_imp _ _ kids, h]
  intro x _ hx
  rw [hx, Bool.true_or]

open Annet.ConvergeNested in
/-- `inBlock` runs the inner function on the children of the first line with the text `r` -/
theorem inBlock_find_self (inner : List (String × Cfg) → List (String × Cfg)) (r : String) :
    ∀ (l : List (String × Cfg)) (e0 : String × Cfg), l.find? (fun e => e.1 == r) = some e0 →
    (inBlock inner r l).find? (fun e => e.1 == r) = some (e0.1, .mk (inner e0.2.kids))
  | [], e0, h => by cases h
  | (row, .mk ch) :: more, e0, h => by
    rw [inBlock]
    rw [List.find?_cons] at h
    split
    · rename_i hrow
      simp only [hrow] at h
      cases h
      rw [List.find?_cons]
      simp only [hrow]
      rfl
    · rename_i hrow
      have hrow' : (row == r) = false := by simpa using hrow
      simp only [hrow'] at h
      rw [List.find?_cons]
      simp only [hrow']
      exact inBlock_find_self inner r more e0 h

/-- the command `r`, a line that is already there and that the device does not read as the removal of its own slot,
keeps (the first occurrence of) the line, with its subtree -/
theorem execLeaf_find_self (env : Env) (rules : PRules) (r : String) (m : PMatch) (cr : PRules)
    (kids : List (String × Cfg)) (e0 : String × Cfg) (hcl : classify rules r = some (m, cr))
    (hnr : (stripReverse env r).bind (slotOf rules) ≠ some (m.rawRule, m.key))
    (h : kids.find? (fun e => e.1 == r) = some e0) :
    (execLeaf env rules r kids).find? (fun e => e.1 == r) = some e0 := by
  unfold execLeaf
  split
  · exact h
  · split
    · next m' heq =>
      obtain ⟨r', hr', hm⟩ := Option.bind_eq_some_iff.1 heq
      obtain ⟨mc, hmc, rfl⟩ := Option.map_eq_some_iff.1 hm
      rw [hr', Option.bind_some, Device.Lemmas.slotOf_of_classify (m := mc.1) (cr := mc.2) hmc] at hnr
      rw [find?_filter_of_imp _ _ kids, h]
      intro x _ hx
      rw [beq_iff_eq.1 hx, Device.Lemmas.sameSlot_eq, Device.Lemmas.slotOf_of_classify hcl]
      simp only [Bool.not_eq_eq_eq_not, Bool.not_true, beq_eq_false_iff_ne]
      exact fun hh => hnr hh.symm
    · simp only [hcl]
      exact putLine_find_self rules m r kids e0 h

end Annet.AclDiff.OutsideNested
