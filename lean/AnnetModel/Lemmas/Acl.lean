/-
Helper lemmas for C06.

The first four theorems are mutual structural inductions over `Cfg` / `List (String × Cfg)` mirroring
`applyAcl` / `applyAclList`, generalised over `rules` and `path`.  `lenient_cons_inv` is the common
inversion of one step of the lenient non-exclusive filter.
-/
import AnnetModel.Spec.Acl

namespace Annet.Acl.Lemmas
open Annet Annet.Acl Annet.Acl.Spec Annet.Pattern

theorem applyAcl_ok_iff (v : Vendor) (fatal excl : Bool) (rules : Rules) (path : List String)
    (ks : List (String × Cfg)) (t' : Cfg) :
    applyAcl v fatal excl rules path (.mk ks) = .ok t' ↔
      ∃ ks', applyAclList v fatal excl rules path ks = .ok ks' ∧ t' = .mk ks' := by
  rw [applyAcl]
  cases applyAclList v fatal excl rules path ks with
  | error e => simp [Except.map]
  | ok ks' => simp [Except.map, eq_comm]

theorem applyAcl_mk_of_list {v : Vendor} {fatal excl : Bool} {rules : Rules} {path : List String}
    {ks ks' : List (String × Cfg)} (h : applyAclList v fatal excl rules path ks = .ok ks') :
    applyAcl v fatal excl rules path (.mk ks) = .ok (.mk ks') := by
  rw [applyAcl, h]; rfl

/-! ### sub-tree -/

mutual
  theorem sub_cfg (v : Vendor) (fatal excl : Bool) (rules : Rules) (path : List String) :
      (t t' : Cfg) → applyAcl v fatal excl rules path t = .ok t' → Sub t' t
    | .mk ks, t', h => by
      obtain ⟨ks', hl, rfl⟩ := (applyAcl_ok_iff ..).1 h
      exact Spec.Sub.mk (sub_list v fatal excl rules path ks ks' hl)
  theorem sub_list (v : Vendor) (fatal excl : Bool) (rules : Rules) (path : List String) :
      (ks ks' : List (String × Cfg)) → applyAclList v fatal excl rules path ks = .ok ks' → SubL ks' ks
    | [], ks', h => by
      simp only [applyAclList, Except.ok.injEq] at h
      subst h; exact SubL.nil _
    | (row, ch) :: rest, ks', h => by
      rw [applyAclList] at h
      split at h
      · cases h
      · cases h
      · split at h
        · cases h
        · exact SubL.skip _ (sub_list v fatal excl rules path rest ks' h)
      · split at h
        · exact SubL.skip _ (sub_list v fatal excl rules path rest ks' h)
        · split at h
          · cases h
          · rename_i ch' hch
            split at h
            · cases h
            · rename_i rest' hrest
              cases h
              exact SubL.keep row (sub_cfg v fatal excl _ _ ch ch' hch)
                (sub_list v fatal excl rules path rest rest' hrest)
end

theorem subtree_ordered (v : Vendor) (fatal excl : Bool) (rules : Rules) (path : List String) (t t' : Cfg)
    (h : applyAcl v fatal excl rules path t = .ok t') : Sub t' t := sub_cfg v fatal excl rules path t t' h

/-! ### lenient mode: idempotence, path predicate, strict mode -/

/-- inversion of one lenient, non-exclusive step -/
theorem lenient_cons_inv {v : Vendor} {rules : Rules} {path : List String} {row : String} {ch : Cfg}
    {rest ks' : List (String × Cfg)}
    (h : applyAclList v false false rules path ((row, ch) :: rest) = .ok ks') :
    (passRow v rules row = none ∧ (matchRowToAcl v row rules false = .ok none ∨
        ∃ m cr, matchRowToAcl v row rules false = .ok (some (m, cr)) ∧
          (m.isReverse && m.rule.cantDelete.all id) = true) ∧
      applyAclList v false false rules path rest = .ok ks') ∨
    (∃ m cr ch' rest', matchRowToAcl v row rules false = .ok (some (m, cr)) ∧
      (m.isReverse && m.rule.cantDelete.all id) = false ∧ passRow v rules row = some cr ∧
      applyAcl v false false cr (path ++ [row]) ch = .ok ch' ∧
      applyAclList v false false rules path rest = .ok rest' ∧ ks' = (row, ch') :: rest') := by
  rw [applyAclList] at h
  split at h
  · cases h
  · cases h
  · rename_i hm
    simp only [Bool.false_eq_true, if_false] at h
    exact .inl ⟨by simp [passRow, hm], .inl hm, h⟩
  · rename_i m cr hm
    split at h
    · rename_i hc
      exact .inl ⟨by simp [passRow, hm, hc], .inr ⟨m, cr, hm, hc⟩, h⟩
    · rename_i hc
      split at h
      · cases h
      · rename_i ch' hch
        split at h
        · cases h
        · rename_i rest' hrest
          cases h
          have hc' : (m.isReverse && m.rule.cantDelete.all id) = false := by simpa using hc
          exact .inr ⟨m, cr, ch', rest', hm, hc', by simp [passRow, hm, hc'], hch, hrest, rfl⟩

mutual
  theorem idem_cfg (v : Vendor) (rules : Rules) (path path' : List String) :
      (t t' : Cfg) → applyAcl v false false rules path t = .ok t' →
        applyAcl v false false rules path' t' = .ok t'
    | .mk ks, t', h => by
      obtain ⟨ks', hl, rfl⟩ := (applyAcl_ok_iff ..).1 h
      exact applyAcl_mk_of_list (idem_list v rules path path' ks ks' hl)
  theorem idem_list (v : Vendor) (rules : Rules) (path path' : List String) :
      (ks ks' : List (String × Cfg)) → applyAclList v false false rules path ks = .ok ks' →
        applyAclList v false false rules path' ks' = .ok ks'
    | [], ks', h => by
      simp only [applyAclList, Except.ok.injEq] at h
      subst h; rfl
    | (row, ch) :: rest, ks', h => by
      rcases lenient_cons_inv h with ⟨_, _, hr⟩ | ⟨m, cr, ch', rest', hm, hc, _, hch, hrest, rfl⟩
      · exact idem_list v rules path path' rest ks' hr
      · have h1 := idem_cfg v cr (path ++ [row]) (path' ++ [row]) ch ch' hch
        have h2 := idem_list v rules path path' rest rest' hrest
        rw [applyAclList]
        simp only [hm, hc, h1, h2, Bool.false_eq_true, if_false]
end

theorem idempotent (v : Vendor) (rules : Rules) (path : List String) (t t' : Cfg)
    (h : applyAcl v false false rules path t = .ok t') :
    applyAcl v false false rules path t' = .ok t' := idem_cfg v rules path path t t' h

theorem walk_cons (v : Vendor) (rules : Rules) (row : String) (p : List String) :
    walk v rules (row :: p) = (passRow v rules row).bind fun cr => walk v cr p := by
  rw [walk]; cases passRow v rules row <;> rfl

mutual
  theorem pp_cfg (v : Vendor) (rules : Rules) (path : List String) (p : List String) :
      (t t' : Cfg) → applyAcl v false false rules path t = .ok t' →
        (p ∈ t'.paths ↔ (p ∈ t.paths ∧ (walk v rules p).isSome))
    | .mk ks, t', h => by
      obtain ⟨ks', hl, rfl⟩ := (applyAcl_ok_iff ..).1 h
      simpa only [Cfg.paths] using pp_list v rules path p ks ks' hl
  theorem pp_list (v : Vendor) (rules : Rules) (path : List String) (p : List String) :
      (ks ks' : List (String × Cfg)) → applyAclList v false false rules path ks = .ok ks' →
        (p ∈ Cfg.pathsList ks' ↔ (p ∈ Cfg.pathsList ks ∧ (walk v rules p).isSome))
    | [], ks', h => by
      simp only [applyAclList, Except.ok.injEq] at h
      subst h; simp [Cfg.pathsList]
    | (row, ch) :: rest, ks', h => by
      rcases lenient_cons_inv h with ⟨hp, _, hr⟩ | ⟨m, cr, ch', rest', hm, hc, hp, hch, hrest, rfl⟩
      · have ih := pp_list v rules path p rest ks' hr
        rw [ih, Cfg.pathsList]
        constructor
        · rintro ⟨h1, h2⟩; exact ⟨by simp [h1], h2⟩
        · rintro ⟨h1, h2⟩
          refine ⟨?_, h2⟩
          simp only [List.cons_append, List.mem_cons, List.mem_append, List.mem_map] at h1
          rcases h1 with rfl | ⟨q, _, rfl⟩ | h1
          · simp [walk_cons, hp] at h2
          · simp [walk_cons, hp] at h2
          · exact h1
      · have ih1 : ∀ q, q ∈ ch'.paths ↔ (q ∈ ch.paths ∧ (walk v cr q).isSome) :=
          fun q => pp_cfg v cr (path ++ [row]) q ch ch' hch
        have ih2 := pp_list v rules path p rest rest' hrest
        simp only [Cfg.pathsList, List.cons_append, List.mem_cons, List.mem_append, List.mem_map, ih2]
        constructor
        · rintro (rfl | ⟨q, hq, rfl⟩ | ⟨h1, h2⟩)
          · exact ⟨.inl rfl, by simp [hp, walk]⟩
          · have := (ih1 q).1 hq
            exact ⟨.inr (.inl ⟨q, this.1, rfl⟩), by simpa [walk_cons, hp] using this.2⟩
          · exact ⟨.inr (.inr h1), h2⟩
        · rintro ⟨rfl | ⟨q, hq, rfl⟩ | h1, h2⟩
          · exact .inl rfl
          · refine .inr (.inl ⟨q, (ih1 q).2 ⟨hq, ?_⟩, rfl⟩)
            simpa [walk_cons, hp] using h2
          · exact .inr (.inr ⟨h1, h2⟩)
end

theorem path_predicate (v : Vendor) (rules : Rules) (path : List String) (t t' : Cfg)
    (h : applyAcl v false false rules path t = .ok t') (p : List String) :
    p ∈ t'.paths ↔ (p ∈ t.paths ∧ (walk v rules p).isSome) := pp_cfg v rules path p t t' h


mutual
  theorem fatal_cfg (v : Vendor) (rules : Rules) (path : List String) :
      (t t0 : Cfg) → applyAcl v false false rules path t = .ok t0 →
        applyAcl v true false rules path t =
          (match firstUnmatched v rules path t with
           | some q => .error (.aclError q)
           | none => .ok t0)
    | .mk ks, t0, h => by
      obtain ⟨ks0, hl, rfl⟩ := (applyAcl_ok_iff ..).1 h
      have := fatal_list v rules path ks ks0 hl
      rw [applyAcl, this, firstUnmatched]
      cases firstUnmatchedL v rules path ks <;> rfl
  theorem fatal_list (v : Vendor) (rules : Rules) (path : List String) :
      (ks ks0 : List (String × Cfg)) → applyAclList v false false rules path ks = .ok ks0 →
        applyAclList v true false rules path ks =
          (match firstUnmatchedL v rules path ks with
           | some q => .error (.aclError q)
           | none => .ok ks0)
    | [], ks0, h => by
      simp only [applyAclList, Except.ok.injEq] at h
      subst h; rfl
    | (row, ch) :: rest, ks0, h => by
      rcases lenient_cons_inv h with ⟨_, hm | ⟨m, cr, hm, hc⟩, hr⟩ |
        ⟨m, cr, ch', rest', hm, hc, _, hch, hrest, rfl⟩
      · rw [applyAclList, firstUnmatchedL]
        simp only [hm, if_true]
      · have ih := fatal_list v rules path rest ks0 hr
        rw [applyAclList, firstUnmatchedL]
        simp only [hm, hc, if_true, ih]
      · have ih1 := fatal_cfg v cr (path ++ [row]) ch ch' hch
        have ih2 := fatal_list v rules path rest rest' hrest
        rw [applyAclList, firstUnmatchedL]
        simp only [hm, hc, Bool.false_eq_true, if_false, ih1, ih2]
        cases firstUnmatched v cr (path ++ [row]) ch with
        | some q => rfl
        | none =>
          cases firstUnmatchedL v rules path rest <;> rfl
end

theorem fatal_iff (v : Vendor) (rules : Rules) (path : List String) (t t0 : Cfg)
    (h : applyAcl v false false rules path t = .ok t0) :
    applyAcl v true false rules path t =
      (match firstUnmatched v rules path t with
       | some q => .error (.aclError q)
       | none => .ok t0) := fatal_cfg v rules path t t0 h


/-! ### a deletable `~ %global` rule covers everything -/

theorem mem_insertStable (m x : Match) (l : List Match) : x ∈ insertStable m l ↔ x = m ∨ x ∈ l := by
  induction l with
  | nil => simp [insertStable]
  | cons y ys ih =>
    rw [insertStable]
    split
    · simp
    · simp only [List.mem_cons, ih]
      constructor
      · rintro (h | h | h) <;> simp [h]
      · rintro (h | h | h) <;> simp [h]

theorem mem_sortStable_aux (l acc : List Match) (x : Match) :
    x ∈ l.foldl (fun acc m => insertStable m acc) acc ↔ x ∈ acc ∨ x ∈ l := by
  induction l generalizing acc with
  | nil => simp
  | cons y ys ih =>
    rw [List.foldl_cons, ih, mem_insertStable]
    simp only [List.mem_cons]
    constructor
    · rintro ((h | h) | h) <;> simp [h]
    · rintro (h | h | h) <;> simp [h]

theorem mem_sortStable (l : List Match) (x : Match) : x ∈ sortStable l ↔ x ∈ l := by
  simp [sortStable, mem_sortStable_aux]

theorem sortStable_cons_ne_nil (x : Match) (l : List Match) : sortStable (x :: l) ≠ [] := by
  intro h
  have : x ∈ sortStable (x :: l) := (mem_sortStable _ _).2 (List.mem_cons_self ..)
  rw [h] at this; cases this

theorem mergeDicts_nil_singleton (r : Rule) : mergeDicts [] [r] = [r] := by
  simp [mergeDicts, mergeRuleDicts, rulesBeq, findRule]

theorem tilde_match (l : List Char) (hl : l ≠ []) :
    ({ toks := [.tilde] } : Pat).match? l = some [l] := by
  cases l with
  | nil => exact absurd rfl hl
  | cons c cs => simp [Pat.match?, matchToks, matchOne]

theorem directPat_tilde (rid : String) (cd : List Bool) (prio : Nat) (names : List String) :
    directPat (Rule.mk rid "~" false cd prio names none) = some { toks := [.tilde] } := by
  simp only [directPat, Rule.row]; decide

section
variable (rid : String) (cd : List Bool) (prio : Nat) (names : List String)

theorem findMatches_tilde (v : Vendor) (row : String) (rp : Pat)
    (hj : v.juniper = false) (hrow : row.toList ≠ [])
    (hrev : reversePat v (Rule.mk rid "~" false cd prio names none) = some rp) :
    ∃ ms, findMatches v row ⟨[], [Rule.mk rid "~" false cd prio names none]⟩ = some ms ∧ ms ≠ [] ∧
      ∀ m ∈ ms, m.rule = Rule.mk rid "~" false cd prio names none ∧ m.crAllowed = false := by
  simp only [findMatches, List.map_nil, List.map_cons, List.nil_append, hj]
  simp [directPat_tilde, hrev, tilde_match _ hrow]
  cases rp.match? row.toList with
  | none =>
    refine ⟨_, rfl, ?_, ?_⟩
    · exact sortStable_cons_ne_nil _ _
    · intro m hm
      rw [mem_sortStable] at hm
      simp only [List.flatten_cons, List.flatten_nil, List.append_nil, List.mem_cons,
        List.not_mem_nil, or_false] at hm
      subst hm; exact ⟨rfl, rfl⟩
  | some val =>
    refine ⟨_, rfl, ?_, ?_⟩
    · exact sortStable_cons_ne_nil _ _
    · intro m hm
      rw [mem_sortStable] at hm
      simp only [List.flatten_cons, List.flatten_nil, List.append_nil, List.mem_cons,
        List.not_mem_nil, or_false] at hm
      rcases hm with rfl | rfl <;> exact ⟨rfl, rfl⟩

theorem foldl_inv {α β : Type} (P : α → Prop) (f : α → β → α) (l : List β) (a : α) (h0 : P a)
    (hstep : ∀ a b, b ∈ l → P a → P (f a b)) : P (l.foldl f a) := by
  induction l generalizing a with
  | nil => exact h0
  | cons x xs ih =>
    exact ih _ (hstep a x (List.mem_cons_self ..) h0)
      (fun a b hb => hstep a b (List.mem_cons_of_mem _ hb))

theorem tab_len (L : List (String × Bool)) (hL : L.length ≤ 1) (ms : List Match)
    (hms : ∀ m ∈ ms, m.rule.genNames.zip m.rule.cantDelete = L) :
    (ms.foldl (fun (acc : List (String × Bool)) m =>
      (m.rule.genNames.zip m.rule.cantDelete).foldl (fun acc (nf : String × Bool) =>
        if acc.any (·.1 == nf.1) then acc.map fun e => if e.1 == nf.1 then (e.1, e.2 && nf.2) else e
        else acc ++ [nf]) acc) []).length ≤ 1 := by
  cases L with
  | nil =>
    refine foldl_inv (fun (acc : List (String × Bool)) => acc.length ≤ 1) _ ms [] (Nat.zero_le 1) ?_
    intro acc m hm hacc
    rw [hms m hm]; exact hacc
  | cons nf L' =>
    cases L' with
    | cons _ _ => simp at hL
    | nil =>
      have key := foldl_inv (fun acc => acc = [] ∨ ∃ b, acc = [(nf.1, b)])
        (fun (acc : List (String × Bool)) (m : Match) =>
          (m.rule.genNames.zip m.rule.cantDelete).foldl (fun acc (nf : String × Bool) =>
            if acc.any (·.1 == nf.1) then acc.map fun e => if e.1 == nf.1 then (e.1, e.2 && nf.2) else e
            else acc ++ [nf]) acc) ms [] (.inl rfl) (by
          intro acc m hm hacc
          rw [hms m hm]
          rcases hacc with rfl | ⟨b, rfl⟩
          · exact .inr ⟨nf.2, by simp⟩
          · exact .inr ⟨b && nf.2, by simp⟩)
      rcases key with h | ⟨b, h⟩ <;> rw [h] <;> simp

theorem canDeleteNames_len (L : List (String × Bool)) (hL : L.length ≤ 1) (ms : List Match)
    (hms : ∀ m ∈ ms, m.rule.genNames.zip m.rule.cantDelete = L) :
    (canDeleteNames ms).length ≤ 1 := by
  unfold canDeleteNames
  simp only [List.length_map]
  exact Nat.le_trans (List.length_filter_le ..) (tab_len L hL ms hms)

theorem matchRow_tilde (v : Vendor) (excl : Bool) (row : String) (rp : Pat)
    (hj : v.juniper = false) (hrow : row.toList ≠ [])
    (hrev : reversePat v (Rule.mk rid "~" false cd prio names none) = some rp)
    (hx : (names.zip cd).length ≤ 1 ∨ excl = false) :
    ∃ m, matchRowToAcl v row ⟨[], [Rule.mk rid "~" false cd prio names none]⟩ excl =
        .ok (some (m, ⟨[], [Rule.mk rid "~" false cd prio names none]⟩)) ∧
      m.rule = Rule.mk rid "~" false cd prio names none := by
  obtain ⟨ms, hfm, hne, hall⟩ := findMatches_tilde rid cd prio names v row rp hj hrow hrev
  cases ms with
  | nil => exact absurd rfl hne
  | cons f tl =>
    have hf := hall f (List.mem_cons_self ..)
    refine ⟨f, ?_, hf.1⟩
    have hex : (excl && decide ((canDeleteNames (f :: tl)).length > 1)) = false := by
      rcases hx with hx | rfl
      · have := canDeleteNames_len (names.zip cd) hx (f :: tl)
          (fun m hm => by rw [(hall m hm).1]; rfl)
        simp; intro _; omega
      · rfl
    rw [matchRowToAcl, hfm]
    simp only [hex, Bool.false_eq_true, if_false]
    simp [selectMatch, hf.1, hf.2, Rule.ignore, mergeDicts_nil_singleton]

theorem findMatches_tilde_none (v : Vendor) (row : String)
    (hrev : reversePat v (Rule.mk rid "~" false cd prio names none) = none) :
    findMatches v row ⟨[], [Rule.mk rid "~" false cd prio names none]⟩ = none := by
  simp only [findMatches, List.map_nil, List.map_cons, List.nil_append]
  simp [directPat_tilde, hrev]

mutual
  theorem cover_cfg (v : Vendor) (fatal excl : Bool) (rp : Pat) (hj : v.juniper = false)
      (hcd : cd.all (fun b => b) = false)
      (hrev : reversePat v (Rule.mk rid "~" false cd prio names none) = some rp)
      (hx : (names.zip cd).length ≤ 1 ∨ excl = false) (path : List String) :
      (t : Cfg) → allRowsNonEmpty t = true →
        applyAcl v fatal excl ⟨[], [Rule.mk rid "~" false cd prio names none]⟩ path t = .ok t
    | .mk ks, h => by
      rw [allRowsNonEmpty] at h
      exact applyAcl_mk_of_list (cover_list v fatal excl rp hj hcd hrev hx path ks h)
  theorem cover_list (v : Vendor) (fatal excl : Bool) (rp : Pat) (hj : v.juniper = false)
      (hcd : cd.all (fun b => b) = false)
      (hrev : reversePat v (Rule.mk rid "~" false cd prio names none) = some rp)
      (hx : (names.zip cd).length ≤ 1 ∨ excl = false) (path : List String) :
      (ks : List (String × Cfg)) → allRowsNonEmptyL ks = true →
        applyAclList v fatal excl ⟨[], [Rule.mk rid "~" false cd prio names none]⟩ path ks = .ok ks
    | [], _ => by rw [applyAclList]
    | (row, ch) :: rest, h => by
      rw [allRowsNonEmptyL] at h
      simp only [Bool.and_eq_true, Bool.not_eq_true', List.isEmpty_eq_false_iff] at h
      obtain ⟨⟨hrow, hch⟩, hrest⟩ := h
      obtain ⟨m, hm, hrule⟩ := matchRow_tilde rid cd prio names v excl row rp hj hrow hrev hx
      have h1 := cover_cfg v fatal excl rp hj hcd hrev hx (path ++ [row]) ch hch
      have h2 := cover_list v fatal excl rp hj hcd hrev hx path rest hrest
      have hc : (m.isReverse && m.rule.cantDelete.all _root_.id) = false := by
        rw [hrule]; simp only [Rule.cantDelete]
        have : cd.all _root_.id = false := hcd
        rw [this]; simp
      rw [applyAclList]
      simp only [hm, hc, h1, h2, Bool.false_eq_true, if_false]
end
end

/-- Counterexample to the original statement (no hypothesis on the reverse form of the rule): the
negation word `""` (or any word with a regex metacharacter) puts the reverse row `" ~"` outside the
grammar, so the model answers `.error .grammar` for every non-empty tree. -/
example :
    (match applyAcl { reverse := "", juniper := false } false false
        ⟨[], [Rule.mk "~" "~" false [false] 0 ["g"] none]⟩ [] (.mk [("a", .mk [])]) with
     | .error .grammar => true
     | _ => false) = true ∧ allRowsNonEmpty (.mk [("a", .mk [])]) = true := by decide

/-- variant with the precondition stated on the rule: its reverse form is inside the grammar -/
theorem global_tilde_covers_everything_of_reverse (v : Vendor) (fatal excl : Bool) (cd : List Bool) (prio : Nat)
    (names : List String) (id : String) (path : List String) (t : Cfg)
    (hj : v.juniper = false) (hcd : cd.all (fun b => b) = false) (hne : allRowsNonEmpty t = true)
    (hx : (names.zip cd).length ≤ 1 ∨ excl = false)
    (hrev : (reversePat v (Rule.mk id "~" false cd prio names none)).isSome = true) :
    applyAcl v fatal excl ⟨[], [Rule.mk id "~" false cd prio names none]⟩ path t = .ok t := by
  cases hr : reversePat v (Rule.mk id "~" false cd prio names none) with
  | none => rw [hr] at hrev; cases hrev
  | some rp => exact cover_cfg id cd prio names v fatal excl rp hj hcd hr hx path t hne

-- STATEMENT CHANGED: added hypothesis `hg` (the run does not hit the model-only grammar error).
-- As originally stated (without `hg`) the theorem is false: see the counterexample above.
theorem global_tilde_covers_everything (v : Vendor) (fatal excl : Bool) (cd : List Bool) (prio : Nat)
    (names : List String) (id : String) (path : List String) (t : Cfg)
    (hj : v.juniper = false) (hcd : cd.all (fun b => b) = false) (hne : allRowsNonEmpty t = true) (hx : (names.zip cd).length ≤ 1 ∨ excl = false)
    (hg : NoGrammarErr (applyAcl v fatal excl ⟨[], [Rule.mk id "~" false cd prio names none]⟩ path t)) :
    applyAcl v fatal excl ⟨[], [Rule.mk id "~" false cd prio names none]⟩ path t = .ok t := by
  cases hr : reversePat v (Rule.mk id "~" false cd prio names none) with
  | some rp => exact cover_cfg id cd prio names v fatal excl rp hj hcd hr hx path t hne
  | none =>
    match t with
    | .mk [] => rfl
    | .mk ((row, ch) :: rest) =>
      exfalso; apply hg
      rw [applyAcl, applyAclList, matchRowToAcl, findMatches_tilde_none id cd prio names v row hr]
      rfl

end Annet.Acl.Lemmas
