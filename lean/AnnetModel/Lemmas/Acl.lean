/-
Helper lemmas for C06.
-/
import AnnetModel.Spec.Acl

namespace Annet.Acl.Lemmas
open Annet Annet.Acl Annet.Acl.Spec

theorem subtree_ordered (v : Vendor) (fatal excl : Bool) (rules : Rules) (path : List String) (t t' : Cfg)
    (h : applyAcl v fatal excl rules path t = .ok t') : Sub t' t := by
  sorry

theorem idempotent (v : Vendor) (rules : Rules) (path : List String) (t t' : Cfg)
    (h : applyAcl v false false rules path t = .ok t') :
    applyAcl v false false rules path t' = .ok t' := by
  sorry

theorem path_predicate (v : Vendor) (rules : Rules) (path : List String) (t t' : Cfg)
    (h : applyAcl v false false rules path t = .ok t') (p : List String) :
    p ∈ t'.paths ↔ (p ∈ t.paths ∧ (walk v rules p).isSome) := by
  sorry

theorem fatal_iff (v : Vendor) (rules : Rules) (path : List String) (t t0 : Cfg)
    (h : applyAcl v false false rules path t = .ok t0) :
    applyAcl v true false rules path t =
      (match firstUnmatched v rules path t with
       | some q => .error (.aclError q)
       | none => .ok t0) := by
  sorry

theorem global_tilde_covers_everything (v : Vendor) (fatal excl : Bool) (cd : List Bool) (prio : Nat)
    (names : List String) (id : String) (path : List String) (t : Cfg)
    (hj : v.juniper = false) (hcd : cd.all (fun b => b) = false) (hne : allRowsNonEmpty t = true) (hx : (names.zip cd).length ≤ 1 ∨ excl = false) :
    applyAcl v fatal excl ⟨[], [Rule.mk id "~" false cd prio names none]⟩ path t = .ok t := by
  sorry

end Annet.Acl.Lemmas
