/-
Helpers for `merge_monotone_partial` (C06): matching a configuration row that is not in negated form
against a well-formed plain dictionary without negation-word rows — only direct matches exist, and the
rules handed to the children are the union of the children of all matching rules.
-/
import AnnetModel.Lemmas.AclMergeDict
import AnnetModel.Lemmas.AclMergeRev

namespace Annet.Acl.Lemmas
open Annet Annet.Acl Annet.Acl.Spec Annet.Pattern Annet.Offside

/-- the row as the matcher sees it -/
def rowN (v : Vendor) (row : String) : String := if v.juniper then junActivate row else row

/-- rule `x` matches the row in direct form -/
def dmatch (v : Vendor) (row : String) (x : Rule) : Prop :=
  ∃ p, directPat x = some p ∧ (p.match? (rowN v row).toList).isSome = true

theorem dmatch_congr {v : Vendor} {row : String} {x y : Rule} (h : x.row = y.row) :
    dmatch v row x → dmatch v row y := by
  rintro ⟨p, hp, hm⟩
  exact ⟨p, by unfold directPat at hp ⊢; rw [← h]; exact hp, hm⟩

/-- the body of the `mapM`s of `findMatches` -/
def oneMatch (v : Vendor) (row : String) (rev : Bool) (rg : Rule × Bool) : Option (List Match) := do
  let (r, isGlobal) := rg
  let p ← if rev then reversePat v r else directPat r
  let rowN := if v.juniper then junActivate row else row
  match p.match? rowN.toList with
  | none => pure []
  | some _ =>
    pure [{ rule := r, crAllowed := !isGlobal && !rev && !r.ignore, isReverse := rev, prio := r.prio,
            shared := sharedChars row.toList (patternSource p) }]

theorem findMatches_eq (v : Vendor) (row : String) (rules : Rules) :
    findMatches v row rules =
      (do let d ← (rules.loc.map (·, false) ++ rules.glob.map (·, true)).mapM (oneMatch v row false)
          let r ← (rules.loc.map (·, false) ++ rules.glob.map (·, true)).mapM (oneMatch v row true)
          pure (sortStable (d.flatten ++ r.flatten))) := rfl

theorem mapM_some {α β : Type} (f : α → Option β) : ∀ (l : List α) (l' : List β), l.mapM f = some l' →
    (∀ y ∈ l', ∃ x ∈ l, f x = some y) ∧ (∀ x ∈ l, ∃ y ∈ l', f x = some y) := by
  intro l
  induction l with
  | nil =>
    intro l' h
    simp only [List.mapM_nil, Option.pure_def, Option.some.injEq] at h
    subst h; simp
  | cons a as ih =>
    intro l' h
    simp only [List.mapM_cons, Option.pure_def, Option.bind_eq_bind, Option.bind_eq_some_iff] at h
    obtain ⟨b, hb, bs, hbs, h⟩ := h
    simp only [Option.some.injEq] at h
    subst h
    obtain ⟨i1, i2⟩ := ih bs hbs
    constructor
    · intro y hy
      rcases List.mem_cons.1 hy with rfl | hy
      · exact ⟨a, List.mem_cons_self .., hb⟩
      · obtain ⟨x, hx, hfx⟩ := i1 y hy
        exact ⟨x, List.mem_cons_of_mem _ hx, hfx⟩
    · intro x hx
      rcases List.mem_cons.1 hx with rfl | hx
      · exact ⟨b, List.mem_cons_self .., hb⟩
      · obtain ⟨y, hy, hfx⟩ := i2 x hx
        exact ⟨y, List.mem_cons_of_mem _ hy, hfx⟩

theorem oneMatch_direct {v : Vendor} {row : String} {x : Rule} {ys : List Match}
    (h : oneMatch v row false (x, false) = some ys) :
    (∀ m ∈ ys, m.rule = x ∧ m.isReverse = false ∧ m.crAllowed = !x.ignore ∧ dmatch v row x) ∧
    (dmatch v row x → ∃ m ∈ ys, m.rule = x) := by
  unfold oneMatch at h
  simp only [Bool.false_eq_true, if_false, Option.bind_eq_bind, Option.bind_eq_some_iff] at h
  obtain ⟨p, hp, h⟩ := h
  cases hm : p.match? (if v.juniper = true then junActivate row else row).toList with
  | none =>
    rw [hm] at h
    simp only [Option.pure_def, Option.some.injEq] at h
    subst h
    refine ⟨by simp, ?_⟩
    rintro ⟨p', hp', hm'⟩
    rw [hp] at hp'
    simp only [Option.some.injEq] at hp'; subst hp'
    unfold rowN at hm'
    rw [hm] at hm'; cases hm'
  | some k =>
    rw [hm] at h
    simp only [Option.pure_def, Option.some.injEq] at h
    subst h
    have hd : dmatch v row x := ⟨p, hp, by unfold rowN; rw [hm]; rfl⟩
    constructor
    · intro m hmem
      simp only [List.mem_singleton] at hmem
      subst hmem
      exact ⟨rfl, rfl, by simp, hd⟩
    · intro _
      exact ⟨_, List.mem_singleton.2 rfl, rfl⟩

theorem oneMatch_reverse {v : Vendor} (hw : plainWord v.reverse.toList = true) {row : String}
    (hrow : negForm v row = false) {x : Rule}
    (hn : (v.reverse ++ " ").toList.isPrefixOf x.row.toList = false) {ys : List Match}
    (h : oneMatch v row true (x, false) = some ys) : ys = [] := by
  unfold oneMatch at h
  simp only [if_true, Option.bind_eq_bind, Option.bind_eq_some_iff] at h
  obtain ⟨p, hp, h⟩ := h
  cases hm : p.match? (if v.juniper = true then junActivate row else row).toList with
  | none =>
    rw [hm] at h
    simp only [Option.pure_def, Option.some.injEq] at h
    exact h.symm
  | some k =>
    exfalso
    obtain ⟨c, rest, hs, hc⟩ := reversePat_match v hw x hn p hp _ (by rw [hm]; rfl)
    unfold negForm at hrow
    rw [hs] at hrow
    simp only at hrow
    rw [hc] at hrow; cases hrow

/-- the matches of a row that is not in negated form -/
theorem findMatches_plain (v : Vendor) (hw : plainWord v.reverse.toList = true) (row : String)
    (hrow : negForm v row = false) (R : Rules) (hg : R.glob = [])
    (hn : ∀ x ∈ R.loc, (v.reverse ++ " ").toList.isPrefixOf x.row.toList = false)
    (ms : List Match) (h : findMatches v row R = some ms) :
    (∀ m ∈ ms, m.isReverse = false ∧ m.crAllowed = !m.rule.ignore ∧ m.rule ∈ R.loc ∧ dmatch v row m.rule) ∧
    (∀ x ∈ R.loc, dmatch v row x → ∃ m ∈ ms, m.rule = x) := by
  rw [findMatches_eq, hg] at h
  simp only [List.map_nil, List.append_nil, Option.bind_eq_bind, Option.bind_eq_some_iff,
    Option.pure_def, Option.some.injEq] at h
  obtain ⟨d, hd, r, hr, rfl⟩ := h
  obtain ⟨d1, d2⟩ := mapM_some _ _ _ hd
  obtain ⟨r1, _⟩ := mapM_some _ _ _ hr
  have hrnil : r.flatten = [] := by
    rw [List.flatten_eq_nil_iff]
    intro ys hys
    obtain ⟨xg, hxg, hf⟩ := r1 ys hys
    obtain ⟨x, hx, rfl⟩ := List.mem_map.1 hxg
    exact oneMatch_reverse hw hrow (hn x hx) hf
  rw [hrnil, List.append_nil]
  constructor
  · intro m hm
    rw [mem_sortStable, List.mem_flatten] at hm
    obtain ⟨ys, hys, hmy⟩ := hm
    obtain ⟨xg, hxg, hf⟩ := d1 ys hys
    obtain ⟨x, hx, rfl⟩ := List.mem_map.1 hxg
    obtain ⟨o1, o2, o3, o4⟩ := (oneMatch_direct hf).1 m hmy
    subst o1
    exact ⟨o2, o3, hx, o4⟩
  · intro x hx hdm
    obtain ⟨ys, hys, hf⟩ := d2 (x, false) (List.mem_map.2 ⟨x, hx, rfl⟩)
    obtain ⟨m, hm, hmr⟩ := (oneMatch_direct hf).2 hdm
    exact ⟨m, by rw [mem_sortStable, List.mem_flatten]; exact ⟨ys, hys, hm⟩, hmr⟩

/-! ### `selectMatch` -/

def selStep (acc : List Rule × List Rule) (m : Match) : List Rule × List Rule :=
  if m.crAllowed then
    match m.rule.children with
    | some (cl, cg) => (mergeDicts acc.1 cl, mergeDicts acc.2 cg)
    | none => acc
  else acc

theorem selFold_spec : ∀ (ms : List Match) (acc : List Rule × List Rule),
    (∀ m ∈ ms, m.crAllowed = true ∧ WFRule m.rule) → acc.2 = [] → WFRules acc.1 →
    (ms.foldl selStep acc).2 = [] ∧ WFRules (ms.foldl selStep acc).1 ∧
    ∀ p, InD (ms.foldl selStep acc).1 p ↔
      (InD acc.1 p ∨ ∃ m ∈ ms, ∃ c g, m.rule.children = some (c, g) ∧ InD c p) := by
  intro ms
  induction ms with
  | nil => intro acc _ h2 h1; exact ⟨h2, h1, fun p => by simp⟩
  | cons m ms ih =>
    intro acc hall h2 h1
    obtain ⟨hcr, hwf⟩ := hall m (List.mem_cons_self ..)
    obtain ⟨_, _, cl, hch, wcl⟩ := hwf.inv
    have hstep : selStep acc m = (mergeDicts acc.1 cl, []) := by
      unfold selStep
      rw [hcr, hch, h2]
      simp [mergeDicts_nil_nil]
    obtain ⟨mw, mD⟩ := mergeDicts_spec h1 wcl
    rw [List.foldl_cons, hstep]
    obtain ⟨i1, i2, i3⟩ := ih (mergeDicts acc.1 cl, []) (fun m' hm' => hall m' (List.mem_cons_of_mem _ hm')) rfl mw
    refine ⟨i1, i2, fun p => ?_⟩
    rw [i3 p, mD p]
    constructor
    · rintro ((h | h) | ⟨m', hm', c, g, hc, hp⟩)
      · exact .inl h
      · exact .inr ⟨m, List.mem_cons_self .., cl, [], hch, h⟩
      · exact .inr ⟨m', List.mem_cons_of_mem _ hm', c, g, hc, hp⟩
    · rintro (h | ⟨m', hm', c, g, hc, hp⟩)
      · exact .inl (.inl h)
      · rcases List.mem_cons.1 hm' with rfl | hm'
        · rw [hch] at hc
          simp only [Option.some.injEq, Prod.mk.injEq] at hc
          obtain ⟨rfl, rfl⟩ := hc
          exact .inl (.inr hp)
        · exact .inr ⟨m', hm', c, g, hc, hp⟩

theorem selectMatch_eq (f : Match) (tl : List Match) (R : Rules) :
    selectMatch (f :: tl) R =
      if f.rule.ignore then none else
      some (f, ⟨(if f.crAllowed then (f :: tl).foldl selStep ([], []) else ([], [])).1,
                mergeDicts (if f.crAllowed then (f :: tl).foldl selStep ([], []) else ([], [])).2 R.glob⟩) := by
  rfl

theorem selectMatch_plain (f : Match) (tl : List Match) (R : Rules) (hg : R.glob = [])
    (hall : ∀ m ∈ f :: tl, m.crAllowed = true ∧ WFRule m.rule) :
    ∃ cr, selectMatch (f :: tl) R = some (f, cr) ∧ cr.glob = [] ∧ WFRules cr.loc ∧
      ∀ p, InD cr.loc p ↔ (p = [] ∨ ∃ m ∈ f :: tl, ∃ c g, m.rule.children = some (c, g) ∧ InD c p) := by
  obtain ⟨hcr, hwf⟩ := hall f (List.mem_cons_self ..)
  obtain ⟨s1, s2, s3⟩ := selFold_spec (f :: tl) ([], []) hall rfl wfRules_nil
  refine ⟨⟨((f :: tl).foldl selStep ([], [])).1, []⟩, ?_, rfl, s2, fun p => ?_⟩
  · rw [selectMatch_eq]
    simp only [hwf.inv.2.1, Bool.false_eq_true, if_false, hcr, if_true, hg]
    rw [s1, mergeDicts_nil_nil]
  · rw [s3 p, inD_nil_iff]

/-! ### one row against a good dictionary -/

/-- plain compiled rules without negation-word rows, at every depth -/
def GoodRules (v : Vendor) (R : Rules) : Prop :=
  R.glob = [] ∧ WFRules R.loc ∧
  ∀ p, InD R.loc p → ∀ r ∈ p, (v.reverse ++ " ").toList.isPrefixOf r.toList = false

theorem inD_of_mem {l : List Rule} {x : Rule} (hx : x ∈ l) {c g : List Rule} (hc : x.children = some (c, g))
    {p : List String} (hp : InD c p) : InD l (x.row :: p) :=
  ⟨x, hx, rfl, c, g, hc, hp⟩

theorem matchRow_plain (v : Vendor) (hw : plainWord v.reverse.toList = true) (row : String)
    (hrow : negForm v row = false) (R : Rules) (hR : GoodRules v R)
    (res : Option (Match × Rules)) (h : matchRowToAcl v row R false = .ok res) :
    (res = none ∧ ∀ x ∈ R.loc, ¬ dmatch v row x) ∨
    (∃ m cr, res = some (m, cr) ∧ m.isReverse = false ∧ m.rule ∈ R.loc ∧ dmatch v row m.rule ∧
      GoodRules v cr ∧
      ∀ p, InD cr.loc p ↔
        (p = [] ∨ ∃ x ∈ R.loc, dmatch v row x ∧ ∃ c g, x.children = some (c, g) ∧ InD c p)) := by
  obtain ⟨hg, hwf, hneg⟩ := hR
  have hwfx : ∀ x ∈ R.loc, WFRule x := (wfList_iff _).1 hwf.1
  have hn : ∀ x ∈ R.loc, (v.reverse ++ " ").toList.isPrefixOf x.row.toList = false := by
    intro x hx
    obtain ⟨_, _, c, hc, _⟩ := (hwfx x hx).inv
    exact hneg [x.row] (inD_of_mem hx hc (p := []) trivial) _ (List.mem_singleton.2 rfl)
  unfold matchRowToAcl at h
  cases hfm : findMatches v row R with
  | none => rw [hfm] at h; cases h
  | some ms =>
    obtain ⟨f1, f2⟩ := findMatches_plain v hw row hrow R hg hn ms hfm
    rw [hfm] at h
    cases ms with
    | nil =>
      simp only [Except.ok.injEq] at h
      subst h
      refine .inl ⟨rfl, fun x hx hd => ?_⟩
      obtain ⟨m, hm, _⟩ := f2 x hx hd
      cases hm
    | cons f tl =>
      simp only [Bool.false_and, Bool.false_eq_true, if_false, Except.ok.injEq] at h
      have hall : ∀ m ∈ f :: tl, m.crAllowed = true ∧ WFRule m.rule := by
        intro m hm
        obtain ⟨_, a2, a3, _⟩ := f1 m hm
        have := hwfx _ a3
        exact ⟨by rw [a2, this.inv.2.1]; rfl, this⟩
      obtain ⟨cr, hsel, c1, c2, c3⟩ := selectMatch_plain f tl R hg hall
      rw [hsel] at h
      subst h
      obtain ⟨b1, _, b3, b4⟩ := f1 f (List.mem_cons_self ..)
      have hD : ∀ p, InD cr.loc p ↔
          (p = [] ∨ ∃ x ∈ R.loc, dmatch v row x ∧ ∃ c g, x.children = some (c, g) ∧ InD c p) := by
        intro p
        rw [c3 p]
        constructor
        · rintro (h | ⟨m, hm, c, g, hc, hp⟩)
          · exact .inl h
          · obtain ⟨_, _, a3, a4⟩ := f1 m hm
            exact .inr ⟨m.rule, a3, a4, c, g, hc, hp⟩
        · rintro (h | ⟨x, hx, hd, c, g, hc, hp⟩)
          · exact .inl h
          · obtain ⟨m, hm, rfl⟩ := f2 x hx hd
            exact .inr ⟨m, hm, c, g, hc, hp⟩
      refine .inr ⟨f, cr, rfl, b1, b3, b4, ⟨c1, c2, ?_⟩, hD⟩
      intro p hp r hr
      rcases (hD p).1 hp with rfl | ⟨x, hx, _, c, g, hc, hq⟩
      · cases hr
      · exact hneg (x.row :: p) (inD_of_mem hx hc hq) r (List.mem_cons_of_mem _ hr)

end Annet.Acl.Lemmas
