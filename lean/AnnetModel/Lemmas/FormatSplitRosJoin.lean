/-
C04 helper lemmas, part 5a: RouterOS `join` on the well-formed domain prints `rosText`:
`/path words` for every section, leaf rows behind `w * path length` blanks.
-/
import AnnetModel.Lemmas.FormatSplitText

namespace Annet.FormatSplit.Lemmas
open Annet Annet.Offside Annet.FormatSplit

/-! ## printed paths -/

/-- what `strip` needs: not empty, no whitespace at either end -/
def rj_good (r : Str) : Prop :=
  ∃ c cs, r = c :: cs ∧ pyIsSpace c = false ∧ (r.getLast?.any pyIsSpace) = false

theorem rj_good_of_rowBase (r : Str) (h : rowBase r = true) : rj_good r := by
  cases r with
  | nil => simp [rowBase] at h
  | cons c cs =>
    simp only [rowBase, Bool.and_eq_true, Bool.not_eq_true'] at h
    exact ⟨c, cs, rfl, h.1.1.1.1, h.1.2⟩

theorem rj_good_join (a b : Str) (ha : rj_good a) (hb : rj_good b) : rj_good (a ++ ' ' :: b) := by
  obtain ⟨c, cs, rfl, hc, _⟩ := ha
  obtain ⟨d, ds, rfl, _, hl⟩ := hb
  refine ⟨c, cs ++ ' ' :: d :: ds, by simp, hc, ?_⟩
  have e : (c :: cs ++ ' ' :: d :: ds) = (c :: cs ++ [' ']) ++ (d :: ds) := by simp
  rw [e, List.getLast?_append]
  cases hq : (d :: ds).getLast? with
  | none => simp at hq
  | some x => rw [hq] at hl; simpa using hl

theorem rj_strip (n : Nat) (r : Str) (hg : rj_good r) : strip (blanks n ++ r) = r := by
  obtain ⟨c, cs, rfl, hc, hlast⟩ := hg
  simp only [strip, lstrip_blanks]
  have h1 : lstrip (c :: cs) = c :: cs := by simp [lstrip, hc]
  rw [h1]
  have h2 : lstrip (c :: cs).reverse = (c :: cs).reverse := by
    have hh := List.head?_reverse (l := c :: cs)
    generalize (c :: cs).reverse = q at hh ⊢
    cases q with
    | nil => simp [lstrip]
    | cons a as =>
      simp only [List.head?_cons] at hh
      rw [← hh] at hlast
      simp only [Option.any_some] at hlast
      simp [lstrip, hlast]
  rw [h2, List.reverse_reverse]

theorem rj_pathStr_snoc (p : List String) (k : String) (hp : p ≠ []) :
    pathStr (p ++ [k]) = pathStr p ++ ' ' :: k.toList := by
  induction p with
  | nil => exact absurd rfl hp
  | cons a q ih =>
    cases q with
    | nil => simp [pathStr]
    | cons b q' =>
      have := ih (by simp)
      simp only [List.cons_append] at this ⊢
      simp only [pathStr, this, List.append_assoc, List.cons_append]

/-- the path is empty or printable -/
def rj_okp (p : List String) : Prop := p = [] ∨ rj_good (pathStr p)

theorem rj_rosWord_good (k : String) (h : rosWord k = true) : rj_good k.toList := by
  simp only [rosWord, Bool.and_eq_true] at h
  exact rj_good_of_rowBase _ h.1

theorem rj_okp_snoc (p : List String) (k : String) (hp : rj_okp p) (hk : rj_good k.toList) :
    rj_good (pathStr (p ++ [k])) := by
  rcases hp with rfl | hp
  · simpa [pathStr] using hk
  · have hne : p ≠ [] := by
      intro e; subst e
      obtain ⟨c, cs, e, _, _⟩ := hp
      simp [pathStr] at e
    rw [rj_pathStr_snoc p k hne]
    exact rj_good_join _ _ hp hk

/-! ## the expected token stream -/

mutual
  def rj_toks (p : List String) : Cfg → List Tok
    | .mk ks => rj_toksL p ks
  def rj_toksL (p : List String) : List (String × Cfg) → List Tok
    | [] => []
    | (k, c) :: rest =>
      if c.kids.isEmpty then .row k.toList :: rj_toksL p rest
      else .row (pathStr (p ++ [k])) :: .bb :: (rj_toks (p ++ [k]) c ++ .be :: rj_toksL p rest)
end

/-- `ctx` is the context chain of the section with path `p` -/
def rj_inv (p : List String) (ctx : List Str) : Prop :=
  (p = [] ∧ ctx = []) ∨ (rj_good (pathStr p) ∧ ∃ ctx', ctx = pathStr p :: ctx')

theorem rj_inv_okp (p : List String) (ctx : List Str) (h : rj_inv p ctx) : rj_okp p := by
  rcases h with ⟨h, _⟩ | ⟨h, _⟩
  · exact Or.inl h
  · exact Or.inr h

mutual
theorem rj_blocks : (c : Cfg) → ∀ (p : List String) (ctx : List Str), rj_inv p ctx →
      rosBody p c = true → rosBlocks ctx c = rj_toks p c
  | .mk ks => by
    intro p ctx hi hb
    simp only [rosBody] at hb
    simp only [rosBlocks, rj_toks]
    exact rj_blocksL ks p ctx false none false hi hb (Or.inr ⟨rfl, rfl⟩)
theorem rj_blocksL : (ks : List (String × Cfg)) → ∀ (p : List String) (ctx : List Str)
      (seen : Bool) (prev : Option Str) (b : Bool), rj_inv p ctx →
      rosBodyL p seen ks = true → ((seen = true ∧ b = false) ∨ (seen = false ∧ prev = none)) →
      rosBlocksL ctx prev b ks = rj_toksL p ks
  | [] => by
    intro p ctx seen prev b hi hb hs
    simp only [rosBlocksL, rj_toksL]
    rcases hs with ⟨_, rfl⟩ | ⟨_, rfl⟩ <;> simp
  | (k, c) :: rest => by
    intro p ctx seen prev b hi hb hs
    have h1 := rj_blocks c
    have h2 := rj_blocksL rest
    simp only [rosBodyL, Bool.and_eq_true] at hb
    simp only [rosBlocksL, rj_toksL]
    cases hk : c.kids.isEmpty
    case true =>
      simp only [hk, if_true, Bool.and_eq_true] at hb ⊢
      have hseen : seen = false := by simpa using hb.2.1.1
      subst hseen
      rcases hs with ⟨h, _⟩ | ⟨_, rfl⟩
      · cases h
      · rw [h2 p ctx false none true hi hb.2.2 (Or.inr ⟨rfl, rfl⟩)]
        simp
    case false =>
      simp only [hk, Bool.false_eq_true, if_false, Bool.and_eq_true] at hb ⊢
      obtain ⟨_, ⟨⟨hw, _⟩, hbc⟩, hbr⟩ := hb
      have hgk := rj_rosWord_good k hw
      have hgp := rj_okp_snoc p k (rj_inv_okp p ctx hi) hgk
      have hwrap : ¬ (b = true ∧ Option.any (fun x => !List.isEmpty x) prev = true) := by
        rcases hs with ⟨_, rfl⟩ | ⟨_, rfl⟩ <;> simp
      rw [if_neg hwrap]
      rcases hi with ⟨rfl, rfl⟩ | ⟨hg, ctx', rfl⟩
      · simp only [List.nil_append]
        rw [h1 ([] ++ [k]) [k.toList] (Or.inr ⟨hgp, [], by simp [pathStr]⟩) hbc]
        rw [h2 [] [] true prev false (Or.inl ⟨rfl, rfl⟩) hbr (Or.inl ⟨rfl, rfl⟩)]
        simp [pathStr]
      · have hne : p ≠ [] := by
          intro e; subst e
          obtain ⟨c, cs, e, _, _⟩ := hg
          simp [pathStr] at e
        have hpe : (pathStr p).isEmpty = false := by
          obtain ⟨c, cs, e, _, _⟩ := hg
          rw [e]; rfl
        have hps := rj_pathStr_snoc p k hne
        simp only [List.nil_append, hpe, Bool.not_false, if_true]
        rw [← hps]
        rw [h1 (p ++ [k]) (pathStr (p ++ [k]) :: pathStr p :: ctx') (Or.inr ⟨hgp, _, rfl⟩) hbc]
        rw [h2 p (pathStr p :: ctx') true (some (pathStr p)) false (Or.inr ⟨hg, ctx', rfl⟩) hbr
          (Or.inl ⟨rfl, rfl⟩)]
        simp
end

/-! ## formatting the expected token stream -/

/-- what a pending token prints when the next token is not `BlockBegin` -/
def rj_flush : Option Tok → List Str
  | some (.row s) => [s]
  | _ => []

theorem rj_F_row (pend : Option Tok) (s : Str) (r : List Tok) :
    rosFormatted pend (.row s :: r) = rj_flush pend ++ rosFormatted (some (.row s)) r := by
  simp only [rosFormatted]
  rcases pend with _ | t
  · rfl
  · cases t <;> rfl

theorem rj_F_be (pend : Option Tok) (r : List Tok) :
    rosFormatted pend (.be :: r) = rj_flush pend ++ rosFormatted (some .be) r := by
  simp only [rosFormatted]
  rcases pend with _ | t
  · rfl
  · cases t <;> rfl

theorem rj_F_bb (s : Str) (r : List Tok) :
    rosFormatted (some (.row s)) (.bb :: r) = ('/' :: strip s) :: rosFormatted (some .bb) r := by
  simp only [rosFormatted]
  rfl

mutual
theorem rj_fmt (w : Nat) : (c : Cfg) → ∀ (p : List String) (pend : Option Tok) (rest : List Tok),
      rj_okp p → rosBody p c = true →
      rosFormatted pend (indentBlocks (blanks w) (p.length : Int) (rj_toks p c ++ Tok.be :: rest))
        = rj_flush pend ++ rosText w p c
          ++ rosFormatted (some .be) (indentBlocks (blanks w) ((p.length : Int) - 1) rest)
  | .mk ks => by
    intro p pend rest hp hb
    simp only [rosBody] at hb
    simp only [rj_toks, rosText]
    exact rj_fmtL w ks p false pend rest hp hb
theorem rj_fmtL (w : Nat) : (ks : List (String × Cfg)) → ∀ (p : List String) (seen : Bool)
      (pend : Option Tok) (rest : List Tok),
      rj_okp p → rosBodyL p seen ks = true →
      rosFormatted pend (indentBlocks (blanks w) (p.length : Int) (rj_toksL p ks ++ Tok.be :: rest))
        = rj_flush pend ++ rosTextL w p ks
          ++ rosFormatted (some .be) (indentBlocks (blanks w) ((p.length : Int) - 1) rest)
  | [] => by
    intro p seen pend rest hp hb
    simp only [rj_toksL, rosTextL, List.nil_append, indentBlocks, rj_F_be, List.append_nil]
  | (k, c) :: more => by
    intro p seen pend rest hp hb
    have h1 := rj_fmt w c
    have h2 := rj_fmtL w more
    simp only [rosBodyL, Bool.and_eq_true] at hb
    simp only [rj_toksL, rosTextL]
    cases hk : c.kids.isEmpty
    case true =>
      simp only [hk, if_true, Bool.and_eq_true] at hb ⊢
      simp only [List.cons_append, indentBlocks, rj_F_row, Int.toNat_natCast, strMul_blanks]
      rw [h2 p seen _ rest hp hb.2.2]
      simp [rj_flush]
    case false =>
      simp only [hk, Bool.false_eq_true, if_false, Bool.and_eq_true] at hb ⊢
      obtain ⟨_, ⟨⟨hw, _⟩, hbc⟩, hbr⟩ := hb
      have hgk := rj_rosWord_good k hw
      have hgp := rj_okp_snoc p k hp hgk
      simp only [List.cons_append, List.append_assoc, indentBlocks, rj_F_row, rj_F_bb,
        Int.toNat_natCast, strMul_blanks, rj_strip _ _ hgp]
      have e1 : ((p.length : Int) + 1) = ((p ++ [k]).length : Int) := by simp
      rw [e1, h1 (p ++ [k]) (some .bb) _ (Or.inr hgp) hbc]
      have e2 : (((p ++ [k]).length : Int) - 1) = (p.length : Int) := by simp
      rw [e2, h2 p true (some .be) rest hp hbr]
      simp [rj_flush]
end

/-- the top level: sections only, no closing `BlockEnd` -/
theorem rj_fmt_top (w : Nat) (ks : List (String × Cfg)) : ∀ (seen : Bool) (pend : Option Tok),
    rj_flush pend = [] → ks.all (fun e => !e.2.kids.isEmpty) = true → rosBodyL [] seen ks = true →
    rosFormatted pend (indentBlocks (blanks w) 0 (rj_toksL [] ks)) = rosTextL w [] ks := by
  induction ks with
  | nil => intro seen pend _ _ _; simp [rj_toksL, rosTextL, indentBlocks, rosFormatted]
  | cons e more ih =>
    obtain ⟨k, c⟩ := e
    intro seen pend hf ha hb
    simp only [List.all_cons, Bool.and_eq_true, Bool.not_eq_true'] at ha
    have hk : c.kids.isEmpty = false := by simpa using ha.1
    simp only [rosBodyL, hk, Bool.and_eq_true] at hb
    simp only [Bool.false_eq_true, if_false, Bool.and_eq_true] at hb
    obtain ⟨_, ⟨⟨hw, _⟩, hbc⟩, hbr⟩ := hb
    have hgk := rj_rosWord_good k hw
    have hgp : rj_good (pathStr [k]) := rj_okp_snoc [] k (Or.inl rfl) hgk
    have hbc : rosBody [k] c = true := hbc
    simp only [rj_toksL, rosTextL, hk, Bool.false_eq_true, if_false]
    simp only [indentBlocks, rj_F_row, rj_F_bb, hf, List.nil_append]
    have e0 : strMul (blanks w) (0 : Int).toNat = blanks (w * 0) := by
      rw [← strMul_blanks]; rfl
    rw [e0, rj_strip _ _ hgp]
    have e1 : ((0 : Int) + 1) = (([k] : List String).length : Int) := by simp
    rw [e1, rj_fmt w c [k] (some .bb) _ (Or.inr hgp) hbc]
    have e2 : ((([k] : List String).length : Int) - 1) = 0 := by simp
    rw [e2, ih true (some .be) rfl ha.2 hbr]
    simp [rj_flush]

theorem ros_join_text (w : Nat) (t : Cfg) (h : rosTop t = true) :
    rosJoin (blanks w) t = joinNl (rosText w [] t) := by
  cases t with
  | mk ks =>
    simp only [rosTop, Cfg.kids, Bool.and_eq_true, rosBody] at h
    simp only [rosJoin, rosText, rosBlocks]
    rw [rj_blocksL ks [] [] false none false (Or.inl ⟨rfl, rfl⟩) h.2 (Or.inr ⟨rfl, rfl⟩)]
    rw [rj_fmt_top w ks false none rfl h.1 h.2]

end Annet.FormatSplit.Lemmas
