/-
C01 in the property's own words: after the patch has been executed, a second diff between the device and the
target is empty and the second patch is empty.  Statements fixed by Props/C01.lean.

Structure
* `all_unchanged`: the marked diff of two good levels that hold the same lines (`SameC`) consists of UNCHANGED
  items only (`markUnchanged` turns an AFFECTED item whose children are all UNCHANGED into UNCHANGED, so an
  AFFECTED item that survives has a child that is not UNCHANGED; by induction the children of a surviving AFFECTED
  item would all be UNCHANGED).  Hence `same_diff_empty`.
* `HWF`: well-formed at every level.  Executing ANY patch tree keeps it (`hwf_applyTree`); a hereditarily
  well-formed configuration that holds the same lines as a good one is good (`goodC_of_same`).  Hence
  `applied_good` from `nested_converges`.
* a diff of UNCHANGED items only gives a `Pre` on which every logic yields nothing (`itemsOfPre_unchanged`).
  Hence `nested_second_run_empty`.
-/
import AnnetModel.Lemmas.ConvergeNested

namespace Annet.ConvergeNested.Lemmas

section
open Annet Annet.Rules Annet.Device Annet.Device.Abs Annet.Converge Annet.ConvergeNested Annet.Diff
open Annet.Converge.Lemmas Annet.Device.Lemmas
open Annet.Diff.Spec Annet.Diff.Lemmas
open Annet.Patch Annet.Patch.Lemmas

/-! ### the diff of two levels that hold the same lines -/

theorem sameL_mem {rules : PRules} {b : List (String × Cfg)} : ∀ {a : List (String × Cfg)}, SameL rules a b →
    ∀ {row : String} {ca cb : Cfg} {m : PMatch} {cr : PRules}, (row, ca) ∈ a → (row, cb) ∈ b →
    classify rules row = some (m, cr) → SameC cr ca cb
  | [], _, _, _, _, _, _, h, _, _ => by cases h
  | (row0, c0) :: rest, hs, row, ca, cb, m, cr, ha, hb, hcl => by
    rw [SameL] at hs
    rcases List.mem_cons.1 ha with h1 | h1
    · cases h1
      have := hs.1 cb hb
      rw [hcl] at this
      exact this
    · exact sameL_mem hs.2 h1 hb hcl

/-- equal levels have equal sub-blocks -/
theorem same_sub {rules : PRules} {a b : List (String × Cfg)} (hwa : WF rules a) (hwb : WF rules b)
    (hs : SameC rules (.mk a) (.mk b)) {row : String} (hra : row ∈ a.map (·.1)) (hrb : row ∈ b.map (·.1)) :
    SameC (crOf rules row) (.mk (subOf a row)) (.mk (subOf b row)) := by
  obtain ⟨ea, hea, rfl⟩ := List.mem_map.1 hra
  obtain ⟨eb, heb, hrow⟩ := List.mem_map.1 hrb
  obtain ⟨ra, ca⟩ := ea
  obtain ⟨rb, cb⟩ := eb
  simp only at hrow
  subst hrow
  obtain ⟨cr, hcl⟩ := classify_matchOf (hwb.1 _ heb)
  have := sameL_mem (sameC_mk.1 hs).2 hea heb hcl
  rw [subOf_of_mem (rows_nodup hwa) hea, subOf_of_mem (rows_nodup hwb) heb, cfg_eta, cfg_eta, crOf_eq hcl]
  exact this

/-- an item of the diff of two levels with the same holders: UNCHANGED or AFFECTED, its row on both sides -/
theorem lvl_same_item {rules : PRules} {a b : List (String × Cfg)} {d : List DItem} (hl : Lvl rules a b d)
    (hh : ∀ s, holder rules a s = holder rules b s) {i : DItem} (hi : i ∈ d) :
    (i.op = .unchanged ∨ i.op = .affected) ∧ i.row ∈ a.map (·.1) ∧ i.row ∈ b.map (·.1) := by
  have hin : i ∈ d.filter (slotIs (i.m.rawRule, i.m.key)) := by
    rw [List.mem_filter]; exact ⟨hi, by simp [slotIs]⟩
  have hs := hl.slot (i.m.rawRule, i.m.key)
  rw [hh] at hs
  generalize d.filter (slotIs (i.m.rawRule, i.m.key)) = l at hin hs
  cases hb : holder rules b (i.m.rawRule, i.m.key) with
  | none =>
    rw [hb] at hs; simp only [SlotShape] at hs; rw [hs] at hin; cases hin
  | some rb =>
    have ha := hh (i.m.rawRule, i.m.key)
    rw [hb] at hs ha
    simp only [SlotShape, if_true] at hs
    obtain ⟨j, rfl, hop, hrow⟩ := hs
    simp only [List.mem_singleton] at hin
    subst hin
    rw [hrow]
    exact ⟨hop, (holder_some ha).1, (holder_some hb).1⟩

/-- the marked diff of two good levels that hold the same lines has UNCHANGED items only -/
theorem all_unchanged : ∀ (n : Nat) (d0 : List DItem) (rules : PRules) (a b : List (String × Cfg)),
    sizeOf d0 ≤ n → WF rules a → GoodL rules a → WF rules b → GoodL rules b →
    SameC rules (.mk a) (.mk b) → Lvl rules a b (markUnchanged d0) → DOKL rules a b (markUnchanged d0) →
    ∀ i ∈ markUnchanged d0, i.op = .unchanged := by
  intro n
  induction n with
  | zero =>
    intro d0 rules a b hn
    cases d0 with
    | nil => intro _ _ _ _ _ _ _ i hi; rw [markUnchanged_nil] at hi; cases hi
    | cons x xs => simp at hn
  | succ n ih =>
    intro d0 rules a b hn hwa hga hwb hgb hs hl hdok i hi
    obtain ⟨hop, hra, hrb⟩ := lvl_same_item hl (sameC_mk.1 hs).1 hi
    have hdi := dokL_iff.1 hdok i hi
    rw [markUnchanged_eq_map] at hi
    obtain ⟨i0, hi0, rfl⟩ := List.mem_map.1 hi
    obtain ⟨o, r, ch, m⟩ := i0
    have hsz : sizeOf ch ≤ n := by
      have h1 := List.sizeOf_lt_of_mem hi0
      have h2 : sizeOf (DItem.mk o r ch m) = 1 + sizeOf o + sizeOf r + sizeOf ch + sizeOf m := by simp
      omega
    rw [markItem_mk] at hop hdi hra hrb ⊢
    by_cases ho : o = .affected
    · subst ho
      simp only [beq_self_eq_true, if_true] at hop hdi hra hrb ⊢
      by_cases hall : (markUnchanged ch).all (·.op == .unchanged) = true
      · rw [if_pos hall]; rfl
      · exfalso
        rw [if_neg hall] at hdi hra hrb
        simp only [DItem.row] at hra hrb
        rw [dokI_mk_affected] at hdi
        obtain ⟨hwa', hga'⟩ := goodC_mk.1 (good_sub hga r)
        obtain ⟨hwb', hgb'⟩ := goodC_mk.1 (good_sub hgb r)
        have := ih ch (crOf rules r) (subOf a r) (subOf b r) hsz hwa' hga' hwb' hgb'
          (same_sub hwa hwb hs hra hrb) hdi.1 hdi.2
        apply hall
        rw [List.all_eq_true]
        intro j hj
        rw [beq_iff_eq]
        exact this j hj
    · have hb : (o == Op.affected) = false := by simpa using ho
      simp only [hb, Bool.false_eq_true, if_false, DItem.op] at hop ⊢
      rcases hop with h | h
      · exact h
      · exact (ho h).elim

/-- the diff of two configurations that hold the same lines slot by slot at every level succeeds and has UNCHANGED
items only (what `deviceMode` hands to `makePre`) -/
theorem same_diff_all_unchanged (rules : PRules) (a b : Cfg)
    (hr : NestedRules rules) (hga : GoodC rules a) (hgb : GoodC rules b) (hs : SameC rules a b) :
    ∃ d, makeDiff rules a b = .ok d ∧ Lvl rules a.kids b.kids d ∧ ∀ i ∈ d, i.op = .unchanged := by
  obtain ⟨ka⟩ := a
  obtain ⟨kb⟩ := b
  obtain ⟨hwa, hgla⟩ := goodC_mk.1 hga
  obtain ⟨hwb, hglb⟩ := goodC_mk.1 hgb
  obtain ⟨d0, hd0, hl, hd, -⟩ := diff_nested (adepthL (annL rules ka) + adepthL (annL rules kb) + 2) rules
    [.op .affected] ka kb hr hwa hgla hwb hglb (fun _ _ _ => rfl) (by omega)
  refine ⟨markUnchanged d0, ?_, hl, all_unchanged _ d0 rules ka kb (Nat.le_refl _) hwa hgla hwb hglb hs hl hd⟩
  unfold makeDiff
  simp only [annotate_good rules _ hga, annotate_good rules _ hgb, annC_kids, adepth_kids, Cfg.kids]
  rw [hd0]

/-- two configurations that hold the same lines slot by slot at every level have an empty diff -/
theorem same_diff_empty (rules : PRules) (a b : Cfg)
    (hr : NestedRules rules) (hga : GoodC rules a) (hgb : GoodC rules b) (hs : SameC rules a b) :
    ∃ d, makeDiff rules a b = .ok d ∧ stripUnchanged d = [] := by
  obtain ⟨d, hd, -, hall⟩ := same_diff_all_unchanged rules a b hr hga hgb hs
  refine ⟨d, hd, strip_of_all_unchanged d ?_⟩
  rw [List.all_eq_true]
  intro i hi
  rw [beq_iff_eq]
  exact hall i hi


/-! ### well-formed at every level -/

mutual
  /-- every level of every block is well-formed for the rules reached along its path -/
  def HWFL : PRules → List (String × Cfg) → Prop
    | _, [] => True
    | rules, (row, c) :: rest => HWF (crOf rules row) c ∧ HWFL rules rest
  def HWF : PRules → Cfg → Prop
    | rules, .mk ks => WF rules ks ∧ HWFL rules ks
end

theorem hwf_mk {rules : PRules} {ks : List (String × Cfg)} : HWF rules (.mk ks) ↔ WF rules ks ∧ HWFL rules ks := by
  rw [HWF]

theorem hwfL_iff {rules : PRules} : ∀ {ks : List (String × Cfg)},
    HWFL rules ks ↔ ∀ e ∈ ks, HWF (crOf rules e.1) e.2
  | [] => by rw [HWFL]; simp
  | (row, c) :: rest => by
    rw [HWFL, hwfL_iff (ks := rest)]
    simp

theorem hwf_nil (rules : PRules) : HWF rules (.mk []) := hwf_mk.2 ⟨wf_nil rules, hwfL_iff.2 (fun _ h => by cases h)⟩

mutual
  theorem hwf_of_good : ∀ (rules : PRules) (c : Cfg), GoodC rules c → HWF rules c
    | rules, .mk ks, h => by
      obtain ⟨hw, hg⟩ := goodC_mk.1 h
      exact hwf_mk.2 ⟨hw, hwfL_of_good rules ks hg⟩
  theorem hwfL_of_good : ∀ (rules : PRules) (ks : List (String × Cfg)), GoodL rules ks → HWFL rules ks
    | rules, [], _ => by rw [HWFL]; trivial
    | rules, (row, c) :: rest, h => by
      obtain ⟨m, cr, hcl, -, hgc⟩ := goodL_mem h row c List.mem_cons_self
      have hrest : GoodL rules rest := by rw [GoodL] at h; exact h.2
      rw [HWFL, crOf_eq hcl]
      exact ⟨hwf_of_good cr c hgc, hwfL_of_good rules rest hrest⟩
end

mutual
  /-- a hereditarily well-formed configuration that holds the same lines as a good one is good -/
  theorem goodC_of_same : ∀ (rules : PRules) (a b : Cfg), HWF rules a → SameC rules a b → GoodC rules b →
      GoodC rules a
    | rules, .mk ka, .mk kb, hh, hs, hg => by
      obtain ⟨hwa, hha⟩ := hwf_mk.1 hh
      obtain ⟨hwb, hgb⟩ := goodC_mk.1 hg
      obtain ⟨hhold, hsl⟩ := sameC_mk.1 hs
      refine goodC_mk.2 ⟨hwa, goodL_of_same rules ka hha ?_⟩
      intro row ca hca
      obtain ⟨s, hslot⟩ := Option.isSome_iff_exists.1 (hwa.1 _ hca)
      have hb : holder rules kb s = some row := by rw [← hhold]; exact holder_of_mem hwa hca hslot
      obtain ⟨eb, heb, hrow⟩ := List.mem_map.1 (holder_some hb).1
      obtain ⟨rb, cb⟩ := eb
      simp only at hrow
      subst hrow
      obtain ⟨m, cr, hcl, hu, hgc⟩ := goodL_mem hgb rb cb heb
      exact ⟨cb, m, cr, hcl, hu, hgc, sameL_mem hsl hca heb hcl⟩
  theorem goodL_of_same : ∀ (rules : PRules) (l : List (String × Cfg)), HWFL rules l →
      (∀ row ca, (row, ca) ∈ l → ∃ cb m cr, classify rules row = some (m, cr) ∧ uniqueMatch rules row ∧
        GoodC cr cb ∧ SameC cr ca cb) → GoodL rules l
    | rules, [], _, _ => goodL_nil rules
    | rules, (row, ca) :: rest, hh, hall => by
      rw [HWFL] at hh
      obtain ⟨cb, m, cr, hcl, hu, hgc, hsame⟩ := hall row ca List.mem_cons_self
      rw [crOf_eq hcl] at hh
      rw [GoodL, hcl]
      exact ⟨⟨hu, goodC_of_same cr ca cb hh.1 hsame hgc⟩,
        goodL_of_same rules rest hh.2 (fun row' ca' h' => hall row' ca' (List.mem_cons_of_mem _ h'))⟩
end


/-! ### executing a patch tree keeps every level well-formed -/

theorem replaceFirst_mem (rules : PRules) (m : PMatch) (c : String) : ∀ (done : Bool) (l : List (String × Cfg))
    (e : String × Cfg), e ∈ replaceFirst rules m c done l → e ∈ l ∨ e = (c, .mk [])
  | _, [], e, h => by rw [replaceFirst] at h; cases h
  | done, x :: rest, e, h => by
    rw [replaceFirst] at h
    split at h
    · split at h
      · rcases replaceFirst_mem rules m c true rest e h with h' | h'
        · exact Or.inl (List.mem_cons_of_mem _ h')
        · exact Or.inr h'
      · rcases List.mem_cons.1 h with h' | h'
        · exact Or.inr h'
        · rcases replaceFirst_mem rules m c true rest e h' with h'' | h''
          · exact Or.inl (List.mem_cons_of_mem _ h'')
          · exact Or.inr h''
    · rcases List.mem_cons.1 h with h' | h'
      · exact Or.inl (h' ▸ List.mem_cons_self)
      · rcases replaceFirst_mem rules m c done rest e h' with h'' | h''
        · exact Or.inl (List.mem_cons_of_mem _ h'')
        · exact Or.inr h''

theorem putLine_mem (rules : PRules) (m : PMatch) (c : String) (kids : List (String × Cfg)) (e : String × Cfg)
    (h : e ∈ putLine rules m c kids) : e ∈ kids ∨ e = (c, .mk []) := by
  unfold putLine at h
  split at h
  · exact Or.inl (List.mem_filter.1 h).1
  · split at h
    · exact replaceFirst_mem rules m c false kids e h
    · rcases List.mem_append.1 h with h' | h'
      · exact Or.inl h'
      · exact Or.inr (List.mem_singleton.1 h')

theorem hwf_putLine {rules : PRules} {m : PMatch} {cr : PRules} {c : String} {kids : List (String × Cfg)}
    (hcl : classify rules c = some (m, cr)) (hh : HWF rules (.mk kids)) :
    HWF rules (.mk (putLine rules m c kids)) := by
  obtain ⟨hw, hl⟩ := hwf_mk.1 hh
  refine hwf_mk.2 ⟨(putLine_refines rules m c kids hw (slotOf_of_classify hcl)).1, hwfL_iff.2 ?_⟩
  intro e he
  rcases putLine_mem rules m c kids e he with h | h
  · exact hwfL_iff.1 hl e h
  · rw [h]; exact hwf_nil _

theorem hwf_filter {rules : PRules} {kids : List (String × Cfg)} (p : String × Cfg → Bool)
    (hh : HWF rules (.mk kids)) : HWF rules (.mk (kids.filter p)) := by
  obtain ⟨hw, hl⟩ := hwf_mk.1 hh
  exact hwf_mk.2 ⟨wf_filter p hw, hwfL_iff.2 fun e he => hwfL_iff.1 hl e (List.mem_filter.1 he).1⟩

theorem hwf_execLeaf (env : Env) {rules : PRules} (c : String) {kids : List (String × Cfg)}
    (hh : HWF rules (.mk kids)) : HWF rules (.mk (execLeaf env rules c kids)) := by
  unfold execLeaf
  split
  · exact hh
  · split
    · exact hwf_filter _ hh
    · split
      · rename_i m cr hcl
        exact hwf_putLine hcl hh
      · exact hh

theorem inBlock_mem (inner : List (String × Cfg) → List (String × Cfg)) (c : String) :
    ∀ (l : List (String × Cfg)) (e : String × Cfg), e ∈ inBlock inner c l →
    e ∈ l ∨ ∃ ch, (c, Cfg.mk ch) ∈ l ∧ e = (c, .mk (inner ch))
  | [], e, h => by rw [inBlock] at h; cases h
  | (row, .mk ch) :: more, e, h => by
    rw [inBlock] at h
    split at h
    · rename_i hrc
      rw [beq_iff_eq] at hrc
      subst hrc
      rcases List.mem_cons.1 h with h' | h'
      · exact Or.inr ⟨ch, List.mem_cons_self, h'⟩
      · exact Or.inl (List.mem_cons_of_mem _ h')
    · rcases List.mem_cons.1 h with h' | h'
      · exact Or.inl (h' ▸ List.mem_cons_self)
      · rcases inBlock_mem inner c more e h' with h'' | ⟨ch', h1, h2⟩
        · exact Or.inl (List.mem_cons_of_mem _ h'')
        · exact Or.inr ⟨ch', List.mem_cons_of_mem _ h1, h2⟩

theorem hwf_inBlock {rules : PRules} (inner : List (String × Cfg) → List (String × Cfg)) (c : String)
    {kids : List (String × Cfg)} (hh : HWF rules (.mk kids))
    (hinner : ∀ ch, HWF (crOf rules c) (.mk ch) → HWF (crOf rules c) (.mk (inner ch))) :
    HWF rules (.mk (inBlock inner c kids)) := by
  obtain ⟨hw, hl⟩ := hwf_mk.1 hh
  refine hwf_mk.2 ⟨(inBlock_entry rules inner c kids hw).1, hwfL_iff.2 ?_⟩
  intro e he
  rcases inBlock_mem inner c kids e he with h | ⟨ch, h1, h2⟩
  · exact hwfL_iff.1 hl e h
  · rw [h2]
    exact hinner ch (hwfL_iff.1 hl _ h1)

mutual
  /-- executing any items keeps every level well-formed -/
  theorem hwf_applyItems (env : Env) : ∀ (rules : PRules) (items : List (String × Option PTree × SortKey))
      (kids : List (String × Cfg)), HWF rules (.mk kids) → HWF rules (.mk (applyItems env rules items kids))
    | rules, [], kids, h => by rw [applyItems]; exact h
    | rules, (row, none, _) :: rest, kids, h => by
      rw [applyItems]
      exact hwf_applyItems env rules rest _ (hwf_execLeaf env row h)
    | rules, (row, some t, _) :: rest, kids, h => by
      rw [applyItems]
      cases hcl : classify rules row with
      | none => exact hwf_applyItems env rules rest kids h
      | some mc =>
        obtain ⟨m, cr⟩ := mc
        simp only
        apply hwf_applyItems env rules rest
        apply hwf_inBlock _ _ (hwf_putLine hcl h)
        intro ch hch
        rw [crOf_eq hcl] at hch ⊢
        exact hwf_applyTree env cr t ch hch
  theorem hwf_applyTree (env : Env) : ∀ (rules : PRules) (t : PTree) (kids : List (String × Cfg)),
      HWF rules (.mk kids) → HWF rules (.mk (applyTree env rules t kids))
    | rules, .mk items, kids, h => by
      rw [applyTree]
      exact hwf_applyItems env rules items kids h
end

/-- the device state after the patch is again a configuration all of whose lines instantiate exactly one rule, one line
per (rule, key) -/
theorem applied_good (v : Vendor) (env : Env) (rules : PRules) (ordering : List ORule) (old new : Cfg)
    (r : Api.Result)
    (hr : NestedRules rules) (hgo : GoodC rules old) (hgn : GoodC rules new)
    (hc : CmdsOKAll v env rules) (hp : NoPin ordering)
    (hres : Api.deviceMode Patch.runLogic v rules ordering true old new = .ok r) :
    GoodC rules (.mk (applyTree env rules r.patch old.kids)) := by
  have hsame := nested_converges v env rules ordering old new r hr hgo hgn hc hp hres
  have hh : HWF rules (.mk (applyTree env rules r.patch old.kids)) := by
    apply hwf_applyTree
    rw [cfg_eta]
    exact hwf_of_good rules old hgo
  exact goodC_of_same rules _ new hh hsame hgn


/-! ### the patch of a diff of UNCHANGED items -/

theorem itemsOfRule_nil (rec : PRec) (v : Vendor) (ord : List ORule) (raw : String) (attrs : PAttrs) :
    ∀ (items : List PreItem), (∀ it ∈ items, Patch.runLogic v attrs it = .ok []) →
    itemsOfRule Patch.runLogic rec v ord true raw attrs items = .ok []
  | [], _ => by rw [itemsOfRule]
  | it :: rest, h => by
    rw [itemsOfRule, h it List.mem_cons_self]
    simp only [yieldsToItems]
    rw [itemsOfRule_nil rec v ord raw attrs rest (fun it' h' => h it' (List.mem_cons_of_mem _ h'))]
    rfl

theorem itemsOfPre_nil (rec : PRec) (v : Vendor) (ord : List ORule) :
    ∀ (P : List PreRule), (∀ R ∈ P, ∀ it ∈ rItems R, Patch.runLogic v (rAttrs R) it = .ok []) →
    itemsOfPre Patch.runLogic rec v ord true P = .ok []
  | [], _ => by rw [itemsOfPre]
  | .mk raw attrs items :: rest, h => by
    rw [itemsOfPre, itemsOfRule_nil rec v ord raw attrs items (h _ List.mem_cons_self)]
    simp only
    rw [itemsOfPre_nil rec v ord rest (fun R hR => h R (List.mem_cons_of_mem _ hR))]
    rfl

/-- every logic yields nothing for a diff of UNCHANGED items -/
theorem itemsOfPre_unchanged {rules : PRules} {old new : List (String × Cfg)} {d : List DItem}
    (hnr : NestedRules rules) (hl : Lvl rules old new d) (hall : ∀ i ∈ d, i.op = .unchanged)
    (rec : PRec) (v : Vendor) (ord : List ORule) :
    itemsOfPre Patch.runLogic rec v ord true (makePre d).rules = .ok [] := by
  have hP := makePre_inv d
  apply itemsOfPre_nil
  intro R hR it hit
  obtain ⟨hlg, -, -⟩ := rule_attrs_n hnr hl hP hR
  have hI := (hP.2.1 R hR).1
  have hget : ∀ op, op ≠ .unchanged → iGet it op = [] := by
    intro op hop
    rw [hI.2.1 it hit op]
    have : d.filter (sel (R.raw, it.key) op) = [] := by
      rw [List.filter_eq_nil_iff]
      intro i hi
      have := hall i hi
      simp only [sel, this, Bool.and_eq_true, beq_iff_eq, not_and]
      intro h
      exact (hop h.symm).elim
    rw [this]; rfl
  obtain ⟨k, A, Rm, M, F, U⟩ := it
  have hA := hget .added (by simp)
  have hR' := hget .removed (by simp)
  have hM := hget .moved (by simp)
  have hF := hget .affected (by simp)
  simp only [iGet] at hA hR' hM hF
  subst hA hR' hM hF
  rcases hlg with hlg | hlg <;> simp [Patch.runLogic, hlg, logicDefault, logicUndoRedo]

/-- deploying the patch makes the diff empty: a second run of the pipeline on the device state after the patch and the
same target reports no difference and produces an empty patch -/
theorem nested_second_run_empty (v : Vendor) (env : Env) (rules : PRules) (ordering : List ORule) (old new : Cfg)
    (r : Api.Result)
    (hr : NestedRules rules) (hgo : GoodC rules old) (hgn : GoodC rules new)
    (hc : CmdsOKAll v env rules) (hp : NoPin ordering)
    (hres : Api.deviceMode Patch.runLogic v rules ordering true old new = .ok r) :
    ∃ r2, Api.deviceMode Patch.runLogic v rules ordering true (.mk (applyTree env rules r.patch old.kids)) new = .ok r2 ∧
      r2.diff = [] ∧ r2.patch.items = [] := by
  have hsame := nested_converges v env rules ordering old new r hr hgo hgn hc hp hres
  have hgood := applied_good v env rules ordering old new r hr hgo hgn hc hp hres
  obtain ⟨d, hd, hl, hall⟩ := same_diff_all_unchanged rules _ new hr hgood hgn hsame
  have hstrip : stripUnchanged d = [] := by
    apply strip_of_all_unchanged
    rw [List.all_eq_true]
    intro i hi
    rw [beq_iff_eq]
    exact hall i hi
  refine ⟨{ diff := [], patch := .mk [] }, ?_, rfl, rfl⟩
  unfold Api.deviceMode
  rw [hd]
  simp only [Api.liftD, bind, Except.bind, makePatchWith]
  have e : preDepth (makePre d) + 2 = (preDepth (makePre d) + 1) + 1 := rfl
  rw [e, makePatchUnsorted, itemsOfPre_unchanged hr hl hall, hstrip]
  simp only [Except.map, buildTree, List.flatMap_nil, sortTree_nil]
  rfl

end

end Annet.ConvergeNested.Lemmas
