/-
End-to-end convergence of the pipeline on NESTED configurations (C01 stage 2).

Structure of the proof (files `ConvergeNestedBase`, `…Diff`, `…Patch`, `…Level`, this file)
* Base   rules: `mergeP [] x = x`, a uniquely matched row gets its rule's children as child rules
         (`classify_unique`, `child_rules`); the device level as a map slot ↦ entry (line with sub-block):
         `putLine_entry`, `del_entry`, `inBlock_entry`; the items of a patch tree act on one slot each
         (`itemStep_entry`) and executing them is, slot by slot, the fold of the actions of the items addressing the
         slot (`applyItems_entries`).
* Diff   the annotation of a good configuration (`annotate_good`); the marked diff of two good levels satisfies
         `Lvl` (per slot: nothing / REMOVED / ADDED / UNCHANGED-or-AFFECTED / REMOVED+ADDED) and, recursively,
         `DOKL` (children of ADDED/AFFECTED items are the diff of the sub-blocks; UNCHANGED items stand for equal
         sub-blocks): `diff_nested`, `makeDiff_nested`.
* Patch  `preDepth` bounds (`preDepth_child`), the ordering rules handed to a block carry no pin
         (`getOrder_noPin`), the yields of a bucket (`bucket_shape_n`), the raw items with their child trees
         (`NRel`), the raw items of a slot (`slot_cmds_n`).
* Level  the sorted items of a slot turn the old entry into the new one, given convergence of the child trees
         (`slot_final_n`, `level_converges`).
* here   induction on the fuel of `make_patch` (`nested_level`), then `nested_converges`.
-/
import AnnetModel.Spec.ConvergeNested
import AnnetModel.Lemmas.Converge
import AnnetModel.Lemmas.ConvergeNestedLevel

namespace Annet.ConvergeNested.Lemmas

section
open Annet Annet.Rules Annet.Device Annet.Device.Abs Annet.Converge Annet.ConvergeNested
open Annet.Converge.Lemmas Annet.Device.Lemmas
open Annet.Diff Annet.Patch Annet.Patch.Lemmas

/-- the row of an ADDED/AFFECTED item is a row of `new` -/
theorem lvl_put_row {rules : PRules} {old new : List (String × Cfg)} {d : List DItem} (hl : Lvl rules old new d)
    {i : DItem} (hi : i ∈ d) (hop : i.op = .added ∨ i.op = .affected) : i.row ∈ new.map (·.1) := by
  obtain ⟨hk, hm⟩ := hl.known i hi
  have hin : i ∈ d.filter (slotIs (i.m.rawRule, i.m.key)) := by
    rw [List.mem_filter]; exact ⟨hi, by simp [slotIs]⟩
  have hs := hl.slot (i.m.rawRule, i.m.key)
  generalize d.filter (slotIs (i.m.rawRule, i.m.key)) = l at hin hs
  have hne : ∀ j : DItem, j.op = .removed → i ≠ j := by
    intro j hj heq
    rw [heq, hj] at hop
    rcases hop with h | h <;> cases h
  cases ha : holder rules old (i.m.rawRule, i.m.key) with
  | none =>
    cases hb : holder rules new (i.m.rawRule, i.m.key) with
    | none => rw [ha, hb] at hs; simp only [SlotShape] at hs; rw [hs] at hin; cases hin
    | some rb =>
      rw [ha, hb] at hs
      obtain ⟨j, rfl, -, hrow⟩ := hs
      simp only [List.mem_singleton] at hin
      rw [hin, hrow]; exact (holder_some hb).1
  | some ra =>
    cases hb : holder rules new (i.m.rawRule, i.m.key) with
    | none =>
      rw [ha, hb] at hs
      obtain ⟨j, rfl, hjop, -⟩ := hs
      simp only [List.mem_singleton] at hin
      exact (hne j hjop hin).elim
    | some rb =>
      rw [ha, hb] at hs
      simp only [SlotShape] at hs
      split at hs
      · obtain ⟨j, rfl, -, hrow⟩ := hs
        simp only [List.mem_singleton] at hin
        rw [hin, hrow]; exact (holder_some hb).1
      · obtain ⟨j1, j2, hp, hj1, -, -, hrow⟩ := hs
        have := hp.mem_iff.1 hin
        simp only [List.mem_cons, List.not_mem_nil, or_false] at this
        rcases this with h | h
        · exact (hne j1 hj1 h).elim
        · rw [h, hrow]; exact (holder_some hb).1

/-- what the recursion of `make_patch` into a sub-`Pre` computes (with at least one unit of fuel) -/
theorem subTree_inv {n : Nat} {v : Vendor} {oc : List ORule} {p : Pre} {T : PTree}
    (h : subTree (makePatchUnsorted Patch.runLogic (n + 1) v true) oc (some p) = .ok T) :
    ∃ out, itemsOfPre Patch.runLogic (makePatchUnsorted Patch.runLogic n v true) v oc true p.rules = .ok out ∧
      T = buildTree out := by
  simp only [subTree] at h
  split at h
  · rename_i hemp
    cases h
    simp only [Pre.isEmpty, List.isEmpty_iff] at hemp
    rw [hemp]
    exact ⟨[], by rw [itemsOfPre], rfl⟩
  · rw [makePatchUnsorted] at h
    split at h
    · cases h
    · rename_i items hitems
      cases h
      exact ⟨items, hitems, rfl⟩

/-- every level of every block, by induction on the fuel of `make_patch` -/
theorem nested_level (env : Env) (v : Vendor) : ∀ (n : Nat) (rules : PRules) (ord : List ORule)
    (old new : List (String × Cfg)) (d : List DItem) (out : List RawItem),
    NestedRules rules → CmdsOKAll v env rules → NoPin ord →
    WF rules old → GoodL rules old → WF rules new → GoodL rules new →
    Lvl rules old new d → DOKL rules old new d → preDepth (makePre d) ≤ n →
    itemsOfPre Patch.runLogic (makePatchUnsorted Patch.runLogic n v true) v ord true (makePre d).rules = .ok out →
    SameC rules (.mk (applyItems env rules (sortTree (buildTree out)).items old)) (.mk new) := by
  intro n
  induction n with
  | zero =>
    intro rules ord old new d out hnr hc hp hwo hgo hwn hgn hl hdok hdep hout
    refine level_converges hnr hc.1 (noPin_top ord hp) hwo hwn hl hdok hout ?_
    intro i hi _ o T _ _
    have := preDepth_child hi
    omega
  | succ m ih =>
    intro rules ord old new d out hnr hc hp hwo hgo hwn hgn hl hdok hdep hout
    refine level_converges hnr hc.1 (noPin_top ord hp) hwo hwn hl hdok hout ?_
    intro i hi hop o T hord hsub
    obtain ⟨row, dir, ho⟩ := hord
    have hd1 := preDepth_child hi
    obtain ⟨out', hout', rfl⟩ := subTree_inv hsub
    have hrow := lvl_put_row hl hi hop
    obtain ⟨m', hcl, hu⟩ := goodL_rows hgn hrow
    obtain ⟨hnr', hc'⟩ := child_rules hnr hu hcl
    obtain ⟨hwo', hgo'⟩ := goodC_mk.1 (good_sub hgo i.row)
    obtain ⟨hwn', hgn'⟩ := goodC_mk.1 (good_sub hgn i.row)
    obtain ⟨hl', hdok'⟩ := dokI_sub (dokL_iff.1 hdok i hi) hop
    have := ih (crOf rules i.row) o.children (subOf old i.row) (subOf new i.row) i.children out' hnr'
      (hc' v env hc) (getOrder_noPin v ord row dir _ o hp ho) hwo' hgo' hwn' hgn' hl' hdok' (by omega) hout'
    rw [applyTree_eq]
    exact this

theorem deviceMode_inv' {v : Vendor} {rules : PRules} {ordering : List ORule} {old new : Cfg} {r : Api.Result}
    (hr : Api.deviceMode Patch.runLogic v rules ordering true old new = .ok r) :
    ∃ d out, makeDiff rules old new = .ok d ∧
      itemsOfPre Patch.runLogic (makePatchUnsorted Patch.runLogic (preDepth (makePre d) + 1) v true) v ordering true
        (makePre d).rules = .ok out ∧
      r.patch = sortTree (buildTree out) := by
  unfold Api.deviceMode at hr
  cases hmd : makeDiff rules old new with
  | error e => rw [hmd] at hr; cases hr
  | ok d =>
    rw [hmd] at hr
    simp only [Api.liftD, bind, Except.bind, makePatchWith] at hr
    have e : preDepth (makePre d) + 2 = (preDepth (makePre d) + 1) + 1 := rfl
    rw [e, makePatchUnsorted] at hr
    cases hit : itemsOfPre Patch.runLogic (makePatchUnsorted Patch.runLogic (preDepth (makePre d) + 1) v true) v
        ordering true (makePre d).rules with
    | error e => rw [hit] at hr; cases hr
    | ok out =>
      rw [hit] at hr
      simp only [Except.map, pure, Except.pure, Except.ok.injEq] at hr
      subst hr
      exact ⟨d, out, rfl, hit, rfl⟩

end

open Annet Annet.Rules Annet.Device Annet.Device.Abs Annet.Converge Annet.ConvergeNested

/-- Nested convergence: for a rulebook of any depth over `default`/`undo_redo` (no `%global`, distinct rule
texts), any ordering rulebook without `%order_reverse` pins, a vendor whose removal commands the device
understands at every level, and configurations of any depth whose lines instantiate exactly one rule at their
level with one line per (rule, key): executing the patch tree computed by the pipeline on `old` yields, at
every level of every block, exactly the lines `new` holds. -/
theorem nested_converges (v : Vendor) (env : Env) (rules : PRules) (ordering : List ORule) (old new : Cfg)
    (r : Api.Result)
    (hr : NestedRules rules) (hgo : GoodC rules old) (hgn : GoodC rules new)
    (hc : CmdsOKAll v env rules) (hp : NoPin ordering)
    (hres : Api.deviceMode Patch.runLogic v rules ordering true old new = .ok r) :
    SameC rules (.mk (applyTree env rules r.patch old.kids)) new := by
  obtain ⟨d, out, hmd, hout, hpatch⟩ := deviceMode_inv' hres
  obtain ⟨hl, hdok⟩ := makeDiff_nested hr hgo hgn hmd
  obtain ⟨ko⟩ := old
  obtain ⟨kn⟩ := new
  obtain ⟨hwo, hglo⟩ := goodC_mk.1 hgo
  obtain ⟨hwn, hgln⟩ := goodC_mk.1 hgn
  rw [hpatch, applyTree_eq]
  exact nested_level env v _ rules ordering ko kn d out hr hc hp hwo hglo hwn hgln hl hdok (by omega) hout

end Annet.ConvergeNested.Lemmas
