/-
C06, third clause, positive part: merging ACLs is monotone when no rule is `%global` / ignore and nothing
can match in negated form.  (With `%global` rules or negated-form matches the clause is false of the code:
F06a–c in Props/C06.lean.)

Vocabulary: `AclMergeDefs.lean`.  Proof structure:
* `AclMergeDict.lean`    — well-formed compiled dictionaries, their denotation `InD` (set of rule-row paths),
                           `mergeDicts` = union of denotations;
* `AclMergeCompile.lean` — `compileAcl` of a plain text is well-formed and denotes the row paths of the text
                           (`InDR`), hence `compileAcl [A] ⊆ compileAcl [A ++ B]`;
* `AclMergeRev.lean`     — the reverse form of a rule not starting with the negation word is
                           `<negation word> <row>` and matches only rows in negated form;
* `AclMergeMatch.lean`   — one row against a good dictionary: only direct matches; the children rules are
                           the union over all matching rules;
* here                   — induction over the configuration tree.
-/
import AnnetModel.Lemmas.AclMergeDefs
import AnnetModel.Lemmas.AclMergeCompile
import AnnetModel.Lemmas.AclMergeMatch

namespace Annet.Acl.Lemmas
open Annet Annet.Acl Annet.Acl.Spec

theorem noNegRuleL_iff (v : Vendor) (l : List RawRule) :
    NoNegRuleL v l = true ↔ ∀ x ∈ l, NoNegRule v x = true := by
  induction l with
  | nil => simp [NoNegRuleL]
  | cons x xs ih => simp [NoNegRuleL, ih]

theorem noNegRule_inv {v : Vendor} {x : RawRule} (h : NoNegRule v x = true) :
    (v.reverse ++ " ").toList.isPrefixOf (rawRow x).toList = false ∧ NoNegRuleL v (rawKids x) = true := by
  match x, h with
  | .mk row _ _ _ _ _ ch, h =>
    simp only [NoNegRule, Bool.and_eq_true, Bool.not_eq_true'] at h
    exact h

theorem noNeg_inDR (v : Vendor) : ∀ (p : List String) (l : List RawRule), NoNegRuleL v l = true → InDR l p →
    ∀ r ∈ p, (v.reverse ++ " ").toList.isPrefixOf r.toList = false := by
  intro p
  induction p with
  | nil => intro _ _ _ r hr; cases hr
  | cons r0 q ih =>
    rintro l hl ⟨x, hx, hxr, hq⟩ r hr
    obtain ⟨h1, h2⟩ := noNegRule_inv ((noNegRuleL_iff v l).1 hl x hx)
    rcases List.mem_cons.1 hr with rfl | hr
    · rw [← hxr]; exact h1
    · exact ih _ h2 hq r hr

/-! the inductive core: a good dictionary included in another good dictionary passes a sub-tree -/
mutual
  theorem mono_cfg (v : Vendor) (hw : plainWord v.reverse.toList = true) :
      (t : Cfg) → (R1 R2 : Rules) → (path1 path2 : List String) → (ca cab : Cfg) →
      GoodRules v R1 → GoodRules v R2 → (∀ p, InD R1.loc p → InD R2.loc p) → NoNegRow v t = true →
      applyAcl v false false R1 path1 t = .ok ca → applyAcl v false false R2 path2 t = .ok cab → Sub ca cab
    | .mk ks, R1, R2, path1, path2, ca, cab, g1, g2, hle, ht, h1, h2 => by
      obtain ⟨ka, hka, rfl⟩ := (applyAcl_ok_iff ..).1 h1
      obtain ⟨kab, hkab, rfl⟩ := (applyAcl_ok_iff ..).1 h2
      rw [NoNegRow] at ht
      exact Spec.Sub.mk (mono_list v hw ks R1 R2 path1 path2 ka kab g1 g2 hle ht hka hkab)
  theorem mono_list (v : Vendor) (hw : plainWord v.reverse.toList = true) :
      (ks : List (String × Cfg)) → (R1 R2 : Rules) → (path1 path2 : List String) →
      (ka kab : List (String × Cfg)) →
      GoodRules v R1 → GoodRules v R2 → (∀ p, InD R1.loc p → InD R2.loc p) → NoNegRowL v ks = true →
      applyAclList v false false R1 path1 ks = .ok ka → applyAclList v false false R2 path2 ks = .ok kab →
      SubL ka kab
    | [], R1, R2, path1, path2, ka, kab, _, _, _, _, h1, _ => by
      simp only [applyAclList, Except.ok.injEq] at h1
      subst h1; exact SubL.nil _
    | (row, ch) :: rest, R1, R2, path1, path2, ka, kab, g1, g2, hle, ht, h1, h2 => by
      rw [NoNegRowL] at ht
      simp only [Bool.and_eq_true, Bool.not_eq_true'] at ht
      obtain ⟨⟨hrow, hch⟩, hrest⟩ := ht
      rcases lenient_cons_inv h1 with ⟨_, _, hr1⟩ | ⟨m1, cr1, ch1, rest1, hm1, _, _, hch1, hrest1, rfl⟩
      · rcases lenient_cons_inv h2 with ⟨_, _, hr2⟩ | ⟨m2, cr2, ch2, rest2, _, _, _, _, hrest2, rfl⟩
        · exact mono_list v hw rest R1 R2 path1 path2 ka kab g1 g2 hle hrest hr1 hr2
        · exact SubL.skip _ (mono_list v hw rest R1 R2 path1 path2 ka rest2 g1 g2 hle hrest hr1 hrest2)
      · -- the row is matched under `R1`: it is matched under `R2`, with larger children rules
        rcases matchRow_plain v hw row hrow R1 g1 _ hm1 with
          ⟨hnone, _⟩ | ⟨m, cr, heq, _, hmem, hdm, gcr1, hD1⟩
        · cases hnone
        simp only [Option.some.injEq, Prod.mk.injEq] at heq
        obtain ⟨rfl, rfl⟩ := heq
        -- a counterpart of the matching rule in `R2`
        obtain ⟨c1, hc1⟩ : ∃ c, m1.rule.children = some (c, []) := by
          obtain ⟨_, _, c, hc, _⟩ := ((wfList_iff _).1 g1.2.1.1 _ hmem).inv
          exact ⟨c, hc⟩
        obtain ⟨y, hy, hyr, _⟩ := hle [m1.rule.row] (inD_of_mem hmem hc1 (p := []) trivial)
        have hdy : dmatch v row y := dmatch_congr hyr.symm hdm
        have key : ∀ res, matchRowToAcl v row R2 false = .ok res →
            ∃ m2 cr2, res = some (m2, cr2) ∧ m2.isReverse = false ∧ GoodRules v cr2 ∧
              ∀ p, InD cr1.loc p → InD cr2.loc p := by
          intro res hres
          rcases matchRow_plain v hw row hrow R2 g2 res hres with
            ⟨_, hno⟩ | ⟨m2, cr2, rfl, hrev, _, _, gcr2, hD2⟩
          · exact absurd hdy (hno y hy)
          · refine ⟨m2, cr2, rfl, hrev, gcr2, fun p hp => ?_⟩
            rw [hD2 p]
            rcases (hD1 p).1 hp with h | ⟨x, hx, hdx, c, g, hc, hq⟩
            · exact .inl h
            · obtain ⟨y', hy', hyr', c', g', hc', hq'⟩ := hle (x.row :: p) (inD_of_mem hx hc hq)
              exact .inr ⟨y', hy', dmatch_congr hyr'.symm hdx, c', g', hc', hq'⟩
        rcases lenient_cons_inv h2 with ⟨_, hm2 | ⟨m2, cr2, hm2, hc2⟩, _⟩ |
          ⟨m2, cr2, ch2, rest2, hm2, _, _, hch2, hrest2, rfl⟩
        · obtain ⟨_, _, h, _⟩ := key _ hm2
          cases h
        · obtain ⟨m2', cr2', h, hrev, _⟩ := key _ hm2
          simp only [Option.some.injEq, Prod.mk.injEq] at h
          obtain ⟨rfl, rfl⟩ := h
          rw [hrev] at hc2; simp at hc2
        · obtain ⟨m2', cr2', h, _, gcr2, hle'⟩ := key _ hm2
          simp only [Option.some.injEq, Prod.mk.injEq] at h
          obtain ⟨rfl, rfl⟩ := h
          exact SubL.keep row (mono_cfg v hw ch cr1 cr2 _ _ ch1 ch2 gcr1 gcr2 hle' hch hch1 hch2)
            (mono_list v hw rest R1 R2 path1 path2 rest1 rest2 g1 g2 hle hrest hrest1 hrest2)
end

end Annet.Acl.Lemmas

namespace Annet.Acl.Spec
open Annet Annet.Acl Annet.Acl.Lemmas

/-- everything ACL `A` passes alone, the merged ACL `A ++ B` passes too (as an order-preserving sub-tree).

STATEMENT CHANGED with respect to the first draft (which is false, see the counterexamples below):
* new hypothesis `hw`: the vendor's negation word is a plain literal word;
* `NoNegRow` now excludes rows in *negated form* as the matcher sees them (`negForm`): after
  `jun_activate` for Juniper, negation word compared ignoring ASCII case, followed by any whitespace
  character — not only rows with the literal prefix `<word><blank>`. -/
theorem merge_monotone_partial (v : Vendor) (A B : List RawRule) (t ca cab : Cfg)
    (hw : plainWord v.reverse.toList = true)
    (hA : PlainRawL A = true) (hB : PlainRawL B = true)
    (hnA : NoNegRuleL v A = true) (hnB : NoNegRuleL v B = true) (ht : NoNegRow v t = true)
    (h1 : applyAcl v false false (compileAcl [A]) [] t = .ok ca)
    (h2 : applyAcl v false false (compileAcl [A ++ B]) [] t = .ok cab) :
    Sub ca cab := by
  obtain ⟨a1, a2, a3⟩ := compileAcl_single_spec A hA
  obtain ⟨b1, b2, b3⟩ := compileAcl_append_spec A B hA hB
  have hnAB : NoNegRuleL v (A ++ B) = true := by
    rw [noNegRuleL_iff] at hnA hnB ⊢
    intro x hx
    rcases List.mem_append.1 hx with hx | hx
    · exact hnA x hx
    · exact hnB x hx
  have g1 : GoodRules v (compileAcl [A]) :=
    ⟨a1, a2, fun p hp => noNeg_inDR v p A hnA ((a3 p).1 hp)⟩
  have g2 : GoodRules v (compileAcl [A ++ B]) :=
    ⟨b1, b2, fun p hp => noNeg_inDR v p (A ++ B) hnAB ((b3 p).1 hp)⟩
  refine mono_cfg v hw t _ _ [] [] ca cab g1 g2 (fun p hp => ?_) ht h1 h2
  exact (b3 p).2 (inDR_mono (fun x hx => List.mem_append_left _ hx) p ((a3 p).1 hp))


/-! ### why the first draft of the statement had to change

First draft: no `hw`, and `NoNegRow₀` (below) in place of `NoNegRow` — "no configuration row has the literal
prefix `<negation word><blank>`".  Each example satisfies every hypothesis of that draft (`PlainRawL`,
`NoNegRuleL`, `NoNegRow₀`, both runs succeed) and yet the row passed by `A` alone is dropped by `A ++ B`:
the negated form of `B`'s `cant_delete` rule becomes the first match. -/
namespace MergeDraft

def resPaths (r : Except Err Cfg) : Option (List (List String)) :=
  match r with
  | .ok c => some c.paths
  | .error _ => none

mutual
  def NoNegRow₀ (v : Vendor) : Cfg → Bool
    | .mk ks => NoNegRowL₀ v ks
  def NoNegRowL₀ (v : Vendor) : List (String × Cfg) → Bool
    | [] => true
    | (row, ch) :: rest => !((v.reverse ++ " ").toList.isPrefixOf row.toList) && NoNegRow₀ v ch && NoNegRowL₀ v rest
end

def draftHyps (v : Vendor) (A B : List RawRule) (t : Cfg) : Bool :=
  PlainRawL A && PlainRawL B && NoNegRuleL v A && NoNegRuleL v B && NoNegRow₀ v t

def A₀ : List RawRule := [.mk "~" false false [false] 0 ["g0"] []]

/-- the row separates the negation word from the rest by a tab (any `\s+` is accepted by the pattern) -/
example :
    let B : List RawRule := [.mk "foo" false false [true] 2 ["g1"] []]
    let t : Cfg := .mk [("undo\tfoo", .mk [])]
    let v : Vendor := { reverse := "undo" }
    draftHyps v A₀ B t = true ∧ plainWord v.reverse.toList = true ∧ NoNegRow v t = false ∧
    resPaths (applyAcl v false false (compileAcl [A₀]) [] t) = some [["undo\tfoo"]] ∧
    resPaths (applyAcl v false false (compileAcl [A₀ ++ B]) [] t) = some [] := by decide

/-- a `(?i)` rule: its negated form is matched ignoring case -/
example :
    let B : List RawRule := [.mk "(?i)foo" false false [true] 2 ["g1"] []]
    let t : Cfg := .mk [("UNDO foo", .mk [])]
    let v : Vendor := { reverse := "undo" }
    draftHyps v A₀ B t = true ∧ plainWord v.reverse.toList = true ∧ NoNegRow v t = false ∧
    resPaths (applyAcl v false false (compileAcl [A₀]) [] t) = some [["UNDO foo"]] ∧
    resPaths (applyAcl v false false (compileAcl [A₀ ++ B]) [] t) = some [] := by decide

/-- Juniper: `inactive: ` is stripped from the row before matching -/
example :
    let B : List RawRule := [.mk "foo" false false [true] 2 ["g1"] []]
    let t : Cfg := .mk [("inactive: delete foo", .mk [])]
    let v : Vendor := { reverse := "delete", juniper := true }
    draftHyps v A₀ B t = true ∧ plainWord v.reverse.toList = true ∧ NoNegRow v t = false ∧
    resPaths (applyAcl v false false (compileAcl [A₀]) [] t) = some [["inactive: delete foo"]] ∧
    resPaths (applyAcl v false false (compileAcl [A₀ ++ B]) [] t) = some [] := by decide

/-- the negation word is a pattern token: the "negated form" `* foo` matches a row that does not contain
the word at all (here even the new `NoNegRow` holds: `hw` is needed) -/
example :
    let B : List RawRule := [.mk "foo" false false [true] 2 ["g1"] []]
    let t : Cfg := .mk [("x foo", .mk [])]
    let v : Vendor := { reverse := "*" }
    draftHyps v A₀ B t = true ∧ plainWord v.reverse.toList = false ∧ NoNegRow v t = true ∧
    resPaths (applyAcl v false false (compileAcl [A₀]) [] t) = some [["x foo"]] ∧
    resPaths (applyAcl v false false (compileAcl [A₀ ++ B]) [] t) = some [] := by decide

/-- the negation word contains a blank (two tokens, any whitespace between them) -/
example :
    let B : List RawRule := [.mk "foo" false false [true] 2 ["g1"] []]
    let t : Cfg := .mk [("a  b foo", .mk [])]
    let v : Vendor := { reverse := "a b" }
    draftHyps v A₀ B t = true ∧ plainWord v.reverse.toList = false ∧ NoNegRow v t = true ∧
    resPaths (applyAcl v false false (compileAcl [A₀]) [] t) = some [["a  b foo"]] ∧
    resPaths (applyAcl v false false (compileAcl [A₀ ++ B]) [] t) = some [] := by decide

/-- Non-vacuity of `merge_monotone_partial`: nested rules on both sides, `interface *` occurs in both
texts (merged by `_merge_toplevel`: parameters united, children concatenated); all hypotheses hold and
both runs succeed. -/
example :
    let A : List RawRule := [.mk "interface *" false false [true] 0 ["g0"] [.mk "description ~" false false [false] 0 ["g0"] []],
                             .mk "vlan *" false false [false] 0 ["g0"] []]
    let B : List RawRule := [.mk "interface *" false false [false] 1 ["g1"] [.mk "mtu *" false false [false] 0 ["g1"] []],
                             .mk "snmp ~" false false [false] 0 ["g1"] []]
    let t : Cfg := .mk [("interface Eth1", .mk [("description x y", .mk []), ("mtu 9000", .mk []), ("shutdown", .mk [])]),
                        ("snmp community c", .mk []), ("vlan 10", .mk []), ("undocumented", .mk [])]
    let v : Vendor := { reverse := "undo" }
    plainWord v.reverse.toList = true ∧ PlainRawL A = true ∧ PlainRawL B = true ∧
    NoNegRuleL v A = true ∧ NoNegRuleL v B = true ∧ NoNegRow v t = true ∧
    resPaths (applyAcl v false false (compileAcl [A]) [] t)
      = some [["interface Eth1"], ["interface Eth1", "description x y"], ["vlan 10"]] ∧
    resPaths (applyAcl v false false (compileAcl [A ++ B]) [] t)
      = some [["interface Eth1"], ["interface Eth1", "description x y"], ["interface Eth1", "mtu 9000"],
              ["snmp community c"], ["vlan 10"]] := by decide

end MergeDraft

end Annet.Acl.Spec
