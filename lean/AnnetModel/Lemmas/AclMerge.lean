/-
C06, third clause, positive part: merging ACLs is monotone when no rule is `%global` and nothing can match in
negated form.  (With `%global` rules or negated-form matches the clause is false of the code: F06a–c.)
Statement fixed by Props/C06.lean.
-/
import AnnetModel.Spec.Acl
import AnnetModel.Lemmas.Acl

namespace Annet.Acl.Spec
open Annet Annet.Acl

mutual
  /-- no `%global` and no ignore rule anywhere in a raw ACL tree -/
  def PlainRaw : RawRule → Bool
    | .mk _ ignore isGlobal _ _ _ children => !ignore && !isGlobal && PlainRawL children
  def PlainRawL : List RawRule → Bool
    | [] => true
    | r :: rest => PlainRaw r && PlainRawL rest
end

mutual
  /-- no rule row begins with the vendor's negation word -/
  def NoNegRule (v : Vendor) : RawRule → Bool
    | .mk row _ _ _ _ _ children => !((v.reverse ++ " ").toList.isPrefixOf row.toList) && NoNegRuleL v children
  def NoNegRuleL (v : Vendor) : List RawRule → Bool
    | [] => true
    | r :: rest => NoNegRule v r && NoNegRuleL v rest
end

mutual
  /-- no configuration row begins with the vendor's negation word -/
  def NoNegRow (v : Vendor) : Cfg → Bool
    | .mk ks => NoNegRowL v ks
  def NoNegRowL (v : Vendor) : List (String × Cfg) → Bool
    | [] => true
    | (row, ch) :: rest => !((v.reverse ++ " ").toList.isPrefixOf row.toList) && NoNegRow v ch && NoNegRowL v rest
end

/-- everything ACL `A` passes alone, the merged ACL `A ++ B` passes too (as an order-preserving sub-tree) -/
theorem merge_monotone_partial (v : Vendor) (A B : List RawRule) (t ca cab : Cfg)
    (hA : PlainRawL A = true) (hB : PlainRawL B = true)
    (hnA : NoNegRuleL v A = true) (hnB : NoNegRuleL v B = true) (ht : NoNegRow v t = true)
    (h1 : applyAcl v false false (compileAcl [A]) [] t = .ok ca)
    (h2 : applyAcl v false false (compileAcl [A ++ B]) [] t = .ok cab) :
    Sub ca cab := by
  sorry

end Annet.Acl.Spec
