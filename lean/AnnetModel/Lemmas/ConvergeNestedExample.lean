/-
Non-vacuity of `nested_converges`: a concrete vendor, device, three-level rulebook (`interface *` with children
`sub *` (undo_redo; child `ip`), `mtu` (undo_redo), `description`; and `sysname`), ordering rulebook and a pair of
three-level configurations mixing removed, added, affected and unchanged blocks, satisfying every hypothesis of
the theorem; and the instance of the theorem on them.

Part 1 is generic: rows matched by a literal rule `w` or a one-star rule `w *`, the removal command of a one-star
rule (`undo w <key>`) and what the device makes of it (`star_removal`).
-/
import AnnetModel.Lemmas.ConvergeNested
import AnnetModel.Lemmas.ConvergeExample

namespace Annet.ConvergeNested.Example
open Annet Annet.Rules Annet.Device Annet.Device.Abs Annet.Converge Annet.ConvergeNested Annet.Pattern
open Annet.Offside (pyIsSpace)
open Annet.Converge.Example (go_match classify_match lit_match isOk)
open Annet.ConvergeNested.Lemmas (ruleMatches go_spec)

/-! ### Part 1a: `matchRow` finds a match when some rule matches -/

theorem go_total (row : String) : ∀ (l : List (PRule × Bool)) (acc : List (PRule × Bool × List String)),
    (∀ p ∈ l, (parseRow false p.1.attrs.row.toList).isSome ∧ p.1.ignore = false) →
    ∃ res, matchRow.go row l acc = some (some res)
  | [], acc, _ => ⟨acc.reverse, rfl⟩
  | (r, isG) :: rest, acc, h => by
    obtain ⟨hp, hi⟩ := h (r, isG) List.mem_cons_self
    have hrest : ∀ p ∈ rest, (parseRow false p.1.attrs.row.toList).isSome ∧ p.1.ignore = false :=
      fun p hp => h p (List.mem_cons_of_mem _ hp)
    simp only at hp hi
    obtain ⟨pat, hpat⟩ := Option.isSome_iff_exists.1 hp
    simp only [matchRow.go, hpat]
    cases hm : pat.match? row.toList with
    | none => exact go_total row rest acc hrest
    | some key =>
      simp only [hi, Bool.false_eq_true, if_false]
      exact go_total row rest _ hrest

theorem classify_isSome_of_match {rules : PRules} {row : String} (hg : rules.glob = [])
    (hall : ∀ r ∈ rules.loc, (parseRow false r.attrs.row.toList).isSome ∧ r.ignore = false)
    {f : PRule} (hf : f ∈ rules.loc) (hm : ruleMatches row f = true) : (classify rules row).isSome := by
  have hall' : ∀ p ∈ rules.loc.map (·, false) ++ rules.glob.map (·, true),
      (parseRow false p.1.attrs.row.toList).isSome ∧ p.1.ignore = false := by
    intro p hp
    rw [hg] at hp
    simp only [List.map_nil, List.append_nil, List.mem_map] at hp
    obtain ⟨q, hq, rfl⟩ := hp
    exact hall q hq
  obtain ⟨res, hres⟩ := go_total row _ [] hall'
  have hs := go_spec row _ _ _ (fun p hp => (hall' p hp).2) hres
  have hne : res ≠ [] := by
    intro hnil
    rw [hnil, hg] at hs
    simp only [List.map_nil, List.append_nil, List.reverse_nil, List.nil_append, List.filter_map,
      List.map_map] at hs
    have := (List.map_eq_nil_iff.1 hs.symm)
    have hmem : f ∈ rules.loc.filter ((fun p : PRule × Bool => ruleMatches row p.1) ∘ fun x => (x, false)) := by
      rw [List.mem_filter]; exact ⟨hf, hm⟩
    rw [this] at hmem
    cases hmem
  unfold classify matchRow
  simp only [hres]
  cases res with
  | nil => exact (hne rfl).elim
  | cons x xs => obtain ⟨a, b, c⟩ := x; rfl

/-! ### Part 1b: one-star patterns -/

theorem stripLit_self (w rest : List Char) : stripLit false w (w ++ rest) = some rest := by
  induction w with
  | nil => cases rest <;> rfl
  | cons a w ih => simp [stripLit, charEq, ih]

theorem takeWhile_all {α} (p : α → Bool) : ∀ l : List α, (∀ x ∈ l, p x = true) → l.takeWhile p = l
  | [], _ => rfl
  | a :: l, h => by
    rw [List.takeWhile_cons, h a List.mem_cons_self]
    simp only [if_true]
    rw [takeWhile_all p l (fun x hx => h x (List.mem_cons_of_mem _ hx))]

theorem dropWhile_all {α} (p : α → Bool) : ∀ l : List α, (∀ x ∈ l, p x = true) → l.dropWhile p = []
  | [], _ => rfl
  | a :: l, h => by
    rw [List.dropWhile_cons, h a List.mem_cons_self]
    simp only [if_true]
    exact dropWhile_all p l (fun x hx => h x (List.mem_cons_of_mem _ hx))

theorem mem_takeWhile {α} (p : α → Bool) : ∀ (l : List α) (x : α), x ∈ l.takeWhile p → p x = true
  | [], x, h => by cases h
  | a :: l, x, h => by
    rw [List.takeWhile_cons] at h
    split at h
    · rename_i ha
      rcases List.mem_cons.1 h with rfl | h
      · exact ha
      · exact mem_takeWhile p l x h
    · cases h

/-- a word: non-empty, without white space -/
def IsWord (kw : List Char) : Prop := kw ≠ [] ∧ ∀ x ∈ kw, pyIsSpace x = false

/-- what a match of `w *` says: the row starts with the first character of `w`, the key is one word -/
theorem litstar_match {c : Char} {w l : List Char} {k : List (List Char)}
    (h : Pat.match? ⟨[.lit (c :: w), .star], false, false⟩ l = some k) :
    (∃ rest, l = c :: rest) ∧ ∃ kw, k = [kw] ∧ IsWord kw := by
  simp only [Pat.match?, matchToks, matchOne] at h
  cases hs : stripLit false (c :: w) l with
  | none => simp [hs] at h
  | some r =>
    simp only [hs, Option.map_some] at h
    constructor
    · cases l with
      | nil => simp [stripLit] at hs
      | cons b rest =>
        simp only [stripLit, charEq, Bool.false_eq_true, if_false] at hs
        split at hs
        · rename_i hcb
          exact ⟨rest, by rw [beq_iff_eq.1 hcb]⟩
        · cases hs
    · cases hsep : sep r with
      | none => simp [hsep] at h
      | some r2 =>
        simp only [hsep] at h
        by_cases hw : (r2.takeWhile fun c => !pyIsSpace c).isEmpty = true
        · simp [hw] at h
        · simp only [hw, Bool.false_eq_true, if_false] at h
          split at h
          · simp only [Option.map_some, Option.some.injEq, List.nil_append] at h
            refine ⟨_, h.symm, ?_, ?_⟩
            · intro hnil; rw [hnil] at hw; exact hw rfl
            · intro x hx
              have := mem_takeWhile _ _ x hx
              simpa using this
          · simp at h

/-- `w <word>` is matched by `w *` with key `<word>` -/
theorem litstar_match_self (w kw : List Char) (hk : IsWord kw) :
    Pat.match? ⟨[.lit w, .star], false, false⟩ (w ++ ' ' :: kw) = some [kw] := by
  obtain ⟨hne, hns⟩ := hk
  have hall : ∀ x ∈ kw, (!pyIsSpace x) = true := fun x hx => by rw [hns x hx]; rfl
  have hsep : sep (' ' :: kw) = some kw := by
    have hsp : pyIsSpace ' ' = true := by decide
    simp only [sep, hsp, if_true, List.dropWhile_cons]
    cases kw with
    | nil => exact (hne rfl).elim
    | cons a rest =>
      rw [List.dropWhile_cons, hns a List.mem_cons_self]
      rfl
  simp only [Pat.match?, matchToks, matchOne, stripLit_self, Option.map_some, hsep,
    takeWhile_all _ kw hall, dropWhile_all _ kw hall]
  simp [boundary, hne]

/-! ### Part 1c: the removal command of a one-star rule -/

theorem reverseCmd_star {v : Vendor} {attrs : PAttrs} {w kw : List Char}
    (hp : parseRow true attrs.row.toList = some ⟨[.lit w, .star], false, false⟩)
    (hw : (w == v.reverse.toList) = false) :
    Patch.reverseCmd v attrs [String.ofList kw] =
      some (String.ofList (v.reverse.toList ++ ' ' :: (w ++ ' ' :: kw))) := by
  simp only [Patch.reverseCmd, hp, Option.bind_eq_bind, Option.bind_some, makeReverse, hw,
    Bool.false_eq_true, if_false, List.map_cons, List.map_nil, String.toList_ofList, Pattern.format,
    Option.map_some, Option.pure_def, joinWords]
  simp [List.intercalate]

theorem stripReverse_ofList {env : Env} (hne : (env.reverse != "") = true) (x : List Char) :
    stripReverse env (String.ofList (env.reverse.toList ++ ' ' :: x)) = some (String.ofList x) := by
  unfold stripReverse
  simp only [String.toList_ofList]
  have e : env.reverse.toList ++ ' ' :: x = (env.reverse.toList ++ [' ']) ++ x := by simp
  have hpre : (env.reverse.toList ++ [' ']).isPrefixOf (env.reverse.toList ++ ' ' :: x) = true := by
    rw [e, List.isPrefixOf_iff_prefix]; exact List.prefix_append _ _
  rw [hne, hpre]
  simp only [Bool.and_self, if_true]
  rw [e, List.drop_left]

/-- the removal command of the one-star rule `f = w *` for the key `<word>` is `reverse w <word>`; the device strips
the negation word and finds the slot of `f` with that key (no other rule of the level matches `w <word>`) -/
theorem star_removal {v : Vendor} {env : Env} {rules : PRules} {f : PRule} {w kw : List Char}
    (hrev : env.reverse = v.reverse) (hne : (env.reverse != "") = true)
    (hg : rules.glob = [])
    (hall : ∀ r ∈ rules.loc, (parseRow false r.attrs.row.toList).isSome ∧ r.ignore = false)
    (hf : f ∈ rules.loc)
    (hp : parseRow false f.attrs.row.toList = some ⟨[.lit w, .star], false, false⟩)
    (hpt : parseRow true f.attrs.row.toList = some ⟨[.lit w, .star], false, false⟩)
    (hw : (w == v.reverse.toList) = false)
    (hexcl : ∀ f' ∈ rules.loc, ∀ pat k, parseRow false f'.attrs.row.toList = some pat →
      pat.match? (w ++ ' ' :: kw) = some k → f' = f)
    (hk : IsWord kw) :
    Patch.reverseCmd v f.attrs [String.ofList kw] =
      some (String.ofList (v.reverse.toList ++ ' ' :: (w ++ ' ' :: kw))) ∧
    stripReverse env (String.ofList (v.reverse.toList ++ ' ' :: (w ++ ' ' :: kw))) =
      some (String.ofList (w ++ ' ' :: kw)) ∧
    slotOf rules (String.ofList (w ++ ' ' :: kw)) = some (f.rawRule, [String.ofList kw]) := by
  refine ⟨reverseCmd_star hpt hw, by rw [← hrev]; exact stripReverse_ofList hne _, ?_⟩
  have hself := litstar_match_self w kw hk
  have hm : ruleMatches (String.ofList (w ++ ' ' :: kw)) f = true := by
    simp [ruleMatches, hp, String.toList_ofList, hself]
  have hsome := classify_isSome_of_match hg hall hf hm
  cases hcl : classify rules (String.ofList (w ++ ' ' :: kw)) with
  | none => rw [hcl] at hsome; cases hsome
  | some mc =>
    obtain ⟨m', cr'⟩ := mc
    obtain ⟨f', hf', h1, -, pat, k, h3, h4, h5⟩ := classify_match hcl
    rw [hg] at hf'
    rcases hf' with hf' | hf'
    · rw [String.toList_ofList] at h4
      have := hexcl f' hf' pat k h3 h4
      subst this
      rw [hp] at h3
      cases h3
      rw [hself] at h4
      cases h4
      rw [Device.Lemmas.slotOf_of_classify hcl, h1, h5]
      rfl
    · cases hf'

/-! ### Part 2: the instance -/

def v : Vendor := { reverse := "undo", exit := "quit" }
def env : Env := { reverse := "undo", exits := ["quit"] }

def mkAttrs (row logic : String) (parent : Bool) : PAttrs :=
  { row := row, logic := logic, diffLogic := "common.default_diff", parent := parent, forceCommit := false }

def ipAttrs : PAttrs := mkAttrs "ip" "common.default" false
def subAttrs : PAttrs := mkAttrs "sub *" "common.undo_redo" true
def mtuAttrs : PAttrs := mkAttrs "mtu" "common.undo_redo" false
def descAttrs : PAttrs := mkAttrs "description" "common.default" false
def ifAttrs : PAttrs := mkAttrs "interface *" "common.default" true
def sysAttrs : PAttrs := mkAttrs "sysname" "common.default" false

def ipRule : PRule := .mk "ip" false ipAttrs (some ([], []))
def subRule : PRule := .mk "sub *" false subAttrs (some ([ipRule], []))
def mtuRule : PRule := .mk "mtu" false mtuAttrs (some ([], []))
def descRule : PRule := .mk "description" false descAttrs (some ([], []))
def ifRule : PRule := .mk "interface *" false ifAttrs (some ([subRule, mtuRule, descRule], []))
def sysRule : PRule := .mk "sysname" false sysAttrs (some ([], []))

/-- the rulebook, and the rules of the blocks `interface *`, `sub *` and of the leaves -/
def rules : PRules := ⟨[ifRule, sysRule], []⟩
def rules1 : PRules := ⟨[subRule, mtuRule, descRule], []⟩
def rules2 : PRules := ⟨[ipRule], []⟩
def rules3 : PRules := ⟨[], []⟩

def ordering : List ORule :=
  [.mk "interface *" "interface *" false false none [.mk "mtu" "mtu" false false none []]]

def old : Cfg := .mk [
  ("interface a", .mk [("mtu 1500", .mk []), ("description x", .mk []), ("sub 1", .mk [("ip 1", .mk [])])]),
  ("interface b", .mk [("mtu 1", .mk [])]),
  ("sysname foo", .mk []),
  ("interface d", .mk [("sub 1", .mk [("ip 1", .mk [])])])]

def new : Cfg := .mk [
  ("interface a", .mk [("mtu 9000", .mk []), ("sub 1", .mk [("ip 2", .mk [])]), ("sub 2", .mk [("ip 3", .mk [])])]),
  ("interface c", .mk [("description y", .mk []), ("sub 7", .mk [])]),
  ("sysname foo", .mk []),
  ("interface d", .mk [("sub 1", .mk [("ip 1", .mk [])])])]

/-! #### the rulebook -/

theorem nestedRules : NestedRules rules := by
  refine ⟨rfl, ?_, ?_⟩
  · simp [rules, ifRule, sysRule, subRule, mtuRule, descRule, ipRule, NestedRulesL, NestedRule, ifAttrs, sysAttrs,
      subAttrs, mtuAttrs, descAttrs, ipAttrs, mkAttrs]
  · simp only [rules, ifRule, sysRule, subRule, mtuRule, descRule, ipRule, DistinctRawL, DistinctRawR,
      List.mem_cons, List.not_mem_nil, or_false, forall_eq_or_imp, forall_eq, PRule.rawRule, and_true, true_and,
      false_implies, implies_true]
    decide

theorem noPin : NoPin ordering := by
  simp [ordering, NoPin, NoPinRule]

/-! #### the configurations: a Boolean checker for `GoodC` -/

def wfB (rules : PRules) (ks : List (String × Cfg)) : Bool :=
  ks.all (fun e => (slotOf rules e.1).isSome) && decide ((ks.map fun e => slotOf rules e.1).Nodup)

theorem wfB_sound {rules : PRules} {ks : List (String × Cfg)} (h : wfB rules ks = true) : WF rules ks := by
  simp only [wfB, Bool.and_eq_true, List.all_eq_true, decide_eq_true_eq] at h
  exact ⟨h.1, h.2⟩

mutual
  def goodLB : PRules → List (String × Cfg) → Bool
    | _, [] => true
    | rules, (row, c) :: rest =>
      (match classify rules row with
        | some (_, cr) => decide ((rules.loc.filter (ruleMatches row)).length = 1) && goodCB cr c
        | none => false) && goodLB rules rest
  def goodCB : PRules → Cfg → Bool
    | rules, .mk ks => wfB rules ks && goodLB rules ks
end

mutual
  theorem goodLB_sound : ∀ (rules : PRules) (ks : List (String × Cfg)), goodLB rules ks = true → GoodL rules ks
    | _, [], _ => by rw [GoodL]; trivial
    | rules, (row, c) :: rest, h => by
      rw [goodLB, Bool.and_eq_true] at h
      rw [GoodL]
      refine ⟨?_, goodLB_sound rules rest h.2⟩
      have h1 := h.1
      split at h1
      · rename_i m cr hcl
        rw [Bool.and_eq_true, decide_eq_true_eq] at h1
        simp only [hcl]
        exact ⟨h1.1, goodCB_sound cr c h1.2⟩
      · cases h1
  theorem goodCB_sound : ∀ (rules : PRules) (c : Cfg), goodCB rules c = true → GoodC rules c
    | rules, .mk ks, h => by
      rw [goodCB, Bool.and_eq_true] at h
      rw [GoodC]
      exact ⟨wfB_sound h.1, goodLB_sound rules ks h.2⟩
end

-- (`decide +kernel`: the kernel evaluates the checker; plain `decide` runs out of memory on these terms)
theorem goodOld : GoodC rules old := goodCB_sound rules old (by decide +kernel)
theorem goodNew : GoodC rules new := goodCB_sound rules new (by decide +kernel)

theorem patchOk : ∃ r, Api.deviceMode Patch.runLogic v rules ordering true old new = .ok r := by
  have h : isOk (Api.deviceMode Patch.runLogic v rules ordering true old new) = true := by decide +kernel
  cases hr : Api.deviceMode Patch.runLogic v rules ordering true old new with
  | ok r => exact ⟨r, rfl⟩
  | error e => rw [hr] at h; cases h

/-! #### the device understands the commands, level by level -/

/-- `CmdsOK` from: known rows start with a character other than `q`, `u`; and the removal clause -/
theorem cmdsOK_mk {rules : PRules}
    (hfirst : ∀ row, (slotOf rules row).isSome → ∃ c rest, row.toList = c :: rest ∧ c ≠ 'q' ∧ c ≠ 'u')
    (hrem : ∀ row m cr, classify rules row = some (m, cr) →
      ∀ c, Patch.reverseCmd v m.attrs m.key = some c →
        ¬ env.exits.contains c = true ∧ ∃ r', stripReverse env c = some r' ∧ slotOf rules r' = some (m.rawRule, m.key)) :
    CmdsOK v env rules where
  sameReverse := rfl
  exitKnown := Or.inr (by decide)
  removal := hrem
  line := by
    intro row h
    obtain ⟨c, rest, hr, hq, hu⟩ := hfirst row h
    constructor
    · intro hcon
      have : row = "quit" := by simpa [env] using hcon
      rw [this] at hr
      have hl : "quit".toList = 'q' :: "uit".toList := by decide
      rw [hl] at hr
      exact hq (List.cons.inj hr).1.symm
    · have : stripReverse env row = none := by
        unfold stripReverse
        have hpre : env.reverse.toList ++ [' '] = 'u' :: "ndo ".toList := by decide
        rw [hpre, hr]
        have : ('u' :: "ndo ".toList).isPrefixOf (c :: rest) = false := by
          simp only [List.isPrefixOf, Bool.and_eq_false_iff, beq_eq_false_iff_ne]
          exact Or.inl (fun h => hu h.symm)
        simp only [this, Bool.and_false, Bool.false_eq_true, if_false]
      rw [this]; rfl

theorem undo_not_exit (x : List Char) : ¬ env.exits.contains (String.ofList (v.reverse.toList ++ x)) = true := by
  intro hcon
  have h1 : String.ofList (v.reverse.toList ++ x) = "quit" := by simpa [env] using hcon
  have h2 := congrArg String.toList h1
  rw [String.toList_ofList] at h2
  have hl : "quit".toList = 'q' :: "uit".toList := by decide
  have hu : v.reverse.toList = 'u' :: "ndo".toList := by decide
  rw [hl, hu] at h2
  exact absurd (List.cons.inj h2).1 (by decide)

theorem classify_rules3 (row : String) : classify rules3 row = none := rfl

theorem cmdsOK3 : CmdsOK v env rules3 :=
  cmdsOK_mk (fun row h => by simp [slotOf, classify_rules3] at h)
    (fun row m cr h => by rw [classify_rules3] at h; cases h)

theorem okL_nil : CmdsOKL v env [] := by rw [CmdsOKL]; trivial

theorem okL_cons {r : PRule} {rest : List PRule} (h1 : CmdsOKR v env r) (h2 : CmdsOKL v env rest) :
    CmdsOKL v env (r :: rest) := by rw [CmdsOKL]; exact ⟨h1, h2⟩

theorem okR_mk {a : String} {b : Bool} {c : PAttrs} {cl cg : List PRule} (h1 : CmdsOK v env ⟨cl, cg⟩)
    (h2 : CmdsOKL v env cl) : CmdsOKR v env (.mk a b c (some (cl, cg))) := by rw [CmdsOKR]; exact ⟨h1, h2⟩

theorem cmdsOKAll3 : CmdsOKAll v env rules3 := ⟨cmdsOK3, okL_nil⟩

theorem pm_eq {m : PMatch} {raw : String} {key : List String} {attrs : PAttrs}
    (h1 : m.rawRule = raw) (h2 : m.attrs = attrs) (h3 : m.key = key) : m = ⟨raw, key, attrs⟩ := by
  obtain ⟨a, b, c⟩ := m
  simp only at h1 h2 h3
  subst h1 h2 h3
  rfl

theorem isSome_classify {rules : PRules} {row : String} (h : (slotOf rules row).isSome) :
    ∃ m cr, classify rules row = some (m, cr) := by
  cases hcl : classify rules row with
  | none => simp [slotOf, hcl] at h
  | some mc => exact ⟨mc.1, mc.2, rfl⟩

/-! ##### the block `sub *`: rule `ip` -/

def mIp : PMatch := ⟨"ip", [], ipAttrs⟩

theorem classify_cases2 {row : String} {m : PMatch} {cr : PRules} (h : classify rules2 row = some (m, cr)) :
    m = mIp ∧ ∃ rest, row.toList = 'i' :: rest := by
  obtain ⟨f, hf, h1, h2, pat, k, h3, h4, h5⟩ := classify_match h
  rcases hf with hf | hf
  · simp only [rules2, List.mem_cons, List.not_mem_nil, or_false] at hf
    subst hf
    have hp : parseRow false ipRule.attrs.row.toList = some ⟨[.lit ('i' :: "p".toList)], false, false⟩ := by decide
    rw [hp] at h3
    cases h3
    obtain ⟨rfl, hrest⟩ := lit_match h4
    exact ⟨pm_eq h1 h2 h5, hrest⟩
  · cases hf

theorem cmdsOK2 : CmdsOK v env rules2 := by
  apply cmdsOK_mk
  · intro row h
    obtain ⟨m, cr, hcl⟩ := isSome_classify h
    obtain ⟨-, rest, hr⟩ := classify_cases2 hcl
    exact ⟨_, rest, hr, by decide, by decide⟩
  · intro row m cr hcl c hrev
    obtain ⟨rfl, -⟩ := classify_cases2 hcl
    have : Patch.reverseCmd v mIp.attrs mIp.key = some "undo ip" := by decide +kernel
    rw [this] at hrev
    cases hrev
    exact ⟨by decide +kernel, "ip", by decide +kernel, by decide +kernel⟩

theorem cmdsOKAll2 : CmdsOKAll v env rules2 := by
  exact ⟨cmdsOK2, okL_cons (okR_mk cmdsOK3 okL_nil) okL_nil⟩

/-! ##### the block `interface *`: rules `sub *`, `mtu`, `description` -/

def mMtu : PMatch := ⟨"mtu", [], mtuAttrs⟩
def mDesc : PMatch := ⟨"description", [], descAttrs⟩

theorem classify_cases1 {row : String} {m : PMatch} {cr : PRules} (h : classify rules1 row = some (m, cr)) :
    (∃ kw, IsWord kw ∧ m = ⟨"sub *", [String.ofList kw], subAttrs⟩ ∧ ∃ rest, row.toList = 's' :: rest) ∨
    (m = mMtu ∧ ∃ rest, row.toList = 'm' :: rest) ∨ (m = mDesc ∧ ∃ rest, row.toList = 'd' :: rest) := by
  obtain ⟨f, hf, h1, h2, pat, k, h3, h4, h5⟩ := classify_match h
  rcases hf with hf | hf
  · simp only [rules1, List.mem_cons, List.not_mem_nil, or_false] at hf
    rcases hf with rfl | rfl | rfl
    · have hp : parseRow false subRule.attrs.row.toList = some ⟨[.lit ('s' :: "ub".toList), .star], false, false⟩ := by
        decide
      rw [hp] at h3
      cases h3
      obtain ⟨hrest, kw, rfl, hkw⟩ := litstar_match h4
      exact Or.inl ⟨kw, hkw, pm_eq h1 h2 h5, hrest⟩
    · have hp : parseRow false mtuRule.attrs.row.toList = some ⟨[.lit ('m' :: "tu".toList)], false, false⟩ := by decide
      rw [hp] at h3
      cases h3
      obtain ⟨rfl, hrest⟩ := lit_match h4
      exact Or.inr (Or.inl ⟨pm_eq h1 h2 h5, hrest⟩)
    · have hp : parseRow false descRule.attrs.row.toList = some ⟨[.lit ('d' :: "escription".toList)], false, false⟩ := by
        decide
      rw [hp] at h3
      cases h3
      obtain ⟨rfl, hrest⟩ := lit_match h4
      exact Or.inr (Or.inr ⟨pm_eq h1 h2 h5, hrest⟩)
  · cases hf

theorem cmdsOK1 : CmdsOK v env rules1 := by
  apply cmdsOK_mk
  · intro row h
    obtain ⟨m, cr, hcl⟩ := isSome_classify h
    rcases classify_cases1 hcl with ⟨_, -, -, rest, hr⟩ | ⟨-, rest, hr⟩ | ⟨-, rest, hr⟩
    · exact ⟨_, rest, hr, by decide, by decide⟩
    · exact ⟨_, rest, hr, by decide, by decide⟩
    · exact ⟨_, rest, hr, by decide, by decide⟩
  · intro row m cr hcl c hrev
    rcases classify_cases1 hcl with ⟨kw, hkw, rfl, -⟩ | ⟨rfl, -⟩ | ⟨rfl, -⟩
    · have hall : ∀ r ∈ rules1.loc, (parseRow false r.attrs.row.toList).isSome ∧ r.ignore = false := by
        intro r hr
        simp only [rules1, List.mem_cons, List.not_mem_nil, or_false] at hr
        rcases hr with rfl | rfl | rfl <;> exact ⟨by decide, rfl⟩
      obtain ⟨e1, e2, e3⟩ := star_removal (v := v) (env := env) (rules := rules1) (f := subRule)
        (w := "sub".toList) (kw := kw) rfl (by decide) rfl hall (by simp [rules1])
        (by decide) (by decide) (by decide)
        (by
          intro f' hf' pat k h3 h4
          simp only [rules1, List.mem_cons, List.not_mem_nil, or_false] at hf'
          have hs : "sub".toList = 's' :: "ub".toList := by decide
          rcases hf' with rfl | rfl | rfl
          · rfl
          · have hp : parseRow false mtuRule.attrs.row.toList = some ⟨[.lit ('m' :: "tu".toList)], false, false⟩ := by
              decide
            rw [hp] at h3; cases h3
            obtain ⟨-, rest, hr⟩ := lit_match h4
            rw [hs] at hr
            exact absurd (List.cons.inj hr).1 (by decide)
          · have hp : parseRow false descRule.attrs.row.toList =
                some ⟨[.lit ('d' :: "escription".toList)], false, false⟩ := by decide
            rw [hp] at h3; cases h3
            obtain ⟨-, rest, hr⟩ := lit_match h4
            rw [hs] at hr
            exact absurd (List.cons.inj hr).1 (by decide))
        hkw
      have e1' : Patch.reverseCmd v subAttrs [String.ofList kw] = _ := e1
      rw [e1'] at hrev
      cases hrev
      exact ⟨undo_not_exit _, _, e2, e3⟩
    · have : Patch.reverseCmd v mMtu.attrs mMtu.key = some "undo mtu" := by decide +kernel
      rw [this] at hrev
      cases hrev
      exact ⟨by decide +kernel, "mtu", by decide +kernel, by decide +kernel⟩
    · have : Patch.reverseCmd v mDesc.attrs mDesc.key = some "undo description" := by decide +kernel
      rw [this] at hrev
      cases hrev
      exact ⟨by decide +kernel, "description", by decide +kernel, by decide +kernel⟩

theorem cmdsOKAll1 : CmdsOKAll v env rules1 := by
  exact ⟨cmdsOK1, okL_cons (okR_mk cmdsOK2 cmdsOKAll2.2)
    (okL_cons (okR_mk cmdsOK3 okL_nil) (okL_cons (okR_mk cmdsOK3 okL_nil) okL_nil))⟩

/-! ##### the top level: rules `interface *`, `sysname` -/

def mSys : PMatch := ⟨"sysname", [], sysAttrs⟩

theorem classify_cases0 {row : String} {m : PMatch} {cr : PRules} (h : classify rules row = some (m, cr)) :
    (∃ kw, IsWord kw ∧ m = ⟨"interface *", [String.ofList kw], ifAttrs⟩ ∧ ∃ rest, row.toList = 'i' :: rest) ∨
    (m = mSys ∧ ∃ rest, row.toList = 's' :: rest) := by
  obtain ⟨f, hf, h1, h2, pat, k, h3, h4, h5⟩ := classify_match h
  rcases hf with hf | hf
  · simp only [rules, List.mem_cons, List.not_mem_nil, or_false] at hf
    rcases hf with rfl | rfl
    · have hp : parseRow false ifRule.attrs.row.toList =
          some ⟨[.lit ('i' :: "nterface".toList), .star], false, false⟩ := by decide
      rw [hp] at h3
      cases h3
      obtain ⟨hrest, kw, rfl, hkw⟩ := litstar_match h4
      exact Or.inl ⟨kw, hkw, pm_eq h1 h2 h5, hrest⟩
    · have hp : parseRow false sysRule.attrs.row.toList = some ⟨[.lit ('s' :: "ysname".toList)], false, false⟩ := by
        decide
      rw [hp] at h3
      cases h3
      obtain ⟨rfl, hrest⟩ := lit_match h4
      exact Or.inr ⟨pm_eq h1 h2 h5, hrest⟩
  · cases hf

theorem cmdsOK0 : CmdsOK v env rules := by
  apply cmdsOK_mk
  · intro row h
    obtain ⟨m, cr, hcl⟩ := isSome_classify h
    rcases classify_cases0 hcl with ⟨_, -, -, rest, hr⟩ | ⟨-, rest, hr⟩
    · exact ⟨_, rest, hr, by decide, by decide⟩
    · exact ⟨_, rest, hr, by decide, by decide⟩
  · intro row m cr hcl c hrev
    rcases classify_cases0 hcl with ⟨kw, hkw, rfl, -⟩ | ⟨rfl, -⟩
    · have hall : ∀ r ∈ rules.loc, (parseRow false r.attrs.row.toList).isSome ∧ r.ignore = false := by
        intro r hr
        simp only [rules, List.mem_cons, List.not_mem_nil, or_false] at hr
        rcases hr with rfl | rfl <;> exact ⟨by decide, rfl⟩
      obtain ⟨e1, e2, e3⟩ := star_removal (v := v) (env := env) (rules := rules) (f := ifRule)
        (w := "interface".toList) (kw := kw) rfl (by decide) rfl hall (by simp [rules])
        (by decide) (by decide) (by decide)
        (by
          intro f' hf' pat k h3 h4
          simp only [rules, List.mem_cons, List.not_mem_nil, or_false] at hf'
          have hs : "interface".toList = 'i' :: "nterface".toList := by decide
          rcases hf' with rfl | rfl
          · rfl
          · have hp : parseRow false sysRule.attrs.row.toList =
                some ⟨[.lit ('s' :: "ysname".toList)], false, false⟩ := by decide
            rw [hp] at h3; cases h3
            obtain ⟨-, rest, hr⟩ := lit_match h4
            rw [hs] at hr
            exact absurd (List.cons.inj hr).1 (by decide))
        hkw
      have e1' : Patch.reverseCmd v ifAttrs [String.ofList kw] = _ := e1
      rw [e1'] at hrev
      cases hrev
      exact ⟨undo_not_exit _, _, e2, e3⟩
    · have : Patch.reverseCmd v mSys.attrs mSys.key = some "undo sysname" := by decide +kernel
      rw [this] at hrev
      cases hrev
      exact ⟨by decide +kernel, "sysname", by decide +kernel, by decide +kernel⟩

theorem cmdsOKAll : CmdsOKAll v env rules := by
  exact ⟨cmdsOK0, okL_cons (okR_mk cmdsOK1 cmdsOKAll1.2) (okL_cons (okR_mk cmdsOK3 okL_nil) okL_nil)⟩

/-! #### the instance -/

/-- the instance of `nested_converges`: the patch tree of this pair exists and, executed on `old`, gives `new`
slot by slot at every level of every block -/
theorem nested_converges_instance :
    ∃ r, Api.deviceMode Patch.runLogic v rules ordering true old new = .ok r ∧
      SameC rules (.mk (applyTree env rules r.patch old.kids)) new := by
  obtain ⟨r, hr⟩ := patchOk
  exact ⟨r, hr, Lemmas.nested_converges v env rules ordering old new r nestedRules goodOld goodNew cmdsOKAll noPin hr⟩

end Annet.ConvergeNested.Example
