/-
Helper lemmas for the worker pool (C12), part 3: consequences of `Inv` - payloads,
no abort / no drop under the hypotheses, the loop-exit lemma `break_exact`, and the
rule-specific invariants behind the exactly-once theorems.
-/
import AnnetModel.Lemmas.PoolInv

namespace Annet.Pool

theorem mem_submitted {c : Cfg} {r : Res} (h : r ∈ c.submitted) : ∃ id ∈ c.ids, r = c.res id := by
  simp only [Cfg.submitted, List.mem_map] at h
  obtain ⟨id, hid, rfl⟩ := h
  exact ⟨id, hid, rfl⟩

theorem Inv.mem_sub {c : Cfg} {s : State} (h : Inv c s) {r : Res}
    (hr : r ∈ s.delivered ++ inflight c s ++ s.dropped) : ∃ id ∈ c.ids, r = c.res id :=
  mem_submitted (h.cons.mem_iff.mpr hr)

/-- Nothing aborts and nothing is dropped under the two hypotheses. -/
structure Safe (c : Cfg) (s : State) : Prop where
  noAbort : Tolerant c → s.pc.isAborted = false
  noDrop : Sendable c → s.dropped = []

theorem safe_init (c : Cfg) : Safe c (init c) := ⟨fun _ => rfl, fun _ => rfl⟩

theorem safe_step {c : Cfg} {s s' : State} {e : Ev} (hi : Inv c s) (h : Safe c s)
    (hs : Step c s e s') : Safe c s' := by
  constructor
  · intro htol
    have hna := h.noAbort htol
    cases hs with
    | abort r ret hpc htf hexc =>
      have hmem : r ∈ s.delivered ++ inflight c s ++ s.dropped := by
        simp [inflight, hpc, PC.gotL]
      obtain ⟨id, hid, rfl⟩ := hi.mem_sub hmem
      rcases htol with ht | ht
      · simp [ht] at htf
      · have := ht id hid
        simp [Cfg.res, this] at hexc
    | post got ret hpc hab =>
      simp only [postStep]
      split <;> simp [PC.isAborted]
    | _ => simp_all [State.setW, PC.isAborted]
  · intro hsend
    have hnd := h.noDrop hsend
    cases hs with
    | flushDrop i st r b hab hw hns =>
      have hmem : r ∈ s.delivered ++ inflight c s ++ s.dropped := by
        have := mem_of_getElem? hw
        simp only [inflight, List.mem_append, List.mem_flatMap]
        refine Or.inl (Or.inr (Or.inl (Or.inr ⟨_, this, ?_⟩)))
        simp [Worker.flight]
      obtain ⟨id, hid, rfl⟩ := hi.mem_sub hmem
      have := hsend id hid
      simp [Cfg.res, this] at hns
    | feederDie i st r b hab hw hns hexi =>
      have hmem : r ∈ s.delivered ++ inflight c s ++ s.dropped := by
        have := mem_of_getElem? hw
        simp only [inflight, List.mem_append, List.mem_flatMap]
        refine Or.inl (Or.inr (Or.inl (Or.inr ⟨_, this, ?_⟩)))
        simp [Worker.flight]
      obtain ⟨id, hid, rfl⟩ := hi.mem_sub hmem
      have := hsend id hid
      simp [Cfg.res, this] at hns
    | post got ret hpc hab =>
      simp only [postStep]
      split <;> simp [hnd]
    | _ => simp_all [State.setW]

theorem safe_reach {c : Cfg} {ok : State → Ev → Prop} {s : State} (h : ReachP c ok s) : Safe c s := by
  induction h with
  | init => exact safe_init c
  | step e hr _ hs ih => exact safe_step (inv_reach hr) ih (step_sound hs)

/-- The loop-exit lemma: leaving the loop because every id was counted, or because the pool is
empty, the last `get` timed out and the pipe is (still) empty, leaves nothing behind. -/
theorem break_exact {c : Cfg} {s : State} {got : Option Res} {ret : List Nat} (h : Inv c s)
    (hpc : s.pc = .post got ret) (hdrop : s.dropped = []) (hpar : 0 < c.parallel)
    (hcase : s.tasksDone + got.toList.length ≥ c.ids.length ∨ (got = none ∧ s.pool = [] ∧ s.doneQ = [])) :
    (s.delivered ++ got.toList).Perm c.submitted := by
  have hcons := h.cons
  have hgot : s.pc.gotL = got.toList := by rw [hpc]; cases got <;> rfl
  simp only [inflight, hgot, hdrop, List.append_nil] at hcons
  rcases hcase with hA | ⟨hg, hpool, hq⟩
  · have hlen := hcons.length_eq
    simp only [Cfg.submitted, List.length_append, List.length_map] at hlen
    have hcount := h.count
    have h1 : s.doneQ = [] := List.eq_nil_of_length_eq_zero (by omega)
    have h2 : s.ws.flatMap (Worker.flight c) = [] := List.eq_nil_of_length_eq_zero (by omega)
    have h3 : taskIds s.taskQ = [] := List.eq_nil_of_length_eq_zero (by omega)
    rw [h1, h2, h3] at hcons
    simpa using hcons.symm
  · subst hg
    have hall : ∀ w ∈ s.ws, w.st = .exited .zero := by
      intro w hw
      obtain ⟨i, hi⟩ := List.mem_iff_getElem?.mp hw
      exact h.reaped i w hi (by simp [hpool])
    have hF : s.ws.flatMap (Worker.flight c) = [] := by
      simp only [List.flatMap_eq_nil_iff]
      intro w hw
      have hst := hall w hw
      have hb := h.exitedBuf w hw (by simp [hst])
      simp [Worker.flight, hb, hst]
    have hT : taskIds s.taskQ = [] := by
      by_cases hz : 0 < s.ws.length
      · apply h.idsFirst
        rw [h.stopsLive]
        have : s.ws.countP (fun w => w.st.live) = 0 := by
          simp only [List.countP_eq_zero]
          intro w hw
          simp [hall w hw]
        omega
      · have hsz := h.size
        have hn : c.ids.length = 0 := by
          simp only [Cfg.poolSize] at hsz
          split at hsz <;> omega
        have hsub : c.submitted = [] := by
          simp [Cfg.submitted, List.eq_nil_of_length_eq_zero hn]
        rw [hsub] at hcons
        have := hcons.nil_eq
        simp at this
        exact this.2.2.2
    rw [hq, hF, hT] at hcons
    simpa using hcons.symm

theorem no_worker_step_of_all_exited {c : Cfg} {s s' : State} {e : Ev} (hi : Inv c s)
    (hall : ∀ w ∈ s.ws, w.st = .exited .zero) (hs : Step c s e s') : e = .parent := by
  cases hs with
  | takeStop i d b q hab hw hq => have := hall _ (mem_of_getElem? hw); simp at this
  | takeTask i d b id q hab hw hq => have := hall _ (mem_of_getElem? hw); simp at this
  | finish i d id b hab hw => have := hall _ (mem_of_getElem? hw); simp at this
  | flushSend i st r b hab hw hsend =>
    have h1 := hall _ (mem_of_getElem? hw)
    have := hi.exitedBuf _ (mem_of_getElem? hw) (by simp at h1; simp [h1])
    simp at this
  | flushDrop i st r b hab hw hsend =>
    have h1 := hall _ (mem_of_getElem? hw)
    have := hi.exitedBuf _ (mem_of_getElem? hw) (by simp at h1; simp [h1])
    simp at this
  | feederDie i st r b hab hw hsend hexi =>
    have h1 := hall _ (mem_of_getElem? hw)
    have := hi.exitedBuf _ (mem_of_getElem? hw) (by simp at h1; simp [h1])
    simp at this
  | exitNine i hab hw => have := hall _ (mem_of_getElem? hw); simp at this
  | exitZero i hab hw => have := hall _ (mem_of_getElem? hw); simp at this
  | _ => rfl

/-- Worker events do not touch what the parent owns. -/
theorem worker_step_frame {c : Cfg} {s s' : State} {e : Ev} (hs : Step c s e s') (he : e ≠ .parent) :
    s'.pc = s.pc ∧ s'.delivered = s.delivered ∧ s'.drained = s.drained ∧ s'.pool = s.pool ∧
    s'.tasksDone = s.tasksDone ∧ ((∀ w, e ≠ .flush w) → s'.doneQ = s.doneQ) := by
  cases hs <;> simp_all [State.setW]

structure InvH (c : Cfg) (s : State) : Prop where
  win : s.pc.afterTimeout = true → s.doneQ = []
  fin : s.pc = .done → s.delivered.Perm c.submitted

theorem invH_step {c : Cfg} {s s' : State} {e : Ev} (hrule : c.rule = .head) (hpar : 0 < c.parallel)
    (hsend : Sendable c) (hi : Inv c s) (hsafe : Safe c s) (h : InvH c s)
    (hs : Step c s e s') (hok : NoFlushInWindow s e) : InvH c s' := by
  by_cases he : e = .parent
  · subst he
    cases hs with
    | getSome r q hpc hq => exact ⟨by simp [PC.afterTimeout], by simp⟩
    | getNone hpc hq => exact ⟨fun _ => hq, by simp⟩
    | readNine got i todo ret b hpc hw =>
      refine ⟨fun ha => h.win ?_, by simp⟩
      rw [hpc]; cases got <;> simp_all [PC.afterTimeout]
    | readZero got i todo ret b hpc hw =>
      refine ⟨fun ha => h.win ?_, by simp⟩
      rw [hpc]; cases got <;> simp_all [PC.afterTimeout]
    | readNone got i todo ret hpc hw =>
      refine ⟨fun ha => h.win ?_, by simp⟩
      rw [hpc]; cases got <;> simp_all [PC.afterTimeout]
    | scanned got ret hpc =>
      refine ⟨fun ha => h.win ?_, by simp⟩
      rw [hpc]; cases got <;> simp_all [PC.afterTimeout]
    | abort r ret hpc htf hexc => exact ⟨by simp [PC.afterTimeout], by simp⟩
    | post got ret hpc hab =>
      simp only [postStep]
      split
      · rename_i hb
        refine ⟨by simp [PC.afterTimeout], fun _ => ?_⟩
        simp only [breakNow, hrule, Bool.and_eq_true, Bool.or_eq_true, decide_eq_true_eq] at hb
        apply break_exact hi hpc (hsafe.noDrop hsend) hpar
        rcases hb.2 with hg | hn
        · right
          have hgn : got = none := by cases got <;> simp_all
          subst hgn
          refine ⟨rfl, by simpa using hb.1, h.win (by rw [hpc]; rfl)⟩
        · left; exact hn
      · exact ⟨by simp [PC.afterTimeout], by simp⟩
    | restart i todo hpc => exact ⟨by simp [PC.afterTimeout], by simp⟩
    | loop hpc => exact ⟨by simp [PC.afterTimeout], by simp⟩
  · obtain ⟨h1, h2, _, _, _, h6⟩ := worker_step_frame hs he
    constructor
    · intro ha
      rw [h1] at ha
      by_cases hf : ∀ w, e ≠ .flush w
      · rw [h6 hf]; exact h.win ha
      · have hf' : ∃ w, e = .flush w := by
          apply Classical.byContradiction
          intro hne
          exact hf (fun w hw => hne ⟨w, hw⟩)
        obtain ⟨w, hw⟩ := hf'
        have := hok w hw
        simp [this] at ha
    · intro hd
      rw [h1] at hd
      rw [h2]; exact h.fin hd


structure InvD (c : Cfg) (s : State) : Prop where
  allEx : s.drained = true → ∀ w ∈ s.ws, w.st = .exited .zero
  win : s.drained = true → s.pc.afterTimeout = true → s.doneQ = []
  fin : s.pc = .done → s.delivered.Perm c.submitted

theorem invD_step {c : Cfg} {s s' : State} {e : Ev} (hrule : c.rule = .drained) (hpar : 0 < c.parallel)
    (hsend : Sendable c) (hi : Inv c s) (hsafe : Safe c s) (h : InvD c s)
    (hs : Step c s e s') : InvD c s' := by
  by_cases he : e = .parent
  · subst he
    cases hs with
    | getSome r q hpc hq => exact ⟨h.allEx, by simp [PC.afterTimeout], by simp⟩
    | getNone hpc hq => exact ⟨h.allEx, fun _ _ => hq, by simp⟩
    | readNine got i todo ret b hpc hw =>
      refine ⟨h.allEx, fun hd ha => h.win hd ?_, by simp⟩
      rw [hpc]; cases got <;> simp_all [PC.afterTimeout]
    | readZero got i todo ret b hpc hw =>
      refine ⟨h.allEx, fun hd ha => h.win hd ?_, by simp⟩
      rw [hpc]; cases got <;> simp_all [PC.afterTimeout]
    | readNone got i todo ret hpc hw =>
      refine ⟨h.allEx, fun hd ha => h.win hd ?_, by simp⟩
      rw [hpc]; cases got <;> simp_all [PC.afterTimeout]
    | scanned got ret hpc =>
      refine ⟨h.allEx, fun hd ha => h.win hd ?_, by simp⟩
      rw [hpc]; cases got <;> simp_all [PC.afterTimeout]
    | abort r ret hpc htf hexc => exact ⟨h.allEx, by simp [PC.afterTimeout], by simp⟩
    | post got ret hpc hab =>
      simp only [postStep]
      split
      · rename_i hb
        refine ⟨h.allEx, by simp [PC.afterTimeout], fun _ => ?_⟩
        simp only [breakNow, hrule, Bool.and_eq_true, Bool.or_eq_true, decide_eq_true_eq] at hb
        apply break_exact hi hpc (hsafe.noDrop hsend) hpar
        rcases hb.2 with hn | ⟨hg, hd⟩
        · left; exact hn
        · right
          have hgn : got = none := by cases got <;> simp_all
          subst hgn
          refine ⟨rfl, by simpa using hb.1, h.win hd (by rw [hpc]; rfl)⟩
      · refine ⟨?_, by simp [PC.afterTimeout], by simp⟩
        intro hd w hw
        simp only [Bool.or_eq_true] at hd
        rcases hd with hd | hd
        · exact h.allEx hd w hw
        · obtain ⟨i, hiw⟩ := List.mem_iff_getElem?.mp hw
          have hp : s.pool = [] := by simpa using hd
          exact hi.reaped i w hiw (by simp [hp])
    | restart i todo hpc =>
      refine ⟨?_, by simp [PC.afterTimeout], by simp⟩
      intro hd
      have hr := hi.retired i (by rw [hpc]; simp [PC.retiredL])
      have := h.allEx hd _ (mem_of_getElem? hr)
      simp at this
    | loop hpc => exact ⟨h.allEx, by simp [PC.afterTimeout], by simp⟩
  · obtain ⟨h1, h2, h3, _, _, _⟩ := worker_step_frame hs he
    have hnd : s.drained = false := by
      cases hd : s.drained with
      | false => rfl
      | true => exact absurd (no_worker_step_of_all_exited hi (h.allEx hd) hs) he
    refine ⟨?_, ?_, ?_⟩
    · intro hd; rw [h3, hnd] at hd; simp at hd
    · intro hd; rw [h3, hnd] at hd; simp at hd
    · intro hd
      rw [h1] at hd
      rw [h2]; exact h.fin hd

theorem exactly_once_head_norace {c : Cfg} (hrule : c.rule = .head) (hpar : 0 < c.parallel)
    (htol : Tolerant c) (hsend : Sendable c) {s : State} (hr : ReachNoRace c s)
    (ht : s.terminal = true) : s.delivered.Perm c.submitted := by
  have hH : InvH c s := by
    clear ht
    induction hr with
    | init => exact ⟨by simp [init, PC.afterTimeout], by simp [init]⟩
    | step e hr' hok hs ih =>
      exact invH_step hrule hpar hsend (inv_reach hr') (safe_reach hr') ih (step_sound hs) hok
  have hsafe := safe_reach hr
  simp only [State.terminal, Bool.or_eq_true, beq_iff_eq] at ht
  rcases ht with ht | ht
  · exact hH.fin ht
  · simp [hsafe.noAbort htol] at ht

theorem exactly_once_drained {c : Cfg} (hrule : c.rule = .drained) (hpar : 0 < c.parallel)
    (htol : Tolerant c) (hsend : Sendable c) : ExactlyOnce c := by
  intro s hr ht
  have hD : InvD c s := by
    clear ht
    induction hr with
    | init => exact ⟨by simp [init], by simp [init], by simp [init]⟩
    | step e hr' hok hs ih =>
      exact invD_step hrule hpar hsend (inv_reach hr') (safe_reach hr') ih (step_sound hs)
  have hsafe := safe_reach hr
  simp only [State.terminal, Bool.or_eq_true, beq_iff_eq] at ht
  rcases ht with ht | ht
  · exact hD.fin ht
  · simp [hsafe.noAbort htol] at ht


end Annet.Pool
