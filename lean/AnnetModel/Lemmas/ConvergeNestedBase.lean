/-
Nested convergence (C01 stage 2), part 1: rules.

* `mergeP_nil_left`: merging with an empty dictionary is the identity.
* `classify_unique`: a row matched by exactly one local rule of a level without `%global` rules gets that
  rule's text/parameters and, as child rules, that rule's children.
* `child_rules`: under `NestedRules` the child rules satisfy `NestedRules` again, and `CmdsOKAll` descends.
-/
import AnnetModel.Spec.ConvergeNested
import AnnetModel.Lemmas.Converge

namespace Annet.ConvergeNested.Lemmas

section
open Annet Annet.Rules Annet.Device Annet.Device.Abs Annet.Converge Annet.ConvergeNested

/-! ### `mergeP` with an empty side -/

theorem prulesBeq_nil_left (b : List PRule) (h : prulesBeq [] b = true) : b = [] := by
  cases b with
  | nil => rfl
  | cons y ys => simp [prulesBeq] at h

theorem mergePDicts_nil_left (n : Nat) (b : List PRule) : mergePDicts (n + 1) [] b = b := by
  rw [mergePDicts]
  split
  · rename_i h; exact (prulesBeq_nil_left b h).symm
  · simp [findP]

theorem mergeP_nil_left (b : List PRule) : mergeP [] b = b := mergePDicts_nil_left _ b

/-! ### `matchRow.go` -/

/-- the rule matches the row -/
def ruleMatches (row : String) (r : PRule) : Bool :=
  (Pattern.parseRow false r.attrs.row.toList).any fun p => (p.match? row.toList).isSome

theorem go_spec (row : String) : ∀ (l : List (PRule × Bool)) (acc res : List (PRule × Bool × List String)),
    (∀ p ∈ l, p.1.ignore = false) →
    matchRow.go row l acc = some (some res) →
    res.map (fun x => (x.1, x.2.1)) =
      acc.reverse.map (fun x => (x.1, x.2.1)) ++ (l.filter fun p => ruleMatches row p.1).map (fun p => (p.1, !p.2)) := by
  intro l
  induction l with
  | nil =>
    intro acc res _ h
    simp only [matchRow.go, Option.some.injEq] at h
    subst h
    simp
  | cons p rest ih =>
    intro acc res hig h
    obtain ⟨r, isG⟩ := p
    have hr : r.ignore = false := hig (r, isG) List.mem_cons_self
    have hrest : ∀ p ∈ rest, p.1.ignore = false := fun p hp => hig p (List.mem_cons_of_mem _ hp)
    simp only [matchRow.go] at h
    split at h
    · cases h
    · rename_i pat hpat
      split at h
      · rename_i hm
        rw [ih _ _ hrest h, List.filter_cons]
        have : ruleMatches row r = false := by simp [ruleMatches, hpat, hm]
        simp [this]
      · rename_i key hm
        rw [hr] at h
        simp only [Bool.false_eq_true, if_false] at h
        rw [ih _ _ hrest h, List.filter_cons]
        have : ruleMatches row r = true := by simp [ruleMatches, hpat, hm]
        simp [this]


theorem uniqueMatch_iff (rules : PRules) (row : String) :
    uniqueMatch rules row ↔ (rules.loc.filter (ruleMatches row)).length = 1 := Iff.rfl

/-- a row matched by exactly one local rule (no `%global` rules): the match and the child rules are that rule's -/
theorem classify_unique {rules : PRules} {row : String} {m : PMatch} {cr : PRules}
    (hg : rules.glob = []) (hig : ∀ r ∈ rules.loc, r.ignore = false)
    (hu : uniqueMatch rules row) (h : classify rules row = some (m, cr)) :
    ∃ f ∈ rules.loc, m.rawRule = f.rawRule ∧ m.attrs = f.attrs ∧
      ∀ cl, f.children = some (cl, []) → cr = ⟨cl, []⟩ := by
  rw [uniqueMatch_iff] at hu
  unfold classify at h
  split at h
  · rename_i m' cr' hm
    cases h
    unfold matchRow at hm
    simp only at hm
    split at hm
    · cases hm
    · cases hm
    · cases hm
    · rename_i f fcr fkey more hgo
      have hig' : ∀ p ∈ rules.loc.map (·, false) ++ rules.glob.map (·, true), p.1.ignore = false := by
        intro p hp
        rw [hg] at hp
        simp only [List.map_nil, List.append_nil, List.mem_map] at hp
        obtain ⟨q, hq, rfl⟩ := hp
        exact hig q hq
      have hs := go_spec row _ _ _ hig' hgo
      rw [hg] at hs
      simp only [List.map_nil, List.append_nil, List.reverse_nil, List.nil_append, List.filter_map,
        List.map_map] at hs
      have hlen := congrArg List.length hs
      simp only [List.length_map, List.length_cons] at hlen
      have hf : (rules.loc.filter ((fun p : PRule × Bool => ruleMatches row p.1) ∘ fun x => (x, false))) =
          rules.loc.filter (ruleMatches row) := rfl
      rw [hf, hu] at hlen
      have hmore : more = [] := by
        cases more with
        | nil => rfl
        | cons a b => simp at hlen
      subst hmore
      obtain ⟨g, hgl⟩ := List.length_eq_one_iff.1 hu
      rw [hf, hgl] at hs
      simp only [List.map_cons, List.map_nil, Function.comp_def, Bool.not_false, List.cons.injEq,
        Prod.mk.injEq, and_true] at hs
      obtain ⟨rfl, rfl⟩ := hs
      have hfm : f ∈ rules.loc := by
        have : f ∈ rules.loc.filter (ruleMatches row) := by rw [hgl]; exact List.mem_cons_self
        exact (List.mem_filter.1 this).1
      refine ⟨f, hfm, ?_, ?_, ?_⟩
      · cases hm; rfl
      · cases hm; rfl
      · intro cl hcl
        simp only [if_true, List.foldl_cons, List.foldl_nil, hcl, mergeP_nil_left, hg] at hm
        cases hm
        rfl
  · cases h


/-! ### the recursive rulebook predicates, by membership -/

theorem nestedRulesL_mem : ∀ {l : List PRule}, NestedRulesL l → ∀ r ∈ l, NestedRule r
  | [], _, r, hr => by cases hr
  | r0 :: rest, h, r, hr => by
    rw [NestedRulesL] at h
    rcases List.mem_cons.1 hr with rfl | hr
    · exact h.1
    · exact nestedRulesL_mem h.2 r hr

theorem nestedRule_unpack {r : PRule} (h : NestedRule r) :
    r.ignore = false ∧ r.attrs.diffLogic = "common.default_diff" ∧
    (r.attrs.logic = "common.default" ∨ r.attrs.logic = "common.undo_redo") ∧ r.attrs.forceCommit = false ∧
    ∃ cl, r.children = some (cl, []) ∧ NestedRulesL cl := by
  obtain ⟨raw, ign, attrs, ch⟩ := r
  cases ch with
  | none =>
    rw [NestedRule] at h
    exact h.2.2.2.2.elim
  | some p =>
    obtain ⟨cl, cg⟩ := p
    rw [NestedRule] at h
    obtain ⟨h1, h2, h3, h4, rfl, h6⟩ := h
    exact ⟨h1, h2, h3, h4, cl, rfl, h6⟩

theorem distinctRawL_mem : ∀ {l : List PRule}, DistinctRawL l → ∀ r ∈ l, DistinctRawR r
  | [], _, r, hr => by cases hr
  | r0 :: rest, h, r, hr => by
    rw [DistinctRawL] at h
    rcases List.mem_cons.1 hr with rfl | hr
    · exact h.2.1
    · exact distinctRawL_mem h.2.2 r hr

theorem distinctRawL_inj : ∀ {l : List PRule}, DistinctRawL l → ∀ r ∈ l, ∀ r' ∈ l, r.rawRule = r'.rawRule → r = r'
  | [], _, r, hr, _, _, _ => by cases hr
  | r0 :: rest, h, r, hr, r', hr', he => by
    rw [DistinctRawL] at h
    rcases List.mem_cons.1 hr with h1 | h1 <;> rcases List.mem_cons.1 hr' with h2 | h2
    · rw [h1, h2]
    · subst h1; exact (h.1 r' h2 he.symm).elim
    · subst h2; exact (h.1 r h1 he).elim
    · exact distinctRawL_inj h.2.2 r h1 r' h2 he

theorem distinctRawR_children {r : PRule} {cl cg : List PRule} (h : DistinctRawR r) (hc : r.children = some (cl, cg)) :
    DistinctRawL cl := by
  obtain ⟨raw, ign, attrs, ch⟩ := r
  simp only [PRule.children] at hc
  subst hc
  rw [DistinctRawR] at h
  exact h

theorem cmdsOKL_mem {v : Vendor} {env : Env} : ∀ {l : List PRule}, CmdsOKL v env l → ∀ r ∈ l, CmdsOKR v env r
  | [], _, r, hr => by cases hr
  | r0 :: rest, h, r, hr => by
    rw [CmdsOKL] at h
    rcases List.mem_cons.1 hr with rfl | hr
    · exact h.1
    · exact cmdsOKL_mem h.2 r hr

theorem cmdsOKR_children {v : Vendor} {env : Env} {r : PRule} {cl cg : List PRule} (h : CmdsOKR v env r)
    (hc : r.children = some (cl, cg)) : CmdsOKAll v env ⟨cl, cg⟩ := by
  obtain ⟨raw, ign, attrs, ch⟩ := r
  simp only [PRule.children] at hc
  subst hc
  rw [CmdsOKR] at h
  exact h

/-- what `NestedRules` says about a match -/
theorem nested_match {rules : PRules} (hr : NestedRules rules) {row : String} {m : PMatch} {cr : PRules}
    (h : classify rules row = some (m, cr)) :
    m.attrs.diffLogic = "common.default_diff" ∧
    (m.attrs.logic = "common.default" ∨ m.attrs.logic = "common.undo_redo") ∧ m.attrs.forceCommit = false := by
  obtain ⟨f, hf, -, ha⟩ := Converge.Lemmas.classify_rule h
  rw [hr.1] at hf
  rcases hf with hf | hf
  · obtain ⟨-, h1, h2, h3, -⟩ := nestedRule_unpack (nestedRulesL_mem hr.2.1 f hf)
    rw [ha]; exact ⟨h1, h2, h3⟩
  · cases hf

theorem nested_same_raw {rules : PRules} (hr : NestedRules rules) {row row' : String} {m m' : PMatch}
    {cr cr' : PRules} (h : classify rules row = some (m, cr)) (h' : classify rules row' = some (m', cr'))
    (hraw : m.rawRule = m'.rawRule) : m.attrs = m'.attrs := by
  obtain ⟨f, hf, hr1, ha⟩ := Converge.Lemmas.classify_rule h
  obtain ⟨f', hf', hr1', ha'⟩ := Converge.Lemmas.classify_rule h'
  rw [hr.1] at hf hf'
  rcases hf with hf | hf
  · rcases hf' with hf' | hf'
    · have : f = f' := distinctRawL_inj hr.2.2 f hf f' hf' (by rw [← hr1, ← hr1', hraw])
      rw [ha, ha', this]
    · cases hf'
  · cases hf

/-- the child rules of a uniquely matched row form a nested rulebook again -/
theorem child_rules {rules : PRules} (hr : NestedRules rules) {row : String} {m : PMatch} {cr : PRules}
    (hu : uniqueMatch rules row) (h : classify rules row = some (m, cr)) :
    NestedRules cr ∧ ∀ v env, CmdsOKAll v env rules → CmdsOKAll v env cr := by
  have hig : ∀ r ∈ rules.loc, r.ignore = false := fun r hrm =>
    (nestedRule_unpack (nestedRulesL_mem hr.2.1 r hrm)).1
  obtain ⟨f, hf, -, -, hcr⟩ := classify_unique hr.1 hig hu h
  obtain ⟨-, -, -, -, cl, hcl, hnl⟩ := nestedRule_unpack (nestedRulesL_mem hr.2.1 f hf)
  have := hcr cl hcl
  subst this
  refine ⟨⟨rfl, hnl, distinctRawR_children (distinctRawL_mem hr.2.2 f hf) hcl⟩, ?_⟩
  intro v env hc
  exact cmdsOKR_children (cmdsOKL_mem hc.2 f hf) hcl

end

section
open Annet Annet.Rules Annet.Device Annet.Device.Abs Annet.Converge Annet.ConvergeNested
open Annet.Converge.Lemmas Annet.Device.Lemmas Annet.Patch

/-! ### the recursive configuration predicates, by membership -/

theorem goodL_mem {rules : PRules} : ∀ {l : List (String × Cfg)}, GoodL rules l → ∀ row c, (row, c) ∈ l →
    ∃ m cr, classify rules row = some (m, cr) ∧ uniqueMatch rules row ∧ GoodC cr c
  | [], _, row, c, h => by cases h
  | (row0, c0) :: rest, hg, row, c, h => by
    rw [GoodL] at hg
    rcases List.mem_cons.1 h with h1 | h1
    · cases h1
      have := hg.1
      split at this
      · rename_i m cr hcl; exact ⟨m, cr, hcl, this⟩
      · exact this.elim
    · exact goodL_mem hg.2 row c h1

theorem goodL_nil (rules : PRules) : GoodL rules [] := by rw [GoodL]; trivial

theorem goodC_mk {rules : PRules} {ks : List (String × Cfg)} : GoodC rules (.mk ks) ↔ WF rules ks ∧ GoodL rules ks := by
  rw [GoodC]

theorem wf_nil (rules : PRules) : WF rules [] := ⟨fun _ h => (by cases h), List.nodup_nil⟩

theorem goodC_nil (rules : PRules) : GoodC rules (.mk []) := goodC_mk.2 ⟨wf_nil rules, goodL_nil rules⟩

theorem sameL_of {rules : PRules} {b : List (String × Cfg)} : ∀ {a : List (String × Cfg)},
    (∀ row ca, (row, ca) ∈ a → ∀ cb, (row, cb) ∈ b → ∀ m cr, classify rules row = some (m, cr) → SameC cr ca cb) →
    SameL rules a b
  | [], _ => by rw [SameL]; trivial
  | (row, ca) :: rest, h => by
    rw [SameL]
    refine ⟨?_, sameL_of fun row' ca' hm => h row' ca' (List.mem_cons_of_mem _ hm)⟩
    intro cb hcb
    split
    · rename_i m cr hcl
      exact h row ca List.mem_cons_self cb hcb m cr hcl
    · trivial

theorem sameC_mk {rules : PRules} {a b : List (String × Cfg)} :
    SameC rules (.mk a) (.mk b) ↔ (∀ s, holder rules a s = holder rules b s) ∧ SameL rules a b := by
  rw [SameC]

/-! ### one level of the device, entry by entry -/

/-- the entry (line with its subtree) holding a slot -/
def entryAt (rules : PRules) (kids : List (String × Cfg)) (s : Slot) : Option (String × Cfg) :=
  kids.find? fun e => slotOf rules e.1 == some s

theorem holder_entryAt (rules : PRules) (kids : List (String × Cfg)) (s : Slot) :
    holder rules kids s = (entryAt rules kids s).map (·.1) := rfl

theorem entryAt_of_mem {rules : PRules} {kids : List (String × Cfg)} (hwf : WF rules kids)
    {e : String × Cfg} (he : e ∈ kids) {s : Slot} (hs : slotOf rules e.1 = some s) :
    entryAt rules kids s = some e := by
  unfold entryAt
  cases hf : kids.find? (fun e => slotOf rules e.1 == some s) with
  | none =>
    rw [List.find?_eq_none] at hf
    have := hf e he
    simp [hs] at this
  | some e' =>
    have h1 := List.find?_some hf
    have h2 := List.mem_of_find?_eq_some hf
    have : e' = e := inj_of_nodup_map _ kids hwf.2 e' h2 e he (by simp at h1; rw [h1, hs])
    rw [this]

theorem entryAt_some {rules : PRules} {kids : List (String × Cfg)} {s : Slot} {e : String × Cfg}
    (h : entryAt rules kids s = some e) : e ∈ kids ∧ slotOf rules e.1 = some s :=
  ⟨List.mem_of_find?_eq_some h, by simpa using List.find?_some h⟩

/-- a `put` keeps the entry if it has the same text, else starts a fresh line -/
def keepOrNew (c : String) : Option (String × Cfg) → String × Cfg
  | some (c', sub) => if c' = c then (c, sub) else (c, .mk [])
  | none => (c, .mk [])

theorem rf_false_findE (rules : PRules) (m : PMatch) (c : String)
    (hc : slotOf rules c = some (m.rawRule, m.key)) (s : Slot) :
    (l : List (String × Cfg)) → (l.map fun e => slotOf rules e.1).Nodup →
    l.any (fun e => sameSlot rules m e.1) = true →
    (replaceFirst rules m c false l).find? (fun e => slotOf rules e.1 == some s) =
      if slotOf rules c = some s then some (c, .mk [])
      else l.find? (fun e => slotOf rules e.1 == some s)
  | [], _, ha => by simp at ha
  | e :: rest, hn, ha => by
    cases h : sameSlot rules m e.1 with
    | false =>
      have hn' := hn
      simp only [List.map_cons, List.nodup_cons] at hn'
      have ha' : rest.any (fun e => sameSlot rules m e.1) = true := by
        simpa [h] using ha
      have ih := rf_false_findE rules m c hc s rest hn'.2 ha'
      rw [replaceFirst]
      simp only [h, Bool.false_eq_true, if_false, List.find?_cons]
      cases hp : (slotOf rules e.1 == some s) with
      | false => simpa using ih
      | true =>
        rw [beq_iff_eq] at hp
        rw [sameSlot_eq] at h
        have : ¬ slotOf rules c = some s := by
          intro hcs
          rw [hc] at hcs; rw [hp, hcs] at h; simp at h
        simp [this]
    | true =>
      rw [rf_false_cons_holder rules m c e rest hn h]
      rw [sameSlot_eq, beq_iff_eq] at h
      simp only [List.find?_cons, h, hc]
      by_cases hs : (m.rawRule, m.key) = s
      · simp [hs]
      · have : ((m.rawRule, m.key) == s) = false := by simpa using hs
        simp [hs, this]

theorem putLine_entry (rules : PRules) (m : PMatch) (c : String) (kids : List (String × Cfg))
    (hwf : WF rules kids) (hc : slotOf rules c = some (m.rawRule, m.key)) :
    WF rules (putLine rules m c kids) ∧
    ∀ s, entryAt rules (putLine rules m c kids) s =
      if slotOf rules c = some s then some (keepOrNew c (entryAt rules kids s)) else entryAt rules kids s := by
  refine ⟨(putLine_refines rules m c kids hwf hc).1, ?_⟩
  unfold putLine
  by_cases h1 : kids.any (fun e => e.1 == c) = true
  · rw [if_pos h1]
    obtain ⟨e0, he0, hec⟩ := List.any_eq_true.1 h1
    rw [beq_iff_eq] at hec
    have hall : kids.filter (fun e => e.1 == c || !sameSlot rules m e.1) = kids := by
      rw [List.filter_eq_self]
      intro e he
      cases hss : sameSlot rules m e.1 with
      | false => simp
      | true =>
        rw [sameSlot_eq, beq_iff_eq] at hss
        have : e = e0 := inj_of_nodup_map _ kids hwf.2 e he e0 he0 (by show slotOf rules e.1 = slotOf rules e0.1; rw [hss, hec, hc])
        simp [this, hec]
    rw [hall]
    intro s
    split
    · next hs =>
      rw [entryAt_of_mem hwf he0 (by rw [hec]; exact hs)]
      obtain ⟨r0, sub0⟩ := e0
      simp only at hec
      subst hec
      simp [keepOrNew]
    · rfl
  · rw [if_neg h1]
    by_cases h2 : kids.any (fun e => sameSlot rules m e.1) = true
    · rw [if_pos h2]
      intro s
      unfold entryAt
      rw [rf_false_findE rules m c hc s kids hwf.2 h2]
      split
      · next hs =>
        congr 1
        cases hf : kids.find? (fun e => slotOf rules e.1 == some s) with
        | none => rfl
        | some e =>
          obtain ⟨r0, sub0⟩ := e
          have hmem := List.mem_of_find?_eq_some hf
          have hne : r0 ≠ c := by
            intro heq
            apply h1
            rw [List.any_eq_true]
            exact ⟨_, hmem, by simp [heq]⟩
          simp [keepOrNew, hne]
      · rfl
    · rw [if_neg h2]
      have hno : ∀ e ∈ kids, slotOf rules e.1 ≠ some (m.rawRule, m.key) := by
        intro e he hs
        apply h2; rw [List.any_eq_true]; exact ⟨e, he, by rw [sameSlot_eq, hs]; simp⟩
      intro s
      simp only [entryAt, List.find?_append]
      by_cases hs : slotOf rules c = some s
      · rw [if_pos hs]
        have : kids.find? (fun e => slotOf rules e.1 == some s) = none := by
          rw [List.find?_eq_none]
          intro e he
          have := hno e he
          rw [← hc, hs] at this
          simpa using this
        simp [this, hs, keepOrNew]
      · rw [if_neg hs]
        simp [hs]

theorem del_entry (rules : PRules) (m : PMatch) (kids : List (String × Cfg)) (hwf : WF rules kids) :
    WF rules (kids.filter fun e => !sameSlot rules m e.1) ∧
    ∀ s, entryAt rules (kids.filter fun e => !sameSlot rules m e.1) s =
      if some (m.rawRule, m.key) = some s then none else entryAt rules kids s := by
  refine ⟨wf_filter _ hwf, fun s => ?_⟩
  simp only [entryAt, List.find?_filter]
  by_cases h : some (m.rawRule, m.key) = some s
  · rw [if_pos h]
    rw [List.find?_eq_none]
    intro e he
    rw [sameSlot_eq, h]
    simp
  · rw [if_neg h]
    apply find?_congr'
    intro e he
    rw [sameSlot_eq]
    cases hp : slotOf rules e.1 == some s with
    | false => simp
    | true =>
      rw [beq_iff_eq] at hp
      rw [hp]
      have : (some s == some (m.rawRule, m.key)) = false := by
        rw [beq_eq_false_iff_ne]; exact fun h' => h h'.symm
      simp [this]

theorem inBlock_rows (inner : List (String × Cfg) → List (String × Cfg)) (c : String) :
    ∀ l : List (String × Cfg), (inBlock inner c l).map (·.1) = l.map (·.1)
  | [] => by simp [inBlock]
  | (row, .mk ch) :: more => by
    rw [inBlock]
    split
    · rfl
    · simp [inBlock_rows inner c more]

theorem inBlock_find (inner : List (String × Cfg) → List (String × Cfg)) (c : String) (q : String → Bool) :
    ∀ l : List (String × Cfg), (l.map (·.1)).Nodup →
    (inBlock inner c l).find? (fun e => q e.1) =
      (l.find? (fun e => q e.1)).map fun e => if e.1 = c then (e.1, .mk (inner e.2.kids)) else e
  | [], _ => by simp [inBlock]
  | (row, .mk ch) :: more, hn => by
    simp only [List.map_cons, List.nodup_cons] at hn
    rw [inBlock]
    by_cases hrc : row = c
    · have hb : (row == c) = true := by simpa using hrc
      rw [if_pos hb]
      simp only [List.find?_cons]
      cases hq : q row with
      | true => simp [hrc, Cfg.kids]
      | false =>
        simp only
        cases hf : more.find? (fun e => q e.1) with
        | none => rfl
        | some e =>
          have hmem := List.mem_of_find?_eq_some hf
          have : e.1 ≠ c := by
            intro heq
            exact hn.1 (by rw [hrc, ← heq]; exact List.mem_map_of_mem hmem)
          simp [this]
    · have hb : (row == c) = false := by simpa using hrc
      rw [if_neg (by simp [hb])]
      simp only [List.find?_cons]
      cases hq : q row with
      | true => simp [hrc]
      | false =>
        simp only
        exact inBlock_find inner c q more hn.2

theorem rows_nodup {rules : PRules} {kids : List (String × Cfg)} (hwf : WF rules kids) : (kids.map (·.1)).Nodup := by
  apply nodup_of_nodup_map (slotOf rules)
  rw [List.map_map]
  exact hwf.2

theorem inBlock_entry (rules : PRules) (inner : List (String × Cfg) → List (String × Cfg)) (c : String)
    (kids : List (String × Cfg)) (hwf : WF rules kids) :
    WF rules (inBlock inner c kids) ∧
    ∀ s, entryAt rules (inBlock inner c kids) s =
      (entryAt rules kids s).map fun e => if e.1 = c then (e.1, .mk (inner e.2.kids)) else e := by
  constructor
  · apply wf_of_map_eq (a := kids) _ hwf
    have := inBlock_rows inner c kids
    have h2 := congrArg (List.map (slotOf rules)) this
    simpa [List.map_map, Function.comp_def] using h2
  · intro s
    exact inBlock_find inner c (fun r => slotOf rules r == some s) kids (rows_nodup hwf)

end

section
open Annet Annet.Rules Annet.Device Annet.Device.Abs Annet.Converge Annet.ConvergeNested
open Annet.Converge.Lemmas Annet.Device.Lemmas Annet.Patch

/-! ### the items of a patch tree, one at a time -/

abbrev TItem := String × Option PTree × SortKey

def itemStep (env : Env) (rules : PRules) (t : TItem) (kids : List (String × Cfg)) : List (String × Cfg) :=
  match t with
  | (row, none, _) => execLeaf env rules row kids
  | (row, some T, _) =>
    match classify rules row with
    | none => kids
    | some (m, cr) => inBlock (applyTree env cr T) row (putLine rules m row kids)

theorem itemStep_block (env : Env) (rules : PRules) (row : String) (T : PTree) (k : SortKey)
    (kids : List (String × Cfg)) :
    itemStep env rules (row, some T, k) kids =
      match classify rules row with
      | none => kids
      | some (m, cr) => inBlock (applyTree env cr T) row (putLine rules m row kids) := rfl

theorem applyItems_foldl (env : Env) (rules : PRules) : ∀ (items : List TItem) (kids : List (String × Cfg)),
    applyItems env rules items kids = items.foldl (fun k t => itemStep env rules t k) kids
  | [], kids => by rw [applyItems]; rfl
  | (row, none, k) :: rest, kids => by
    rw [applyItems, applyItems_foldl env rules rest]; rfl
  | (row, some T, k) :: rest, kids => by
    rw [applyItems, List.foldl_cons, itemStep_block]
    cases classify rules row with
    | none => exact applyItems_foldl env rules rest kids
    | some mc => exact applyItems_foldl env rules rest _

theorem applyTree_eq (env : Env) (rules : PRules) (t : PTree) (kids : List (String × Cfg)) :
    applyTree env rules t kids = applyItems env rules t.items kids := by
  obtain ⟨items⟩ := t
  rw [applyTree]; rfl

/-- the slot an item acts on -/
def itemSlot (env : Env) (rules : PRules) : TItem → Option Slot
  | (c, none, _) =>
    match den env rules c with
    | .put r => slotOf rules r
    | .del r => slotOf rules r
    | .nop => none
  | (c, some _, _) => slotOf rules c

/-- what an item does to the entry of its slot -/
def itemAct (env : Env) (rules : PRules) : TItem → Option (String × Cfg) → Option (String × Cfg)
  | (c, none, _), x =>
    match den env rules c with
    | .put r => some (keepOrNew r x)
    | .del _ => none
    | .nop => x
  | (c, some T, _), x =>
    match classify rules c with
    | none => x
    | some (_, cr) => some (c, .mk (applyTree env cr T (keepOrNew c x).2.kids))

/-- the item is understood by the device -/
def ItemOK (env : Env) (rules : PRules) : TItem → Prop
  | (c, none, _) => Denotes env rules c (den env rules c)
  | (c, some _, _) => (slotOf rules c).isSome

theorem keepOrNew_fst (c : String) (x : Option (String × Cfg)) : (keepOrNew c x).1 = c := by
  cases x with
  | none => rfl
  | some e =>
    obtain ⟨c', sub⟩ := e
    simp only [keepOrNew]
    split <;> rfl

theorem itemStep_entry (env : Env) (rules : PRules) (t : TItem) (kids : List (String × Cfg))
    (hwf : WF rules kids) (hok : ItemOK env rules t) :
    WF rules (itemStep env rules t kids) ∧
    (∀ s, itemSlot env rules t = some s →
      entryAt rules (itemStep env rules t kids) s = itemAct env rules t (entryAt rules kids s)) ∧
    (∀ s, itemSlot env rules t ≠ some s → entryAt rules (itemStep env rules t kids) s = entryAt rules kids s) := by
  obtain ⟨c, o, k⟩ := t
  cases o with
  | none =>
    have hp : Denotes env rules c (den env rules c) := hok
    have e1 : itemStep env rules (c, none, k) kids = execLeaf env rules c kids := rfl
    rw [e1]
    cases hden : den env rules c with
    | nop =>
      rw [hden] at hp
      have h : env.exits.contains c = true := hp
      rw [exit_noop env rules c kids h]
      refine ⟨hwf, fun s hs => ?_, fun _ _ => rfl⟩
      simp [itemSlot, hden] at hs
    | del r' =>
      rw [hden] at hp
      obtain ⟨h1, h2, h3⟩ := hp
      cases hcl : classify rules r' with
      | none => simp [slotOf, hcl] at h3
      | some mc =>
        obtain ⟨m, cr⟩ := mc
        have hex : execLeaf env rules c kids = kids.filter (fun e => !sameSlot rules m e.1) := by
          unfold execLeaf
          rw [if_neg h1, h2]
          simp [hcl]
        rw [hex]
        obtain ⟨hw, he⟩ := del_entry rules m kids hwf
        have hsl : itemSlot env rules (c, none, k) = some (m.rawRule, m.key) := by
          simp only [itemSlot, hden]; exact slotOf_of_classify hcl
        refine ⟨hw, fun s hs => ?_, fun s hs => ?_⟩
        · rw [hsl] at hs
          rw [he s, if_pos hs]
          simp [itemAct, hden]
        · rw [hsl] at hs
          rw [he s, if_neg hs]
    | put r =>
      rw [hden] at hp
      obtain ⟨h1, h2, h3, h4⟩ := hp
      subst h2
      cases hcl : classify rules r with
      | none => simp [slotOf, hcl] at h3
      | some mc =>
        obtain ⟨m, cr⟩ := mc
        rw [execLeaf_put env rules r kids hcl h1 h4]
        obtain ⟨hw, he⟩ := putLine_entry rules m r kids hwf (slotOf_of_classify hcl)
        have hsl : itemSlot env rules (r, none, k) = slotOf rules r := by
          simp only [itemSlot, hden]
        refine ⟨hw, fun s hs => ?_, fun s hs => ?_⟩
        · rw [hsl] at hs
          rw [he s, if_pos hs]
          simp [itemAct, hden]
        · rw [hsl] at hs
          rw [he s, if_neg hs]
  | some T =>
    have hs : (slotOf rules c).isSome := hok
    have hsl : itemSlot env rules (c, some T, k) = slotOf rules c := rfl
    rw [itemStep_block, hsl]
    cases hcl : classify rules c with
    | none => simp [slotOf, hcl] at hs
    | some mc =>
      obtain ⟨m, cr⟩ := mc
      simp only
      obtain ⟨hw1, he1⟩ := putLine_entry rules m c kids hwf (slotOf_of_classify hcl)
      obtain ⟨hw2, he2⟩ := inBlock_entry rules (applyTree env cr T) c _ hw1
      refine ⟨hw2, fun s hcs => ?_, fun s hcs => ?_⟩
      · rw [he2, he1, if_pos hcs]
        simp only [Option.map_some, keepOrNew_fst, if_true, itemAct, hcl]
      · rw [he2, he1, if_neg hcs]
        cases hf : entryAt rules kids s with
        | none => rfl
        | some e =>
          have := (entryAt_some hf).2
          have hne : e.1 ≠ c := by
            intro heq; rw [heq] at this; exact hcs this
          simp [hne]

/-- executing the items of a level: the level stays well-formed and the entry of every slot is the fold
of the actions of the items addressing the slot -/
theorem applyItems_entries (env : Env) (rules : PRules) : ∀ (items : List TItem) (kids : List (String × Cfg)),
    WF rules kids → (∀ t ∈ items, ItemOK env rules t) →
    WF rules (applyItems env rules items kids) ∧
    ∀ s, entryAt rules (applyItems env rules items kids) s =
      (items.filter fun t => itemSlot env rules t == some s).foldl (fun x t => itemAct env rules t x)
        (entryAt rules kids s) := by
  intro items kids hwf hok
  rw [applyItems_foldl]
  induction items generalizing kids with
  | nil => exact ⟨hwf, fun _ => rfl⟩
  | cons t rest ih =>
    obtain ⟨hw1, he1, he1'⟩ := itemStep_entry env rules t kids hwf (hok t List.mem_cons_self)
    obtain ⟨hw2, he2⟩ := ih _ hw1 (fun t' ht' => hok t' (List.mem_cons_of_mem _ ht'))
    refine ⟨hw2, fun s => ?_⟩
    rw [List.foldl_cons, he2 s, List.filter_cons]
    by_cases hs : itemSlot env rules t = some s
    · rw [he1 s hs]
      simp [hs]
    · have : (itemSlot env rules t == some s) = false := by simpa using hs
      rw [he1' s hs]
      simp [this]

end

end Annet.ConvergeNested.Lemmas
