/-
Bridge between C17 (implicit defaults) and C03 (the diff): a default that both completions contain is never reported
ADDED or REMOVED by `make_diff`, so implicit defaults never cause commands alone.

`default_iff` (Lemmas/Implicit.lean) gives the presence of the default row at the top level of both completed
configurations; `makeDiff_common_row` (Lemmas/DiffWholeCommon.lean) does the rest.
-/
import AnnetModel.Lemmas.DiffWholeCommon
import AnnetModel.Lemmas.Implicit

namespace Annet.Implicit.Lemmas
open Annet Annet.Rules Annet.Diff Annet.Implicit Annet.Implicit.Spec

/-- a default that is explicit in neither configuration, where neither has a line of its kind, is present in both
completions (the statement of `C17_same_default_both_sides`) -/
theorem same_default_both_sides (rules : List IRule) (t u mt mu : Cfg)
    (ht : complete rules t = some mt) (hu : complete rules u = some mu) (hd : RowsDistinct rules)
    (r : IRule) (hr : r ∈ rules) (hi : r.ignore = false)
    (hkt : hasLineOfKind r t = false) (hku : hasLineOfKind r u = false) :
    hasKey mt r.row = true ∧ hasKey mu r.row = true := by
  constructor
  · rw [default_iff rules t mt ht hd r hr hi, hkt]; simp
  · rw [default_iff rules u mu hu hd r hr hi, hku]; simp

/-- implicit defaults never cause commands alone: a default that is explicit in neither configuration, where neither has a
line of its kind, is present in both completions, hence `make_diff` of the completed configurations reports it neither ADDED
nor REMOVED (whatever patching rulebook `prules` is used) -/
theorem default_never_added_or_removed (rules : List IRule) (t u mt mu : Cfg)
    (ht : complete rules t = some mt) (hu : complete rules u = some mu) (hd : RowsDistinct rules)
    (r : IRule) (hr : r ∈ rules) (hi : r.ignore = false)
    (hkt : hasLineOfKind r t = false) (hku : hasLineOfKind r u = false)
    (prules : PRules) (ao an : ACfg) (d : List DItem)
    (ha : Diff.annotate prules mt = .ok ao) (hn : Diff.annotate prules mu = .ok an)
    (hdo : Diff.Spec.NoDupRows ao) (hdn : Diff.Spec.NoDupRows an)
    (h : Diff.makeDiff prules mt mu = .ok d) :
    ∀ i ∈ d, i.row = r.row → i.op ≠ .added ∧ i.op ≠ .removed := by
  have hb := same_default_both_sides rules t u mt mu ht hu hd r hr hi hkt hku
  exact Diff.Lemmas.makeDiff_common_row prules mt mu ao an d ha hn hdo hdn h r.row hb.1 hb.2

end Annet.Implicit.Lemmas
