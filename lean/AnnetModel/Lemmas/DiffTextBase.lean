/-
Helper lemmas for the text views of a diff (C03, last clause), part 1: the line reader of `formatter.diff`,
the preorder listing `flatList` of an entry forest, and the recursive-descent `build` that inverts it.

Core Lean only.
-/
import AnnetModel.Spec.DiffText

namespace Annet.DiffText
open Annet.Diff Annet.Patch

theorem ofChar_char (s : Sign) : Sign.ofChar s.char = some s := by cases s <;> rfl

theorem le_rep_length (ind : Txt) (hi : ind ≠ []) : ∀ lvl, lvl ≤ (rep lvl ind).length
  | 0 => Nat.zero_le _
  | n + 1 => by
    have := le_rep_length ind hi n
    have h1 : 0 < ind.length := List.length_pos_iff.mpr hi
    simp only [rep, List.length_append]
    omega

/-- the indent loop of the reader gives back the level and the body -/
theorem stripIndentAux_rep (ind body : Txt) (hi : ind ≠ []) (hb : ¬ ind <+: body) :
    ∀ lvl fuel, lvl ≤ fuel → stripIndentAux ind fuel (rep lvl ind ++ body) = (lvl, body)
  | 0, 0, _ => by simp [rep, stripIndentAux]
  | 0, fuel + 1, _ => by
    have : ind.isPrefixOf body = false := by
      rw [Bool.eq_false_iff]; intro h; exact hb (List.isPrefixOf_iff_prefix.mp h)
    simp [rep, stripIndentAux, this]
  | lvl + 1, 0, h => by omega
  | lvl + 1, fuel + 1, h => by
    have ih := stripIndentAux_rep ind body hi hb lvl fuel (by omega)
    have hp : ind.isPrefixOf (ind ++ (rep lvl ind ++ body)) = true := by
      simp [List.isPrefixOf_iff_prefix]
    have he : ind.isEmpty = false := by simpa using hi
    simp only [rep, List.append_assoc, stripIndentAux, hp, he, Bool.not_false, Bool.and_self, if_true,
      List.drop_left, ih]

theorem stripIndent_rep (ind body : Txt) (hi : ind ≠ []) (hb : ¬ ind <+: body) (lvl : Nat) :
    stripIndent ind (rep lvl ind ++ body) = (lvl, body) := by
  unfold stripIndent
  apply stripIndentAux_rep ind body hi hb
  have := le_rep_length ind hi lvl
  simp only [List.length_append]
  omega

theorem readLine_row (f : Fmt) (hf : FmtOK f) (s : Sign) (lvl : Nat) (row : Txt) (b : Bool)
    (h : RowOK f b row) :
    readLine f (fline f s lvl (row ++ suffixOf f b)) = some (some ⟨s, lvl, row⟩) := by
  obtain ⟨h1, h2, h3⟩ := h
  simp only [fline, readLine, ofChar_char, stripIndent_rep f.indent _ hf.1 h1 lvl, h3]
  by_cases he : f.blockEnd = []
  · simp [he]
  · have := h2 he
    simp [this]

theorem readLine_closing (f : Fmt) (hf : FmtOK f) (s : Sign) (lvl : Nat) (hne : f.blockEnd ≠ []) :
    readLine f (fline f s lvl f.blockEnd) = some none := by
  simp only [fline, readLine, ofChar_char, stripIndent_rep f.indent _ hf.1 hf.2 lvl]
  simp [hne]

theorem readLines_append {f : Fmt} : ∀ {a b : List Txt} {x y : List PLine},
    readLines f a = some x → readLines f b = some y → readLines f (a ++ b) = some (x ++ y)
  | [], b, x, y, ha, hb => by
    simp only [readLines, Option.some.injEq] at ha
    subst ha
    simpa using hb
  | l :: a, b, x, y, ha, hb => by
    simp only [readLines] at ha
    simp only [List.cons_append, readLines]
    cases h1 : readLine f l with
    | none => simp [h1] at ha
    | some o =>
      cases h2 : readLines f a with
      | none => cases o <;> simp [h1, h2] at ha
      | some ps =>
        have ih := readLines_append h2 hb
        cases o with
        | none =>
          simp only [h1, h2, Option.some.injEq] at ha
          subst ha
          simp [ih]
        | some p =>
          simp only [h1, h2, Option.some.injEq] at ha
          subst ha
          simp [ih]

/-! ### preorder listing of a forest -/

mutual
  /-- the lines (sign, level, row) of an entry and of its nested entries, in preorder -/
  def flatItem (lvl : Nat) : SItem → List PLine
    | .mk s row ch => ⟨s, lvl, row⟩ :: flatList (lvl + 1) ch
  def flatList (lvl : Nat) : List SItem → List PLine
    | [] => []
    | i :: rest => flatItem lvl i ++ flatList lvl rest
end

theorem flatList_append (lvl : Nat) : ∀ (a b : List SItem), flatList lvl (a ++ b) = flatList lvl a ++ flatList lvl b
  | [], b => by simp [flatList]
  | i :: a, b => by simp [flatList, flatList_append lvl a b]

mutual
  theorem readLines_linesItem (f : Fmt) (hf : FmtOK f) :
      ∀ (lvl : Nat) (i : SItem), RowsOKItem f i → readLines f (linesItem f lvl i) = some (flatItem lvl i)
    | lvl, .mk s row [], h => by
      simp only [RowsOKItem] at h
      have := readLine_row f hf s lvl row false (by simpa using h.1)
      simp only [suffixOf, Bool.false_eq_true, if_false] at this
      simp [linesItem, flatItem, flatList, readLines, this]
    | lvl, .mk s row (c :: cs), h => by
      simp only [RowsOKItem] at h
      have ih := readLines_linesList f hf (lvl + 1) (c :: cs) h.2
      have h1 := readLine_row f hf s lvl row true (by simpa using h.1)
      simp only [suffixOf, if_true] at h1
      have hc : readLines f (closing f s lvl) = some [] := by
        unfold closing
        by_cases he : f.blockEnd = []
        · simp [he, readLines]
        · have := readLine_closing f hf s lvl he
          simp [he, readLines, this]
      have := readLines_append ih hc
      simp only [linesItem, flatItem, readLines, h1, this, List.append_nil]
  theorem readLines_linesList (f : Fmt) (hf : FmtOK f) :
      ∀ (lvl : Nat) (l : List SItem), RowsOK f l → readLines f (linesList f lvl l) = some (flatList lvl l)
    | lvl, [], _ => by simp [linesList, flatList, readLines]
    | lvl, i :: rest, h => by
      simp only [RowsOK] at h
      have h1 := readLines_linesItem f hf lvl i h.1
      have h2 := readLines_linesList f hf lvl rest h.2
      simp only [linesList, flatList]
      exact readLines_append h1 h2
end

/-! ### `build` inverts `flatList` -/

/-- the lines after a forest at level `lvl`: nothing, or a line that is less deep -/
def Stop (lvl : Nat) (rest : List PLine) : Prop := ∀ l, rest.head? = some l → l.lvl < lvl

theorem build_stop {lvl : Nat} {rest : List PLine} (h : Stop lvl rest) (fuel : Nat) :
    build fuel lvl rest = ([], rest) := by
  cases fuel with
  | zero => simp [build]
  | succ n =>
    cases rest with
    | nil => simp [build]
    | cons l ls =>
      have := h l (by simp)
      simp [build, this]

theorem stop_nil (lvl : Nat) : Stop lvl [] := by intro l h; simp at h

theorem stop_flat {lvl : Nat} {rest : List PLine} (h : Stop lvl rest) :
    ∀ (l : List SItem), Stop (lvl + 1) (flatList lvl l ++ rest)
  | [] => by
    intro x hx
    have := h x (by simpa [flatList] using hx)
    omega
  | .mk s row ch :: l' => by
    intro x hx
    simp [flatList, flatItem] at hx
    subst hx
    simp

theorem flatItem_length_pos (lvl : Nat) (i : SItem) : 0 < (flatItem lvl i).length := by
  cases i; simp [flatItem]

mutual
  theorem build_flatItem : ∀ (i : SItem) (lvl fuel : Nat) (tail : List PLine),
      (flatItem lvl i ++ tail).length ≤ fuel → Stop (lvl + 1) tail →
      build (fuel + 1) lvl (flatItem lvl i ++ tail) = (i :: (build fuel lvl tail).1, (build fuel lvl tail).2)
    | .mk s row ch, lvl, fuel, tail, hl, hs => by
      simp only [flatItem, List.cons_append, List.length_cons] at hl
      have ih := build_flatList ch (lvl + 1) fuel tail (by omega) hs
      simp [flatItem, build, ih]
  theorem build_flatList : ∀ (l : List SItem) (lvl fuel : Nat) (rest : List PLine),
      (flatList lvl l ++ rest).length < fuel → Stop lvl rest →
      build fuel lvl (flatList lvl l ++ rest) = (l, rest)
    | [], lvl, fuel, rest, _, hs => by simpa [flatList] using build_stop hs fuel
    | i :: l', lvl, 0, rest, hl, hs => by omega
    | i :: l', lvl, fuel + 1, rest, hl, hs => by
      simp only [flatList, List.append_assoc] at hl ⊢
      have hp := flatItem_length_pos lvl i
      have h1 := build_flatItem i lvl fuel (flatList lvl l' ++ rest) (by omega) (stop_flat hs l')
      have h2 := build_flatList l' lvl fuel rest (by
        simp only [List.length_append] at hl ⊢; omega) hs
      rw [h1, h2]
end

theorem build_flat (l : List SItem) : (build ((flatList 0 l).length + 1) 0 (flatList 0 l)).1 = l := by
  have := build_flatList l 0 ((flatList 0 l).length + 1) [] (by simp) (stop_nil 0)
  simp only [List.append_nil] at this
  rw [this]

end Annet.DiffText
