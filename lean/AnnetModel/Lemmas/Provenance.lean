/-
Lemmas for the provenance of patch commands.  Statements are fixed by Props/C02.lean.
-/
import AnnetModel.Spec.Provenance
import AnnetModel.Model.AclDiff
import AnnetModel.Lemmas.AclDiff
import AnnetModel.Lemmas.ProvenanceBase

namespace Annet.Patch
open Annet.Rules Annet.Diff

/-- the unsorted patch tree stems from the diff, at any fuel (fuel 0 gives the empty tree) -/
theorem makePatchUnsorted_prov (v : Vendor) (doCommit : Bool) : ∀ (fuel : Nat) (ordering : List ORule) (d : List DItem)
    (t : PTree), makePatchUnsorted runLogic fuel v doCommit ordering (makePre d) = .ok t → ProvT v d t
  | 0, ordering, d, t, h => by
    simp only [makePatchUnsorted] at h
    cases h
    exact Prov.provT_nil v d
  | fuel + 1, ordering, d, t, h => by
    simp only [makePatchUnsorted] at h
    split at h
    · cases h
    · next items hitems =>
      cases h
      apply Prov.buildTree_prov
      intro x hx
      obtain ⟨raw, attrs, pitems, hrule, it, hit, ys, hys, y, hy, hraw⟩ :=
        Prov.itemsOfPre_mem _ _ _ _ _ _ _ hitems x hx
      obtain ⟨⟨e', he', hr', ha'⟩, hitems'⟩ := Prov.makePre_inv d _ hrule
      have hI := hitems' it hit
      have hY := Prov.runLogic_ok v attrs it ys hys y hy
      obtain ⟨hrow, hdir, hrr, hfc, hnone, hsome⟩ := hraw
      refine ⟨?_, ?_⟩
      · intro hf
        exact ⟨e', he', by rw [ha', ← hfc]; exact hf⟩
      · rcases hY with ⟨hd, xe, hxe, h1, h2⟩ | ⟨hd, hs, hrev, xe, hxe⟩
        · obtain ⟨op, hop, hb⟩ := Prov.mem_changed hxe
          obtain ⟨e, he, heop, heraw, hekey, rfl⟩ := hI op xe hb
          refine .inl ⟨hdir.trans hd, e, he, by rw [heop]; exact hop, ?_, ?_⟩
          · rw [hrow, h1, Prov.entryOf_row]
          · rcases hsome _ h2 with hc | ⟨o, ho⟩
            · rw [hc]
              exact Prov.provT_nil v _
            · rw [Prov.entryOf_children] at ho
              exact makePatchUnsorted_prov v doCommit fuel o e.children _ ho
        · obtain ⟨op, hop, hb⟩ := Prov.mem_remOrMoved hxe
          obtain ⟨e, he, heop, heraw, hekey, rfl⟩ := hI op xe hb
          refine .inr ⟨hdir.trans hd, e, e', he, by rw [heop]; exact hop, he', hr'.trans heraw.symm, ?_⟩
          rw [ha', hekey, hrow]
          exact hrev

/-- every item of the patch built by `make_patch(make_pre(d))` with the common logics stems from an entry of `d` -/
theorem patch_provenance (v : Vendor) (ordering : List ORule) (doCommit : Bool) (d : List DItem) (p : PTree)
    (h : makePatch v ordering doCommit (makePre d) = .ok p) : ProvT v d p := by
  unfold makePatch makePatchWith at h
  cases hu : makePatchUnsorted runLogic (preDepth (makePre d) + 2) v doCommit ordering (makePre d) with
  | error e => rw [hu] at h; cases h
  | ok t =>
    rw [hu] at h
    cases h
    exact Prov.sortTree_prov v t d (makePatchUnsorted_prov v doCommit _ ordering d t hu)

end Annet.Patch

namespace Annet.AclDiff
open Annet Annet.Diff

mutual
  theorem covered_markUnchanged_aux (av : Acl.Vendor) : ∀ (d : List DItem) (acl : Acl.Rules),
      Lemmas.Covered av acl d → Lemmas.Covered av acl (markUnchanged d)
    | [], acl, h => by rw [markUnchanged]; exact h
    | i :: rest, acl, h => by
      rw [markUnchanged]
      cases h with
      | cons hm hc hop hrest =>
        obtain ⟨hrow, hopp, hch⟩ := covered_markItem_aux av i
        refine .cons (by rw [hrow]; exact hm) (hch _ hc) (fun ho => hop (hopp ho))
          (covered_markUnchanged_aux av rest acl hrest)
  theorem covered_markItem_aux (av : Acl.Vendor) : ∀ (i : DItem),
      (markItem i).row = i.row ∧ ((markItem i).op = .removed → i.op = .removed) ∧
        ∀ cr, Lemmas.Covered av cr i.children → Lemmas.Covered av cr (markItem i).children
    | .mk o r ch m => by
      rw [markItem]
      split
      · refine ⟨rfl, ?_, fun cr h => covered_markUnchanged_aux av ch cr h⟩
        show (if _ then Op.unchanged else Op.affected) = Op.removed → _
        intro h
        split at h <;> cases h
      · exact ⟨rfl, id, fun _ h => h⟩
end

/-- `mark_unchanged` keeps coverage (it only relabels AFFECTED entries) -/
theorem covered_markUnchanged (av : Acl.Vendor) (acl : Acl.Rules) (d : List DItem)
    (h : Lemmas.Covered av acl d) : Lemmas.Covered av acl (markUnchanged d) :=
  covered_markUnchanged_aux av d acl h

/-- end to end: the patch `_diff_and_patch` computes under an ACL stems, item by item at every depth, from the entries
of an ACL-filtered diff every entry of which is covered level by level (and deletable if REMOVED) -/
theorem device_patch_provenance (pv : Rules.Vendor) (av : Acl.Vendor) (acl : Acl.Rules) (rules : Rules.PRules)
    (ordering : List Rules.ORule) (old new : Cfg) (r : Api.Result)
    (h : deviceModeAcl Patch.runLogic pv av acl rules ordering old new = .ok r) :
    ∃ d, Lemmas.Covered av acl d ∧ Patch.ProvT pv d r.patch := by
  unfold deviceModeAcl at h
  split at h
  · cases h
  · cases h
  · next old' new' _ _ =>
    split at h
    · cases h
    · next d hd =>
      split at h
      · cases h
      · next p hp =>
        cases h
        refine ⟨d, ?_, Patch.patch_provenance pv ordering true d p hp⟩
        unfold makeDiffAcl at hd
        split at hd
        · cases hd
        · cases hd
        · split at hd
          · cases hd
          · next d0 _ =>
            split at hd
            · cases hd
            · next d' hd' =>
              cases hd
              exact covered_markUnchanged av acl d' (Lemmas.acl_diff_covered av acl d0 d' hd')

end Annet.AclDiff

/-! ### non-vacuity: a two-level diff whose patch is computed, with every kind of item but `commit` -/

namespace Annet.Patch.ProvExample
open Annet.Rules Annet.Diff

def v : Vendor := { reverse := "no", exit := "" }

def attrsOf (row : String) : PAttrs :=
  { row := row, logic := "common.default", diffLogic := "common.default_diff", parent := false, forceCommit := false }

/-- an AFFECTED block with an ADDED and a REMOVED child, and a REMOVED top-level entry -/
def d : List DItem :=
  [ .mk .affected "interface eth0"
      [ .mk .added "mtu 9000" [] ⟨"mtu *", ["9000"], attrsOf "mtu *"⟩,
        .mk .removed "description foo" [] ⟨"description *", ["foo"], attrsOf "description *"⟩ ]
      ⟨"interface *", ["eth0"], attrsOf "interface *"⟩,
    .mk .removed "x 1" [] ⟨"x *", ["1"], attrsOf "x *"⟩ ]

/-- the patch: the block (its row is the AFFECTED entry's) with the removal of the description before the new mtu, then
the removal of `x 1` -/
def p : PTree := .mk
  [ ("interface eth0", some (.mk
      [ ("no description foo", none, ⟨.fin 0, "description *", false⟩),
        ("mtu 9000", none, ⟨.fin 0, "mtu *", true⟩) ]), ⟨.fin 0, "interface *", true⟩),
    ("no x 1", none, ⟨.fin 0, "x *", false⟩) ]

-- (`decide +kernel`: the kernel evaluates the checker `Prov.okIs`; `rfl` / plain `decide` do not terminate in minutes)
theorem patch_eq : makePatch v [] true (makePre d) = .ok p := Prov.okIs_sound (by decide +kernel)

example : ProvT v d p := patch_provenance v [] true d p patch_eq

end Annet.Patch.ProvExample
