/-
Lemmas for the provenance of patch commands.  Statements are fixed by Props/C02.lean.
-/
import AnnetModel.Spec.Provenance
import AnnetModel.Model.AclDiff
import AnnetModel.Lemmas.AclDiff

namespace Annet.Patch
open Annet.Rules Annet.Diff

/-- every item of the patch built by `make_patch(make_pre(d))` with the common logics stems from an entry of `d` -/
theorem patch_provenance (v : Vendor) (ordering : List ORule) (doCommit : Bool) (d : List DItem) (p : PTree)
    (h : makePatch v ordering doCommit (makePre d) = .ok p) : ProvT v d p := by
  sorry

end Annet.Patch

namespace Annet.AclDiff
open Annet Annet.Diff

/-- `mark_unchanged` keeps coverage (it only relabels AFFECTED entries) -/
theorem covered_markUnchanged (av : Acl.Vendor) (acl : Acl.Rules) (d : List DItem)
    (h : Lemmas.Covered av acl d) : Lemmas.Covered av acl (markUnchanged d) := by
  sorry

/-- end to end: the patch `_diff_and_patch` computes under an ACL stems, item by item at every depth, from the entries
of an ACL-filtered diff every entry of which is covered level by level (and deletable if REMOVED) -/
theorem device_patch_provenance (pv : Rules.Vendor) (av : Acl.Vendor) (acl : Acl.Rules) (rules : Rules.PRules)
    (ordering : List Rules.ORule) (old new : Cfg) (r : Api.Result)
    (h : deviceModeAcl Patch.runLogic pv av acl rules ordering old new = .ok r) :
    ∃ d, Lemmas.Covered av acl d ∧ Patch.ProvT pv d r.patch := by
  sorry

end Annet.AclDiff
