/-
Helper lemmas for C08: the stable insertion sort and its lifting to patch trees and configs.
-/
import AnnetModel.Spec.Sort

namespace Annet.Patch.Lemmas
open Annet Annet.Patch Annet.Patch.Spec

/-! ### `insertBy` -/

theorem insertBy_perm {α : Type} (lt : α → α → Bool) (x : α) (l : List α) :
    (insertBy lt x l).Perm (x :: l) := by
  induction l with
  | nil => simp [insertBy]
  | cons y ys ih =>
    simp only [insertBy]
    split
    · exact List.Perm.refl _
    · exact (List.Perm.cons y ih).trans (List.Perm.swap x y ys)

theorem mem_insertBy {α : Type} (lt : α → α → Bool) (x z : α) (l : List α) :
    z ∈ insertBy lt x l ↔ z = x ∨ z ∈ l := by
  rw [(insertBy_perm lt x l).mem_iff]; simp

theorem sublist_insertBy {α : Type} (lt : α → α → Bool) (x : α) (l : List α) :
    List.Sublist l (insertBy lt x l) := by
  induction l with
  | nil => simp
  | cons y ys ih =>
    simp only [insertBy]
    split
    · exact List.Sublist.cons _ (List.Sublist.refl _)
    · exact List.Sublist.cons_cons _ ih

theorem strictWeak_asymm {α : Type} {lt : α → α → Bool} (h : StrictWeak lt) {a b : α}
    (hab : lt a b = true) : lt b a = false := by
  cases hba : lt b a with
  | false => rfl
  | true => have := h.trans a b a hab hba; rw [h.irrefl] at this; cases this

theorem insertBy_sorted {α : Type} (lt : α → α → Bool) (h : StrictWeak lt) (x : α) (l : List α)
    (hs : Sorted lt l) : Sorted lt (insertBy lt x l) := by
  induction l with
  | nil => simp [insertBy, Sorted]
  | cons y ys ih =>
    have hs' := List.pairwise_cons.mp hs
    simp only [insertBy]
    split
    · rename_i hxy
      refine List.pairwise_cons.mpr ⟨?_, hs⟩
      intro z hz
      rcases List.mem_cons.mp hz with rfl | hz
      · exact strictWeak_asymm h hxy
      · have hzy := hs'.1 z hz
        cases hzx : lt z x with
        | false => rfl
        | true => rw [h.trans z x y hzx hxy] at hzy; cases hzy
    · rename_i hxy
      refine List.pairwise_cons.mpr ⟨?_, ih hs'.2⟩
      intro z hz
      rcases (mem_insertBy lt x z ys).mp hz with rfl | hz
      · simpa using hxy
      · exact hs'.1 z hz

/-- nothing in `l` is greater than `x`: `x` goes last -/
theorem insertBy_of_all_not_gt {α : Type} (lt : α → α → Bool) (x : α) (l : List α)
    (h : ∀ z ∈ l, lt x z = false) : insertBy lt x l = l ++ [x] := by
  induction l with
  | nil => rfl
  | cons y ys ih =>
    simp only [insertBy, h y (List.mem_cons_self), Bool.false_eq_true, if_false, List.cons_append]
    rw [ih (fun z hz => h z (List.mem_cons_of_mem _ hz))]

theorem insertBy_append_of_all_not_gt {α : Type} (lt : α → α → Bool) (x : α) (l r : List α)
    (h : ∀ z ∈ l, lt x z = false) : insertBy lt x (l ++ r) = l ++ insertBy lt x r := by
  induction l with
  | nil => rfl
  | cons y ys ih =>
    simp only [List.cons_append, insertBy, h y (List.mem_cons_self), Bool.false_eq_true, if_false]
    rw [ih (fun z hz => h z (List.mem_cons_of_mem _ hz))]

theorem insertBy_filter {α : Type} (lt : α → α → Bool) (h : StrictWeak lt) (x : α) (p : α → Bool) (l : List α)
    (hs : Sorted lt l) :
    (insertBy lt x l).filter p = if p x then insertBy lt x (l.filter p) else l.filter p := by
  induction l with
  | nil => cases hp : p x <;> simp [insertBy, hp]
  | cons y ys ih =>
    have hs' := List.pairwise_cons.mp hs
    cases hxy : lt x y with
    | true =>
      -- everything in `y :: ys` is greater than `x`
      have hall : ∀ z ∈ y :: ys, lt x z = true := by
        intro z hz
        rcases List.mem_cons.mp hz with rfl | hz
        · exact hxy
        · cases hxz : lt x z with
          | true => rfl
          | false => rw [h.negTrans x z y hxz (hs'.1 z hz)] at hxy; cases hxy
      have hins : insertBy lt x (y :: ys) = x :: y :: ys := by simp [insertBy, hxy]
      rw [hins, List.filter_cons]
      cases hp : p x with
      | false => simp
      | true =>
        simp only [if_true]
        cases hf : (y :: ys).filter p with
        | nil => rfl
        | cons w ws =>
          have hw : w ∈ y :: ys := (List.mem_filter.mp (by rw [hf]; exact List.mem_cons_self)).1
          simp [insertBy, hall w hw]
    | false =>
      have hins : insertBy lt x (y :: ys) = y :: insertBy lt x ys := by simp [insertBy, hxy]
      rw [hins, List.filter_cons, List.filter_cons, ih hs'.2]
      cases hpy : p y <;> cases hpx : p x <;> simp [insertBy, hxy]

/-! ### `stableSort` as a fold -/

theorem foldl_perm {α : Type} (lt : α → α → Bool) (l acc : List α) :
    (l.foldl (fun acc x => insertBy lt x acc) acc).Perm (acc ++ l) := by
  induction l generalizing acc with
  | nil => simp
  | cons x xs ih =>
    simp only [List.foldl_cons]
    refine (ih _).trans ?_
    refine ((insertBy_perm lt x acc).append_right xs).trans ?_
    simpa using (List.perm_middle (a := x) (l₁ := acc) (l₂ := xs)).symm

theorem foldl_sorted {α : Type} (lt : α → α → Bool) (h : StrictWeak lt) (l acc : List α)
    (hs : Sorted lt acc) : Sorted lt (l.foldl (fun acc x => insertBy lt x acc) acc) := by
  induction l generalizing acc with
  | nil => exact hs
  | cons x xs ih => exact ih _ (insertBy_sorted lt h x acc hs)

theorem foldl_of_sorted {α : Type} (lt : α → α → Bool) (l acc : List α)
    (hs : Sorted lt (acc ++ l)) : l.foldl (fun acc x => insertBy lt x acc) acc = acc ++ l := by
  induction l generalizing acc with
  | nil => simp
  | cons x xs ih =>
    simp only [List.foldl_cons]
    have hx : insertBy lt x acc = acc ++ [x] := by
      apply insertBy_of_all_not_gt
      intro z hz
      have := List.pairwise_append.mp hs
      exact this.2.2 z hz x List.mem_cons_self
    rw [hx, ih (acc ++ [x]) (by simpa using hs)]
    simp

theorem foldl_filter {α : Type} (lt : α → α → Bool) (h : StrictWeak lt) (p : α → Bool) (l acc : List α)
    (hs : Sorted lt acc) :
    (l.foldl (fun acc x => insertBy lt x acc) acc).filter p =
      (l.filter p).foldl (fun acc x => insertBy lt x acc) (acc.filter p) := by
  induction l generalizing acc with
  | nil => rfl
  | cons x xs ih =>
    simp only [List.foldl_cons, List.filter_cons]
    rw [ih _ (insertBy_sorted lt h x acc hs), insertBy_filter lt h x p acc hs]
    cases p x <;> simp

theorem foldl_sublist {α : Type} (lt : α → α → Bool) (s l acc : List α) (hs : List.Sublist s acc) :
    List.Sublist s (l.foldl (fun acc x => insertBy lt x acc) acc) := by
  induction l generalizing acc with
  | nil => exact hs
  | cons x xs ih => exact ih _ (hs.trans (sublist_insertBy lt x acc))

theorem insertBy_pair_sublist {α : Type} (lt : α → α → Bool) (h : StrictWeak lt) (x y : α) (l : List α)
    (hs : Sorted lt l) (hx : x ∈ l) (hxy : lt y x = false) : List.Sublist [x, y] (insertBy lt y l) := by
  induction l with
  | nil => cases hx
  | cons z zs ih =>
    have hs' := List.pairwise_cons.mp hs
    have hyz : lt y z = false := by
      rcases List.mem_cons.mp hx with rfl | hx
      · exact hxy
      · exact h.negTrans y x z hxy (hs'.1 x hx)
    have hins : insertBy lt y (z :: zs) = z :: insertBy lt y zs := by simp [insertBy, hyz]
    rw [hins]
    rcases List.mem_cons.mp hx with rfl | hx
    · refine List.Sublist.cons_cons _ ?_
      exact List.singleton_sublist.mpr ((mem_insertBy lt y y zs).mpr (Or.inl rfl))
    · exact List.Sublist.cons _ (ih hs'.2 hx)

/-! ### the generic sort theorems -/

theorem sort_perm {α : Type} (lt : α → α → Bool) (l : List α) : (stableSort lt l).Perm l := by
  simpa [stableSort] using foldl_perm lt l []

theorem sort_sorted {α : Type} (lt : α → α → Bool) (h : StrictWeak lt) (l : List α) :
    Sorted lt (stableSort lt l) :=
  foldl_sorted lt h l [] List.Pairwise.nil

theorem sort_of_sorted {α : Type} (lt : α → α → Bool) (h : StrictWeak lt) (l : List α) (hs : Sorted lt l) :
    stableSort lt l = l := by
  have _ := h
  simpa [stableSort] using foldl_of_sorted lt l [] (by simpa using hs)

theorem sort_idempotent {α : Type} (lt : α → α → Bool) (h : StrictWeak lt) (l : List α) :
    stableSort lt (stableSort lt l) = stableSort lt l :=
  sort_of_sorted lt h _ (sort_sorted lt h l)

theorem sort_filter_comm {α : Type} (lt : α → α → Bool) (h : StrictWeak lt) (l : List α) (p : α → Bool) :
    stableSort lt (l.filter p) = (stableSort lt l).filter p := by
  simpa [stableSort] using (foldl_filter lt h p l [] List.Pairwise.nil).symm

theorem sort_stable {α : Type} (lt : α → α → Bool) (h : StrictWeak lt) (l : List α) (p : α → Bool)
    (heq : ∀ a b, p a = true → p b = true → lt a b = false) :
    (stableSort lt l).filter p = l.filter p := by
  rw [← sort_filter_comm lt h l p]
  apply sort_of_sorted lt h
  have : ∀ a ∈ l.filter p, p a = true := fun a ha => (List.mem_filter.mp ha).2
  exact List.Pairwise.imp_of_mem (R := fun _ _ => True)
    (fun ha hb _ => heq _ _ (this _ hb) (this _ ha)) (List.pairwise_of_forall (fun _ _ => trivial))

theorem sort_keeps_nonlt_order {α : Type} (lt : α → α → Bool) (h : StrictWeak lt) (l1 l2 l3 : List α) (x y : α)
    (hxy : lt y x = false) :
    List.Sublist [x, y] (stableSort lt (l1 ++ x :: l2 ++ y :: l3)) := by
  unfold stableSort
  rw [List.foldl_append, List.foldl_cons]
  apply foldl_sublist
  apply insertBy_pair_sublist lt h x y _ (sort_sorted lt h _) _ hxy
  exact (sort_perm lt _).mem_iff.mpr (by simp)

/-! ### the sort keys are strict weak orders -/

/-- strict total order, Bool-valued -/
structure StrictTotal {α : Type} (lt : α → α → Bool) : Prop where
  irrefl : ∀ a, lt a a = false
  trans : ∀ a b c, lt a b = true → lt b c = true → lt a c = true
  tri : ∀ a b, lt a b = false → lt b a = false → a = b

theorem StrictTotal.strictWeak {α : Type} {lt : α → α → Bool} (h : StrictTotal lt) : StrictWeak lt where
  irrefl := h.irrefl
  trans := h.trans
  negTrans := by
    intro a b c hab hbc
    cases hac : lt a c with
    | false => rfl
    | true =>
      cases hba : lt b a with
      | true => rw [h.trans b a c hba hac] at hbc; cases hbc
      | false =>
        have := h.tri a b hab hba
        subst this
        rw [hac] at hbc; cases hbc

/-- lexicographic comparison of pairs, as Python compares tuples -/
def lexLt {α β : Type} [DecidableEq α] (lt1 : α → α → Bool) (lt2 : β → β → Bool) (a b : α × β) : Bool :=
  lt1 a.1 b.1 || (a.1 == b.1 && lt2 a.2 b.2)

theorem lexLt_strictWeak {α β : Type} [DecidableEq α] {lt1 : α → α → Bool} {lt2 : β → β → Bool}
    (h1 : StrictTotal lt1) (h2 : StrictWeak lt2) : StrictWeak (lexLt lt1 lt2) where
  irrefl := by intro a; simp [lexLt, h1.irrefl, h2.irrefl]
  trans := by
    intro a b c hab hbc
    simp only [lexLt, Bool.or_eq_true, Bool.and_eq_true, beq_iff_eq] at *
    rcases hab with hab | ⟨hab, hab'⟩ <;> rcases hbc with hbc | ⟨hbc, hbc'⟩
    · exact Or.inl (h1.trans _ _ _ hab hbc)
    · exact Or.inl (hbc ▸ hab)
    · exact Or.inl (hab ▸ hbc)
    · exact Or.inr ⟨hab.trans hbc, h2.trans _ _ _ hab' hbc'⟩
  negTrans := by
    intro a b c hab hbc
    simp only [lexLt, Bool.or_eq_false_iff, Bool.and_eq_false_iff, beq_eq_false_iff_ne] at *
    obtain ⟨hab1, hab2⟩ := hab
    obtain ⟨hbc1, hbc2⟩ := hbc
    refine ⟨h1.strictWeak.negTrans _ _ _ hab1 hbc1, ?_⟩
    by_cases hac : a.1 = c.1
    · right
      -- then a.1 = b.1 = c.1
      have hba1 : lt1 b.1 a.1 = false := by rw [hac]; exact hbc1
      have heq : a.1 = b.1 := h1.tri _ _ hab1 hba1
      have hab2' : lt2 a.2 b.2 = false := by
        rcases hab2 with h | h
        · exact absurd heq h
        · exact h
      have hbc2' : lt2 b.2 c.2 = false := by
        rcases hbc2 with h | h
        · exact absurd (heq.symm.trans hac) h
        · exact h
      exact h2.negTrans _ _ _ hab2' hbc2'
    · exact Or.inl hac

theorem lexLt_strictTotal {α β : Type} [DecidableEq α] {lt1 : α → α → Bool} {lt2 : β → β → Bool}
    (h1 : StrictTotal lt1) (h2 : StrictTotal lt2) : StrictTotal (lexLt lt1 lt2) where
  irrefl := (lexLt_strictWeak h1 h2.strictWeak).irrefl
  trans := (lexLt_strictWeak h1 h2.strictWeak).trans
  tri := by
    intro a b hab hba
    simp only [lexLt, Bool.or_eq_false_iff, Bool.and_eq_false_iff, beq_eq_false_iff_ne] at *
    have heq : a.1 = b.1 := h1.tri _ _ hab.1 hba.1
    have e2 : a.2 = b.2 := by
      apply h2.tri
      · rcases hab.2 with h | h
        · exact absurd heq h
        · exact h
      · rcases hba.2 with h | h
        · exact absurd heq.symm h
        · exact h
    exact Prod.ext heq e2

theorem sord_strictTotal : StrictTotal SOrd.lt where
  irrefl := by intro a; cases a <;> simp [SOrd.lt]
  trans := by
    intro a b c
    cases a <;> cases b <;> cases c <;> simp [SOrd.lt]
    omega
  tri := by
    intro a b
    cases a <;> cases b <;> simp [SOrd.lt]
    omega

theorem bool_strictTotal : StrictTotal (fun a b : Bool => !a && b) where
  irrefl := by decide
  trans := by decide
  tri := by decide

theorem string_strictTotal : StrictTotal (fun a b : String => decide (a < b)) where
  irrefl := by intro a; simp
  trans := by
    intro a b c hab hbc
    simp only [decide_eq_true_eq] at *
    exact String.lt_trans hab hbc
  tri := by
    intro a b hab hba
    simp only [decide_eq_false_iff_not, String.not_lt] at *
    exact String.le_antisymm hba hab

theorem strictWeak_comap {α β : Type} {lt : β → β → Bool} (f : α → β) (h : StrictWeak lt) :
    StrictWeak (fun a b => lt (f a) (f b)) :=
  ⟨fun _ => h.irrefl _, fun _ _ _ => h.trans _ _ _, fun _ _ _ => h.negTrans _ _ _⟩

theorem sortKey_strictWeak : StrictWeak SortKey.lt :=
  strictWeak_comap (fun k : SortKey => (k.ord, k.rawRule, k.direct))
    (lexLt_strictWeak sord_strictTotal (lexLt_strictTotal string_strictTotal bool_strictTotal).strictWeak)

theorem ocLt_strictWeak : StrictWeak ocLt :=
  strictWeak_comap (fun it : OCItem => (signed it.order it.direct, it.direct))
    (lexLt_strictWeak sord_strictTotal bool_strictTotal.strictWeak)

theorem removal_key_not_after_creation (n1 n2 : Nat) (raw : String) :
    SortKey.lt ⟨signed (.fin n2) true, raw, true⟩ ⟨signed (.fin n1) false, raw, false⟩ = false := by
  simp [SortKey.lt, signed, SOrd.lt]

/-! ### patch trees -/

/-- the comparison `PatchTree.sort` uses -/
abbrev itemLt (a b : String × Option PTree × SortKey) : Bool := a.2.2.lt b.2.2

theorem itemLt_strictWeak : StrictWeak itemLt :=
  strictWeak_comap (fun a : String × Option PTree × SortKey => a.2.2) sortKey_strictWeak

/-- sorting commutes with a key-preserving map -/
theorem insertBy_map {α : Type} (lt : α → α → Bool) (g : α → α) (hg : ∀ a b, lt (g a) (g b) = lt a b)
    (x : α) (l : List α) : insertBy lt (g x) (l.map g) = (insertBy lt x l).map g := by
  induction l with
  | nil => rfl
  | cons y ys ih =>
    simp only [List.map_cons, insertBy, hg]
    split <;> simp [ih]

theorem foldl_map {α : Type} (lt : α → α → Bool) (g : α → α) (hg : ∀ a b, lt (g a) (g b) = lt a b)
    (l acc : List α) :
    (l.map g).foldl (fun acc x => insertBy lt x acc) (acc.map g) =
      (l.foldl (fun acc x => insertBy lt x acc) acc).map g := by
  induction l generalizing acc with
  | nil => rfl
  | cons x xs ih => simp only [List.map_cons, List.foldl_cons, insertBy_map lt g hg, ih]

theorem sort_map {α : Type} (lt : α → α → Bool) (g : α → α) (hg : ∀ a b, lt (g a) (g b) = lt a b)
    (l : List α) : stableSort lt (l.map g) = (stableSort lt l).map g := by
  simpa [stableSort] using foldl_map lt g hg l []

/-- one step of `sortItems` -/
def sortItem : String × Option PTree × SortKey → String × Option PTree × SortKey
  | (row, none, k) => (row, none, k)
  | (row, some c, k) => (row, some (sortTree c), k)

theorem sortItems_eq_map (l : List (String × Option PTree × SortKey)) : sortItems l = l.map sortItem := by
  induction l with
  | nil => simp [sortItems]
  | cons a rest ih =>
    obtain ⟨row, c, k⟩ := a
    cases c <;> simp [sortItems, sortItem, ih]

theorem sortItem_key (a b : String × Option PTree × SortKey) : itemLt (sortItem a) (sortItem b) = itemLt a b := by
  obtain ⟨_, ca, _⟩ := a
  obtain ⟨_, cb, _⟩ := b
  cases ca <;> cases cb <;> rfl

/-- paths of one item -/
def itemPaths : String × Option PTree × SortKey → List (List String)
  | (row, none, _) => [[row]]
  | (row, some c, _) => [row] :: (ptPaths c).map (row :: ·)

theorem ptPathsL_eq_flatMap (l : List (String × Option PTree × SortKey)) : ptPathsL l = l.flatMap itemPaths := by
  induction l with
  | nil => simp [ptPathsL]
  | cons a rest ih =>
    obtain ⟨row, c, k⟩ := a
    cases c <;> simp [ptPathsL, itemPaths, ih]

mutual
  theorem sortTree_paths_perm : (t : PTree) → (ptPaths (sortTree t)).Perm (ptPaths t)
    | .mk items => by
      simp only [sortTree, ptPaths]
      refine List.Perm.trans ?_ (sortItems_paths_perm items)
      rw [ptPathsL_eq_flatMap, ptPathsL_eq_flatMap]
      exact (sort_perm _ _).flatMap_right _
  theorem sortItems_paths_perm : (l : List (String × Option PTree × SortKey)) →
      (ptPathsL (sortItems l)).Perm (ptPathsL l)
    | [] => by simp [sortItems]
    | (row, none, k) :: rest => by
      simp only [sortItems, ptPathsL]
      exact (sortItems_paths_perm rest).cons _
    | (row, some c, k) :: rest => by
      simp only [sortItems, ptPathsL]
      exact List.Perm.append (((sortTree_paths_perm c).map _).cons _) (sortItems_paths_perm rest)
end

mutual
  theorem sortTree_idempotent : (t : PTree) → sortTree (sortTree t) = sortTree t
    | .mk items => by
      simp only [sortTree]
      have e : sortItems (stableSort itemLt (sortItems items)) = stableSort itemLt (sortItems items) := by
        rw [sortItems_eq_map, ← sort_map itemLt sortItem sortItem_key, ← sortItems_eq_map,
          sortItems_idempotent items]
      show PTree.mk (stableSort itemLt (sortItems (stableSort itemLt (sortItems items)))) = _
      rw [e, sort_idempotent itemLt itemLt_strictWeak]
  theorem sortItems_idempotent : (l : List (String × Option PTree × SortKey)) →
      sortItems (sortItems l) = sortItems l
    | [] => by simp [sortItems]
    | (row, none, k) :: rest => by
      simp only [sortItems]
      rw [sortItems_idempotent rest]
    | (row, some c, k) :: rest => by
      simp only [sortItems]
      rw [sortItems_idempotent rest, sortTree_idempotent c]
end

/-! ### `order_config` -/

/-- the config row an ordered item is written back as -/
abbrev ocPair (it : OCItem) : String × Cfg := (it.row, it.children)

mutual
  theorem orderConfig_perm_aux (v : Rules.Vendor) : (t : Cfg) → ∀ (rb : List Rules.ORule) (t' : Cfg),
      orderConfig v rb t = some t' → CfgPerm t t'
    | .mk ks, rb, t', h => by
      simp only [orderConfig, Option.map_eq_some_iff] at h
      obtain ⟨items, hi, rfl⟩ := h
      exact .mk (orderConfigL_perm_aux v ks rb items _ hi ((sort_perm ocLt items).map ocPair).symm)
  theorem orderConfigL_perm_aux (v : Rules.Vendor) : (ks : List (String × Cfg)) →
      ∀ (rb : List Rules.ORule) (items : List OCItem) (b : List (String × Cfg)),
      orderConfigL v rb ks = some items → (items.map ocPair).Perm b → CfgPermL ks b
    | [], rb, items, b, h, hp => by
      simp only [orderConfigL, Option.some.injEq] at h
      subst h
      have := hp.symm.eq_nil
      subst this
      exact .nil
    | (row, ch) :: rest, rb, items, b, h, hp => by
      simp only [orderConfigL] at h
      split at h
      · cases h
      · rename_i o ho
        split at h
        · rename_i ch' rest' hch hrest
          cases h
          have hmem : (row, ch') ∈ b := hp.mem_iff.mp (by simp)
          obtain ⟨b1, b2, rfl⟩ := List.append_of_mem hmem
          refine .cons (orderConfig_perm_aux v ch o.children ch' hch) rfl
            (orderConfigL_perm_aux v rest rb rest' _ hrest ?_)
          exact (List.perm_cons _).mp (hp.trans List.perm_middle)
        · cases h
end

theorem orderConfig_perm (v : Rules.Vendor) (rb : List Rules.ORule) (t t' : Cfg)
    (h : orderConfig v rb t = some t') : CfgPerm t t' :=
  orderConfig_perm_aux v t rb t' h

/-- an ordered item whose key is what `get_order` recomputes from its row, with ordered children -/
def OCFixed (v : Rules.Vendor) (rb : List Rules.ORule) (it : OCItem) : Prop :=
  ∃ o, getOrder v rb it.row (!(v.reverse.toList.isPrefixOf it.row.toList)) none = some o ∧
    o.direct = it.direct ∧ o.order = it.order ∧ orderConfig v o.children it.children = some it.children

theorem orderConfigL_of_fixed (v : Rules.Vendor) (rb : List Rules.ORule) (l : List OCItem)
    (h : ∀ it ∈ l, OCFixed v rb it) : orderConfigL v rb (l.map ocPair) = some l := by
  induction l with
  | nil => simp [orderConfigL]
  | cons it rest ih =>
    obtain ⟨o, ho, hd, hord, hch⟩ := h it List.mem_cons_self
    have ih' := ih (fun it' hit' => h it' (List.mem_cons_of_mem _ hit'))
    obtain ⟨row, ch, d, ord⟩ := it
    simp only at ho hd hord hch
    subst hd hord
    simp only [List.map_cons, orderConfigL, ho, hch, ih']

mutual
  theorem orderConfig_idem_aux (v : Rules.Vendor) : (t : Cfg) → ∀ (rb : List Rules.ORule) (t' : Cfg),
      orderConfig v rb t = some t' → orderConfig v rb t' = some t'
    | .mk ks, rb, t', h => by
      simp only [orderConfig, Option.map_eq_some_iff] at h
      obtain ⟨items, hi, rfl⟩ := h
      have hfix := orderConfigL_fixed_aux v ks rb items hi
      have hfix' : ∀ it ∈ stableSort ocLt items, OCFixed v rb it :=
        fun it hit => hfix it ((sort_perm ocLt items).mem_iff.mp hit)
      simp only [orderConfig]
      rw [orderConfigL_of_fixed v rb _ hfix']
      simp only [Option.map_some, sort_idempotent ocLt ocLt_strictWeak]
  theorem orderConfigL_fixed_aux (v : Rules.Vendor) : (ks : List (String × Cfg)) →
      ∀ (rb : List Rules.ORule) (items : List OCItem),
      orderConfigL v rb ks = some items → ∀ it ∈ items, OCFixed v rb it
    | [], rb, items, h => by
      simp only [orderConfigL, Option.some.injEq] at h
      subst h
      simp
    | (row, ch) :: rest, rb, items, h => by
      simp only [orderConfigL] at h
      split at h
      · cases h
      · rename_i o ho
        split at h
        · rename_i ch' rest' hch hrest
          cases h
          intro it hit
          rcases List.mem_cons.mp hit with rfl | hit
          · exact ⟨o, ho, rfl, rfl, orderConfig_idem_aux v ch o.children ch' hch⟩
          · exact orderConfigL_fixed_aux v rest rb rest' hrest it hit
        · cases h
end

theorem orderConfig_idempotent (v : Rules.Vendor) (rb : List Rules.ORule) (t t' : Cfg)
    (h : orderConfig v rb t = some t') : orderConfig v rb t' = some t' :=
  orderConfig_idem_aux v t rb t' h

end Annet.Patch.Lemmas
