/-
Lemmas about the ACL steps of `_old_new_per_device` (`Model/Gen.lean`, `aclSteps` / `oldNewFull`): the generators'
combined ACL is an allow-list that is applied even when it is empty, a requested filter ACL is applied even when it is
empty, and both only ever select sub-trees.
-/
import AnnetModel.Model.Gen
import AnnetModel.Lemmas.Acl

namespace Annet.Gen
open Annet Annet.Acl Annet.Acl.Spec

/-! ### `Sub` is transitive -/

theorem subL_nil_right {a : List (String × Cfg)} (h : SubL a []) : a = [] := by
  cases h; rfl

mutual
  theorem sub_trans : (c : Cfg) → (a b : Cfg) → Sub a b → Sub b c → Sub a c
    | .mk kc, a, b, h1, h2 => by
      cases h2 with
      | mk h2 =>
        cases h1 with
        | mk h1 => exact Spec.Sub.mk (subL_trans kc _ _ h1 h2)
  theorem subL_trans : (c : List (String × Cfg)) → (a b : List (String × Cfg)) → SubL a b → SubL b c → SubL a c
    | [], a, b, h1, h2 => by
      have := subL_nil_right h2; subst this
      have := subL_nil_right h1; subst this
      exact SubL.nil _
    | (k, cc) :: l, a, b, h1, h2 => by
      cases h2 with
      | nil => have := subL_nil_right h1; subst this; exact SubL.nil _
      | skip _ h2 => exact SubL.skip _ (subL_trans l a b h1 h2)
      | keep _ hc h2 =>
        cases h1 with
        | nil => exact SubL.nil _
        | skip _ h1 => exact SubL.skip _ (subL_trans l a _ h1 h2)
        | keep _ hc1 h1 => exact SubL.keep k (sub_trans cc _ _ hc1 hc) (subL_trans l _ _ h1 h2)
end

mutual
  theorem sub_refl : (c : Cfg) → Sub c c
    | .mk ks => Spec.Sub.mk (subL_refl ks)
  theorem subL_refl : (ks : List (String × Cfg)) → SubL ks ks
    | [] => SubL.nil _
    | (k, c) :: rest => SubL.keep k (sub_refl c) (subL_refl rest)
end

theorem sub_nil_nil : Sub (.mk []) (.mk []) := Spec.Sub.mk (SubL.nil _)

/-! ### the empty ACL -/

theorem compileAcl_empty : compileAcl [[]] = ⟨[], []⟩ := by
  simp [compileAcl, compileAclFuel, mergeToplevel, depthRaw.depthList]

theorem matchRow_empty (v : Vendor) (row : String) (excl : Bool) :
    matchRowToAcl v row ⟨[], []⟩ excl = .ok none := by
  simp [matchRowToAcl, findMatches, sortStable]

theorem applyAclList_empty (v : Vendor) (excl : Bool) (path : List String) :
    (ks : List (String × Cfg)) → applyAclList v false excl ⟨[], []⟩ path ks = .ok []
  | [] => by rw [applyAclList]
  | (row, ch) :: rest => by
    rw [applyAclList, matchRow_empty]
    simp only [Bool.false_eq_true, if_false]
    exact applyAclList_empty v excl path rest

/-- `old and apply_acl(old, rules)` is `apply_acl(old, rules)`: the lenient filter of the empty tree is the empty tree -/
theorem filterOld_eq (v : Vendor) (rules : Rules) (t : Cfg) :
    filterOld v rules t = applyAcl v false false rules [] t := by
  match t with
  | .mk [] => simp [filterOld, applyAcl, applyAclList, Except.map]
  | .mk (x :: xs) => simp [filterOld]

/-- the empty ACL passes nothing (lenient mode) -/
theorem applyAcl_empty_rules (v : Vendor) (excl : Bool) (path : List String) (t : Cfg) :
    applyAcl v false excl (compileAcl [[]]) path t = .ok (.mk []) := by
  cases t with
  | mk ks => rw [compileAcl_empty, applyAcl, applyAclList_empty]; rfl

theorem filterOld_empty_rules (v : Vendor) (t : Cfg) : filterOld v (compileAcl [[]]) t = .ok (.mk []) := by
  rw [filterOld_eq]; exact applyAcl_empty_rules v false [] t

theorem filterOld_sub (v : Vendor) (rules : Rules) (t t' : Cfg) (h : filterOld v rules t = .ok t') : Sub t' t := by
  rw [filterOld_eq] at h
  exact Lemmas.subtree_ordered v false false rules [] t t' h

/-! ### inversion of `aclSteps` -/

/-- the ownership step (no filter) -/
theorem aclSteps_none_inv {v : Vendor} {noAcl exclusive : Bool} {genAcl : List RawRule} {old new : Cfg} {r : OldNew}
    (h : aclSteps v noAcl exclusive genAcl none old new = .ok r) :
    (noAcl = true ∧ r = ⟨old, new⟩) ∨
    (noAcl = false ∧ ∃ o n, applyAcl v false false (compileAcl [genAcl]) [] old = .ok o ∧
      applyAcl v false exclusive (compileAcl [genAcl]) [] new = .ok n ∧ r = ⟨o, n⟩) := by
  unfold aclSteps at h
  cases noAcl with
  | true =>
    simp only [if_true] at h
    cases h; exact .inl ⟨rfl, rfl⟩
  | false =>
    simp only [Bool.false_eq_true, if_false, filterOld_eq] at h
    cases ho : applyAcl v false false (compileAcl [genAcl]) [] old with
    | error e => rw [ho] at h; cases h
    | ok o =>
      cases hn : applyAcl v false exclusive (compileAcl [genAcl]) [] new with
      | error e => rw [ho, hn] at h; cases h
      | ok n =>
        rw [ho, hn] at h; cases h
        exact .inr ⟨rfl, o, n, rfl, rfl, rfl⟩

/-- the filter step comes after the ownership step -/
theorem aclSteps_some_eq (v : Vendor) (noAcl exclusive : Bool) (genAcl f : List RawRule) (old new : Cfg) :
    aclSteps v noAcl exclusive genAcl (some f) old new =
      match aclSteps v noAcl exclusive genAcl none old new with
      | .error e => .error e
      | .ok r =>
        match applyAcl v false false (compileAcl [f]) [] r.old with
        | .error e => .error e
        | .ok o =>
          match applyAcl v false false (compileAcl [f]) [] r.new with
          | .error e => .error e
          | .ok n => .ok ⟨o, n⟩ := by
  unfold aclSteps
  simp only [filterOld_eq]
  cases noAcl with
  | true => simp only [if_true]; rfl
  | false =>
    simp only [Bool.false_eq_true, if_false]
    cases applyAcl v false false (compileAcl [genAcl]) [] old with
    | error e => rfl
    | ok o =>
      cases applyAcl v false exclusive (compileAcl [genAcl]) [] new with
      | error e => rfl
      | ok n => rfl

theorem aclSteps_some_inv {v : Vendor} {noAcl exclusive : Bool} {genAcl f : List RawRule} {old new : Cfg} {r : OldNew}
    (h : aclSteps v noAcl exclusive genAcl (some f) old new = .ok r) :
    ∃ r0 o n, aclSteps v noAcl exclusive genAcl none old new = .ok r0 ∧
      applyAcl v false false (compileAcl [f]) [] r0.old = .ok o ∧
      applyAcl v false false (compileAcl [f]) [] r0.new = .ok n ∧ r = ⟨o, n⟩ := by
  rw [aclSteps_some_eq] at h
  cases h0 : aclSteps v noAcl exclusive genAcl none old new with
  | error e => rw [h0] at h; cases h
  | ok r0 =>
    rw [h0] at h
    simp only at h
    cases ho : applyAcl v false false (compileAcl [f]) [] r0.old with
    | error e => rw [ho] at h; cases h
    | ok o =>
      cases hn : applyAcl v false false (compileAcl [f]) [] r0.new with
      | error e => rw [ho, hn] at h; cases h
      | ok n =>
        rw [ho, hn] at h; cases h
        exact ⟨r0, o, n, rfl, ho, hn, rfl⟩

theorem aclSteps_none_sub {v : Vendor} {noAcl exclusive : Bool} {genAcl : List RawRule} {old new : Cfg} {r : OldNew}
    (h : aclSteps v noAcl exclusive genAcl none old new = .ok r) : Sub r.old old ∧ Sub r.new new := by
  rcases aclSteps_none_inv h with ⟨_, rfl⟩ | ⟨_, o, n, ho, hn, rfl⟩
  · exact ⟨sub_refl _, sub_refl _⟩
  · exact ⟨Lemmas.subtree_ordered _ _ _ _ _ _ _ ho, Lemmas.subtree_ordered _ _ _ _ _ _ _ hn⟩

/-- both results are order-preserving sub-trees of what went in -/
theorem aclSteps_sub (v : Vendor) (noAcl exclusive : Bool) (genAcl : List RawRule) (filter : Option (List RawRule))
    (old new : Cfg) (r : OldNew) (h : aclSteps v noAcl exclusive genAcl filter old new = .ok r) :
    Sub r.old old ∧ Sub r.new new := by
  cases filter with
  | none => exact aclSteps_none_sub h
  | some f =>
    obtain ⟨r0, o, n, h0, ho, hn, rfl⟩ := aclSteps_some_inv h
    have h1 := aclSteps_none_sub h0
    exact ⟨sub_trans _ _ _ (Lemmas.subtree_ordered _ _ _ _ _ _ _ ho) h1.1,
      sub_trans _ _ _ (Lemmas.subtree_ordered _ _ _ _ _ _ _ hn) h1.2⟩

/-- AN EMPTY ALLOW-LIST ALLOWS NOTHING: when no generator provided an ACL rule (and `--no-acl` is off), nothing of the
device configuration and nothing generated is passed on — so nothing can be patched. -/
theorem aclSteps_empty_gen_acl (v : Vendor) (exclusive : Bool) (filter : Option (List RawRule)) (old new : Cfg)
    (r : OldNew) (h : aclSteps v false exclusive [] filter old new = .ok r) :
    r.old = .mk [] ∧ r.new = .mk [] := by
  have key : ∀ r0, aclSteps v false exclusive [] none old new = .ok r0 → r0.old = .mk [] ∧ r0.new = .mk [] := by
    intro r0 h0
    rcases aclSteps_none_inv h0 with ⟨hf, _⟩ | ⟨_, o, n, ho, hn, rfl⟩
    · cases hf
    · rw [applyAcl_empty_rules] at ho hn
      cases ho; cases hn; exact ⟨rfl, rfl⟩
  cases filter with
  | none => exact key r h
  | some f =>
    obtain ⟨r0, o, n, h0, ho, hn, rfl⟩ := aclSteps_some_inv h
    obtain ⟨h1, h2⟩ := key r0 h0
    rw [h1] at ho; rw [h2] at hn
    simp only [applyAcl, applyAclList, Except.map] at ho hn
    cases ho; cases hn; exact ⟨rfl, rfl⟩

/-- A REQUESTED FILTER THAT COVERS NOTHING PASSES NOTHING. -/
theorem aclSteps_empty_filter (v : Vendor) (noAcl exclusive : Bool) (genAcl : List RawRule) (old new : Cfg)
    (r : OldNew) (h : aclSteps v noAcl exclusive genAcl (some []) old new = .ok r) :
    r.old = .mk [] ∧ r.new = .mk [] := by
  obtain ⟨r0, o, n, _, ho, hn, rfl⟩ := aclSteps_some_inv h
  rw [applyAcl_empty_rules] at ho hn
  cases ho; cases hn; exact ⟨rfl, rfl⟩

/-- a filter only narrows: the filtered results are sub-trees of the unfiltered ones -/
theorem aclSteps_filter_narrows (v : Vendor) (noAcl exclusive : Bool) (genAcl f : List RawRule) (old new : Cfg)
    (r : OldNew) (h : aclSteps v noAcl exclusive genAcl (some f) old new = .ok r) :
    ∃ r0, aclSteps v noAcl exclusive genAcl none old new = .ok r0 ∧ Sub r.old r0.old ∧ Sub r.new r0.new := by
  obtain ⟨r0, o, n, h0, ho, hn, rfl⟩ := aclSteps_some_inv h
  exact ⟨r0, h0, Lemmas.subtree_ordered _ _ _ _ _ _ _ ho, Lemmas.subtree_ordered _ _ _ _ _ _ _ hn⟩

/-- every path of the new configuration that is passed on is covered, level by level, by the generators' combined
ACL (non-exclusive run) and by the filter ACL -/
theorem aclSteps_new_paths_covered (v : Vendor) (genAcl f : List RawRule) (old new : Cfg)
    (r : OldNew) (h : aclSteps v false false genAcl (some f) old new = .ok r) (p : List String) (hp : p ∈ r.new.paths) :
    p ∈ new.paths ∧ (walk v (compileAcl [genAcl]) p).isSome ∧ (walk v (compileAcl [f]) p).isSome := by
  obtain ⟨r0, o, n, h0, ho, hn, rfl⟩ := aclSteps_some_inv h
  rcases aclSteps_none_inv h0 with ⟨hf, _⟩ | ⟨_, o0, n0, ho0, hn0, rfl⟩
  · cases hf
  · have h1 := (Lemmas.path_predicate _ _ _ _ _ hn p).1 hp
    have h2 := (Lemmas.path_predicate _ _ _ _ _ hn0 p).1 h1.1
    exact ⟨h2.1, h2.2, h1.2⟩

/-- … and the same for the device configuration that is passed on -/
theorem aclSteps_old_paths_covered (v : Vendor) (exclusive : Bool) (genAcl f : List RawRule) (old new : Cfg)
    (r : OldNew) (h : aclSteps v false exclusive genAcl (some f) old new = .ok r) (p : List String) (hp : p ∈ r.old.paths) :
    p ∈ old.paths ∧ (walk v (compileAcl [genAcl]) p).isSome ∧ (walk v (compileAcl [f]) p).isSome := by
  obtain ⟨r0, o, n, h0, ho, hn, rfl⟩ := aclSteps_some_inv h
  rcases aclSteps_none_inv h0 with ⟨hf, _⟩ | ⟨_, o0, n0, ho0, hn0, rfl⟩
  · cases hf
  · have h1 := (Lemmas.path_predicate _ _ _ _ _ ho p).1 hp
    have h2 := (Lemmas.path_predicate _ _ _ _ _ ho0 p).1 h1.1
    exact ⟨h2.1, h2.2, h1.2⟩

/-! ### the whole `_old_new_per_device` -/

theorem oldNewFull_inv {v : Vendor} {sp : Splitter} {gens : List GenDef} {noAcl exclusive : Bool}
    {filter : Option (List RawRule)} {old : Cfg} {r : OldNew}
    (h : oldNewFull v sp gens noAcl exclusive filter old = .ok r) :
    ∃ rs, runPartialsU (!noAcl) v sp gens [] = .ok rs ∧
      aclSteps v noAcl exclusive (combineAcl rs) filter old (configTree rs) = .ok r := by
  unfold oldNewFull at h
  cases hr : runPartialsU (!noAcl) v sp gens [] with
  | error e => rw [hr] at h; cases h
  | ok rs =>
    rw [hr] at h
    refine ⟨rs, rfl, ?_⟩
    simp only at h
    cases ha : aclSteps v noAcl exclusive (combineAcl rs) filter old (configTree rs) with
    | error e => rw [ha] at h; cases e <;> cases h
    | ok r' => rw [ha] at h; cases h; rfl

theorem mem_addPartial {rs : List Result} {r x : Result} (h : x ∈ addPartial rs r) : x ∈ rs ∨ x = r := by
  unfold addPartial at h
  split at h
  · obtain ⟨y, hy, rfl⟩ := List.mem_map.1 h
    split
    · exact .inr rfl
    · exact .inl hy
  · rcases List.mem_append.1 h with h | h
    · exact .inl h
    · exact .inr (by simpa using h)

theorem runPartialsU_acl_nil (useAcl : Bool) (v : Vendor) (sp : Splitter) :
    (gens : List GenDef) → (acc rs : List Result) → (∀ g ∈ gens, g.acl = []) → (∀ r ∈ acc, r.acl = []) →
      runPartialsU useAcl v sp gens acc = .ok rs → ∀ r ∈ rs, r.acl = []
  | [], acc, rs, _, hacc, h => by
    rw [runPartialsU] at h; cases h; exact hacc
  | g :: rest, acc, rs, hg, hacc, h => by
    rw [runPartialsU] at h
    cases hc : runPartialU useAcl v sp g with
    | error e => rw [hc] at h; cases h
    | ok c =>
      rw [hc] at h
      refine runPartialsU_acl_nil useAcl v sp rest _ rs (fun g' hg' => hg g' (List.mem_cons_of_mem _ hg')) ?_ h
      intro x hx
      rcases mem_addPartial hx with hx | rfl
      · exact hacc x hx
      · exact hg g (List.mem_cons_self ..)

/-- with `use_acl` on, `runPartialsU` is `runPartials` -/
theorem runPartialsU_true (v : Vendor) (sp : Splitter) :
    (gens : List GenDef) → (acc : List Result) → runPartialsU true v sp gens acc = runPartials v sp gens acc
  | [], acc => by rw [runPartialsU, runPartials]
  | g :: rest, acc => by
    rw [runPartialsU, runPartials]
    simp only [runPartialU, if_true]
    cases runPartial v sp g with
    | error e => rfl
    | ok c => exact runPartialsU_true v sp rest _

theorem runPartials_acl_nil (v : Vendor) (sp : Splitter) (gens : List GenDef) (acc rs : List Result)
    (hg : ∀ g ∈ gens, g.acl = []) (hacc : ∀ r ∈ acc, r.acl = []) (h : runPartials v sp gens acc = .ok rs) :
    ∀ r ∈ rs, r.acl = [] := by
  rw [← runPartialsU_true] at h
  exact runPartialsU_acl_nil true v sp gens acc rs hg hacc h

theorem combineAcl_nil : (rs : List Result) → (∀ r ∈ rs, r.acl = []) → combineAcl rs = []
  | [], _ => rfl
  | r :: rs, h => by
    have ih := combineAcl_nil rs (fun x hx => h x (List.mem_cons_of_mem _ hx))
    unfold combineAcl at ih ⊢
    rw [List.map_cons, List.flatten_cons, ih, h r (List.mem_cons_self ..), tagRules]
    rfl

/-- whole `_old_new_per_device`: generators none of which provides an ACL rule yield an empty old and an empty new -/
theorem oldNewFull_no_acl_rules (v : Vendor) (sp : Splitter) (gens : List GenDef) (exclusive : Bool)
    (filter : Option (List RawRule)) (old : Cfg) (r : OldNew) (hg : ∀ g ∈ gens, g.acl = [])
    (h : oldNewFull v sp gens false exclusive filter old = .ok r) : r.old = .mk [] ∧ r.new = .mk [] := by
  obtain ⟨rs, hr, ha⟩ := oldNewFull_inv h
  have hnil := combineAcl_nil rs (runPartialsU_acl_nil _ v sp gens [] rs hg (by simp) hr)
  rw [hnil] at ha
  exact aclSteps_empty_gen_acl v exclusive filter old _ r ha

/-- whole `_old_new_per_device`: a requested filter without rules yields an empty old and an empty new -/
theorem oldNewFull_empty_filter (v : Vendor) (sp : Splitter) (gens : List GenDef) (noAcl exclusive : Bool)
    (old : Cfg) (r : OldNew) (h : oldNewFull v sp gens noAcl exclusive (some []) old = .ok r) :
    r.old = .mk [] ∧ r.new = .mk [] := by
  obtain ⟨rs, _, ha⟩ := oldNewFull_inv h
  exact aclSteps_empty_filter v noAcl exclusive _ old _ r ha

/-- whole `_old_new_per_device`: what is passed on is a sub-tree of the device configuration / of the merged generator
output -/
theorem oldNewFull_sub (v : Vendor) (sp : Splitter) (gens : List GenDef) (noAcl exclusive : Bool)
    (filter : Option (List RawRule)) (old : Cfg) (r : OldNew)
    (h : oldNewFull v sp gens noAcl exclusive filter old = .ok r) :
    Sub r.old old ∧ ∃ rs, runPartialsU (!noAcl) v sp gens [] = .ok rs ∧ Sub r.new (configTree rs) := by
  obtain ⟨rs, hr, ha⟩ := oldNewFull_inv h
  have := aclSteps_sub v noAcl exclusive _ filter old _ r ha
  exact ⟨this.1, rs, hr, this.2⟩

/-- whole `_old_new_per_device` with `--no-acl` and no filter: everything is passed on unchanged -/
theorem oldNewFull_noacl_nofilter (v : Vendor) (sp : Splitter) (gens : List GenDef) (exclusive : Bool)
    (old : Cfg) (r : OldNew) (h : oldNewFull v sp gens true exclusive none old = .ok r) :
    r.old = old ∧ ∃ rs, runPartialsU false v sp gens [] = .ok rs ∧ r.new = configTree rs := by
  obtain ⟨rs, hr, ha⟩ := oldNewFull_inv h
  rcases aclSteps_none_inv ha with ⟨_, rfl⟩ | ⟨hf, _⟩
  · exact ⟨rfl, rs, hr, rfl⟩
  · cases hf

end Annet.Gen
