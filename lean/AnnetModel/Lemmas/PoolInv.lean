/-
Helper lemmas for the worker pool (C12), part 2: the inductive invariant `Inv`
(conservation of results, shape of the task queue, STOP/slot bijection, reaping
discipline) and its preservation by every step.
-/
import AnnetModel.Lemmas.PoolStep

namespace Annet.Pool

set_option linter.unusedSimpArgs false

/-- The id a worker is working on (taken, result not yet put). -/
def W.holding : W → List Id
  | .busy _ id => [id]
  | _ => []

/-- The slot's current process has not consumed a STOP (and, if it retired with code 9,
has not been replaced yet). -/
def W.live : W → Bool
  | .idle _ => true
  | .busy _ _ => true
  | .retiring => true
  | .exited .nine => true
  | _ => false

def W.isExited : W → Bool
  | .exited _ => true
  | _ => false

@[simp] theorem W.holding_idle (d : Nat) : (W.idle d).holding = [] := rfl
@[simp] theorem W.holding_busy (d : Nat) (id : Id) : (W.busy d id).holding = [id] := rfl
@[simp] theorem W.holding_retiring : W.retiring.holding = [] := rfl
@[simp] theorem W.holding_stopping : W.stopping.holding = [] := rfl
@[simp] theorem W.holding_exited (k : Code) : (W.exited k).holding = [] := rfl
@[simp] theorem W.live_idle (d : Nat) : (W.idle d).live = true := rfl
@[simp] theorem W.live_busy (d : Nat) (id : Id) : (W.busy d id).live = true := rfl
@[simp] theorem W.live_retiring : W.retiring.live = true := rfl
@[simp] theorem W.live_stopping : W.stopping.live = false := rfl
@[simp] theorem W.live_exited_nine : (W.exited .nine).live = true := rfl
@[simp] theorem W.live_exited_zero : (W.exited .zero).live = false := rfl
@[simp] theorem W.isExited_idle (d : Nat) : (W.idle d).isExited = false := rfl
@[simp] theorem W.isExited_busy (d : Nat) (id : Id) : (W.busy d id).isExited = false := rfl
@[simp] theorem W.isExited_retiring : W.retiring.isExited = false := rfl
@[simp] theorem W.isExited_stopping : W.stopping.isExited = false := rfl
@[simp] theorem W.isExited_exited (k : Code) : (W.exited k).isExited = true := rfl
@[simp] theorem W.holding_ite (p : Prop) [Decidable p] (d : Nat) :
    (if p then W.retiring else W.idle d).holding = [] := by split <;> rfl
@[simp] theorem W.live_ite (p : Prop) [Decidable p] (d : Nat) :
    (if p then W.retiring else W.idle d).live = true := by split <;> rfl
@[simp] theorem W.isExited_ite (p : Prop) [Decidable p] (d : Nat) :
    (if p then W.retiring else W.idle d).isExited = false := by split <;> rfl

/-- Results a worker is responsible for: buffered ones and the one being computed. -/
def Worker.flight (c : Cfg) (w : Worker) : List Res := w.buf ++ w.st.holding.map c.res

def taskIds : List Task → List Id
  | [] => []
  | .invoke id :: q => id :: taskIds q
  | .stop :: q => taskIds q

def stops : List Task → Nat
  | [] => 0
  | .invoke _ :: q => stops q
  | .stop :: q => stops q + 1

/-- The result the parent has taken from the pipe and not yet yielded (or raised). -/
def PC.gotL : PC → List Res
  | .check (some r) _ _ => [r]
  | .post (some r) _ => [r]
  | .aborted r => [r]
  | _ => []

/-- Slots the parent knows to have retired (exit code 9) and still has to restart. -/
def PC.retiredL : PC → List Nat
  | .check _ _ ret => ret
  | .post _ ret => ret
  | .restart todo => todo
  | _ => []

def PC.scanL : PC → List Nat
  | .check _ todo ret => ret ++ todo
  | .post _ ret => ret
  | .restart todo => todo
  | _ => []

/-- Everything that is neither delivered nor dropped. -/
def inflight (c : Cfg) (s : State) : List Res :=
  s.pc.gotL ++ s.doneQ ++ s.ws.flatMap (Worker.flight c) ++ (taskIds s.taskQ).map c.res

structure Inv (c : Cfg) (s : State) : Prop where
  cons : c.submitted.Perm (s.delivered ++ inflight c s ++ s.dropped)
  shape : s.taskQ = (taskIds s.taskQ).map Task.invoke ++ List.replicate (stops s.taskQ) Task.stop
  stopsLive : stops s.taskQ = s.ws.countP (fun w => w.st.live)
  idsFirst : stops s.taskQ < s.ws.length → taskIds s.taskQ = []
  size : s.ws.length = c.poolSize
  reaped : ∀ i w, s.ws[i]? = some w → i ∉ s.pool → w.st = .exited .zero
  exitedBuf : ∀ w ∈ s.ws, w.st.isExited = true → w.buf = []
  retired : ∀ i ∈ s.pc.retiredL, s.ws[i]? = some ⟨.exited .nine, []⟩
  scanNodup : s.pc.scanL.Nodup
  poolNodup : s.pool.Nodup
  poolBound : ∀ i ∈ s.pool, i < s.ws.length
  count : s.tasksDone = s.delivered.length

theorem taskIds_append (a b : List Task) : taskIds (a ++ b) = taskIds a ++ taskIds b := by
  induction a with
  | nil => rfl
  | cons t a ih => cases t <;> simp [taskIds, ih]

theorem stops_append (a b : List Task) : stops (a ++ b) = stops a + stops b := by
  induction a with
  | nil => simp [stops]
  | cons t a ih => cases t <;> simp [stops, ih] <;> omega

theorem taskIds_map_invoke (l : List Id) : taskIds (l.map Task.invoke) = l := by
  induction l with
  | nil => rfl
  | cons a l ih => simp [taskIds, ih]

theorem stops_map_invoke (l : List Id) : stops (l.map Task.invoke) = 0 := by
  induction l with
  | nil => rfl
  | cons a l ih => simp [stops, ih]

theorem taskIds_replicate_stop (n : Nat) : taskIds (List.replicate n Task.stop) = [] := by
  induction n with
  | zero => rfl
  | succ n ih => simp [List.replicate_succ, taskIds, ih]

theorem stops_replicate_stop (n : Nat) : stops (List.replicate n Task.stop) = n := by
  induction n with
  | zero => rfl
  | succ n ih => simp [List.replicate_succ, stops, ih]

theorem inv_init (c : Cfg) : Inv c (init c) := by
  refine ⟨?_, ?_, ?_, ?_, ?_, ?_, ?_, ?_, ?_, ?_, ?_, ?_⟩
  · simp [init, inflight, PC.gotL, taskIds_append, taskIds_map_invoke, taskIds_replicate_stop,
      Worker.flight, Cfg.submitted, List.flatMap_replicate]
  · simp [init, taskIds_append, taskIds_map_invoke, taskIds_replicate_stop, stops_append,
      stops_map_invoke, stops_replicate_stop]
  · simp [init, stops_append, stops_map_invoke, stops_replicate_stop, List.countP_replicate]
  · simp [init, stops_append, stops_map_invoke, stops_replicate_stop]
  · simp [init]
  · intro i w h hi
    simp [init, List.getElem?_replicate] at h hi
    have := h.1
    omega
  · intro w hw he
    simp [init] at hw
    simp [hw.2]
  · simp [init, PC.retiredL]
  · simp [init, PC.scanL]
  · simp [init, List.nodup_range]
  · simp [init]
  · simp [init]

theorem mem_of_getElem? {α} {l : List α} {i : Nat} {x : α} (h : l[i]? = some x) : x ∈ l :=
  List.mem_of_getElem? h

/-- Replacing the state of one worker keeps the "structural" part of `Inv`. -/
theorem Inv.setW' {c : Cfg} {s s' : State} {i : Nat} {w w' : Worker} (h : Inv c s)
    (hw : s.ws[i]? = some w) (hz : w.st ≠ .exited .zero)
    (hbuf : w'.st.isExited = true → w'.buf = [])
    (hws : s'.ws = s.ws.set i w') (hpool : s'.pool = s.pool)
    (hret : ∀ j ∈ s'.pc.retiredL, j ≠ i ∧ j ∈ s.pc.retiredL) (hscan : s'.pc.scanL.Nodup)
    (hdel : s'.delivered = s.delivered) (htd : s'.tasksDone = s.tasksDone)
    (hcons : c.submitted.Perm (s'.delivered ++ inflight c s' ++ s'.dropped))
    (hshape : s'.taskQ = (taskIds s'.taskQ).map Task.invoke ++ List.replicate (stops s'.taskQ) Task.stop)
    (hstops : stops s'.taskQ = (s.ws.set i w').countP (fun w => w.st.live))
    (hids : stops s'.taskQ < s.ws.length → taskIds s'.taskQ = []) : Inv c s' := by
  refine ⟨hcons, hshape, ?_, ?_, ?_, ?_, ?_, ?_, hscan, ?_, ?_, ?_⟩
  · rw [hws]; exact hstops
  · rw [hws]; simpa using hids
  · rw [hws]; simpa using h.size
  · intro j x hx hj
    rw [hws] at hx; rw [hpool] at hj
    by_cases hji : j = i
    · subst hji
      exact absurd (h.reaped j w hw hj) hz
    · rw [List.getElem?_set_ne (Ne.symm hji)] at hx
      exact h.reaped j x hx hj
  · intro x hx hex
    rw [hws] at hx
    rcases List.mem_or_eq_of_mem_set hx with hx | hx
    · exact h.exitedBuf x hx hex
    · subst hx; exact hbuf hex
  · intro j hj
    obtain ⟨hji, hj'⟩ := hret j hj
    rw [hws, List.getElem?_set_ne (Ne.symm hji)]
    exact h.retired j hj'
  · rw [hpool]; exact h.poolNodup
  · intro j hj
    rw [hpool] at hj
    rw [hws]
    simpa using h.poolBound j hj
  · rw [htd, hdel]; exact h.count

/-- Replacing the state of one non-exited worker (any worker event). -/
theorem Inv.setW {c : Cfg} {s s' : State} {i : Nat} {w w' : Worker} (h : Inv c s)
    (hw : s.ws[i]? = some w) (hne : w.st.isExited = false)
    (hbuf : w'.st.isExited = true → w'.buf = [])
    (hws : s'.ws = s.ws.set i w') (hpool : s'.pool = s.pool) (hpc : s'.pc = s.pc)
    (hdel : s'.delivered = s.delivered) (htd : s'.tasksDone = s.tasksDone)
    (hcons : c.submitted.Perm (s'.delivered ++ inflight c s' ++ s'.dropped))
    (hshape : s'.taskQ = (taskIds s'.taskQ).map Task.invoke ++ List.replicate (stops s'.taskQ) Task.stop)
    (hstops : stops s'.taskQ = (s.ws.set i w').countP (fun w => w.st.live))
    (hids : stops s'.taskQ < s.ws.length → taskIds s'.taskQ = []) : Inv c s' := by
  refine h.setW' hw ?_ hbuf hws hpool ?_ (hpc ▸ h.scanNodup) hdel htd hcons hshape hstops hids
  · intro hz; simp [hz] at hne
  · intro j hj
    rw [hpc] at hj
    refine ⟨?_, hj⟩
    intro hji
    subst hji
    have hr := h.retired j hj
    rw [hw] at hr
    simp at hr
    subst hr
    simp at hne

theorem getElem?_lt {α} {l : List α} {i : Nat} {x : α} (h : l[i]? = some x) : i < l.length :=
  (List.getElem?_eq_some_iff.mp h).1

theorem taskQ_head_stop {q' : List Task} {tq : List Task}
    (hshape : tq = (taskIds tq).map Task.invoke ++ List.replicate (stops tq) Task.stop)
    (hq : tq = .stop :: q') : taskIds tq = [] := by
  cases hti : taskIds tq with
  | nil => rfl
  | cons a l =>
    rw [hti] at hshape
    rw [hq] at hshape
    simp at hshape

theorem inv_step_worker {c : Cfg} {s s' : State} {e : Ev} (h : Inv c s) (hs : Step c s e s')
    (he : e ≠ .parent) : Inv c s' := by
  cases hs with
  | takeStop i d b q hab hw hq =>
    obtain ⟨pre, post, hws, hset, hlen⟩ := set_split s.ws i ⟨.idle d, b⟩ ⟨.stopping, b⟩ hw
    have hids : taskIds s.taskQ = [] := taskQ_head_stop h.shape hq
    have hshape := h.shape
    have hsl := h.stopsLive
    have hcons := h.cons
    rw [hq] at hids hshape hsl
    simp only [taskIds, stops] at hids hshape hsl
    refine h.setW hw (by simp) (by simp) rfl rfl rfl rfl rfl ?_ ?_ ?_ ?_
    · simp only [inflight, hq, taskIds, hws] at hcons
      simp only [State.setW, inflight, hset]
      simpa [Worker.flight, hids] using hcons
    · simp [hids, List.replicate_succ] at hshape ⊢
      exact hshape
    · simp only [State.setW, hset]
      rw [hws] at hsl
      simp [List.countP_append, List.countP_cons] at hsl ⊢
      omega
    · intro _; simpa [State.setW] using hids
  | takeTask i d b id q hab hw hq =>
    obtain ⟨pre, post, hws, hset, hlen⟩ := set_split s.ws i ⟨.idle d, b⟩ ⟨.busy d id, b⟩ hw
    have hshape := h.shape
    have hsl := h.stopsLive
    have hcons := h.cons
    have hif := h.idsFirst
    rw [hq] at hshape hsl hif
    simp only [taskIds, stops] at hshape hsl hif
    refine h.setW hw (by simp) (by simp) rfl rfl rfl rfl rfl ?_ ?_ ?_ ?_
    · simp only [inflight, hq, taskIds, hws] at hcons
      simp only [State.setW, inflight, hset]
      simp [Worker.flight] at hcons ⊢
      perm_by_count hcons
    · simpa using hshape
    · simp only [State.setW, hset]
      rw [hws] at hsl
      simp [List.countP_append, List.countP_cons] at hsl ⊢
      omega
    · intro hlt
      have := hif hlt
      simp at this
  | finish i d id b hab hw =>
    obtain ⟨pre, post, hws, hset, hlen⟩ := set_split s.ws i ⟨.busy d id, b⟩
      ⟨if c.quotaReached (d + 1) then .retiring else .idle (d + 1), b ++ [c.res id]⟩ hw
    have hsl := h.stopsLive
    have hcons := h.cons
    refine h.setW hw (by simp) (by simp) rfl rfl rfl rfl rfl ?_ h.shape ?_ h.idsFirst
    · simp only [inflight, hws] at hcons
      simp only [State.setW, inflight, hset]
      simpa [Worker.flight] using hcons
    · simp only [State.setW, hset]
      rw [hws] at hsl
      simp [List.countP_append, List.countP_cons] at hsl ⊢
      omega
  | flushSend i st r b hab hw hsend =>
    obtain ⟨pre, post, hws, hset, hlen⟩ := set_split s.ws i ⟨st, r :: b⟩ ⟨st, b⟩ hw
    have hsl := h.stopsLive
    have hcons := h.cons
    have hex : st.isExited = false := by
      cases hst : st.isExited with
      | false => rfl
      | true => have := h.exitedBuf _ (mem_of_getElem? hw) hst; simp at this
    refine h.setW hw hex (by simp [hex]) rfl rfl rfl rfl rfl ?_ h.shape ?_ h.idsFirst
    · simp only [inflight, hws] at hcons
      simp only [State.setW, inflight, hset]
      simp [Worker.flight] at hcons ⊢
      perm_by_count hcons
    · simp only [State.setW, hset]
      rw [hws] at hsl
      simp [List.countP_append, List.countP_cons] at hsl ⊢
      omega
  | flushDrop i st r b hab hw hsend =>
    obtain ⟨pre, post, hws, hset, hlen⟩ := set_split s.ws i ⟨st, r :: b⟩ ⟨st, b⟩ hw
    have hsl := h.stopsLive
    have hcons := h.cons
    have hex : st.isExited = false := by
      cases hst : st.isExited with
      | false => rfl
      | true => have := h.exitedBuf _ (mem_of_getElem? hw) hst; simp at this
    refine h.setW hw hex (by simp [hex]) rfl rfl rfl rfl rfl ?_ h.shape ?_ h.idsFirst
    · simp only [inflight, hws] at hcons
      simp only [State.setW, inflight, hset]
      simp [Worker.flight] at hcons ⊢
      perm_by_count hcons
    · simp only [State.setW, hset]
      rw [hws] at hsl
      simp [List.countP_append, List.countP_cons] at hsl ⊢
      omega
  | feederDie i st r b hab hw hsend hexi =>
    obtain ⟨pre, post, hws, hset, hlen⟩ := set_split s.ws i ⟨st, r :: b⟩ ⟨st, []⟩ hw
    have hsl := h.stopsLive
    have hcons := h.cons
    have hex : st.isExited = false := by
      cases hst : st.isExited with
      | false => rfl
      | true => have := h.exitedBuf _ (mem_of_getElem? hw) hst; simp at this
    refine h.setW hw hex (by simp) rfl rfl rfl rfl rfl ?_ h.shape ?_ h.idsFirst
    · simp only [inflight, hws] at hcons
      simp only [State.setW, inflight, hset]
      simp [Worker.flight] at hcons ⊢
      perm_by_count hcons
    · simp only [State.setW, hset]
      rw [hws] at hsl
      simp [List.countP_append, List.countP_cons] at hsl ⊢
      omega
  | exitNine i hab hw =>
    obtain ⟨pre, post, hws, hset, hlen⟩ := set_split s.ws i ⟨.retiring, []⟩ ⟨.exited .nine, []⟩ hw
    have hsl := h.stopsLive
    have hcons := h.cons
    refine h.setW hw (by simp) (by simp) rfl rfl rfl rfl rfl ?_ h.shape ?_ h.idsFirst
    · simp only [inflight, hws] at hcons
      simp only [State.setW, inflight, hset]
      simpa [Worker.flight] using hcons
    · simp only [State.setW, hset]
      rw [hws] at hsl
      simp [List.countP_append, List.countP_cons] at hsl ⊢
      omega
  | exitZero i hab hw =>
    obtain ⟨pre, post, hws, hset, hlen⟩ := set_split s.ws i ⟨.stopping, []⟩ ⟨.exited .zero, []⟩ hw
    have hsl := h.stopsLive
    have hcons := h.cons
    refine h.setW hw (by simp) (by simp) rfl rfl rfl rfl rfl ?_ h.shape ?_ h.idsFirst
    · simp only [inflight, hws] at hcons
      simp only [State.setW, inflight, hset]
      simpa [Worker.flight] using hcons
    · simp only [State.setW, hset]
      rw [hws] at hsl
      simp [List.countP_append, List.countP_cons] at hsl ⊢
      omega
  | _ => exact absurd rfl he

theorem inv_step_parent {c : Cfg} {s s' : State} (h : Inv c s) (hs : Step c s .parent s') : Inv c s' := by
  cases hs with
  | getSome r q hpc hq =>
    have hcons := h.cons
    refine ⟨?_, h.shape, h.stopsLive, h.idsFirst, h.size, h.reaped, h.exitedBuf, ?_, ?_, h.poolNodup, h.poolBound, h.count⟩
    · simp only [inflight, hpc, hq, PC.gotL] at hcons ⊢
      simpa using hcons
    · simp [PC.retiredL]
    · simpa [PC.scanL] using h.poolNodup
  | getNone hpc hq =>
    have hcons := h.cons
    refine ⟨?_, h.shape, h.stopsLive, h.idsFirst, h.size, h.reaped, h.exitedBuf, ?_, ?_, h.poolNodup, h.poolBound, h.count⟩
    · simp only [inflight, hpc, hq, PC.gotL] at hcons ⊢
      simpa using hcons
    · simp [PC.retiredL]
    · simpa [PC.scanL] using h.poolNodup
  | readNine got i todo ret b hpc hw =>
    have hcons := h.cons
    have hret := h.retired
    have hscan := h.scanNodup
    have hb : b = [] := h.exitedBuf _ (mem_of_getElem? hw) rfl
    subst hb
    rw [hpc] at hret hscan
    refine ⟨?_, h.shape, h.stopsLive, h.idsFirst, h.size, h.reaped, h.exitedBuf, ?_, ?_, h.poolNodup, h.poolBound, h.count⟩
    · simp only [inflight, hpc] at hcons ⊢
      cases got <;> simpa [PC.gotL] using hcons
    · intro j hj
      simp [PC.retiredL] at hj hret
      rcases hj with hj | hj
      · exact hret j hj
      · subst hj; exact hw
    · simpa [PC.scanL] using hscan
  | readZero got i todo ret b hpc hw =>
    have hcons := h.cons
    have hret := h.retired
    have hscan := h.scanNodup
    rw [hpc] at hret hscan
    refine ⟨?_, h.shape, h.stopsLive, h.idsFirst, h.size, ?_, h.exitedBuf, ?_, ?_, ?_, ?_, h.count⟩
    · simp only [inflight, hpc] at hcons ⊢
      cases got <;> simpa [PC.gotL] using hcons
    · intro j x hx hj
      by_cases hji : j = i
      · subst hji
        rw [hw] at hx
        simp at hx
        subst hx
        rfl
      · have : j ∉ s.pool := fun hm => hj ((List.mem_erase_of_ne hji).mpr hm)
        exact h.reaped j x hx this
    · intro j hj
      simp [PC.retiredL] at hj hret
      exact hret j hj
    · simp [PC.scanL] at hscan ⊢
      exact hscan.sublist (by simp)
    · exact h.poolNodup.erase i
    · intro j hj
      exact h.poolBound j (List.mem_of_mem_erase hj)
  | readNone got i todo ret hpc hw =>
    have hcons := h.cons
    have hret := h.retired
    have hscan := h.scanNodup
    rw [hpc] at hret hscan
    refine ⟨?_, h.shape, h.stopsLive, h.idsFirst, h.size, h.reaped, h.exitedBuf, ?_, ?_, h.poolNodup, h.poolBound, h.count⟩
    · simp only [inflight, hpc] at hcons ⊢
      cases got <;> simpa [PC.gotL] using hcons
    · intro j hj
      simp [PC.retiredL] at hj hret
      exact hret j hj
    · simp [PC.scanL] at hscan ⊢
      exact hscan.sublist (by simp)
  | scanned got ret hpc =>
    have hcons := h.cons
    have hret := h.retired
    have hscan := h.scanNodup
    rw [hpc] at hret hscan
    refine ⟨?_, h.shape, h.stopsLive, h.idsFirst, h.size, h.reaped, h.exitedBuf, ?_, ?_, h.poolNodup, h.poolBound, h.count⟩
    · simp only [inflight, hpc] at hcons ⊢
      cases got <;> simpa [PC.gotL] using hcons
    · simpa [PC.retiredL] using hret
    · simpa [PC.scanL] using hscan
  | abort r ret hpc htol hexc =>
    have hcons := h.cons
    refine ⟨?_, h.shape, h.stopsLive, h.idsFirst, h.size, h.reaped, h.exitedBuf, ?_, ?_, h.poolNodup, h.poolBound, h.count⟩
    · simp only [inflight, hpc] at hcons ⊢
      simpa [PC.gotL] using hcons
    · simp [PC.retiredL]
    · simp [PC.scanL]
  | post got ret hpc hab =>
    have hcons := h.cons
    have hret := h.retired
    have hscan := h.scanNodup
    rw [hpc] at hret hscan
    simp only [postStep]
    split
    · refine ⟨?_, h.shape, h.stopsLive, h.idsFirst, h.size, h.reaped, h.exitedBuf, ?_, ?_, h.poolNodup, h.poolBound, ?_⟩
      · simp only [inflight, hpc] at hcons ⊢
        cases got <;> simp [PC.gotL] at hcons ⊢ <;> perm_by_count hcons
      · simp [PC.retiredL]
      · simp [PC.scanL]
      · simp [h.count]
    · refine ⟨?_, h.shape, h.stopsLive, h.idsFirst, h.size, h.reaped, h.exitedBuf, ?_, ?_, h.poolNodup, h.poolBound, ?_⟩
      · simp only [inflight, hpc] at hcons ⊢
        cases got <;> simp [PC.gotL] at hcons ⊢ <;> perm_by_count hcons
      · simpa [PC.retiredL] using hret
      · simpa [PC.scanL] using hscan
      · simp [h.count]
  | restart i todo hpc =>
    have hcons := h.cons
    have hret := h.retired
    have hscan := h.scanNodup
    have hsl := h.stopsLive
    rw [hpc] at hret hscan
    have hw : s.ws[i]? = some ⟨.exited .nine, []⟩ := hret i (by simp [PC.retiredL])
    obtain ⟨pre, post, hws, hset, hlen⟩ := set_split s.ws i ⟨.exited .nine, []⟩ ⟨.idle 0, []⟩ hw
    simp [PC.scanL] at hscan
    refine h.setW' hw (by simp) (by simp) rfl rfl ?_ ?_ rfl rfl ?_ h.shape ?_ h.idsFirst
    · intro j hj
      simp only [PC.retiredL] at hj
      refine ⟨?_, ?_⟩
      · intro hji; subst hji; exact hscan.1 hj
      · rw [hpc]; simp [PC.retiredL, hj]
    · simpa [PC.scanL] using hscan.2
    · simp only [inflight, hpc, hws] at hcons
      simp only [State.setW, inflight, hset]
      simpa [Worker.flight, PC.gotL] using hcons
    · simp only [State.setW, hset]
      rw [hws] at hsl
      simp [List.countP_append, List.countP_cons] at hsl ⊢
      omega
  | loop hpc =>
    have hcons := h.cons
    refine ⟨?_, h.shape, h.stopsLive, h.idsFirst, h.size, h.reaped, h.exitedBuf, ?_, ?_, h.poolNodup, h.poolBound, h.count⟩
    · simp only [inflight, hpc] at hcons ⊢
      simpa [PC.gotL] using hcons
    · simp [PC.retiredL]
    · simp [PC.scanL]

theorem inv_step {c : Cfg} {s s' : State} {e : Ev} (h : Inv c s) (hs : step c s e = some s') : Inv c s' := by
  have hS := step_sound hs
  by_cases he : e = .parent
  · subst he; exact inv_step_parent h hS
  · exact inv_step_worker h hS he

/-- `Inv` holds in every state reachable by any (restricted or not) schedule. -/
theorem inv_reach {c : Cfg} {ok : State → Ev → Prop} {s : State} (h : ReachP c ok s) : Inv c s := by
  induction h with
  | init => exact inv_init c
  | step e _ _ hs ih => exact inv_step ih hs

end Annet.Pool
