/-
Nested convergence (C01 stage 2), part 2: the diff of two nested configurations.

* `annC`/`annL`: the annotation of a good configuration, as a total function (`annotate_good`).
* `Lvl`, `DOKL`/`DOKI`: what the rest of the proof uses about one level of the (marked) diff, recursively.
* `diff_nested`: `callDiffLogic` with enough fuel on two good levels succeeds and its marked result satisfies
  `Lvl` and `DOKL`.
-/
import AnnetModel.Lemmas.ConvergeNestedBase

namespace Annet.ConvergeNested.Lemmas

section
open Annet Annet.Rules Annet.Device Annet.Device.Abs Annet.Converge Annet.ConvergeNested
open Annet.Converge.Lemmas Annet.Device.Lemmas
open Annet.Diff Annet.Diff.Spec Annet.Diff.Lemmas

/-! ### annotation -/

/-- the child rules of a row -/
def crOf (rules : PRules) (row : String) : PRules := ((classify rules row).map (·.2)).getD default

theorem crOf_eq {rules : PRules} {row : String} {m : PMatch} {cr : PRules}
    (h : classify rules row = some (m, cr)) : crOf rules row = cr := by
  simp [crOf, h]

/-- the sub-block of a row at a level -/
def subOf (kids : List (String × Cfg)) (row : String) : List (String × Cfg) :=
  match kids.find? (·.1 == row) with
  | some e => e.2.kids
  | none => []

mutual
  def annC : PRules → Cfg → ACfg
    | rules, .mk ks => .mk (annL rules ks)
  def annL : PRules → List (String × Cfg) → List (String × PMatch × ACfg)
    | _, [] => []
    | rules, (row, c) :: rest => (row, matchOf rules row, annC (crOf rules row) c) :: annL rules rest
end

theorem annC_kids (rules : PRules) (c : Cfg) : (annC rules c).kids = annL rules c.kids := by
  obtain ⟨ks⟩ := c
  rw [annC]; rfl

theorem annL_nil (rules : PRules) : annL rules [] = [] := by rw [annL]

theorem annL_cons (rules : PRules) (row : String) (c : Cfg) (rest : List (String × Cfg)) :
    annL rules ((row, c) :: rest) = (row, matchOf rules row, annC (crOf rules row) c) :: annL rules rest := by
  rw [annL]

theorem annL_eq_map (rules : PRules) : ∀ ks : List (String × Cfg),
    annL rules ks = ks.map fun e => (e.1, matchOf rules e.1, annC (crOf rules e.1) e.2)
  | [] => by rw [annL_nil]; rfl
  | (row, c) :: rest => by rw [annL_cons, annL_eq_map rules rest]; rfl

mutual
  theorem annotate_good : ∀ (rules : PRules) (c : Cfg), GoodC rules c → annotate rules c = .ok (annC rules c)
    | rules, .mk ks, h => by
      rw [annotate, annC, annotateList_good rules ks (goodC_mk.1 h).2]; rfl
  theorem annotateList_good : ∀ (rules : PRules) (ks : List (String × Cfg)), GoodL rules ks →
      annotateList rules ks = .ok (annL rules ks)
    | rules, [], _ => by rw [annotateList, annL]
    | rules, (row, c) :: rest, h => by
      obtain ⟨m, cr, hcl, -, hgc⟩ := goodL_mem h row c List.mem_cons_self
      have hrest : GoodL rules rest := by rw [GoodL] at h; exact h.2
      have hm : matchRow row rules = .found m cr := by
        unfold classify at hcl
        split at hcl
        · rename_i m' cr' hm; cases hcl; exact hm
        · cases hcl
      rw [annotateList, annL_cons]
      simp only [hm, annotate_good cr c hgc, annotateList_good rules rest hrest, matchOf_eq hcl, crOf_eq hcl]
end


/-! ### looking a row up on both views -/

theorem subOf_nil (row : String) : subOf [] row = [] := rfl

theorem subOf_cons (e : String × Cfg) (rest : List (String × Cfg)) (row : String) :
    subOf (e :: rest) row = if e.1 = row then e.2.kids else subOf rest row := by
  unfold subOf
  rw [List.find?_cons]
  by_cases h : e.1 = row
  · have hb : (e.1 == row) = true := by simpa using h
    rw [hb, if_pos h]
  · have hb : (e.1 == row) = false := by simpa using h
    rw [hb, if_neg h]

theorem subOf_of_not_mem {ks : List (String × Cfg)} {row : String} (h : row ∉ ks.map (·.1)) : subOf ks row = [] := by
  unfold subOf
  have : ks.find? (·.1 == row) = none := by
    rw [List.find?_eq_none]
    intro e he hb
    exact h (by rw [← (beq_iff_eq.1 hb)]; exact List.mem_map_of_mem he)
  rw [this]

theorem subOf_of_mem {ks : List (String × Cfg)} (hn : (ks.map (·.1)).Nodup) {row : String} {c : Cfg}
    (h : (row, c) ∈ ks) : subOf ks row = c.kids := by
  induction ks with
  | nil => cases h
  | cons e rest ih =>
    simp only [List.map_cons, List.nodup_cons] at hn
    rw [subOf_cons]
    rcases List.mem_cons.1 h with h1 | h1
    · subst h1; simp
    · have : e.1 ≠ row := by
        intro heq
        exact hn.1 (by rw [heq]; exact List.mem_map_of_mem (f := (·.1)) h1)
      rw [if_neg this]
      exact ih hn.2 h1

theorem rowsOf_annL (rules : PRules) (ks : List (String × Cfg)) : Spec.rowsOf (annL rules ks) = ks.map (·.1) := by
  rw [annL_eq_map, Spec.rowsOf, List.map_map]; rfl

theorem hasRow_annL (rules : PRules) (ks : List (String × Cfg)) (row : String) :
    hasRow (annL rules ks) row = true ↔ row ∈ ks.map (·.1) := by
  rw [hasRow_iff, rowsOf_annL]

theorem oldKids_annL (rules : PRules) : ∀ (ks : List (String × Cfg)) (row : String),
    oldKids (annL rules ks) row = annL (crOf rules row) (subOf ks row)
  | [], row => by rw [annL_nil, subOf_nil, annL_nil]; rfl
  | (r, c) :: rest, row => by
    rw [annL_cons, subOf_cons]
    unfold oldKids lookupA
    rw [List.find?_cons]
    by_cases h : r = row
    · have hb : (r == row) = true := by simpa using h
      simp only [hb, if_pos h, Option.map_some]
      rw [annC_kids, h]
    · have hb : (r == row) = false := by simpa using h
      simp only [hb, if_neg h]
      exact oldKids_annL rules rest row

theorem good_sub {rules : PRules} : ∀ {ks : List (String × Cfg)}, GoodL rules ks → ∀ row,
    GoodC (crOf rules row) (.mk (subOf ks row))
  | [], _, row => by rw [subOf_nil]; exact goodC_nil _
  | (r, c) :: rest, h, row => by
    rw [subOf_cons]
    by_cases hr : r = row
    · rw [if_pos hr]
      obtain ⟨m, cr, hcl, -, hgc⟩ := goodL_mem h r c List.mem_cons_self
      rw [← hr, crOf_eq hcl]
      obtain ⟨ks⟩ := c
      exact hgc
    · rw [if_neg hr]
      have hrest : GoodL rules rest := by rw [GoodL] at h; exact h.2
      exact good_sub hrest row

theorem goodL_rows {rules : PRules} {ks : List (String × Cfg)} (h : GoodL rules ks) {row : String}
    (hr : row ∈ ks.map (·.1)) : ∃ m, classify rules row = some (m, crOf rules row) ∧ uniqueMatch rules row := by
  obtain ⟨e, he, rfl⟩ := List.mem_map.1 hr
  obtain ⟨m, cr, hcl, hu, -⟩ := goodL_mem h e.1 e.2 he
  exact ⟨m, by rw [crOf_eq hcl]; exact hcl, hu⟩

theorem nested_sub {rules : PRules} (hr : NestedRules rules) {ks : List (String × Cfg)} (h : GoodL rules ks)
    {row : String} (hrow : row ∈ ks.map (·.1)) : NestedRules (crOf rules row) := by
  obtain ⟨m, hcl, hu⟩ := goodL_rows h hrow
  exact (child_rules hr hu hcl).1

theorem adepth_mk (ks : List (String × PMatch × ACfg)) : adepth (.mk ks) = adepthL ks := by rw [adepth]

theorem adepthL_nil : adepthL [] = 0 := by rw [adepthL]

theorem adepthL_cons (r : String) (m : PMatch) (c : ACfg) (rest : List (String × PMatch × ACfg)) :
    adepthL ((r, m, c) :: rest) = max (1 + adepth c) (adepthL rest) := by rw [adepthL]

theorem adepth_kids (c : ACfg) : adepth c = adepthL c.kids := by
  obtain ⟨ks⟩ := c
  rw [adepth]; rfl

theorem adepthL_sub (rules : PRules) : ∀ (ks : List (String × Cfg)) (row : String), row ∈ ks.map (·.1) →
    adepthL (annL (crOf rules row) (subOf ks row)) + 1 ≤ adepthL (annL rules ks)
  | [], row, h => by cases h
  | (r, c) :: rest, row, h => by
    rw [annL_cons, adepthL_cons, subOf_cons]
    by_cases hr : r = row
    · rw [if_pos hr, adepth_kids, annC_kids, hr]
      simp only
      omega
    · rw [if_neg hr]
      have : row ∈ rest.map (·.1) := by
        simp only [List.map_cons, List.mem_cons] at h
        rcases h with h | h
        · exact (hr h.symm).elim
        · exact h
      have := adepthL_sub rules rest row this
      omega


/-! ### what the proof uses about a nested diff -/

/-- the diff items of one slot, given the lines holding it in `old` and `new` -/
def SlotShape (a b : Option String) (l : List DItem) : Prop :=
  match a, b with
  | none, none => l = []
  | some ra, none => ∃ i, l = [i] ∧ i.op = .removed ∧ i.row = ra
  | none, some rb => ∃ i, l = [i] ∧ i.op = .added ∧ i.row = rb
  | some ra, some rb =>
    if ra = rb then ∃ i, l = [i] ∧ (i.op = .unchanged ∨ i.op = .affected) ∧ i.row = rb
    else ∃ i j, l.Perm [i, j] ∧ i.op = .removed ∧ i.row = ra ∧ j.op = .added ∧ j.row = rb

/-- one level of the diff -/
structure Lvl (rules : PRules) (old new : List (String × Cfg)) (d : List DItem) : Prop where
  known : ∀ i ∈ d, (slotOf rules i.row).isSome ∧ i.m = matchOf rules i.row
  slot : ∀ s, SlotShape (holder rules old s) (holder rules new s) (d.filter (slotIs s))

mutual
  /-- the children of every item are the diff of the sub-blocks of its row, recursively; an UNCHANGED item
  stands for equal sub-blocks -/
  def DOKL : PRules → List (String × Cfg) → List (String × Cfg) → List DItem → Prop
    | _, _, _, [] => True
    | rules, old, new, i :: rest => DOKI rules old new i ∧ DOKL rules old new rest
  def DOKI : PRules → List (String × Cfg) → List (String × Cfg) → DItem → Prop
    | rules, old, new, .mk op row ch _ =>
      if op = .removed then True
      else if op = .unchanged then SameC (crOf rules row) (.mk (subOf old row)) (.mk (subOf new row))
      else Lvl (crOf rules row) (subOf old row) (subOf new row) ch ∧
        DOKL (crOf rules row) (subOf old row) (subOf new row) ch
end

theorem dokL_iff {rules : PRules} {old new : List (String × Cfg)} : ∀ {d : List DItem},
    DOKL rules old new d ↔ ∀ i ∈ d, DOKI rules old new i
  | [] => by rw [DOKL]; simp
  | i :: rest => by
    rw [DOKL, dokL_iff (d := rest)]
    simp

theorem dokI_unchanged {rules : PRules} {old new : List (String × Cfg)} {i : DItem}
    (h : DOKI rules old new i) (hop : i.op = .unchanged) :
    SameC (crOf rules i.row) (.mk (subOf old i.row)) (.mk (subOf new i.row)) := by
  obtain ⟨op, row, ch, m⟩ := i
  simp only [DItem.op] at hop
  subst hop
  rw [DOKI] at h
  simpa [DItem.row] using h

theorem dokI_sub {rules : PRules} {old new : List (String × Cfg)} {i : DItem}
    (h : DOKI rules old new i) (hop : i.op = .added ∨ i.op = .affected) :
    Lvl (crOf rules i.row) (subOf old i.row) (subOf new i.row) i.children ∧
    DOKL (crOf rules i.row) (subOf old i.row) (subOf new i.row) i.children := by
  obtain ⟨op, row, ch, m⟩ := i
  simp only [DItem.op] at hop
  rw [DOKI] at h
  rcases hop with rfl | rfl <;> simpa [DItem.row, DItem.children] using h

theorem cfg_eta (c : Cfg) : Cfg.mk c.kids = c := by
  obtain ⟨ks⟩ := c; rfl

/-- a level whose items are all UNCHANGED relates equal configurations -/
theorem same_of_unchanged {rules : PRules} {old new : List (String × Cfg)} {d : List DItem}
    (hwo : WF rules old) (hwn : WF rules new) (hl : Lvl rules old new d) (hd : DOKL rules old new d)
    (hall : ∀ i ∈ d, i.op = .unchanged) : SameC rules (.mk old) (.mk new) := by
  have hin : ∀ s i, i ∈ d.filter (slotIs s) → i.op = .unchanged := fun s i hi => hall i (List.mem_filter.1 hi).1
  rw [sameC_mk]
  constructor
  · intro s
    have hs := hl.slot s
    have hu := hin s
    generalize d.filter (slotIs s) = l at hs hu
    cases ha : holder rules old s with
    | none =>
      cases hb : holder rules new s with
      | none => rfl
      | some rb =>
        rw [ha, hb] at hs
        obtain ⟨i, rfl, hop, -⟩ := hs
        have := hu i List.mem_cons_self
        rw [hop] at this; cases this
    | some ra =>
      cases hb : holder rules new s with
      | none =>
        rw [ha, hb] at hs
        obtain ⟨i, rfl, hop, -⟩ := hs
        have := hu i List.mem_cons_self
        rw [hop] at this; cases this
      | some rb =>
        rw [ha, hb] at hs
        simp only [SlotShape] at hs
        split at hs
        · rename_i hab; rw [hab]
        · obtain ⟨i, j, hp, hop, -⟩ := hs
          have := hu i (hp.mem_iff.2 List.mem_cons_self)
          rw [hop] at this; cases this
  · apply sameL_of
    intro row ca hca cb hcb m cr hcl
    have hslot := slotOf_of_classify hcl
    have ha : holder rules old (m.rawRule, m.key) = some row := holder_of_mem hwo hca hslot
    have hb : holder rules new (m.rawRule, m.key) = some row := holder_of_mem hwn hcb hslot
    have hs := hl.slot (m.rawRule, m.key)
    rw [ha, hb] at hs
    simp only [SlotShape, if_true] at hs
    obtain ⟨i, hi, -, hrow⟩ := hs
    have him : i ∈ d := by
      have : i ∈ d.filter (slotIs (m.rawRule, m.key)) := by rw [hi]; exact List.mem_cons_self
      exact (List.mem_filter.1 this).1
    have := dokI_unchanged (dokL_iff.1 hd i him) (hall i him)
    rw [hrow, crOf_eq hcl, subOf_of_mem (rows_nodup hwo) hca, subOf_of_mem (rows_nodup hwn) hcb, cfg_eta, cfg_eta] at this
    exact this


/-! ### one level from its two halves -/

theorem slotIs_known {rules : PRules} {i : DItem} (hk : (slotOf rules i.row).isSome)
    (hm : i.m = matchOf rules i.row) (s : Slot) : slotIs s i = (slotOf rules i.row == some s) := by
  rw [slotOf_matchOf hk, slotIs, hm]
  simp

theorem filter_map_rows {rules : PRules} (s : Slot) (L : List DItem)
    (hk : ∀ i ∈ L, (slotOf rules i.row).isSome ∧ i.m = matchOf rules i.row) :
    (L.filter (slotIs s)).map (·.row) = (L.map (·.row)).filter (fun r => slotOf rules r == some s) := by
  rw [List.filter_map]
  congr 1
  apply List.filter_congr
  intro i hi
  exact slotIs_known (hk i hi).1 (hk i hi).2 s

theorem lvl_of_parts {rules : PRules} {old new : List (String × Cfg)} (hwo : WF rules old) (hwn : WF rules new)
    {d R N : List DItem} (hp : d.Perm (R ++ N))
    (hRrow : R.map (·.row) = (old.map (·.1)).filter (fun r => !(new.map (·.1)).contains r))
    (hR : ∀ i ∈ R, i.op = .removed ∧ i.m = matchOf rules i.row)
    (hNrow : N.map (·.row) = new.map (·.1))
    (hN : ∀ i ∈ N, i.m = matchOf rules i.row ∧ (i.row ∉ old.map (·.1) → i.op = .added) ∧
      (i.row ∈ old.map (·.1) → i.op = .unchanged ∨ i.op = .affected)) :
    Lvl rules old new d := by
  have hko : ∀ r ∈ old.map (·.1), (slotOf rules r).isSome := by
    intro r hr; obtain ⟨e, he, rfl⟩ := List.mem_map.1 hr; exact hwo.1 e he
  have hkn : ∀ r ∈ new.map (·.1), (slotOf rules r).isSome := by
    intro r hr; obtain ⟨e, he, rfl⟩ := List.mem_map.1 hr; exact hwn.1 e he
  have hRk : ∀ i ∈ R, (slotOf rules i.row).isSome ∧ i.m = matchOf rules i.row := by
    intro i hi
    refine ⟨hko _ ?_, (hR i hi).2⟩
    have : i.row ∈ R.map (·.row) := List.mem_map_of_mem hi
    rw [hRrow] at this
    exact (List.mem_filter.1 this).1
  have hNk : ∀ i ∈ N, (slotOf rules i.row).isSome ∧ i.m = matchOf rules i.row := by
    intro i hi
    refine ⟨hkn _ ?_, (hN i hi).1⟩
    have : i.row ∈ N.map (·.row) := List.mem_map_of_mem hi
    rw [hNrow] at this
    exact this
  constructor
  · intro i hi
    rcases List.mem_append.1 (hp.mem_iff.1 hi) with h | h
    · exact hRk i h
    · exact hNk i h
  · intro s
    have hpf : (d.filter (slotIs s)).Perm (R.filter (slotIs s) ++ N.filter (slotIs s)) := by
      rw [← List.filter_append]; exact hp.filter _
    have hRs : (R.filter (slotIs s)).map (·.row) =
        (holder rules old s).toList.filter (fun r => !(new.map (·.1)).contains r) := by
      rw [filter_map_rows s R hRk, hRrow, List.filter_filter]
      rw [← rows_filter_slot rules old hwo s, List.filter_filter]
      apply List.filter_congr
      intro r _
      rw [Bool.and_comm]
    have hNs : (N.filter (slotIs s)).map (·.row) = (holder rules new s).toList := by
      rw [filter_map_rows s N hNk, hNrow, rows_filter_slot rules new hwn s]
    have hRop : ∀ i ∈ R.filter (slotIs s), i.op = .removed := fun i hi => (hR i (List.mem_filter.1 hi).1).1
    have hNop : ∀ i ∈ N.filter (slotIs s), (i.row ∉ old.map (·.1) → i.op = .added) ∧
        (i.row ∈ old.map (·.1) → i.op = .unchanged ∨ i.op = .affected) :=
      fun i hi => (hN i (List.mem_filter.1 hi).1).2
    generalize R.filter (slotIs s) = Rs at hpf hRs hRop
    generalize N.filter (slotIs s) = Ns at hpf hNs hNop
    generalize d.filter (slotIs s) = l at hpf
    cases ha : holder rules old s with
    | none =>
      rw [ha] at hRs
      simp only [Option.toList_none, List.filter_nil, List.map_eq_nil_iff] at hRs
      subst hRs
      cases hb : holder rules new s with
      | none =>
        rw [hb] at hNs
        simp only [Option.toList_none, List.map_eq_nil_iff] at hNs
        subst hNs
        exact hpf.eq_nil
      | some rb =>
        rw [hb] at hNs
        simp only [Option.toList_some, List.map_eq_singleton_iff] at hNs
        obtain ⟨i, rfl, hrow⟩ := hNs
        have hnot : rb ∉ old.map (·.1) := by
          intro hc
          have := holder_of_row hwo hc (holder_some hb).2
          rw [ha] at this; cases this
        refine ⟨i, List.perm_singleton.1 hpf, ?_, hrow⟩
        exact (hNop i List.mem_cons_self).1 (hrow ▸ hnot)
    | some ra =>
      have hra := holder_some ha
      cases hb : holder rules new s with
      | none =>
        rw [hb] at hNs
        simp only [Option.toList_none, List.map_eq_nil_iff] at hNs
        subst hNs
        have hnot : ra ∉ new.map (·.1) := by
          intro hc
          have := holder_of_row hwn hc hra.2
          rw [hb] at this; cases this
        have hcf : (new.map (·.1)).contains ra = false := by
          rw [← Bool.not_eq_true, List.contains_iff_mem]; exact hnot
        rw [ha] at hRs
        simp only [Option.toList_some, List.filter_cons, hcf, Bool.not_false,
          if_true, List.filter_nil, List.map_eq_singleton_iff] at hRs
        obtain ⟨i, rfl, hrow⟩ := hRs
        refine ⟨i, List.perm_singleton.1 (by simpa using hpf), hRop i List.mem_cons_self, hrow⟩
      | some rb =>
        have hrb := holder_some hb
        rw [hb] at hNs
        simp only [Option.toList_some, List.map_eq_singleton_iff] at hNs
        obtain ⟨j, rfl, hjrow⟩ := hNs
        simp only [SlotShape]
        by_cases hab : ra = rb
        · rw [if_pos hab]
          have hin : ra ∈ new.map (·.1) := hab ▸ hrb.1
          have hcf : (new.map (·.1)).contains ra = true := by
            rw [List.contains_iff_mem]; exact hin
          rw [ha] at hRs
          simp only [Option.toList_some, List.filter_cons, hcf, Bool.not_true,
            Bool.false_eq_true, if_false, List.filter_nil, List.map_eq_nil_iff] at hRs
          subst hRs
          refine ⟨j, List.perm_singleton.1 (by simpa using hpf), ?_, hjrow⟩
          exact (hNop j List.mem_cons_self).2 (by rw [hjrow, ← hab]; exact hra.1)
        · rw [if_neg hab]
          have hnot : ra ∉ new.map (·.1) := by
            intro hc
            have := holder_of_row hwn hc hra.2
            rw [hb] at this; exact hab (Option.some.inj this).symm
          have hnot2 : rb ∉ old.map (·.1) := by
            intro hc
            have := holder_of_row hwo hc hrb.2
            rw [ha] at this; exact hab (Option.some.inj this)
          have hcf : (new.map (·.1)).contains ra = false := by
            rw [← Bool.not_eq_true, List.contains_iff_mem]; exact hnot
          rw [ha] at hRs
          simp only [Option.toList_some, List.filter_cons, hcf, Bool.not_false,
            if_true, List.filter_nil, List.map_eq_singleton_iff] at hRs
          obtain ⟨i, rfl, hirow⟩ := hRs
          refine ⟨i, j, by simpa using hpf, hRop i List.mem_cons_self, hirow, ?_, hjrow⟩
          exact (hNop j List.mem_cons_self).1 (hjrow ▸ hnot2)


/-! ### the two loops of `base_diff` with a recursive callee -/

theorem removedItems_nested (rec : Rec) (pops : List Pop) (new : Level) :
    ∀ (old : Level) (idx : Nat), (∀ x ∈ old, ∃ d, rec (pops ++ [.op .removed]) x.2.2.kids [] = .ok d) →
    ∃ rs, removedItems rec pops new idx old = .ok rs ∧
      rs.map (·.2.row) = (Spec.rowsOf old).filter (fun r => !hasRow new r) ∧
      ∀ x ∈ rs, x.2.op = .removed ∧ ∃ e ∈ old, x.2.row = e.1 ∧ x.2.m = e.2.1
  | [], idx, _ => ⟨[], by rw [removedItems], rfl, fun _ h => by cases h⟩
  | (row, m, ch) :: rest, idx, hrec => by
    obtain ⟨rs, h1, h2, h3⟩ := removedItems_nested rec pops new rest (idx + 1)
      (fun x hx => hrec x (List.mem_cons_of_mem _ hx))
    have h3' : ∀ x ∈ rs, x.2.op = .removed ∧ ∃ e ∈ (row, m, ch) :: rest, x.2.row = e.1 ∧ x.2.m = e.2.1 := by
      intro x hx
      obtain ⟨a, e, he, b⟩ := h3 x hx
      exact ⟨a, e, List.mem_cons_of_mem _ he, b⟩
    rw [removedItems]
    by_cases hr : hasRow new row = true
    · rw [if_pos hr]
      exact ⟨rs, h1, by simp [Spec.rowsOf, hr] at h2 ⊢; exact h2, h3'⟩
    · rw [if_neg hr]
      obtain ⟨cs, hcs⟩ := hrec (row, m, ch) List.mem_cons_self
      simp only at hcs
      simp only [hcs, h1]
      refine ⟨_, rfl, by simp [Spec.rowsOf, hr] at h2 ⊢; exact ⟨rfl, h2⟩, ?_⟩
      intro x hx
      rcases List.mem_cons.1 hx with rfl | hx
      · exact ⟨rfl, (row, m, ch), List.mem_cons_self, rfl, rfl⟩
      · exact h3' x hx

theorem opOf_m2a (pops : List Pop) (old : Level) (idx : Nat) (dis : Bool) (row : String) :
    opOf pops true old idx dis row = if hasRow old row then lastOp pops else .added := by
  unfold opOf
  cases hasRow old row <;> simp

theorem newItems_nested (rec : Rec) (pops : List Pop) (old : Level) (Q : String → List DItem → Prop) :
    ∀ (new : Level) (idx : Nat) (dis : Bool),
    (∀ x ∈ new, ∃ cs, rec (pops ++ [.op (if hasRow old x.1 then lastOp pops else .added)])
        (oldKids old x.1) x.2.2.kids = .ok cs ∧ Q x.1 cs) →
    ∃ ns, newItems rec pops true old idx dis new = .ok ns ∧ ns.map (·.2.row) = Spec.rowsOf new ∧
      ∀ x ∈ ns, x.2.op = (if hasRow old x.2.row then lastOp pops else .added) ∧ Q x.2.row x.2.children ∧
        ∃ e ∈ new, x.2.row = e.1 ∧ x.2.m = e.2.1
  | [], idx, dis, _ => ⟨[], by rw [newItems], rfl, fun _ h => by cases h⟩
  | (row, m, ch) :: rest, idx, dis, hrec => by
    obtain ⟨ns, h1, h2, h3⟩ := newItems_nested rec pops old Q rest (idx + 1) (disOf old idx dis row)
      (fun x hx => hrec x (List.mem_cons_of_mem _ hx))
    obtain ⟨cs, hcs, hq⟩ := hrec (row, m, ch) List.mem_cons_self
    simp only at hcs hq
    rw [newItems_cons, opOf_m2a]
    simp only [hcs, h1]
    refine ⟨_, rfl, by simp [Spec.rowsOf] at h2 ⊢; exact ⟨rfl, h2⟩, ?_⟩
    intro x hx
    rcases List.mem_cons.1 hx with rfl | hx
    · exact ⟨rfl, hq, (row, m, ch), List.mem_cons_self, rfl, rfl⟩
    · obtain ⟨a, b, e, he, c⟩ := h3 x hx
      exact ⟨a, b, e, List.mem_cons_of_mem _ he, c⟩

theorem annL_mem {rules : PRules} {ks : List (String × Cfg)} (hn : (ks.map (·.1)).Nodup)
    {x : String × PMatch × ACfg} (hx : x ∈ annL rules ks) :
    x.1 ∈ ks.map (·.1) ∧ x.2.1 = matchOf rules x.1 ∧ x.2.2.kids = annL (crOf rules x.1) (subOf ks x.1) := by
  rw [annL_eq_map] at hx
  obtain ⟨e, he, rfl⟩ := List.mem_map.1 hx
  obtain ⟨r, c⟩ := e
  refine ⟨List.mem_map_of_mem (f := (·.1)) he, rfl, ?_⟩
  simp only
  rw [annC_kids, subOf_of_mem hn he]

theorem markItem_of_ne (i : DItem) (h : i.op ≠ .affected) : markItem i = i := by
  obtain ⟨o, r, ch, m⟩ := i
  simp only [DItem.op] at h
  rw [markItem_mk]
  have : (o == Op.affected) = false := by simpa using h
  simp [this]

theorem markItem_row (i : DItem) : (markItem i).row = i.row := by
  obtain ⟨o, r, ch, m⟩ := i
  rw [markItem_mk]
  split <;> rfl

theorem markItem_m (i : DItem) : (markItem i).m = i.m := by
  obtain ⟨o, r, ch, m⟩ := i
  rw [markItem_mk]
  split <;> rfl


/-! ### the nested diff -/

theorem lvl_nil (rules : PRules) : Lvl rules [] [] [] := by
  constructor
  · intro i hi; cases hi
  · intro s
    show SlotShape (holder rules [] s) (holder rules [] s) []
    simp [holder, SlotShape]

theorem dokL_nil (rules : PRules) (old new : List (String × Cfg)) : DOKL rules old new [] := by
  rw [DOKL]; trivial

theorem dokI_mk_added {rules : PRules} {old new : List (String × Cfg)} {row : String} {cs : List DItem} {m : PMatch} :
    DOKI rules old new (.mk .added row cs m) ↔
      Lvl (crOf rules row) (subOf old row) (subOf new row) cs ∧
      DOKL (crOf rules row) (subOf old row) (subOf new row) cs := by
  rw [DOKI]; simp

theorem dokI_mk_affected {rules : PRules} {old new : List (String × Cfg)} {row : String} {cs : List DItem} {m : PMatch} :
    DOKI rules old new (.mk .affected row cs m) ↔
      Lvl (crOf rules row) (subOf old row) (subOf new row) cs ∧
      DOKL (crOf rules row) (subOf old row) (subOf new row) cs := by
  rw [DOKI]; simp

theorem dokI_mk_unchanged {rules : PRules} {old new : List (String × Cfg)} {row : String} {cs : List DItem} {m : PMatch} :
    DOKI rules old new (.mk .unchanged row cs m) ↔
      SameC (crOf rules row) (.mk (subOf old row)) (.mk (subOf new row)) := by
  rw [DOKI]; simp

theorem dokI_of_removed {rules : PRules} {old new : List (String × Cfg)} {i : DItem} (h : i.op = .removed) :
    DOKI rules old new i := by
  obtain ⟨o, r, ch, m⟩ := i
  simp only [DItem.op] at h
  subst h
  rw [DOKI]; simp

theorem markItem_affected_op (i0 : DItem) (hop : i0.op = .affected) :
    (markItem i0).op = .unchanged ∨ (markItem i0).op = .affected := by
  obtain ⟨o, r, ch, m⟩ := i0
  simp only [DItem.op] at hop
  subst hop
  rw [markItem_mk]
  simp only [beq_self_eq_true, if_true]
  by_cases h : (markUnchanged ch).all (·.op == .unchanged) = true
  · rw [if_pos h]; exact Or.inl rfl
  · rw [if_neg h]; exact Or.inr rfl

theorem dokI_mark_affected {rules : PRules} {old new : List (String × Cfg)} (i0 : DItem) (hop : i0.op = .affected)
    (hwo' : WF (crOf rules i0.row) (subOf old i0.row)) (hwn' : WF (crOf rules i0.row) (subOf new i0.row))
    (hl : Lvl (crOf rules i0.row) (subOf old i0.row) (subOf new i0.row) (markUnchanged i0.children))
    (hd : DOKL (crOf rules i0.row) (subOf old i0.row) (subOf new i0.row) (markUnchanged i0.children)) :
    DOKI rules old new (markItem i0) := by
  obtain ⟨o, r, ch, m⟩ := i0
  simp only [DItem.op] at hop
  simp only [DItem.row, DItem.children] at hl hd hwo' hwn'
  subst hop
  rw [markItem_mk]
  simp only [beq_self_eq_true, if_true]
  split
  · rename_i hallu
    rw [dokI_mk_unchanged]
    refine same_of_unchanged hwo' hwn' hl hd ?_
    intro i hi
    have := List.all_eq_true.1 hallu i hi
    simpa using this
  · rw [dokI_mk_affected]
    exact ⟨hl, hd⟩

theorem dokI_added {rules : PRules} {old new : List (String × Cfg)} (i0 : DItem) (hop : i0.op = .added)
    (hl : Lvl (crOf rules i0.row) (subOf old i0.row) (subOf new i0.row) i0.children)
    (hd : DOKL (crOf rules i0.row) (subOf old i0.row) (subOf new i0.row) i0.children) :
    DOKI rules old new i0 := by
  obtain ⟨o, r, ch, m⟩ := i0
  simp only [DItem.op] at hop
  simp only [DItem.row, DItem.children] at hl hd
  subst hop
  rw [dokI_mk_added]
  exact ⟨hl, hd⟩

theorem diff_nested : ∀ (fuel : Nat) (rules : PRules) (pops : List Pop) (old new : List (String × Cfg)),
    NestedRules rules → WF rules old → GoodL rules old → WF rules new → GoodL rules new →
    (∀ r, r ∈ old.map (·.1) → r ∈ new.map (·.1) → lastOp pops = .affected) →
    adepthL (annL rules old) + adepthL (annL rules new) < fuel →
    ∃ d0, callDiffLogic fuel pops (annL rules old) (annL rules new) = .ok d0 ∧
      Lvl rules old new (markUnchanged d0) ∧ DOKL rules old new (markUnchanged d0) ∧
      (old = [] → markUnchanged d0 = d0)
  | 0, _, _, _, _, _, _, _, _, _, _, hf => by omega
  | fuel + 1, rules, pops, old, new, hnr, hwo, hgo, hwn, hgn, hpop, hf => by
    have hno := rows_nodup hwo
    have hnn := rows_nodup hwn
    -- every row has the default diff logic
    have hdl : ∀ ks, WF rules ks → ∀ x ∈ annL rules ks, x.2.1.attrs.diffLogic = "common.default_diff" := by
      intro ks hw x hx
      obtain ⟨h1, h2, -⟩ := annL_mem (rows_nodup hw) hx
      obtain ⟨e, he, hrow⟩ := List.mem_map.1 h1
      obtain ⟨cr, hcl⟩ := classify_matchOf (hw.1 e he)
      rw [hrow] at hcl
      rw [h2]
      exact (nested_match hnr hcl).1
    have hall : ∀ x ∈ (annL rules old ++ annL rules new).map (·.2.1.attrs.diffLogic), x = "common.default_diff" := by
      intro x hx
      obtain ⟨e, he, rfl⟩ := List.mem_map.1 hx
      rcases List.mem_append.1 he with he | he
      · exact hdl old hwo e he
      · exact hdl new hwn e he
    rw [callDiffLogic]
    unfold logicsOf
    rw [eraseDups_const _ _ hall]
    by_cases hemp : ((annL rules old ++ annL rules new).map (·.2.1.attrs.diffLogic)).isEmpty = true
    · rw [if_pos hemp]
      simp only [List.isEmpty_iff, List.map_eq_nil_iff, List.append_eq_nil_iff] at hemp
      obtain ⟨h1, h2⟩ := hemp
      rw [annL_eq_map, List.map_eq_nil_iff] at h1 h2
      subst h1 h2
      refine ⟨[], by rw [runLogics], ?_, ?_, fun _ => markUnchanged_nil⟩
      · rw [markUnchanged_nil]; exact lvl_nil rules
      · rw [markUnchanged_nil]; exact dokL_nil _ _ _
    · rw [if_neg hemp]
      have fo : (annL rules old).filter (·.2.1.attrs.diffLogic == "common.default_diff") = annL rules old := by
        rw [List.filter_eq_self]
        intro e he
        rw [beq_iff_eq]
        exact hdl old hwo e he
      have fn : (annL rules new).filter (·.2.1.attrs.diffLogic == "common.default_diff") = annL rules new := by
        rw [List.filter_eq_self]
        intro e he
        rw [beq_iff_eq]
        exact hdl new hwn e he
      -- the recursive calls
      have hsubgood : ∀ ks, GoodL rules ks → ∀ row,
          WF (crOf rules row) (subOf ks row) ∧ GoodL (crOf rules row) (subOf ks row) :=
        fun ks hg row => goodC_mk.1 (good_sub hg row)
      have hR : ∀ x ∈ annL rules old, ∃ d, callDiffLogic fuel (pops ++ [.op .removed]) x.2.2.kids [] = .ok d := by
        intro x hx
        obtain ⟨h1, -, h3⟩ := annL_mem hno hx
        obtain ⟨hw', hg'⟩ := hsubgood old hgo x.1
        have hdep := adepthL_sub rules old x.1 h1
        obtain ⟨d, hd, -⟩ := diff_nested fuel (crOf rules x.1) (pops ++ [.op .removed]) (subOf old x.1) []
          (nested_sub hnr hgo h1) hw' hg' (wf_nil _) (goodL_nil _) (fun r _ hr => by cases hr)
          (by rw [annL_nil, adepthL_nil]; omega)
        rw [annL_nil] at hd
        exact ⟨d, by rw [h3]; exact hd⟩
      let Q : String → List DItem → Prop := fun row cs =>
        Lvl (crOf rules row) (subOf old row) (subOf new row) (markUnchanged cs) ∧
        DOKL (crOf rules row) (subOf old row) (subOf new row) (markUnchanged cs) ∧
        (subOf old row = [] → markUnchanged cs = cs)
      have hN : ∀ x ∈ annL rules new, ∃ cs, callDiffLogic fuel
          (pops ++ [.op (if hasRow (annL rules old) x.1 then lastOp pops else .added)])
          (oldKids (annL rules old) x.1) x.2.2.kids = .ok cs ∧ Q x.1 cs := by
        intro x hx
        obtain ⟨h1, -, h3⟩ := annL_mem hnn hx
        obtain ⟨hwn', hgn'⟩ := hsubgood new hgn x.1
        obtain ⟨hwo', hgo'⟩ := hsubgood old hgo x.1
        have hdepn := adepthL_sub rules new x.1 h1
        have hdepo : x.1 ∈ old.map (·.1) → adepthL (annL (crOf rules x.1) (subOf old x.1)) + 1 ≤
            adepthL (annL rules old) := adepthL_sub rules old x.1
        have hdepo' : x.1 ∉ old.map (·.1) → adepthL (annL (crOf rules x.1) (subOf old x.1)) = 0 := by
          intro hnot
          rw [subOf_of_not_mem hnot, annL_nil, adepthL_nil]
        obtain ⟨cs, hcs, hl, hd, he⟩ := diff_nested fuel (crOf rules x.1)
          (pops ++ [.op (if hasRow (annL rules old) x.1 then lastOp pops else .added)])
          (subOf old x.1) (subOf new x.1) (nested_sub hnr hgn h1) hwo' hgo' hwn' hgn'
          (by
            intro r hr _
            rw [lastOp_append_op]
            have hin : x.1 ∈ old.map (·.1) := by
              apply Classical.byContradiction
              intro hnot
              rw [subOf_of_not_mem hnot] at hr
              cases hr
            rw [if_pos ((hasRow_annL rules old x.1).2 hin)]
            exact hpop x.1 hin h1)
          (by
            by_cases hin : x.1 ∈ old.map (·.1)
            · have := hdepo hin; omega
            · have := hdepo' hin; omega)
        exact ⟨cs, by rw [oldKids_annL, h3]; exact hcs, hl, hd, he⟩
      obtain ⟨rs, hrs, hrsrow, hrsall⟩ := removedItems_nested (callDiffLogic fuel) pops (annL rules new)
        (annL rules old) 0 hR
      obtain ⟨ns, hns, hnsrow, hnsall⟩ := newItems_nested (callDiffLogic fuel) pops (annL rules old) Q
        (annL rules new) 0 false hN
      have hbase : baseDiff (callDiffLogic fuel) pops true (annL rules old) (annL rules new) =
          .ok ((sortIdx (rs ++ ns)).map (·.2)) := by simp [baseDiff, hrs, hns]
      refine ⟨(sortIdx (rs ++ ns)).map (·.2) ++ [], ?_, ?_⟩
      · rw [runLogics, fo, fn]
        simp only [Diff.runLogic, beq_self_eq_true, if_true, hbase]
        rw [runLogics]
      rw [List.append_nil, markUnchanged_eq_map]
      -- the two halves
      have hRm : ∀ i ∈ rs.map (·.2), i.op = .removed ∧ i.m = matchOf rules i.row := by
        intro i hi
        obtain ⟨x, hx, rfl⟩ := List.mem_map.1 hi
        obtain ⟨h1, e, he, h2, h3⟩ := hrsall x hx
        obtain ⟨-, h4, -⟩ := annL_mem hno he
        exact ⟨h1, by rw [h3, h2, h4]⟩
      have hRfix : (rs.map (·.2)).map markItem = rs.map (·.2) := by
        conv => rhs; rw [← List.map_id (rs.map (·.2))]
        apply List.map_congr_left
        intro i hi
        exact markItem_of_ne i (by rw [(hRm i hi).1]; simp)
      have hperm : (((sortIdx (rs ++ ns)).map (·.2)).map markItem).Perm
          (rs.map (·.2) ++ (ns.map (·.2)).map markItem) := by
        have := ((sortIdx_perm (rs ++ ns)).map (·.2)).map markItem
        rw [List.map_append, List.map_append, hRfix] at this
        exact this
      have hinold : ∀ r, hasRow (annL rules old) r = true ↔ r ∈ old.map (·.1) := hasRow_annL rules old
      have hNm : ∀ x ∈ ns, x.2.m = matchOf rules x.2.row ∧ x.2.row ∈ new.map (·.1) := by
        intro x hx
        obtain ⟨-, -, e, he, h2, h3⟩ := hnsall x hx
        obtain ⟨h5, h4, -⟩ := annL_mem hnn he
        exact ⟨by rw [h3, h2, h4], by rw [h2]; exact h5⟩
      refine ⟨?_, ?_, ?_⟩
      · -- Lvl
        refine lvl_of_parts hwo hwn hperm ?_ hRm ?_ ?_
        · rw [List.map_map]
          have : (fun x : DItem => x.row) ∘ (fun x : Nat × DItem => x.2) = fun x => x.2.row := rfl
          rw [this, hrsrow, rowsOf_annL]
          apply List.filter_congr
          intro r _
          congr 1
          rw [Bool.eq_iff_iff, List.contains_iff_mem]
          exact hasRow_annL rules new r
        · rw [List.map_map, List.map_map]
          have : ((fun x : DItem => x.row) ∘ markItem) ∘ (fun x : Nat × DItem => x.2) = fun x => x.2.row := by
            funext x; simp [markItem_row]
          rw [this, hnsrow, rowsOf_annL]
        · intro i hi
          obtain ⟨i0, hi0, rfl⟩ := List.mem_map.1 hi
          obtain ⟨x, hx, rfl⟩ := List.mem_map.1 hi0
          obtain ⟨hop, -, -⟩ := hnsall x hx
          obtain ⟨hm, hin⟩ := hNm x hx
          rw [markItem_row, markItem_m]
          refine ⟨hm, ?_, ?_⟩
          · intro hnot
            have : hasRow (annL rules old) x.2.row = false := by
              rw [← Bool.not_eq_true, hinold]; exact hnot
            rw [this] at hop
            simp only [Bool.false_eq_true, if_false] at hop
            rw [markItem_of_ne _ (by rw [hop]; simp)]
            exact hop
          · intro hio
            rw [(hinold _).2 hio, if_pos rfl, hpop _ hio hin] at hop
            exact markItem_affected_op _ hop
      · -- DOKL
        rw [dokL_iff]
        intro i hi
        rcases List.mem_append.1 (hperm.mem_iff.1 hi) with hi | hi
        · exact dokI_of_removed (hRm i hi).1
        · obtain ⟨i0, hi0, rfl⟩ := List.mem_map.1 hi
          obtain ⟨x, hx, rfl⟩ := List.mem_map.1 hi0
          obtain ⟨hop, hq, -⟩ := hnsall x hx
          obtain ⟨hm, hin⟩ := hNm x hx
          obtain ⟨hl, hd, he⟩ := hq
          by_cases hio : x.2.row ∈ old.map (·.1)
          · rw [(hinold _).2 hio, if_pos rfl, hpop _ hio hin] at hop
            exact dokI_mark_affected _ hop (hsubgood old hgo _).1 (hsubgood new hgn _).1 hl hd
          · have : hasRow (annL rules old) x.2.row = false := by
              rw [← Bool.not_eq_true, hinold]; exact hio
            rw [this] at hop
            simp only [Bool.false_eq_true, if_false] at hop
            rw [markItem_of_ne _ (by rw [hop]; simp)]
            rw [he (subOf_of_not_mem hio)] at hl hd
            exact dokI_added _ hop hl hd
      · -- nothing to mark below an empty old side
        intro hold
        subst hold
        conv => rhs; rw [← List.map_id ((sortIdx (rs ++ ns)).map (·.2))]
        apply List.map_congr_left
        intro i hi
        apply markItem_of_ne
        have hi' := ((sortIdx_perm (rs ++ ns)).map (·.2)).mem_iff.1 hi
        rw [List.map_append] at hi'
        rcases List.mem_append.1 hi' with hi' | hi'
        · rw [(hRm i hi').1]; simp
        · obtain ⟨x, hx, rfl⟩ := List.mem_map.1 hi'
          obtain ⟨hop, -, -⟩ := hnsall x hx
          rw [annL_nil] at hop
          rw [hop]
          simp [hasRow]


/-- the diff of two good configurations -/
theorem makeDiff_nested {rules : PRules} {old new : Cfg} {d : List DItem} (hnr : NestedRules rules)
    (hgo : GoodC rules old) (hgn : GoodC rules new) (h : makeDiff rules old new = .ok d) :
    Lvl rules old.kids new.kids d ∧ DOKL rules old.kids new.kids d := by
  obtain ⟨ko⟩ := old
  obtain ⟨kn⟩ := new
  obtain ⟨hwo, hglo⟩ := goodC_mk.1 hgo
  obtain ⟨hwn, hgln⟩ := goodC_mk.1 hgn
  unfold makeDiff at h
  simp only [annotate_good rules _ hgo, annotate_good rules _ hgn, annC_kids, adepth_kids] at h
  obtain ⟨d0, hd0, hl, hd, -⟩ := diff_nested (adepthL (annL rules ko) + adepthL (annL rules kn) + 2) rules
    [.op .affected] ko kn hnr hwo hglo hwn hgln (fun _ _ _ => rfl) (by omega)
  simp only [Cfg.kids] at h ⊢
  rw [hd0] at h
  simp only [Except.ok.injEq] at h
  subst h
  exact ⟨hl, hd⟩

end

end Annet.ConvergeNested.Lemmas
