/-
Nested convergence (C01 stage 2), part 3: from the diff of one level to the items of the patch tree of that
level, slot by slot.
-/
import AnnetModel.Lemmas.ConvergeNestedDiff

namespace Annet.ConvergeNested.Lemmas

section
open Annet Annet.Rules Annet.Device Annet.Device.Abs Annet.Converge Annet.ConvergeNested
open Annet.Converge.Lemmas Annet.Device.Lemmas
open Annet.Diff Annet.Patch Annet.Patch.Lemmas

/-! ### the depth of a `Pre` bounds the depth of the `Pre` of every entry -/

theorem preDepthE_mem : ∀ (l : List PreEntry) (e : PreEntry), e ∈ l → 1 + preDepth e.children ≤ preDepthE l
  | [], e, h => by cases h
  | .mk r c :: rest, e, h => by
    rw [preDepthE]
    rcases List.mem_cons.1 h with rfl | h
    · simp only [PreEntry.children]; omega
    · have := preDepthE_mem rest e h; omega

theorem preDepthI_mem : ∀ (items : List PreItem) (it : PreItem) (op : Op), it ∈ items →
    preDepthE (iGet it op) ≤ preDepthI items
  | [], it, op, h => by cases h
  | .mk k a r m f u :: rest, it, op, h => by
    rw [preDepthI]
    rcases List.mem_cons.1 h with rfl | h
    · cases op <;> simp only [iGet] <;> omega
    · have := preDepthI_mem rest it op h; omega

theorem preDepthR_mem : ∀ (P : List PreRule) (R : PreRule), R ∈ P → preDepthI (rItems R) ≤ preDepthR P
  | [], R, h => by cases h
  | .mk raw attrs items :: rest, R, h => by
    rw [preDepthR]
    rcases List.mem_cons.1 h with rfl | h
    · simp only [rItems]; omega
    · have := preDepthR_mem rest R h; omega

theorem entryOf_children (i : DItem) : (entryOf i).children = makePre i.children := by
  obtain ⟨o, r, ch, m⟩ := i
  rw [entryOf]; rfl

theorem entryOf_row (i : DItem) : (entryOf i).row = i.row := by
  obtain ⟨o, r, ch, m⟩ := i
  rw [entryOf]; rfl

theorem preDepth_mk (rs : List PreRule) : preDepth (.mk rs) = preDepthR rs := by rw [preDepth]

theorem preDepth_rules (p : Pre) : preDepth p = preDepthR p.rules := by
  obtain ⟨rs⟩ := p
  rw [preDepth]; rfl

/-- the item is in its bucket -/
theorem item_in_bucket {d : List DItem} {i : DItem} (hi : i ∈ d) :
    ∃ R ∈ (makePre d).rules, R.raw = i.m.rawRule ∧ ∃ it ∈ rItems R, it.key = i.m.key ∧ entryOf i ∈ iGet it i.op := by
  have hP := makePre_inv d
  obtain ⟨R, hR, hraw⟩ := List.mem_map.1 (hP.2.2 i hi)
  have hI := (hP.2.1 R hR).1
  obtain ⟨it, hit, hk⟩ := List.mem_map.1 (hI.2.2 i hi hraw.symm)
  refine ⟨R, hR, hraw, it, hit, hk, ?_⟩
  rw [hI.2.1 it hit i.op]
  apply List.mem_map_of_mem
  rw [List.mem_filter]
  refine ⟨hi, ?_⟩
  simp [sel, slotIs, hraw, hk]

theorem preDepth_child {d : List DItem} {i : DItem} (hi : i ∈ d) :
    1 + preDepth (makePre i.children) ≤ preDepth (makePre d) := by
  obtain ⟨R, hR, -, it, hit, -, he⟩ := item_in_bucket hi
  have h1 := preDepthE_mem _ _ he
  have h2 := preDepthI_mem _ it i.op hit
  have h3 := preDepthR_mem _ R hR
  rw [entryOf_children] at h1
  rw [preDepth_rules (makePre d)]
  omega

theorem makePre_empty {d : List DItem} (h : (makePre d).isEmpty = true) : d = [] := by
  cases d with
  | nil => rfl
  | cons i rest =>
    obtain ⟨R, hR, -⟩ := item_in_bucket (d := i :: rest) (i := i) List.mem_cons_self
    simp only [Pre.isEmpty, List.isEmpty_iff] at h
    rw [h] at hR
    cases hR


/-! ### the ordering rules handed to a block carry no `%order_reverse` pin either -/

theorem noPin_iff : ∀ {l : List ORule}, NoPin l ↔ ∀ r ∈ l, NoPinRule r
  | [] => by rw [NoPin]; simp
  | r :: rest => by rw [NoPin, noPin_iff (l := rest)]; simp

theorem noPinRule_children {r : ORule} (h : NoPinRule r) : NoPin r.children := by
  obtain ⟨a, b, orev, c, d, ch⟩ := r
  rw [NoPinRule] at h
  exact h.2

def ChOK (st : OState) : Prop := ∀ x ∈ st.children, NoPinRule x

theorem step_children (v : Vendor) (row : String) (sc : Option String) (st st' : OState) (i : Nat) (r : ORule)
    (hr : NoPinRule r) (hst : ChOK st) (h : getOrderStep v row sc st i r = some st') : ChOK st' := by
  have hrc : ∀ x ∈ r.children, NoPinRule x := noPin_iff.1 (noPinRule_children hr)
  unfold getOrderStep at h
  simp only [] at h
  have key : ∀ st1 : OState, st1 = (if r.isGlobal = true then
      { fOrder := st.fOrder, fWeight := st.fWeight, direct := st.direct, children := st.children ++ [r] } else st) →
      ChOK st1 := by
    intro st1 h1; subst h1
    split
    · intro x hx
      rcases List.mem_append.1 hx with hx | hx
      · exact hst x hx
      · simp only [List.mem_singleton] at hx; subst hx; exact hr
    · exact hst
  generalize (if r.isGlobal = true then
      ({ fOrder := st.fOrder, fWeight := st.fWeight, direct := st.direct, children := st.children ++ [r] } : OState)
      else st) = st1 at h key
  have k1 := key st1 rfl
  clear key
  have upd : ∀ (c : Prop) [Decidable c] (i w : Nat),
      (if c then ({ st1 with fOrder := some (.fin i), fWeight := w } : OState) else st1).children = st1.children := by
    intro c _ i w; split <;> rfl
  cases hdp : oDirectPat r with
  | none =>
    simp only [hdp, Option.bind_eq_bind, Option.bind_none, Option.pure_def] at h
    rcases ite_cases h with h | h
    · cases h; exact hst
    · cases h
  | some dp =>
    cases hrp : oReversePat v r with
    | none =>
      simp only [hdp, hrp, Option.bind_eq_bind, Option.bind_none, Option.bind_some, Option.pure_def] at h
      rcases ite_cases h with h | h
      · cases h; exact hst
      · cases h
    | some rp =>
      simp only [hdp, hrp, Option.bind_eq_bind, Option.bind_some, Option.pure_def] at h
      rcases ite_cases h with h | h
      · cases h; exact hst
      · by_cases hc1 : (!r.orderReverse && ((dp.match? row.toList).isSome || (rp.match? row.toList).isSome)) = true
        · rw [if_pos hc1] at h
          simp only [Option.some.injEq] at h
          subst h
          intro x hx
          simp only at hx
          rw [upd] at hx
          rcases List.mem_append.1 hx with hx | hx
          · exact k1 x hx
          · exact hrc x hx
        · rw [if_neg hc1] at h
          by_cases hc2 : (r.orderReverse && !st1.direct && (dp.match? row.toList).isSome) = true
          · rw [if_pos hc2] at h
            simp only [Option.some.injEq] at h
            subst h
            intro x hx
            simp only at hx
            cases hx
          · rw [if_neg hc2] at h
            by_cases hc3 : (v.exit != "" && v.exit == row) = true
            · rw [if_pos hc3] at h
              cases h
              intro x hx
              cases hx
            · rw [if_neg hc3] at h
              cases h
              exact k1

theorem go_children (v : Vendor) (row : String) (sc : Option String) : ∀ (rb : List ORule) (i : Nat) (st st' : OState),
    (∀ r ∈ rb, NoPinRule r) → ChOK st → getOrder.go v row sc rb i st = some st' → ChOK st'
  | [], i, st, st', _, hst, h => by
    simp only [getOrder.go, Option.some.injEq] at h
    subst h; exact hst
  | r :: rs, i, st, st', hrb, hst, h => by
    simp only [getOrder.go] at h
    split at h
    · cases h
    · rename_i st1 hst1
      exact go_children v row sc rs (i + 1) st1 st' (fun r hr => hrb r (List.mem_cons_of_mem _ hr))
        (step_children v row sc st st1 i r (hrb r List.mem_cons_self) hst hst1) h

theorem dedupLast_mem (l : List ORule) : ∀ x ∈ dedupLast l, x ∈ l := by
  unfold dedupLast
  suffices h : ∀ (l acc : List ORule) (x : ORule),
      x ∈ l.foldl (fun acc r =>
        if acc.any (·.rawRule == r.rawRule) then acc.map (fun x => if x.rawRule == r.rawRule then r else x)
        else acc ++ [r]) acc → x ∈ acc ∨ x ∈ l by
    intro x hx
    rcases h l [] x hx with h | h
    · cases h
    · exact h
  intro l
  induction l with
  | nil => intro acc x hx; exact Or.inl hx
  | cons r rest ih =>
    intro acc x hx
    rw [List.foldl_cons] at hx
    rcases ih _ x hx with h | h
    · split at h
      · obtain ⟨y, hy, rfl⟩ := List.mem_map.1 h
        split
        · exact Or.inr List.mem_cons_self
        · exact Or.inl hy
      · rcases List.mem_append.1 h with h | h
        · exact Or.inl h
        · simp only [List.mem_singleton] at h; subst h; exact Or.inr List.mem_cons_self
    · exact Or.inr (List.mem_cons_of_mem _ h)

theorem getOrder_noPin (v : Vendor) (rb : List ORule) (row : String) (dir : Bool) (sc : Option String) (o : OrderRes)
    (hrb : NoPin rb) (h : getOrder v rb row dir sc = some o) : NoPin o.children := by
  unfold getOrder at h
  split at h
  · cases h
  · rename_i st hst
    cases h
    rw [noPin_iff]
    intro x hx
    have := go_children v row sc rb 0 _ st (noPin_iff.1 hrb) (fun x hx => by cases hx) hst
    exact this x (dedupLast_mem _ x hx)


/-! ### what the logic functions yield for one slot of a nested level -/

/-- the yield that (re)creates the row of a diff item, with the `Pre` of its children -/
def putY (i : DItem) : Yield := ⟨true, i.row, some (makePre i.children)⟩

def YShape (v : Vendor) (attrs : PAttrs) (key : List String) (a b : Option String) (d : List DItem)
    (ys : List Yield) : Prop :=
  match a, b with
  | none, none => ys = []
  | some _, none => ∃ c, reverseCmd v attrs key = some c ∧ ys = [⟨false, c, none⟩]
  | none, some rb => ∃ i ∈ d, i.row = rb ∧ i.op = .added ∧ ys = [putY i]
  | some ra, some rb =>
    if ra = rb then ∃ i ∈ d, i.row = rb ∧ ((i.op = .unchanged ∧ ys = []) ∨ (i.op = .affected ∧ ys = [putY i]))
    else ∃ i ∈ d, i.row = rb ∧ i.op = .added ∧
      (ys = [putY i] ∨ ∃ c, reverseCmd v attrs key = some c ∧ ys = [⟨false, c, none⟩, putY i])

theorem logic_aff (v : Vendor) (attrs : PAttrs)
    (hl : attrs.logic = "common.default" ∨ attrs.logic = "common.undo_redo") (k : List String) (e : PreEntry)
    (ys : List Yield) (h : Patch.runLogic v attrs (.mk k [] [] [] [e] []) = .ok ys) :
    ys = [⟨true, e.row, some e.children⟩] := by
  rcases hl with hl | hl <;> simp [Patch.runLogic, hl, logicDefault, logicUndoRedo] at h <;> exact h.symm

theorem putY_entry (i : DItem) : (⟨true, (entryOf i).row, some (entryOf i).children⟩ : Yield) = putY i := by
  rw [entryOf_row, entryOf_children]; rfl

theorem filter_one {i : DItem} (op : Op) : [i].filter (·.op == op) = if i.op = op then [i] else [] := by
  by_cases h : i.op = op <;> simp [h]

theorem filter_perm_pair {l : List DItem} {i j : DItem} (hp : l.Perm [i, j]) (hi : i.op = .removed)
    (hj : j.op = .added) (op : Op) :
    l.filter (·.op == op) = if op = .removed then [i] else if op = .added then [j] else [] := by
  have := hp.filter (·.op == op)
  cases op <;> simp [hi, hj] at this ⊢ <;> first | exact this | exact List.perm_singleton.1 this

theorem bucket_shape_n {rules : PRules} {old new : List (String × Cfg)} {d : List DItem} {raw : String}
    {items : List PreItem} (hI : InvI raw items d) (hd : Lvl rules old new d) {it : PreItem} (hit : it ∈ items)
    (v : Vendor) (attrs : PAttrs) (hl : attrs.logic = "common.default" ∨ attrs.logic = "common.undo_redo")
    (ys : List Yield) (h : Patch.runLogic v attrs it = .ok ys) :
    YShape v attrs it.key (holder rules old (raw, it.key)) (holder rules new (raw, it.key)) d ys := by
  have hc : ∀ op, iGet it op = ((d.filter (slotIs (raw, it.key))).filter (·.op == op)).map entryOf := by
    intro op; rw [hI.2.1 it hit op, filter_sel]
  have hs := hd.slot (raw, it.key)
  have hmem : ∀ i ∈ d.filter (slotIs (raw, it.key)), i ∈ d := fun i hi => (List.mem_filter.1 hi).1
  generalize d.filter (slotIs (raw, it.key)) = l at hc hs hmem
  generalize holder rules old (raw, it.key) = a at hs
  generalize holder rules new (raw, it.key) = b at hs
  obtain ⟨k, A, R, M, F, U⟩ := it
  have hA := hc .added
  have hR := hc .removed
  have hM := hc .moved
  have hF := hc .affected
  have hU := hc .unchanged
  simp only [iGet] at hA hR hM hF hU
  clear hc
  show YShape v attrs k a b d ys
  cases a with
  | none =>
    cases b with
    | none =>
      have : l = [] := hs
      subst this
      simp only [List.filter_nil, List.map_nil] at hA hR hM hF hU
      subst hA hR hM hF
      exact logic_none v attrs hl k U ys h
    | some rb =>
      obtain ⟨i, rfl, hop, hrow⟩ := hs
      simp only [filter_one, hop, List.map_nil, List.map_cons, reduceCtorEq, if_false, if_true] at hA hR hM hF hU
      subst hA hR hM hF hU
      refine ⟨i, hmem i List.mem_cons_self, hrow, hop, ?_⟩
      rw [logic_add v attrs hl k _ ys h, putY_entry]
  | some ra =>
    cases b with
    | none =>
      obtain ⟨i, rfl, hop, hrow⟩ := hs
      simp only [filter_one, hop, List.map_nil, List.map_cons, reduceCtorEq, if_false, if_true] at hA hR hM hF hU
      subst hA hR hM hF hU
      exact logic_rem v attrs hl k _ ys h
    | some rb =>
      simp only [SlotShape] at hs
      simp only [YShape]
      by_cases hab : ra = rb
      · rw [if_pos hab] at hs ⊢
        obtain ⟨i, rfl, hop, hrow⟩ := hs
        refine ⟨i, hmem i List.mem_cons_self, hrow, ?_⟩
        rcases hop with hop | hop
        · simp only [filter_one, hop, List.map_nil, List.map_cons, reduceCtorEq, if_false, if_true] at hA hR hM hF hU
          subst hA hR hM hF
          exact Or.inl ⟨hop, logic_none v attrs hl k U ys h⟩
        · simp only [filter_one, hop, List.map_nil, List.map_cons, reduceCtorEq, if_false, if_true] at hA hR hM hF hU
          subst hA hR hM hF hU
          refine Or.inr ⟨hop, ?_⟩
          rw [logic_aff v attrs hl k _ ys h, putY_entry]
      · rw [if_neg hab] at hs ⊢
        obtain ⟨i, j, hp, hiop, hirow, hjop, hjrow⟩ := hs
        simp only [filter_perm_pair hp hiop hjop, List.map_nil, List.map_cons, reduceCtorEq, if_false, if_true] at hA hR hM hF hU
        subst hA hR hM hF hU
        refine ⟨j, hmem j (hp.mem_iff.2 (by simp)), hjrow, hjop, ?_⟩
        rcases logic_both v attrs hl k _ _ ys h with h1 | ⟨c, hc, h1⟩
        · left; rw [h1, putY_entry]
        · right; exact ⟨c, hc, by rw [h1, putY_entry]⟩


/-! ### from yields to raw items, with the children trees -/

/-- the recursion of `make_patch` into a sub-`Pre` -/
def subTree (rec : PRec) (oc : List ORule) : Option Pre → Except Patch.Err PTree
  | none => .ok (.mk [])
  | some p => if p.isEmpty then .ok (.mk []) else rec oc p

def NItemOf (rec : PRec) (v : Vendor) (ord : List ORule) (raw : String) (attrs : PAttrs) (y : Yield) (x : RawItem) : Prop :=
  x.row = y.row ∧ x.rawRule = raw ∧ x.forceCommit = attrs.forceCommit ∧ x.direct = y.direct ∧
  x.parent = attrs.parent ∧
  ∃ o, getOrder v ord y.row y.direct (some "patch") = some o ∧ x.order = o.order ∧ x.orderDirect = o.direct ∧
    subTree rec o.children y.sub = .ok x.children

def NRel (rec : PRec) (v : Vendor) (ord : List ORule) (raw : String) (attrs : PAttrs) : List Yield → List RawItem → Prop
  | [], [] => True
  | y :: ys, x :: xs => NItemOf rec v ord raw attrs y x ∧ NRel rec v ord raw attrs ys xs
  | _, _ => False

theorem yields_nrel (rec : PRec) (v : Vendor) (ord : List ORule) (raw : String) (attrs : PAttrs) :
    ∀ (ys : List Yield) (chunk : List RawItem),
    yieldsToItems rec v ord true raw attrs ys = .ok chunk → NRel rec v ord raw attrs ys chunk
  | [], chunk, h => by
    rw [yieldsToItems] at h; cases h; trivial
  | y :: ys, chunk, h => by
    rw [yieldsToItems] at h
    split at h
    · cases h
    · rename_i o ho
      simp only [Bool.not_true, Bool.false_and, Bool.false_eq_true, if_false] at h
      split at h
      · cases h
      · rename_i ch hch
        split at h
        · cases h
        · rename_i more hmore
          cases h
          refine ⟨⟨rfl, rfl, rfl, rfl, rfl, o, ho, rfl, rfl, ?_⟩, yields_nrel rec v ord raw attrs ys more hmore⟩
          simp only [subTree]
          rw [← hch]
          cases y.sub <;> rfl

theorem nrel_mem {rec : PRec} {v : Vendor} {ord : List ORule} {raw : String} {attrs : PAttrs} :
    ∀ {ys : List Yield} {chunk : List RawItem}, NRel rec v ord raw attrs ys chunk →
    ∀ x ∈ chunk, ∃ y ∈ ys, NItemOf rec v ord raw attrs y x
  | [], [], _, x, hx => by cases hx
  | [], _ :: _, h, _, _ => h.elim
  | _ :: _, [], h, _, _ => h.elim
  | y :: ys, x0 :: xs, h, x, hx => by
    rcases List.mem_cons.1 hx with rfl | hx
    · exact ⟨y, List.mem_cons_self, h.1⟩
    · obtain ⟨y', hy', h'⟩ := nrel_mem h.2 x hx
      exact ⟨y', List.mem_cons_of_mem _ hy', h'⟩

theorem nrel_nil {rec : PRec} {v : Vendor} {ord : List ORule} {raw : String} {attrs : PAttrs} {chunk : List RawItem}
    (h : NRel rec v ord raw attrs [] chunk) : chunk = [] := by
  cases chunk with
  | nil => rfl
  | cons x xs => exact h.elim

theorem nrel_one {rec : PRec} {v : Vendor} {ord : List ORule} {raw : String} {attrs : PAttrs} {y : Yield}
    {chunk : List RawItem} (h : NRel rec v ord raw attrs [y] chunk) :
    ∃ x, chunk = [x] ∧ NItemOf rec v ord raw attrs y x := by
  cases chunk with
  | nil => exact h.elim
  | cons x xs =>
    obtain ⟨h1, h2⟩ := h
    rw [nrel_nil h2]
    exact ⟨x, rfl, h1⟩

theorem nrel_two {rec : PRec} {v : Vendor} {ord : List ORule} {raw : String} {attrs : PAttrs} {y1 y2 : Yield}
    {chunk : List RawItem} (h : NRel rec v ord raw attrs [y1, y2] chunk) :
    ∃ x1 x2, chunk = [x1, x2] ∧ NItemOf rec v ord raw attrs y1 x1 ∧ NItemOf rec v ord raw attrs y2 x2 := by
  cases chunk with
  | nil => exact h.elim
  | cons x xs =>
    obtain ⟨h1, h2⟩ := h
    obtain ⟨x2, rfl, h3⟩ := nrel_one h2
    exact ⟨x, x2, rfl, h1, h3⟩


/-! ### every bucket of a nested level -/

theorem rule_attrs_n {rules : PRules} {old new : List (String × Cfg)} {d : List DItem} {P : List PreRule}
    (hnr : NestedRules rules) (hd : Lvl rules old new d) (hP : InvR P d) {R : PreRule} (hR : R ∈ P) :
    ((rAttrs R).logic = "common.default" ∨ (rAttrs R).logic = "common.undo_redo") ∧
    (rAttrs R).forceCommit = false ∧
    ∀ r key, slotOf rules r = some (R.raw, key) → (matchOf rules r).attrs = rAttrs R := by
  obtain ⟨-, i0, hi0, hraw, hattrs⟩ := hP.2.1 R hR
  obtain ⟨hk0, hm0⟩ := hd.known i0 hi0
  obtain ⟨cr0, hcl0⟩ := classify_matchOf hk0
  rw [hm0] at hraw hattrs
  obtain ⟨-, h2, h3⟩ := nested_match hnr hcl0
  rw [hattrs] at h2 h3
  refine ⟨h2, h3, ?_⟩
  intro r key hs
  have hk : (slotOf rules r).isSome := by simp [hs]
  obtain ⟨cr, hcl⟩ := classify_matchOf hk
  have := slotOf_matchOf hk
  rw [hs] at this
  simp only [Option.some.injEq, Prod.mk.injEq] at this
  rw [← hattrs]
  exact nested_same_raw hnr hcl hcl0 (by rw [← this.1, hraw])

theorem yshape_cmdFor {rules : PRules} {old new : List (String × Cfg)} {d : List DItem} {v : Vendor}
    {attrs : PAttrs} {raw : String} {key : List String} {ys : List Yield}
    (hsh : YShape v attrs key (holder rules old (raw, key)) (holder rules new (raw, key)) d ys)
    (hattrs : ∀ r, slotOf rules r = some (raw, key) → (matchOf rules r).attrs = attrs) :
    ∀ y ∈ ys, CmdFor v rules (raw, key) y.row ∧ (y.direct = true → slotOf rules y.row = some (raw, key)) := by
  have hrem : ∀ ra c, holder rules old (raw, key) = some ra → reverseCmd v attrs key = some c →
      CmdFor v rules (raw, key) c := by
    intro ra c ha hc
    have hs := (holder_some ha).2
    have hk : (slotOf rules ra).isSome := by simp [hs]
    obtain ⟨cr, hcl⟩ := classify_matchOf hk
    have hsm := slotOf_matchOf hk
    rw [hs] at hsm
    simp only [Option.some.injEq, Prod.mk.injEq] at hsm
    refine Or.inr ⟨ra, matchOf rules ra, cr, hcl, by rw [← hsm.1, ← hsm.2], ?_⟩
    rw [hattrs ra hs, ← hsm.2]; exact hc
  have hput : ∀ rb (i : DItem), holder rules new (raw, key) = some rb → i.row = rb →
      CmdFor v rules (raw, key) (putY i).row ∧ ((putY i).direct = true → slotOf rules (putY i).row = some (raw, key)) := by
    intro rb i hb hrow
    have := (holder_some hb).2
    simp only [putY, hrow]
    exact ⟨Or.inl this, fun _ => this⟩
  have hremY : ∀ ra c, holder rules old (raw, key) = some ra → reverseCmd v attrs key = some c →
      CmdFor v rules (raw, key) (⟨false, c, none⟩ : Yield).row ∧
      ((⟨false, c, none⟩ : Yield).direct = true → slotOf rules (⟨false, c, none⟩ : Yield).row = some (raw, key)) := by
    intro ra c ha hc
    exact ⟨hrem ra c ha hc, fun h => by cases h⟩
  intro y hy
  cases ha : holder rules old (raw, key) with
  | none =>
    cases hb : holder rules new (raw, key) with
    | none => rw [ha, hb] at hsh; simp only [YShape] at hsh; subst hsh; cases hy
    | some rb =>
      rw [ha, hb] at hsh; simp only [YShape] at hsh
      obtain ⟨i, -, hrow, -, rfl⟩ := hsh
      simp only [List.mem_singleton] at hy; subst hy
      exact hput rb i hb hrow
  | some ra =>
    cases hb : holder rules new (raw, key) with
    | none =>
      rw [ha, hb] at hsh; simp only [YShape] at hsh
      obtain ⟨c, hc, rfl⟩ := hsh
      simp only [List.mem_singleton] at hy; subst hy
      exact hremY ra c ha hc
    | some rb =>
      rw [ha, hb] at hsh; simp only [YShape] at hsh
      split at hsh
      · obtain ⟨i, -, hrow, h | h⟩ := hsh
        · rw [h.2] at hy; cases hy
        · rw [h.2] at hy
          simp only [List.mem_singleton] at hy; subst hy
          exact hput rb i hb hrow
      · obtain ⟨i, -, hrow, -, rfl | ⟨c, hc, rfl⟩⟩ := hsh
        · simp only [List.mem_singleton] at hy; subst hy
          exact hput rb i hb hrow
        · simp only [List.mem_cons, List.not_mem_nil, or_false] at hy
          rcases hy with rfl | rfl
          · exact hremY ra c ha hc
          · exact hput rb i hb hrow

theorem bucket_fact_n {rules : PRules} {old new : List (String × Cfg)} {d : List DItem} {P : List PreRule}
    (hnr : NestedRules rules) (hd : Lvl rules old new d) (hP : InvR P d) (v : Vendor) (rec : PRec)
    (ord : List ORule) {R : PreRule} (hR : R ∈ P) {it : PreItem} (hit : it ∈ rItems R) {chunk : List RawItem}
    (h : bucketRun Patch.runLogic rec v ord true R.raw (rAttrs R) it = .ok chunk) :
    ∃ ys, YShape v (rAttrs R) it.key (holder rules old (R.raw, it.key)) (holder rules new (R.raw, it.key)) d ys ∧
      NRel rec v ord R.raw (rAttrs R) ys chunk ∧
      ∀ x ∈ chunk, CmdFor v rules (R.raw, it.key) x.row ∧ x.forceCommit = false ∧
        (x.direct = true → slotOf rules x.row = some (R.raw, it.key)) := by
  obtain ⟨hl, hfc, hattrs⟩ := rule_attrs_n hnr hd hP hR
  unfold bucketRun at h
  split at h
  · cases h
  · rename_i ys hys
    have hsh := bucket_shape_n (hP.2.1 R hR).1 hd hit v (rAttrs R) hl ys hys
    have hrel := yields_nrel rec v ord R.raw (rAttrs R) ys chunk h
    refine ⟨ys, hsh, hrel, ?_⟩
    intro x hx
    obtain ⟨y, hy, h1, -, h3, h4, -⟩ := nrel_mem hrel x hx
    obtain ⟨hc1, hc2⟩ := yshape_cmdFor hsh (fun r hs => hattrs r it.key hs) y hy
    rw [h1, h3, h4]
    exact ⟨hc1, hfc, hc2⟩

theorem slotShape_nil {a b : Option String} (h : SlotShape a b []) : a = none ∧ b = none := by
  cases a <;> cases b <;> simp only [SlotShape] at h
  · exact ⟨rfl, rfl⟩
  · obtain ⟨i, h, -⟩ := h; cases h
  · obtain ⟨i, h, -⟩ := h; cases h
  · split at h
    · obtain ⟨i, h, -⟩ := h; cases h
    · obtain ⟨i, j, h, -⟩ := h
      have := h.length_eq
      simp at this

theorem bucket_exists_n {rules : PRules} {old new : List (String × Cfg)} {d : List DItem} {P : List PreRule}
    (hd : Lvl rules old new d) (hP : InvR P d) (s : Slot)
    (h : ¬ (holder rules old s = none ∧ holder rules new s = none)) :
    ∃ R ∈ P, R.raw = s.1 ∧ ∃ it ∈ rItems R, it.key = s.2 := by
  have hne : d.filter (slotIs s) ≠ [] := by
    intro hnil
    have := hd.slot s
    rw [hnil] at this
    exact h (slotShape_nil this)
  obtain ⟨i, hi⟩ := List.exists_mem_of_ne_nil _ hne
  obtain ⟨hid, his⟩ := List.mem_filter.1 hi
  simp only [slotIs, beq_iff_eq] at his
  obtain ⟨R, hR, hraw⟩ := List.mem_map.1 (hP.2.2 i hid)
  have hkey := (hP.2.1 R hR).1.2.2 i hid hraw.symm
  obtain ⟨it, hit, hk⟩ := List.mem_map.1 hkey
  refine ⟨R, hR, ?_, it, hit, ?_⟩
  · rw [hraw, ← his]
  · rw [hk, ← his]

/-! ### the tree item of a raw item -/

def isLeaf (x : RawItem) : Bool := (x.children.items.isEmpty && !x.parent) || !x.direct

theorem finalOf_leaf {x : RawItem} (h : isLeaf x = true) : finalOf x = (x.row, none, keyOf x) := by
  unfold isLeaf at h
  simp only [finalOf, treeOf, h, if_true]
  rfl

theorem finalOf_block {x : RawItem} (h : isLeaf x = false) :
    finalOf x = (x.row, some (sortTree x.children), keyOf x) := by
  unfold isLeaf at h
  simp only [finalOf, treeOf, h, Bool.false_eq_true, if_false]
  rfl

theorem finalOf_slot {v : Vendor} {env : Env} {rules : PRules} (hc : CmdsOK v env rules) {sb : Slot} {x : RawItem}
    (hcf : CmdFor v rules sb x.row) (hdir : x.direct = true → slotOf rules x.row = some sb) :
    itemSlot env rules (finalOf x) = some sb ∧ ItemOK env rules (finalOf x) := by
  cases hlf : isLeaf x with
  | true =>
    rw [finalOf_leaf hlf]
    simp only [itemSlot, ItemOK]
    rcases hcf with h | ⟨row, m, cr, hcl, hsb, hrev⟩
    · obtain ⟨h1, h2⟩ := den_line hc (c := x.row) (by simp [h])
      rw [h1]
      exact ⟨h, h2⟩
    · obtain ⟨r', h1, h2, h3⟩ := den_removal hc hcl hrev
      rw [h1]
      exact ⟨by show slotOf rules r' = some sb; rw [h3, hsb], h2⟩
  | false =>
    rw [finalOf_block hlf]
    have hd : x.direct = true := by
      unfold isLeaf at hlf
      simp only [Bool.or_eq_false_iff, Bool.not_eq_false'] at hlf
      exact hlf.2
    simp only [itemSlot, ItemOK]
    exact ⟨hdir hd, by simp [hdir hd]⟩


/-! ### the raw items of one slot -/

theorem slot_cmds_n {rules : PRules} {old new : List (String × Cfg)} {d : List DItem} {P : List PreRule}
    {v : Vendor} {env : Env}
    (hnr : NestedRules rules) (hd : Lvl rules old new d) (hP : InvR P d) (hc : CmdsOK v env rules)
    (rec : PRec) (ord : List ORule) {out : List RawItem}
    (hout : itemsOfPre Patch.runLogic rec v ord true P = .ok out) (s : Slot) :
    (holder rules old s = none ∧ holder rules new s = none ∧
      out.filter (fun x => itemSlot env rules (finalOf x) == some s) = []) ∨
    (∃ attrs ys chunk, YShape v attrs s.2 (holder rules old s) (holder rules new s) d ys ∧
      NRel rec v ord s.1 attrs ys chunk ∧
      out.filter (fun x => itemSlot env rules (finalOf x) == some s) = chunk ∧
      (∀ r, slotOf rules r = some s → (matchOf rules r).attrs = attrs) ∧
      ∀ x ∈ chunk, CmdFor v rules s x.row ∧ (x.direct = true → slotOf rules x.row = some s)) := by
  obtain ⟨s1, s2⟩ := s
  have hq : ∀ R ∈ P, ∀ it ∈ rItems R, ∀ chunk,
      bucketRun Patch.runLogic rec v ord true R.raw (rAttrs R) it = .ok chunk →
      ∀ x ∈ chunk, (itemSlot env rules (finalOf x) == some (s1, s2)) = ((R.raw, it.key) == (s1, s2)) := by
    intro R hR it hit chunk hb x hx
    obtain ⟨ys, -, -, hcf⟩ := bucket_fact_n hnr hd hP v rec ord hR hit hb
    obtain ⟨h1, -, h3⟩ := hcf x hx
    rw [(finalOf_slot hc h1 h3).1]
    rw [Bool.eq_iff_iff]
    simp
  have nobucket : (¬ ∃ R ∈ P, R.raw = s1 ∧ ∃ it ∈ rItems R, it.key = s2) →
      holder rules old (s1, s2) = none ∧ holder rules new (s1, s2) = none := by
    intro hno
    refine Classical.byContradiction fun hcon => hno ?_
    exact bucket_exists_n hd hP (s1, s2) hcon
  rcases itemsOfPre_filter Patch.runLogic rec v ord true
      (fun x => itemSlot env rules (finalOf x) == some (s1, s2)) s1 P out hout hP.1
      (by
        intro R hR hne it hit chunk hb x hx
        rw [hq R hR it hit chunk hb x hx]
        simp [hne]) with ⟨h1, h2⟩ | ⟨R, hR, hraw, o, ho, h2⟩
  · left
    obtain ⟨ha, hb⟩ := nobucket (fun ⟨R, hR, hraw, _⟩ => h1 (hraw ▸ List.mem_map_of_mem hR))
    exact ⟨ha, hb, h2⟩
  · rcases itemsOfRule_filter Patch.runLogic rec v ord true R.raw (rAttrs R)
        (fun x => itemSlot env rules (finalOf x) == some (s1, s2)) s2 (rItems R) o ho (hP.2.1 R hR).1.1
        (by
          intro it hit chunk hb x hx
          rw [hq R hR it hit chunk hb x hx, Bool.eq_iff_iff]
          simp [hraw]) with ⟨h3, h4⟩ | ⟨it, hit, hkey, chunk, hb, h4⟩
    · left
      have : ¬ ∃ R' ∈ P, R'.raw = s1 ∧ ∃ it ∈ rItems R', it.key = s2 := by
        rintro ⟨R', hR', hraw', it, hit, hk⟩
        have : R' = R := Device.Lemmas.inj_of_nodup_map (·.raw) P hP.1 R' hR' R hR (by rw [hraw', hraw])
        subst this
        exact h3 (hk ▸ List.mem_map_of_mem hit)
      obtain ⟨ha, hb⟩ := nobucket this
      exact ⟨ha, hb, by rw [h2, h4]⟩
    · right
      obtain ⟨ys, hsh, hrel, hcf⟩ := bucket_fact_n hnr hd hP v rec ord hR hit hb
      rw [hraw] at hsh hrel hcf
      rw [hkey] at hsh hcf
      refine ⟨rAttrs R, ys, chunk, hsh, hrel, by rw [h2, h4], fun r hs => ?_, fun x hx => ?_⟩
      · exact (rule_attrs_n hnr hd hP hR).2.2 r s2 (by rw [hraw]; exact hs)
      · exact ⟨(hcf x hx).1, (hcf x hx).2.2⟩

end

end Annet.ConvergeNested.Lemmas
