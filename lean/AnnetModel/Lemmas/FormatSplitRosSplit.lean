/-
C04 helper lemmas, part 5b: RouterOS `split` turns the printed text `rosText` into `rosLines`: every
`/path words` line becomes one word per line at depths 0, 1, …, leaf rows are re-indented to the depth
of their section.
-/
import AnnetModel.Lemmas.FormatSplitText

namespace Annet.FormatSplit.Lemmas
open Annet Annet.Offside Annet.FormatSplit

/-! ## words -/

/-- all keys of a path are RouterOS section words -/
def rs_words (p : List String) : Prop := ∀ k ∈ p, rosWord k = true

theorem rs_words_snoc (p : List String) (k : String) (hp : rs_words p) (hk : rosWord k = true) :
    rs_words (p ++ [k]) := by
  intro x hx
  simp only [List.mem_append, List.mem_singleton] at hx
  rcases hx with hx | hx
  · exact hp x hx
  · rw [hx]; exact hk

theorem rs_rosWord_base (k : String) (h : rosWord k = true) : rowBase k.toList = true := by
  simp only [rosWord, Bool.and_eq_true] at h
  exact h.1

theorem rs_rosWord_chars (k : String) (h : rosWord k = true) :
    ∀ c ∈ k.toList, pyIsSpace c = false ∧ c ≠ '/' := by
  simp only [rosWord, Bool.and_eq_true, Bool.not_eq_true', List.any_eq_false, Bool.or_eq_true,
    not_or, beq_iff_eq] at h
  intro c hc
  have := h.2 c hc
  exact ⟨by simpa using this.1, this.2⟩

theorem rs_rosWord_ne (k : String) (h : rosWord k = true) : k.toList ≠ [] := by
  obtain ⟨c, cs, e, _, _⟩ := rowBase_cons _ (rs_rosWord_base k h)
  rw [e]; simp

/-! ## `splitWs` of a printed path -/

theorem rs_splitWsAux_word (x : Str) (hx : ∀ c ∈ x, pyIsSpace c = false) : ∀ (cur rest : Str),
    splitWsAux cur (x ++ rest) = splitWsAux (x.reverse ++ cur) rest := by
  induction x with
  | nil => intro cur rest; simp
  | cons c cs ih =>
    intro cur rest
    have hc := hx c (by simp)
    simp only [List.cons_append, splitWsAux, hc, Bool.false_eq_true, if_false]
    rw [ih (fun d hd => hx d (by simp [hd]))]
    simp

theorem rs_splitWsAux_path : ∀ (q : List String) (k : String) (cur : Str), rosWord k = true →
    rs_words q →
    splitWsAux cur (pathStr (k :: q)) = (cur.reverse ++ k.toList) :: q.map String.toList
  | [], k, cur, hk, _ => by
    have hne := rs_rosWord_ne k hk
    have h := rs_splitWsAux_word k.toList (fun c hc => (rs_rosWord_chars k hk c hc).1) cur []
    rw [List.append_nil] at h
    simp only [pathStr, h, splitWsAux]
    have : (k.toList.reverse ++ cur).isEmpty = false := by
      cases hk' : k.toList with
      | nil => exact absurd hk' hne
      | cons a as => simp
    simp [this]
  | k' :: q, k, cur, hk, hq => by
    have hne := rs_rosWord_ne k hk
    have hsp : pyIsSpace ' ' = true := by decide
    simp only [pathStr]
    rw [rs_splitWsAux_word k.toList (fun c hc => (rs_rosWord_chars k hk c hc).1)]
    have : (k.toList.reverse ++ cur).isEmpty = false := by
      cases hk' : k.toList with
      | nil => exact absurd hk' hne
      | cons a as => simp
    simp only [splitWsAux, hsp, if_true, this, Bool.false_eq_true, if_false]
    rw [rs_splitWsAux_path q k' [] (hq k' (by simp)) (fun x hx => hq x (by simp [hx]))]
    simp

theorem rs_splitWs_path (q : List String) (k : String) (hk : rosWord k = true) (hq : rs_words q) :
    splitWs ('/' :: pathStr (k :: q)) = ('/' :: k.toList) :: q.map String.toList := by
  have hs : pyIsSpace '/' = false := by decide
  simp only [splitWs, splitWsAux, hs, Bool.false_eq_true, if_false]
  rw [rs_splitWsAux_path q k ['/'] hk hq]
  simp

/-! ## `rosGroups` -/

theorem rs_replace_id (x : Str) (h : ∀ c ∈ x, c ≠ '/') : replaceChar '/' [] x = x := by
  induction x with
  | nil => simp [replaceChar]
  | cons c cs ih =>
    have h1 := ih (fun d hd => h d (by simp [hd]))
    have hc : c ≠ '/' := h c (by simp)
    simp only [replaceChar, beq_iff_eq] at h1 ⊢
    simp [hc, h1]

theorem rs_replace_slash (x : Str) (h : ∀ c ∈ x, c ≠ '/') : replaceChar '/' [] ('/' :: x) = x := by
  have h1 := rs_replace_id x h
  simp only [replaceChar, beq_iff_eq] at h1 ⊢
  simp [h1]

theorem rs_rosGroups (w : Nat) : ∀ (q : List String) (i : Nat), rs_words q →
    rosGroups (blanks w) i (q.map String.toList)
      = (q.zipIdx i).map fun e => blanks (w * e.2) ++ e.1.toList
  | [], i, _ => by simp [rosGroups]
  | k :: q, i, hq => by
    simp only [List.map_cons, rosGroups, List.zipIdx_cons, strMul_blanks]
    rw [rs_replace_id k.toList (fun c hc => (rs_rosWord_chars k (hq k (by simp)) c hc).2)]
    rw [rs_rosGroups w q (i + 1) (fun x hx => hq x (by simp [hx]))]

theorem rs_rosGroups_path (w : Nat) (q : List String) (k : String) (hk : rosWord k = true)
    (hq : rs_words q) :
    rosGroups (blanks w) 0 (('/' :: k.toList) :: q.map String.toList)
      = ((k :: q).zipIdx).map fun e => blanks (w * e.2) ++ e.1.toList := by
  simp only [rosGroups, List.zipIdx_cons, List.map_cons, strMul_blanks]
  rw [rs_replace_slash k.toList (fun c hc => (rs_rosWord_chars k hk c hc).2)]
  rw [rs_rosGroups w q (0 + 1) hq]

/-! ## one step of the loop -/

/-- a `/path words` line -/
theorem rs_section_line (w : Nat) (q : List String) (hne : q ≠ []) (hq : rs_words q)
    (hs : rosHasSplitter ('/' :: pathStr q) = false) (level : Nat) (rest : List Str) :
    rosSplitLoop (blanks w) level (('/' :: pathStr q) :: rest)
      = (rosSplitLoop (blanks w) q.length rest).map
          ((q.zipIdx.map fun e => blanks (w * e.2) ++ e.1.toList) ++ ·) := by
  cases q with
  | nil => exact absurd rfl hne
  | cons k q =>
    have hk : rosWord k = true := hq k (by simp)
    have hq' : rs_words q := fun x hx => hq x (by simp [hx])
    have hpre : ['/'].isPrefixOf ('/' :: pathStr (k :: q)) = true := by simp
    simp only [rosSplitLoop, hpre, if_true, hs, Bool.false_eq_true, if_false]
    rw [rs_splitWs_path q k hk hq', rs_rosGroups_path w q k hk hq']
    simp

/-- a leaf line inside a section -/
theorem rs_leaf_line (w m n : Nat) (hm : 0 < m) (hn : 0 < n) (r : Str) (hr : rowBase r = true)
    (rest : List Str) :
    rosSplitLoop (blanks w) n ((blanks m ++ r) :: rest)
      = (rosSplitLoop (blanks w) n rest).map ((blanks (w * n) ++ r) :: ·) := by
  have hpre : ['/'].isPrefixOf (blanks m ++ r) = false := by
    obtain ⟨m', rfl⟩ : ∃ m', m = m' + 1 := ⟨m - 1, by omega⟩
    simp [blanks, List.replicate_succ, List.isPrefixOf]
  simp only [rosSplitLoop, hpre, Bool.false_eq_true, if_false, hn, if_true, strip_line m r hr,
    strMul_blanks]

/-! ## the loop over a body -/

mutual
theorem rs_loop (w : Nat) (hw : 0 < w) : (t : Cfg) → ∀ (p : List String) (tail out : List Str),
      rs_words p → p ≠ [] → rosBody p t = true →
      (∀ lvl, rosSplitLoop (blanks w) lvl tail = some out) →
      rosSplitLoop (blanks w) p.length (rosText w p t ++ tail) = some (rosLines w p t ++ out)
  | .mk ks => by
    intro p tail out hp hne hb hc
    simp only [rosBody] at hb
    simp only [rosText, rosLines]
    exact rs_loopL w hw ks p false p.length tail out hp (Or.inl hne) hb (Or.inr rfl) hc
theorem rs_loopL (w : Nat) (hw : 0 < w) : (ks : List (String × Cfg)) →
      ∀ (p : List String) (seen : Bool) (level : Nat) (tail out : List Str),
      rs_words p → (p ≠ [] ∨ ks.all (fun e => !e.2.kids.isEmpty) = true) →
      rosBodyL p seen ks = true → (seen = true ∨ level = p.length) →
      (∀ lvl, rosSplitLoop (blanks w) lvl tail = some out) →
      rosSplitLoop (blanks w) level (rosTextL w p ks ++ tail) = some (rosLinesL w p ks ++ out)
  | [] => by
    intro p seen level tail out _ _ _ _ hc
    simp [rosTextL, rosLinesL, hc]
  | (k, c) :: rest => by
    intro p seen level tail out hp hne hb hl hc
    have h1 := rs_loop w hw c (p ++ [k])
    have h2 := rs_loopL w hw rest p
    simp only [rosBodyL, Bool.and_eq_true] at hb
    simp only [rosTextL, rosLinesL]
    have hne' : p ≠ [] ∨ rest.all (fun e => !e.2.kids.isEmpty) = true := by
      rcases hne with hne | hne
      · exact Or.inl hne
      · simp only [List.all_cons, Bool.and_eq_true] at hne
        exact Or.inr hne.2
    by_cases hk : c.kids.isEmpty = true
    · -- a leaf
      simp only [hk, if_true, Bool.and_eq_true, Bool.not_eq_true'] at hb ⊢
      obtain ⟨_, ⟨hseen, hrow⟩, hrest⟩ := hb
      have hlev : level = p.length := by
        rcases hl with hl | hl
        · rw [hseen] at hl; exact absurd hl (by simp)
        · exact hl
      have hpne : p ≠ [] := by
        rcases hne with hne | hne
        · exact hne
        · simp [hk] at hne
      have hlen : 0 < p.length := List.length_pos_iff.mpr hpne
      subst hlev
      simp only [List.cons_append]
      rw [rs_leaf_line w _ _ (Nat.mul_pos hw hlen) hlen _ hrow]
      rw [h2 seen p.length tail out hp hne' hrest (Or.inr rfl) hc]
      simp
    · -- a section
      simp only [hk, Bool.false_eq_true, if_false, Bool.and_eq_true, Bool.not_eq_true'] at hb ⊢
      obtain ⟨_, ⟨⟨hword, hspl⟩, hbody⟩, hrest⟩ := hb
      have hq := rs_words_snoc p k hp hword
      simp only [List.cons_append, List.append_assoc]
      rw [rs_section_line w (p ++ [k]) (by simp) hq hspl]
      have hrest' : ∀ lvl, rosSplitLoop (blanks w) lvl (rosTextL w p rest ++ tail)
          = some (rosLinesL w p rest ++ out) :=
        fun lvl => h2 true lvl tail out hp hne' hrest (Or.inl rfl) hc
      rw [h1 _ _ hq (by simp) hbody hrest']
      simp
end

/-! ## the lines of the text and of the result -/

theorem rs_pathStr_nl : ∀ (q : List String), rs_words q → '\n' ∉ pathStr q
  | [], _ => by simp [pathStr]
  | [k], hq => by
    simp only [pathStr]
    intro hm
    have := (rs_rosWord_chars k (hq k (by simp)) _ hm).1
    exact absurd this (by decide)
  | k :: k' :: q, hq => by
    simp only [pathStr, List.mem_append, List.mem_cons, not_or]
    refine ⟨?_, by decide, rs_pathStr_nl (k' :: q) (fun x hx => hq x (by simp [hx]))⟩
    intro hm
    have := (rs_rosWord_chars k (hq k (by simp)) _ hm).1
    exact absurd this (by decide)

mutual
theorem rs_text_nl (w : Nat) : (t : Cfg) → ∀ (p : List String), rs_words p → rosBody p t = true →
      ∀ l ∈ rosText w p t, '\n' ∉ l
  | .mk ks => by
    intro p hp hb
    simp only [rosBody] at hb
    simp only [rosText]
    exact rs_text_nlL w ks p false hp hb
theorem rs_text_nlL (w : Nat) : (ks : List (String × Cfg)) → ∀ (p : List String) (seen : Bool),
      rs_words p → rosBodyL p seen ks = true → ∀ l ∈ rosTextL w p ks, '\n' ∉ l
  | [] => by intro p seen _ _ l hl; simp [rosTextL] at hl
  | (k, c) :: rest => by
    intro p seen hp hb l hl
    have h1 := rs_text_nl w c (p ++ [k])
    have h2 := rs_text_nlL w rest p
    simp only [rosBodyL, Bool.and_eq_true] at hb
    simp only [rosTextL] at hl
    by_cases hk : c.kids.isEmpty = true
    · simp only [hk, if_true, Bool.and_eq_true, Bool.not_eq_true', List.mem_cons] at hb hl
      obtain ⟨_, ⟨_, hrow⟩, hrest⟩ := hb
      rcases hl with hl | hl
      · rw [hl]; exact (line_plain _ _ hrow).2
      · exact h2 seen hp hrest l hl
    · simp only [hk, Bool.false_eq_true, if_false, Bool.and_eq_true, Bool.not_eq_true',
        List.cons_append, List.mem_cons, List.mem_append] at hb hl
      obtain ⟨_, ⟨⟨hword, _⟩, hbody⟩, hrest⟩ := hb
      have hq := rs_words_snoc p k hp hword
      rcases hl with hl | hl | hl
      · rw [hl]
        simp only [List.mem_cons, not_or]
        exact ⟨by decide, rs_pathStr_nl _ hq⟩
      · exact h1 hq hbody l hl
      · exact h2 true hp hrest l hl
end

mutual
theorem rs_lines_ne (w : Nat) : (t : Cfg) → ∀ (p : List String), rs_words p → rosBody p t = true →
      ∀ l ∈ rosLines w p t, l ≠ []
  | .mk ks => by
    intro p hp hb
    simp only [rosBody] at hb
    simp only [rosLines]
    exact rs_lines_neL w ks p false hp hb
theorem rs_lines_neL (w : Nat) : (ks : List (String × Cfg)) → ∀ (p : List String) (seen : Bool),
      rs_words p → rosBodyL p seen ks = true → ∀ l ∈ rosLinesL w p ks, l ≠ []
  | [] => by intro p seen _ _ l hl; simp [rosLinesL] at hl
  | (k, c) :: rest => by
    intro p seen hp hb l hl
    have h1 := rs_lines_ne w c (p ++ [k])
    have h2 := rs_lines_neL w rest p
    simp only [rosBodyL, Bool.and_eq_true] at hb
    simp only [rosLinesL] at hl
    by_cases hk : c.kids.isEmpty = true
    · simp only [hk, if_true, Bool.and_eq_true, Bool.not_eq_true', List.mem_cons] at hb hl
      obtain ⟨_, ⟨_, hrow⟩, hrest⟩ := hb
      rcases hl with hl | hl
      · rw [hl]; exact (line_plain _ _ hrow).1
      · exact h2 seen hp hrest l hl
    · simp only [hk, Bool.false_eq_true, if_false, Bool.and_eq_true, Bool.not_eq_true',
        List.mem_append, List.mem_map] at hb hl
      obtain ⟨_, ⟨⟨hword, _⟩, hbody⟩, hrest⟩ := hb
      have hq := rs_words_snoc p k hp hword
      rcases hl with (⟨e, he, hl⟩ | hl) | hl
      · have hmem : e.1 ∈ p ++ [k] := by
          obtain ⟨x, i⟩ := e
          exact (List.mem_zipIdx' he).2 ▸ List.getElem_mem _
        rw [← hl]
        exact (line_plain _ _ (rs_rosWord_base _ (hq _ hmem))).1
      · exact h1 hq hbody l hl
      · exact h2 true hp hrest l hl
end

theorem ros_split_text (w : Nat) (hw : 0 < w) (t : Cfg) (h : rosTop t = true) :
    rosSplit (blanks w) (joinNl (rosText w [] t)) = some (rosLines w [] t) := by
  cases t with
  | mk ks =>
    simp only [rosTop, Cfg.kids, Bool.and_eq_true, rosBody] at h
    have hwords : rs_words [] := by intro x hx; simp at hx
    simp only [rosText, rosLines, rosSplit]
    have hloop : rosSplitLoop (blanks w) 0 (rosTextL w [] ks) = some (rosLinesL w [] ks) := by
      have := rs_loopL w hw ks [] false 0 [] [] hwords (Or.inr h.1) h.2 (Or.inr rfl)
        (fun lvl => by simp [rosSplitLoop])
      simpa using this
    have hfilter : nonEmpty (rosLinesL w [] ks) = rosLinesL w [] ks := by
      simp only [nonEmpty]
      rw [List.filter_eq_self]
      intro l hl
      have := rs_lines_neL w ks [] false hwords h.2 l hl
      cases l with
      | nil => exact absurd rfl this
      | cons _ _ => simp
    by_cases hemp : rosTextL w [] ks = []
    · cases ks with
      | nil => simp [rosTextL, rosLinesL, joinNl, splitNl, rosSplitLoop, strMul, nonEmpty]
      | cons e es =>
        obtain ⟨k, c⟩ := e
        simp only [rosTextL] at hemp
        split at hemp <;> simp at hemp
    · rw [splitNl_joinNl _ hemp (rs_text_nlL w ks [] false hwords h.2), hloop]
      simp [hfilter]

end Annet.FormatSplit.Lemmas
