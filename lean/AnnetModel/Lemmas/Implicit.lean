/-
Helper lemmas for C17.
-/
import AnnetModel.Spec.Implicit

namespace Annet.Implicit.Lemmas
open Annet Annet.Implicit Annet.Implicit.Spec

theorem merge_keeps_left (a b : Cfg) : Annet.Acl.Spec.Sub a (merge a b) := by
  sorry

theorem merge_self (t : Cfg) (h : NoDupKeys t) : merge t t = t := by
  sorry

theorem merge_empty_right (t : Cfg) : merge t (.mk []) = t := by
  sorry

theorem keeps_explicit (rules : List IRule) (t m : Cfg) (h : complete rules t = some m) :
    Annet.Acl.Spec.Sub t m := by
  sorry

theorem default_iff (rules : List IRule) (t m : Cfg) (h : complete rules t = some m) (hd : RowsDistinct rules)
    (r : IRule) (hr : r ∈ rules) (hi : r.ignore = false) :
    hasKey m r.row = (hasKey t r.row || !hasLineOfKind r t) := by
  sorry

theorem ignore_adds_nothing_new (rules : List IRule) (t m : Cfg) (h : complete rules t = some m)
    (hall : ∀ r ∈ rules, r.ignore = true) (k : String) : hasKey m k = hasKey t k := by
  sorry

theorem complete_idempotent (rules : List IRule) (t m : Cfg) (h : complete rules t = some m)
    (hnd : NoDupKeys t) (hd : RowsDistinct rules) (hdis : Disjoint rules) :
    complete rules m = some m := by
  sorry

end Annet.Implicit.Lemmas
