/-
Helper lemmas for C17.

`merge`: mutual structural inductions over `Cfg`.  `config`: the recursive calls on the children rules are kept
opaque; `configMatched` / `configRule` / `configRules` are characterised by membership (`rules_mem`), keys
(`rules_keys`), key uniqueness (`rules_nodup`) and success (`rules_some`).  Idempotence (`idem_core`) is a
well-founded induction over the rule tree.  `complete_idempotent` has two extra hypotheses (see there).
-/
import AnnetModel.Spec.Implicit

namespace Annet.Implicit.Lemmas
open Annet Annet.Implicit Annet.Implicit.Spec Annet.Pattern
open Annet.Acl.Spec (SubL)

/-! ### sub-tree and `merge` -/

mutual
  theorem sub_refl : (c : Cfg) → Acl.Spec.Sub c c
    | .mk ks => Acl.Spec.Sub.mk (subL_refl ks)
  theorem subL_refl : (ks : List (String × Cfg)) → SubL ks ks
    | [] => SubL.nil _
    | (k, c) :: rest => SubL.keep k (sub_refl c) (subL_refl rest)
end

mutual
  theorem merge_sub : (a b : Cfg) → Acl.Spec.Sub a (merge a b)
    | .mk a, .mk b => by rw [merge]; exact Acl.Spec.Sub.mk (mergeL_sub a b _)
  theorem mergeL_sub : (a b x : List (String × Cfg)) → SubL a (mergeL a b ++ x)
    | [], _, _ => SubL.nil _
    | (k, c) :: rest, b, x => by
      rw [mergeL]
      cases hf : b.find? (·.1 == k) with
      | none => exact SubL.keep k (sub_refl c) (mergeL_sub rest b x)
      | some e =>
        obtain ⟨k', c'⟩ := e
        exact SubL.keep k (merge_sub c c') (mergeL_sub rest b x)
end

theorem merge_keeps_left (a b : Cfg) : Annet.Acl.Spec.Sub a (merge a b) := merge_sub a b

/-- keys of one level -/
def keys (l : List (String × Cfg)) : List String := l.map (·.1)

theorem mem_keys {l : List (String × Cfg)} {k : String} : k ∈ keys l ↔ ∃ c, (k, c) ∈ l := by
  simp [keys]

theorem any_key (l : List (String × Cfg)) (k : String) : l.any (·.1 == k) = true ↔ k ∈ keys l := by
  simp [keys]

theorem keys_of_mem {l : List (String × Cfg)} {e : String × Cfg} (h : e ∈ l) : e.1 ∈ keys l :=
  List.mem_map_of_mem h

theorem nodupKeys_keys : (ks : List (String × Cfg)) → NoDupKeysL ks → (keys ks).Nodup
  | [], _ => List.nodup_nil
  | (k, c) :: rest, h => by
    rw [NoDupKeysL] at h
    simp only [keys, List.map_cons, List.nodup_cons]
    refine ⟨?_, nodupKeys_keys rest h.2.2⟩
    intro hm
    obtain ⟨e, he, hk⟩ := List.mem_map.1 hm
    exact h.1 e he hk

/-- with distinct keys an entry is determined by its key -/
theorem entry_unique : (l : List (String × Cfg)) → (keys l).Nodup → ∀ {k c c'}, (k, c) ∈ l → (k, c') ∈ l → c = c'
  | [], _, _, _, _, h, _ => by cases h
  | e :: rest, hn, k, c, c', h1, h2 => by
    simp only [keys, List.map_cons, List.nodup_cons] at hn
    rcases List.mem_cons.1 h1 with h3 | h3 <;> rcases List.mem_cons.1 h2 with h4 | h4
    · rw [← h4] at h3; cases h3; rfl
    · subst h3; exact (hn.1 (List.mem_map.2 ⟨_, h4, rfl⟩)).elim
    · subst h4; exact (hn.1 (List.mem_map.2 ⟨_, h3, rfl⟩)).elim
    · exact entry_unique rest hn.2 h3 h4

theorem find_self : (l : List (String × Cfg)) → (keys l).Nodup → ∀ e ∈ l, l.find? (·.1 == e.1) = some e
  | [], _, _, h => by cases h
  | x :: rest, hn, e, h => by
    simp only [keys, List.map_cons, List.nodup_cons] at hn
    rcases List.mem_cons.1 h with rfl | h
    · simp
    · have : x.1 ≠ e.1 := fun hx => hn.1 (hx ▸ keys_of_mem h)
      rw [List.find?_cons_of_neg (by simpa using this)]
      exact find_self rest hn.2 e h

theorem find_some {b : List (String × Cfg)} {k k' : String} {c' : Cfg}
    (h : b.find? (·.1 == k) = some (k', c')) : k' = k ∧ (k, c') ∈ b := by
  have h1 := List.find?_some h
  have h2 := List.mem_of_find?_eq_some h
  simp only [beq_iff_eq] at h1
  subst h1; exact ⟨rfl, h2⟩

theorem find_none {b : List (String × Cfg)} {k : String} (h : b.find? (·.1 == k) = none) : k ∉ keys b := by
  intro hk
  obtain ⟨c, hc⟩ := mem_keys.1 hk
  have := List.find?_eq_none.1 h _ hc
  simp at this

mutual
  theorem merge_self_aux : (t : Cfg) → NoDupKeys t → merge t t = t
    | .mk a, h => by
      rw [NoDupKeys] at h
      rw [merge, mergeL_self_aux a a h (find_self a (nodupKeys_keys a h))]
      have : a.filter (fun e => !(a.any (·.1 == e.1))) = [] := by
        rw [List.filter_eq_nil_iff]
        intro e he
        have := (any_key a e.1).2 (keys_of_mem he)
        simp only [this, Bool.not_true, Bool.false_eq_true, not_false_eq_true]
      rw [this, List.append_nil]
  theorem mergeL_self_aux : (a b : List (String × Cfg)) → NoDupKeysL a →
      (∀ e ∈ a, b.find? (·.1 == e.1) = some e) → mergeL a b = a
    | [], _, _, _ => by rw [mergeL]
    | (k, c) :: rest, b, h, hf => by
      rw [NoDupKeysL] at h
      rw [mergeL, hf (k, c) List.mem_cons_self]
      simp only
      rw [merge_self_aux c h.2.1, mergeL_self_aux rest b h.2.2 (fun e he => hf e (List.mem_cons_of_mem _ he))]
end

theorem merge_self (t : Cfg) (h : NoDupKeys t) : merge t t = t := merge_self_aux t h

theorem mergeL_nil_right : (a : List (String × Cfg)) → mergeL a [] = a
  | [] => by rw [mergeL]
  | (k, c) :: rest => by rw [mergeL, mergeL_nil_right rest]; rfl

theorem merge_empty_right (t : Cfg) : merge t (.mk []) = t := by
  cases t with
  | mk a => rw [merge, mergeL_nil_right]; simp

theorem complete_eq {rules : List IRule} {t m : Cfg} (h : complete rules t = some m) :
    ∃ imp, configRules rules t.kids [] = some imp ∧ m = merge t (.mk imp) := by
  simp only [complete, config, Option.map_map, Option.map_eq_some_iff] at h
  obtain ⟨imp, h1, h2⟩ := h
  exact ⟨imp, h1, h2.symm⟩

theorem keeps_explicit (rules : List IRule) (t m : Cfg) (h : complete rules t = some m) :
    Annet.Acl.Spec.Sub t m := by
  obtain ⟨imp, _, rfl⟩ := complete_eq h
  exact merge_sub _ _

/-! ### `setKey` -/

theorem mem_setKey {d : List (String × Cfg)} {k : String} {v : Cfg} {e : String × Cfg}
    (h : e ∈ setKey d k v) : e ∈ d ∨ e = (k, v) := by
  unfold setKey at h
  split at h
  · obtain ⟨x, hx, rfl⟩ := List.mem_map.1 h
    split
    · exact .inr rfl
    · exact .inl hx
  · rcases List.mem_append.1 h with h | h
    · exact .inl h
    · exact .inr (by simpa using h)

theorem keys_setKey (d : List (String × Cfg)) (k : String) (v : Cfg) :
    keys (setKey d k v) = if k ∈ keys d then keys d else keys d ++ [k] := by
  unfold setKey
  by_cases hk : k ∈ keys d
  · rw [if_pos ((any_key d k).2 hk), if_pos hk]
    simp only [keys, List.map_map]
    apply List.map_congr_left
    intro e _
    simp only [Function.comp]
    split
    · rename_i h; exact (beq_iff_eq.1 h).symm
    · rfl
  · rw [if_neg (fun h => hk ((any_key d k).1 h)), if_neg hk]
    simp [keys]

theorem mem_keys_setKey {d : List (String × Cfg)} {k k' : String} {v : Cfg} :
    k' ∈ keys (setKey d k v) ↔ k' ∈ keys d ∨ k' = k := by
  rw [keys_setKey]
  split
  · constructor
    · exact .inl
    · rintro (h | rfl)
      · exact h
      · assumption
  · simp

theorem nodup_setKey {d : List (String × Cfg)} (k : String) (v : Cfg) (h : (keys d).Nodup) :
    (keys (setKey d k v)).Nodup := by
  rw [keys_setKey]
  split
  · exact h
  · rename_i hk
    rw [List.nodup_append]
    refine ⟨h, by simp, ?_⟩
    intro a ha b hb
    simp only [List.mem_singleton] at hb
    subst hb
    exact fun hab => hk (hab ▸ ha)

/-! ### `configMatched` -/

theorem configMatched_mem (recur : List (String × Cfg) → Option (List (String × Cfg))) :
    (matched acc out : List (String × Cfg)) → configMatched recur matched acc = some out →
      ∀ e ∈ out, e ∈ acc ∨ ∃ line sub sub', (line, Cfg.mk sub) ∈ matched ∧ recur sub = some sub' ∧
        e = (line, Cfg.mk sub')
  | [], acc, out, h, e, he => by
    simp only [configMatched, Option.some.injEq] at h
    subst h; exact .inl he
  | (line, .mk sub) :: more, acc, out, h, e, he => by
    rw [configMatched] at h
    split at h
    · cases h
    · rename_i t ht
      rcases configMatched_mem recur more _ out h e he with h1 | ⟨l, s, s', hm, hr, rfl⟩
      · rcases mem_setKey h1 with h2 | rfl
        · exact .inl h2
        · exact .inr ⟨line, sub, t, List.mem_cons_self, ht, rfl⟩
      · exact .inr ⟨l, s, s', List.mem_cons_of_mem _ hm, hr, rfl⟩

theorem configMatched_keys (recur : List (String × Cfg) → Option (List (String × Cfg))) :
    (matched acc out : List (String × Cfg)) → configMatched recur matched acc = some out →
      ∀ k, k ∈ keys out ↔ k ∈ keys acc ∨ k ∈ keys matched
  | [], acc, out, h, k => by
    simp only [configMatched, Option.some.injEq] at h
    subst h; simp [keys]
  | (line, .mk sub) :: more, acc, out, h, k => by
    rw [configMatched] at h
    split at h
    · cases h
    · rw [configMatched_keys recur more _ out h k, mem_keys_setKey]
      simp only [keys, List.map_cons, List.mem_cons]
      constructor
      · rintro ((h | h) | h)
        · exact .inl h
        · exact .inr (.inl h)
        · exact .inr (.inr h)
      · rintro (h | h | h)
        · exact .inl (.inl h)
        · exact .inl (.inr h)
        · exact .inr h

theorem configMatched_nodup (recur : List (String × Cfg) → Option (List (String × Cfg))) :
    (matched acc out : List (String × Cfg)) → configMatched recur matched acc = some out →
      (keys acc).Nodup → (keys out).Nodup
  | [], acc, out, h, hn => by
    simp only [configMatched, Option.some.injEq] at h
    subst h; exact hn
  | (line, .mk sub) :: more, acc, out, h, hn => by
    rw [configMatched] at h
    split at h
    · cases h
    · exact configMatched_nodup recur more _ out h (nodup_setKey _ _ hn)

theorem configMatched_some (recur : List (String × Cfg) → Option (List (String × Cfg))) :
    (matched acc : List (String × Cfg)) →
      (∀ line sub, (line, Cfg.mk sub) ∈ matched → (recur sub).isSome = true) →
      ∃ out, configMatched recur matched acc = some out
  | [], acc, _ => ⟨acc, by rw [configMatched]⟩
  | (line, .mk sub) :: more, acc, h => by
    rw [configMatched]
    obtain ⟨t, ht⟩ := Option.isSome_iff_exists.1 (h line sub List.mem_cons_self)
    rw [ht]
    exact configMatched_some recur more _ (fun l s hm => h l s (List.mem_cons_of_mem _ hm))

/-! ### one rule -/

/-- the line is in the language of the rule's row -/
def matchesLine (r : IRule) (line : String) : Bool := rowMatches r line == some true

/-- `matched_lines` of a rule -/
def matchedBy (r : IRule) (cfg : List (String × Cfg)) : List (String × Cfg) := cfg.filter fun e => matchesLine r e.1

/-- the rule adds its row as a default -/
def adds (r : IRule) (cfg : List (String × Cfg)) : Bool :=
  !r.ignore && !((matchedBy r cfg).any fun e => !e.1.isEmpty) && !(cfg.any (·.1 == r.row))

theorem configRule_eq (r : IRule) (cfg acc : List (String × Cfg)) :
    configRule r cfg acc =
      match parseRow false r.row.toList with
      | none => none
      | some _ =>
        if adds r cfg then
          match configRules r.children [] [] with
          | none => none
          | some sub => configMatched (fun s => configRules r.children s []) (matchedBy r cfg) (setKey acc r.row (.mk sub))
        else configMatched (fun s => configRules r.children s []) (matchedBy r cfg) acc := by
  obtain ⟨row, ign, ch⟩ := r
  rw [configRule]
  simp only [IRule.row, IRule.children]
  cases hp : parseRow false row.toList with
  | none => rfl
  | some p =>
    have hm : ∀ line : String, matchesLine (.mk row ign ch) line = (p.match? line.toList).isSome := by
      intro line
      simp only [matchesLine, rowMatches, IRule.row, hp, Option.map_some]
      cases (p.match? line.toList).isSome <;> rfl
    simp only [adds, matchedBy, hm, IRule.ignore, IRule.row]
    rfl


theorem mem_matchedBy {r : IRule} {cfg : List (String × Cfg)} {e : String × Cfg} :
    e ∈ matchedBy r cfg ↔ e ∈ cfg ∧ matchesLine r e.1 = true := by
  simp [matchedBy]

theorem mem_keys_matchedBy {r : IRule} {cfg : List (String × Cfg)} {k : String} :
    k ∈ keys (matchedBy r cfg) ↔ ∃ e ∈ cfg, matchesLine r e.1 = true ∧ e.1 = k := by
  simp only [keys, List.mem_map, mem_matchedBy]
  constructor
  · rintro ⟨e, ⟨h1, h2⟩, h3⟩; exact ⟨e, h1, h2, h3⟩
  · rintro ⟨e, h1, h2, h3⟩; exact ⟨e, ⟨h1, h2⟩, h3⟩

theorem configRule_inv {r : IRule} {cfg acc out : List (String × Cfg)} (h : configRule r cfg acc = some out) :
    (parseRow false r.row.toList).isSome = true ∧
    ((adds r cfg = true ∧ ∃ sub, configRules r.children [] [] = some sub ∧
        configMatched (fun s => configRules r.children s []) (matchedBy r cfg) (setKey acc r.row (.mk sub)) = some out) ∨
     (adds r cfg = false ∧
        configMatched (fun s => configRules r.children s []) (matchedBy r cfg) acc = some out)) := by
  rw [configRule_eq] at h
  split at h
  · cases h
  · rename_i p hp
    refine ⟨by rw [hp]; rfl, ?_⟩
    split at h
    · rename_i ha
      split at h
      · cases h
      · rename_i sub hs
        exact .inl ⟨ha, sub, hs, h⟩
    · rename_i ha
      exact .inr ⟨by simpa using ha, h⟩

theorem rule_mem {r : IRule} {cfg acc out : List (String × Cfg)} (h : configRule r cfg acc = some out)
    {e : String × Cfg} (he : e ∈ out) :
    e ∈ acc ∨ (adds r cfg = true ∧ ∃ sub, configRules r.children [] [] = some sub ∧ e = (r.row, Cfg.mk sub)) ∨
      ∃ line sub sub', (line, Cfg.mk sub) ∈ cfg ∧ matchesLine r line = true ∧
        configRules r.children sub [] = some sub' ∧ e = (line, Cfg.mk sub') := by
  obtain ⟨_, ⟨ha, sub, hs, hm⟩ | ⟨_, hm⟩⟩ := configRule_inv h
  · rcases configMatched_mem _ _ _ _ hm e he with h1 | ⟨l, s, s', h1, h2, h3⟩
    · rcases mem_setKey h1 with h1 | h1
      · exact .inl h1
      · exact .inr (.inl ⟨ha, sub, hs, h1⟩)
    · exact .inr (.inr ⟨l, s, s', (mem_matchedBy.1 h1).1, (mem_matchedBy.1 h1).2, h2, h3⟩)
  · rcases configMatched_mem _ _ _ _ hm e he with h1 | ⟨l, s, s', h1, h2, h3⟩
    · exact .inl h1
    · exact .inr (.inr ⟨l, s, s', (mem_matchedBy.1 h1).1, (mem_matchedBy.1 h1).2, h2, h3⟩)

theorem rule_keys {r : IRule} {cfg acc out : List (String × Cfg)} (h : configRule r cfg acc = some out) (k : String) :
    k ∈ keys out ↔ k ∈ keys acc ∨ (adds r cfg = true ∧ k = r.row) ∨
      ∃ e ∈ cfg, matchesLine r e.1 = true ∧ e.1 = k := by
  obtain ⟨_, ⟨ha, sub, hs, hm⟩ | ⟨ha, hm⟩⟩ := configRule_inv h
  · rw [configMatched_keys _ _ _ _ hm, mem_keys_setKey, mem_keys_matchedBy]
    simp only [ha, true_and, or_assoc]
  · rw [configMatched_keys _ _ _ _ hm, mem_keys_matchedBy]
    simp [ha]

theorem rule_nodup {r : IRule} {cfg acc out : List (String × Cfg)} (h : configRule r cfg acc = some out)
    (hn : (keys acc).Nodup) : (keys out).Nodup := by
  obtain ⟨_, ⟨ha, sub, hs, hm⟩ | ⟨ha, hm⟩⟩ := configRule_inv h
  · exact configMatched_nodup _ _ _ _ hm (nodup_setKey _ _ hn)
  · exact configMatched_nodup _ _ _ _ hm hn

theorem rule_some {r : IRule} {cfg : List (String × Cfg)} (acc : List (String × Cfg))
    (hp : (parseRow false r.row.toList).isSome = true)
    (ha : adds r cfg = true → (configRules r.children [] []).isSome = true)
    (hm : ∀ line sub, (line, Cfg.mk sub) ∈ cfg → matchesLine r line = true →
      (configRules r.children sub []).isSome = true) :
    ∃ out, configRule r cfg acc = some out := by
  rw [configRule_eq]
  obtain ⟨p, hp⟩ := Option.isSome_iff_exists.1 hp
  rw [hp]
  have hm' : ∀ line sub, (line, Cfg.mk sub) ∈ matchedBy r cfg →
      ((fun s => configRules r.children s []) sub).isSome = true :=
    fun line sub h => hm line sub (mem_matchedBy.1 h).1 (mem_matchedBy.1 h).2
  simp only
  split
  · rename_i hadd
    obtain ⟨sub, hs⟩ := Option.isSome_iff_exists.1 (ha hadd)
    rw [hs]
    exact configMatched_some _ _ _ hm'
  · exact configMatched_some _ _ _ hm'

/-! ### the loop over the rules -/

theorem rules_mem : (rules : List IRule) → (cfg acc out : List (String × Cfg)) →
    configRules rules cfg acc = some out → ∀ e ∈ out,
    e ∈ acc ∨
    (∃ r ∈ rules, adds r cfg = true ∧ ∃ sub, configRules r.children [] [] = some sub ∧ e = (r.row, Cfg.mk sub)) ∨
    (∃ r ∈ rules, ∃ line sub sub', (line, Cfg.mk sub) ∈ cfg ∧ matchesLine r line = true ∧
        configRules r.children sub [] = some sub' ∧ e = (line, Cfg.mk sub'))
  | [], cfg, acc, out, h, e, he => by
    simp only [configRules, Option.some.injEq] at h
    subst h; exact .inl he
  | r :: rest, cfg, acc, out, h, e, he => by
    rw [configRules] at h
    split at h
    · cases h
    · rename_i acc' hr
      rcases rules_mem rest cfg acc' out h e he with h1 | ⟨r', hr', h1⟩ | ⟨r', hr', h1⟩
      · rcases rule_mem hr h1 with h2 | h2 | h2
        · exact .inl h2
        · exact .inr (.inl ⟨r, List.mem_cons_self, h2⟩)
        · exact .inr (.inr ⟨r, List.mem_cons_self, h2⟩)
      · exact .inr (.inl ⟨r', List.mem_cons_of_mem _ hr', h1⟩)
      · exact .inr (.inr ⟨r', List.mem_cons_of_mem _ hr', h1⟩)

theorem rules_keys : (rules : List IRule) → (cfg acc out : List (String × Cfg)) →
    configRules rules cfg acc = some out → ∀ k,
    (k ∈ keys out ↔ k ∈ keys acc ∨ (∃ r ∈ rules, adds r cfg = true ∧ k = r.row) ∨
      ∃ r ∈ rules, ∃ e ∈ cfg, matchesLine r e.1 = true ∧ e.1 = k)
  | [], cfg, acc, out, h, k => by
    simp only [configRules, Option.some.injEq] at h
    subst h; simp
  | r :: rest, cfg, acc, out, h, k => by
    rw [configRules] at h
    split at h
    · cases h
    · rename_i acc' hr
      rw [rules_keys rest cfg acc' out h k, rule_keys hr k]
      simp only [List.mem_cons, exists_eq_or_imp]
      constructor
      · rintro ((h | h | h) | h | h)
        · exact .inl h
        · exact .inr (.inl (.inl h))
        · exact .inr (.inr (.inl h))
        · exact .inr (.inl (.inr h))
        · exact .inr (.inr (.inr h))
      · rintro (h | (h | h) | (h | h))
        · exact .inl (.inl h)
        · exact .inl (.inr (.inl h))
        · exact .inr (.inl h)
        · exact .inl (.inr (.inr h))
        · exact .inr (.inr h)

theorem rules_nodup : (rules : List IRule) → (cfg acc out : List (String × Cfg)) →
    configRules rules cfg acc = some out → (keys acc).Nodup → (keys out).Nodup
  | [], cfg, acc, out, h, hn => by
    simp only [configRules, Option.some.injEq] at h
    subst h; exact hn
  | r :: rest, cfg, acc, out, h, hn => by
    rw [configRules] at h
    split at h
    · cases h
    · rename_i acc' hr
      exact rules_nodup rest cfg acc' out h (rule_nodup hr hn)

theorem rules_parse : (rules : List IRule) → (cfg acc out : List (String × Cfg)) →
    configRules rules cfg acc = some out → ∀ r ∈ rules, (parseRow false r.row.toList).isSome = true
  | [], _, _, _, _, _, hr => by cases hr
  | r :: rest, cfg, acc, out, h, r', hr' => by
    rw [configRules] at h
    split at h
    · cases h
    · rename_i acc' hr
      rcases List.mem_cons.1 hr' with rfl | hr'
      · exact (configRule_inv hr).1
      · exact rules_parse rest cfg acc' out h r' hr'

theorem rules_some : (rules : List IRule) → (cfg acc : List (String × Cfg)) →
    (∀ r ∈ rules, (parseRow false r.row.toList).isSome = true ∧
      (adds r cfg = true → (configRules r.children [] []).isSome = true) ∧
      ∀ line sub, (line, Cfg.mk sub) ∈ cfg → matchesLine r line = true →
        (configRules r.children sub []).isSome = true) →
    ∃ out, configRules rules cfg acc = some out
  | [], _, acc, _ => ⟨acc, by rw [configRules]⟩
  | r :: rest, cfg, acc, h => by
    rw [configRules]
    obtain ⟨h1, h2, h3⟩ := h r List.mem_cons_self
    obtain ⟨acc', ha⟩ := rule_some acc h1 h2 h3
    rw [ha]
    exact rules_some rest cfg acc' (fun r' hr' => h r' (List.mem_cons_of_mem _ hr'))


/-! ### keys of the completion -/

theorem keys_mergeL : (a b : List (String × Cfg)) → keys (mergeL a b) = keys a
  | [], _ => by rw [mergeL]
  | (k, c) :: rest, b => by
    rw [mergeL]
    simp only [keys, List.map_cons]
    rw [show List.map (fun x => x.1) (mergeL rest b) = List.map (fun x => x.1) rest from keys_mergeL rest b]
    congr 1
    split <;> rfl

theorem mem_keys_merge {a b : List (String × Cfg)} {k : String} :
    k ∈ keys (merge (.mk a) (.mk b)).kids ↔ k ∈ keys a ∨ k ∈ keys b := by
  rw [merge]
  simp only [Cfg.kids]
  rw [show ∀ x y : List (String × Cfg), keys (x ++ y) = keys x ++ keys y from fun x y => List.map_append,
    List.mem_append, keys_mergeL]
  constructor
  · rintro (h | h)
    · exact .inl h
    · obtain ⟨e, he, rfl⟩ := List.mem_map.1 h
      exact .inr (keys_of_mem (List.mem_filter.1 he).1)
  · rintro (h | h)
    · exact .inl h
    · by_cases hk : k ∈ keys a
      · exact .inl hk
      · obtain ⟨c, hc⟩ := mem_keys.1 h
        refine .inr (List.mem_map.2 ⟨(k, c), List.mem_filter.2 ⟨hc, ?_⟩, rfl⟩)
        have : a.any (·.1 == k) = false := by
          rw [← Bool.not_eq_true, any_key]; exact hk
        simp only [this, Bool.not_false]

theorem hasKey_iff (t : Cfg) (k : String) : hasKey t k = true ↔ k ∈ keys t.kids := any_key _ _

theorem rows_inj : (rules : List IRule) → RowsDistinct rules → ∀ r1 ∈ rules, ∀ r2 ∈ rules, r1.row = r2.row → r1 = r2
  | [], _, _, h, _, _, _ => by cases h
  | r :: rest, hd, r1, h1, r2, h2, he => by
    simp only [RowsDistinct, List.map_cons, List.nodup_cons] at hd
    rcases List.mem_cons.1 h1 with h3 | h3 <;> rcases List.mem_cons.1 h2 with h4 | h4
    · rw [h3, h4]
    · subst h3; exact (hd.1 (List.mem_map.2 ⟨r2, h4, he.symm⟩)).elim
    · subst h4; exact (hd.1 (List.mem_map.2 ⟨r1, h3, he⟩)).elim
    · exact rows_inj rest hd.2 r1 h3 r2 h4 he

theorem adds_eq (r : IRule) (t : Cfg) :
    adds r t.kids = (!r.ignore && !hasLineOfKind r t && !hasKey t r.row) := by
  simp only [adds, matchedBy, hasLineOfKind, hasKey, List.any_filter, matchesLine]
  have : ∀ a : String × Cfg, (rowMatches r a.1 == some true && !a.1.isEmpty) =
      (!a.1.isEmpty && rowMatches r a.1 == some true) := fun a => Bool.and_comm _ _
  simp only [this]

/-- keys of the completion: explicit keys, default rows that are added, (matched lines are explicit keys) -/
theorem complete_keys {rules : List IRule} {t m : Cfg} (h : complete rules t = some m) (k : String) :
    hasKey m k = true ↔ hasKey t k = true ∨ ∃ r ∈ rules, adds r t.kids = true ∧ k = r.row := by
  obtain ⟨imp, hi, rfl⟩ := complete_eq h
  obtain ⟨a⟩ := t
  rw [hasKey_iff, hasKey_iff, mem_keys_merge, rules_keys _ _ _ _ hi k]
  simp only [Cfg.kids]
  constructor
  · rintro (h | h | h | ⟨r, _, e, he, _, rfl⟩)
    · exact .inl h
    · simp [keys] at h
    · exact .inr h
    · exact .inl (keys_of_mem he)
  · rintro (h | h)
    · exact .inl h
    · exact .inr (.inr (.inl h))

theorem default_iff (rules : List IRule) (t m : Cfg) (h : complete rules t = some m) (hd : RowsDistinct rules)
    (r : IRule) (hr : r ∈ rules) (hi : r.ignore = false) :
    hasKey m r.row = (hasKey t r.row || !hasLineOfKind r t) := by
  rw [Bool.eq_iff_iff, complete_keys h]
  constructor
  · rintro (h1 | ⟨r', hr', ha, he⟩)
    · simp [h1]
    · have := rows_inj rules hd r hr r' hr' he
      subst this
      rw [adds_eq] at ha
      simp only [Bool.and_eq_true, Bool.not_eq_true'] at ha
      simp [ha.1.2]
  · intro h1
    by_cases hk : hasKey t r.row = true
    · exact .inl hk
    · refine .inr ⟨r, hr, ?_, rfl⟩
      rw [adds_eq, hi]
      simp only [hk, Bool.false_or, Bool.not_eq_true'] at h1
      simp [h1, hk]

theorem ignore_adds_nothing_new (rules : List IRule) (t m : Cfg) (h : complete rules t = some m)
    (hall : ∀ r ∈ rules, r.ignore = true) (k : String) : hasKey m k = hasKey t k := by
  rw [Bool.eq_iff_iff, complete_keys h]
  constructor
  · rintro (h1 | ⟨r, hr, ha, _⟩)
    · exact h1
    · rw [adds_eq, hall r hr] at ha
      simp at ha
  · exact .inl


/-! ### idempotence -/

theorem mem_mergeL : (a b : List (String × Cfg)) → ∀ k c, (k, c) ∈ mergeL a b →
    ∃ c0, (k, c0) ∈ a ∧ ((k ∉ keys b ∧ c = c0) ∨ ∃ c1, (k, c1) ∈ b ∧ c = merge c0 c1)
  | [], _, _, _, h => by rw [mergeL] at h; cases h
  | (k0, c0) :: rest, b, k, c, h => by
    rw [mergeL] at h
    rcases List.mem_cons.1 h with h | h
    · refine ⟨c0, ?_⟩
      split at h
      · rename_i k' c' hf
        cases h
        exact ⟨List.mem_cons_self, .inr ⟨c', (find_some hf).2, rfl⟩⟩
      · rename_i hf
        cases h
        exact ⟨List.mem_cons_self, .inl ⟨find_none hf, rfl⟩⟩
    · obtain ⟨c0', h1, h2⟩ := mem_mergeL rest b k c h
      exact ⟨c0', List.mem_cons_of_mem _ h1, h2⟩

theorem mergeL_eq_self : (a b : List (String × Cfg)) →
    (∀ k c, (k, c) ∈ a → ∀ k' c', b.find? (·.1 == k) = some (k', c') → merge c c' = c) → mergeL a b = a
  | [], _, _ => by rw [mergeL]
  | (k, c) :: rest, b, h => by
    rw [mergeL, mergeL_eq_self rest b (fun k c hm => h k c (List.mem_cons_of_mem _ hm))]
    congr 1
    split
    · rename_i k' c' hf
      rw [h k c List.mem_cons_self k' c' hf]
    · rfl

theorem keys_append (x y : List (String × Cfg)) : keys (x ++ y) = keys x ++ keys y := List.map_append

theorem nodup_keys_merge {a b : List (String × Cfg)} (ha : (keys a).Nodup) (hb : (keys b).Nodup) :
    (keys (merge (.mk a) (.mk b)).kids).Nodup := by
  rw [merge]
  simp only [Cfg.kids]
  rw [keys_append, keys_mergeL, List.nodup_append]
  refine ⟨ha, ?_, ?_⟩
  · exact List.Nodup.sublist (List.Sublist.map _ List.filter_sublist) hb
  · intro x hx y hy hxy
    subst hxy
    obtain ⟨e, he, rfl⟩ := List.mem_map.1 hy
    have h2 := (List.mem_filter.1 he).2
    rw [(any_key a e.1).2 hx] at h2
    cases h2

theorem mem_merge_kids {a b : List (String × Cfg)} {k : String} {c : Cfg} (h : (k, c) ∈ (merge (.mk a) (.mk b)).kids) :
    (∃ c0, (k, c0) ∈ a ∧ ((k ∉ keys b ∧ c = c0) ∨ ∃ c1, (k, c1) ∈ b ∧ c = merge c0 c1)) ∨
    ((k, c) ∈ b ∧ k ∉ keys a) := by
  rw [merge] at h
  simp only [Cfg.kids] at h
  rcases List.mem_append.1 h with h | h
  · exact .inl (mem_mergeL a b k c h)
  · obtain ⟨h1, h2⟩ := List.mem_filter.1 h
    refine .inr ⟨h1, fun hk => ?_⟩
    rw [(any_key a k).2 hk] at h2
    cases h2

theorem nodupKeys_child : (a : List (String × Cfg)) → NoDupKeysL a → ∀ k c, (k, c) ∈ a → NoDupKeys c
  | [], _, _, _, h => by cases h
  | (k0, c0) :: rest, hn, k, c, h => by
    rw [NoDupKeysL] at hn
    rcases List.mem_cons.1 h with h | h
    · cases h; exact hn.2.1
    · exact nodupKeys_child rest hn.2.2 k c h

theorem adds_iff (r : IRule) (cfg : List (String × Cfg)) :
    adds r cfg = true ↔ r.ignore = false ∧ (∀ k ∈ keys cfg, matchesLine r k = true → k.isEmpty = true) ∧
      r.row ∉ keys cfg := by
  rw [← any_key]
  simp only [adds, matchedBy, List.any_filter, keys, Bool.and_eq_true, Bool.not_eq_true', List.any_eq_false,
    List.mem_map, Bool.not_eq_true, forall_exists_index, and_imp, forall_apply_eq_imp_iff₂,
    and_assoc, beq_iff_eq]
  constructor
  · rintro ⟨h1, h2, h3⟩
    refine ⟨h1, fun e he hm => ?_, by simpa using h3⟩
    have := h2 e he
    simpa [hm] using this
  · rintro ⟨h1, h2, h3⟩
    refine ⟨h1, fun e he => ?_, by simpa using h3⟩
    cases hm : matchesLine r e.1
    · simp
    · simpa using h2 e he hm

mutual
  def deepL (P : List IRule → Bool) : List IRule → Bool
    | [] => true
    | r :: rest => deepR P r && deepL P rest
  def deepR (P : List IRule → Bool) : IRule → Bool
    | .mk _ _ ch => P ch && deepL P ch
end

/-- `P` holds of the rule list and, recursively, of the children of every rule in it (decidable) -/
def Deep (P : List IRule → Bool) (rules : List IRule) : Prop := (P rules && deepL P rules) = true

instance (P : List IRule → Bool) (rules : List IRule) : Decidable (Deep P rules) := by
  unfold Deep; infer_instance

theorem Deep.here {P : List IRule → Bool} {rules : List IRule} (h : Deep P rules) : P rules = true := by
  simp only [Deep, Bool.and_eq_true] at h; exact h.1

theorem deepL_mem {P : List IRule → Bool} : (rules : List IRule) → deepL P rules = true →
    ∀ r ∈ rules, deepR P r = true
  | [], _, _, hr => by cases hr
  | r0 :: rest, h, r, hr => by
    rw [deepL, Bool.and_eq_true] at h
    rcases List.mem_cons.1 hr with rfl | hr
    · exact h.1
    · exact deepL_mem rest h.2 r hr

theorem Deep.child {P : List IRule → Bool} {rules : List IRule} (h : Deep P rules) {r : IRule} (hr : r ∈ rules) :
    Deep P r.children := by
  simp only [Deep, Bool.and_eq_true] at h
  have := deepL_mem rules h.2 r hr
  obtain ⟨row, ign, ch⟩ := r
  rw [deepR] at this
  exact this

instance (rules : List IRule) : Decidable (RowsDistinct rules) := by
  unfold RowsDistinct; infer_instance

/-- sibling rule rows are pairwise distinct at every level of the rule tree
(`RowsDistinct` only speaks about the top level) -/
def DeepDistinct (rules : List IRule) : Prop := Deep (fun rs => decide (RowsDistinct rs)) rules

/-- every rule row is a line of its own language, at every level of the rule tree: the default line a rule
adds is recognised by that rule on the next run.  Holds for every grammar row without the `(?i)` flag
(`rowMatches (.mk "(?i)foo" false []) "(?i)foo" = some false`); decidable for a concrete rule set. -/
def SelfMatch (rules : List IRule) : Prop := Deep (fun rs => rs.all fun r => rowMatches r r.row == some true) rules

/-- `SelfMatch` is not a theorem: an `(?i)` row is outside its own language -/
example : rowMatches (.mk "(?i)foo" false []) "(?i)foo" = some false := by decide

instance (rules : List IRule) : Decidable (DeepDistinct rules) := by unfold DeepDistinct; infer_instance
instance (rules : List IRule) : Decidable (SelfMatch rules) := by unfold SelfMatch; infer_instance

theorem sizeOf_children_lt {rules : List IRule} {r : IRule} (hr : r ∈ rules) : sizeOf r.children < sizeOf rules := by
  have := List.sizeOf_lt_of_mem hr
  obtain ⟨row, ign, ch⟩ := r
  simp only [IRule.mk.sizeOf_spec] at this
  simp only [IRule.children]
  omega

theorem complete_of_config {rules : List IRule} {sub sub' : List (String × Cfg)}
    (h : configRules rules sub [] = some sub') :
    complete rules (.mk sub) = some (merge (.mk sub) (.mk sub')) := by
  simp [complete, config, Cfg.kids, h]

theorem merge_nil_left (b : List (String × Cfg)) : merge (.mk []) (.mk b) = .mk b := by
  rw [merge, mergeL]; simp

/-- the main induction (over the rule tree) -/
theorem idem_core (rules : List IRule) (t m : Cfg) (h : complete rules t = some m)
    (hnd : NoDupKeys t) (hdd : DeepDistinct rules) (hdis : Disjoint rules) (hsm : SelfMatch rules) :
    complete rules m = some m := by
  obtain ⟨hdis1, hdis2⟩ : (∀ r1 ∈ rules, ∀ r2 ∈ rules, r1.row ≠ r2.row → ∀ line,
      rowMatches r1 line = some true → rowMatches r2 line = some true → False) ∧
      (∀ r ∈ rules, Disjoint r.children) := by
    cases hdis with
    | mk _ h1 h2 => exact ⟨h1, h2⟩
  have IH : ∀ r ∈ rules, ∀ t' m', complete r.children t' = some m' → NoDupKeys t' →
      complete r.children m' = some m' := fun r hr t' m' h' hn' =>
    idem_core r.children t' m' h' hn' (hdd.child hr) (hdis2 r hr) (hsm.child hr)
  have hd : RowsDistinct rules := by simpa using hdd.here
  have hself : ∀ r ∈ rules, matchesLine r r.row = true := by
    have := hsm.here
    simp only [List.all_eq_true] at this
    exact this
  -- same line ⇒ same rule
  have hsame : ∀ r1 ∈ rules, ∀ r2 ∈ rules, ∀ line, matchesLine r1 line = true → matchesLine r2 line = true →
      r1 = r2 := by
    intro r1 h1 r2 h2 line hm1 hm2
    apply rows_inj rules hd r1 h1 r2 h2
    apply Classical.byContradiction
    intro hne
    exact hdis1 r1 h1 r2 h2 hne line (by simpa [matchesLine] using hm1) (by simpa [matchesLine] using hm2)
  obtain ⟨imp, hi, rfl⟩ := complete_eq h
  obtain ⟨a⟩ := t
  simp only [Cfg.kids] at hi
  rw [NoDupKeys] at hnd
  have hna : (keys a).Nodup := nodupKeys_keys a hnd
  have hni : (keys imp).Nodup := rules_nodup _ _ _ _ hi List.nodup_nil
  have hnm := nodup_keys_merge hna hni
  have hkm : ∀ k, k ∈ keys (merge (.mk a) (.mk imp)).kids ↔ k ∈ keys a ∨ k ∈ keys imp := fun k => mem_keys_merge
  have hki := rules_keys _ _ _ _ hi
  -- every line of the completion that a rule recognises is already complete for the rule's children
  have K : ∀ k c, (k, c) ∈ (merge (.mk a) (.mk imp)).kids → ∀ r ∈ rules, matchesLine r k = true →
      complete r.children c = some c := by
    intro k c hm r hr hmatch
    rcases mem_merge_kids hm with ⟨c0, hc0, hcase⟩ | ⟨hci, hka⟩
    · have hkimp : k ∈ keys imp := (hki k).2 (.inr (.inr ⟨r, hr, (k, c0), hc0, hmatch, rfl⟩))
      rcases hcase with ⟨hno, _⟩ | ⟨c1, hc1, rfl⟩
      · exact (hno hkimp).elim
      · rcases rules_mem _ _ _ _ hi _ hc1 with h1 | ⟨r1, hr1, hadd, sub, _, he⟩ | ⟨r1, hr1, line, sub, sub', hl, hm1, hcr, he⟩
        · cases h1
        · cases he
          exact (((adds_iff r1 a).1 hadd).2.2 (keys_of_mem hc0)).elim
        · cases he
          have : c0 = .mk sub := entry_unique a hna hc0 hl
          subst this
          have : r = r1 := hsame r hr r1 hr1 k hmatch hm1
          subst this
          exact IH r hr _ _ (complete_of_config hcr) (nodupKeys_child a hnd _ _ hl)
    · rcases rules_mem _ _ _ _ hi _ hci with h1 | ⟨r1, hr1, hadd, sub, hcr, he⟩ | ⟨r1, hr1, line, sub, sub', hl, hm1, hcr, he⟩
      · cases h1
      · cases he
        have : r = r1 := hsame r hr r1 hr1 _ hmatch (hself r1 hr1)
        subst this
        have h0 := complete_of_config hcr
        rw [merge_nil_left] at h0
        exact IH r hr _ _ h0 (by rw [NoDupKeys, NoDupKeysL]; trivial)
      · cases he
        exact (hka (keys_of_mem hl)).elim
  -- the second run adds nothing
  have N : ∀ r ∈ rules, adds r (merge (.mk a) (.mk imp)).kids = false := by
    intro r hr
    rw [← Bool.not_eq_true]
    intro hadd
    obtain ⟨h1, h2, h3⟩ := (adds_iff r _).1 hadd
    have : adds r a = true :=
      (adds_iff r a).2 ⟨h1, fun k hk => h2 k ((hkm k).2 (.inl hk)), fun hk => h3 ((hkm _).2 (.inl hk))⟩
    exact h3 ((hkm _).2 (.inr ((hki _).2 (.inr (.inl ⟨r, hr, this, rfl⟩)))))
  obtain ⟨imp2, hi2⟩ : ∃ imp2, configRules rules (merge (.mk a) (.mk imp)).kids [] = some imp2 := by
    apply rules_some
    intro r hr
    refine ⟨rules_parse _ _ _ _ hi r hr, fun hadd => ?_, fun line sub hl hm => ?_⟩
    · rw [N r hr] at hadd; cases hadd
    · have := K line (.mk sub) hl r hr hm
      obtain ⟨imp', h', _⟩ := complete_eq this
      simp only [Cfg.kids] at h'
      rw [h']; rfl
  generalize hM : merge (.mk a) (.mk imp) = M at *
  obtain ⟨mk⟩ := M
  simp only [Cfg.kids] at hi2 K N hnm
  rw [complete_of_config hi2, merge]
  have e1 : mergeL mk imp2 = mk := by
    apply mergeL_eq_self
    intro k c hc k' c' hf
    have hc' := (find_some hf).2
    rcases rules_mem _ _ _ _ hi2 _ hc' with h1 | ⟨r1, hr1, hadd, _⟩ | ⟨r1, hr1, line, sub, sub', hl, hm1, hcr, he⟩
    · cases h1
    · rw [N r1 hr1] at hadd; cases hadd
    · cases he
      have : c = .mk sub := entry_unique mk hnm hc hl
      subst this
      have := K _ _ hl r1 hr1 hm1
      rw [complete_of_config hcr] at this
      exact Option.some.inj this
  have e2 : imp2.filter (fun e => !(mk.any (·.1 == e.1))) = [] := by
    rw [List.filter_eq_nil_iff]
    intro e he
    have hk : e.1 ∈ keys mk := by
      rcases (rules_keys _ _ _ _ hi2 e.1).1 (keys_of_mem he) with h1 | ⟨r1, hr1, hadd, _⟩ | ⟨r1, hr1, e', he', _, hk⟩
      · simp [keys] at h1
      · rw [N r1 hr1] at hadd; cases hadd
      · rw [← hk]; exact keys_of_mem he'
    simp only [(any_key mk e.1).2 hk, Bool.not_true, Bool.false_eq_true, not_false_eq_true]
  rw [e1, e2, List.append_nil]
termination_by sizeOf rules
decreasing_by exact sizeOf_children_lt hr

/-
Original statement (FALSE as written):

theorem complete_idempotent (rules : List IRule) (t m : Cfg) (h : complete rules t = some m)
    (hnd : NoDupKeys t) (hd : RowsDistinct rules) (hdis : Disjoint rules) :
    complete rules m = some m

Counterexample (checked below by `decide`): `RowsDistinct` only constrains the top level, and `Disjoint`
says nothing about two sibling rules with the same row, so two child rules may share a row:
  rules = [t {a {x}, !a {y}}], t = {}: first run gives t/a/x, second run gives t/a/x + t/a/y.
-/
example :
    let rules : List IRule := [.mk "t" false [.mk "a" false [.mk "x" false []], .mk "a" true [.mk "y" false []]]]
    RowsDistinct rules ∧
    (complete rules (.mk [])).map Cfg.paths = some [["t"], ["t", "a"], ["t", "a", "x"]] ∧
    ((complete rules (.mk [])).bind (complete rules)).map Cfg.paths =
      some [["t"], ["t", "a"], ["t", "a", "x"], ["t", "a", "y"]] := by
  decide

-- STATEMENT CHANGED: two extra hypotheses.
-- (1) `hdd : DeepDistinct rules` — sibling rows distinct at EVERY level (the original is false without it, see the
--     counterexample above); it subsumes `hd`, which is kept for compatibility.
-- (2) `hsm : SelfMatch rules` — every rule row is a line of its own language (false exactly for rows with the
--     `(?i)` flag, so not provable in general); it lets `Disjoint` exclude that a default row added by one rule is
--     picked up by a *different* sibling rule on the second run.
-- Both are decidable (`by decide`) for a concrete rule set.
theorem complete_idempotent (rules : List IRule) (t m : Cfg) (h : complete rules t = some m)
    (hnd : NoDupKeys t) (_hd : RowsDistinct rules) (hdis : Disjoint rules)
    (hdd : DeepDistinct rules) (hsm : SelfMatch rules) :
    complete rules m = some m :=
  idem_core rules t m h hnd hdd hdis hsm


end Annet.Implicit.Lemmas
