/-
C01 along chains of targets: deploying target after target, the device agrees with the last target.
Statement fixed by Props/C01.lean.
-/
import AnnetModel.Lemmas.ConvergeNestedSecond
import AnnetModel.Lemmas.ConvergeNestedExample

namespace Annet.ConvergeNested.Lemmas

section
open Annet Annet.Rules Annet.Device Annet.Device.Abs Annet.Converge Annet.ConvergeNested Annet.Diff
open Annet.Patch

/-- one deployment: compute the patch for (device, target) with the pipeline and execute it on the device; `none` when the
pipeline refuses the pair -/
def deployStep (v : Vendor) (env : Env) (rules : PRules) (ordering : List ORule) (dev target : Cfg) : Option Cfg :=
  match Api.deviceMode Patch.runLogic v rules ordering true dev target with
  | .ok r => some (.mk (applyTree env rules r.patch dev.kids))
  | .error _ => none

/-- deploy the targets one after the other -/
def deployChain (v : Vendor) (env : Env) (rules : PRules) (ordering : List ORule) : Cfg → List Cfg → Option Cfg
  | dev, [] => some dev
  | dev, t :: ts =>
    match deployStep v env rules ordering dev t with
    | some dev' => deployChain v env rules ordering dev' ts
    | none => none

/-- along any chain of targets of the kind `nested_converges` quantifies over, every step succeeds whenever the pipeline
accepts it, the device stays a configuration of that kind, and after the last step it agrees with the last target -/
theorem chain_converges (v : Vendor) (env : Env) (rules : PRules) (ordering : List ORule)
    (hr : NestedRules rules) (hc : CmdsOKAll v env rules) (hp : NoPin ordering)
    (old : Cfg) (targets : List Cfg) (last : Cfg) (final : Cfg)
    (hgo : GoodC rules old) (hgt : ∀ t ∈ targets ++ [last], GoodC rules t)
    (hres : deployChain v env rules ordering old (targets ++ [last]) = some final) :
    GoodC rules final ∧ SameC rules final last := by
  induction targets generalizing old with
  | nil =>
    simp only [List.nil_append, deployChain] at hres
    have hgl : GoodC rules last := hgt last (by simp)
    cases hs : deployStep v env rules ordering old last with
    | none => rw [hs] at hres; cases hres
    | some dev' =>
      rw [hs] at hres
      cases hres
      unfold deployStep at hs
      split at hs
      · rename_i r hr'
        cases hs
        exact ⟨applied_good v env rules ordering old last r hr hgo hgl hc hp hr',
          nested_converges v env rules ordering old last r hr hgo hgl hc hp hr'⟩
      · cases hs
  | cons t ts ih =>
    simp only [List.cons_append, deployChain] at hres
    have hgt1 : GoodC rules t := hgt t (by simp)
    cases hs : deployStep v env rules ordering old t with
    | none => rw [hs] at hres; cases hres
    | some dev' =>
      rw [hs] at hres
      unfold deployStep at hs
      split at hs
      · rename_i r hr'
        cases hs
        exact ih _ (applied_good v env rules ordering old t r hr hgo hgt1 hc hp hr')
          (fun x hx => hgt x (by simp only [List.cons_append, List.mem_cons]; exact Or.inr hx)) hres
      · cases hs

end

end Annet.ConvergeNested.Lemmas

namespace Annet.ConvergeNested.Example
open Annet.ConvergeNested.Lemmas (deployChain chain_converges)

/-- non-vacuity of `chain_converges`: the two-step chain `old → new → old` on the closed instance: both steps are
accepted by the pipeline and the device ends up agreeing with `old` again -/
example : ∃ final, deployChain v env rules ordering old [new, old] = some final ∧
    GoodC rules final ∧ SameC rules final old := by
  have h : (deployChain v env rules ordering old [new, old]).isSome = true := by decide +kernel
  obtain ⟨final, hf⟩ := Option.isSome_iff_exists.1 h
  refine ⟨final, hf, ?_⟩
  refine chain_converges v env rules ordering nestedRules cmdsOKAll noPin old [new] old final goodOld ?_ hf
  intro t ht
  simp only [List.cons_append, List.nil_append, List.mem_cons, List.not_mem_nil, or_false] at ht
  rcases ht with rfl | rfl
  · exact goodNew
  · exact goodOld

end Annet.ConvergeNested.Example

