/-
Helper lemmas for C10, part 5: from the rows a generator program appends (strings) to the layout it denotes (items).
-/
import AnnetModel.Lemmas.GenLayout

namespace Annet.Gen.Lemmas
open Annet Annet.Offside Annet.Offside.Lemmas Annet.Gen.Spec

/-! ### indentation in front of a row -/

theorem blankTab_space {c : Char} (h : isBlankTab c = true) : pyIsSpace c = true := by
  simp only [isBlankTab, Bool.or_eq_true, beq_iff_eq] at h
  rcases h with rfl | rfl <;> decide

theorem lstrip_append_ws (w r : List Char) (h : w.all isBlankTab = true) : lstrip (w ++ r) = lstrip r := by
  induction w with
  | nil => rfl
  | cons c cs ih =>
    simp only [List.all_cons, Bool.and_eq_true] at h
    simp only [lstrip, List.cons_append, List.dropWhile_cons, blankTab_space h.1, if_true]
    exact ih h.2

theorem strip_append_ws (w r : List Char) (h : w.all isBlankTab = true) : strip (w ++ r) = strip r := by
  simp only [strip, lstrip_append_ws w r h]

theorem parseIndent_append_ws (w r : List Char) (h : w.all isBlankTab = true) :
    parseIndent (w ++ r) = w.length + parseIndent r := by
  induction w with
  | nil => simp
  | cons c cs ih =>
    simp only [List.all_cons, Bool.and_eq_true] at h
    have hc : (c == '\t' || c == ' ') = true := by
      have := h.1
      simp only [isBlankTab, Bool.or_eq_true] at this ⊢
      exact this.symm
    simp only [List.cons_append, parseIndent, hc, if_true, List.length_cons, ih h.2]
    omega

theorem comments_hash : comments.contains "#" = true := by decide
theorem comments_mem : "#" ∈ comments := by decide

/-- indentation in front of a row moves the row to the right and changes nothing else -/
theorem classify_indent (ws row : String) (hws : ws.toList.all isBlankTab = true)
    (hse : classify comments row ≠ .sectionEnd) :
    classify comments (ws ++ row) = shiftItem ws.length (classify comments row) := by
  have hrow : startsWith row.toList ['#'] = false := by
    cases h : startsWith row.toList ['#'] with
    | false => rfl
    | true =>
      exfalso; apply hse
      simp [classify, comments_mem, h]
  have hcat : startsWith (ws.toList ++ row.toList) ['#'] = false := by
    cases hw : ws.toList with
    | nil => simpa using hrow
    | cons c cs =>
      rw [hw] at hws
      simp only [List.all_cons, Bool.and_eq_true] at hws
      have hc : c ≠ '#' := by
        intro hc; subst hc
        have := hws.1
        simp [isBlankTab] at this
      simp only [startsWith, List.cons_append, List.isPrefixOf, Bool.and_eq_false_iff, beq_eq_false_iff_ne]
      exact .inl (fun h => hc h.symm)
  simp only [classify, String.toList_append, hcat, hrow, Bool.and_false, Bool.false_eq_true, if_false,
    strip_append_ws _ _ hws, parseIndent_append_ws _ _ hws]
  split
  · rfl
  · simp [shiftItem, String.length_toList]

/-! ### `concatStr` of the indent stack -/

theorem concatStr_append (a : List String) (b : String) : concatStr (a ++ [b]) = concatStr a ++ b := by
  induction a with
  | nil => simp [concatStr]
  | cons x xs ih => simp [concatStr, ih, String.append_assoc]

/-- all indents are blanks and tabs -/
def IndsOk (indents : List String) : Prop := (concatStr indents).toList.all isBlankTab = true

def width (indents : List String) : Nat := (concatStr indents).length

theorem indsOk_nil : IndsOk [] := by simp [IndsOk, concatStr]

theorem indsOk_snoc {indents : List String} {ind : String} (h : IndsOk indents) (hi : IndentOk ind = true) :
    IndsOk (indents ++ [ind]) := by
  simp only [IndentOk, Bool.and_eq_true] at hi
  simp only [IndsOk, concatStr_append, String.toList_append, List.all_append, Bool.and_eq_true]
  exact ⟨h, hi.2⟩

theorem width_snoc (indents : List String) (ind : String) : width (indents ++ [ind]) = width indents + ind.length := by
  simp [width, concatStr_append]

theorem indentOk_pos {ind : String} (hi : IndentOk ind = true) : 0 < ind.length := by
  simp only [IndentOk, Bool.and_eq_true, Bool.not_eq_eq_eq_not, Bool.not_true] at hi
  rw [← String.length_toList]
  cases h : ind.toList with
  | nil => rw [h] at hi; simp at hi
  | cons c cs => simp

theorem indentOk_default : IndentOk "  " = true := by decide

/-! ### rows of one text -/

theorem ownOk_noSE : (items : List Item) → OwnOk items = true → ∀ i ∈ items, i ≠ .sectionEnd
  | [], _, _, hi => by cases hi
  | .blank :: rest, h, i, hi => by
    rcases List.mem_cons.1 hi with rfl | hi
    · intro hc; cases hc
    · exact ownOk_noSE rest (by simpa [OwnOk] using h) i hi
  | .sectionEnd :: _, h, _, _ => by simp [OwnOk] at h
  | .text k s :: rest, h, i, hi => by
    simp only [OwnOk, Bool.and_eq_true] at h
    rcases List.mem_cons.1 hi with rfl | hi
    · intro hc; cases hc
    · have := List.all_eq_true.1 h.2 i hi
      intro hc; subst hc; simp at this

theorem appendText_items (indents : List String) (text : String) (hi : IndsOk indents)
    (hse : ∀ i ∈ ownItems text, i ≠ .sectionEnd) :
    (appendText indents text).map (classify comments) = (ownItems text).map (shiftItem (width indents)) := by
  simp only [appendText, ownItems, List.map_map] at hse ⊢
  apply List.map_congr_left
  intro r hr
  simp only [Function.comp]
  exact classify_indent _ _ hi (hse _ (List.mem_map.2 ⟨r, hr, rfl⟩))

theorem layoutL_append (B : Nat) (a b : List LOp) : layoutL B (a ++ b) = layoutL B a ++ layoutL B b := by
  induction a with
  | nil => simp [layoutL]
  | cons x xs ih => simp [layoutL, ih, List.append_assoc]

theorem wfl_append (a b : List LOp) : WFL (a ++ b) = (WFL a && WFL b) := by
  induction a with
  | nil => simp [WFL]
  | cons x xs ih => simp [WFL, ih, Bool.and_assoc]


/-! ### blocks -/

theorem headerOf_some {h hb : String} (hh : headerOf h = some hb) : ownItems h = [.text 0 hb] := by
  unfold headerOf at hh
  split at hh
  · rename_i body heq
    simp only [Option.some.injEq] at hh
    subst hh; exact heq
  · cases hh

theorem blockLayout_inv {toks : List Val} {ind : String} {body : Option (List LOp)} {lops : List LOp}
    (hl : blockLayout toks ind body = some lops) :
    ∃ h hb b, joinToks toks = some h ∧ body = some b ∧ headerOf h = some hb ∧ IndentOk ind = true ∧
      lops = [.block hb ind.length b] := by
  unfold blockLayout at hl
  cases hj : joinToks toks with
  | none => rw [hj] at hl; cases hl
  | some h =>
    cases body with
    | none => rw [hj] at hl; cases hl
    | some b =>
      rw [hj] at hl
      simp only at hl
      cases hh : headerOf h with
      | none => rw [hh] at hl; cases hl
      | some hb =>
        rw [hh] at hl
        simp only at hl
        by_cases hi : IndentOk ind = true
        · rw [if_pos hi] at hl
          simp only [Option.some.injEq] at hl
          exact ⟨h, hb, b, rfl, rfl, hh, hi, hl.symm⟩
        · rw [if_neg hi] at hl; cases hl

theorem block_rows (indents : List String) (h hb : String) (ind : String) (b : List LOp) (bodyRows : List String)
    (hh : headerOf h = some hb) (hi : IndsOk indents)
    (hbody : bodyRows.map (classify comments) = layoutL (width (indents ++ [ind])) b) :
    (appendText indents h ++ bodyRows).map (classify comments) =
      layoutL (width indents) [.block hb ind.length b] := by
  have ho := headerOf_some hh
  have hse : ∀ i ∈ ownItems h, i ≠ .sectionEnd := by
    rw [ho]; intro i hi; simp only [List.mem_singleton] at hi; subst hi; intro hc; cases hc
  rw [List.map_append, appendText_items indents h hi hse, ho, hbody, width_snoc]
  simp [layoutL, layout, shiftItem]

theorem multiLayout_none : (blocks : List (List Val)) → multiLayout blocks none = none
  | [] => rfl
  | b :: bs => by
    rw [multiLayout, multiLayout_none bs, blockLayout]
    cases joinToks b <;> simp

theorem wfl_block {hb : String} {w : Nat} {b : List LOp} (h : WFL [.block hb w b] = true) : 0 < w ∧ WFL b = true := by
  simpa [WFL, WF] using h

theorem multi_rows : (blocks : List (List Val)) → ∀ (indents : List String) (inner lops : List LOp)
    (bodyRows : List String), multiLayout blocks (some inner) = some lops → IndsOk indents →
    bodyRows.map (classify comments) = layoutL (width (indents ++ blocks.map fun _ => "  ")) inner →
    ∃ hs, multiHeaders indents blocks = some hs ∧
      (hs ++ bodyRows).map (classify comments) = layoutL (width indents) lops
  | [], indents, inner, lops, bodyRows, hl, _, hbody => by
    simp only [multiLayout, Option.some.injEq] at hl
    subst hl
    exact ⟨[], rfl, by simpa using hbody⟩
  | b :: bs, indents, inner, lops, bodyRows, hl, hi, hbody => by
    rw [multiLayout] at hl
    obtain ⟨h, hb, rest, hj, hrest, hh, hio, rfl⟩ := blockLayout_inv hl
    have hbody' : bodyRows.map (classify comments) =
        layoutL (width ((indents ++ ["  "]) ++ bs.map fun _ => "  ")) inner := by
      simpa [List.append_assoc] using hbody
    obtain ⟨hs, hm, hrows⟩ := multi_rows bs (indents ++ ["  "]) inner rest bodyRows hrest
      (indsOk_snoc hi hio) hbody'
    refine ⟨appendText indents h ++ hs, ?_, ?_⟩
    · rw [multiHeaders, hj, hm]
    · rw [List.append_assoc]
      exact block_rows indents h hb "  " rest (hs ++ bodyRows) hh hi hrows

theorem multi_wfl : (blocks : List (List Val)) → ∀ (inner lops : List LOp),
    multiLayout blocks (some inner) = some lops → WFL lops = true → WFL inner = true
  | [], inner, lops, hl, hw => by
    simp only [multiLayout, Option.some.injEq] at hl
    subst hl; exact hw
  | b :: bs, inner, lops, hl, hw => by
    rw [multiLayout] at hl
    obtain ⟨h, hb, rest, hj, hrest, hh, hio, rfl⟩ := blockLayout_inv hl
    exact multi_wfl bs inner rest hrest (wfl_block hw).2

/-! ### whole programs -/

mutual
  theorem run_layout_op : (op : Op) → ∀ (indents : List String) (lops : List LOp), toLayout op = some lops →
      WFL lops = true → IndsOk indents →
      ∃ rows, runOp indents op = some rows ∧ rows.map (classify comments) = layoutL (width indents) lops
    | .yieldStr text, indents, lops, hl, hw, hi => by
      simp only [toLayout, Option.some.injEq] at hl
      subst hl
      have hse := ownOk_noSE (ownItems text) (by simpa [WFL, WF] using hw)
      exact ⟨appendText indents text, rfl, by rw [appendText_items indents text hi hse]; simp [layoutL, layout]⟩
    | .yieldTuple vals, indents, lops, hl, hw, hi => by
      rw [toLayout] at hl
      cases hj : joinToks (flattenList vals) with
      | none => rw [hj] at hl; cases hl
      | some t =>
        rw [hj] at hl
        simp only [Option.some.injEq] at hl
        subst hl
        have hse := ownOk_noSE (ownItems t) (by simpa [WFL, WF] using hw)
        refine ⟨appendText indents t, by rw [runOp, hj], ?_⟩
        rw [appendText_items indents t hi hse]; simp [layoutL, layout]
    | .block toks indent body, indents, lops, hl, hw, hi => by
      rw [toLayout] at hl
      obtain ⟨h, hb, b, hj, hbl, hh, hio, rfl⟩ := blockLayout_inv hl
      obtain ⟨rows, hr, hrows⟩ := run_layout_ops body (indents ++ [indent.getD "  "]) b hbl (wfl_block hw).2
        (indsOk_snoc hi hio)
      refine ⟨appendText indents h ++ rows, by rw [runOp, hj]; simp only [hr], ?_⟩
      exact block_rows indents h hb _ b rows hh hi hrows
    | .blockIf toks cond body, indents, lops, hl, hw, hi => by
      rw [toLayout] at hl
      by_cases hc : cond.getD (defaultCond toks) = true
      · rw [if_pos hc] at hl
        obtain ⟨h, hb, b, hj, hbl, hh, hio, rfl⟩ := blockLayout_inv hl
        obtain ⟨rows, hr, hrows⟩ := run_layout_ops body (indents ++ ["  "]) b hbl (wfl_block hw).2
          (indsOk_snoc hi hio)
        refine ⟨appendText indents h ++ rows, by rw [runOp, if_pos hc, hj]; simp only [hr], ?_⟩
        exact block_rows indents h hb _ b rows hh hi hrows
      · rw [if_neg hc] at hl
        obtain ⟨rows, hr, hrows⟩ := run_layout_ops body indents lops hl hw hi
        exact ⟨rows, by rw [runOp, if_neg hc]; exact hr, hrows⟩
    | .multiblock blocks body, indents, lops, hl, hw, hi => by
      rw [toLayout] at hl
      cases hb : toLayoutL body with
      | none => rw [hb, multiLayout_none] at hl; cases hl
      | some inner =>
        rw [hb] at hl
        have hio : IndsOk (indents ++ blocks.map fun _ => "  ") := by
          have : ∀ (bs : List (List Val)) (ind : List String), IndsOk ind → IndsOk (ind ++ bs.map fun _ => "  ") := by
            intro bs
            induction bs with
            | nil => intro ind h; simpa using h
            | cons x xs ih =>
              intro ind h
              have := ih (ind ++ ["  "]) (indsOk_snoc h indentOk_default)
              simpa [List.append_assoc] using this
          exact this blocks indents hi
        obtain ⟨rows, hr, hrows⟩ := run_layout_ops body _ inner hb (multi_wfl blocks inner lops hl hw) hio
        obtain ⟨hs, hm, hall⟩ := multi_rows blocks indents inner lops rows hl hi hrows
        exact ⟨hs ++ rows, by rw [runOp, hm]; simp only [hr], hall⟩
  theorem run_layout_ops : (ops : List Op) → ∀ (indents : List String) (lops : List LOp), toLayoutL ops = some lops →
      WFL lops = true → IndsOk indents →
      ∃ rows, runOps indents ops = some rows ∧ rows.map (classify comments) = layoutL (width indents) lops
    | [], indents, lops, hl, _, _ => by
      simp only [toLayoutL, Option.some.injEq] at hl
      subst hl
      exact ⟨[], rfl, rfl⟩
    | op :: rest, indents, lops, hl, hw, hi => by
      rw [toLayoutL] at hl
      cases h1 : toLayout op with
      | none => rw [h1] at hl; cases hl
      | some a =>
        cases h2 : toLayoutL rest with
        | none => rw [h1, h2] at hl; cases hl
        | some b =>
          rw [h1, h2] at hl
          simp only [Option.some.injEq] at hl
          subst hl
          rw [wfl_append, Bool.and_eq_true] at hw
          obtain ⟨r1, hr1, hrows1⟩ := run_layout_op op indents a h1 hw.1 hi
          obtain ⟨r2, hr2, hrows2⟩ := run_layout_ops rest indents b h2 hw.2 hi
          refine ⟨r1 ++ r2, by rw [runOps, hr1]; simp only [hr2], ?_⟩
          rw [List.map_append, hrows1, hrows2, layoutL_append]
end

end Annet.Gen.Lemmas
