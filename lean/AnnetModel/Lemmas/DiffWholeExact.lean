/-
Helpers for `Lemmas/DiffWhole.lean`, part 2: the invariant of the recursion (`Hyp`) and exactness of the ops at every
depth (`callDiffLogic_exact`, `markUnchanged_exactL`).

Core Lean only.
-/
import AnnetModel.Lemmas.DiffWholeBase

namespace Annet.Diff.Lemmas
open Annet Annet.Rules Annet.Diff Annet.Diff.Spec

/-! ### unfolding `ExactL` / `ExactI` -/

theorem exactL_nil (old new : Level) : ExactL old new [] := by rw [ExactL]; trivial

theorem exactL_cons (old new : Level) (i : DItem) (rest : List DItem) :
    ExactL old new (i :: rest) ↔ ExactI old new i ∧ ExactL old new rest := by rw [ExactL]

theorem exactI_mk (old new : Level) (op : Op) (row : String) (ch : List DItem) (m : PMatch) :
    ExactI old new (.mk op row ch m) ↔
      (op = .added → hasRow old row = false ∧ hasRow new row = true) ∧
      (op = .removed → hasRow old row = true ∧ hasRow new row = false) ∧
      (op ≠ .added → op ≠ .removed → hasRow old row = true ∧ hasRow new row = true) ∧
      ExactL (kidsOf old row) (kidsOf new row) ch := by rw [ExactI]

theorem exactI_iff (old new : Level) (i : DItem) :
    ExactI old new i ↔
      (i.op = .added → hasRow old i.row = false ∧ hasRow new i.row = true) ∧
      (i.op = .removed → hasRow old i.row = true ∧ hasRow new i.row = false) ∧
      (i.op ≠ .added → i.op ≠ .removed → hasRow old i.row = true ∧ hasRow new i.row = true) ∧
      ExactL (kidsOf old i.row) (kidsOf new i.row) i.children := by
  obtain ⟨op, row, ch, m⟩ := i
  exact exactI_mk ..

theorem exactL_iff (old new : Level) (d : List DItem) : ExactL old new d ↔ ∀ i ∈ d, ExactI old new i := by
  induction d with
  | nil => simp [exactL_nil]
  | cons i rest ih => simp [exactL_cons, ih]

theorem exactL_append (old new : Level) (a b : List DItem) (ha : ExactL old new a) (hb : ExactL old new b) :
    ExactL old new (a ++ b) := by
  rw [exactL_iff] at ha hb ⊢
  intro i hi
  rcases List.mem_append.1 hi with hi | hi
  · exact ha i hi
  · exact hb i hi

/-! ### relabelling AFFECTED keeps exactness -/

theorem affectedToMoved_nil : affectedToMoved [] = [] := by rw [affectedToMoved]

theorem affectedToMoved_cons (i : DItem) (rest : List DItem) :
    affectedToMoved (i :: rest) = affectedToMovedItem i :: affectedToMoved rest := by rw [affectedToMoved]

theorem affectedToMovedItem_mk (o : Op) (r : String) (ch : List DItem) (m : PMatch) :
    affectedToMovedItem (.mk o r ch m) = .mk (if o == .affected then .moved else o) r (affectedToMoved ch) m := by
  rw [affectedToMovedItem]

mutual
  theorem affectedToMoved_exactL : ∀ (d : List DItem) (old new : Level), ExactL old new d →
      ExactL old new (affectedToMoved d)
    | [], old, new, _ => by rw [affectedToMoved_nil]; exact exactL_nil _ _
    | i :: rest, old, new, h => by
      rw [exactL_cons] at h
      rw [affectedToMoved_cons, exactL_cons]
      exact ⟨affectedToMoved_exactI i old new h.1, affectedToMoved_exactL rest old new h.2⟩
  theorem affectedToMoved_exactI : ∀ (i : DItem) (old new : Level), ExactI old new i →
      ExactI old new (affectedToMovedItem i)
    | .mk o r ch m, old, new, h => by
      rw [exactI_mk] at h
      rw [affectedToMovedItem_mk, exactI_mk]
      obtain ⟨h1, h2, h3, h4⟩ := h
      have h4' := affectedToMoved_exactL ch _ _ h4
      by_cases ho : o = .affected
      · subst ho
        have := h3 (by simp) (by simp)
        simp [this, h4']
      · have : (o == Op.affected) = false := by simpa using ho
        rw [this]
        exact ⟨h1, h2, h3, h4'⟩
end

mutual
  theorem markUnchanged_exactL : ∀ (d : List DItem) (old new : Level), ExactL old new d →
      ExactL old new (markUnchanged d)
    | [], old, new, _ => by rw [markUnchanged_nil]; exact exactL_nil _ _
    | i :: rest, old, new, h => by
      rw [exactL_cons] at h
      rw [markUnchanged_cons, exactL_cons]
      exact ⟨markItem_exactI i old new h.1, markUnchanged_exactL rest old new h.2⟩
  theorem markItem_exactI : ∀ (i : DItem) (old new : Level), ExactI old new i → ExactI old new (markItem i)
    | .mk o r ch m, old, new, h => by
      rw [markItem_mk]
      by_cases ho : o = .affected
      · subst ho
        rw [exactI_mk] at h
        obtain ⟨h1, h2, h3, h4⟩ := h
        have h4' := markUnchanged_exactL ch _ _ h4
        have := h3 (by simp) (by simp)
        simp only [beq_self_eq_true, if_true]
        rw [exactI_mk]
        split <;> simp [this, h4']
      · have : (o == Op.affected) = false := by simpa using ho
        rw [this]
        exact h
end

/-! ### the invariant of the recursion -/

theorem noDupRows_iff_kids (c : ACfg) : NoDupRows c ↔ NoDupRowsL c.kids := by
  obtain ⟨ks⟩ := c
  rw [NoDupRows]; rfl

theorem noDupRowsL_nil : NoDupRowsL [] := by rw [NoDupRowsL]; trivial

theorem noDupRowsL_rows {l : Level} (h : NoDupRowsL l) : (rowsOf l).Nodup := ((noDupRowsL_iff l).1 h).1

theorem noDupRowsL_kids {l : Level} (h : NoDupRowsL l) {e : String × PMatch × ACfg} (he : e ∈ l) :
    NoDupRowsL e.2.2.kids := (noDupRows_iff_kids _).1 (((noDupRowsL_iff l).1 h).2 e he)

/-- what holds of every call `call_diff_logic(_, old, new, pops)` of a real run -/
structure Hyp (pops : List Pop) (old new : Level) : Prop where
  coh : Coh old new
  ndo : NoDupRowsL old
  ndn : NoDupRowsL new
  pa : old = [] ∨ lastOp pops ≠ .added
  pr : new = [] ∨ lastOp pops ≠ .removed

theorem Hyp.congr {p1 p2 : List Pop} {old new : Level} (H : Hyp p1 old new) (h : lastOp p2 = lastOp p1) :
    Hyp p2 old new := ⟨H.coh, H.ndo, H.ndn, h ▸ H.pa, h ▸ H.pr⟩

theorem Hyp.removed_child {pops : List Pop} {old new : Level} (H : Hyp pops old new)
    {e : String × PMatch × ACfg} (he : e ∈ old) : Hyp (pops ++ [.op .removed]) e.2.2.kids [] :=
  ⟨H.coh.kids_left he, noDupRowsL_kids H.ndo he, noDupRowsL_nil,
    Or.inr (by rw [lastOp_append_op]; simp), Or.inl rfl⟩

/-- a row present on both sides is neither ADDED nor REMOVED -/
theorem Hyp.op_ok {pops : List Pop} {old new : Level} (H : Hyp pops old new)
    {e : String × PMatch × ACfg} (he : e ∈ new) (hold : hasRow old e.1 = true) {op : Op}
    (hop : op = .moved ∨ op = lastOp pops) : op ≠ .added ∧ op ≠ .removed := by
  rcases hop with rfl | rfl
  · simp
  · constructor
    · rcases H.pa with h | h
      · rw [h, hasRow_nil] at hold; cases hold
      · exact h
    · rcases H.pr with h | h
      · rw [h] at he; cases he
      · exact h

theorem Hyp.new_child {pops : List Pop} {old new : Level} (H : Hyp pops old new)
    {e : String × PMatch × ACfg} (he : e ∈ new) {op : Op}
    (hop : (op = .added ∧ hasRow old e.1 = false) ∨ (hasRow old e.1 = true ∧ (op = .moved ∨ op = lastOp pops))) :
    Hyp (pops ++ [.op op]) (oldKids old e.1) e.2.2.kids := by
  rcases hop with ⟨h1, h2⟩ | ⟨h1, h2⟩
  · rw [oldKids_of_not_hasRow h2]
    exact ⟨H.coh.kids_right he, noDupRowsL_nil, noDupRowsL_kids H.ndn he, Or.inl rfl,
      Or.inr (by rw [lastOp_append_op, h1]; simp)⟩
  · obtain ⟨e', he', hr⟩ := mem_of_hasRow h1
    have hk : oldKids old e.1 = e'.2.2.kids := by
      rw [← hr]; exact oldKids_of_mem (noDupRowsL_rows H.ndo) he'
    rw [hk]
    have hok := H.op_ok he h1 h2
    exact ⟨(H.coh.match_eq he' he hr).2, noDupRowsL_kids H.ndo he', noDupRowsL_kids H.ndn he,
      Or.inr (by rw [lastOp_append_op]; exact hok.1), Or.inr (by rw [lastOp_append_op]; exact hok.2)⟩

/-! ### exactness -/

/-- what the induction knows about the recursive callee -/
def RecExact (rec : Rec) : Prop :=
  ∀ (pops : List Pop) (old new : Level) (d : List DItem), Hyp pops old new → rec pops old new = .ok d →
    ExactL old new d

theorem base_exact {rec : Rec} (hrec : RecExact rec) {pops : List Pop} {m2a : Bool} {old new o n : Level}
    {d : List DItem} (H : Hyp pops old new) (S : Sub o n old new)
    (h : baseDiff rec pops m2a o n = .ok d) : ExactL old new d := by
  obtain ⟨rs, ns, hp, hr, hn⟩ := baseDiff_shape h
  rw [exactL_iff]
  intro i hi
  obtain ⟨x, hx, rfl⟩ := List.mem_map.1 (hp.mem_iff.1 hi)
  rw [exactI_iff]
  rcases List.mem_append.1 hx with hx | hx
  · obtain ⟨e, he, h1, h2, h3⟩ := hr.mem_left hx
    obtain ⟨heo, hen⟩ := List.mem_filter.1 he
    have heold := S.so e heo
    have hnew : hasRow new e.1 = false := by
      rw [← S.ho e heo]; simpa using hen
    have hold : hasRow old e.1 = true := hasRow_of_mem heold
    have hch := hrec _ _ _ _ (H.removed_child heold) h3
    rw [h1, h2, kidsOf_eq_oldKids, kidsOf_eq_oldKids, oldKids_of_mem (noDupRowsL_rows H.ndo) heold,
      oldKids_of_not_hasRow hnew]
    simp [hold, hnew, hch]
  · obtain ⟨e, he, h1, h2, h3⟩ := hn.mem_left hx
    have henew := S.sn e he
    rw [S.hn e he] at h3
    rw [S.kn e he] at h2
    have hnew : hasRow new e.1 = true := hasRow_of_mem henew
    have hch := hrec _ _ _ _ (H.new_child henew h3) h2
    rw [h1, kidsOf_eq_oldKids, kidsOf_eq_oldKids, oldKids_of_mem (noDupRowsL_rows H.ndn) henew]
    refine ⟨?_, ?_, ?_, hch⟩
    · intro ha
      rcases h3 with ⟨_, hb⟩ | ⟨hb, hc⟩
      · exact ⟨hb, hnew⟩
      · exact absurd ha (H.op_ok henew hb hc).1
    · intro ha
      rcases h3 with ⟨hb, _⟩ | ⟨hb, hc⟩
      · rw [hb] at ha; cases ha
      · exact absurd ha (H.op_ok henew hb hc).2
    · intro ha _
      rcases h3 with ⟨hb, _⟩ | ⟨hb, _⟩
      · exact absurd hb ha
      · exact ⟨hb, hnew⟩

theorem runLogic_exact {rec : Rec} (hrec : RecExact rec) {pops : List Pop} {lg : String} {old new o n : Level}
    {d : List DItem} (H : Hyp pops old new) (S : Sub o n old new)
    (h : runLogic rec pops lg o n = .ok d) : ExactL old new d := by
  unfold runLogic at h
  split at h
  · exact base_exact hrec H S h
  · split at h
    · exact base_exact hrec H S h
    · split at h
      · simp only at h
        split at h
        · cases h
        · rename_i d' hd'
          have hd := base_exact hrec (H.congr (lastOp_append_rewrite pops (lastOp pops))) S hd'
          split at h
          · cases h; exact hd
          · split at h
            · cases h; exact exactL_nil _ _
            · cases h; exact affectedToMoved_exactL _ _ _ hd
      · cases h

theorem runLogics_exact {rec : Rec} (hrec : RecExact rec) {pops : List Pop} {old new : Level}
    (H : Hyp pops old new) :
    ∀ (ls : List String) (d : List DItem), runLogics rec pops old new ls = .ok d → ExactL old new d := by
  intro ls
  induction ls with
  | nil => intro d h; simp only [runLogics, Except.ok.injEq] at h; subst h; exact exactL_nil _ _
  | cons lg ls ih =>
    intro d h
    rw [runLogics] at h
    split at h
    · cases h
    · rename_i d1 hd1
      split at h
      · cases h
      · rename_i ds hds
        cases h
        exact exactL_append _ _ _ _ (runLogic_exact hrec H (sub_filter H.coh lg) hd1) (ih ds hds)

theorem callDiffLogic_exact : ∀ (fuel : Nat), RecExact (callDiffLogic fuel) := by
  intro fuel
  induction fuel with
  | zero =>
    intro pops old new d _ h
    simp only [callDiffLogic, Except.ok.injEq] at h
    subst h; exact exactL_nil _ _
  | succ fuel ih =>
    intro pops old new d H h
    rw [callDiffLogic] at h
    exact runLogics_exact ih H _ d h

end Annet.Diff.Lemmas
