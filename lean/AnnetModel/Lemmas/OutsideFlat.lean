/-
C02 clause (b), END TO END on the top level of the device (flat configurations).

`C02_outside_untouched_level` (Props/C02.lean) says: commands none of which addresses slot `s` leave the lines of `s`
alone.  Here its hypothesis on the commands is discharged, for the patch `_diff_and_patch` really builds under an ACL,
from the provenance of the patch items (`C02_device_patch_provenance`): the hypotheses are about the shown diff
(`res.diff`, the ACL-filtered diff without its unchanged entries), the rulebook and the vendor.

  `outside_flat`            the leaf items of `res.patch`, executed in order with `Device.execLeaf`, leave slot `s` alone
  `outside_top`             the same for the rows of ALL top-level items (what `Device.Abs.flatPaths` sends)
  `outside_flat_of_closed`  both, from a hypothesis on the INPUT only (`AclSlotClosed`: no line of `old` / `new` that the ACL
                            matches addresses `s`) instead of the one on the shown diff
  `outside_flat_applyCmds`  `outside_top` on the device executor of C01 (`Device.applyCmds ∘ flatPaths`), levels without
                            `%rewrite` rules

Nothing is assumed about the device level `kids` (no well-formedness, no relation to `old`).  Hypotheses:
  * `∀ e ∈ res.diff, addresses env rules e.row s = false` — no shown entry lies in slot `s`, neither as a line nor read by
    the device as the removal of one (decidable, on the diff);
  * `ReverseInSlot pv env rules` — the device reads the removal command of a (rule, key) as the removal of that slot
    (C07's round trip at the level of a whole rulebook; follows from `Converge.CmdsOK`; proved for the example rulebook);
  * `RawDetRow rules` — the raw rule text determines the rule row (rulebooks are dicts keyed by the raw text; `make_pre`
    takes the parameters of the first entry of a raw rule);
  * `NoForceCommit rules ∨ addresses env rules "commit" s = false` — the `commit` pseudo command is never sent, or does
    not address `s`.

Non-vacuity: `Example` (rules `user *` and `ntp *`, ACL `user *`, the line `ntp 1.1.1.1` stays although the new
configuration does not hold it).
-/
import AnnetModel.Lemmas.OutsideFlatBase
import AnnetModel.Lemmas.ConvergeNestedExample

namespace Annet.AclDiff.OutsideFlat
open Annet Annet.Rules Annet.Diff Annet.Device Annet.Device.Abs
open Annet.Converge.Example (classify_match)

/-! ### vocabulary -/

/-- the leaf commands a patch sends at its top level, in order -/
def leafCmds (p : Patch.PTree) : List String :=
  p.items.filterMap fun it =>
    match it.2.1 with
    | none => some it.1
    | some _ => none

/-- the rows of all the top-level items of a patch, in order (`Device.Abs.flatPaths`, as words) -/
def topCmds (p : Patch.PTree) : List String := p.items.map (·.1)

/-- the row `c`, sent as a command, addresses slot `s`: it is a line of the slot, or the device reads it as the removal
of the line of the slot.  (The second case is needed: with the negation word `no`, the configuration line `no shutdown`
of a rule `no shutdown` is read by the device as the removal of the slot of `shutdown`.) -/
def addresses (env : Env) (rules : PRules) (c : String) (s : Slot) : Bool :=
  slotOf rules c == some s || (stripReverse env c).bind (slotOf rules) == some s

/-- the device reads the removal command of a (rule, key) — the rule's reverse template filled with the key — as the
removal of that slot: stripped of the negation word it is a row of the same rule with the same key -/
def ReverseInSlot (pv : Vendor) (env : Env) (rules : PRules) : Prop :=
  ∀ row m cr, classify rules row = some (m, cr) → ∀ c, Patch.reverseCmd pv m.attrs m.key = some c →
    ∃ r', stripReverse env c = some r' ∧ slotOf rules r' = some (m.rawRule, m.key)

/-- the raw rule text determines the rule's row (a compiled rulebook is a dict keyed by the raw rule text) -/
def RawDetRow (rules : PRules) : Prop :=
  ∀ r ∈ rules.loc ++ rules.glob, ∀ r' ∈ rules.loc ++ rules.glob, r.rawRule = r'.rawRule → r.attrs.row = r'.attrs.row

/-- no `%force_commit` rule at this level -/
def NoForceCommit (rules : PRules) : Prop := ∀ r ∈ rules.loc ++ rules.glob, r.attrs.forceCommit = false

instance (rules : PRules) : Decidable (RawDetRow rules) := by unfold RawDetRow; infer_instance
instance (rules : PRules) : Decidable (NoForceCommit rules) := by unfold NoForceCommit; infer_instance

/-- `ReverseInSlot` is part of the hypothesis `CmdsOK` of the convergence theorems (C01) -/
theorem reverseInSlot_of_cmdsOK {pv : Vendor} {env : Env} {rules : PRules} (h : Converge.CmdsOK pv env rules) :
    ReverseInSlot pv env rules :=
  fun row m cr hcl c hc => (h.removal row m cr hcl c hc).2

theorem addresses_false {env : Env} {rules : PRules} {c : String} {s : Slot} (h : addresses env rules c s = false) :
    slotOf rules c ≠ some s ∧ ∀ r', stripReverse env c = some r' → slotOf rules r' ≠ some s := by
  unfold addresses at h
  rw [Bool.or_eq_false_iff, beq_eq_false_iff_ne, beq_eq_false_iff_ne] at h
  refine ⟨h.1, fun r' hr' hs => h.2 ?_⟩
  rw [hr', Option.bind_some, hs]

/-! ### one patch item -/

/-- a command that does not address `s` leaves the lines of `s` alone -/
theorem execLeaf_not_addressed (env : Env) (rules : PRules) (c : String) (s : Slot)
    (h : addresses env rules c s = false) (kids : List (String × Cfg)) :
    (execLeaf env rules c kids).filter (fun e => slotOf rules e.1 == some s) =
      kids.filter (fun e => slotOf rules e.1 == some s) :=
  Lemmas.leaf_preserves_others' env rules c kids s (addresses_false h).1 (addresses_false h).2

/-- the attributes of a classified row are those of a rule of the rulebook with the same raw text -/
theorem attrs_of_classify {rules : PRules} {row : String} {m : PMatch} {cr : PRules}
    (h : classify rules row = some (m, cr)) :
    ∃ f ∈ rules.loc ++ rules.glob, m.rawRule = f.rawRule ∧ m.attrs = f.attrs := by
  obtain ⟨f, hf, h1, h2, _⟩ := classify_match h
  exact ⟨f, List.mem_append.2 hf, h1, h2⟩

/-- an item that stems from the diff `d` leaves slot `s` alone, if no changed entry of `d` addresses `s` -/
theorem item_untouched {pv : Vendor} {env : Env} {rules : PRules} {d : List DItem} {s : Slot}
    (hcl : Classified rules d) (hrev : ReverseInSlot pv env rules) (hraw : RawDetRow rules)
    (hcommit : NoForceCommit rules ∨ addresses env rules "commit" s = false)
    (hs : ∀ e ∈ d, e.op ≠ .unchanged → addresses env rules e.row s = false)
    (it : String × Option Patch.PTree × Patch.SortKey) (hit : Patch.ProvI pv d it) (kids : List (String × Cfg)) :
    (execLeaf env rules it.1 kids).filter (fun e => slotOf rules e.1 == some s) =
      kids.filter (fun e => slotOf rules e.1 == some s) := by
  cases hit with
  | leaf he hop => exact execLeaf_not_addressed env rules _ s (hs _ he hop) kids
  | block he hop _ => exact execLeaf_not_addressed env rules _ s (hs _ he hop) kids
  | @reverse _ e e' row k he hop he' hrr hrc =>
    obtain ⟨cr, hce⟩ := hcl e he
    obtain ⟨cr', hce'⟩ := hcl e' he'
    obtain ⟨f, hf, hf1, hf2⟩ := attrs_of_classify hce
    obtain ⟨f', hf', hf1', hf2'⟩ := attrs_of_classify hce'
    have hrow : e'.m.attrs.row = e.m.attrs.row := by
      rw [hf2, hf2']
      exact hraw f' hf' f hf (by rw [← hf1, ← hf1', hrr])
    rw [reverseCmd_congr pv _ _ _ hrow] at hrc
    obtain ⟨r', hr', hsl⟩ := hrev e.row e.m cr hce row hrc
    have hne : e.op ≠ .unchanged := by
      rcases hop with h | h <;> rw [h] <;> exact fun h => nomatch h
    have hes := (addresses_false (hs e he hne)).1
    rw [Device.Lemmas.slotOf_of_classify hce] at hes
    exact execLeaf_removal_other env rules row r' kids s _ hr' hsl (fun h => hes (by rw [h]))
  | @commit _ e' k he' hfc =>
    rcases hcommit with hno | hc
    · obtain ⟨cr', hce'⟩ := hcl e' he'
      obtain ⟨f', hf', _, hf2'⟩ := attrs_of_classify hce'
      rw [hf2', hno f' hf'] at hfc
      cases hfc
    · exact execLeaf_not_addressed env rules _ s hc kids

/-! ### the theorems -/

theorem provT_items {pv : Vendor} {d : List DItem} {p : Patch.PTree} (h : Patch.ProvT pv d p) :
    ∀ it ∈ p.items, Patch.ProvI pv d it := by
  obtain ⟨items⟩ := p
  exact Patch.Prov.provT_iff.1 h

/-- **C02 (b), end to end, all top-level items.**  If `_diff_and_patch` under the ACL succeeds and no entry of the shown
diff addresses slot `s`, then the rows of the top-level items of the patch, executed in order on ANY device level, leave
the lines of slot `s` as they were (text, subtree, relative order). -/
theorem outside_top (pv : Vendor) (av : Acl.Vendor) (acl : Acl.Rules) (rules : PRules) (ordering : List ORule)
    (old new : Cfg) (res : Api.Result) (env : Env) (s : Slot)
    (h : deviceModeAcl Patch.runLogic pv av acl rules ordering old new = .ok res)
    (hrev : ReverseInSlot pv env rules) (hraw : RawDetRow rules)
    (hcommit : NoForceCommit rules ∨ addresses env rules "commit" s = false)
    (hs : ∀ e ∈ res.diff, addresses env rules e.row s = false)
    (kids : List (String × Cfg)) :
    ((topCmds res.patch).foldl (fun k c => execLeaf env rules c k) kids).filter
        (fun e => slotOf rules e.1 == some s) =
      kids.filter (fun e => slotOf rules e.1 == some s) := by
  obtain ⟨d, hdiff, hcl, hprov⟩ := deviceModeAcl_inv h
  have hs' : ∀ e ∈ d, e.op ≠ .unchanged → addresses env rules e.row s = false := by
    intro e he hop
    obtain ⟨e', he', hrow, _, _⟩ := mem_stripUnchanged d e he hop
    rw [← hrow]
    exact hs e' (by rw [hdiff]; exact he')
  have hall := provT_items hprov
  apply foldl_untouched
  intro c hc kids'
  obtain ⟨it, hit, rfl⟩ := List.mem_map.1 hc
  exact item_untouched hcl hrev hraw hcommit hs' it (hall it hit) kids'

/-- **C02 (b), end to end, flat patches.**  The same for the leaf items of the patch. -/
theorem outside_flat (pv : Vendor) (av : Acl.Vendor) (acl : Acl.Rules) (rules : PRules) (ordering : List ORule)
    (old new : Cfg) (res : Api.Result) (env : Env) (s : Slot)
    (h : deviceModeAcl Patch.runLogic pv av acl rules ordering old new = .ok res)
    (hrev : ReverseInSlot pv env rules) (hraw : RawDetRow rules)
    (hcommit : NoForceCommit rules ∨ addresses env rules "commit" s = false)
    (hs : ∀ e ∈ res.diff, addresses env rules e.row s = false)
    (kids : List (String × Cfg)) :
    ((leafCmds res.patch).foldl (fun k c => execLeaf env rules c k) kids).filter
        (fun e => slotOf rules e.1 == some s) =
      kids.filter (fun e => slotOf rules e.1 == some s) := by
  obtain ⟨d, hdiff, hcl, hprov⟩ := deviceModeAcl_inv h
  have hs' : ∀ e ∈ d, e.op ≠ .unchanged → addresses env rules e.row s = false := by
    intro e he hop
    obtain ⟨e', he', hrow, _, _⟩ := mem_stripUnchanged d e he hop
    rw [← hrow]
    exact hs e' (by rw [hdiff]; exact he')
  have hall := provT_items hprov
  apply foldl_untouched
  intro c hc kids'
  obtain ⟨it, hit, hcit⟩ := List.mem_filterMap.1 hc
  have : c = it.1 := by
    split at hcit
    · exact (Option.some.inj hcit).symm
    · cases hcit
  subst this
  exact item_untouched hcl hrev hraw hcommit hs' it (hall it hit) kids'

/-- the hypothesis `hother` of `C02_outside_untouched_level`, for the direct (non-removal) commands of the patch, read
off the diff: a leaf or block item whose row is not the removal command of a rule satisfies it.  (For removal commands
`hother` asks more than the device needs — that the command text, taken as a configuration line, is not in `s` — which is
why `item_untouched` goes through `execLeaf_removal_other` instead.) -/
theorem hother_of_diff {env : Env} {rules : PRules} {c : String} {s : Slot} (h : addresses env rules c s = false) :
    slotOf rules c ≠ some s ∧ ∀ r', stripReverse env c = some r' → slotOf rules r' ≠ some s :=
  addresses_false h

/-- the ACL is closed on slot `s`: no top-level line of the two configurations that the ACL matches addresses `s`
(a hypothesis on the INPUT only: the two configurations, the ACL, the rulebook, the negation word; decidable) -/
def AclSlotClosed (av : Acl.Vendor) (acl : Acl.Rules) (env : Env) (rules : PRules) (old new : Cfg) (s : Slot) : Prop :=
  ∀ e ∈ old.kids ++ new.kids, aclCovers av acl e.1 = true → addresses env rules e.1 s = false

instance (av : Acl.Vendor) (acl : Acl.Rules) (env : Env) (rules : PRules) (old new : Cfg) (s : Slot) :
    Decidable (AclSlotClosed av acl env rules old new s) := by unfold AclSlotClosed; infer_instance

/-- the hypothesis of `outside_flat` on the shown diff follows from the one on the input -/
theorem diff_outside_of_closed {lg : Patch.LogicFn} {pv : Vendor} {av : Acl.Vendor} {acl : Acl.Rules} {rules : PRules}
    {ordering : List ORule} {old new : Cfg} {res : Api.Result} {env : Env} {s : Slot}
    (h : deviceModeAcl lg pv av acl rules ordering old new = .ok res)
    (hc : AclSlotClosed av acl env rules old new s) : ∀ e ∈ res.diff, addresses env rules e.row s = false := by
  intro e he
  obtain ⟨hcov, hrow⟩ := deviceModeAcl_diff_rows h e he
  have : ∃ x ∈ old.kids ++ new.kids, x.1 = e.row := by
    rcases hrow with hr | hr
    · obtain ⟨x, hx, hxe⟩ := List.any_eq_true.1 hr
      exact ⟨x, List.mem_append_left _ hx, beq_iff_eq.1 hxe⟩
    · obtain ⟨x, hx, hxe⟩ := List.any_eq_true.1 hr
      exact ⟨x, List.mem_append_right _ hx, beq_iff_eq.1 hxe⟩
  obtain ⟨x, hx, hxe⟩ := this
  rw [← hxe]
  exact hc x hx (by rw [hxe]; exact hcov)

/-- **C02 (b), end to end, hypotheses on the input only.**  If no top-level line of `old` or `new` that the ACL matches
addresses slot `s`, the patch `_diff_and_patch` builds under the ACL leaves the lines of `s` alone on any device level. -/
theorem outside_flat_of_closed (pv : Vendor) (av : Acl.Vendor) (acl : Acl.Rules) (rules : PRules)
    (ordering : List ORule) (old new : Cfg) (res : Api.Result) (env : Env) (s : Slot)
    (h : deviceModeAcl Patch.runLogic pv av acl rules ordering old new = .ok res)
    (hrev : ReverseInSlot pv env rules) (hraw : RawDetRow rules)
    (hcommit : NoForceCommit rules ∨ addresses env rules "commit" s = false)
    (hc : AclSlotClosed av acl env rules old new s)
    (kids : List (String × Cfg)) :
    ((leafCmds res.patch).foldl (fun k c => execLeaf env rules c k) kids).filter
        (fun e => slotOf rules e.1 == some s) =
      kids.filter (fun e => slotOf rules e.1 == some s) ∧
    ((topCmds res.patch).foldl (fun k c => execLeaf env rules c k) kids).filter
        (fun e => slotOf rules e.1 == some s) =
      kids.filter (fun e => slotOf rules e.1 == some s) :=
  ⟨outside_flat pv av acl rules ordering old new res env s h hrev hraw hcommit (diff_outside_of_closed h hc) kids,
   outside_top pv av acl rules ordering old new res env s h hrev hraw hcommit (diff_outside_of_closed h hc) kids⟩

/-! ### the device executor of C01 (`Device.applyCmds` on `flatPaths`) -/

/-- no `%rewrite` rule at this level (the device drops the lines such rules own when it first sees one of their
commands, whatever their slot) -/
def NoRewrite (rules : PRules) : Prop := ∀ r ∈ rules.loc ++ rules.glob, r.attrs.logic ≠ "common.rewrite"

instance (rules : PRules) : Decidable (NoRewrite rules) := by unfold NoRewrite; infer_instance

theorem isRewriteCmd_false {rules : PRules} (h : NoRewrite rules) (c : String) : isRewriteCmd rules c = false := by
  unfold isRewriteCmd
  split
  · rename_i m cr hcl
    obtain ⟨f, hf, _, hf2⟩ := attrs_of_classify hcl
    rw [hf2, beq_eq_false_iff_ne]
    exact h f hf
  · rfl

/-- without `%rewrite` rules, `Device.applyCmds` on the single-word paths of a patch is the fold of `Device.execLeaf` -/
theorem applyCmds_flatPaths (env : Env) (rules : PRules) (h : NoRewrite rules) (p : Patch.PTree) (dev : Cfg) :
    applyCmds env rules (flatPaths p) dev = .mk ((topCmds p).foldl (fun k c => execLeaf env rules c k) dev.kids) := by
  unfold applyCmds flatPaths topCmds
  congr 1
  generalize p.items = items
  generalize dev.kids = kids
  induction items generalizing kids with
  | nil => rfl
  | cons it rest ih =>
    simp only [List.map_cons, List.foldl_cons, execPath, isRewriteCmd_false h, Bool.false_and, Bool.false_eq_true,
      if_false]
    exact ih _

/-- **C02 (b), end to end, on the device executor of C01.**  On a level without `%rewrite` rules, the patch
`_diff_and_patch` builds under the ACL, sent as single-word paths to the device `dev`, leaves the lines of slot `s`
alone. -/
theorem outside_flat_applyCmds (pv : Vendor) (av : Acl.Vendor) (acl : Acl.Rules) (rules : PRules)
    (ordering : List ORule) (old new : Cfg) (res : Api.Result) (env : Env) (s : Slot)
    (h : deviceModeAcl Patch.runLogic pv av acl rules ordering old new = .ok res)
    (hrev : ReverseInSlot pv env rules) (hraw : RawDetRow rules) (hrw : NoRewrite rules)
    (hcommit : NoForceCommit rules ∨ addresses env rules "commit" s = false)
    (hs : ∀ e ∈ res.diff, addresses env rules e.row s = false) (dev : Cfg) :
    (applyCmds env rules (flatPaths res.patch) dev).kids.filter (fun e => slotOf rules e.1 == some s) =
      dev.kids.filter (fun e => slotOf rules e.1 == some s) := by
  rw [applyCmds_flatPaths env rules hrw]
  exact outside_top pv av acl rules ordering old new res env s h hrev hraw hcommit hs dev.kids

/-! ### non-vacuity: two rules, an ACL covering one of them, an uncovered line that stays -/

namespace Example
open Annet.Pattern
open Annet.Converge.Example (isOk)
open Annet.ConvergeNested.Example (litstar_match star_removal IsWord pm_eq)

def v : Vendor := { reverse := "undo", exit := "quit" }
def av : Acl.Vendor := { reverse := "undo" }
def env : Env := { reverse := "undo", exits := ["quit"] }

def mkAttrs (row : String) : PAttrs :=
  { row := row, logic := "common.default", diffLogic := "common.default_diff", parent := false, forceCommit := false }

def userRule : PRule := .mk "user *" false (mkAttrs "user *") (some ([], []))
def ntpRule : PRule := .mk "ntp *" false (mkAttrs "ntp *") (some ([], []))

/-- the rulebook: `user *` and `ntp *` -/
def rules : PRules := ⟨[userRule, ntpRule], []⟩

/-- the ACL of the generators: `user *` only -/
def acl : Acl.Rules := Acl.compileAcl [[.mk "user *" false false [false] 0 ["gen"] []]]

def old : Cfg := .mk [("user alice", .mk []), ("ntp 1.1.1.1", .mk [])]
def new : Cfg := .mk [("user bob", .mk []), ("ntp 2.2.2.2", .mk [])]

/-- the slot of the uncovered line `ntp 1.1.1.1` -/
def s : Slot := ("ntp *", ["1.1.1.1"])

/-- what `_diff_and_patch` computes: the patch is `undo user alice`, `user bob` (`#eval leafCmds exRes.patch`) -/
def exRes : Api.Result :=
  match deviceModeAcl Patch.runLogic v av acl rules [] old new with
  | .ok r => r
  | .error _ => ⟨[], .mk []⟩

theorem res_ok : deviceModeAcl Patch.runLogic v av acl rules [] old new = .ok exRes := by
  have h : isOk (deviceModeAcl Patch.runLogic v av acl rules [] old new) = true := by decide +kernel
  unfold exRes
  cases hr : deviceModeAcl Patch.runLogic v av acl rules [] old new with
  | ok r => rfl
  | error e => rw [hr] at h; cases h

/-- the patch is not trivial: two leaf commands, one of them a removal -/
theorem patch_rows : (leafCmds exRes.patch).length = 2 ∧ (topCmds exRes.patch).length = 2 ∧ exRes.diff.length = 2 := by
  decide +kernel

theorem rawDetRow : RawDetRow rules := by decide
theorem noForceCommit : NoForceCommit rules := by decide

/-- no shown entry addresses the slot of `ntp 1.1.1.1` -/
theorem diff_outside : ∀ e ∈ exRes.diff, addresses env rules e.row s = false := by
  have h : (exRes.diff.all fun e => !addresses env rules e.row s) = true := by decide +kernel
  intro e he
  have := List.all_eq_true.1 h e he
  simpa using this

theorem classify_cases {row : String} {m : PMatch} {cr : PRules} (h : classify rules row = some (m, cr)) :
    (∃ kw, IsWord kw ∧ m = ⟨"user *", [String.ofList kw], mkAttrs "user *"⟩) ∨
    (∃ kw, IsWord kw ∧ m = ⟨"ntp *", [String.ofList kw], mkAttrs "ntp *"⟩) := by
  obtain ⟨f, hf, h1, h2, pat, k, h3, h4, h5⟩ := classify_match h
  rcases hf with hf | hf
  · simp only [rules, List.mem_cons, List.not_mem_nil, or_false] at hf
    rcases hf with rfl | rfl
    · have hp : parseRow false userRule.attrs.row.toList = some ⟨[.lit ('u' :: "ser".toList), .star], false, false⟩ := by
        decide
      rw [hp] at h3
      cases h3
      obtain ⟨-, kw, rfl, hkw⟩ := litstar_match h4
      exact Or.inl ⟨kw, hkw, pm_eq h1 h2 h5⟩
    · have hp : parseRow false ntpRule.attrs.row.toList = some ⟨[.lit ('n' :: "tp".toList), .star], false, false⟩ := by
        decide
      rw [hp] at h3
      cases h3
      obtain ⟨-, kw, rfl, hkw⟩ := litstar_match h4
      exact Or.inr ⟨kw, hkw, pm_eq h1 h2 h5⟩
  · cases hf

theorem rules_ok : ∀ r ∈ rules.loc, (parseRow false r.attrs.row.toList).isSome ∧ r.ignore = false := by
  intro r hr
  simp only [rules, List.mem_cons, List.not_mem_nil, or_false] at hr
  rcases hr with rfl | rfl <;> exact ⟨by decide, rfl⟩

/-- the removal commands `undo user <name>` and `undo ntp <address>` (the default reverse template: negation word and the
row of the rule with its key) are read by the device as the removal of the slot of that rule and key -/
theorem reverseInSlot : ReverseInSlot v env rules := by
  intro row m cr hcl c hrev
  rcases classify_cases hcl with ⟨kw, hkw, rfl⟩ | ⟨kw, hkw, rfl⟩
  · obtain ⟨e1, e2, e3⟩ := star_removal (v := v) (env := env) (rules := rules) (f := userRule)
      (w := "user".toList) (kw := kw) rfl (by decide) rfl rules_ok (by simp [rules])
      (by decide) (by decide) (by decide)
      (by
        intro f' hf' pat k h3 h4
        simp only [rules, List.mem_cons, List.not_mem_nil, or_false] at hf'
        have hs : "user".toList = 'u' :: "ser".toList := by decide
        rcases hf' with rfl | rfl
        · rfl
        · have hp : parseRow false ntpRule.attrs.row.toList =
              some ⟨[.lit ('n' :: "tp".toList), .star], false, false⟩ := by decide
          rw [hp] at h3; cases h3
          obtain ⟨⟨rest, hr⟩, -⟩ := litstar_match h4
          rw [hs] at hr
          exact absurd (List.cons.inj hr).1 (by decide))
      hkw
    have e1' : Patch.reverseCmd v (mkAttrs "user *") [String.ofList kw] = _ := e1
    simp only at hrev
    rw [e1'] at hrev
    cases hrev
    exact ⟨_, e2, e3⟩
  · obtain ⟨e1, e2, e3⟩ := star_removal (v := v) (env := env) (rules := rules) (f := ntpRule)
      (w := "ntp".toList) (kw := kw) rfl (by decide) rfl rules_ok (by simp [rules])
      (by decide) (by decide) (by decide)
      (by
        intro f' hf' pat k h3 h4
        simp only [rules, List.mem_cons, List.not_mem_nil, or_false] at hf'
        have hs : "ntp".toList = 'n' :: "tp".toList := by decide
        rcases hf' with rfl | rfl
        · have hp : parseRow false userRule.attrs.row.toList =
              some ⟨[.lit ('u' :: "ser".toList), .star], false, false⟩ := by decide
          rw [hp] at h3; cases h3
          obtain ⟨⟨rest, hr⟩, -⟩ := litstar_match h4
          rw [hs] at hr
          exact absurd (List.cons.inj hr).1 (by decide)
        · rfl)
      hkw
    have e1' : Patch.reverseCmd v (mkAttrs "ntp *") [String.ofList kw] = _ := e1
    simp only at hrev
    rw [e1'] at hrev
    cases hrev
    exact ⟨_, e2, e3⟩

/-- the device holds `ntp 1.1.1.1` in slot `s`, and the new configuration does not hold it -/
theorem line_in_slot : (old.kids.filter fun e => slotOf rules e.1 == some s).map (·.1) = ["ntp 1.1.1.1"] ∧
    (new.kids.filter fun e => slotOf rules e.1 == some s) = [] := by
  decide +kernel

/-- the instance of `outside_flat`: the patch computed under the ACL `user *`, executed on the device holding `old`,
leaves the line `ntp 1.1.1.1` where it was — although the new configuration does not hold it -/
theorem outside_flat_instance :
    ∃ res, deviceModeAcl Patch.runLogic v av acl rules [] old new = .ok res ∧
      (((leafCmds res.patch).foldl (fun k c => execLeaf env rules c k) old.kids).filter
        (fun e => slotOf rules e.1 == some s)).map (·.1) = ["ntp 1.1.1.1"] := by
  refine ⟨exRes, res_ok, ?_⟩
  rw [outside_flat v av acl rules [] old new exRes env s res_ok reverseInSlot rawDetRow (.inl noForceCommit)
    diff_outside old.kids]
  exact line_in_slot.1

/-- the input-only hypothesis holds too: the ACL `user *` matches `user alice` and `user bob` only -/
theorem aclSlotClosed : AclSlotClosed av acl env rules old new s := by decide +kernel

/-- … and is not vacuous: the ACL matches lines of both configurations -/
example : ((old.kids ++ new.kids).filter (fun e => aclCovers av acl e.1)).map (·.1) =
    ["user alice", "user bob"] := by decide +kernel

/-- without the ACL's restriction the hypothesis fails, as it must (`ntp 1.1.1.1` is removed then): for the ACL
`user *` + `ntp *` the input is not closed on `s` -/
example : ¬ AclSlotClosed av (Acl.compileAcl [[.mk "user *" false false [false] 0 ["gen"] [],
    .mk "ntp *" false false [false] 0 ["gen"] []]]) env rules old new s := by decide +kernel

theorem outside_flat_of_closed_instance (res : Api.Result)
    (h : deviceModeAcl Patch.runLogic v av acl rules [] old new = .ok res) (kids : List (String × Cfg)) :
    ((leafCmds res.patch).foldl (fun k c => execLeaf env rules c k) kids).filter
        (fun e => slotOf rules e.1 == some s) = kids.filter (fun e => slotOf rules e.1 == some s) :=
  (outside_flat_of_closed v av acl rules [] old new res env s h reverseInSlot rawDetRow (.inl noForceCommit)
    aclSlotClosed kids).1

theorem noRewrite : NoRewrite rules := by decide

/-- the instance on the device executor of C01: the device holding `old` keeps `ntp 1.1.1.1` -/
theorem outside_flat_applyCmds_instance (res : Api.Result)
    (h : deviceModeAcl Patch.runLogic v av acl rules [] old new = .ok res) :
    ((applyCmds env rules (flatPaths res.patch) old).kids.filter (fun e => slotOf rules e.1 == some s)).map (·.1) =
      ["ntp 1.1.1.1"] := by
  rw [outside_flat_applyCmds v av acl rules [] old new res env s h reverseInSlot rawDetRow noRewrite
    (.inl noForceCommit) (diff_outside_of_closed h aclSlotClosed) old]
  exact line_in_slot.1

/-- cross-check by evaluation: the whole device after the patch -/
example : ((leafCmds exRes.patch).foldl (fun k c => execLeaf env rules c k) old.kids).map (·.1) =
    ["ntp 1.1.1.1", "user bob"] := by decide +kernel

/-- why `addresses` has its second clause: with the negation word `no` and the rules `no shutdown`, `shutdown`, the
configuration line `no shutdown` is not in the slot of `shutdown`, yet the device reads it as the removal of that slot -/
example :
    let env : Env := { reverse := "no", exits := [] }
    let rules : PRules := ⟨[.mk "no shutdown" false (mkAttrs "no shutdown") (some ([], [])),
      .mk "shutdown" false (mkAttrs "shutdown") (some ([], []))], []⟩
    slotOf rules "no shutdown" ≠ some ("shutdown", []) ∧ addresses env rules "no shutdown" ("shutdown", []) = true ∧
    ((execLeaf env rules "no shutdown" [("shutdown", .mk [])]).filter
      (fun e => slotOf rules e.1 == some ("shutdown", []))).map (·.1) = [] := by
  decide +kernel

end Example

end Annet.AclDiff.OutsideFlat
