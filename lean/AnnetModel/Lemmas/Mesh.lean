/-
Helper lemmas for C15, part A: the merge algebra (`Model/Mesh.lean`).
-/
import AnnetModel.Model.Mesh

namespace Annet.Mesh

/-! ### Relations on results -/

/-- Both fail, or both succeed with related values (which error is raised is not compared:
every `MergeForbiddenError` becomes the same `ValueError` in the executor). -/
def RE {ε α : Type} (R : α → α → Prop) : Except ε α → Except ε α → Prop
  | .ok a, .ok b => R a b
  | .error _, .error _ => True
  | _, _ => False

def OptRel {α : Type} (R : α → α → Prop) : Option α → Option α → Prop
  | none, none => True
  | some a, some b => R a b
  | _, _ => False

@[simp] theorem RE_ok_ok {ε α : Type} {R : α → α → Prop} {a b : α} :
    RE R (.ok a : Except ε α) (.ok b) ↔ R a b := Iff.rfl
@[simp] theorem RE_err_err {ε α : Type} {R : α → α → Prop} {e f : ε} :
    RE R (.error e : Except ε α) (.error f) ↔ True := Iff.rfl
@[simp] theorem RE_ok_err {ε α : Type} {R : α → α → Prop} {a : α} {f : ε} :
    RE R (.ok a) (.error f) ↔ False := Iff.rfl
@[simp] theorem RE_err_ok {ε α : Type} {R : α → α → Prop} {e : ε} {b : α} :
    RE R (.error e) (.ok b) ↔ False := Iff.rfl
@[simp] theorem OptRel_some_some {α : Type} {R : α → α → Prop} {a b : α} : OptRel R (some a) (some b) ↔ R a b := Iff.rfl
@[simp] theorem OptRel_none_none {α : Type} {R : α → α → Prop} : OptRel R (none : Option α) none ↔ True := Iff.rfl
@[simp] theorem OptRel_some_none {α : Type} {R : α → α → Prop} {a : α} : OptRel R (some a) none ↔ False := Iff.rfl
@[simp] theorem OptRel_none_some {α : Type} {R : α → α → Prop} {b : α} : OptRel R none (some b) ↔ False := Iff.rfl

@[simp] theorem ok_bind {ε α β : Type} (a : α) (f : α → Except ε β) : (Except.ok a >>= f) = f a := rfl
@[simp] theorem error_bind {ε α β : Type} (e : ε) (f : α → Except ε β) :
    ((Except.error e : Except ε α) >>= f) = .error e := rfl
@[simp] theorem map_ok {ε α β : Type} (a : α) (f : α → β) : (Except.ok a : Except ε α).map f = .ok (f a) := rfl
@[simp] theorem map_error {ε α β : Type} (e : ε) (f : α → β) :
    (Except.error e : Except ε α).map f = .error e := rfl

theorem RE.refl {ε α : Type} {R : α → α → Prop} (h : ∀ a, R a a) (r : Except ε α) : RE R r r := by
  cases r <;> simp [h]

theorem RE.symm {ε α : Type} {R : α → α → Prop} (h : ∀ a b, R a b → R b a) {r s : Except ε α}
    (hrs : RE R r s) : RE R s r := by
  cases r <;> cases s <;> simp at hrs ⊢
  exact h _ _ hrs

theorem RE.trans {ε α : Type} {R : α → α → Prop} (h : ∀ a b c, R a b → R b c → R a c)
    {r s t : Except ε α} (h1 : RE R r s) (h2 : RE R s t) : RE R r t := by
  cases r <;> cases s <;> cases t <;> simp at h1 h2 ⊢
  exact h _ _ _ h1 h2

theorem RE.mono {ε α : Type} {R S : α → α → Prop} (h : ∀ a b, R a b → S a b) {r s : Except ε α}
    (hrs : RE R r s) : RE S r s := by
  cases r <;> cases s <;> simp at hrs ⊢
  exact h _ _ hrs

theorem RE.of_eq {ε α : Type} {R : α → α → Prop} (h : ∀ a, R a a) {r s : Except ε α}
    (hrs : r = s) : RE R r s := hrs ▸ RE.refl h r

/-- Bind is monotone for `RE`. -/
theorem RE.bind {ε α β : Type} {R : α → α → Prop} {S : β → β → Prop}
    {r s : Except ε α} {f g : α → Except ε β}
    (hrs : RE R r s) (hfg : ∀ a b, R a b → RE S (f a) (g b)) : RE S (r >>= f) (s >>= g) := by
  cases r <;> cases s <;> simp at hrs ⊢
  exact hfg _ _ hrs

/-- `RE.bind` where the continuation is only compared on the values actually produced -/
theorem RE.bind' {ε α β : Type} {R : α → α → Prop} {S : β → β → Prop}
    {r s : Except ε α} {f g : α → Except ε β}
    (hrs : RE R r s) (hfg : ∀ a b, r = .ok a → s = .ok b → R a b → RE S (f a) (g b)) :
    RE S (r >>= f) (s >>= g) := by
  cases r <;> cases s <;> simp at hrs ⊢
  exact hfg _ _ rfl rfl hrs

theorem RE.map {ε α β : Type} {R : α → α → Prop} {S : β → β → Prop}
    {r s : Except ε α} {f g : α → β}
    (hrs : RE R r s) (hfg : ∀ a b, R a b → S (f a) (g b)) : RE S (r.map f) (s.map g) := by
  cases r <;> cases s <;> simp at hrs ⊢
  exact hfg _ _ hrs

theorem OptRel.refl {α : Type} {R : α → α → Prop} (h : ∀ a, R a a) (o : Option α) : OptRel R o o := by
  cases o <;> simp [h]

theorem OptRel.symm {α : Type} {R : α → α → Prop} (h : ∀ a b, R a b → R b a) {o p : Option α}
    (hop : OptRel R o p) : OptRel R p o := by
  cases o <;> cases p <;> simp at hop ⊢
  exact h _ _ hop

theorem OptRel.trans {α : Type} {R : α → α → Prop} (h : ∀ a b c, R a b → R b c → R a c)
    {o p q : Option α} (h1 : OptRel R o p) (h2 : OptRel R p q) : OptRel R o q := by
  cases o <;> cases p <;> cases q <;> simp at h1 h2 ⊢
  exact h _ _ _ h1 h2

/-! ### Equivalence of values "up to what a merger cannot distinguish"

`Equiv m x y`: equal, except that Python sets are compared as sets, and a `Concat` field is
compared up to the order of its elements (recursively through `Merge()` fields). -/

/-- Python `==` on the leaf shapes, as a relation (sets are sets). -/
def leafEqv : Val → Val → Prop
  | .set a, .set b => ∀ s, s ∈ a ↔ s ∈ b
  | x, y => x = y

/-- equality up to the order of a concatenated tuple -/
def seqPermEqv : Val → Val → Prop
  | .seq a, .seq b => a.Perm b
  | x, y => x = y

def modelEqv (R : Fields → Fields → Prop) : Val → Val → Prop
  | .model a, .model b => R a b
  | x, y => x = y

/-- Python dict equality: same keys, related values (insertion order is not compared) -/
def dictEqv (R : Val → Val → Prop) : Val → Val → Prop
  | .dict a, .dict b => ∀ k : String, OptRel R (lookup k a) (lookup k b)
  | x, y => x = y

mutual
  def Equiv : Merger → Val → Val → Prop
    | .concat, x, y => seqPermEqv x y
    | .merge t, x, y => modelEqv (EquivFields t) x y
    | .dictMerge vm, x, y => dictEqv (Equiv vm) x y
    | .forbidChange, x, y => leafEqv x y
    | .useFirst, x, y => leafEqv x y
    | .useLast, x, y => leafEqv x y
    | .forbid, x, y => leafEqv x y
    | .unite, x, y => leafEqv x y
  def EquivFields : Table → Fields → Fields → Prop
    | [], _, _ => True
    | (f, m) :: t, a, b => OptRel (Equiv m) (lookup f a) (lookup f b) ∧ EquivFields t a b
end

/-! ### Well-formed merger tables, induction principle -/

def keys {κ α : Type} (l : List (κ × α)) : List κ := l.map (·.1)

mutual
  /-- every `_field_mergers` dict has distinct keys (it is a Python dict) -/
  def Merger.WF : Merger → Prop
    | .merge t => (keys t).Nodup ∧ Table.WF t
    | .dictMerge vm => vm.WF
    | _ => True
  def Table.WF : Table → Prop
    | [] => True
    | (_, m) :: t => m.WF ∧ Table.WF t
end

mutual
  /-- no `UseFirst`/`UseLast` (order-dependent by definition) and no `DictMerge` anywhere -/
  def Merger.Sym : Merger → Prop
    | .useFirst => False
    | .useLast => False
    | .dictMerge _ => False
    | .merge t => Table.Sym t
    | _ => True
  def Table.Sym : Table → Prop
    | [] => True
    | (_, m) :: t => m.Sym ∧ Table.Sym t
end

mutual
  /-- no `DictMerge` anywhere -/
  def Merger.DictFree : Merger → Prop
    | .dictMerge _ => False
    | .merge t => Table.DictFree t
    | _ => True
  def Table.DictFree : Table → Prop
    | [] => True
    | (_, m) :: t => m.DictFree ∧ Table.DictFree t
end

theorem Table.WF_mem {t : Table} (h : Table.WF t) {f : String} {m : Merger} (hm : (f, m) ∈ t) : m.WF := by
  induction t with
  | nil => cases hm
  | cons p t ih =>
    obtain ⟨f', m'⟩ := p
    simp only [Table.WF] at h
    cases hm with
    | head => exact h.1
    | tail _ h' => exact ih h.2 h'

theorem Table.Sym_mem {t : Table} (h : Table.Sym t) {f : String} {m : Merger} (hm : (f, m) ∈ t) : m.Sym := by
  induction t with
  | nil => cases hm
  | cons p t ih =>
    obtain ⟨f', m'⟩ := p
    simp only [Table.Sym] at h
    cases hm with
    | head => exact h.1
    | tail _ h' => exact ih h.2 h'

theorem Table.DictFree_mem {t : Table} (h : Table.DictFree t) {f : String} {m : Merger} (hm : (f, m) ∈ t) :
    m.DictFree := by
  induction t with
  | nil => cases hm
  | cons p t ih =>
    obtain ⟨f', m'⟩ := p
    simp only [Table.DictFree] at h
    cases hm with
    | head => exact h.1
    | tail _ h' => exact ih h.2 h'

mutual
  theorem Merger.ind_aux {P : Merger → Prop}
      (leaf_fc : P .forbidChange) (leaf_uf : P .useFirst) (leaf_ul : P .useLast) (leaf_fb : P .forbid)
      (leaf_un : P .unite) (leaf_cc : P .concat)
      (hmerge : ∀ t, (∀ f m, (f, m) ∈ t → P m) → P (.merge t))
      (hdict : ∀ vm, P vm → P (.dictMerge vm)) : ∀ m, P m
    | .forbidChange => leaf_fc
    | .useFirst => leaf_uf
    | .useLast => leaf_ul
    | .forbid => leaf_fb
    | .unite => leaf_un
    | .concat => leaf_cc
    | .merge t => hmerge t (Table.ind_aux leaf_fc leaf_uf leaf_ul leaf_fb leaf_un leaf_cc hmerge hdict t)
    | .dictMerge vm => hdict vm (Merger.ind_aux leaf_fc leaf_uf leaf_ul leaf_fb leaf_un leaf_cc hmerge hdict vm)
  theorem Table.ind_aux {P : Merger → Prop}
      (leaf_fc : P .forbidChange) (leaf_uf : P .useFirst) (leaf_ul : P .useLast) (leaf_fb : P .forbid)
      (leaf_un : P .unite) (leaf_cc : P .concat)
      (hmerge : ∀ t, (∀ f m, (f, m) ∈ t → P m) → P (.merge t))
      (hdict : ∀ vm, P vm → P (.dictMerge vm)) : ∀ (t : Table) f m, (f, m) ∈ t → P m
    | [], _, _, h => nomatch h
    | (f', m') :: t', f, m, h => by
      cases h with
      | head => exact Merger.ind_aux leaf_fc leaf_uf leaf_ul leaf_fb leaf_un leaf_cc hmerge hdict _
      | tail _ h' => exact Table.ind_aux leaf_fc leaf_uf leaf_ul leaf_fb leaf_un leaf_cc hmerge hdict t' f m h'
end

/-- Induction over mergers: a `Merge()` field may assume the statement for every field of the
nested class. -/
theorem Merger.ind {P : Merger → Prop}
    (forbidChange : P .forbidChange) (useFirst : P .useFirst) (useLast : P .useLast) (forbid : P .forbid)
    (unite : P .unite) (concat : P .concat)
    (merge : ∀ t, (∀ f m, (f, m) ∈ t → P m) → P (.merge t))
    (dictMerge : ∀ vm, P vm → P (.dictMerge vm)) (m : Merger) : P m :=
  Merger.ind_aux forbidChange useFirst useLast forbid unite concat merge dictMerge m

/-! ### `lookup` -/

theorem lookup_eq_none_iff {κ α : Type} [DecidableEq κ] {k : κ} {l : List (κ × α)} :
    lookup k l = none ↔ k ∉ keys l := by
  induction l with
  | nil => simp [lookup, keys]
  | cons p l ih =>
    obtain ⟨k', v⟩ := p
    by_cases h : k' = k
    · simp [lookup, keys, h]
    · have h' : ¬ k = k' := fun e => h e.symm
      simp [lookup, keys, h, h'] at ih ⊢
      exact ih

theorem mem_of_lookup {κ α : Type} [DecidableEq κ] {k : κ} {v : α} {l : List (κ × α)} (h : lookup k l = some v) :
    (k, v) ∈ l := by
  induction l with
  | nil => simp [lookup] at h
  | cons p l ih =>
    obtain ⟨k', v'⟩ := p
    by_cases hk : k' = k
    · simp [lookup, hk] at h
      subst hk; subst h
      exact List.mem_cons_self
    · simp [lookup, hk] at h
      exact List.mem_cons_of_mem _ (ih h)

theorem lookup_of_mem {κ α : Type} [DecidableEq κ] {k : κ} {v : α} {l : List (κ × α)} (hnd : (keys l).Nodup)
    (h : (k, v) ∈ l) : lookup k l = some v := by
  induction l with
  | nil => cases h
  | cons p l ih =>
    obtain ⟨k', v'⟩ := p
    simp only [keys, List.map_cons, List.nodup_cons] at hnd
    cases h with
    | head => simp [lookup]
    | tail _ h' =>
      have hne : k' ≠ k := by
        intro e
        subst e
        exact hnd.1 (List.mem_map.mpr ⟨(k', v), h', rfl⟩)
      simp only [lookup, hne, if_false]
      exact ih hnd.2 h'

theorem lookup_isSome_of_mem_keys {κ α : Type} [DecidableEq κ] {k : κ} {l : List (κ × α)} (h : k ∈ keys l) :
    ∃ v, lookup k l = some v := by
  cases hl : lookup k l with
  | none => exact absurd h (lookup_eq_none_iff.mp hl)
  | some v => exact ⟨v, rfl⟩

/-! ### `Equiv` is an equivalence relation -/

theorem leafEqv.refl (x : Val) : leafEqv x x := by
  cases x <;> simp [leafEqv]

theorem leafEqv.symm {x y : Val} (h : leafEqv x y) : leafEqv y x := by
  cases x <;> cases y <;> simp_all [leafEqv]

theorem leafEqv.trans {x y z : Val} (h1 : leafEqv x y) (h2 : leafEqv y z) : leafEqv x z := by
  cases x <;> cases y <;> cases z <;> simp_all [leafEqv]

theorem seqPermEqv.refl (x : Val) : seqPermEqv x x := by
  cases x <;> simp [seqPermEqv]

theorem seqPermEqv.symm {x y : Val} (h : seqPermEqv x y) : seqPermEqv y x := by
  cases x <;> cases y <;> simp_all [seqPermEqv]
  exact h.symm

theorem seqPermEqv.trans {x y z : Val} (h1 : seqPermEqv x y) (h2 : seqPermEqv y z) : seqPermEqv x z := by
  cases x <;> cases y <;> cases z <;> simp_all [seqPermEqv]
  exact h1.trans h2

theorem EquivFields_iff (t : Table) (a b : Fields) :
    EquivFields t a b ↔ ∀ f m, (f, m) ∈ t → OptRel (Equiv m) (lookup f a) (lookup f b) := by
  induction t with
  | nil => simp [EquivFields]
  | cons p t ih =>
    obtain ⟨f', m'⟩ := p
    simp only [EquivFields, ih, List.mem_cons]
    constructor
    · rintro ⟨h1, h2⟩ f m (h | h)
      · cases h; exact h1
      · exact h2 f m h
    · intro h
      exact ⟨h f' m' (Or.inl rfl), fun f m hm => h f m (Or.inr hm)⟩

theorem Equiv.refl (m : Merger) : ∀ x, Equiv m x x := by
  induction m using Merger.ind with
  | merge t ih =>
    intro x
    cases x <;> simp only [Equiv, modelEqv]
    rw [EquivFields_iff]
    intro f m hm
    exact OptRel.refl (ih f m hm) _
  | concat => intro x; simp only [Equiv]; exact seqPermEqv.refl x
  | dictMerge vm ih =>
    intro x
    cases x <;> simp only [Equiv, dictEqv]
    intro k; exact OptRel.refl ih _
  | _ => intro x; simp only [Equiv]; exact leafEqv.refl x

theorem Equiv.symm (m : Merger) : ∀ x y, Equiv m x y → Equiv m y x := by
  induction m using Merger.ind with
  | merge t ih =>
    intro x y h
    cases x <;> cases y <;> simp only [Equiv, modelEqv] at h ⊢ <;> try (exact h.symm)
    rw [EquivFields_iff] at h ⊢
    intro f m hm
    exact OptRel.symm (ih f m hm) (h f m hm)
  | concat => intro x y h; simp only [Equiv] at h ⊢; exact seqPermEqv.symm h
  | dictMerge vm ih =>
    intro x y h
    cases x <;> cases y <;> simp only [Equiv, dictEqv] at h ⊢ <;> try (exact h.symm)
    intro k; exact OptRel.symm ih (h k)
  | _ => intro x y h; simp only [Equiv] at h ⊢; exact leafEqv.symm h

theorem Equiv.trans (m : Merger) : ∀ x y z, Equiv m x y → Equiv m y z → Equiv m x z := by
  induction m using Merger.ind with
  | merge t ih =>
    intro x y z h1 h2
    cases x <;> cases y <;> cases z <;> simp only [Equiv, modelEqv] at h1 h2 ⊢ <;>
      first | (exact h1.trans h2) | (cases h1; done) | (cases h2; done) | skip
    rw [EquivFields_iff] at h1 h2 ⊢
    intro f m hm
    exact OptRel.trans (ih f m hm) (h1 f m hm) (h2 f m hm)
  | concat => intro x y z h1 h2; simp only [Equiv] at h1 h2 ⊢; exact seqPermEqv.trans h1 h2
  | dictMerge vm ih =>
    intro x y z h1 h2
    cases x <;> cases y <;> cases z <;> simp only [Equiv, dictEqv] at h1 h2 ⊢ <;>
      first | (exact h1.trans h2) | (cases h1; done) | (cases h2; done) | skip
    intro k; exact OptRel.trans ih (h1 k) (h2 k)
  | _ => intro x y z h1 h2; simp only [Equiv] at h1 h2 ⊢; exact leafEqv.trans h1 h2

theorem EquivFields.refl (t : Table) (a : Fields) : EquivFields t a a := by
  rw [EquivFields_iff]; intro f m _; exact OptRel.refl (Equiv.refl m) _

theorem EquivFields.symm {t : Table} {a b : Fields} (h : EquivFields t a b) : EquivFields t b a := by
  rw [EquivFields_iff] at h ⊢; intro f m hm; exact OptRel.symm (Equiv.symm m) (h f m hm)

theorem EquivFields.trans {t : Table} {a b c : Fields} (h1 : EquivFields t a b) (h2 : EquivFields t b c) :
    EquivFields t a c := by
  rw [EquivFields_iff] at h1 h2 ⊢
  intro f m hm; exact OptRel.trans (Equiv.trans m) (h1 f m hm) (h2 f m hm)

/-! ### `mergeFields` field by field -/

def consOpt (f : String) : Option Val → Fields → Fields
  | none, r => r
  | some v, r => (f, v) :: r

theorem mergeFields_cons (f : String) (m : Merger) (t : Table) (a b : Fields) :
    mergeFields ((f, m) :: t) a b =
      mergeOpt m (lookup f a) (lookup f b) >>= fun r =>
        mergeFields t a b >>= fun rest => .ok (consOpt f r rest) := by
  simp only [mergeFields, mergeOpt]
  cases mergeOptWith (mergeVal m) (lookup f a) (lookup f b) with
  | error e => rfl
  | ok r =>
    cases mergeFields t a b with
    | error e => rfl
    | ok rest => cases r <;> rfl

theorem mergeFields_keys {t : Table} {a b out : Fields} (h : mergeFields t a b = .ok out) :
    ∀ f, f ∉ keys t → lookup f out = none := by
  induction t generalizing out with
  | nil => intro f _; simp [mergeFields] at h; cases h; rfl
  | cons p t ih =>
    obtain ⟨f', m'⟩ := p
    intro f hf
    rw [mergeFields_cons] at h
    cases h1 : mergeOpt m' (lookup f' a) (lookup f' b) with
    | error e => simp [h1] at h
    | ok r =>
      cases h2 : mergeFields t a b with
      | error e => simp [h1, h2] at h
      | ok rest =>
        simp [h1, h2] at h
        subst h
        simp only [keys, List.map_cons, List.mem_cons, not_or] at hf
        have := ih h2 f hf.2
        cases r with
        | none => exact this
        | some v =>
          have hne : ¬ f' = f := fun e => hf.1 e.symm
          simp [consOpt, lookup, hne, this]

/-- `_merge(a, b)` succeeds with `out` exactly when every field's merger succeeds, and then
`getattr(out, f)` is that merger's result (tables are dicts: distinct keys). -/
theorem mergeFields_ok {t : Table} (hnd : (keys t).Nodup) {a b out : Fields}
    (h : mergeFields t a b = .ok out) :
    ∀ f m, (f, m) ∈ t → mergeOpt m (lookup f a) (lookup f b) = .ok (lookup f out) := by
  induction t generalizing out with
  | nil => intro f m hm; cases hm
  | cons p t ih =>
    obtain ⟨f', m'⟩ := p
    intro f m hm
    rw [mergeFields_cons] at h
    simp only [keys, List.map_cons, List.nodup_cons] at hnd
    cases h1 : mergeOpt m' (lookup f' a) (lookup f' b) with
    | error e => simp [h1] at h
    | ok r =>
      cases h2 : mergeFields t a b with
      | error e => simp [h1, h2] at h
      | ok rest =>
        simp [h1, h2] at h
        subst h
        have hrest := mergeFields_keys h2 f' hnd.1
        cases hm with
        | head =>
          rw [h1]
          cases r with
          | none => simp [consOpt, hrest]
          | some v => simp [consOpt, lookup]
        | tail _ hm' =>
          have hne : f' ≠ f := by
            intro e; subst e
            exact hnd.1 (List.mem_map.mpr ⟨(f', m), hm', rfl⟩)
          rw [ih hnd.2 h2 f m hm']
          cases r with
          | none => rfl
          | some v => simp [consOpt, lookup, hne]

theorem mergeFields_error {t : Table} {a b : Fields} {e : MergeErr} (h : mergeFields t a b = .error e) :
    ∃ f m e', (f, m) ∈ t ∧ mergeOpt m (lookup f a) (lookup f b) = .error e' := by
  induction t generalizing e with
  | nil => simp [mergeFields] at h
  | cons p t ih =>
    obtain ⟨f', m'⟩ := p
    rw [mergeFields_cons] at h
    cases h1 : mergeOpt m' (lookup f' a) (lookup f' b) with
    | error e1 => exact ⟨f', m', e1, List.mem_cons_self, h1⟩
    | ok r =>
      cases h2 : mergeFields t a b with
      | error e2 =>
        obtain ⟨f, m, e', hm, he⟩ := ih h2
        exact ⟨f, m, e', List.mem_cons_of_mem _ hm, he⟩
      | ok rest => simp [h1, h2] at h

theorem mergeFields_error_of_field {t : Table} {a b : Fields} {f : String} {m : Merger} {e : MergeErr}
    (hm : (f, m) ∈ t) (he : mergeOpt m (lookup f a) (lookup f b) = .error e) :
    ∃ e', mergeFields t a b = .error e' := by
  induction t with
  | nil => cases hm
  | cons p t ih =>
    obtain ⟨f', m'⟩ := p
    rw [mergeFields_cons]
    cases hm with
    | head => exact ⟨e, by simp [he]⟩
    | tail _ hm' =>
      obtain ⟨e', he'⟩ := ih hm'
      cases h1 : mergeOpt m' (lookup f' a) (lookup f' b) with
      | error e1 => exact ⟨e1, rfl⟩
      | ok r => exact ⟨e', by simp [he']⟩

/-- two results of `_merge` over the same table with the same attribute values are the same object state -/
theorem mergeFields_ext {t : Table} {a b c d o1 o2 : Fields}
    (h1 : mergeFields t a b = .ok o1) (h2 : mergeFields t c d = .ok o2)
    (h : ∀ f, f ∈ keys t → lookup f o1 = lookup f o2) (hnd : (keys t).Nodup) : o1 = o2 := by
  induction t generalizing o1 o2 with
  | nil => simp [mergeFields] at h1 h2; rw [h1, h2]
  | cons p t ih =>
    obtain ⟨f', m'⟩ := p
    rw [mergeFields_cons] at h1 h2
    simp only [keys, List.map_cons, List.nodup_cons] at hnd
    cases e1 : mergeOpt m' (lookup f' a) (lookup f' b) with
    | error e => simp [e1] at h1
    | ok r1 =>
      cases e2 : mergeOpt m' (lookup f' c) (lookup f' d) with
      | error e => simp [e2] at h2
      | ok r2 =>
        cases e3 : mergeFields t a b with
        | error e => simp [e1, e3] at h1
        | ok rest1 =>
          cases e4 : mergeFields t c d with
          | error e => simp [e2, e4] at h2
          | ok rest2 =>
            simp [e1, e3] at h1
            simp [e2, e4] at h2
            subst h1; subst h2
            have k1 := mergeFields_keys e3 f' hnd.1
            have k2 := mergeFields_keys e4 f' hnd.1
            have hr : r1 = r2 := by
              have := h f' (by simp [keys])
              cases r1 <;> cases r2 <;> simp_all [consOpt, lookup]
            subst hr
            have hrest : rest1 = rest2 := by
              apply ih e3 e4 _ hnd.2
              intro f hf
              have hne : f' ≠ f := by intro e; subst e; exact hnd.1 hf
              have := h f (by simp only [keys, List.map_cons, List.mem_cons]; exact Or.inr hf)
              cases r1 <;> simp_all [consOpt, lookup]
            rw [hrest]

/-- Field-wise transfer: if every field's merger gives related results on `(a,b)` and on `(c,d)`,
so does `_merge`. -/
theorem mergeFields_rel {t : Table} (hnd : (keys t).Nodup) (R : Merger → Val → Val → Prop)
    {a b c d : Fields}
    (h : ∀ f m, (f, m) ∈ t →
      RE (OptRel (R m)) (mergeOpt m (lookup f a) (lookup f b)) (mergeOpt m (lookup f c) (lookup f d))) :
    RE (fun o o' => ∀ f m, (f, m) ∈ t → OptRel (R m) (lookup f o) (lookup f o'))
      (mergeFields t a b) (mergeFields t c d) := by
  cases h1 : mergeFields t a b with
  | error e1 =>
    cases h2 : mergeFields t c d with
    | error e2 => simp
    | ok o2 =>
      obtain ⟨f, m, e', hm, he⟩ := mergeFields_error h1
      have := h f m hm
      rw [he, mergeFields_ok hnd h2 f m hm] at this
      simp at this
  | ok o1 =>
    cases h2 : mergeFields t c d with
    | error e2 =>
      obtain ⟨f, m, e', hm, he⟩ := mergeFields_error h2
      have := h f m hm
      rw [he, mergeFields_ok hnd h1 f m hm] at this
      simp at this
    | ok o2 =>
      simp only [RE_ok_ok]
      intro f m hm
      have := h f m hm
      rw [mergeFields_ok hnd h1 f m hm, mergeFields_ok hnd h2 f m hm] at this
      simpa using this


/-! ### Leaf facts: Python set equality and union -/

theorem setEq_iff {a b : List String} : setEq a b = true ↔ ∀ s, s ∈ a ↔ s ∈ b := by
  simp only [setEq, Bool.and_eq_true, List.all_eq_true, List.contains_iff_mem]
  constructor
  · rintro ⟨h1, h2⟩ s; exact ⟨h1 s, h2 s⟩
  · intro h; exact ⟨fun s hs => (h s).mp hs, fun s hs => (h s).mpr hs⟩

theorem setEq_congr {a a' b b' : List String} (ha : ∀ s, s ∈ a ↔ s ∈ a') (hb : ∀ s, s ∈ b ↔ s ∈ b') :
    setEq a b = setEq a' b' := by
  rw [Bool.eq_iff_iff, setEq_iff, setEq_iff]
  constructor
  · intro h s; rw [← ha s, ← hb s]; exact h s
  · intro h s; rw [ha s, hb s]; exact h s

theorem leafEq_of_eqv {x x' y y' : Val} (hx : leafEqv x x') (hy : leafEqv y y') : leafEq x y = leafEq x' y' := by
  cases x <;> cases x' <;> simp only [leafEqv] at hx <;> try (cases hx; done)
  all_goals (cases y <;> cases y' <;> simp only [leafEqv] at hy <;> try (cases hy; done))
  all_goals (try (cases hx)); all_goals (try (cases hy)); all_goals (try rfl)
  all_goals simp only [leafEq, Option.some.injEq]
  all_goals first
    | exact setEq_congr hx hy
    | exact setEq_congr hx (fun _ => Iff.rfl)
    | exact setEq_congr (fun _ => Iff.rfl) hy

theorem leafEqv_of_leafEq {x y : Val} (h : leafEq x y = some true) : leafEqv x y := by
  cases x <;> cases y <;> simp_all [leafEq, leafEqv, setEq_iff]

theorem setEq_comm (a b : List String) : setEq a b = setEq b a := by
  simp only [setEq, Bool.and_comm]

theorem leafEq_comm (x y : Val) : leafEq x y = leafEq y x := by
  cases x <;> cases y <;> simp only [leafEq] <;>
    first | rfl | exact congrArg some BEq.comm | exact congrArg some (setEq_comm _ _)

theorem mem_setUnion {a b : List String} {s : String} : s ∈ setUnion a b ↔ s ∈ a ∨ s ∈ b := by
  simp only [setUnion, List.mem_append, List.mem_filter]
  by_cases ha : s ∈ a <;> simp [ha]

theorem setUnion_assoc (a b c : List String) : setUnion (setUnion a b) c = setUnion a (setUnion b c) := by
  simp only [setUnion, List.filter_append, List.append_assoc, List.filter_filter]
  congr 2
  apply List.filter_congr
  intro s _
  by_cases ha : s ∈ a <;> by_cases hb : s ∈ b <;> simp [ha, hb]

/-! ### `Merger.__call__` lifts the laws of `_merge` to possibly unset operands -/

theorem mergeOpt_none_left (m : Merger) (y : Option Val) : mergeOpt m none y = .ok y := rfl
theorem mergeOpt_none_right (m : Merger) (x : Option Val) : mergeOpt m x none = .ok x := by
  cases x <;> rfl
theorem mergeOpt_some_some (m : Merger) (x y : Val) : mergeOpt m (some x) (some y) = (mergeVal m x y).map some := rfl

theorem mergeOpt_cong_of {m : Merger}
    (h : ∀ x x' y y', Equiv m x x' → Equiv m y y' → RE (Equiv m) (mergeVal m x y) (mergeVal m x' y'))
    {ox ox' oy oy' : Option Val} (hx : OptRel (Equiv m) ox ox') (hy : OptRel (Equiv m) oy oy') :
    RE (OptRel (Equiv m)) (mergeOpt m ox oy) (mergeOpt m ox' oy') := by
  cases ox <;> cases ox' <;> simp at hx <;> cases oy <;> cases oy' <;> simp at hy <;>
    simp only [mergeOpt_none_left, mergeOpt_none_right, mergeOpt_some_some, RE_ok_ok, OptRel_some_some,
      OptRel_none_none] <;> try assumption
  exact RE.map (h _ _ _ _ hx hy) (fun _ _ r => r)

theorem mergeOpt_comm_of {m : Merger} (h : ∀ x y, RE (Equiv m) (mergeVal m x y) (mergeVal m y x))
    (ox oy : Option Val) : RE (OptRel (Equiv m)) (mergeOpt m ox oy) (mergeOpt m oy ox) := by
  cases ox <;> cases oy <;>
    simp only [mergeOpt_none_left, mergeOpt_none_right, mergeOpt_some_some, RE_ok_ok, OptRel_some_some,
      OptRel_none_none, Equiv.refl]
  exact RE.map (h _ _) (fun _ _ r => r)

theorem mergeOpt_assoc_of {m : Merger}
    (h : ∀ x y z, RE Eq (mergeVal m x y >>= fun r => mergeVal m r z) (mergeVal m y z >>= fun r => mergeVal m x r))
    (ox oy oz : Option Val) :
    RE Eq (mergeOpt m ox oy >>= fun r => mergeOpt m r oz) (mergeOpt m oy oz >>= fun r => mergeOpt m ox r) := by
  cases ox with
  | none =>
    simp only [mergeOpt_none_left, ok_bind]
    cases mergeOpt m oy oz <;> simp
  | some x =>
    cases oy with
    | none =>
      simp only [mergeOpt_none_left, mergeOpt_none_right, ok_bind]
      exact RE.refl (fun _ => rfl) _
    | some y =>
      cases oz with
      | none =>
        simp only [mergeOpt_none_right, ok_bind]
        cases mergeOpt m (some x) (some y) <;> simp
      | some z =>
        have := h x y z
        simp only [mergeOpt_some_some]
        cases hxy : mergeVal m x y <;> cases hyz : mergeVal m y z <;>
          simp only [hxy, hyz, map_ok, map_error, ok_bind, error_bind, mergeOpt_some_some, RE_err_err] at this ⊢
        · rename_i r2
          cases hxr : mergeVal m x r2 <;> simp [hxr] at this ⊢
        · rename_i r1 _
          cases hrz : mergeVal m r1 z <;> simp [hrz] at this ⊢
        · rename_i r1 r2
          cases h1 : mergeVal m r1 z <;> cases h2 : mergeVal m x r2 <;> simp [h1, h2] at this ⊢
          exact this

/-! ### The three laws of `_merge`: congruence, commutativity, associativity -/

theorem Merger.WF_merge {t : Table} : (Merger.merge t).WF ↔ (keys t).Nodup ∧ Table.WF t := by
  simp only [Merger.WF]

/-- congruence: merging equivalent operands gives equivalent results (or fails on both) -/
theorem mergeVal_cong (m : Merger) : m.WF → m.DictFree → ∀ x x' y y', Equiv m x x' → Equiv m y y' →
    RE (Equiv m) (mergeVal m x y) (mergeVal m x' y') := by
  induction m using Merger.ind with
  | forbidChange =>
    intro _ _ x x' y y' hx hy
    simp only [Equiv] at hx hy
    simp only [mergeVal, ← leafEq_of_eqv hx hy]
    cases h : leafEq x y with
    | none => simp
    | some b => cases b <;> simp [Equiv, hx]
  | useFirst => intro _ _ x x' y y' hx hy; simpa [mergeVal] using hx
  | useLast => intro _ _ x x' y y' hx hy; simpa [mergeVal] using hy
  | forbid => intro _ _ x x' y y' hx hy; simp [mergeVal]
  | unite =>
    intro _ _ x x' y y' hx hy
    simp only [Equiv] at hx hy
    cases x <;> cases x' <;> simp only [leafEqv] at hx <;> try (cases hx; done)
    all_goals (cases y <;> cases y' <;> simp only [leafEqv] at hy <;> try (cases hy; done))
    all_goals simp only [mergeVal, RE_err_err, RE_ok_ok, Equiv, leafEqv]
    intro s
    simp only [mem_setUnion, hx s, hy s]
  | concat =>
    intro _ _ x x' y y' hx hy
    simp only [Equiv] at hx hy
    cases x <;> cases x' <;> simp only [seqPermEqv] at hx <;> try (cases hx; done)
    all_goals (cases y <;> cases y' <;> simp only [seqPermEqv] at hy <;> try (cases hy; done))
    all_goals simp only [mergeVal, RE_err_err, RE_ok_ok, Equiv, seqPermEqv]
    exact List.Perm.append hx hy
  | dictMerge vm _ => intro _ hd; simp [Merger.DictFree] at hd
  | merge t ih =>
    intro hwf hdf x x' y y' hx hy
    obtain ⟨hnd, htw⟩ := Merger.WF_merge.mp hwf
    have htd : Table.DictFree t := by simpa [Merger.DictFree] using hdf
    simp only [Equiv] at hx hy
    cases x <;> cases x' <;> simp only [modelEqv] at hx <;> try (cases hx; done)
    all_goals (cases y <;> cases y' <;> simp only [modelEqv] at hy <;> try (cases hy; done))
    all_goals simp only [mergeVal, RE_err_err]
    rename_i a a' b b'
    rw [EquivFields_iff] at hx hy
    have := mergeFields_rel hnd Equiv (a := a) (b := b) (c := a') (d := b') (fun f m hm =>
      mergeOpt_cong_of (ih f m hm (Table.WF_mem htw hm) (Table.DictFree_mem htd hm)) (hx f m hm) (hy f m hm))
    refine RE.map this ?_
    intro o o' h
    simp only [Equiv, modelEqv]
    rw [EquivFields_iff]
    exact h


/-- commutativity up to `Equiv` for tables without `UseFirst`/`UseLast` -/
theorem mergeVal_comm (m : Merger) : m.WF → m.Sym → ∀ x y, RE (Equiv m) (mergeVal m x y) (mergeVal m y x) := by
  induction m using Merger.ind with
  | forbidChange =>
    intro _ _ x y
    simp only [mergeVal, leafEq_comm y x]
    cases h : leafEq x y with
    | none => simp
    | some b =>
      cases b with
      | false => simp
      | true => simp [Equiv, leafEqv_of_leafEq h]
  | useFirst => intro _ hs; simp [Merger.Sym] at hs
  | useLast => intro _ hs; simp [Merger.Sym] at hs
  | forbid => intro _ _ x y; simp [mergeVal]
  | unite =>
    intro _ _ x y
    cases x <;> cases y <;> simp only [mergeVal, RE_err_err, RE_ok_ok, Equiv, leafEqv]
    intro s
    simp only [mem_setUnion, Or.comm]
  | concat =>
    intro _ _ x y
    cases x <;> cases y <;> simp only [mergeVal, RE_err_err, RE_ok_ok, Equiv, seqPermEqv]
    exact List.perm_append_comm
  | dictMerge vm _ => intro _ hs; simp [Merger.Sym] at hs
  | merge t ih =>
    intro hwf hs x y
    obtain ⟨hnd, htw⟩ := Merger.WF_merge.mp hwf
    have hts : Table.Sym t := by simpa [Merger.Sym] using hs
    cases x <;> cases y <;> simp only [mergeVal, RE_err_err]
    rename_i a b
    have := mergeFields_rel hnd Equiv (a := a) (b := b) (c := b) (d := a) (fun f m hm =>
      mergeOpt_comm_of (ih f m hm (Table.WF_mem htw hm) (Table.Sym_mem hts hm)) _ _)
    refine RE.map this ?_
    intro o o' h
    simp only [Equiv, modelEqv]
    rw [EquivFields_iff]
    exact h

/-- associativity, exactly: both groupings fail, or both succeed with the same value -/
theorem mergeVal_assoc (m : Merger) : m.WF → m.DictFree → ∀ x y z,
    RE Eq (mergeVal m x y >>= fun r => mergeVal m r z) (mergeVal m y z >>= fun r => mergeVal m x r) := by
  induction m using Merger.ind with
  | forbidChange =>
    intro _ _ x y z
    simp only [mergeVal]
    cases hxy : leafEq x y with
    | none =>
      cases hyz : leafEq y z with
      | none => simp
      | some b => cases b <;> simp [hxy]
    | some b =>
      cases b with
      | false =>
        cases hyz : leafEq y z with
        | none => simp
        | some b => cases b <;> simp [hxy]
      | true =>
        have : leafEq x z = leafEq y z := leafEq_of_eqv (leafEqv_of_leafEq hxy) (leafEqv.refl z)
        simp only [ok_bind, this]
        cases hyz : leafEq y z with
        | none => simp
        | some b => cases b <;> simp [hxy]
  | useFirst => intro _ _ x y z; simp [mergeVal]
  | useLast => intro _ _ x y z; simp [mergeVal]
  | forbid => intro _ _ x y z; simp [mergeVal]
  | unite =>
    intro _ _ x y z
    cases x <;> cases y <;> cases z <;> simp [mergeVal, setUnion_assoc]
  | concat =>
    intro _ _ x y z
    cases x <;> cases y <;> cases z <;> simp [mergeVal]
  | dictMerge vm _ => intro _ hs; simp [Merger.DictFree] at hs
  | merge t ih =>
    intro hwf hs x y z
    obtain ⟨hnd, htw⟩ := Merger.WF_merge.mp hwf
    have hts : Table.DictFree t := by simpa [Merger.DictFree] using hs
    have hfield : ∀ f m, (f, m) ∈ t → ∀ ox oy oz,
        RE Eq (mergeOpt m ox oy >>= fun r => mergeOpt m r oz) (mergeOpt m oy oz >>= fun r => mergeOpt m ox r) :=
      fun f m hm => mergeOpt_assoc_of (ih f m hm (Table.WF_mem htw hm) (Table.DictFree_mem hts hm))
    cases x <;> cases y <;> cases z <;> simp only [mergeVal, error_bind, RE_err_err] <;>
      try (first | (cases mergeFields t _ _ <;> simp [mergeVal]; done))
    rename_i a b c
    cases hab : mergeFields t a b with
    | error e1 =>
      simp only [map_error, error_bind]
      cases hbc : mergeFields t b c with
      | error e2 => simp
      | ok s =>
        simp only [map_ok, ok_bind, mergeVal]
        obtain ⟨f, m, e', hm, he⟩ := mergeFields_error hab
        have h1 := hfield f m hm (lookup f a) (lookup f b) (lookup f c)
        rw [he, mergeFields_ok hnd hbc f m hm] at h1
        simp only [error_bind, ok_bind] at h1
        cases h2 : mergeOpt m (lookup f a) (lookup f s) with
        | ok r => simp [h2] at h1
        | error e3 =>
          obtain ⟨e4, he4⟩ := mergeFields_error_of_field hm h2
          simp [he4]
    | ok r =>
      simp only [map_ok, ok_bind, mergeVal]
      cases hbc : mergeFields t b c with
      | error e2 =>
        simp only [map_error, error_bind]
        obtain ⟨f, m, e', hm, he⟩ := mergeFields_error hbc
        have h1 := hfield f m hm (lookup f a) (lookup f b) (lookup f c)
        rw [he, mergeFields_ok hnd hab f m hm] at h1
        simp only [error_bind, ok_bind] at h1
        cases h2 : mergeOpt m (lookup f r) (lookup f c) with
        | ok r => simp [h2] at h1
        | error e3 =>
          obtain ⟨e4, he4⟩ := mergeFields_error_of_field hm h2
          simp [he4]
      | ok s =>
        simp only [map_ok, ok_bind, mergeVal]
        have := mergeFields_rel hnd (fun _ => Eq) (a := r) (b := c) (c := a) (d := s) (fun f m hm => by
          have h1 := hfield f m hm (lookup f a) (lookup f b) (lookup f c)
          rw [mergeFields_ok hnd hab f m hm, mergeFields_ok hnd hbc f m hm] at h1
          simp only [ok_bind] at h1
          refine RE.mono ?_ h1
          intro o o' h; subst h; exact OptRel.refl (fun _ => rfl) _)
        cases h1 : mergeFields t r c with
        | error e1 =>
          cases h2 : mergeFields t a s with
          | error e2 => simp
          | ok o2 => simp [h1, h2] at this
        | ok o1 =>
          cases h2 : mergeFields t a s with
          | error e2 => simp [h1, h2] at this
          | ok o2 =>
            simp only [h1, h2, RE_ok_ok] at this
            simp only [map_ok, RE_ok_ok, Val.model.injEq]
            apply mergeFields_ext h1 h2 _ hnd
            intro f hf
            obtain ⟨m, hm⟩ : ∃ m, (f, m) ∈ t := by
              simp only [keys, List.mem_map] at hf
              obtain ⟨⟨f', m⟩, hm, rfl⟩ := hf
              exact ⟨m, hm⟩
            have := this f m hm
            cases h3 : lookup f o1 <;> cases h4 : lookup f o2 <;> simp_all

end Annet.Mesh
