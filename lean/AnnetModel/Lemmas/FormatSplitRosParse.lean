/-
C04 helper lemmas, part 5c: the offside parser on `rosLines` (section paths announced again and again,
one word per line) rebuilds the tree: repeated ancestors merge.
-/
import AnnetModel.Lemmas.FormatSplitOffside
import AnnetModel.Lemmas.FormatSplitParsed

namespace Annet.FormatSplit.Lemmas
open Annet Annet.Offside Annet.FormatSplit

/-! ### A: lines → items -/

/-- the items of a section header: word `i` of `q` at depth `n + i` -/
def rp_hdrItems (w : Nat) (q : List String) (n : Nat) : List Item :=
  (q.zipIdx n).map fun e => Item.text (w * e.2) e.1

mutual
  def rp_items (w : Nat) (p : List String) : Cfg → List Item
    | .mk ks => rp_itemsL w p ks
  def rp_itemsL (w : Nat) (p : List String) : List (String × Cfg) → List Item
    | [] => []
    | (k, c) :: rest =>
      if c.kids.isEmpty then Item.text (w * p.length) k :: rp_itemsL w p rest
      else (rp_hdrItems w (p ++ [k]) 0 ++ rp_items w (p ++ [k]) c) ++ rp_itemsL w p rest
end

theorem rp_classify_hdr (w : Nat) (q : List String) (hq : ∀ x ∈ q, rowBase x.toList = true) :
    ((q.zipIdx.map fun e => blanks (w * e.2) ++ e.1.toList).map
        fun l => classify comments (String.ofList l)) = rp_hdrItems w q 0 := by
  unfold rp_hdrItems
  rw [List.map_map]
  apply List.map_congr_left
  intro e he
  simp only [Function.comp]
  exact classify_line _ _ (hq e.1 (List.fst_mem_of_mem_zipIdx he))

mutual
theorem rp_classify (w : Nat) : (t : Cfg) → ∀ (p : List String),
    (∀ x ∈ p, rowBase x.toList = true) → rosBody p t = true →
    (rosLines w p t).map (fun l => classify comments (String.ofList l)) = rp_items w p t
  | .mk ks => by
    intro p hp h
    simp only [rosBody] at h
    simp only [rosLines, rp_items]
    exact rp_classifyL w ks p false hp h
theorem rp_classifyL (w : Nat) : (ks : List (String × Cfg)) → ∀ (p : List String) (seen : Bool),
    (∀ x ∈ p, rowBase x.toList = true) → rosBodyL p seen ks = true →
    (rosLinesL w p ks).map (fun l => classify comments (String.ofList l)) = rp_itemsL w p ks
  | [] => by intros; simp [rosLinesL, rp_itemsL]
  | (k, c) :: rest => by
    intro p seen hp h
    simp only [rosBodyL, Bool.and_eq_true] at h
    obtain ⟨hnd, h⟩ := h
    by_cases hc : c.kids.isEmpty = true
    · simp only [hc, if_true, Bool.and_eq_true] at h
      obtain ⟨⟨hs, hk⟩, hrest⟩ := h
      have h2 := rp_classifyL w rest p seen hp hrest
      simp only [rosLinesL, rp_itemsL, hc, if_true, List.map_cons, h2, classify_line _ k hk]
    · simp only [hc, Bool.false_eq_true, if_false, Bool.and_eq_true] at h
      obtain ⟨⟨⟨hk, hsp⟩, hcb⟩, hrest⟩ := h
      have hkb : rowBase k.toList = true := by
        simp only [rosWord, Bool.and_eq_true] at hk
        exact hk.1
      have hp' : ∀ x ∈ p ++ [k], rowBase x.toList = true := by
        intro x hx
        rcases List.mem_append.mp hx with h1 | h1
        · exact hp x h1
        · simp at h1; subst h1; exact hkb
      have h1 := rp_classify w c (p ++ [k]) hp' hcb
      have h2 := rp_classifyL w rest p true hp hrest
      simp only [rosLinesL, rp_itemsL, hc, Bool.false_eq_true, if_false, List.map_append, h1, h2,
        rp_classify_hdr w _ hp']
end

/-! ### B: the machine -/

/-- the paths `a ++ b.take 1`, `a ++ b.take 2`, … -/
def rp_pre : List String → List String → List (List String)
  | _, [] => []
  | a, x :: b => (a ++ [x]) :: rp_pre (a ++ [x]) b

mutual
  def rp_paths (p : List String) : Cfg → List (List String)
    | .mk ks => rp_pathsL p ks
  def rp_pathsL (p : List String) : List (String × Cfg) → List (List String)
    | [] => []
    | (k, c) :: rest =>
      if c.kids.isEmpty then (p ++ [k]) :: rp_pathsL p rest
      else (rp_pre [] (p ++ [k]) ++ rp_paths (p ++ [k]) c) ++ rp_pathsL p rest
end

theorem rp_good0 {w d : Nat} {st : St} (h : OffGood w d st) : OffGood w 0 st := by
  induction d with
  | zero => exact h
  | succ d ih => exact ih (OffGood_pred h)

theorem rp_run_hdr (w : Nat) (hw : 0 < w) : ∀ (b a : List String) (st : St) (stack : List String),
    OffGood w a.length st → stack.take a.length = a →
    ∃ st' stack', OffGood w (a ++ b).length st' ∧ stack'.take (a ++ b).length = a ++ b ∧
      ∀ rest n, ∃ m, runItems (rp_hdrItems w b a.length ++ rest) st stack n
        = (runItems rest st' stack' m).map (fun out => rp_pre a b ++ out)
  | [], a, st, stack, hst, hstack => by
    refine ⟨st, stack, by simpa using hst, by simpa using hstack, fun rest n => ⟨n, ?_⟩⟩
    simp only [rp_hdrItems, rp_pre, List.zipIdx_nil, List.map_nil, List.nil_append]
    exact (except_map_nil _).symm
  | x :: b, a, st, stack, hst, hstack => by
    obtain ⟨e, g, rfl, hde, hg⟩ := hst
    have hstep := stepText_rep w hw a.length e g hde hg
    have hg1 : OffGood w (a ++ [x]).length
        ⟨List.replicate a.length w, ((w * a.length : Nat) : Int), some 0⟩ :=
      ⟨a.length, some 0, rfl, by simp, Or.inl rfl⟩
    obtain ⟨st2, stack2, hg2, hs2, H2⟩ := rp_run_hdr w hw b (a ++ [x]) _ (a ++ [x]) hg1 (List.take_of_length_le (by simp))
    refine ⟨st2, stack2, by simpa using hg2, by simpa using hs2, ?_⟩
    intro rest n
    obtain ⟨m, hm⟩ := H2 rest (n + 1)
    refine ⟨m, ?_⟩
    simp only [rp_hdrItems, List.length_append, List.length_cons, List.length_nil] at hm
    simp only [rp_hdrItems, List.zipIdx_cons, List.map_cons, List.cons_append]
    rw [Offside.Lemmas.runItems_text_some hstep, Offside.Lemmas.restack_eq, hstack]
    simp only [Nat.zero_add] at hm
    rw [hm, except_map_map]
    simp [rp_pre]

mutual
theorem rp_run (w : Nat) (hw : 0 < w) : (t : Cfg) → ∀ (p : List String) (st : St)
    (stack : List String), rosBody p t = true → OffGood w p.length st → stack.take p.length = p →
    ∃ st' stack', OffGood w 0 st' ∧ ∀ rest n, ∃ m,
      runItems (rp_items w p t ++ rest) st stack n
        = (runItems rest st' stack' m).map (fun out => rp_paths p t ++ out)
  | .mk ks => by
    intro p st stack h hst hstack
    simp only [rosBody] at h
    simp only [rp_items, rp_paths]
    exact rp_runL w hw ks p false st stack h (rp_good0 hst) (fun _ => ⟨hst, hstack⟩)
theorem rp_runL (w : Nat) (hw : 0 < w) : (ks : List (String × Cfg)) → ∀ (p : List String)
    (seen : Bool) (st : St) (stack : List String), rosBodyL p seen ks = true → OffGood w 0 st →
    (seen = false → OffGood w p.length st ∧ stack.take p.length = p) →
    ∃ st' stack', OffGood w 0 st' ∧ ∀ rest n, ∃ m,
      runItems (rp_itemsL w p ks ++ rest) st stack n
        = (runItems rest st' stack' m).map (fun out => rp_pathsL p ks ++ out)
  | [] => by
    intro p seen st stack _ hst _
    refine ⟨st, stack, hst, fun rest n => ⟨n, ?_⟩⟩
    simp only [rp_itemsL, rp_pathsL, List.nil_append]
    exact (except_map_nil _).symm
  | (k, c) :: rest0 => by
    intro p seen st stack h hst0 hready
    simp only [rosBodyL, Bool.and_eq_true] at h
    obtain ⟨hnd, h⟩ := h
    by_cases hc : c.kids.isEmpty = true
    · simp only [hc, if_true, Bool.and_eq_true] at h
      obtain ⟨⟨hs, hk⟩, hrest⟩ := h
      have hseen : seen = false := by simpa using hs
      obtain ⟨hst, hstack⟩ := hready hseen
      obtain ⟨e, g, rfl, hde, hg⟩ := hst
      have hstep := stepText_rep w hw p.length e g hde hg
      have hg1 : OffGood w p.length
          ⟨List.replicate p.length w, ((w * p.length : Nat) : Int), some 0⟩ :=
        ⟨p.length, some 0, rfl, by omega, Or.inl rfl⟩
      obtain ⟨st3, stack3, hg3, H3⟩ := rp_runL w hw rest0 p seen _ (p ++ [k]) hrest
        (rp_good0 hg1) (fun _ => ⟨hg1, by simp⟩)
      refine ⟨st3, stack3, hg3, ?_⟩
      intro rest n
      obtain ⟨m, hm⟩ := H3 rest (n + 1)
      refine ⟨m, ?_⟩
      simp only [rp_itemsL, rp_pathsL, hc, if_true, List.cons_append]
      rw [Offside.Lemmas.runItems_text_some hstep, Offside.Lemmas.restack_eq, hstack, hm,
        except_map_map]
    · simp only [hc, Bool.false_eq_true, if_false, Bool.and_eq_true] at h
      obtain ⟨⟨⟨hk, hsp⟩, hcb⟩, hrest⟩ := h
      obtain ⟨stH, stackH, hgH, hsH, HH⟩ := rp_run_hdr w hw (p ++ [k]) [] st stack
        (by simpa using hst0) (by simp)
      simp only [List.nil_append, List.length_nil] at hgH hsH HH
      obtain ⟨st2, stack2, hg2, H2⟩ := rp_run w hw c (p ++ [k]) stH stackH hcb hgH hsH
      obtain ⟨st3, stack3, hg3, H3⟩ := rp_runL w hw rest0 p true st2 stack2 hrest hg2
        (by intro h; cases h)
      refine ⟨st3, stack3, hg3, ?_⟩
      intro rest n
      obtain ⟨m1, hm1⟩ := HH (rp_items w (p ++ [k]) c ++ (rp_itemsL w p rest0 ++ rest)) n
      obtain ⟨m2, hm2⟩ := H2 (rp_itemsL w p rest0 ++ rest) m1
      obtain ⟨m3, hm3⟩ := H3 rest m2
      refine ⟨m3, ?_⟩
      simp only [rp_itemsL, rp_pathsL, hc, Bool.false_eq_true, if_false, List.append_assoc]
      rw [hm1, hm2, hm3, except_map_map, except_map_map]
end

theorem rp_stacks (w : Nat) (hw : 0 < w) (t : Cfg) (h : rosBody [] t = true) :
    stacks (rp_items w [] t) = .ok (rp_paths [] t) := by
  obtain ⟨st', stack', -, H⟩ := rp_run w hw t [] St.init [] h
    ⟨0, none, by simp [St.init], by simp, Or.inr ⟨rfl, rfl, rfl⟩⟩ rfl
  obtain ⟨m, hm⟩ := H [] 1
  simp only [List.append_nil] at hm
  simp only [stacks, hm, runItems]
  simp [Except.map]

/-! ### C: the tree -/

/-- the path `q` exists in `T` (under every entry carrying the right key) -/
def rp_hasPath : Cfg → List String → Prop
  | _, [] => True
  | .mk ks, k :: rest => Cfg.hasKey ks k = true ∧ ∀ e ∈ ks, e.1 = k → rp_hasPath e.2 rest

theorem rp_hasPath_nil (T : Cfg) : rp_hasPath T [] := by
  cases T; simp [rp_hasPath]

theorem rp_insertPath_nil (T : Cfg) : Cfg.insertPath [] T = T := by
  cases T; simp [Cfg.insertPath]

/-- inserting an existing path changes nothing -/
theorem rp_insert_id : ∀ (q : List String) (T : Cfg), rp_hasPath T q → Cfg.insertPath q T = T
  | [], T, _ => rp_insertPath_nil T
  | k :: rest, .mk ks, h => by
    simp only [rp_hasPath] at h
    obtain ⟨hk, hall⟩ := h
    simp only [Cfg.insertPath, hk, if_true]
    congr 1
    calc _ = ks.map id := by
          apply List.map_congr_left
          intro e he
          by_cases hek : (e.1 == k) = true
          · have := rp_insert_id rest e.2 (hall e he (by simpa using hek))
            simp [hek, this]
          · simp [hek]
      _ = ks := by simp

theorem rp_hasPath_insert : ∀ (q : List String) (T : Cfg), rp_hasPath (Cfg.insertPath q T) q
  | [], T => rp_hasPath_nil _
  | k :: rest, .mk ks => by
    by_cases hk : Cfg.hasKey ks k = true
    · simp only [Cfg.insertPath, hk, if_true, rp_hasPath]
      refine ⟨?_, ?_⟩
      · rw [Cfg.hasKey, pw_any_map_key _ (by intro e; split <;> rfl)]; exact hk
      · intro e he hek
        obtain ⟨p, hp, rfl⟩ := List.mem_map.mp he
        by_cases hpk : (p.1 == k) = true
        · simp only [hpk, if_true]; exact rp_hasPath_insert rest p.2
        · exfalso
          have hpk' : (p.1 == k) = false := by simpa using hpk
          simp only [hpk', Bool.false_eq_true, if_false] at hek
          simp [hek] at hpk'
    · have hkf : Cfg.hasKey ks k = false := by simpa using hk
      simp only [Cfg.insertPath, hkf, Bool.false_eq_true, if_false, rp_hasPath]
      refine ⟨by simp [Cfg.hasKey], ?_⟩
      intro e he hek
      rcases List.mem_append.mp he with h1 | h1
      · exfalso
        simp only [Cfg.hasKey, List.any_eq_false] at hkf
        exact hkf e h1 (by simp [hek])
      · simp at h1; subst h1; exact rp_hasPath_insert rest _

theorem rp_hasPath_mono : ∀ (q' : List String) (T : Cfg) (q : List String),
    rp_hasPath T q → rp_hasPath (Cfg.insertPath q' T) q
  | [], T, q, h => by rw [rp_insertPath_nil]; exact h
  | _ :: _, _, [], _ => rp_hasPath_nil _
  | k' :: r', .mk ks, k :: r, h => by
    simp only [rp_hasPath] at h
    obtain ⟨hk, hall⟩ := h
    by_cases hk' : Cfg.hasKey ks k' = true
    · simp only [Cfg.insertPath, hk', if_true, rp_hasPath]
      refine ⟨?_, ?_⟩
      · rw [Cfg.hasKey, pw_any_map_key _ (by intro e; split <;> rfl)]; exact hk
      · intro e he hek
        obtain ⟨p, hp, rfl⟩ := List.mem_map.mp he
        by_cases hpk : (p.1 == k') = true
        · simp only [hpk, if_true] at hek ⊢
          exact rp_hasPath_mono r' p.2 r (hall p hp hek)
        · have hpk' : (p.1 == k') = false := by simpa using hpk
          simp only [hpk', Bool.false_eq_true, if_false] at hek ⊢
          exact hall p hp hek
    · have hkf : Cfg.hasKey ks k' = false := by simpa using hk'
      simp only [Cfg.insertPath, hkf, Bool.false_eq_true, if_false, rp_hasPath]
      refine ⟨?_, ?_⟩
      · simp only [Cfg.hasKey, List.any_append, Bool.or_eq_true] at hk ⊢
        exact Or.inl hk
      · intro e he hek
        rcases List.mem_append.mp he with h1 | h1
        · exact hall e h1 hek
        · simp at h1; subst h1; simp at hek; subst hek; rw [hk] at hkf; cases hkf

theorem rp_hasPath_prefix : ∀ (q : List String) (T : Cfg) (r : List String),
    rp_hasPath T (q ++ r) → rp_hasPath T q
  | [], T, _, _ => rp_hasPath_nil T
  | k :: q, .mk ks, r, h => by
    simp only [List.cons_append, rp_hasPath] at h ⊢
    exact ⟨h.1, fun e he hek => rp_hasPath_prefix q e.2 r (h.2 e he hek)⟩

theorem rp_hasPath_insAll (qs : List (List String)) : ∀ (T : Cfg) (q : List String),
    rp_hasPath T q → rp_hasPath (insAll qs T) q := by
  induction qs with
  | nil => intro T q h; simpa [insAll] using h
  | cons a qs ih =>
    intro T q h
    simp only [insAll, List.foldl_cons]
    exact ih _ _ (rp_hasPath_mono a T q h)

theorem rp_insAll_cons (a : List String) (qs : List (List String)) (T : Cfg) :
    insAll (a :: qs) T = insAll qs (Cfg.insertPath a T) := by
  simp [insAll]

/-- a header: the proper prefixes are there already -/
theorem rp_insAll_pre : ∀ (b a : List String) (k : String) (T : Cfg), rp_hasPath T (a ++ b) →
    insAll (rp_pre a (b ++ [k])) T = Cfg.insertPath (a ++ b ++ [k]) T
  | [], a, k, T, _ => by simp [rp_pre, insAll]
  | x :: b, a, k, T, h => by
    have h1 : rp_hasPath T (a ++ [x]) := rp_hasPath_prefix (a ++ [x]) T b (by simpa using h)
    have h2 := rp_insAll_pre b (a ++ [x]) k T (by simpa using h)
    simp only [List.cons_append, rp_pre, rp_insAll_cons, rp_insert_id _ _ h1]
    simpa using h2

mutual
theorem rp_ins : (c : Cfg) → ∀ (p : List String) (T : Cfg), rp_hasPath T p →
    insAll (rp_paths p c) T = insAll ((Cfg.paths c).map (p ++ ·)) T
  | .mk ks => by
    intro p T hT
    simp only [rp_paths, Cfg.paths]
    exact rp_insL ks p T hT
theorem rp_insL : (ks : List (String × Cfg)) → ∀ (p : List String) (T : Cfg), rp_hasPath T p →
    insAll (rp_pathsL p ks) T = insAll ((Cfg.pathsList ks).map (p ++ ·)) T
  | [] => by intros; simp [rp_pathsL, Cfg.pathsList]
  | (k, c) :: rest => by
    intro p T hT
    have hT' : rp_hasPath (Cfg.insertPath (p ++ [k]) T) p := rp_hasPath_mono _ _ _ hT
    by_cases hc : c.kids.isEmpty = true
    · have hce : c = .mk [] := by
        cases c with
        | mk l => simp [Cfg.kids] at hc; simp [hc]
      subst hce
      have h2 := rp_insL rest p _ hT'
      simp only [rp_pathsL, Cfg.kids, List.isEmpty_nil, if_true, Cfg.pathsList, Cfg.paths,
        List.map_nil, List.map_cons, List.cons_append, List.nil_append,
        rp_insAll_cons]
      exact h2
    · have hq : rp_hasPath (Cfg.insertPath (p ++ [k]) T) (p ++ [k]) := rp_hasPath_insert _ _
      have h1 := rp_ins c (p ++ [k]) _ hq
      have hT'' : rp_hasPath (insAll ((Cfg.paths c).map ((p ++ [k]) ++ ·))
          (Cfg.insertPath (p ++ [k]) T)) p := rp_hasPath_insAll _ _ _ hT'
      have h2 := rp_insL rest p _ hT''
      have h0 := rp_insAll_pre p [] k T (by simpa using hT)
      simp only [List.nil_append] at h0
      simp only [rp_pathsL, hc, Bool.false_eq_true, if_false, Cfg.pathsList, List.map_append,
        List.map_cons, List.map_map, insAll_append, List.cons_append,
        rp_insAll_cons]
      rw [h0, h1, h2]
      congr 2
      apply List.map_congr_left
      intro q _
      simp
end

mutual
theorem rp_wf : (t : Cfg) → ∀ (p : List String), rosBody p t = true →
    wf (fun _ => true) t = true
  | .mk ks => by
    intro p h
    simp only [rosBody] at h
    simp only [wf]
    exact rp_wfL ks p false h
theorem rp_wfL : (ks : List (String × Cfg)) → ∀ (p : List String) (seen : Bool),
    rosBodyL p seen ks = true → wfL (fun _ => true) ks = true
  | [] => by intros; simp [wfL]
  | (k, c) :: rest => by
    intro p seen h
    simp only [rosBodyL, Bool.and_eq_true] at h
    obtain ⟨hnd, h⟩ := h
    by_cases hc : c.kids.isEmpty = true
    · simp only [hc, if_true, Bool.and_eq_true] at h
      have hce : c = .mk [] := by
        cases c with
        | mk l => simp [Cfg.kids] at hc; simp [hc]
      subst hce
      have h2 := rp_wfL rest p seen h.2
      simp only [wfL, wf, hnd, h2, Bool.and_self]
    · simp only [hc, Bool.false_eq_true, if_false, Bool.and_eq_true] at h
      have h1 := rp_wf c (p ++ [k]) h.1.2
      have h2 := rp_wfL rest p true h.2
      simp only [wfL, hnd, h1, h2, Bool.and_self]
end

/-! ### D: assembly -/

theorem ros_parse_lines (w : Nat) (hw : 0 < w) (t : Cfg) (h : rosTop t = true) :
    parseToTree comments ((rosLines w [] t).map String.ofList) = .ok t := by
  simp only [rosTop, Bool.and_eq_true] at h
  obtain ⟨-, hb⟩ := h
  have hA := rp_classify w t [] (by simp) hb
  have hB := rp_stacks w hw t hb
  have hC := rp_ins t [] Cfg.empty (rp_hasPath_nil _)
  have hwf := rp_wf t [] hb
  obtain ⟨ks⟩ := t
  simp only [wf] at hwf
  have hD := treeOfStacks_pathsList _ ks hwf
  have hC' : treeOfStacks (rp_paths [] (.mk ks)) = treeOfStacks (Cfg.pathsList ks) := by
    simpa [treeOfStacks, insAll, Cfg.paths] using hC
  simp only [parseToTree, List.map_map, Function.comp_def, hA, parseItems, hB, hC', hD]

end Annet.FormatSplit.Lemmas
