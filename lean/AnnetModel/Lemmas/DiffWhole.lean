/-
C03 for the whole `make_diff` at every depth.  Statements fixed by Props/C03.lean.

The work is in `DiffWholeBase` (the two loops of `base_diff` with their recursive calls, what `annotate` guarantees,
the diff-logic groups partition a level), `DiffWholeExact` (the invariant `Hyp` of the recursion, exactness) and
`DiffWholeProj` (the projections).

STATEMENT CHANGED (`makeDiff_ops_exact`): hypotheses `hdo : NoDupRows ao`, `hdn : NoDupRows an` added.  `Cfg` is a
list of rows, so a level can repeat a row; `ExactL` judges the children of an item against `kidsOf new row`, the
children of the *first* line `row` of the level, while `base_diff` reports each line with its own children.
Counterexample (`dupRb`, `dupNew` below, checked by `decide`): old empty, new = `a 1 {x 1}`, `a 1 {x 2}`: the diff is
`+a 1 {+x 1}`, `+a 1 {+x 2}` and the entry `+x 2` is not a row of `kidsOf new "a 1" = {x 1}`.  A Python dict cannot
repeat a key, so the hypothesis holds of every real run.
-/
import AnnetModel.Lemmas.DiffWholeProj

namespace Annet.Diff.Lemmas
open Annet Annet.Rules Annet.Diff Annet.Diff.Spec

theorem makeDiff_inv {rules : PRules} {old new : Cfg} {ao an : ACfg} {d : List DItem}
    (ha : annotate rules old = .ok ao) (hn : annotate rules new = .ok an)
    (h : makeDiff rules old new = .ok d) :
    ∃ d0, callDiffLogic (adepth ao + adepth an + 2) [.op .affected] ao.kids an.kids = .ok d0 ∧
      d = markUnchanged d0 := by
  unfold makeDiff at h
  rw [ha, hn] at h
  simp only at h
  split at h
  · cases h
  · rename_i d0 hd0
    cases h
    exact ⟨d0, hd0, rfl⟩

theorem hyp_top {rules : PRules} {old new : Cfg} {ao an : ACfg}
    (ha : annotate rules old = .ok ao) (hn : annotate rules new = .ok an)
    (hdo : NoDupRows ao) (hdn : NoDupRows an) : Hyp [.op .affected] ao.kids an.kids :=
  ⟨coh_of_annotate ha hn, (noDupRows_iff_kids _).1 hdo, (noDupRows_iff_kids _).1 hdn,
    Or.inr (by simp [lastOp]), Or.inr (by simp [lastOp])⟩

/-- ops are exact at every depth of the diff `make_diff` returns (any of the three standard diff logics).
STATEMENT CHANGED: `hdo`, `hdn` added (no level repeats a row), see the header. -/
theorem makeDiff_ops_exact (rules : PRules) (old new : Cfg) (ao an : ACfg) (d : List DItem)
    (ha : annotate rules old = .ok ao) (hn : annotate rules new = .ok an)
    (hdo : NoDupRows ao) (hdn : NoDupRows an)
    (h : makeDiff rules old new = .ok d) :
    ExactL ao.kids an.kids d := by
  obtain ⟨d0, hd0, rfl⟩ := makeDiff_inv ha hn h
  exact markUnchanged_exactL _ _ _ (callDiffLogic_exact _ _ _ _ _ (hyp_top ha hn hdo hdn) hd0)

/-- both inputs can be read back from the diff alone, with block nesting intact: dropping ADDED entries gives `old`,
dropping REMOVED entries gives `new` — each restricted to the rows the rulebook knows, per level as a multiset -/
theorem makeDiff_projections (rules : PRules) (old new : Cfg) (ao an : ACfg) (d : List DItem)
    (ha : annotate rules old = .ok ao) (hn : annotate rules new = .ok an)
    (hdo : NoDupRows ao) (hdn : NoDupRows an) (hpo : PlainLogics ao) (hpn : PlainLogics an)
    (h : makeDiff rules old new = .ok d) :
    RPerm (projOld d) (rtreeOfL ao.kids) ∧ RPerm (projNew d) (rtreeOfL an.kids) := by
  obtain ⟨d0, hd0, rfl⟩ := makeDiff_inv ha hn h
  rw [projOld_eq, projNew_eq, projBy_markUnchanged _ (by simp) (by simp),
    projBy_markUnchanged _ (by simp) (by simp)]
  refine callDiffLogic_proj _ _ _ _ _ (hyp_top ha hn hdo hdn) ((plainLogics_iff_kids _).1 hpo)
    ((plainLogics_iff_kids _).1 hpn) ?_ hd0
  rw [adepth_eq_kids, adepth_eq_kids]
  omega

/-! ### checkers for the examples -/

mutual
  def noDupB : ACfg → Bool
    | .mk ks => noDupBL ks
  def noDupBL : List (String × PMatch × ACfg) → Bool
    | [] => true
    | (r, _, c) :: rest => rest.all (fun x => x.1 != r) && noDupB c && noDupBL rest
end

mutual
  theorem noDupB_sound : ∀ (c : ACfg), noDupB c = true → NoDupRows c
    | .mk ks, h => by
      rw [noDupB] at h
      rw [NoDupRows]
      exact noDupBL_sound ks h
  theorem noDupBL_sound : ∀ (l : List (String × PMatch × ACfg)), noDupBL l = true → NoDupRowsL l
    | [], _ => by rw [NoDupRowsL]; trivial
    | (r, m, c) :: rest, h => by
      rw [noDupBL, Bool.and_eq_true, Bool.and_eq_true] at h
      rw [NoDupRowsL]
      refine ⟨?_, noDupB_sound c h.1.2, noDupBL_sound rest h.2⟩
      intro x hx
      have := List.all_eq_true.1 h.1.1 x hx
      simpa using this
end

mutual
  def plainB : ACfg → Bool
    | .mk ks => plainBL ks
  def plainBL : List (String × PMatch × ACfg) → Bool
    | [] => true
    | (_, m, c) :: rest =>
      (m.attrs.diffLogic == "common.default_diff" || m.attrs.diffLogic == "common.ordered_diff") &&
        plainB c && plainBL rest
end

mutual
  theorem plainB_sound : ∀ (c : ACfg), plainB c = true → PlainLogics c
    | .mk ks, h => by
      rw [plainB] at h
      rw [PlainLogics]
      exact plainBL_sound ks h
  theorem plainBL_sound : ∀ (l : List (String × PMatch × ACfg)), plainBL l = true → PlainLogicsL l
    | [], _ => by rw [PlainLogicsL]; trivial
    | (r, m, c) :: rest, h => by
      rw [plainBL, Bool.and_eq_true, Bool.and_eq_true] at h
      rw [PlainLogicsL]
      refine ⟨?_, plainB_sound c h.1.2, plainBL_sound rest h.2⟩
      simpa using h.1.1
end

def exOk {α : Type} : Except Err α → Bool
  | .ok _ => true
  | .error _ => false

def exGet {α : Type} [Inhabited α] : Except Err α → α
  | .ok a => a
  | .error _ => default

theorem exGet_spec {α : Type} [Inhabited α] {x : Except Err α} (h : exOk x = true) : x = .ok (exGet x) := by
  cases x with
  | ok a => rfl
  | error e => cases h

mutual
  def flatL : List DItem → Nat → List (Nat × String × String)
    | [], _ => []
    | i :: rest, depth => flatI i depth ++ flatL rest depth
  def flatI : DItem → Nat → List (Nat × String × String)
    | .mk o r ch _, depth => (depth, o.name, r) :: flatL ch (depth + 1)
end

/-- a diff in preorder: depth, op, row -/
def flat (depth : Nat) (d : List DItem) : List (Nat × String × String) := flatL d depth

private def exVendor : Vendor := { reverse := "no", exit := "exit" }

/-! ### the counterexample to `makeDiff_ops_exact` without `NoDupRows` -/

private def dupRb : PRules := compileP exVendor [
  .mk "a *" "a *" false false "common.default" "common.default_diff" false false false false [
    .mk "x *" "x *" false false "common.default" "common.default_diff" false false false false [] ] ]
private def dupOld : Cfg := .mk []
private def dupNew : Cfg := .mk [("a 1", .mk [("x 1", .mk [])]), ("a 1", .mk [("x 2", .mk [])])]

/-- the second `a 1` is reported with its own child `x 2`, which the first line `a 1` of `new` does not have: the
conclusion of `makeDiff_ops_exact` fails at depth 2 -/
example :
    flat 0 (exGet (makeDiff dupRb dupOld dupNew)) =
      [(0, "added", "a 1"), (1, "added", "x 1"), (0, "added", "a 1"), (1, "added", "x 2")] ∧
    rowsOf (kidsOf (exGet (annotate dupRb dupNew)).kids "a 1") = ["x 1"] ∧
    hasRow (kidsOf (exGet (annotate dupRb dupNew)).kids "a 1") "x 2" = false := by decide +kernel

/-! ### non-vacuity: a three-level pair with added, removed and affected entries at the first two levels, two diff
logics at the top level (`a *`: default_diff, `b *  %ordered`: ordered_diff) and a row no rule knows (`zzz`) -/

private def exRb : PRules := compileP exVendor [
  .mk "a *" "a *" false false "common.default" "common.default_diff" false false false false [
    .mk "x *" "x *" false false "common.default" "common.default_diff" false false false false [
      .mk "y *" "y *" false false "common.default" "common.default_diff" false false false false [] ] ],
  .mk "b *  %ordered" "b *" false false "common.default" "common.default_diff" true false false false [] ]

private def exOld : Cfg := .mk [
  ("a 1", .mk [("x 1", .mk []), ("x 2", .mk [("y 1", .mk [])]), ("x 4", .mk [])]),
  ("b 1", .mk []), ("a 2", .mk []), ("b 2", .mk []), ("zzz", .mk [])]
private def exNew : Cfg := .mk [
  ("a 1", .mk [("x 2", .mk [("y 2", .mk [])]), ("x 3", .mk []), ("x 4", .mk [])]),
  ("b 2", .mk []), ("a 3", .mk []), ("b 1", .mk [])]

private def exAo : ACfg := exGet (annotate exRb exOld)
private def exAn : ACfg := exGet (annotate exRb exNew)
private def exD : List DItem := exGet (makeDiff exRb exOld exNew)

private theorem ex_ao : annotate exRb exOld = .ok exAo := exGet_spec (by decide +kernel)
private theorem ex_an : annotate exRb exNew = .ok exAn := exGet_spec (by decide +kernel)
private theorem ex_d : makeDiff exRb exOld exNew = .ok exD := exGet_spec (by decide +kernel)
private theorem ex_ndo : NoDupRows exAo := noDupB_sound _ (by decide +kernel)
private theorem ex_ndn : NoDupRows exAn := noDupB_sound _ (by decide +kernel)
private theorem ex_po : PlainLogics exAo := plainB_sound _ (by decide +kernel)
private theorem ex_pn : PlainLogics exAn := plainB_sound _ (by decide +kernel)

/-- the diff of the example: AFFECTED, ADDED and REMOVED at depth 0 and at depth 1 -/
example : flat 0 exD =
    [(0, "affected", "a 1"),
       (1, "affected", "x 2"), (2, "added", "y 2"), (2, "removed", "y 1"),
       (1, "removed", "x 1"), (1, "added", "x 3"), (1, "unchanged", "x 4"),
     (0, "added", "a 3"), (0, "removed", "a 2"), (0, "moved", "b 2"), (0, "moved", "b 1")] := by decide +kernel

/-- the hypotheses of both theorems hold of it; their instances -/
example : ExactL exAo.kids exAn.kids exD :=
  makeDiff_ops_exact exRb exOld exNew exAo exAn exD ex_ao ex_an ex_ndo ex_ndn ex_d

example : RPerm (projOld exD) (rtreeOfL exAo.kids) ∧ RPerm (projNew exD) (rtreeOfL exAn.kids) :=
  makeDiff_projections exRb exOld exNew exAo exAn exD ex_ao ex_an ex_ndo ex_ndn ex_po ex_pn ex_d

end Annet.Diff.Lemmas
