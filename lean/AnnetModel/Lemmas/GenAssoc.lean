/-
Helper lemmas for C10, part 8: `merge` (= `merge_dicts` on config trees) is associative on trees with unique sibling
keys.  Trees with unique keys are determined by their key order and their children (`ext_list`); the keys and the
children of a merge are computed by `keys_merge` / `lookup_merge`.
-/
import AnnetModel.Lemmas.GenMerge

namespace Annet.Gen.Lemmas
open Annet Annet.Implicit Annet.Implicit.Spec Annet.Implicit.Lemmas

def look (l : List (String × Cfg)) (k : String) : Option Cfg := (l.find? (·.1 == k)).map (·.2)

theorem look_cons (k0 : String) (c0 : Cfg) (rest : List (String × Cfg)) (k : String) :
    look ((k0, c0) :: rest) k = if k0 = k then some c0 else look rest k := by
  simp only [look, List.find?_cons]
  by_cases h : k0 = k
  · simp [h]
  · have : (k0 == k) = false := by simpa using h
    simp [this, h]

theorem look_some_iff {l : List (String × Cfg)} (hn : (keys l).Nodup) {k : String} {c : Cfg} :
    look l k = some c ↔ (k, c) ∈ l := by
  constructor
  · intro h
    simp only [look, Option.map_eq_some_iff] at h
    obtain ⟨⟨k', c'⟩, hf, rfl⟩ := h
    obtain ⟨rfl, hm⟩ := find_some hf
    exact hm
  · intro h
    have := find_self l hn (k, c) h
    simp only at this
    simp [look, this]

theorem look_none_iff {l : List (String × Cfg)} {k : String} : look l k = none ↔ k ∉ keys l := by
  simp only [look, Option.map_eq_none_iff]
  constructor
  · exact find_none
  · intro h
    rw [List.find?_eq_none]
    intro e he hk
    simp only [beq_iff_eq] at hk
    exact h (hk ▸ keys_of_mem he)

/-- trees with unique sibling keys: same key order and same children means same tree -/
theorem ext_list : (l1 l2 : List (String × Cfg)) → (keys l1).Nodup → (keys l2).Nodup → keys l1 = keys l2 →
    (∀ k, look l1 k = look l2 k) → l1 = l2
  | [], [], _, _, _, _ => rfl
  | [], _ :: _, _, _, hk, _ => by simp [keys] at hk
  | _ :: _, [], _, _, hk, _ => by simp [keys] at hk
  | (k1, c1) :: r1, (k2, c2) :: r2, h1, h2, hk, hl => by
    simp only [keys, List.map_cons, List.cons.injEq] at hk
    obtain ⟨rfl, hk'⟩ := hk
    have hc : c1 = c2 := by
      have := hl k1
      rw [look_cons, look_cons, if_pos rfl, if_pos rfl] at this
      exact Option.some.inj this
    subst hc
    simp only [keys, List.map_cons, List.nodup_cons] at h1 h2
    congr 1
    apply ext_list r1 r2 h1.2 h2.2 hk'
    intro k
    have := hl k
    rw [look_cons, look_cons] at this
    by_cases hkk : k1 = k
    · subst hkk
      rw [look_none_iff.2 h1.1, look_none_iff.2 h2.1]
    · rwa [if_neg hkk, if_neg hkk] at this

theorem keys_merge (a b : List (String × Cfg)) :
    keys (merge (.mk a) (.mk b)).kids = keys a ++ (keys b).filter (fun k => !(keys a).contains k) := by
  rw [merge]
  simp only [Cfg.kids, keys_append, keys_mergeL]
  congr 1
  simp only [keys, List.filter_map]
  congr 1
  apply List.filter_congr
  intro e _
  simp only [Function.comp, List.contains_eq_mem, List.mem_map, List.any_eq]
  congr 1
  apply decide_eq_decide.2
  constructor
  · rintro ⟨x, hx, hxe⟩
    simp only [beq_iff_eq] at hxe
    exact ⟨x, hx, hxe⟩
  · rintro ⟨x, hx, hxe⟩
    exact ⟨x, hx, by simpa using hxe⟩

def mergeOpt : Option Cfg → Option Cfg → Option Cfg
  | some x, some y => some (merge x y)
  | some x, none => some x
  | none, some y => some y
  | none, none => none

theorem look_merge (a b : List (String × Cfg)) (ha : (keys a).Nodup) (hb : (keys b).Nodup) (k : String) :
    look (merge (.mk a) (.mk b)).kids k = mergeOpt (look a k) (look b k) := by
  have hm := nodup_keys_merge ha hb
  unfold mergeOpt
  cases hla : look a k with
  | none =>
    have hka := look_none_iff.1 hla
    cases hlb : look b k with
    | none =>
      have hkb := look_none_iff.1 hlb
      simp only
      rw [look_none_iff, mem_keys_merge]
      rintro (h | h)
      · exact hka h
      · exact hkb h
    | some y =>
      have hyb := (look_some_iff hb).1 hlb
      simp only
      rw [look_some_iff hm, merge]
      simp only [Cfg.kids]
      exact List.mem_append.2 (.inr (mem_filter_new.2 ⟨hyb, hka⟩))
  | some x =>
    have hxa := (look_some_iff ha).1 hla
    cases hlb : look b k with
    | none =>
      have hkb := look_none_iff.1 hlb
      simp only
      rw [look_some_iff hm, merge]
      simp only [Cfg.kids]
      exact List.mem_append.2 (.inl (mem_mergeL_of_left a b k x hxa hkb))
    | some y =>
      have hyb := (look_some_iff hb).1 hlb
      simp only
      rw [look_some_iff hm, merge]
      simp only [Cfg.kids]
      exact List.mem_append.2 (.inl (mem_mergeL_of_both a b hb k x y hxa hyb))

theorem merge_assoc (a b c : Cfg) (ha : NoDupKeys a) (hb : NoDupKeys b) (hc : NoDupKeys c) :
    merge (merge a b) c = merge a (merge b c) := by
  match a, b, c with
  | .mk a, .mk b, .mk c =>
    rw [NoDupKeys] at ha hb hc
    have hak := (nodupKeys_iff a).1 ha
    have hbk := (nodupKeys_iff b).1 hb
    have hck := (nodupKeys_iff c).1 hc
    have hab := nodup_keys_merge hak.1 hbk.1
    have hbc := nodup_keys_merge hbk.1 hck.1
    -- name the inner merges' children lists
    obtain ⟨ab, hab_eq⟩ : ∃ ab, merge (.mk a) (.mk b) = .mk ab := ⟨_, by rw [merge]⟩
    obtain ⟨bc, hbc_eq⟩ : ∃ bc, merge (.mk b) (.mk c) = .mk bc := ⟨_, by rw [merge]⟩
    have kab : keys ab = keys a ++ (keys b).filter (fun k => !(keys a).contains k) := by
      have := keys_merge a b; rw [hab_eq] at this; exact this
    have kbc : keys bc = keys b ++ (keys c).filter (fun k => !(keys b).contains k) := by
      have := keys_merge b c; rw [hbc_eq] at this; exact this
    have nab : (keys ab).Nodup := by rw [hab_eq] at hab; exact hab
    have nbc : (keys bc).Nodup := by rw [hbc_eq] at hbc; exact hbc
    have lab : ∀ k, look ab k = mergeOpt (look a k) (look b k) := fun k => by
      have := look_merge a b hak.1 hbk.1 k; rw [hab_eq] at this; exact this
    have lbc : ∀ k, look bc k = mergeOpt (look b k) (look c k) := fun k => by
      have := look_merge b c hbk.1 hck.1 k; rw [hbc_eq] at this; exact this
    rw [hab_eq, hbc_eq]
    obtain ⟨l1, h1⟩ : ∃ l1, merge (.mk ab) (.mk c) = .mk l1 := ⟨_, by rw [merge]⟩
    obtain ⟨l2, h2⟩ : ∃ l2, merge (.mk a) (.mk bc) = .mk l2 := ⟨_, by rw [merge]⟩
    rw [h1, h2]
    congr 1
    have n1 : (keys l1).Nodup := by have := nodup_keys_merge nab hck.1; rw [h1] at this; exact this
    have n2 : (keys l2).Nodup := by have := nodup_keys_merge hak.1 nbc; rw [h2] at this; exact this
    apply ext_list l1 l2 n1 n2
    · have k1 := keys_merge ab c
      have k2 := keys_merge a bc
      rw [h1] at k1; rw [h2] at k2
      simp only [Cfg.kids] at k1 k2
      rw [k1, k2, kab, kbc, List.filter_append, List.append_assoc, List.filter_filter]
      congr 2
      apply List.filter_congr
      intro k _
      by_cases h1 : k ∈ keys a <;> by_cases h2 : k ∈ keys b <;> simp [h1, h2]
    · intro k
      have e1 := look_merge ab c nab hck.1 k
      have e2 := look_merge a bc hak.1 nbc k
      rw [h1] at e1; rw [h2] at e2
      simp only [Cfg.kids] at e1 e2
      rw [e1, e2, lab k, lbc k]
      cases hla : look a k with
      | none =>
        cases hlb : look b k with
        | none => cases look c k <;> rfl
        | some y => cases look c k <;> rfl
      | some x =>
        cases hlb : look b k with
        | none => cases look c k <;> rfl
        | some y =>
          cases hlc : look c k with
          | none => rfl
          | some z =>
            have hx := (look_some_iff hak.1).1 hla
            have hy := (look_some_iff hbk.1).1 hlb
            have hz := (look_some_iff hck.1).1 hlc
            simp only [mergeOpt]
            rw [merge_assoc x y z (hak.2 k x hx) (hbk.2 k y hy) (hck.2 k z hz)]
termination_by sizeOf a
decreasing_by
  all_goals first
    | exact sizeOf_child_lt ‹_›
    | (simp_wf; have := sizeOf_child_lt ‹(_, _) ∈ _›; omega)

end Annet.Gen.Lemmas
