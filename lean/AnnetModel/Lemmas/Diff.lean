/-
Helper lemmas for C03.

Plan of the file
* the sort: `sortIdx` is a permutation (`sortIdx_perm`); it keeps the list weakly sorted by index, and
  therefore a class of items that arrives with strictly increasing indices keeps its order
  (`filter_sortIdx`, `sortIdx_split`).  No order property of `String.lt` is needed.
* the two loops of `base_diff`: `removedItems_spec`, `newItems_spec` (rows, indices, ops),
  `newItems_moved` (`block_in_disorder` in closed form).
* self diff: for a callee that reports "all affected" on equal sides (`RecSelf`), so does `baseDiff`,
  `runLogic`, `runLogics`, `callDiffLogic` (induction on fuel; fuel 0 gives `[]`).

STATEMENT CHANGES (three theorems were false as first written; counterexamples are checked below by
`decide`).  `base_diff` labels a common, in-place row with the *parent's* op (`pops[-1]`).  Under a
REMOVED parent that label is REMOVED, under an ADDED parent it is ADDED, and the projections/exactness
read it as a removal/addition.  In real runs `call_diff_logic` recurses below a removed row with
`new = {}` and below an added row with `old = {}` (`removedItems` passes `[]`, `newItems` passes
`oldKids = []` for a row absent from `old`), so the added hypotheses hold there:
* `base_proj_new`  : `hp  : new = [] ∨ lastOp pops ≠ .removed`
* `base_proj_old`  : `hp  : old = [] ∨ lastOp pops ≠ .added`
* `base_ops_exact` : `hpa : old = [] ∨ lastOp pops ≠ .added`, `hpr : new = [] ∨ lastOp pops ≠ .removed`

Core Lean only.
-/
import AnnetModel.Spec.Diff

namespace Annet.Diff.Lemmas
open Annet Annet.Rules Annet.Diff Annet.Diff.Spec

/-! ### counterexamples to the unguarded statements -/

private def cxM : PMatch := { rawRule := "x *", key := [], attrs :=
  { row := "x *", logic := "common.default", diffLogic := "common.default_diff", parent := false, forceCommit := false } }
private def cxLvl : Level := [("x a", cxM, ACfg.mk [])]
private def cxRec : Rec := fun _ _ _ => .ok []

/-- what a run reports, what is left after dropping the lines with op `o`, and the
membership of `x a` in old/new -/
private def cxView (pops : List Pop) (o : Op) : Option (List (String × String) × List String) :=
  match baseDiff cxRec pops true cxLvl cxLvl with
  | .ok d => some (d.map (fun i => (i.op.name, i.row)), (d.filter (fun i => i.op != o)).map (·.row))
  | .error _ => none

/-- under a REMOVED parent the common row `x a` is labelled REMOVED: dropping removed lines loses it
(`base_proj_new`), and "removed → absent from new" fails (`base_ops_exact`) -/
example : cxView [.op .removed] .removed = some ([("removed", "x a")], []) ∧
    rowsOf cxLvl = ["x a"] ∧ hasRow cxLvl "x a" = true := by decide

/-- under an ADDED parent the common row `x a` is labelled ADDED: dropping added lines loses it
(`base_proj_old`), and "added → absent from old" fails (`base_ops_exact`) -/
example : cxView [.op .added] .added = some ([("added", "x a")], []) ∧
    rowsOf cxLvl = ["x a"] ∧ hasRow cxLvl "x a" = true := by decide

/-! ### the sort -/

theorem mem_insertIdx {x y : Nat × DItem} {l : List (Nat × DItem)} :
    y ∈ insertIdx x l ↔ y = x ∨ y ∈ l := by
  induction l with
  | nil => simp [insertIdx]
  | cons z zs ih =>
    simp only [insertIdx]
    split
    · simp
    · simp only [List.mem_cons, ih]
      constructor
      · rintro (h | h | h) <;> simp [h]
      · rintro (h | h | h) <;> simp [h]

theorem insertIdx_perm (x : Nat × DItem) (l : List (Nat × DItem)) : (insertIdx x l).Perm (x :: l) := by
  induction l with
  | nil => simp [insertIdx]
  | cons z zs ih =>
    simp only [insertIdx]
    split
    · exact List.Perm.refl _
    · exact (List.Perm.cons z ih).trans (List.Perm.swap x z zs)

theorem foldl_insertIdx_perm (l acc : List (Nat × DItem)) :
    (l.foldl (fun acc x => insertIdx x acc) acc).Perm (acc ++ l) := by
  induction l generalizing acc with
  | nil => simp
  | cons x xs ih =>
    simp only [List.foldl_cons]
    refine (ih _).trans ?_
    refine ((insertIdx_perm x acc).append_right xs).trans ?_
    simpa using (List.perm_middle (a := x) (l₁ := acc) (l₂ := xs)).symm

theorem sortIdx_perm (l : List (Nat × DItem)) : (sortIdx l).Perm l := by
  simpa [sortIdx] using foldl_insertIdx_perm l []

/-- weakly sorted by index -/
def IdxSorted (l : List (Nat × DItem)) : Prop := l.Pairwise (fun a b => a.1 ≤ b.1)

theorem insertIdx_sorted {x : Nat × DItem} {l : List (Nat × DItem)} (h : IdxSorted l) :
    IdxSorted (insertIdx x l) := by
  induction l with
  | nil => simp [insertIdx, IdxSorted]
  | cons z zs ih =>
    unfold IdxSorted at h ih ⊢
    rw [List.pairwise_cons] at h
    simp only [insertIdx]
    split
    · rename_i hlt
      have hle : x.1 ≤ z.1 := by
        simp only [Bool.or_eq_true, decide_eq_true_eq, Bool.and_eq_true, beq_iff_eq] at hlt
        omega
      refine List.pairwise_cons.2 ⟨?_, List.pairwise_cons.2 h⟩
      intro b hb
      rcases List.mem_cons.1 hb with rfl | hb
      · exact hle
      · exact Nat.le_trans hle (h.1 b hb)
    · rename_i hlt
      have hle : z.1 ≤ x.1 := by
        simp only [Bool.or_eq_true, decide_eq_true_eq, Bool.and_eq_true, beq_iff_eq, not_or] at hlt
        omega
      refine List.pairwise_cons.2 ⟨?_, ih h.2⟩
      intro b hb
      rcases mem_insertIdx.1 hb with rfl | hb
      · exact hle
      · exact h.1 b hb

theorem filter_insertIdx_neg (p : Nat × DItem → Bool) {x : Nat × DItem} (hx : p x = false)
    (l : List (Nat × DItem)) : (insertIdx x l).filter p = l.filter p := by
  induction l with
  | nil => simp [insertIdx, hx]
  | cons z zs ih =>
    simp only [insertIdx]
    split
    · simp [List.filter_cons, hx]
    · simp [List.filter_cons, ih]

theorem filter_insertIdx_pos (p : Nat × DItem → Bool) {x : Nat × DItem} (hx : p x = true)
    (l : List (Nat × DItem)) (hs : IdxSorted l) (hlt : ∀ y ∈ l, p y = true → y.1 < x.1) :
    (insertIdx x l).filter p = l.filter p ++ [x] := by
  induction l with
  | nil => simp [insertIdx, hx]
  | cons z zs ih =>
    unfold IdxSorted at hs ih
    rw [List.pairwise_cons] at hs
    simp only [insertIdx]
    split
    · rename_i h
      have hle : x.1 ≤ z.1 := by
        simp only [Bool.or_eq_true, decide_eq_true_eq, Bool.and_eq_true, beq_iff_eq] at h
        omega
      have hnone : (z :: zs).filter p = [] := by
        rw [List.filter_eq_nil_iff]
        intro y hy hpy
        have h1 := hlt y hy hpy
        rcases List.mem_cons.1 hy with rfl | hy'
        · omega
        · have := hs.1 y hy'; omega
      rw [List.filter_cons, hx, hnone]; simp
    · have := ih hs.2 (fun y hy => hlt y (List.mem_cons_of_mem _ hy))
      rw [List.filter_cons, this, List.filter_cons]
      split <;> simp

theorem filter_foldl_insertIdx (p : Nat × DItem → Bool) (l acc : List (Nat × DItem))
    (hs : IdxSorted acc) (hp : (l.filter p).Pairwise (fun a b => a.1 < b.1))
    (hlt : ∀ a ∈ acc, p a = true → ∀ b ∈ l, p b = true → a.1 < b.1) :
    (l.foldl (fun acc x => insertIdx x acc) acc).filter p = acc.filter p ++ l.filter p := by
  induction l generalizing acc with
  | nil => simp
  | cons x xs ih =>
    simp only [List.foldl_cons]
    cases hx : p x with
    | false =>
      rw [List.filter_cons, hx] at hp
      rw [ih _ (insertIdx_sorted hs) (by simpa using hp), filter_insertIdx_neg p hx]
      · simp [hx]
      · intro a ha hpa b hb hpb
        rcases mem_insertIdx.1 ha with rfl | ha
        · simp [hx] at hpa
        · exact hlt a ha hpa b (List.mem_cons_of_mem _ hb) hpb
    | true =>
      rw [List.filter_cons, hx] at hp
      simp only [if_true, List.pairwise_cons] at hp
      rw [ih _ (insertIdx_sorted hs) hp.2, filter_insertIdx_pos p hx acc hs]
      · simp [hx]
      · intro y hy hpy
        exact hlt y hy hpy x (List.mem_cons_self) hx
      · intro a ha hpa b hb hpb
        rcases mem_insertIdx.1 ha with rfl | ha
        · exact hp.1 b (List.mem_filter.2 ⟨hb, hpb⟩)
        · exact hlt a ha hpa b (List.mem_cons_of_mem _ hb) hpb

/-- the sorted list, restricted to a class of items that arrive with strictly increasing indices, keeps
their order -/
theorem filter_sortIdx (p : Nat × DItem → Bool) (l : List (Nat × DItem))
    (hp : (l.filter p).Pairwise (fun a b => a.1 < b.1)) : (sortIdx l).filter p = l.filter p := by
  have := filter_foldl_insertIdx p l [] (by simp [IdxSorted]) hp (by simp)
  simpa [sortIdx] using this


theorem hasRow_iff {l : Level} {r : String} : hasRow l r = true ↔ r ∈ rowsOf l := by
  simp only [hasRow, rowsOf, List.any_eq_true, beq_iff_eq, List.mem_map]

theorem hasRow_false_iff {l : Level} {r : String} : hasRow l r = false ↔ r ∉ rowsOf l := by
  rw [← hasRow_iff]; simp

/-- the op `base_diff` gives the row of `new` at position `idx` -/
def opOf (pops : List Pop) (m2a : Bool) (old : Level) (idx : Nat) (dis : Bool) (row : String) : Op :=
  if !hasRow old row then .added
  else if dis || idx != indexOf old row then (if m2a then lastOp pops else .moved)
  else lastOp pops

/-- `block_in_disorder` after that row -/
def disOf (old : Level) (idx : Nat) (dis : Bool) (row : String) : Bool :=
  dis || !hasRow old row || idx != indexOf old row

def oldKids (old : Level) (row : String) : Level :=
  match lookupA old row with
  | some (_, c) => c.kids
  | none => []

theorem newItems_cons (rec : Rec) (pops : List Pop) (m2a : Bool) (old : Level) (idx : Nat) (dis : Bool)
    (row : String) (m : PMatch) (ch : ACfg) (rest : Level) :
    newItems rec pops m2a old idx dis ((row, m, ch) :: rest) =
      match rec (pops ++ [.op (opOf pops m2a old idx dis row)]) (oldKids old row) ch.kids with
      | .error e => .error e
      | .ok cs =>
        match newItems rec pops m2a old (idx + 1) (disOf old idx dis row) rest with
        | .error e => .error e
        | .ok more => .ok ((idx, .mk (opOf pops m2a old idx dis row) row cs m) :: more) := by
  rw [newItems]
  unfold opOf disOf oldKids
  by_cases h1 : hasRow old row = true <;> by_cases h2 : (dis || idx != indexOf old row) = true
  · simp [h1, h2]; rfl
  · simp at h2; simp [h1, h2]; rfl
  · simp [h1]; rfl
  · simp [h1]; rfl


theorem opOf_cases (pops : List Pop) (m2a : Bool) (old : Level) (idx : Nat) (dis : Bool) (row : String) :
    (opOf pops m2a old idx dis row = .added ∧ hasRow old row = false) ∨
    (hasRow old row = true ∧ (opOf pops m2a old idx dis row = .moved ∨ opOf pops m2a old idx dis row = lastOp pops)) := by
  unfold opOf
  cases h : hasRow old row
  · simp
  · right
    refine ⟨rfl, ?_⟩
    simp only [Bool.not_true, Bool.false_eq_true, if_false]
    split
    · split <;> simp
    · simp

theorem newItems_spec (rec : Rec) (pops : List Pop) (m2a : Bool) (old : Level) :
    ∀ (new : Level) (idx : Nat) (dis : Bool) (ns : List (Nat × DItem)),
      newItems rec pops m2a old idx dis new = .ok ns →
      ns.map (·.1) = List.range' idx new.length ∧ ns.map (·.2.row) = rowsOf new ∧
      ∀ x ∈ ns, (x.2.op = .added ∧ hasRow old x.2.row = false) ∨
        (hasRow old x.2.row = true ∧ (x.2.op = .moved ∨ x.2.op = lastOp pops)) := by
  intro new
  induction new with
  | nil =>
    intro idx dis ns h
    simp only [newItems, Except.ok.injEq] at h
    subst h; simp [rowsOf]
  | cons e rest ih =>
    obtain ⟨row, m, ch⟩ := e
    intro idx dis ns h
    rw [newItems_cons] at h
    split at h
    · cases h
    · split at h
      · cases h
      · rename_i more hmore
        cases h
        obtain ⟨h1, h2, h3⟩ := ih _ _ _ hmore
        refine ⟨?_, ?_, ?_⟩
        · simp [h1, List.range'_succ]
        · simp [rowsOf] at h2 ⊢; exact ⟨rfl, h2⟩
        · intro x hx
          rcases List.mem_cons.1 hx with rfl | hx
          · exact opOf_cases ..
          · exact h3 x hx

theorem removedItems_spec (rec : Rec) (pops : List Pop) (new : Level) :
    ∀ (old : Level) (idx : Nat) (rs : List (Nat × DItem)),
      removedItems rec pops new idx old = .ok rs →
      rs.map (·.2.row) = (rowsOf old).filter (fun r => !hasRow new r) ∧
      ∀ x ∈ rs, x.2.op = .removed ∧ hasRow new x.2.row = false := by
  intro old
  induction old with
  | nil =>
    intro idx rs h
    simp only [removedItems, Except.ok.injEq] at h
    subst h; simp [rowsOf]
  | cons e rest ih =>
    obtain ⟨row, m, ch⟩ := e
    intro idx rs h
    rw [removedItems] at h
    split at h
    · rename_i hr
      obtain ⟨h1, h2⟩ := ih _ _ h
      refine ⟨?_, h2⟩
      simp [rowsOf, hr] at h1 ⊢; exact h1
    · rename_i hr
      split at h
      · cases h
      · split at h
        · cases h
        · rename_i more hmore
          cases h
          obtain ⟨h1, h2⟩ := ih _ _ hmore
          refine ⟨?_, ?_⟩
          · simp [rowsOf, hr] at h1 ⊢; exact ⟨rfl, h1⟩
          · intro x hx
            rcases List.mem_cons.1 hx with rfl | hx
            · simpa [DItem.op, DItem.row] using hr
            · exact h2 x hx

/-- inversion of `baseDiff` -/
theorem baseDiff_inv {rec : Rec} {pops : List Pop} {m2a : Bool} {old new : Level} {d : List DItem}
    (h : baseDiff rec pops m2a old new = .ok d) :
    ∃ rs ns, removedItems rec pops new 0 old = .ok rs ∧ newItems rec pops m2a old 0 false new = .ok ns ∧
      d = (sortIdx (rs ++ ns)).map (·.2) := by
  unfold baseDiff at h
  split at h
  · cases h
  · cases h
  · rename_i rs ns h1 h2
    cases h
    exact ⟨rs, ns, h1, h2, rfl⟩


theorem hasRow_nil (r : String) : hasRow [] r = false := by simp [hasRow]

theorem sortIdx_split (p : Nat × DItem → Bool) (rs ns : List (Nat × DItem)) (s n : Nat)
    (hrs : ∀ x ∈ rs, p x = false) (hns : ∀ x ∈ ns, p x = true)
    (hidx : ns.map (·.1) = List.range' s n) : (sortIdx (rs ++ ns)).filter p = ns := by
  have h1 : (rs ++ ns).filter p = ns := by
    rw [List.filter_append, List.filter_eq_nil_iff.2 (by simpa using hrs), List.filter_eq_self.2 hns]
    simp
  have h2 : ns.Pairwise (fun a b => a.1 < b.1) := by
    have := List.pairwise_lt_range' (s := s) (n := n) 1
    rw [← hidx, List.pairwise_map] at this
    exact this
  rw [filter_sortIdx p _ (by rw [h1]; exact h2), h1]

-- STATEMENT CHANGED: hypothesis `hp` added (see the header)
theorem base_proj_new (rec : Rec) (pops : List Pop) (m2a : Bool) (old new : Level) (d : List DItem)
    (h : baseDiff rec pops m2a old new = .ok d) (hp : new = [] ∨ lastOp pops ≠ .removed) :
    (d.filter (fun i => i.op != .removed)).map (·.row) = rowsOf new := by
  obtain ⟨rs, ns, hr, hn, rfl⟩ := baseDiff_inv h
  obtain ⟨r1, r2⟩ := removedItems_spec _ _ _ _ _ _ hr
  obtain ⟨n1, n2, n3⟩ := newItems_spec _ _ _ _ _ _ _ _ hn
  have hns : ∀ x ∈ ns, (fun x : Nat × DItem => x.2.op != .removed) x = true := by
    intro x hx
    rcases hp with rfl | hp
    · simp [rowsOf] at n2; subst n2; cases hx
    · rcases n3 x hx with ⟨ha, _⟩ | ⟨_, ha | ha⟩
      · simp [ha]
      · simp [ha]
      · simpa [ha] using hp
  have hrs : ∀ x ∈ rs, (fun x : Nat × DItem => x.2.op != .removed) x = false := by
    intro x hx; simp [(r2 x hx).1]
  have := sortIdx_split (fun x : Nat × DItem => x.2.op != .removed) rs ns _ _ hrs hns n1
  rw [List.filter_map]
  simp only [Function.comp_def, this, List.map_map]
  exact n2

theorem rows_perm (old new : Level) (ho : (rowsOf old).Nodup) (hn : (rowsOf new).Nodup) :
    ((rowsOf old).filter (fun r => !hasRow new r) ++ (rowsOf new).filter (fun r => hasRow old r)).Perm
      (rowsOf old) := by
  have hA : ((rowsOf new).filter (fun r => hasRow old r)).Perm ((rowsOf old).filter (fun r => hasRow new r)) := by
    rw [List.perm_ext_iff_of_nodup (hn.filter _) (ho.filter _)]
    intro r
    simp only [List.mem_filter, hasRow_iff]
    exact And.comm
  refine (List.Perm.append_left _ hA).trans ?_
  have := List.filter_append_perm (fun r => !hasRow new r) (rowsOf old)
  simpa using this

-- STATEMENT CHANGED: hypothesis `hp` added (see the header)
theorem base_proj_old (rec : Rec) (pops : List Pop) (m2a : Bool) (old new : Level) (d : List DItem)
    (h : baseDiff rec pops m2a old new = .ok d) (hp : old = [] ∨ lastOp pops ≠ .added)
    (ho : (rowsOf old).Nodup) (hn : (rowsOf new).Nodup) :
    ((d.filter (fun i => i.op != .added)).map (·.row)).Perm (rowsOf old) := by
  obtain ⟨rs, ns, hr, hnw, rfl⟩ := baseDiff_inv h
  obtain ⟨r1, r2⟩ := removedItems_spec _ _ _ _ _ _ hr
  obtain ⟨n1, n2, n3⟩ := newItems_spec _ _ _ _ _ _ _ _ hnw
  have hperm := (((sortIdx_perm (rs ++ ns)).map (·.2)).filter (fun i => i.op != .added)).map (·.row)
  refine hperm.trans ?_
  have e1 : ((rs.map (·.2)).filter (fun i => i.op != .added)).map (·.row)
      = (rowsOf old).filter (fun r => !hasRow new r) := by
    rw [List.filter_eq_self.2, List.map_map]
    · exact r1
    · intro i hi
      obtain ⟨x, hx, rfl⟩ := List.mem_map.1 hi
      simp [(r2 x hx).1]
  have e2 : ((ns.map (·.2)).filter (fun i => i.op != .added)).map (·.row)
      = (rowsOf new).filter (fun r => hasRow old r) := by
    rw [← n2, List.filter_map, List.filter_map, List.map_map]
    congr 1
    apply List.filter_congr
    intro x hx
    simp only [Function.comp_def]
    rcases n3 x hx with ⟨ha, hb⟩ | ⟨hb, ha | ha⟩
    · simp [ha, hb]
    · simp [ha, hb]
    · rcases hp with rfl | hp
      · simp [hasRow_nil] at hb
      · rw [hb, ha]; simpa using hp
  rw [List.map_append, List.filter_append, List.map_append, e1, e2]
  exact rows_perm old new ho hn

-- STATEMENT CHANGED: hypotheses `hpa`, `hpr` added (see the header)
theorem base_ops_exact (rec : Rec) (pops : List Pop) (m2a : Bool) (old new : Level) (d : List DItem)
    (h : baseDiff rec pops m2a old new = .ok d)
    (hpa : old = [] ∨ lastOp pops ≠ .added) (hpr : new = [] ∨ lastOp pops ≠ .removed)
    (i : DItem) (hi : i ∈ d) :
    (i.op = .added → hasRow old i.row = false ∧ hasRow new i.row = true) ∧
    (i.op = .removed → hasRow old i.row = true ∧ hasRow new i.row = false) ∧
    (i.op ≠ .added → i.op ≠ .removed → hasRow old i.row = true ∧ hasRow new i.row = true) := by
  obtain ⟨rs, ns, hr, hnw, rfl⟩ := baseDiff_inv h
  obtain ⟨r1, r2⟩ := removedItems_spec _ _ _ _ _ _ hr
  obtain ⟨n1, n2, n3⟩ := newItems_spec _ _ _ _ _ _ _ _ hnw
  obtain ⟨x, hx, rfl⟩ := List.mem_map.1 hi
  rw [(sortIdx_perm _).mem_iff, List.mem_append] at hx
  rcases hx with hx | hx
  · obtain ⟨h1, h2⟩ := r2 x hx
    have h3 : hasRow old x.2.row = true := by
      rw [hasRow_iff]
      have : x.2.row ∈ rs.map (·.2.row) := List.mem_map.2 ⟨x, hx, rfl⟩
      rw [r1] at this
      exact (List.mem_filter.1 this).1
    simp [h1, h2, h3]
  · have h3 : hasRow new x.2.row = true := by
      rw [hasRow_iff, ← n2]
      exact List.mem_map.2 ⟨x, hx, rfl⟩
    rcases n3 x hx with ⟨ha, hb⟩ | ⟨hb, hc⟩
    · simp [ha, hb, h3]
    · have hna : x.2.op ≠ .added := by
        rcases hc with hc | hc
        · simp [hc]
        · rcases hpa with rfl | hpa
          · simp [hasRow_nil] at hb
          · rw [hc]; exact hpa
      have hnr : x.2.op ≠ .removed := by
        rcases hc with hc | hc
        · simp [hc]
        · rcases hpr with rfl | hpr
          · simp [hasRow_nil] at h3
          · rw [hc]; exact hpr
      simp [hna, hnr, hb, h3]


/-- closed form of `block_in_disorder` for a run of `newItems` started at `(idx, dis)` -/
def disClosed (old : Level) (idx : Nat) (dis : Bool) (l : Level) (k : Nat) : Bool :=
  dis || (List.range (k + 1)).any fun j =>
    match l[j]? with
    | none => false
    | some e => !hasRow old e.1 || indexOf old e.1 != idx + j

theorem disClosed_succ (old : Level) (idx : Nat) (dis : Bool) (e : String × PMatch × ACfg) (rest : Level)
    (k : Nat) :
    disClosed old idx dis (e :: rest) (k + 1) = disClosed old (idx + 1) (disOf old idx dis e.1) rest k := by
  unfold disClosed disOf
  rw [List.range_succ_eq_map (n := k + 1), List.any_cons, List.any_map]
  simp only [List.getElem?_cons_zero, Function.comp_def, Nat.succ_eq_add_one, List.getElem?_cons_succ,
    Nat.add_zero]
  simp only [← Nat.add_assoc, Nat.add_right_comm idx 1, Bool.or_assoc, bne_comm (a := idx)]

theorem newItems_moved (rec : Rec) (pops : List Pop) (old : Level) :
    ∀ (new : Level) (idx : Nat) (dis : Bool) (ns : List (Nat × DItem)) (k : Nat) (e : String × PMatch × ACfg),
      newItems rec pops false old idx dis new = .ok ns → new[k]? = some e → hasRow old e.1 = true →
      ∃ x ∈ ns, x.2.row = e.1 ∧ x.2.op = (if disClosed old idx dis new k then Op.moved else lastOp pops) := by
  intro new
  induction new with
  | nil => intro idx dis ns k e _ hk; simp at hk
  | cons e0 rest ih =>
    obtain ⟨row, m, ch⟩ := e0
    intro idx dis ns k e h hk hc
    rw [newItems_cons] at h
    split at h
    · cases h
    · split at h
      · cases h
      · rename_i cs _ more hmore
        cases h
        cases k with
        | zero =>
          simp only [List.getElem?_cons_zero, Option.some.injEq] at hk
          subst hk
          refine ⟨_, List.mem_cons_self, rfl, ?_⟩
          simp only at hc
          simp only [DItem.op, opOf, disClosed, hc]
          simp [bne_comm, hc]
        | succ k =>
          simp only [List.getElem?_cons_succ] at hk
          obtain ⟨x, hx, h1, h2⟩ := ih _ _ _ k e hmore hk hc
          refine ⟨x, List.mem_cons_of_mem _ hx, h1, ?_⟩
          rw [h2, disClosed_succ]

theorem moved_characterisation (rec : Rec) (pops : List Pop) (old new : Level) (d : List DItem)
    (h : baseDiff rec pops false old new = .ok d) (hn : (rowsOf new).Nodup)
    (k : Nat) (e : String × PMatch × ACfg) (hk : new[k]? = some e) (hcommon : hasRow old e.1 = true) :
    ∃ i ∈ d, i.row = e.1 ∧ i.op = (if disorderUpTo old new k then Op.moved else lastOp pops) := by
  have _ := hn
  obtain ⟨rs, ns, hr, hnw, rfl⟩ := baseDiff_inv h
  obtain ⟨x, hx, h1, h2⟩ := newItems_moved rec pops old new 0 false ns k e hnw hk hcommon
  refine ⟨x.2, List.mem_map.2 ⟨x, ?_, rfl⟩, h1, ?_⟩
  · rw [(sortIdx_perm _).mem_iff]; exact List.mem_append_right _ hx
  · rw [h2]
    simp only [disClosed, disorderUpTo, Bool.false_or, Nat.zero_add]
    rfl


@[simp] theorem DItem.op_mk (o : Op) (r : String) (ch : List DItem) (m : PMatch) :
    (DItem.mk o r ch m).op = o := rfl

@[simp] theorem DItem.children_mk (o : Op) (r : String) (ch : List DItem) (m : PMatch) :
    (DItem.mk o r ch m).children = ch := rfl

theorem stripUnchanged_nil : stripUnchanged [] = [] := by
  rw [stripUnchanged]

theorem stripUnchanged_cons (i : DItem) (rest : List DItem) :
    stripUnchanged (i :: rest) =
      if i.op == .unchanged then stripUnchanged rest else stripItem i :: stripUnchanged rest := by
  rw [stripUnchanged]

theorem stripItem_mk (o : Op) (r : String) (ch : List DItem) (m : PMatch) :
    stripItem (.mk o r ch m) = .mk o r (stripUnchanged ch) m := by
  rw [stripItem]

theorem stripItem_op (i : DItem) : (stripItem i).op = i.op := by
  obtain ⟨o, r, ch, m⟩ := i
  rw [stripItem_mk]; rfl

theorem markUnchanged_nil : markUnchanged [] = [] := by
  rw [markUnchanged]

theorem markUnchanged_cons (i : DItem) (rest : List DItem) :
    markUnchanged (i :: rest) = markItem i :: markUnchanged rest := by
  rw [markUnchanged]

theorem markItem_mk (o : Op) (r : String) (ch : List DItem) (m : PMatch) :
    markItem (.mk o r ch m) =
      if o == .affected then
        .mk (if (markUnchanged ch).all (·.op == .unchanged) then .unchanged else .affected) r
          (markUnchanged ch) m
      else .mk o r ch m := by
  rw [markItem]

theorem allAffected_nil : allAffected [] = true := by
  rw [allAffected]

theorem allAffected_cons (i : DItem) (rest : List DItem) :
    allAffected (i :: rest) = (allAffectedItem i && allAffected rest) := by
  rw [allAffected]

theorem allAffectedItem_mk (o : Op) (r : String) (ch : List DItem) (m : PMatch) :
    allAffectedItem (.mk o r ch m) = (o == .affected && allAffected ch) := by
  rw [allAffectedItem]

mutual
  theorem strip_idempotent_list : ∀ (d : List DItem), stripUnchanged (stripUnchanged d) = stripUnchanged d
    | [] => by rw [stripUnchanged_nil, stripUnchanged_nil]
    | i :: rest => by
      rw [stripUnchanged_cons]
      split
      · exact strip_idempotent_list rest
      · rename_i ho
        rw [stripUnchanged_cons, stripItem_op, if_neg ho, strip_idempotent_item i,
          strip_idempotent_list rest]
  theorem strip_idempotent_item : ∀ (i : DItem), stripItem (stripItem i) = stripItem i
    | .mk o r ch m => by
      rw [stripItem_mk, stripItem_mk, strip_idempotent_list ch]
end

theorem strip_idempotent (d : List DItem) : stripUnchanged (stripUnchanged d) = stripUnchanged d :=
  strip_idempotent_list d

theorem allAffected_iff (l : List DItem) :
    allAffected l = true ↔ ∀ i ∈ l, i.op = .affected ∧ allAffected i.children = true := by
  induction l with
  | nil => simp [allAffected_nil]
  | cons i rest ih =>
    obtain ⟨o, r, ch, m⟩ := i
    simp [allAffected_cons, allAffectedItem_mk, ih, and_assoc]

theorem allAffected_append (a b : List DItem) (ha : allAffected a = true) (hb : allAffected b = true) :
    allAffected (a ++ b) = true := by
  rw [allAffected_iff] at ha hb ⊢
  intro i hi
  rcases List.mem_append.1 hi with hi | hi
  · exact ha i hi
  · exact hb i hi

mutual
  theorem markUnchanged_allAffected_list : ∀ (d : List DItem), allAffected d = true →
      (markUnchanged d).all (·.op == .unchanged) = true
    | [], _ => by simp [markUnchanged_nil]
    | i :: rest, h => by
      rw [allAffected_cons, Bool.and_eq_true] at h
      rw [markUnchanged_cons, List.all_cons, markUnchanged_allAffected_list rest h.2, Bool.and_true,
        beq_iff_eq]
      exact markUnchanged_allAffected_item i h.1
  theorem markUnchanged_allAffected_item : ∀ (i : DItem), allAffectedItem i = true →
      (markItem i).op = .unchanged
    | .mk o r ch m, h => by
      rw [allAffectedItem_mk, Bool.and_eq_true] at h
      rw [markItem_mk, if_pos h.1, markUnchanged_allAffected_list ch h.2]
      rfl
end

theorem markUnchanged_allAffected (d : List DItem) (h : allAffected d = true) :
    (markUnchanged d).all (·.op == .unchanged) = true :=
  markUnchanged_allAffected_list d h

theorem strip_of_all_unchanged (l : List DItem) (h : l.all (·.op == .unchanged) = true) :
    stripUnchanged l = [] := by
  induction l with
  | nil => exact stripUnchanged_nil
  | cons i rest ih =>
    simp only [List.all_cons, Bool.and_eq_true] at h
    rw [stripUnchanged_cons, if_pos h.1]
    exact ih h.2


/-! ### self diff -/

theorem noDupRowsL_iff (l : Level) :
    NoDupRowsL l ↔ (rowsOf l).Nodup ∧ ∀ x ∈ l, NoDupRows x.2.2 := by
  induction l with
  | nil => simp [NoDupRowsL, rowsOf]
  | cons e rest ih =>
    obtain ⟨r, m, c⟩ := e
    simp only [NoDupRowsL, ih, rowsOf, List.map_cons, List.nodup_cons, List.mem_map, List.mem_cons,
      forall_eq_or_imp]
    constructor
    · rintro ⟨h1, h2, h3, h4⟩
      exact ⟨⟨fun ⟨x, hx, hxr⟩ => h1 x hx hxr, h3⟩, h2, h4⟩
    · rintro ⟨⟨h1, h3⟩, h2, h4⟩
      exact ⟨fun x hx hxr => h1 ⟨x, hx, hxr⟩, h2, h3, h4⟩

theorem indexOf_append (pre : Level) (e : String × PMatch × ACfg) (rest : Level) (h : e.1 ∉ rowsOf pre) :
    indexOf (pre ++ e :: rest) e.1 = pre.length := by
  induction pre with
  | nil => simp [indexOf]
  | cons p ps ih =>
    simp only [rowsOf, List.map_cons, List.mem_cons, not_or] at h
    have hne : (p.1 != e.1) = true := by
      simp only [bne_iff_ne, ne_eq]; exact fun hh => h.1 hh.symm
    have := ih (by simpa [rowsOf] using h.2)
    simp only [indexOf] at this ⊢
    simp only [List.cons_append, List.takeWhile_cons, hne, if_true, List.length_cons, this]

theorem lookupA_append (pre : Level) (e : String × PMatch × ACfg) (rest : Level) (h : e.1 ∉ rowsOf pre) :
    lookupA (pre ++ e :: rest) e.1 = some e.2 := by
  induction pre with
  | nil => simp [lookupA]
  | cons p ps ih =>
    simp only [rowsOf, List.map_cons, List.mem_cons, not_or] at h
    have hne : (p.1 == e.1) = false := by
      simp only [beq_eq_false_iff_ne, ne_eq]; exact fun hh => h.1 hh.symm
    have := ih (by simpa [rowsOf] using h.2)
    simp only [lookupA] at this ⊢
    simp only [List.cons_append, List.find?_cons, hne]
    exact this

theorem lastOp_append_op (pops : List Pop) (o : Op) : lastOp (pops ++ [.op o]) = o := by
  simp [lastOp]

theorem lastOp_append_rewrite (pops : List Pop) (o : Op) : lastOp (pops ++ [.rewriteMarker, .op o]) = o := by
  simp [lastOp, List.getLast?_append]

/-- what the self-diff induction knows about the recursive callee -/
def RecSelf (rec : Rec) : Prop :=
  ∀ (pops : List Pop) (c : ACfg) (cs : List DItem), lastOp pops = .affected → NoDupRows c →
    rec pops c.kids c.kids = .ok cs → allAffected cs = true

theorem removedItems_all_present (rec : Rec) (pops : List Pop) (new : Level) :
    ∀ (l : Level) (idx : Nat), (∀ x ∈ l, hasRow new x.1 = true) → removedItems rec pops new idx l = .ok [] := by
  intro l
  induction l with
  | nil => intro idx _; simp [removedItems]
  | cons e rest ih =>
    obtain ⟨r, m, c⟩ := e
    intro idx h
    rw [removedItems, if_pos (h _ List.mem_cons_self)]
    exact ih _ (fun x hx => h x (List.mem_cons_of_mem _ hx))

theorem newItems_self (rec : Rec) (pops : List Pop) (m2a : Bool) (old : Level) (hrec : RecSelf rec)
    (hpops : lastOp pops = .affected) (hnd : (rowsOf old).Nodup) :
    ∀ (suffix pre : Level) (ns : List (Nat × DItem)), old = pre ++ suffix →
      (∀ x ∈ suffix, NoDupRows x.2.2) →
      newItems rec pops m2a old pre.length false suffix = .ok ns →
      ∀ x ∈ ns, x.2.op = .affected ∧ allAffected x.2.children = true := by
  intro suffix
  induction suffix with
  | nil =>
    intro pre ns _ _ h
    simp only [newItems, Except.ok.injEq] at h
    subst h; simp
  | cons e rest ih =>
    obtain ⟨row, m, ch⟩ := e
    intro pre ns hold hk h
    have hnot : row ∉ rowsOf pre := by
      rw [hold] at hnd
      simp only [rowsOf, List.map_append, List.map_cons] at hnd
      have := (List.nodup_append.1 hnd).2.2 
      intro hmem
      exact this row hmem row List.mem_cons_self rfl
    have hidx : indexOf old row = pre.length := by
      rw [hold]; exact indexOf_append pre (row, m, ch) rest hnot
    have hlook : lookupA old row = some (m, ch) := by
      rw [hold]; exact lookupA_append pre (row, m, ch) rest hnot
    have hhas : hasRow old row = true := by
      rw [hasRow_iff, hold]; simp [rowsOf]
    have hop : opOf pops m2a old pre.length false row = .affected := by
      simp [opOf, hhas, hidx, hpops]
    have hdis : disOf old pre.length false row = false := by
      simp [disOf, hhas, hidx]
    have hkids : oldKids old row = ch.kids := by
      simp [oldKids, hlook]
    rw [newItems_cons, hop, hdis, hkids] at h
    split at h
    · cases h
    · rename_i cs hcs
      split at h
      · cases h
      · rename_i more hmore
        cases h
        have hcs' := hrec _ ch cs (lastOp_append_op pops .affected) (hk _ List.mem_cons_self) hcs
        have hmore' := ih (pre ++ [(row, m, ch)]) more (by simp [hold])
          (fun x hx => hk x (List.mem_cons_of_mem _ hx)) (by simpa using hmore)
        intro x hx
        rcases List.mem_cons.1 hx with rfl | hx
        · exact ⟨rfl, hcs'⟩
        · exact hmore' x hx

theorem baseDiff_self (rec : Rec) (pops : List Pop) (m2a : Bool) (f : Level) (d : List DItem)
    (hrec : RecSelf rec) (hpops : lastOp pops = .affected) (hnd : (rowsOf f).Nodup)
    (hk : ∀ x ∈ f, NoDupRows x.2.2) (h : baseDiff rec pops m2a f f = .ok d) : allAffected d = true := by
  obtain ⟨rs, ns, hr, hn, rfl⟩ := baseDiff_inv h
  rw [removedItems_all_present rec pops f f 0
    (fun x hx => hasRow_iff.2 (List.mem_map.2 ⟨x, hx, rfl⟩))] at hr
  cases hr
  obtain ⟨n1, -, -⟩ := newItems_spec _ _ _ _ _ _ _ _ hn
  have hs := newItems_self rec pops m2a f hrec hpops hnd f [] ns rfl hk hn
  have hsort := sortIdx_split (fun _ => true) [] ns _ _ (by simp) (by simp) n1
  rw [List.filter_eq_self.2 (by simp)] at hsort
  rw [hsort, allAffected_iff]
  intro i hi
  obtain ⟨x, hx, rfl⟩ := List.mem_map.1 hi
  exact hs x hx

theorem runLogic_self (rec : Rec) (pops : List Pop) (lg : String) (f : Level) (d : List DItem)
    (hrec : RecSelf rec) (hpops : lastOp pops = .affected) (hnd : (rowsOf f).Nodup)
    (hk : ∀ x ∈ f, NoDupRows x.2.2) (h : runLogic rec pops lg f f = .ok d) : allAffected d = true := by
  unfold runLogic at h
  split at h
  · exact baseDiff_self rec pops true f d hrec hpops hnd hk h
  · split at h
    · exact baseDiff_self rec pops false f d hrec hpops hnd hk h
    · split at h
      · simp only at h
        split at h
        · cases h
        · rename_i d' hd'
          have hd := baseDiff_self rec _ false f d' hrec
            (by rw [lastOp_append_rewrite]; exact hpops) hnd hk hd'
          split at h
          · cases h; exact hd
          · cases h; simp [allAffected]
      · cases h

theorem runLogics_self (rec : Rec) (pops : List Pop) (l : Level) (hrec : RecSelf rec)
    (hpops : lastOp pops = .affected) (hnd : NoDupRowsL l) :
    ∀ (ls : List String) (d : List DItem), runLogics rec pops l l ls = .ok d → allAffected d = true := by
  intro ls
  induction ls with
  | nil => intro d h; simp only [runLogics, Except.ok.injEq] at h; subst h; simp [allAffected]
  | cons lg ls ih =>
    intro d h
    rw [runLogics] at h
    split at h
    · cases h
    · rename_i d1 hd1
      split at h
      · cases h
      · rename_i ds hds
        cases h
        obtain ⟨h1, h2⟩ := (noDupRowsL_iff l).1 hnd
        refine allAffected_append _ _ (runLogic_self rec pops lg _ d1 hrec hpops ?_ ?_ hd1) (ih ds hds)
        · exact h1.sublist (List.filter_sublist.map _)
        · intro x hx; exact h2 x (List.mem_filter.1 hx).1

theorem callDiffLogic_self :
    ∀ (fuel : Nat) (pops : List Pop) (a : ACfg) (d : List DItem), lastOp pops = .affected → NoDupRows a →
      callDiffLogic fuel pops a.kids a.kids = .ok d → allAffected d = true := by
  intro fuel
  induction fuel with
  | zero => intro pops a d _ _ h; simp only [callDiffLogic, Except.ok.injEq] at h; subst h; simp [allAffected]
  | succ fuel ih =>
    intro pops a d hpops hnd h
    rw [callDiffLogic] at h
    obtain ⟨ks⟩ := a
    exact runLogics_self (callDiffLogic fuel) pops ks ih hpops (by simpa [NoDupRows] using hnd) _ d h

theorem self_diff_empty (fuel : Nat) (a : ACfg) (d : List DItem)
    (hnd : NoDupRows a) (hf : adepth a < fuel)
    (h : callDiffLogic fuel [.op .affected] a.kids a.kids = .ok d) :
    stripUnchanged (markUnchanged d) = [] := by
  have _ := hf
  exact strip_of_all_unchanged _ (markUnchanged_allAffected d
    (callDiffLogic_self fuel [.op .affected] a d (by simp [lastOp]) hnd h))

end Annet.Diff.Lemmas
