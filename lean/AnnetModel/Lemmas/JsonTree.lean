/-
C13 helper lemmas, part B: association lists, array indices (`str(i)` against the
RFC 6901 index syntax), reading through pointers, and the two
path updates of `apply_json_fragment` (`_ensure_pointer_exists` + `pointer.set`, and
`to_last` + `pop`) against their reference versions `setO` / `popO`.
-/
import AnnetModel.Spec.Json

namespace Annet.Json.Lemmas
open Annet.Json

/-! ### association lists -/

theorem lookup_upsert_self (k : String) (v : J) (l : List (String × J)) :
    lookup k (upsert k v l) = some v := by
  induction l with
  | nil => simp [upsert, lookup]
  | cons a rest ih =>
    obtain ⟨k', v'⟩ := a
    by_cases h : k' = k
    · simp [upsert, lookup, h]
    · simp [upsert, lookup, h, ih]

theorem lookup_upsert_ne (k k' : String) (v : J) (l : List (String × J)) (h : k ≠ k') :
    lookup k' (upsert k v l) = lookup k' l := by
  induction l with
  | nil => simp [upsert, lookup, h]
  | cons a rest ih =>
    obtain ⟨k2, v2⟩ := a
    by_cases h2 : k2 = k
    · subst h2
      simp [upsert, lookup, h]
    · by_cases h3 : k2 = k'
      · subst h3
        simp [upsert, lookup, h2]
      · simp [upsert, lookup, h2, h3, ih]

theorem upsert_of_lookup (k : String) (v : J) (l : List (String × J)) (h : lookup k l = some v) :
    upsert k v l = l := by
  induction l with
  | nil => simp [lookup] at h
  | cons a rest ih =>
    obtain ⟨k2, v2⟩ := a
    by_cases h2 : k2 = k
    · subst h2
      simp [lookup] at h
      simp [upsert, h]
    · simp [lookup, h2] at h
      simp [upsert, h2, ih h]

theorem upsert_upsert (k : String) (a b : J) (l : List (String × J)) :
    upsert k a (upsert k b l) = upsert k a l := by
  induction l with
  | nil => simp [upsert]
  | cons x rest ih =>
    obtain ⟨k2, v2⟩ := x
    by_cases h2 : k2 = k
    · simp [upsert, h2]
    · simp [upsert, h2, ih]

theorem lookup_erase_ne (k k' : String) (l : List (String × J)) (h : k ≠ k') :
    lookup k' (erase k l) = lookup k' l := by
  induction l with
  | nil => simp [erase, lookup]
  | cons a rest ih =>
    obtain ⟨k2, v2⟩ := a
    by_cases h2 : k2 = k
    · subst h2
      simp [erase, lookup, h]
    · by_cases h3 : k2 = k'
      · subst h3
        simp [erase, lookup, h2]
      · simp [erase, lookup, h2, h3, ih]

theorem erase_of_lookup_none (k : String) (l : List (String × J)) (h : lookup k l = none) :
    erase k l = l := by
  induction l with
  | nil => rfl
  | cons a rest ih =>
    obtain ⟨k2, v2⟩ := a
    by_cases h2 : k2 = k
    · simp [lookup, h2] at h
    · simp [lookup, h2] at h
      simp [erase, h2, ih h]

theorem lookup_erase_self (k : String) (l : List (String × J)) (hw : J.wfKvs l = true) :
    lookup k (erase k l) = none := by
  induction l with
  | nil => simp [erase, lookup]
  | cons a rest ih =>
    obtain ⟨k2, v2⟩ := a
    simp only [J.wfKvs, Bool.and_eq_true, Option.isNone_iff_eq_none] at hw
    by_cases h2 : k2 = k
    · subst h2
      simp [erase, hw.1.1]
    · simp [erase, lookup, h2, ih hw.2]

theorem lookup_upsert_isNone (k k' : String) (v : J) (l : List (String × J)) (h : k ≠ k')
    (hn : lookup k' l = none) : lookup k' (upsert k v l) = none := by
  rw [lookup_upsert_ne k k' v l h, hn]

theorem wfKvs_upsert (k : String) (v : J) (l : List (String × J)) (hl : J.wfKvs l = true)
    (hv : v.wf = true) : J.wfKvs (upsert k v l) = true := by
  induction l with
  | nil => simp [upsert, J.wfKvs, lookup, hv]
  | cons a rest ih =>
    obtain ⟨k2, v2⟩ := a
    simp only [J.wfKvs, Bool.and_eq_true, Option.isNone_iff_eq_none] at hl
    by_cases h2 : k2 = k
    · subst h2
      simp [upsert, J.wfKvs, hl.1.1, hl.2, hv]
    · simp only [upsert, h2, if_false, J.wfKvs, Bool.and_eq_true, Option.isNone_iff_eq_none]
      refine ⟨⟨?_, hl.1.2⟩, ih hl.2⟩
      exact lookup_upsert_isNone k k2 v rest (fun e => h2 e.symm) hl.1.1

theorem lookup_erase_isNone (k k' : String) (l : List (String × J)) (hn : lookup k' l = none) :
    lookup k' (erase k l) = none := by
  by_cases h : k = k'
  · subst h
    induction l with
    | nil => simp [erase, lookup]
    | cons a rest ih =>
      obtain ⟨k2, v2⟩ := a
      by_cases h2 : k2 = k
      · simp [lookup, h2] at hn
      · simp [lookup, h2] at hn
        simp [erase, lookup, h2, ih hn]
  · rw [lookup_erase_ne k k' l h, hn]

theorem wfKvs_erase (k : String) (l : List (String × J)) (hl : J.wfKvs l = true) :
    J.wfKvs (erase k l) = true := by
  induction l with
  | nil => simp [erase, J.wfKvs]
  | cons a rest ih =>
    obtain ⟨k2, v2⟩ := a
    simp only [J.wfKvs, Bool.and_eq_true, Option.isNone_iff_eq_none] at hl
    by_cases h2 : k2 = k
    · simp [erase, h2, hl.2]
    · simp only [erase, h2, if_false, J.wfKvs, Bool.and_eq_true, Option.isNone_iff_eq_none]
      exact ⟨⟨lookup_erase_isNone k k2 rest hl.1.1, hl.1.2⟩, ih hl.2⟩

theorem wf_of_lookup (k : String) (l : List (String × J)) (c : J) (hl : J.wfKvs l = true)
    (h : lookup k l = some c) : c.wf = true := by
  induction l with
  | nil => simp [lookup] at h
  | cons a rest ih =>
    obtain ⟨k2, v2⟩ := a
    simp only [J.wfKvs, Bool.and_eq_true] at hl
    by_cases h2 : k2 = k
    · simp [lookup, h2] at h
      subst h
      exact hl.1.2
    · simp [lookup, h2] at h
      exact ih hl.2 h

theorem lookup_of_mem (k : String) (v : J) (l : List (String × J)) (hl : J.wfKvs l = true)
    (h : (k, v) ∈ l) : lookup k l = some v := by
  induction l with
  | nil => simp at h
  | cons a rest ih =>
    obtain ⟨k2, v2⟩ := a
    simp only [J.wfKvs, Bool.and_eq_true, Option.isNone_iff_eq_none] at hl
    simp only [List.mem_cons, Prod.mk.injEq] at h
    rcases h with ⟨rfl, rfl⟩ | h
    · simp [lookup]
    · have := ih hl.2 h
      by_cases h2 : k2 = k
      · subst h2
        rw [hl.1.1] at this
        cases this
      · simp [lookup, h2, this]

theorem mem_of_lookup (k : String) (v : J) (l : List (String × J)) (h : lookup k l = some v) :
    (k, v) ∈ l := by
  induction l with
  | nil => simp [lookup] at h
  | cons a rest ih =>
    obtain ⟨k2, v2⟩ := a
    by_cases h2 : k2 = k
    · simp [lookup, h2] at h
      simp [h2, h]
    · simp [lookup, h2] at h
      simp [ih h]

theorem wfList_getElem (xs : List J) (i : Nat) (c : J) (hx : J.wfList xs = true) (h : xs[i]? = some c) :
    c.wf = true := by
  induction xs generalizing i with
  | nil => simp at h
  | cons x rest ih =>
    simp only [J.wfList, Bool.and_eq_true] at hx
    cases i with
    | zero => simp at h; subst h; exact hx.1
    | succ n => simp at h; exact ih n hx.2 h

/-! ### `str(i)` and the array-index syntax of RFC 6901 are inverse to each other -/

theorem char_le_iff (a b : Char) : a ≤ b ↔ a.toNat ≤ b.toNat := by
  rw [Char.le_def, UInt32.le_iff_toNat_le]
  rfl

theorem digitChar_of_isDigit (c : Char) (h : c.isDigit = true) : (c.toNat - 48).digitChar = c := by
  rw [Char.isDigit_iff_toNat] at h
  have h1 : 48 ≤ c.toNat := h.1
  have h2 : c.toNat ≤ 57 := h.2
  rw [← Char.ofNat_toNat c]
  generalize c.toNat = n at *
  have : n = 48 ∨ n = 49 ∨ n = 50 ∨ n = 51 ∨ n = 52 ∨ n = 53 ∨ n = 54 ∨ n = 55 ∨ n = 56 ∨ n = 57 := by omega
  rcases this with rfl | rfl | rfl | rfl | rfl | rfl | rfl | rfl | rfl | rfl <;> decide

/-- a canonical decimal numeral: first digit `1`–`9`, then digits -/
def Canon (c : Char) (cs : List Char) : Prop :=
  ('1' ≤ c ∧ c ≤ '9') ∧ ∀ d ∈ cs, ('0' ≤ d ∧ d ≤ '9')

theorem parseIndexL_canon (c : Char) (cs : List Char) (h : Canon c cs) :
    parseIndexL (c :: cs) = some (Nat.ofDigitChars 10 (c :: cs) 0) := by
  obtain ⟨⟨h1, h9⟩, hd⟩ := h
  have hc0 : c ≠ '0' := by
    intro e; subst e; revert h1; decide
  have hall : cs.all (fun d => decide ('0' ≤ d ∧ d ≤ '9')) = true := by
    simpa [List.all_eq_true] using hd
  unfold parseIndexL
  split
  · rename_i heq; cases heq
  · rename_i heq; cases heq; exact absurd rfl hc0
  · rename_i c' cs' _ heq
    cases heq
    simp only [h1, h9, hall, and_self, if_true]
    rfl

theorem canon_of_parseIndexL (l : List Char) (i : Nat) (h : parseIndexL l = some i) :
    (l = ['0'] ∧ i = 0) ∨ ∃ c cs, l = c :: cs ∧ Canon c cs ∧ i = Nat.ofDigitChars 10 l 0 := by
  unfold parseIndexL at h
  split at h
  · cases h
  · left; cases h; exact ⟨rfl, rfl⟩
  · rename_i c cs _
    right
    split at h
    · rename_i hc
      cases h
      refine ⟨c, cs, rfl, ⟨⟨hc.1, hc.2.1⟩, ?_⟩, rfl⟩
      have := hc.2.2
      simpa [List.all_eq_true] using this
    · cases h

theorem toDigits_ofDigitChars_acc (cs : List Char) (hcs : ∀ d ∈ cs, ('0' ≤ d ∧ d ≤ '9')) (m : Nat) (hm : 0 < m) :
    Nat.toDigits 10 (Nat.ofDigitChars 10 cs m) = Nat.toDigits 10 m ++ cs := by
  induction cs generalizing m with
  | nil => simp
  | cons d cs ih =>
    have hd := hcs d (by simp)
    rw [char_le_iff, char_le_iff] at hd
    have hdig : d.isDigit = true := Char.isDigit_iff_toNat.2 hd
    have hlt : d.toNat - 48 < 10 := by
      have : d.toNat ≤ 57 := hd.2
      omega
    rw [Nat.ofDigitChars_cons, ih (fun x hx => hcs x (by simp [hx])) _ (by omega)]
    rw [show ('0'.toNat) = 48 from rfl]
    rw [← Nat.toDigits_append_toDigits (by decide) hm hlt, Nat.toDigits_of_lt_base hlt,
      digitChar_of_isDigit d hdig]
    simp

theorem toDigits_ofDigitChars (c : Char) (cs : List Char) (h : Canon c cs) :
    Nat.toDigits 10 (Nat.ofDigitChars 10 (c :: cs) 0) = c :: cs := by
  obtain ⟨⟨h1, h9⟩, hd⟩ := h
  rw [char_le_iff] at h1 h9
  have h1' : 49 ≤ c.toNat := h1
  have h9' : c.toNat ≤ 57 := h9
  have hdig : c.isDigit = true := Char.isDigit_iff_toNat.2 ⟨by show 48 ≤ c.toNat; omega, h9⟩
  rw [Nat.ofDigitChars_cons, show ('0'.toNat) = 48 from rfl, Nat.mul_zero, Nat.zero_add,
    toDigits_ofDigitChars_acc cs hd _ (by omega), Nat.toDigits_of_lt_base (by omega),
    digitChar_of_isDigit c hdig]
  rfl

/-- `int(part)` of a part that passes `_RE_ARRAY_INDEX` prints back as that part -/
theorem toDigits_of_parseIndexL (l : List Char) (i : Nat) (h : parseIndexL l = some i) :
    Nat.toDigits 10 i = l := by
  rcases canon_of_parseIndexL l i h with ⟨rfl, rfl⟩ | ⟨c, cs, rfl, hc, rfl⟩
  · rfl
  · exact toDigits_ofDigitChars c cs hc

theorem canon_toDigits (n : Nat) (hn : 0 < n) : ∃ c cs, Nat.toDigits 10 n = c :: cs ∧ Canon c cs := by
  induction n using Nat.strongRecOn with
  | _ n ih =>
    rw [Nat.toDigits_eq_if (by decide)]
    split
    · rename_i hlt
      refine ⟨n.digitChar, [], rfl, ⟨?_, ?_⟩, by simp⟩
      · rw [char_le_iff, Nat.toNat_digitChar_of_lt_ten hlt]; show 49 ≤ 48 + n; omega
      · rw [char_le_iff, Nat.toNat_digitChar_of_lt_ten hlt]; show 48 + n ≤ 57; omega
    · rename_i hge
      obtain ⟨c, cs, he, hc, hcs⟩ := ih (n / 10) (by omega) (by omega)
      refine ⟨c, cs ++ [(n % 10).digitChar], by simp [he], hc, ?_⟩
      intro d hd
      simp only [List.mem_append, List.mem_singleton] at hd
      rcases hd with hd | rfl
      · exact hcs d hd
      · have hlt : n % 10 < 10 := Nat.mod_lt _ (by decide)
        rw [char_le_iff, char_le_iff, Nat.toNat_digitChar_of_lt_ten hlt]
        exact ⟨by show 48 ≤ 48 + n % 10; omega, by show 48 + n % 10 ≤ 57; omega⟩

/-- `str(i)` passes `_RE_ARRAY_INDEX` and `int` reads `i` back -/
theorem parseIndexL_toDigits (n : Nat) : parseIndexL (Nat.toDigits 10 n) = some n := by
  by_cases hn : n = 0
  · subst hn; rfl
  · obtain ⟨c, cs, he, hc⟩ := canon_toDigits n (by omega)
    rw [he, parseIndexL_canon c cs hc, ← he, Nat.ofDigitChars_ten_toDigits]

theorem parseIndex_idxKey (i : Nat) : parseIndex (idxKey i) = some i := by
  simp only [parseIndex, idxKey, Nat.toString_eq_repr, Nat.toList_repr]
  exact parseIndexL_toDigits i

theorem idxKey_of_parseIndex (k : String) (i : Nat) (h : parseIndex k = some i) : k = idxKey i := by
  have := toDigits_of_parseIndexL k.toList i h
  rw [idxKey, Nat.toString_eq_repr, Nat.repr_eq_ofList_toDigits, this, String.ofList_toList]

/-! ### reading through pointers -/

theorem getP_nil (d : J) : getP [] d = some d := by simp [getP]

theorem getP_append (a b : Ptr) (d : J) : getP (a ++ b) d = (getP a d).bind (getP b) := by
  induction a generalizing d with
  | nil => simp [getP]
  | cons k rest ih =>
    cases d with
    | obj kvs =>
      simp only [List.cons_append, getP]
      cases lookup k kvs with
      | none => simp
      | some c => simp [ih]
    | arr xs =>
      simp only [List.cons_append, getP]
      cases parseIndex k with
      | none => simp
      | some i =>
        cases hx : xs[i]? with
        | none => simp [hx]
        | some c => simp [hx, ih]
    | null => simp [getP]
    | bool b => simp [getP]
    | num n => simp [getP]
    | str s => simp [getP]

theorem wf_of_getP (q : Ptr) (d v : J) (hd : d.wf = true) (h : getP q d = some v) : v.wf = true := by
  induction q generalizing d with
  | nil => simp [getP] at h; subst h; exact hd
  | cons k rest ih =>
    cases d with
    | obj kvs =>
      simp only [getP] at h
      cases hl : lookup k kvs with
      | none => simp [hl] at h
      | some c =>
        simp only [hl] at h
        exact ih c (wf_of_lookup k kvs c (by simpa [J.wf] using hd) hl) h
    | arr xs =>
      simp only [getP] at h
      cases hp : parseIndex k with
      | none => simp [hp] at h
      | some i =>
        simp only [hp] at h
        cases hx : xs[i]? with
        | none => simp [hx] at h
        | some c =>
          simp only [hx] at h
          exact ih c (wfList_getElem xs i c (by simpa [J.wf] using hd) hx) h
    | null => simp [getP] at h
    | bool b => simp [getP] at h
    | num n => simp [getP] at h
    | str s => simp [getP] at h

/-- `pointer.get(doc)` returns what the specification reads -/
theorem getPtr_of_getP (q : Ptr) (d v : J) (h : getP q d = some v) : getPtr q d = .ok v := by
  induction q generalizing d with
  | nil => simp [getP] at h; subst h; rfl
  | cons k rest ih =>
    cases d with
    | obj kvs =>
      simp only [getP] at h
      cases hl : lookup k kvs with
      | none => simp [hl] at h
      | some c =>
        simp only [hl] at h
        simp only [getPtr, walk, hl]
        exact ih c h
    | arr xs =>
      simp only [getP] at h
      cases hp : parseIndex k with
      | none => simp [hp] at h
      | some i =>
        simp only [hp] at h
        cases hx : xs[i]? with
        | none => simp [hx] at h
        | some c =>
          simp only [hx] at h
          have hk : k ≠ "-" := by
            intro e; subst e
            have : parseIndex "-" = none := by decide
            rw [this] at hp; cases hp
          simp only [getPtr, walk, hk, if_false, hp, hx]
          exact ih c h
    | null => simp [getP] at h
    | bool b => simp [getP] at h
    | num n => simp [getP] at h
    | str s => simp [getP] at h

/-! ### pointers that part ways -/

theorem Div_symm : ∀ (a b : Ptr), Div a b → Div b a
  | [], _, h => by cases h
  | _ :: _, [], h => by cases h
  | a :: as, b :: bs, h => by
    rcases h with h | h
    · exact Or.inl (fun e => h e.symm)
    · exact Or.inr (Div_symm as bs h)

theorem Div_of_length_eq : ∀ (a b : Ptr), a.length = b.length → a ≠ b → Div a b
  | [], [], _, h => absurd rfl h
  | [], _ :: _, hl, _ => by simp at hl
  | _ :: _, [], hl, _ => by simp at hl
  | a :: as, b :: bs, hl, hne => by
    by_cases h : a = b
    · subst h
      refine Or.inr (Div_of_length_eq as bs (by simpa using hl) ?_)
      intro e; exact hne (by rw [e])
    · exact Or.inl h

theorem Div_append_right : ∀ (a b c : Ptr), Div a b → Div a (b ++ c)
  | [], _, _, h => by cases h
  | _ :: _, [], _, h => by cases h
  | a :: as, b :: bs, c, h => by
    rcases h with h | h
    · exact Or.inl h
    · exact Or.inr (Div_append_right as bs c h)

theorem Div_append_left (a b c : Ptr) (h : Div a b) : Div (a ++ c) b :=
  Div_symm _ _ (Div_append_right b a c (Div_symm _ _ h))

/-- any two pointers part ways or one is a prefix of the other -/
theorem trichotomy : ∀ (a b : Ptr), Div a b ∨ (∃ c, b = a ++ c) ∨ (∃ c, c ≠ [] ∧ a = b ++ c)
  | [], b => Or.inr (Or.inl ⟨b, rfl⟩)
  | a :: as, [] => Or.inr (Or.inr ⟨a :: as, by simp, rfl⟩)
  | a :: as, b :: bs => by
    by_cases h : a = b
    · subst h
      rcases trichotomy as bs with h | ⟨c, h⟩ | ⟨c, hc, h⟩
      · exact Or.inl (Or.inr h)
      · exact Or.inr (Or.inl ⟨c, by simp [h]⟩)
      · exact Or.inr (Or.inr ⟨c, hc, by simp [h]⟩)
    · exact Or.inl (Or.inl h)

/-! ### `setO`: the reference for `_ensure_pointer_exists` + `pointer.set` -/

theorem getP_setO_self (q : Ptr) (v d : J) (ha : Admits q d) : getP q (setO q v d) = some v := by
  induction q generalizing d with
  | nil => simp [setO, getP]
  | cons k rest ih =>
    cases rest with
    | nil =>
      cases d <;> simp [Admits, J.isObj] at ha
      simp [setO, getP, lookup_upsert_self]
    | cons k2 rest2 =>
      cases d <;> simp only [Admits] at ha
      rename_i kvs
      simp only [setO, getP, lookup_upsert_self]
      cases hl : lookup k kvs with
      | none =>
        apply ih
        cases rest2 <;> simp [Admits, J.isObj, lookup]
      | some c =>
        rw [hl] at ha
        exact ih c ha

theorem admits_empty (q : Ptr) : Admits q (J.obj []) := by
  cases q with
  | nil => trivial
  | cons k rest =>
    cases rest with
    | nil => simp [Admits, J.isObj]
    | cons k2 r => simp [Admits, lookup]

theorem admits_obj (q : Ptr) (d : J) (hq : q ≠ []) (ha : Admits q d) : ∃ kvs, d = .obj kvs := by
  cases q with
  | nil => exact absurd rfl hq
  | cons k rest =>
    cases rest with
    | nil => cases d <;> simp [Admits, J.isObj] at ha; exact ⟨_, rfl⟩
    | cons k2 r => cases d <;> simp only [Admits] at ha; exact ⟨_, rfl⟩

theorem admits_child (k : String) (rest : Ptr) (kvs : List (String × J)) (c : J)
    (ha : Admits (k :: rest) (.obj kvs)) (hl : lookup k kvs = some c) (hr : rest ≠ []) : Admits rest c := by
  cases rest with
  | nil => exact absurd rfl hr
  | cons k2 r => simp only [Admits, hl] at ha; exact ha

theorem getP_setO_div (q q' : Ptr) (v d : J) (ha : Admits q d) (hd : Div q q') :
    getP q' (setO q v d) = getP q' d := by
  induction q generalizing d q' with
  | nil => cases hd
  | cons k rest ih =>
    cases q' with
    | nil => cases hd
    | cons b bs =>
      obtain ⟨kvs, rfl⟩ := admits_obj (k :: rest) d (by simp) ha
      simp only [setO, getP]
      by_cases hkb : k = b
      · subst hkb
        have hd' : Div rest bs := by
          rcases hd with h | h
          · exact absurd rfl h
          · exact h
        have hr : rest ≠ [] := by intro e; subst e; cases hd'
        rw [lookup_upsert_self]
        cases hl : lookup k kvs with
        | none =>
          simp only
          rw [ih bs (J.obj []) (admits_empty rest) hd']
          cases bs with
          | nil => cases rest <;> cases hd'
          | cons b2 bs2 => simp [getP, lookup]
        | some c =>
          exact ih bs c (admits_child k rest kvs c ha hl hr) hd'
      · rw [lookup_upsert_ne k b _ kvs hkb]

theorem getP_setO_prefix (q : Ptr) (v d : J) (ha : Admits q d) (a c : Ptr) (hq : q = a ++ c) (hc : c ≠ []) :
    ∃ kvs, getP a (setO q v d) = some (.obj kvs) := by
  induction a generalizing q d with
  | nil =>
    have hq' : q ≠ [] := by simp [hq, hc]
    obtain ⟨kvs, rfl⟩ := admits_obj q d hq' ha
    cases q with
    | nil => exact absurd rfl hq'
    | cons k rest => simp only [setO, getP]; exact ⟨_, rfl⟩
  | cons b bs ih =>
    cases q with
    | nil => simp at hq
    | cons k rest =>
      simp only [List.cons_append, List.cons.injEq] at hq
      obtain ⟨rfl, hrest⟩ := hq
      obtain ⟨kvs, rfl⟩ := admits_obj (k :: rest) d (by simp) ha
      have hr : rest ≠ [] := by simp [hrest, hc]
      simp only [setO, getP, lookup_upsert_self]
      cases hl : lookup k kvs with
      | none => exact ih rest (J.obj []) (admits_empty rest) hrest
      | some c' => exact ih rest c' (admits_child k rest kvs c' ha hl hr) hrest

theorem wf_setO (q : Ptr) (v d : J) (ha : Admits q d) (hd : d.wf = true) (hv : v.wf = true) :
    (setO q v d).wf = true := by
  induction q generalizing d with
  | nil => simpa [setO] using hv
  | cons k rest ih =>
    obtain ⟨kvs, rfl⟩ := admits_obj (k :: rest) d (by simp) ha
    have hk : J.wfKvs kvs = true := by simpa [J.wf] using hd
    simp only [setO, J.wf]
    apply wfKvs_upsert _ _ _ hk
    cases hl : lookup k kvs with
    | none =>
      exact ih (J.obj []) (admits_empty rest) (by simp [J.wf, J.wfKvs])
    | some c =>
      by_cases hr : rest = []
      · subst hr; simpa [setO] using hv
      · exact ih c (admits_child k rest kvs c ha hl hr) (wf_of_lookup k kvs c hk hl)

/-- setting what is already there changes nothing -/
theorem setO_noop (q : Ptr) (v d : J) (ha : Admits q d) (hq : q ≠ []) (hg : getP q d = some v) :
    setO q v d = d := by
  induction q generalizing d with
  | nil => exact absurd rfl hq
  | cons k rest ih =>
    obtain ⟨kvs, rfl⟩ := admits_obj (k :: rest) d (by simp) ha
    simp only [getP] at hg
    cases hl : lookup k kvs with
    | none => simp [hl] at hg
    | some c =>
      simp only [hl] at hg
      simp only [setO, hl]
      by_cases hr : rest = []
      · subst hr
        simp [getP] at hg
        subst hg
        simp [setO, upsert_of_lookup k c kvs hl]
      · rw [ih c (admits_child k rest kvs c ha hl hr) hr hg, upsert_of_lookup k c kvs hl]

/-- `_ensure_pointer_exists` followed by `pointer.set` is `setO` whenever the ancestors the
document has are objects -/
theorem setPtr_ensure (q : Ptr) (v d : J) (ha : Admits q d) (hq : q ≠ []) :
    setPtr q v (ensure q d) = .ok (setO q v d) := by
  induction q generalizing d with
  | nil => exact absurd rfl hq
  | cons k rest ih =>
    obtain ⟨kvs, rfl⟩ := admits_obj (k :: rest) d (by simp) ha
    cases rest with
    | nil => simp [setPtr, ensure, atParent, setLast, setO]
    | cons k2 r =>
      have hstep : ∀ (c0 : J), Admits (k2 :: r) c0 →
          setPtr (k :: k2 :: r) v (.obj (upsert k (ensure (k2 :: r) c0) kvs))
            = .ok (.obj (upsert k (setO (k2 :: r) v c0) kvs)) := by
        intro c0 hc0
        have := ih c0 hc0 (by simp)
        simp only [setPtr] at this
        simp only [setPtr, atParent, lookup_upsert_self, this]
        simp [bind, Except.bind, upsert_upsert]
      simp only [ensure, setO]
      cases hl : lookup k kvs with
      | none => exact hstep (J.obj []) (admits_empty _)
      | some c =>
        have hc := admits_child k (k2 :: r) kvs c ha hl (by simp)
        cases c with
        | null => cases r <;> simp [Admits, J.isObj] at hc
        | obj kvs' => exact hstep _ hc
        | arr xs => cases r <;> simp [Admits, J.isObj] at hc
        | bool b => cases r <;> simp [Admits, J.isObj] at hc
        | num n => cases r <;> simp [Admits, J.isObj] at hc
        | str s => cases r <;> simp [Admits, J.isObj] at hc

/-! ### `popO`: the reference for `to_last` + `doc.pop(part, None)` -/

theorem popOk_obj (q : Ptr) (d : J) (hq : q ≠ []) (ha : PopOk q d) : ∃ kvs, d = .obj kvs := by
  cases q with
  | nil => exact absurd rfl hq
  | cons k rest =>
    cases rest with
    | nil => cases d <;> simp [PopOk, J.isObj] at ha; exact ⟨_, rfl⟩
    | cons k2 r => cases d <;> simp only [PopOk] at ha; exact ⟨_, rfl⟩

theorem popOk_child (k k2 : String) (r : Ptr) (kvs : List (String × J)) (ha : PopOk (k :: k2 :: r) (.obj kvs)) :
    ∃ c, lookup k kvs = some c ∧ PopOk (k2 :: r) c := by
  simp only [PopOk] at ha
  cases hl : lookup k kvs with
  | none => simp [hl] at ha
  | some c => simp only [hl] at ha; exact ⟨c, rfl, ha⟩

theorem getP_popO_self (q : Ptr) (d : J) (ha : PopOk q d) (hq : q ≠ []) (hw : d.wf = true) :
    getP q (popO q d) = none := by
  induction q generalizing d with
  | nil => exact absurd rfl hq
  | cons k rest ih =>
    obtain ⟨kvs, rfl⟩ := popOk_obj (k :: rest) d (by simp) ha
    have hk : J.wfKvs kvs = true := by simpa [J.wf] using hw
    cases rest with
    | nil => simp [popO, getP, lookup_erase_self k kvs hk]
    | cons k2 r =>
      obtain ⟨c, hl, hc⟩ := popOk_child k k2 r kvs ha
      simp only [popO, hl, getP, lookup_upsert_self]
      exact ih c hc (by simp) (wf_of_lookup k kvs c hk hl)

theorem getP_popO_div (q q' : Ptr) (d : J) (ha : PopOk q d) (hd : Div q q') :
    getP q' (popO q d) = getP q' d := by
  induction q generalizing d q' with
  | nil => cases hd
  | cons k rest ih =>
    cases q' with
    | nil => cases hd
    | cons b bs =>
      obtain ⟨kvs, rfl⟩ := popOk_obj (k :: rest) d (by simp) ha
      cases rest with
      | nil =>
        have hkb : k ≠ b := by
          rcases hd with h | h
          · exact h
          · cases h
        simp [popO, getP, lookup_erase_ne k b kvs hkb]
      | cons k2 r =>
        obtain ⟨c, hl, hc⟩ := popOk_child k k2 r kvs ha
        simp only [popO, hl, getP]
        by_cases hkb : k = b
        · subst hkb
          have hd' : Div (k2 :: r) bs := by
            rcases hd with h | h
            · exact absurd rfl h
            · exact h
          rw [lookup_upsert_self, hl]
          exact ih bs c hc hd'
        · rw [lookup_upsert_ne k b _ kvs hkb]

theorem getP_popO_prefix (q : Ptr) (d : J) (ha : PopOk q d) (a c : Ptr) (hq : q = a ++ c) (hc : c ≠ []) :
    ∃ kvs, getP a (popO q d) = some (.obj kvs) := by
  induction a generalizing q d with
  | nil =>
    have hq' : q ≠ [] := by simp [hq, hc]
    obtain ⟨kvs, rfl⟩ := popOk_obj q d hq' ha
    cases q with
    | nil => exact absurd rfl hq'
    | cons k rest =>
      cases rest with
      | nil => simp only [popO, getP]; exact ⟨_, rfl⟩
      | cons k2 r =>
        obtain ⟨c', hl, _⟩ := popOk_child k k2 r kvs ha
        simp only [popO, hl, getP]; exact ⟨_, rfl⟩
  | cons b bs ih =>
    cases q with
    | nil => simp at hq
    | cons k rest =>
      simp only [List.cons_append, List.cons.injEq] at hq
      obtain ⟨rfl, hrest⟩ := hq
      obtain ⟨kvs, rfl⟩ := popOk_obj (k :: rest) d (by simp) ha
      cases rest with
      | nil => simp at hrest; exact absurd hrest.2 hc
      | cons k2 r =>
        obtain ⟨c', hl, hc'⟩ := popOk_child k k2 r kvs ha
        simp only [popO, hl, getP, lookup_upsert_self]
        exact ih (k2 :: r) c' hc' hrest

theorem wf_popO (q : Ptr) (d : J) (ha : PopOk q d) (hd : d.wf = true) : (popO q d).wf = true := by
  induction q generalizing d with
  | nil => simpa [popO] using hd
  | cons k rest ih =>
    obtain ⟨kvs, rfl⟩ := popOk_obj (k :: rest) d (by simp) ha
    have hk : J.wfKvs kvs = true := by simpa [J.wf] using hd
    cases rest with
    | nil => simpa [popO, J.wf] using wfKvs_erase k kvs hk
    | cons k2 r =>
      obtain ⟨c, hl, hc⟩ := popOk_child k k2 r kvs ha
      simp only [popO, hl, J.wf]
      exact wfKvs_upsert _ _ _ hk (ih c hc (wf_of_lookup k kvs c hk hl))

/-- removing what is not there changes nothing -/
theorem popO_noop (q : Ptr) (d : J) (ha : PopOk q d) (hg : getP q d = none) : popO q d = d := by
  induction q generalizing d with
  | nil => simp [getP] at hg
  | cons k rest ih =>
    obtain ⟨kvs, rfl⟩ := popOk_obj (k :: rest) d (by simp) ha
    cases rest with
    | nil =>
      simp only [getP] at hg
      cases hl : lookup k kvs with
      | none => simp [popO, erase_of_lookup_none k kvs hl]
      | some c => simp [hl] at hg
    | cons k2 r =>
      obtain ⟨c, hl, hc⟩ := popOk_child k k2 r kvs ha
      simp only [getP, hl] at hg
      simp only [popO, hl]
      rw [ih c hc hg, upsert_of_lookup k c kvs hl]

/-- jsontools.py:39-42 on an object path -/
theorem popPtr_eq (q : Ptr) (d : J) (ha : PopOk q d) : popPtr q d = .ok (popO q d) := by
  induction q generalizing d with
  | nil => simp [popPtr, atParent, popO]
  | cons k rest ih =>
    obtain ⟨kvs, rfl⟩ := popOk_obj (k :: rest) d (by simp) ha
    cases rest with
    | nil => simp [popPtr, atParent, popLast, popO]
    | cons k2 r =>
      obtain ⟨c, hl, hc⟩ := popOk_child k k2 r kvs ha
      have := ih c hc
      simp only [popPtr] at this
      simp only [popPtr, atParent, hl, this, popO]
      simp [bind, Except.bind]

end Annet.Json.Lemmas
