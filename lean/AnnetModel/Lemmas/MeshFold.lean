/-
Helper lemmas for C15, part B: insertion-ordered dicts filled by "merge into the entry of this key"
(`upsertWith`), as used by `DictMerge._merge` and by the `peers[peer_key]` dicts of the executor.

Everything here is generic in the key type, the value type and the (partial) merge operation.
-/
import AnnetModel.Lemmas.Mesh

namespace Annet.Mesh

section Generic
variable {κ α ε : Type} [DecidableEq κ]

/-- `merge(d.get(k), v)` where a missing entry is just replaced by `v` -/
def stepOpt (f : α → α → Except ε α) : Option α → α → Except ε (Option α)
  | none, v => .ok (some v)
  | some w, v => (f w v).map some

/-- the history of one key: `merge(merge(v1, v2), v3) …` starting from the current entry -/
def foldKey (f : α → α → Except ε α) : Option α → List α → Except ε (Option α)
  | o, [] => .ok o
  | o, v :: vs => stepOpt f o v >>= fun o' => foldKey f o' vs

/-- `for k, v in items: d[k] = merge(d[k], v) if k in d else v` -/
def groupFold (f : α → α → Except ε α) (s : List (κ × α)) (items : List (κ × α)) : Except ε (List (κ × α)) :=
  items.foldlM (fun acc kv => upsertWith f kv.1 kv.2 acc) s

/-- the values filed under key `k`, in order -/
def valuesOf (k : κ) (items : List (κ × α)) : List α := (items.filter fun kv => kv.1 = k).map (·.2)

theorem lookup_cons_self (k : κ) (v : α) (l : List (κ × α)) : lookup k ((k, v) :: l) = some v := by
  simp [lookup]

theorem lookup_cons_ne {k k' : κ} (h : k' ≠ k) (v : α) (l : List (κ × α)) :
    lookup k ((k', v) :: l) = lookup k l := by
  simp [lookup, h]

/-- what `upsertWith` does to the entry of its own key -/
theorem upsertWith_lookup_self (f : α → α → Except ε α) (k : κ) (v : α) (s : List (κ × α)) :
    (upsertWith f k v s).map (fun s' => lookup k s') = stepOpt f (lookup k s) v := by
  induction s with
  | nil => simp [upsertWith, lookup, stepOpt]
  | cons p s ih =>
    obtain ⟨k', w⟩ := p
    by_cases h : k' = k
    · subst h
      simp only [upsertWith, if_true, lookup_cons_self, stepOpt]
      cases f w v <;> simp [lookup]
    · simp only [upsertWith, h, if_false, lookup_cons_ne h]
      rw [← ih]
      cases upsertWith f k v s <;> simp [lookup, h]

/-- … and it leaves the other entries alone -/
theorem upsertWith_lookup_other (f : α → α → Except ε α) {k k' : κ} (hk : k' ≠ k) (v : α) {s s' : List (κ × α)}
    (h : upsertWith f k v s = .ok s') : lookup k' s' = lookup k' s := by
  induction s generalizing s' with
  | nil =>
    simp [upsertWith] at h
    subst h
    simp [lookup, Ne.symm hk]
  | cons p s ih =>
    obtain ⟨k2, w⟩ := p
    by_cases h2 : k2 = k
    · subst h2
      simp only [upsertWith, if_true] at h
      cases hf : f w v with
      | error e => simp [hf] at h
      | ok r =>
        simp [hf] at h
        subst h
        simp [lookup, Ne.symm hk]
    · simp only [upsertWith, h2, if_false] at h
      cases hu : upsertWith f k v s with
      | error e => simp [hu] at h
      | ok s1 =>
        simp [hu] at h
        subst h
        by_cases h3 : k2 = k'
        · simp [lookup, h3]
        · simp [lookup, h3, ih hu]

theorem upsertWith_keys (f : α → α → Except ε α) (k : κ) (v : α) {s s' : List (κ × α)}
    (h : upsertWith f k v s = .ok s') : keys s' = if k ∈ keys s then keys s else keys s ++ [k] := by
  induction s generalizing s' with
  | nil => simp [upsertWith] at h; subst h; simp [keys]
  | cons p s ih =>
    obtain ⟨k2, w⟩ := p
    by_cases h2 : k2 = k
    · subst h2
      simp only [upsertWith, if_true] at h
      cases hf : f w v with
      | error e => simp [hf] at h
      | ok r => simp [hf] at h; subst h; simp [keys]
    · simp only [upsertWith, h2, if_false] at h
      cases hu : upsertWith f k v s with
      | error e => simp [hu] at h
      | ok s1 =>
        simp [hu] at h
        subst h
        have := ih hu
        have h2' : ¬ k = k2 := fun e => h2 e.symm
        simp only [keys, List.map_cons, List.mem_cons, h2', false_or] at this ⊢
        rw [this]
        split <;> simp [*]

theorem upsertWith_nodup (f : α → α → Except ε α) (k : κ) (v : α) {s s' : List (κ × α)}
    (h : upsertWith f k v s = .ok s') (hnd : (keys s).Nodup) : (keys s').Nodup := by
  rw [upsertWith_keys f k v h]
  split
  · exact hnd
  · rename_i hk
    exact List.nodup_append.mpr ⟨hnd, by simp, by intro a ha b hb; simp at hb; subst hb; intro e; subst e; exact hk ha⟩

theorem foldKey_cons (f : α → α → Except ε α) (o : Option α) (v : α) (vs : List α) :
    foldKey f o (v :: vs) = stepOpt f o v >>= fun o' => foldKey f o' vs := rfl

theorem groupFold_cons (f : α → α → Except ε α) (s : List (κ × α)) (kv : κ × α) (items : List (κ × α)) :
    groupFold f s (kv :: items) = upsertWith f kv.1 kv.2 s >>= fun s1 => groupFold f s1 items := by
  simp [groupFold, List.foldlM_cons]

theorem valuesOf_cons_self (k : κ) (v : α) (items : List (κ × α)) :
    valuesOf k ((k, v) :: items) = v :: valuesOf k items := by
  simp [valuesOf]

theorem valuesOf_cons_ne {k k' : κ} (h : k' ≠ k) (v : α) (items : List (κ × α)) :
    valuesOf k ((k', v) :: items) = valuesOf k items := by
  simp [valuesOf, h]

/-- **The dict built by the loop holds, under every key, the left fold of the merge over the values
filed under that key, in order** (success case). -/
theorem groupFold_ok (f : α → α → Except ε α) {s s' : List (κ × α)} {items : List (κ × α)}
    (h : groupFold f s items = .ok s') (k : κ) :
    foldKey f (lookup k s) (valuesOf k items) = .ok (lookup k s') := by
  induction items generalizing s with
  | nil => simp [groupFold] at h; cases h; rfl
  | cons kv items ih =>
    obtain ⟨k0, v0⟩ := kv
    rw [groupFold_cons] at h
    cases hu : upsertWith f k0 v0 s with
    | error e => simp [hu] at h
    | ok s1 =>
      simp only [hu, ok_bind] at h
      have ih' := ih h
      by_cases hk : k0 = k
      · subst hk
        rw [valuesOf_cons_self, foldKey_cons, ← upsertWith_lookup_self, hu]
        simpa using ih'
      · rw [valuesOf_cons_ne hk, ← upsertWith_lookup_other f (Ne.symm hk) v0 hu]
        exact ih'

/-- failure case: the loop raises only if the fold of some key raises -/
theorem groupFold_error (f : α → α → Except ε α) {s : List (κ × α)} {items : List (κ × α)} {e : ε}
    (h : groupFold f s items = .error e) :
    ∃ k e', foldKey f (lookup k s) (valuesOf k items) = .error e' := by
  induction items generalizing s with
  | nil => simp [groupFold] at h; cases h
  | cons kv items ih =>
    obtain ⟨k0, v0⟩ := kv
    rw [groupFold_cons] at h
    cases hu : upsertWith f k0 v0 s with
    | error e1 =>
      refine ⟨k0, e1, ?_⟩
      rw [valuesOf_cons_self, foldKey_cons, ← upsertWith_lookup_self, hu]
      rfl
    | ok s1 =>
      simp only [hu, ok_bind] at h
      obtain ⟨k, e', hk⟩ := ih h
      refine ⟨k, e', ?_⟩
      by_cases hk0 : k0 = k
      · subst hk0
        rw [valuesOf_cons_self, foldKey_cons, ← upsertWith_lookup_self, hu]
        simpa using hk
      · rw [valuesOf_cons_ne hk0, ← upsertWith_lookup_other f (Ne.symm hk0) v0 hu]
        exact hk

theorem groupFold_nodup (f : α → α → Except ε α) {s s' : List (κ × α)} {items : List (κ × α)}
    (h : groupFold f s items = .ok s') (hnd : (keys s).Nodup) : (keys s').Nodup := by
  induction items generalizing s with
  | nil => simp [groupFold] at h; cases h; exact hnd
  | cons kv items ih =>
    rw [groupFold_cons] at h
    cases hu : upsertWith f kv.1 kv.2 s with
    | error e => simp [hu] at h
    | ok s1 =>
      simp only [hu, ok_bind] at h
      exact ih h (upsertWith_nodup f _ _ hu hnd)

/-- Two runs of the loop whose per-key folds are related are related (both raise, or both succeed
with key-wise related dicts). -/
theorem groupFold_rel (f : α → α → Except ε α) (R : α → α → Prop) {s1 s2 : List (κ × α)} {i1 i2 : List (κ × α)}
    (h : ∀ k, RE (OptRel R) (foldKey f (lookup k s1) (valuesOf k i1)) (foldKey f (lookup k s2) (valuesOf k i2))) :
    RE (fun a b => ∀ k, OptRel R (lookup k a) (lookup k b)) (groupFold f s1 i1) (groupFold f s2 i2) := by
  cases h1 : groupFold f s1 i1 with
  | error e1 =>
    cases h2 : groupFold f s2 i2 with
    | error e2 => simp
    | ok b =>
      obtain ⟨k, e', hk⟩ := groupFold_error f h1
      have := h k
      rw [hk, groupFold_ok f h2 k] at this
      simp at this
  | ok a =>
    cases h2 : groupFold f s2 i2 with
    | error e2 =>
      obtain ⟨k, e', hk⟩ := groupFold_error f h2
      have := h k
      rw [hk, groupFold_ok f h1 k] at this
      simp at this
    | ok b =>
      simp only [RE_ok_ok]
      intro k
      have := h k
      rw [groupFold_ok f h1 k, groupFold_ok f h2 k] at this
      simpa using this

end Generic

/-! ### Partial commutative semigroups up to an equivalence, on a domain -/

/-- The laws a merge operation needs for its folds to be independent of the order of the operands:
on the domain `I` (closed under the operation), `R` is a congruence, and the operation is
commutative and associative up to `R` (with "both sides raise" counted as agreement). -/
structure PCS {α ε : Type} (f : α → α → Except ε α) (R : α → α → Prop) (I : α → Prop) : Prop where
  refl : ∀ a, I a → R a a
  symm : ∀ a b, R a b → R b a
  trans : ∀ a b c, R a b → R b c → R a c
  resp : ∀ a b, R a b → I a → I b
  closed : ∀ a b r, I a → I b → f a b = .ok r → I r
  cong : ∀ a a' b b', I a → I b → R a a' → R b b' → RE R (f a b) (f a' b')
  comm : ∀ a b, I a → I b → RE R (f a b) (f b a)
  assoc : ∀ a b c, I a → I b → I c → RE R (f a b >>= fun r => f r c) (f b c >>= fun r => f a r)

section PCSFold
variable {α ε : Type} {f : α → α → Except ε α} {R : α → α → Prop} {I : α → Prop}

def OptI (I : α → Prop) : Option α → Prop
  | none => True
  | some a => I a

theorem stepOpt_rel (h : PCS f R I) {o o' : Option α} {v v' : α} (ho : OptRel R o o') (hv : R v v')
    (hio : OptI I o) (hiv : I v) : RE (OptRel R) (stepOpt f o v) (stepOpt f o' v') := by
  cases o <;> cases o' <;> simp at ho
  · simpa [stepOpt] using hv
  · simp only [stepOpt]
    exact RE.map (h.cong _ _ _ _ hio hiv ho hv) (fun _ _ r => r)

theorem stepOpt_closed (h : PCS f R I) {o o' : Option α} {v : α} (hio : OptI I o) (hiv : I v)
    (hs : stepOpt f o v = .ok o') : OptI I o' := by
  cases o with
  | none => simp [stepOpt] at hs; subst hs; exact hiv
  | some a =>
    simp only [stepOpt] at hs
    cases hf : f a v with
    | error e => simp [hf] at hs
    | ok r => simp [hf] at hs; subst hs; exact h.closed _ _ _ hio hiv hf

theorem OptI_resp (h : PCS f R I) {o o' : Option α} (ho : OptRel R o o') (hi : OptI I o) : OptI I o' := by
  cases o <;> cases o' <;> simp at ho <;> simp_all [OptI]
  exact h.resp _ _ ho hi

theorem foldKey_cong (h : PCS f R I) (l : List α) (hl : ∀ v ∈ l, I v) :
    ∀ {o o' : Option α}, OptRel R o o' → OptI I o → RE (OptRel R) (foldKey f o l) (foldKey f o' l) := by
  induction l with
  | nil => intro o o' ho _; simpa [foldKey] using ho
  | cons v vs ih =>
    intro o o' ho hio
    rw [foldKey_cons, foldKey_cons]
    have hv := hl v (List.mem_cons_self)
    refine RE.bind' (stepOpt_rel h ho (h.refl v hv) hio hv) ?_
    intro a b ha _ hab
    exact ih (fun w hw => hl w (List.mem_cons_of_mem _ hw)) hab (stepOpt_closed h hio hv ha)

theorem RE_OptRel_trans (h : PCS f R I) {x y z : Except ε (Option α)}
    (h1 : RE (OptRel R) x y) (h2 : RE (OptRel R) y z) : RE (OptRel R) x z :=
  RE.trans (R := OptRel R) (fun _ _ _ a b => OptRel.trans h.trans a b) h1 h2

/-- swapping two consecutive operands -/
theorem stepOpt_swap (h : PCS f R I) {o o' : Option α} (ho : OptRel R o o') (hio : OptI I o)
    {x y : α} (hx : I x) (hy : I y) :
    RE (OptRel R) (stepOpt f o y >>= fun o1 => stepOpt f o1 x) (stepOpt f o' x >>= fun o1 => stepOpt f o1 y) := by
  cases o <;> cases o' <;> simp at ho
  · simp only [stepOpt, ok_bind]
    exact RE.map (h.comm y x hy hx) (fun _ _ r => r)
  · rename_i a a'
    have hia : I a := hio
    have hia' : I a' := h.resp _ _ ho hia
    simp only [stepOpt]
    -- (a ⊕ y) ⊕ x  ≈  a ⊕ (y ⊕ x)  ≈  a' ⊕ (x ⊕ y)  ≈  (a' ⊕ x) ⊕ y
    have e1 : RE R (f a y >>= fun r => f r x) (f y x >>= fun r => f a r) := h.assoc a y x hia hy hx
    have e2 : RE R (f y x >>= fun r => f a r) (f x y >>= fun r => f a' r) := by
      refine RE.bind' (h.comm y x hy hx) ?_
      intro r r' hr _ hrr
      exact h.cong a a' r r' hia (h.closed _ _ _ hy hx hr) ho hrr
    have e3 : RE R (f x y >>= fun r => f a' r) (f a' x >>= fun r => f r y) :=
      RE.symm h.symm (h.assoc a' x y hia' hx hy)
    have e := RE.trans h.trans (RE.trans h.trans e1 e2) e3
    cases h1 : f a y <;> cases h2 : f a' x <;> simp [h1, h2] at e ⊢
    · rename_i r
      cases h3 : f r y <;> simp [h3] at e ⊢
    · rename_i r _
      cases h3 : f r x <;> simp [h3] at e ⊢
    · rename_i r r'
      cases h3 : f r x <;> cases h4 : f r' y <;> simp [h3, h4] at e ⊢
      exact e

/-- **Order independence of one key's fold**: permuting the values merged into one entry changes
the result only up to `R` (or both orders raise). -/
theorem foldKey_perm (h : PCS f R I) {l1 l2 : List α} (hp : l1.Perm l2) :
    (∀ v ∈ l1, I v) → ∀ {o o' : Option α}, OptRel R o o' → OptI I o →
      RE (OptRel R) (foldKey f o l1) (foldKey f o' l2) := by
  induction hp with
  | nil => intro _ o o' ho _; simpa [foldKey] using ho
  | cons x _ ih =>
    intro hl o o' ho hio
    rw [foldKey_cons, foldKey_cons]
    have hx := hl x List.mem_cons_self
    refine RE.bind' (stepOpt_rel h ho (h.refl x hx) hio hx) ?_
    intro a b ha _ hab
    exact ih (fun w hw => hl w (List.mem_cons_of_mem _ hw)) hab (stepOpt_closed h hio hx ha)
  | swap x y l =>
    intro hl o o' ho hio
    have hy := hl y List.mem_cons_self
    have hx := hl x (List.mem_cons_of_mem _ List.mem_cons_self)
    have hl' : ∀ v ∈ l, I v := fun w hw => hl w (List.mem_cons_of_mem _ (List.mem_cons_of_mem _ hw))
    simp only [foldKey_cons]
    have e := stepOpt_swap h ho hio hx hy
    have : ∀ (p q : Except ε (Option α)), RE (OptRel R) p q →
        (∀ a, p = .ok a → OptI I a) →
        RE (OptRel R) (p >>= fun o2 => foldKey f o2 l) (q >>= fun o2 => foldKey f o2 l) := by
      intro p q hpq hpi
      refine RE.bind' hpq ?_
      intro a b ha _ hab
      exact foldKey_cong h l hl' hab (hpi a ha)
    have key := this _ _ e (by
      intro a ha
      cases h1 : stepOpt f o y with
      | error e1 => simp [h1] at ha
      | ok o1 =>
        simp only [h1, ok_bind] at ha
        exact stepOpt_closed h (stepOpt_closed h hio hy h1) hx ha)
    simpa [bind_assoc] using key
  | trans hp1 _ ih1 ih2 =>
    intro hl o o' ho hio
    have hl2 := fun v hv => hl v ((hp1.mem_iff).mpr hv)
    have hoo : OptRel R o o := by
      cases o with
      | none => simp
      | some a => simpa using h.refl a hio
    exact RE_OptRel_trans h (ih1 hl hoo hio) (ih2 hl2 ho hio)

end PCSFold
end Annet.Mesh
