/-
Helper lemmas for the worker pool (C12), part 1: `step` as a relation (`Step`, one
constructor per branch of the code) and list facts used by the invariants.
-/
import AnnetModel.Spec.Pool

namespace Annet.Pool

/-- Close a `List.Perm` goal that is a re-bracketing/shuffle of the `Perm` hypothesis `h`,
by counting occurrences. -/
macro "perm_by_count " h:ident : tactic =>
  `(tactic| (refine List.perm_iff_count.mpr fun x => ?_
             have hx := List.perm_iff_count.mp $h x
             simp only [List.count_append, List.count_cons, List.count_nil, List.count_singleton] at hx ⊢
             omega))

theorem set_split {α} (l : List α) (i : Nat) (x y : α) (h : l[i]? = some x) :
    ∃ pre post, l = pre ++ x :: post ∧ l.set i y = pre ++ y :: post ∧ pre.length = i := by
  induction l generalizing i with
  | nil => simp at h
  | cons a t ih =>
    cases i with
    | zero => simp at h; subst h; exact ⟨[], t, by simp⟩
    | succ n =>
      simp at h
      obtain ⟨pre, post, h1, h2, h3⟩ := ih n h
      exact ⟨a :: pre, post, by simp [h1], by simp [h2], by simp [h3]⟩


/-- `step` as a relation, one constructor per branch of the code. -/
inductive Step (c : Cfg) (s : State) : Ev → State → Prop
  | takeStop (i d b q) : s.pc.isAborted = false → s.ws[i]? = some ⟨.idle d, b⟩ → s.taskQ = .stop :: q →
      Step c s (.take i) { s.setW i ⟨.stopping, b⟩ with taskQ := q }
  | takeTask (i d b id q) : s.pc.isAborted = false → s.ws[i]? = some ⟨.idle d, b⟩ → s.taskQ = .invoke id :: q →
      Step c s (.take i) { s.setW i ⟨.busy d id, b⟩ with taskQ := q }
  | finish (i d id b) : s.pc.isAborted = false → s.ws[i]? = some ⟨.busy d id, b⟩ →
      Step c s (.finish i) (s.setW i ⟨if c.quotaReached (d + 1) then .retiring else .idle (d + 1), b ++ [c.res id]⟩)
  | flushSend (i st r b) : s.pc.isAborted = false → s.ws[i]? = some ⟨st, r :: b⟩ → r.out.sendable = true →
      Step c s (.flush i) { s.setW i ⟨st, b⟩ with doneQ := s.doneQ ++ [r] }
  | flushDrop (i st r b) : s.pc.isAborted = false → s.ws[i]? = some ⟨st, r :: b⟩ → r.out.sendable = false →
      Step c s (.flush i) { s.setW i ⟨st, b⟩ with dropped := s.dropped ++ [r] }
  | feederDie (i st r b) : s.pc.isAborted = false → s.ws[i]? = some ⟨st, r :: b⟩ → r.out.sendable = false →
      st.exiting = true →
      Step c s (.feederDie i) { s.setW i ⟨st, []⟩ with dropped := s.dropped ++ r :: b }
  | exitNine (i) : s.pc.isAborted = false → s.ws[i]? = some ⟨.retiring, []⟩ →
      Step c s (.exit i) (s.setW i ⟨.exited .nine, []⟩)
  | exitZero (i) : s.pc.isAborted = false → s.ws[i]? = some ⟨.stopping, []⟩ →
      Step c s (.exit i) (s.setW i ⟨.exited .zero, []⟩)
  | getSome (r q) : s.pc = .get → s.doneQ = r :: q →
      Step c s .parent { s with doneQ := q, pc := .check (some r) s.pool [] }
  | getNone : s.pc = .get → s.doneQ = [] →
      Step c s .parent { s with pc := .check none s.pool [] }
  | readNine (got i todo ret b) : s.pc = .check got (i :: todo) ret → s.ws[i]? = some ⟨.exited .nine, b⟩ →
      Step c s .parent { s with pc := .check got todo (ret ++ [i]) }
  | readZero (got i todo ret b) : s.pc = .check got (i :: todo) ret → s.ws[i]? = some ⟨.exited .zero, b⟩ →
      Step c s .parent { s with pool := s.pool.erase i, pc := .check got todo ret }
  | readNone (got i todo ret) : s.pc = .check got (i :: todo) ret → (∀ code b, s.ws[i]? ≠ some ⟨.exited code, b⟩) →
      Step c s .parent { s with pc := .check got todo ret }
  | scanned (got ret) : s.pc = .check got [] ret →
      Step c s .parent { s with pc := .post got ret }
  | abort (r ret) : s.pc = .post (some r) ret → c.tolerate = false → r.out.isExc = true →
      Step c s .parent { s with pc := .aborted r }
  | post (got ret) : s.pc = .post got ret → abortsOn c got = none →
      Step c s .parent (postStep c s got ret)
  | restart (i todo) : s.pc = .restart (i :: todo) →
      Step c s .parent { s.setW i ⟨.idle 0, []⟩ with pc := .restart todo }
  | loop : s.pc = .restart [] →
      Step c s .parent { s with pc := .get }

theorem step_sound {c : Cfg} {s s' : State} {e : Ev} (h : step c s e = some s') : Step c s e s' := by
  cases e with
  | parent =>
    simp only [step, stepParent] at h
    split at h
    · split at h <;> simp at h <;> subst h
      · exact .getSome _ _ (by assumption) (by assumption)
      · exact .getNone (by assumption) (by assumption)
    · split at h <;> simp at h <;> subst h
      · exact .readNine _ _ _ _ _ (by assumption) (by assumption)
      · exact .readZero _ _ _ _ _ (by assumption) (by assumption)
      · refine .readNone _ _ _ _ (by assumption) ?_
        intro code b hb
        cases code <;> simp_all
    · simp at h; subst h; exact .scanned _ _ (by assumption)
    · rename_i got ret hpc
      cases hab : abortsOn c got with
      | some r =>
        simp [hab] at h; subst h
        cases got with
        | none => simp [abortsOn] at hab
        | some r' =>
          simp [abortsOn] at hab
          obtain ⟨⟨h1, h2⟩, h3⟩ := hab
          subst h3
          exact .abort _ _ hpc h1 h2
      | none =>
        simp [hab] at h; subst h
        exact .post _ _ hpc hab
    · simp at h; subst h; exact .restart _ _ (by assumption)
    · simp at h; subst h; exact .loop (by assumption)
    · simp at h
    · simp at h
  | take i =>
    simp only [step] at h
    split at h
    · simp at h
    · rename_i hab
      simp only [stepWorker] at h
      split at h <;> simp at h <;> subst h
      · exact .takeStop _ _ _ _ (by simpa using hab) (by assumption) (by assumption)
      · exact .takeTask _ _ _ _ _ (by simpa using hab) (by assumption) (by assumption)
  | finish i =>
    simp only [step] at h
    split at h
    · simp at h
    · rename_i hab
      simp only [stepWorker] at h
      split at h <;> simp at h <;> subst h
      exact .finish _ _ _ _ (by simpa using hab) (by assumption)
  | flush i =>
    simp only [step] at h
    split at h
    · simp at h
    · rename_i hab
      simp only [stepWorker] at h
      split at h
      · split at h <;> simp at h <;> subst h
        · exact .flushSend _ _ _ _ (by simpa using hab) (by assumption) (by assumption)
        · exact .flushDrop _ _ _ _ (by simpa using hab) (by assumption) (by simpa using ‹¬ _ = true›)
      · simp at h
  | feederDie i =>
    simp only [step] at h
    split at h
    · simp at h
    · rename_i hab
      simp only [stepWorker] at h
      split at h
      · split at h <;> simp at h
        subst h
        rename_i hc
        simp only [Bool.and_eq_true, Bool.not_eq_true'] at hc
        exact .feederDie _ _ _ _ (by simpa using hab) (by assumption) hc.1 hc.2
      · simp at h
  | exit i =>
    simp only [step] at h
    split at h
    · simp at h
    · rename_i hab
      simp only [stepWorker] at h
      split at h <;> simp at h <;> subst h
      · exact .exitNine _ (by simpa using hab) (by assumption)
      · exact .exitZero _ (by simpa using hab) (by assumption)

end Annet.Pool
