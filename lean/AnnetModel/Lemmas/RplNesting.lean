/-
Helper lemmas for C14: the offside parser recovers the block structure the rows were yielded in.
-/
import AnnetModel.Model.Offside
import AnnetModel.Model.RplRun

namespace Annet.Rpl.Lemmas
open Annet Annet.Offside

/-- what the stream of a block-structured generator looks like after `PartialGenerator._append_text`: header rows at
column 0, the rows yielded inside `with self.block(header)` at column 2 -/
def blockItems : List (String × List String) → List Item
  | [] => []
  | (h, cs) :: bs => .text 0 h :: (cs.map (Item.text 2 ·) ++ blockItems bs)

/-- the nesting the rows were yielded in -/
def blockPaths : List (String × List String) → List (List String)
  | [] => []
  | (h, cs) :: bs => [h] :: (cs.map ([h, ·]) ++ blockPaths bs)

def SH : St := ⟨[], 0, some 0⟩
def SC : St := ⟨[2], 2, some 0⟩

def Inv (st : St) (stack : List String) : Prop :=
  (st = St.init ∧ stack = []) ∨ (st = SH ∧ ∃ h, stack = [h]) ∨ (st = SC ∧ ∃ h c, stack = [h, c])

def KidInv (h : String) (st : St) (stack : List String) : Prop :=
  (st = SH ∧ stack = [h]) ∨ (st = SC ∧ ∃ c, stack = [h, c])

theorem kidInv_inv {h : String} {st : St} {stack : List String} (hk : KidInv h st stack) : Inv st stack := by
  rcases hk with ⟨rfl, rfl⟩ | ⟨rfl, c, rfl⟩
  · exact .inr (.inl ⟨rfl, h, rfl⟩)
  · exact .inr (.inr ⟨rfl, h, c, rfl⟩)

def consOk (x : List String) (r : Except Nat (List (List String))) : Except Nat (List (List String)) :=
  match r with
  | .error e => .error e
  | .ok out => .ok (x :: out)

theorem runItems_text (lvl : Nat) (body : String) (rest : List Item) (st st' : St) (stack : List String) (n d : Nat)
    (hs : stepText st lvl = some (st', d)) :
    runItems (.text lvl body :: rest) st stack n =
      consOk (restack stack d body) (runItems rest st' (restack stack d body) (n + 1)) := by
  rw [runItems]; simp only [hs]
  cases runItems rest st' (restack stack d body) (n + 1) <;> rfl

theorem step_header (st : St) (stack : List String) (hi : Inv st stack) (h : String) :
    stepText st 0 = some (SH, 0) ∧ restack stack 0 h = [h] := by
  rcases hi with ⟨rfl, rfl⟩ | ⟨rfl, h0, rfl⟩ | ⟨rfl, h0, c, rfl⟩
  · exact ⟨by rfl, by simp [restack]⟩
  · exact ⟨by rfl, by simp [restack]⟩
  · exact ⟨by rfl, by simp [restack]⟩

theorem step_kid (h : String) (st : St) (stack : List String) (hk : KidInv h st stack) (c : String) :
    stepText st 2 = some (SC, 1) ∧ restack stack 1 c = [h, c] := by
  rcases hk with ⟨rfl, rfl⟩ | ⟨rfl, c0, rfl⟩
  · exact ⟨by rfl, by simp [restack]⟩
  · exact ⟨by rfl, by simp [restack]⟩

theorem kids_run (h : String) (cs : List String) :
    ∀ (st : St) (stack : List String), KidInv h st stack → ∀ (rest : List Item) (n : Nat) (out : List (List String)),
      (∀ st' stack', KidInv h st' stack' → runItems rest st' stack' (n + cs.length) = .ok out) →
      runItems (cs.map (Item.text 2 ·) ++ rest) st stack n = .ok (cs.map ([h, ·]) ++ out) := by
  induction cs with
  | nil => intro st stack hk rest n out hrest; simpa using hrest st stack hk
  | cons c cs ih =>
    intro st stack hk rest n out hrest
    obtain ⟨hs, hr⟩ := step_kid h st stack hk c
    simp only [List.map_cons, List.cons_append]
    rw [runItems_text 2 c _ st SC stack n 1 hs, hr]
    have := ih SC [h, c] (.inr ⟨rfl, c, rfl⟩) rest (n + 1) out (by
      intro st' stack' hk'
      have := hrest st' stack' hk'
      simpa [Nat.add_assoc, Nat.add_comm 1] using this)
    rw [this]; rfl

/-- the offside parser recovers exactly the nesting the rows were yielded in -/
theorem blocks_run (bs : List (String × List String)) :
    ∀ (st : St) (stack : List String), Inv st stack → ∀ n, runItems (blockItems bs) st stack n = .ok (blockPaths bs) := by
  induction bs with
  | nil => intro st stack _ n; simp [blockItems, blockPaths, runItems]
  | cons b bs ih =>
    obtain ⟨h, cs⟩ := b
    intro st stack hi n
    obtain ⟨hs, hr⟩ := step_header st stack hi h
    simp only [blockItems, blockPaths]
    rw [runItems_text 0 h _ st SH stack n 0 hs, hr]
    have := kids_run h cs SH [h] (.inl ⟨rfl, rfl⟩) (blockItems bs) (n + 1) (blockPaths bs)
      (fun st' stack' hk => ih st' stack' (kidInv_inv hk) _)
    rw [this]; rfl

theorem blocks_stacks (bs : List (String × List String)) : stacks (blockItems bs) = .ok (blockPaths bs) :=
  blocks_run bs St.init [] (.inl ⟨rfl, rfl⟩) 1



/-- a row body as the generators produce it: starts and ends with a non-blank character, does not start with a
comment mark -/
structure CleanBody (body : List Char) : Prop where
  ne : body ≠ []
  first : ∀ c rest, body = c :: rest → pyIsSpace c = false ∧ c ≠ '!' ∧ c ≠ '#'
  last : ∀ c, body.getLast? = some c → pyIsSpace c = false

theorem dropWhile_spaces (n : Nat) (c : Char) (rest : List Char) (hc : pyIsSpace c = false) :
    (List.replicate n ' ' ++ c :: rest).dropWhile pyIsSpace = c :: rest := by
  induction n with
  | zero => simp [List.dropWhile, hc]
  | succ n ih =>
    simp only [List.replicate_succ, List.cons_append]
    rw [List.dropWhile_cons]
    have : pyIsSpace ' ' = true := by decide
    simp [this, ih]

theorem parseIndent_spaces (n : Nat) (c : Char) (rest : List Char) (hc : pyIsSpace c = false) :
    parseIndent (List.replicate n ' ' ++ c :: rest) = n := by
  induction n with
  | zero =>
    have h1 : c ≠ '\t' := by rintro rfl; exact absurd hc (by decide)
    have h2 : c ≠ ' ' := by rintro rfl; exact absurd hc (by decide)
    simp [parseIndent, h1, h2]
  | succ n ih =>
    simp only [List.replicate_succ, List.cons_append, parseIndent]
    simp [ih]; omega

theorem strip_clean (n : Nat) (body : List Char) (hb : CleanBody body) :
    strip (List.replicate n ' ' ++ body) = body := by
  obtain ⟨c, rest, rfl⟩ := List.exists_cons_of_ne_nil hb.ne
  obtain ⟨hc, _, _⟩ := hb.first c rest rfl
  unfold strip lstrip
  rw [dropWhile_spaces n c rest hc]
  -- the reversed body starts with the last character
  have hrev : (c :: rest).reverse ≠ [] := by simp
  obtain ⟨d, rest', hd⟩ := List.exists_cons_of_ne_nil hrev
  have hlast : (c :: rest).getLast? = some d := by
    rw [List.getLast?_eq_head?_reverse, hd]; rfl
  have hdns := hb.last d hlast
  rw [hd]
  simp only [List.dropWhile, hdns]
  rw [← hd]; simp

theorem classify_row (n : Nat) (body : List Char) (hb : CleanBody body) :
    classify ["!", "#"] (String.ofList (List.replicate n ' ' ++ body)) = .text n (String.ofList body) := by
  obtain ⟨c, rest, hbody⟩ := List.exists_cons_of_ne_nil hb.ne
  obtain ⟨hc, hbang, hhash⟩ := hb.first c rest hbody
  unfold classify
  simp only [String.toList_ofList]
  rw [strip_clean n body hb]
  have h1 : startsWith (List.replicate n ' ' ++ body) ['#'] = false := by
    subst hbody
    cases n with
    | zero => simp [startsWith, List.isPrefixOf]; exact fun h => hhash h.symm
    | succ n => simp [startsWith, List.replicate_succ, List.isPrefixOf]
  have h2 : body.isEmpty = false := by subst hbody; rfl
  have h3 : (["!", "#"].any fun cm => startsWith body cm.toList) = false := by
    subst hbody
    have e1 : "!".toList = ['!'] := by decide
    have e2 : "#".toList = ['#'] := by decide
    simp [startsWith, e1, e2, List.isPrefixOf, hbang, hhash]
    exact ⟨fun h => hbang h.symm, fun h => hhash h.symm⟩
  have h4 : parseIndent (List.replicate n ' ' ++ body) = n := by
    subst hbody; exact parseIndent_spaces n c rest hc
  simp [h1, h2, h3, h4]


/-- the text `PartialGenerator.__call__` returns for a stream of blocks, line by line: the header row, then the
rows yielded inside the block behind the block's indent (two blanks) -/
def renderBlocks : List (Str × List Str) → List String
  | [] => []
  | (h, cs) :: bs => String.ofList h :: (cs.map (fun c => String.ofList (List.replicate 2 ' ' ++ c)) ++ renderBlocks bs)

def blocksAsStrings (bs : List (Str × List Str)) : List (String × List String) :=
  bs.map fun b => (String.ofList b.1, b.2.map String.ofList)

theorem classify_blocks (bs : List (Str × List Str))
    (hclean : ∀ b ∈ bs, CleanBody b.1 ∧ ∀ c ∈ b.2, CleanBody c) :
    (renderBlocks bs).map (classify ["!", "#"]) = blockItems (blocksAsStrings bs) := by
  induction bs with
  | nil => rfl
  | cons b bs ih =>
    obtain ⟨h, cs⟩ := b
    have hb := hclean (h, cs) (by simp)
    have hh := classify_row 0 h hb.1
    simp only [List.replicate_zero, List.nil_append] at hh
    simp only [renderBlocks, blocksAsStrings, List.map_cons, List.map_append, List.map_map, blockItems, hh]
    congr 1
    rw [show List.map (fun b => (String.ofList b.fst, List.map String.ofList b.snd)) bs = blocksAsStrings bs from rfl,
      ← ih (fun b' hb' => hclean b' (by simp [hb']))]
    congr 1
    apply List.map_congr_left
    intro c hc
    simp only [Function.comp]
    exact classify_row 2 c (hb.2 c hc)

/-- `parse_to_tree` of the rendered text is the tree of the yielded paths -/
theorem parse_blocks (bs : List (Str × List Str)) (hclean : ∀ b ∈ bs, CleanBody b.1 ∧ ∀ c ∈ b.2, CleanBody c) :
    parseToTree ["!", "#"] (renderBlocks bs) = .ok (treeOfStacks (blockPaths (blocksAsStrings bs))) := by
  unfold parseToTree parseItems
  rw [classify_blocks bs hclean, blocks_stacks]

end Annet.Rpl.Lemmas
