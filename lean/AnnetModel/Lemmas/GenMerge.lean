/-
Helper lemmas for C10, part 1: paths of `merge` (= `merge_dicts` on config trees), key uniqueness through
`insertPath`, `merge` and sub-trees.
-/
import AnnetModel.Lemmas.Implicit
import AnnetModel.Lemmas.Acl

namespace Annet.Gen.Lemmas
open Annet Annet.Implicit Annet.Implicit.Spec Annet.Implicit.Lemmas
open Annet.Acl.Spec (Sub SubL)

theorem pathsList_append (x y : List (String × Cfg)) :
    Cfg.pathsList (x ++ y) = Cfg.pathsList x ++ Cfg.pathsList y := by
  induction x with
  | nil => simp [Cfg.pathsList]
  | cons e rest ih =>
    obtain ⟨k, c⟩ := e
    simp only [List.cons_append, Cfg.pathsList, ih, List.append_assoc]

theorem mem_pathsList {ks : List (String × Cfg)} {p : List String} :
    p ∈ Cfg.pathsList ks ↔ ∃ k c, (k, c) ∈ ks ∧ (p = [k] ∨ ∃ q, q ∈ Cfg.paths c ∧ p = k :: q) := by
  induction ks with
  | nil => simp [Cfg.pathsList]
  | cons e rest ih =>
    obtain ⟨k0, c0⟩ := e
    simp only [Cfg.pathsList, List.mem_append, List.mem_cons, List.mem_map, ih]
    constructor
    · rintro ((h | ⟨q, hq, rfl⟩) | ⟨k, c, hm, h⟩)
      · exact ⟨k0, c0, .inl rfl, .inl h⟩
      · exact ⟨k0, c0, .inl rfl, .inr ⟨q, hq, rfl⟩⟩
      · exact ⟨k, c, .inr hm, h⟩
    · rintro ⟨k, c, hm | hm, h⟩
      · cases hm
        rcases h with h | ⟨q, hq, rfl⟩
        · exact .inl (.inl h)
        · exact .inl (.inr ⟨q, hq, rfl⟩)
      · exact .inr ⟨k, c, hm, h⟩


/-! ### entries of `mergeL` / `merge` (converse of `mem_mergeL`) -/

theorem mem_mergeL_of_left : (a b : List (String × Cfg)) → ∀ k c0, (k, c0) ∈ a → k ∉ keys b → (k, c0) ∈ mergeL a b
  | [], _, _, _, h, _ => by cases h
  | (k1, c1) :: rest, b, k, c0, h, hk => by
    rw [mergeL]
    rcases List.mem_cons.1 h with h | h
    · obtain ⟨hk1, hc1⟩ := Prod.mk.inj h
      subst hk1 hc1
      cases hf : b.find? (·.1 == k) with
      | none => exact List.mem_cons_self
      | some e =>
        obtain ⟨k', c'⟩ := e
        exact (hk (mem_keys.2 ⟨c', (find_some hf).2⟩)).elim
    · exact List.mem_cons_of_mem _ (mem_mergeL_of_left rest b k c0 h hk)

theorem mem_mergeL_of_both : (a b : List (String × Cfg)) → (keys b).Nodup → ∀ k c0 c1, (k, c0) ∈ a → (k, c1) ∈ b →
    (k, merge c0 c1) ∈ mergeL a b
  | [], _, _, _, _, _, h, _ => by cases h
  | (k1, c1') :: rest, b, hb, k, c0, c1, h, h1 => by
    rw [mergeL]
    rcases List.mem_cons.1 h with h | h
    · obtain ⟨hk1, hc1⟩ := Prod.mk.inj h
      subst hk1 hc1
      have := find_self b hb (k, c1) h1
      simp only at this
      rw [this]
      exact List.mem_cons_self
    · exact List.mem_cons_of_mem _ (mem_mergeL_of_both rest b hb k c0 c1 h h1)

theorem mem_filter_new {a b : List (String × Cfg)} {k : String} {c : Cfg} :
    (k, c) ∈ b.filter (fun e => !(a.any (·.1 == e.1))) ↔ (k, c) ∈ b ∧ k ∉ keys a := by
  rw [List.mem_filter]
  constructor
  · rintro ⟨h1, h2⟩
    refine ⟨h1, fun hk => ?_⟩
    rw [(any_key a k).2 hk] at h2
    cases h2
  · rintro ⟨h1, h2⟩
    refine ⟨h1, ?_⟩
    have : a.any (·.1 == k) = false := by
      rw [← Bool.not_eq_true, any_key]; exact h2
    simp only [this, Bool.not_false]

/-- key uniqueness, unfolded one level -/
theorem nodupKeys_iff (ks : List (String × Cfg)) :
    NoDupKeysL ks ↔ (keys ks).Nodup ∧ ∀ k c, (k, c) ∈ ks → NoDupKeys c := by
  induction ks with
  | nil => simp [NoDupKeysL, keys]
  | cons e rest ih =>
    obtain ⟨k0, c0⟩ := e
    rw [NoDupKeysL, ih]
    simp only [keys, List.map_cons, List.nodup_cons, List.mem_map, List.mem_cons]
    constructor
    · rintro ⟨h1, h2, h3, h4⟩
      refine ⟨⟨?_, h3⟩, ?_⟩
      · rintro ⟨e, he, hk⟩
        exact h1 e he hk
      · rintro k c (h | h)
        · cases h; exact h2
        · exact h4 k c h
    · rintro ⟨⟨h1, h3⟩, h4⟩
      refine ⟨?_, h4 k0 c0 (.inl rfl), h3, fun k c h => h4 k c (.inr h)⟩
      intro e he hk
      exact h1 ⟨e, he, hk⟩

/-! ### `paths (merge a b) = paths a ∪ paths b` -/

theorem sizeOf_child_lt {ks : List (String × Cfg)} {k : String} {c : Cfg} (h : (k, c) ∈ ks) :
    sizeOf c < sizeOf (Cfg.mk ks) := by
  have h1 := List.sizeOf_lt_of_mem h
  have h2 : sizeOf c < sizeOf (k, c) := by simp; omega
  have h3 : sizeOf (Cfg.mk ks) = 1 + sizeOf ks := by simp
  omega

theorem paths_merge (a b : Cfg) (ha : NoDupKeys a) (hb : NoDupKeys b) (p : List String) :
    p ∈ (merge a b).paths ↔ p ∈ a.paths ∨ p ∈ b.paths := by
  match a, b with
  | .mk a, .mk b =>
    rw [NoDupKeys] at ha hb
    have hak := (nodupKeys_iff a).1 ha
    have hbk := (nodupKeys_iff b).1 hb
    rw [merge]
    simp only [Cfg.paths]
    rw [pathsList_append, List.mem_append]
    simp only [mem_pathsList]
    constructor
    · rintro (⟨k, c, hm, h⟩ | ⟨k, c, hm, h⟩)
      · obtain ⟨c0, h0, h1⟩ := mem_mergeL a b k c hm
        rcases h1 with ⟨_, rfl⟩ | ⟨c1, h1, rfl⟩
        · exact .inl ⟨k, c, h0, h⟩
        · rcases h with h | ⟨q, hq, rfl⟩
          · exact .inl ⟨k, c0, h0, .inl h⟩
          · have := (paths_merge c0 c1 (hak.2 k c0 h0) (hbk.2 k c1 h1) q).1 hq
            rcases this with hq | hq
            · exact .inl ⟨k, c0, h0, .inr ⟨q, hq, rfl⟩⟩
            · exact .inr ⟨k, c1, h1, .inr ⟨q, hq, rfl⟩⟩
      · exact .inr ⟨k, c, (mem_filter_new.1 hm).1, h⟩
    · rintro (⟨k, c0, h0, h⟩ | ⟨k, c1, h1, h⟩)
      · by_cases hk : k ∈ keys b
        · obtain ⟨c1, h1⟩ := mem_keys.1 hk
          refine .inl ⟨k, merge c0 c1, mem_mergeL_of_both a b hbk.1 k c0 c1 h0 h1, ?_⟩
          rcases h with h | ⟨q, hq, rfl⟩
          · exact .inl h
          · exact .inr ⟨q, (paths_merge c0 c1 (hak.2 k c0 h0) (hbk.2 k c1 h1) q).2 (.inl hq), rfl⟩
        · exact .inl ⟨k, c0, mem_mergeL_of_left a b k c0 h0 hk, h⟩
      · by_cases hk : k ∈ keys a
        · obtain ⟨c0, h0⟩ := mem_keys.1 hk
          refine .inl ⟨k, merge c0 c1, mem_mergeL_of_both a b hbk.1 k c0 c1 h0 h1, ?_⟩
          rcases h with h | ⟨q, hq, rfl⟩
          · exact .inl h
          · exact .inr ⟨q, (paths_merge c0 c1 (hak.2 k c0 h0) (hbk.2 k c1 h1) q).2 (.inr hq), rfl⟩
        · exact .inr ⟨k, c1, mem_filter_new.2 ⟨h1, hk⟩, h⟩
termination_by sizeOf a
decreasing_by
  all_goals first
    | exact sizeOf_child_lt ‹_›
    | (simp_wf; have := sizeOf_child_lt ‹(_, _) ∈ _›; omega)


/-! ### key uniqueness is preserved by `merge`, by sub-trees and by `insertPath` -/

theorem nodup_merge (a b : Cfg) (ha : NoDupKeys a) (hb : NoDupKeys b) : NoDupKeys (merge a b) := by
  match a, b with
  | .mk a, .mk b =>
    rw [NoDupKeys] at ha hb
    have hak := (nodupKeys_iff a).1 ha
    have hbk := (nodupKeys_iff b).1 hb
    have hk := nodup_keys_merge hak.1 hbk.1
    rw [merge] at hk ⊢
    rw [NoDupKeys, nodupKeys_iff]
    refine ⟨hk, ?_⟩
    intro k c hm
    rcases List.mem_append.1 hm with hm | hm
    · obtain ⟨c0, h0, h1⟩ := mem_mergeL a b k c hm
      rcases h1 with ⟨_, rfl⟩ | ⟨c1, h1, rfl⟩
      · exact hak.2 k c h0
      · exact nodup_merge c0 c1 (hak.2 k c0 h0) (hbk.2 k c1 h1)
    · exact hbk.2 k c (mem_filter_new.1 hm).1
termination_by sizeOf a
decreasing_by
  all_goals first
    | exact sizeOf_child_lt ‹_›
    | (simp_wf; have := sizeOf_child_lt ‹(_, _) ∈ _›; omega)

mutual
  theorem subL_keys : (a l : List (String × Cfg)) → SubL a l → (keys a).Sublist (keys l)
    | _, _, .nil l => by simp [keys]
    | _, _, .skip x h => by
      simp only [keys, List.map_cons]
      exact List.Sublist.cons _ (subL_keys _ _ h)
    | _, _, .keep k _ h => by
      simp only [keys, List.map_cons]
      exact List.Sublist.cons_cons _ (subL_keys _ _ h)
end

mutual
  theorem nodup_sub : (t' t : Cfg) → Sub t' t → NoDupKeys t → NoDupKeys t'
    | .mk a, .mk b, .mk h, hn => by
      rw [NoDupKeys] at hn ⊢
      exact nodup_subL a b h hn
  theorem nodup_subL : (a l : List (String × Cfg)) → SubL a l → NoDupKeysL l → NoDupKeysL a
    | _, _, .nil l, _ => by rw [NoDupKeysL]; trivial
    | _, _, .skip (a := a) (l := l) x h, hn => by
      obtain ⟨k, c⟩ := x
      rw [NoDupKeysL] at hn
      exact nodup_subL a l h hn.2.2
    | _, _, .keep (a := a) (l := l) (c := c) (c' := c') k hc h, hn => by
      rw [NoDupKeysL] at hn ⊢
      refine ⟨?_, nodup_sub c c' hc hn.2.1, nodup_subL a l h hn.2.2⟩
      intro e he hk
      have := (subL_keys a l h).subset (keys_of_mem he)
      obtain ⟨e', he', hk'⟩ := List.mem_map.1 this
      exact hn.1 e' he' (hk'.trans hk)
end

theorem insertPath_kids_keys (k : String) (rest : List String) (ks : List (String × Cfg)) :
    keys (Cfg.insertPath (k :: rest) (.mk ks)).kids = if Cfg.hasKey ks k then keys ks else keys ks ++ [k] := by
  rw [Cfg.insertPath]
  split
  · simp only [Cfg.kids, keys, List.map_map]
    apply List.map_congr_left
    intro e _
    simp only [Function.comp]
    split <;> rfl
  · simp [Cfg.kids, keys]

theorem nodup_insertPath : (p : List String) → (t : Cfg) → NoDupKeys t → NoDupKeys (Cfg.insertPath p t)
  | [], t, h => by rw [Cfg.insertPath]; exact h
  | k :: rest, .mk ks, h => by
    rw [NoDupKeys] at h
    have hk := (nodupKeys_iff ks).1 h
    have hkeys := insertPath_kids_keys k rest ks
    rw [Cfg.insertPath] at hkeys ⊢
    by_cases hh : Cfg.hasKey ks k = true
    · simp only [hh, if_true] at hkeys ⊢
      rw [NoDupKeys, nodupKeys_iff]
      simp only [Cfg.kids] at hkeys
      refine ⟨hkeys ▸ hk.1, ?_⟩
      intro k' c' hm
      obtain ⟨e, he, heq⟩ := List.mem_map.1 hm
      split at heq
      · cases heq
        exact nodup_insertPath rest e.2 (hk.2 e.1 e.2 he)
      · subst heq
        exact hk.2 _ _ he
    · simp only [hh, Bool.false_eq_true, if_false] at hkeys ⊢
      rw [NoDupKeys, nodupKeys_iff]
      simp only [Cfg.kids] at hkeys
      refine ⟨hkeys ▸ ?_, ?_⟩
      · rw [List.nodup_append]
        refine ⟨hk.1, by simp, ?_⟩
        intro x hx y hy hxy
        simp only [List.mem_singleton] at hy
        subst hy; subst hxy
        apply hh
        simpa [Cfg.hasKey, keys] using hx
      · intro k' c' hm
        rcases List.mem_append.1 hm with hm | hm
        · exact hk.2 _ _ hm
        · simp only [List.mem_singleton] at hm
          cases hm
          exact nodup_insertPath rest Cfg.empty (by rw [Cfg.empty, NoDupKeys, NoDupKeysL]; trivial)

theorem nodup_treeOfStacks (ss : List (List String)) : NoDupKeys (Offside.treeOfStacks ss) := by
  have : ∀ (ss : List (List String)) (t : Cfg), NoDupKeys t →
      NoDupKeys (ss.foldl (fun t p => Cfg.insertPath p t) t) := by
    intro ss
    induction ss with
    | nil => intro t h; exact h
    | cons p rest ih => intro t h; exact ih _ (nodup_insertPath p t h)
  exact this ss Cfg.empty (by rw [Cfg.empty, NoDupKeys, NoDupKeysL]; trivial)

end Annet.Gen.Lemmas
