/-
Helpers for `merge_monotone_partial` (C06): the compiled form of a plain ACL text is a well-formed
dictionary whose denotation is the set of row paths of the text (`InDR`), whatever merging happened.
-/
import AnnetModel.Lemmas.AclMergeDefs
import AnnetModel.Lemmas.AclMergeDict

namespace Annet.Acl.Lemmas
open Annet Annet.Acl Annet.Acl.Spec

def rawRow : RawRule → String | .mk r _ _ _ _ _ _ => r
def rawKids : RawRule → List RawRule | .mk _ _ _ _ _ _ ch => ch

/-- `InDR l p`: `p` is a path of rule rows through the raw ACL text `l` -/
def InDR : List RawRule → List String → Prop
  | _, [] => True
  | l, r :: p => ∃ x ∈ l, rawRow x = r ∧ InDR (rawKids x) p

theorem inDR_mono {l l' : List RawRule} (h : ∀ x ∈ l, x ∈ l') (p : List String) : InDR l p → InDR l' p := by
  cases p with
  | nil => exact fun _ => trivial
  | cons r q =>
    rintro ⟨x, hx, hr, hq⟩
    exact ⟨x, h x hx, hr, hq⟩

theorem plainRawL_iff (l : List RawRule) : PlainRawL l = true ↔ ∀ x ∈ l, PlainRaw x = true := by
  induction l with
  | nil => simp [PlainRawL]
  | cons x xs ih => simp [PlainRawL, ih]

theorem plainRaw_inv {x : RawRule} (h : PlainRaw x = true) :
    (Merged.ofRaw x).id = rawRow x ∧ (Merged.ofRaw x).row = rawRow x ∧ (Merged.ofRaw x).ignore = false ∧
    (Merged.ofRaw x).isGlobal = false ∧ PlainRawL (rawKids x) = true ∧
    (∀ q, q ∈ (Merged.ofRaw x).children.flatten ↔ q ∈ rawKids x) := by
  match x, h with
  | .mk row ign g cd prio names ch, h =>
    simp only [PlainRaw, Bool.and_eq_true, Bool.not_eq_true'] at h
    obtain ⟨⟨h1, h2⟩, h3⟩ := h
    subst h1 h2
    refine ⟨by simp [Merged.ofRaw, rawRow], rfl, rfl, rfl, h3, ?_⟩
    intro q
    simp only [Merged.ofRaw, rawKids]
    split
    · rename_i he; simp [List.isEmpty_iff.1 he]
    · simp

theorem depthList_le {l : List RawRule} {x : RawRule} (h : x ∈ l) : depthRaw x ≤ depthRaw.depthList l := by
  induction l with
  | nil => cases h
  | cons y ys ih =>
    simp only [depthRaw.depthList]
    rcases List.mem_cons.1 h with rfl | h
    · exact Nat.le_max_left ..
    · exact Nat.le_trans (ih h) (Nat.le_max_right ..)

theorem depthRaw_kids {x q : RawRule} (h : q ∈ rawKids x) : depthRaw q + 1 ≤ depthRaw x := by
  match x, h with
  | .mk _ _ _ _ _ _ ch, h =>
    simp only [rawKids] at h
    have := depthList_le h
    simp only [depthRaw]; omega

/-! ### `mergeToplevel` -/

/-- invariant of the `mergeInto` fold over the raw rules `L` seen so far -/
structure MInv (L : List RawRule) (acc : List Merged) : Prop where
  distinct : acc.Pairwise (fun a b => a.id ≠ b.id)
  plain : ∀ m ∈ acc, m.isGlobal = false ∧ m.ignore = false ∧ m.id = m.row ∧ ∃ x ∈ L, rawRow x = m.id
  cover : ∀ x ∈ L, ∃ m ∈ acc, m.id = rawRow x
  kids : ∀ m ∈ acc, ∀ q, q ∈ m.children.flatten ↔ ∃ x ∈ L, rawRow x = m.id ∧ q ∈ rawKids x

theorem absorb_fields (m : Merged) (r : RawRule) (hr : PlainRaw r = true) :
    (m.absorb r).id = m.id ∧ (m.absorb r).row = m.row ∧ (m.absorb r).ignore = m.ignore ∧
    (m.absorb r).isGlobal = m.isGlobal ∧
    (∀ q, q ∈ (m.absorb r).children.flatten ↔ (q ∈ m.children.flatten ∨ q ∈ rawKids r)) := by
  match r, hr with
  | .mk row ign g cd prio names ch, hr =>
    simp only [PlainRaw, Bool.and_eq_true, Bool.not_eq_true'] at hr
    obtain ⟨⟨h1, h2⟩, h3⟩ := hr
    subst h1 h2
    refine ⟨rfl, rfl, rfl, by simp [Merged.absorb], ?_⟩
    intro q
    simp only [Merged.absorb, rawKids]
    split
    · rename_i he; simp [List.isEmpty_iff.1 he]
    · simp

theorem mergeInto_inv {L : List RawRule} {acc : List Merged} (h : MInv L acc) (r : RawRule)
    (hr : PlainRaw r = true) : MInv (L ++ [r]) (mergeInto acc r) := by
  obtain ⟨oid, orow, oign, oglob, _, okids⟩ := plainRaw_inv hr
  unfold mergeInto
  simp only
  split
  · rename_i hany
    have hf : ∀ a : Merged, (if (a.id == (Merged.ofRaw r).id) = true then a.absorb r else a).id = a.id := by
      intro a; split
      · exact (absorb_fields a r hr).1
      · rfl
    refine ⟨?_, ?_, ?_, ?_⟩
    · rw [List.pairwise_map]
      exact h.distinct.imp (fun {a b} hne => by rw [hf a, hf b]; exact hne)
    · intro m hm
      obtain ⟨a, ha, rfl⟩ := List.mem_map.1 hm
      obtain ⟨p1, p2, p3, x, hx, hxr⟩ := h.plain a ha
      rw [hf a]
      split
      · obtain ⟨f1, f2, f3, f4, _⟩ := absorb_fields a r hr
        exact ⟨by rw [f4, p1], by rw [f3, p2], by rw [f2]; exact p3, x, List.mem_append_left _ hx, hxr⟩
      · exact ⟨p1, p2, p3, x, List.mem_append_left _ hx, hxr⟩
    · intro x hx
      rcases List.mem_append.1 hx with hx | hx
      · obtain ⟨m, hm, hmid⟩ := h.cover x hx
        exact ⟨_, List.mem_map.2 ⟨m, hm, rfl⟩, by rw [hf m]; exact hmid⟩
      · simp only [List.mem_singleton] at hx; subst hx
        obtain ⟨a, ha, haid⟩ := List.any_eq_true.1 hany
        exact ⟨_, List.mem_map.2 ⟨a, ha, rfl⟩, by rw [hf a, ← oid]; simpa using haid⟩
    · intro m hm q
      obtain ⟨a, ha, rfl⟩ := List.mem_map.1 hm
      rw [hf a]
      split
      · rename_i heq
        have heq' : a.id = rawRow r := by rw [← oid]; simpa using heq
        rw [(absorb_fields a r hr).2.2.2.2 q, h.kids a ha q]
        constructor
        · rintro (⟨x, hx, hxr, hq⟩ | hq)
          · exact ⟨x, List.mem_append_left _ hx, hxr, hq⟩
          · exact ⟨r, List.mem_append_right _ (List.mem_singleton.2 rfl), heq'.symm, hq⟩
        · rintro ⟨x, hx, hxr, hq⟩
          rcases List.mem_append.1 hx with hx | hx
          · exact .inl ⟨x, hx, hxr, hq⟩
          · simp only [List.mem_singleton] at hx; subst hx; exact .inr hq
      · rename_i hne
        have hne' : a.id ≠ rawRow r := by rw [← oid]; simpa using hne
        rw [h.kids a ha q]
        constructor
        · rintro ⟨x, hx, hxr, hq⟩
          exact ⟨x, List.mem_append_left _ hx, hxr, hq⟩
        · rintro ⟨x, hx, hxr, hq⟩
          rcases List.mem_append.1 hx with hx | hx
          · exact ⟨x, hx, hxr, hq⟩
          · simp only [List.mem_singleton] at hx; subst hx; exact absurd hxr.symm hne'
  · rename_i hany
    have hnone : ∀ a ∈ acc, a.id ≠ rawRow r := by
      intro a ha heq
      apply hany
      exact List.any_eq_true.2 ⟨a, ha, by rw [oid]; simpa using heq⟩
    refine ⟨?_, ?_, ?_, ?_⟩
    · rw [List.pairwise_append]
      refine ⟨h.distinct, List.pairwise_singleton .., ?_⟩
      intro a ha b hb
      simp only [List.mem_singleton] at hb; subst hb
      rw [oid]; exact hnone a ha
    · intro m hm
      rcases List.mem_append.1 hm with hm | hm
      · obtain ⟨p1, p2, p3, x, hx, hxr⟩ := h.plain m hm
        exact ⟨p1, p2, p3, x, List.mem_append_left _ hx, hxr⟩
      · simp only [List.mem_singleton] at hm; subst hm
        exact ⟨oglob, oign, by rw [oid, orow], r, List.mem_append_right _ (List.mem_singleton.2 rfl), oid.symm⟩
    · intro x hx
      rcases List.mem_append.1 hx with hx | hx
      · obtain ⟨m, hm, hmid⟩ := h.cover x hx
        exact ⟨m, List.mem_append_left _ hm, hmid⟩
      · simp only [List.mem_singleton] at hx; subst hx
        exact ⟨_, List.mem_append_right _ (List.mem_singleton.2 rfl), oid⟩
    · intro m hm0 q
      rcases List.mem_append.1 hm0 with hm | hm
      · clear hm0
        rw [h.kids m hm q]
        constructor
        · rintro ⟨x, hx, hxr, hq⟩
          exact ⟨x, List.mem_append_left _ hx, hxr, hq⟩
        · rintro ⟨x, hx, hxr, hq⟩
          rcases List.mem_append.1 hx with hx | hx
          · exact ⟨x, hx, hxr, hq⟩
          · simp only [List.mem_singleton] at hx; subst hx; exact absurd hxr.symm (hnone m hm)
      · clear hm0
        simp only [List.mem_singleton] at hm; subst hm
        rw [okids q]
        constructor
        · intro hq
          exact ⟨r, List.mem_append_right _ (List.mem_singleton.2 rfl), oid.symm, hq⟩
        · rintro ⟨x, hx, hxr, hq⟩
          rcases List.mem_append.1 hx with hx | hx
          · obtain ⟨m, hm, hmid⟩ := h.cover x hx
            exact absurd (by rw [hmid, hxr, oid]) (hnone m hm)
          · simp only [List.mem_singleton] at hx; subst hx; exact hq

theorem foldl_mergeInto_inv (l : List RawRule) (hl : ∀ x ∈ l, PlainRaw x = true) :
    ∀ (L : List RawRule) (acc : List Merged), MInv L acc → MInv (L ++ l) (l.foldl mergeInto acc) := by
  induction l with
  | nil => intro L acc h; simpa using h
  | cons r rs ih =>
    intro L acc h
    have := ih (fun x hx => hl x (List.mem_cons_of_mem _ hx)) (L ++ [r]) (mergeInto acc r)
      (mergeInto_inv h r (hl r (List.mem_cons_self ..)))
    simpa using this

theorem mergeToplevel_inv (trees : List (List RawRule)) (hl : ∀ x ∈ trees.flatten, PlainRaw x = true) :
    MInv trees.flatten (mergeToplevel trees) := by
  have h0 : MInv [] [] := ⟨List.Pairwise.nil, by simp, by simp, by simp⟩
  have := foldl_mergeInto_inv trees.flatten hl [] [] h0
  rw [List.foldl_flatten] at this
  simpa [mergeToplevel] using this


/-! ### `compileAclFuel` -/

def mkRule (fuel : Nat) (m : Merged) : Rule :=
  Rule.mk m.id m.row m.ignore m.cantDelete m.prio m.genNames
    (if !m.isGlobal && !m.ignore then
      some ((compileAclFuel fuel m.children).loc, (compileAclFuel fuel m.children).glob)
    else none)

theorem compileAclFuel_succ (fuel : Nat) (trees : List (List RawRule)) :
    compileAclFuel (fuel + 1) trees =
      ⟨((mergeToplevel trees).filter (!·.isGlobal)).map (mkRule fuel),
       ((mergeToplevel trees).filter (·.isGlobal)).map (mkRule fuel)⟩ := by
  rw [compileAclFuel]; rfl

theorem depthRaw_pos (x : RawRule) : 1 ≤ depthRaw x := by
  match x with
  | .mk _ _ _ _ _ _ ch => simp only [depthRaw]; omega

theorem compileAclFuel_spec : ∀ (fuel : Nat) (trees : List (List RawRule)),
    (∀ x ∈ trees.flatten, PlainRaw x = true ∧ depthRaw x ≤ fuel) →
    (compileAclFuel fuel trees).glob = [] ∧ WFRules (compileAclFuel fuel trees).loc ∧
    ∀ p, InD (compileAclFuel fuel trees).loc p ↔ InDR trees.flatten p := by
  intro fuel
  induction fuel with
  | zero =>
    intro trees h
    have he : trees.flatten = [] := by
      cases hf : trees.flatten with
      | nil => rfl
      | cons x xs =>
        have := (h x (by rw [hf]; exact List.mem_cons_self ..)).2
        have := depthRaw_pos x
        omega
    rw [he]
    refine ⟨rfl, wfRules_nil, fun p => ?_⟩
    cases p <;> simp [compileAclFuel, InD, InDR]
  | succ fuel ih =>
    intro trees h
    have inv := mergeToplevel_inv trees (fun x hx => (h x hx).1)
    rw [compileAclFuel_succ]
    have hg : (mergeToplevel trees).filter (·.isGlobal) = [] := by
      rw [List.filter_eq_nil_iff]
      intro m hm; rw [(inv.plain m hm).1]; simp
    have hl : (mergeToplevel trees).filter (!·.isGlobal) = mergeToplevel trees := by
      rw [List.filter_eq_self]
      intro m hm; rw [(inv.plain m hm).1]; rfl
    simp only [hg, hl, List.map_nil]
    -- the children of every merged rule
    have hkid : ∀ m ∈ mergeToplevel trees,
        (mkRule fuel m).id = m.id ∧ (mkRule fuel m).row = m.id ∧ (mkRule fuel m).ignore = false ∧
        (mkRule fuel m).children = some ((compileAclFuel fuel m.children).loc, []) ∧
        WFRules (compileAclFuel fuel m.children).loc ∧
        ∀ p, InD (compileAclFuel fuel m.children).loc p ↔ InDR m.children.flatten p := by
      intro m hm
      obtain ⟨p1, p2, p3, _⟩ := inv.plain m hm
      have hch : ∀ q ∈ m.children.flatten, PlainRaw q = true ∧ depthRaw q ≤ fuel := by
        intro q hq
        obtain ⟨x, hx, _, hqx⟩ := (inv.kids m hm q).1 hq
        obtain ⟨hp, hd⟩ := h x hx
        have := depthRaw_kids hqx
        exact ⟨(plainRawL_iff _).1 (plainRaw_inv hp).2.2.2.2.1 q hqx, by omega⟩
      obtain ⟨i1, i2, i3⟩ := ih m.children hch
      refine ⟨rfl, p3.symm, p2, ?_, i2, i3⟩
      simp [mkRule, p1, p2, i1, Rule.children]
    refine ⟨trivial, ⟨?_, ?_⟩, ?_⟩
    · rw [wfList_iff]
      intro z hz
      obtain ⟨m, hm, rfl⟩ := List.mem_map.1 hz
      obtain ⟨k1, k2, k3, k4, k5, _⟩ := hkid m hm
      exact wfRule_of_fields (by rw [k1, k2]) k3 k4 k5
    · rw [DistinctIds, List.pairwise_map]
      exact inv.distinct
    · intro p
      cases p with
      | nil => simp [InD, InDR]
      | cons r q =>
        constructor
        · rintro ⟨z, hz, hzr, c, g, hzc, hq⟩
          obtain ⟨m, hm, rfl⟩ := List.mem_map.1 hz
          obtain ⟨k1, k2, k3, k4, k5, k6⟩ := hkid m hm
          rw [k4] at hzc
          simp only [Option.some.injEq, Prod.mk.injEq] at hzc
          obtain ⟨rfl, rfl⟩ := hzc
          rw [k2] at hzr
          have hq' := (k6 q).1 hq
          cases q with
          | nil =>
            obtain ⟨x, hx, hxr⟩ := (inv.plain m hm).2.2.2
            exact ⟨x, hx, by rw [hxr, hzr], trivial⟩
          | cons r' q' =>
            obtain ⟨y, hy, hyr, hyq⟩ := hq'
            obtain ⟨x, hx, hxr, hyx⟩ := (inv.kids m hm y).1 hy
            exact ⟨x, hx, by rw [hxr, hzr], y, hyx, hyr, hyq⟩
        · rintro ⟨x, hx, hxr, hq⟩
          obtain ⟨m, hm, hmid⟩ := inv.cover x hx
          obtain ⟨k1, k2, k3, k4, k5, k6⟩ := hkid m hm
          refine ⟨mkRule fuel m, List.mem_map.2 ⟨m, hm, rfl⟩, by rw [k2, hmid, hxr], _, _, k4, (k6 q).2 ?_⟩
          exact inDR_mono (fun y hy => (inv.kids m hm y).2 ⟨x, hx, hmid.symm, hy⟩) q hq

theorem compileAcl_append_spec (A B : List RawRule) (hA : PlainRawL A = true) (hB : PlainRawL B = true) :
    (compileAcl [A ++ B]).glob = [] ∧ WFRules (compileAcl [A ++ B]).loc ∧
    ∀ p, InD (compileAcl [A ++ B]).loc p ↔ InDR (A ++ B) p := by
  have := compileAclFuel_spec (depthRaw.depthList (A ++ B) + 1) [A ++ B] (by
    intro x hx
    simp only [List.flatten_cons, List.flatten_nil, List.append_nil] at hx
    refine ⟨?_, Nat.le_succ_of_le (depthList_le hx)⟩
    rcases List.mem_append.1 hx with hx | hx
    · exact (plainRawL_iff _).1 hA x hx
    · exact (plainRawL_iff _).1 hB x hx)
  simpa [compileAcl] using this

theorem compileAcl_single_spec (A : List RawRule) (hA : PlainRawL A = true) :
    (compileAcl [A]).glob = [] ∧ WFRules (compileAcl [A]).loc ∧
    ∀ p, InD (compileAcl [A]).loc p ↔ InDR A p := by
  have := compileAcl_append_spec A [] hA rfl
  simpa using this

end Annet.Acl.Lemmas
