/-
Helper lemmas for the text views of a diff (C03, last clause), part 2: the `annet diff` view.
`forestPre` reads the entry forest off a `Pre` in printing order; `gen_pre_as_diff` prints exactly that forest
(`preLines_eq`), the reader gets it back (`parsePre_preLines`), and `make_pre` only regroups the entries of the
diff (`makePreAcc_spermv`).

Core Lean only.
-/
import AnnetModel.Lemmas.DiffTextBase

namespace Annet.DiffText
open Annet.Rules Annet.Diff Annet.Patch
open List

/-! ### `SPermv` / `SEqv` toolkit -/

mutual
  theorem SEqv.refl : ∀ i : SItem, SEqv i i
    | .mk _ _ c => SEqv.mk (SPermv.refl c)
  theorem SPermv.refl : ∀ l : List SItem, SPermv l l
    | [] => .nil
    | i :: l => .cons (SEqv.refl i) (SPermv.refl l)
end

theorem SPermv.of_perm {a b : List SItem} (h : a ~ b) : SPermv a b := by
  induction h with
  | nil => exact .nil
  | cons x _ ih => exact .cons (SEqv.refl x) ih
  | swap x y l => exact .swap
  | trans _ _ ih1 ih2 => exact .trans ih1 ih2

theorem SPermv.append_left (a : List SItem) {b b' : List SItem} (h : SPermv b b') : SPermv (a ++ b) (a ++ b') := by
  induction a with
  | nil => simpa using h
  | cons x a ih => exact .cons (SEqv.refl x) ih

theorem SPermv.append_right {a a' : List SItem} (b : List SItem) (h : SPermv a a') : SPermv (a ++ b) (a' ++ b) :=
  .trans (.of_perm perm_append_comm) (.trans (SPermv.append_left b h) (.of_perm perm_append_comm))

theorem SPermv.append {a a' b b' : List SItem} (h1 : SPermv a a') (h2 : SPermv b b') :
    SPermv (a ++ b) (a' ++ b') :=
  .trans (SPermv.append_right b h1) (SPermv.append_left a' h2)

theorem SPermv.append_comm (a b : List SItem) : SPermv (a ++ b) (b ++ a) := .of_perm perm_append_comm

theorem noLeadBlank_cons (i : SItem) (l : List SItem) :
    NoLeadBlank (i :: l) ↔ NoLeadBlankItem i ∧ NoLeadBlank l := by simp [NoLeadBlank]

/-- `NoLeadBlank` is a property of the multiset of entries at every level -/
theorem noLeadBlank_spermv {p s : List SItem} (h : SPermv p s) : NoLeadBlank p ↔ NoLeadBlank s := by
  refine SPermv.rec (motive_1 := fun a b _ => NoLeadBlankItem a ↔ NoLeadBlankItem b)
    (motive_2 := fun a b _ => NoLeadBlank a ↔ NoLeadBlank b) ?_ ?_ ?_ ?_ ?_ h
  · intro s r c1 c2 _ ih
    simp only [NoLeadBlankItem, ih]
  · exact Iff.rfl
  · intro a b l1 l2 _ _ ih1 ih2
    simp only [noLeadBlank_cons, ih1, ih2]
  · intro a b l
    simp only [noLeadBlank_cons]
    constructor <;> (intro ⟨h1, h2, h3⟩; exact ⟨h2, h1, h3⟩)
  · intro l1 l2 l3 _ _ ih1 ih2
    exact ih1.trans ih2

/-! ### the forest of a `Pre`, in printing order -/

/-- the entry printed for a `PreEntry` under sign `s` -/
def entryS (forest : Pre → List SItem) (s : Sign) : PreEntry → SItem
  | .mk row ch => .mk s row.toList (forest ch)

mutual
  def forestPre : Pre → List SItem
    | .mk rules => forestRules rules
  def forestRules : List PreRule → List SItem
    | [] => []
    | .mk _ _ items :: rest => forestItems items ++ forestRules rest
  def forestItems : List PreItem → List SItem
    | [] => []
    | .mk _ a r m f _ :: rest =>
      (forestEntries .space f ++ forestEntries .gt m ++ forestEntries .minus r ++ forestEntries .plus a) ++
        forestItems rest
  def forestEntries (s : Sign) : List PreEntry → List SItem
    | [] => []
    | .mk row ch :: rest => .mk s row.toList (forestPre ch) :: forestEntries s rest
end

/- the lines of `gen_pre_as_diff`, printed from a forest -/
mutual
  def plinesItem (ind : Txt) (lvl : Nat) : SItem → List Txt
    | .mk s row ch => pline ind s lvl row :: plinesList ind (lvl + 1) ch
  def plinesList (ind : Txt) (lvl : Nat) : List SItem → List Txt
    | [] => []
    | i :: rest => plinesItem ind lvl i ++ plinesList ind lvl rest
end

theorem plinesList_append (ind : Txt) (lvl : Nat) :
    ∀ (a b : List SItem), plinesList ind lvl (a ++ b) = plinesList ind lvl a ++ plinesList ind lvl b
  | [], b => by simp [plinesList]
  | i :: a, b => by simp [plinesList, plinesList_append ind lvl a b]

mutual
  theorem preLines_eq (ind : Txt) : ∀ (lvl : Nat) (p : Pre), preLines ind lvl p = plinesList ind lvl (forestPre p)
    | lvl, .mk rules => by
      simp only [preLines, forestPre]
      exact preRules_eq ind lvl rules
  theorem preRules_eq (ind : Txt) :
      ∀ (lvl : Nat) (l : List PreRule), preRules ind lvl l = plinesList ind lvl (forestRules l)
    | lvl, [] => by simp [preRules, forestRules, plinesList]
    | lvl, .mk _ _ items :: rest => by
      simp only [preRules, forestRules, plinesList_append, preItems_eq ind lvl items, preRules_eq ind lvl rest]
  theorem preItems_eq (ind : Txt) :
      ∀ (lvl : Nat) (l : List PreItem), preItems ind lvl l = plinesList ind lvl (forestItems l)
    | lvl, [] => by simp [preItems, forestItems, plinesList]
    | lvl, .mk _ a r m f _ :: rest => by
      simp only [preItems, forestItems, plinesList_append, preEntries_eq ind lvl _ f, preEntries_eq ind lvl _ m,
        preEntries_eq ind lvl _ r, preEntries_eq ind lvl _ a, preItems_eq ind lvl rest]
  theorem preEntries_eq (ind : Txt) :
      ∀ (lvl : Nat) (s : Sign) (l : List PreEntry), preEntries ind lvl s l = plinesList ind lvl (forestEntries s l)
    | lvl, s, [] => by simp [preEntries, forestEntries, plinesList]
    | lvl, s, .mk row ch :: rest => by
      simp only [preEntries, forestEntries, plinesList, plinesItem, preLines_eq ind (lvl + 1) ch,
        preEntries_eq ind lvl s rest, List.cons_append]
end

/-! ### reading the lines back -/

theorem spanBlanks_replicate (row : Txt) (h : row.head? ≠ some ' ') :
    ∀ n, spanBlanks (List.replicate n ' ' ++ row) = (n, row)
  | 0 => by
    cases row with
    | nil => simp [spanBlanks]
    | cons c t =>
      have hc : c ≠ ' ' := by simpa using h
      simp only [List.replicate_zero, List.nil_append]
      unfold spanBlanks
      split
      · rename_i heq
        simp only [List.cons.injEq] at heq
        exact absurd heq.1 hc
      · rfl
  | n + 1 => by
    simp [List.replicate_succ, spanBlanks, spanBlanks_replicate row h n]

theorem rep_replicate (k : Nat) (c : Char) : ∀ lvl, rep lvl (List.replicate k c) = List.replicate (lvl * k) c
  | 0 => by simp [rep]
  | n + 1 => by
    rw [rep, rep_replicate k c n, List.replicate_append_replicate]
    congr 1
    rw [Nat.succ_mul, Nat.add_comm]

theorem readPreLine_pline (k : Nat) (hk : 0 < k) (s : Sign) (lvl : Nat) (row : Txt) (h : row.head? ≠ some ' ') :
    readPreLine k (pline (List.replicate k ' ') s lvl row) = some ⟨s, lvl, row⟩ := by
  have e : rep lvl (List.replicate k ' ') ++ ' ' :: row = List.replicate (lvl * k + 1) ' ' ++ row := by
    rw [rep_replicate, List.replicate_succ', List.append_assoc]
    rfl
  simp only [pline, readPreLine, ofChar_char, e, spanBlanks_replicate row h, Nat.add_sub_cancel,
    Nat.mul_div_cancel _ hk]

theorem readPreLines_append {k : Nat} : ∀ {a b : List Txt} {x y : List PLine},
    readPreLines k a = some x → readPreLines k b = some y → readPreLines k (a ++ b) = some (x ++ y)
  | [], b, x, y, ha, hb => by
    simp only [readPreLines, Option.some.injEq] at ha
    subst ha
    simpa using hb
  | l :: a, b, x, y, ha, hb => by
    simp only [readPreLines] at ha
    simp only [List.cons_append, readPreLines]
    cases h1 : readPreLine k l with
    | none => simp [h1] at ha
    | some p =>
      cases h2 : readPreLines k a with
      | none => simp [h1, h2] at ha
      | some ps =>
        have ih := readPreLines_append h2 hb
        simp only [h1, h2, Option.some.injEq] at ha
        subst ha
        simp [ih]

mutual
  theorem readPreLines_plinesItem (k : Nat) (hk : 0 < k) : ∀ (lvl : Nat) (i : SItem), NoLeadBlankItem i →
      readPreLines k (plinesItem (List.replicate k ' ') lvl i) = some (flatItem lvl i)
    | lvl, .mk s row ch, h => by
      simp only [NoLeadBlankItem] at h
      have ih := readPreLines_plinesList k hk (lvl + 1) ch h.2
      simp only [plinesItem, flatItem, readPreLines, readPreLine_pline k hk s lvl row h.1, ih]
  theorem readPreLines_plinesList (k : Nat) (hk : 0 < k) : ∀ (lvl : Nat) (l : List SItem), NoLeadBlank l →
      readPreLines k (plinesList (List.replicate k ' ') lvl l) = some (flatList lvl l)
    | lvl, [], _ => by simp [plinesList, flatList, readPreLines]
    | lvl, i :: rest, h => by
      simp only [NoLeadBlank] at h
      simp only [plinesList, flatList]
      exact readPreLines_append (readPreLines_plinesItem k hk lvl i h.1) (readPreLines_plinesList k hk lvl rest h.2)
end

/-- the reader of the `annet diff` view gets the printed forest back -/
theorem parsePre_preLines (k : Nat) (hk : 0 < k) (p : Pre) (h : NoLeadBlank (forestPre p)) :
    parsePre k (preLines (List.replicate k ' ') 0 p) = some (forestPre p) := by
  simp only [parsePre, preLines_eq, readPreLines_plinesList k hk 0 _ h, build_flat]

/-! ### `make_pre` only regroups the entries -/

/-- updating the element of key `k` in a list with distinct keys, seen through `flatMap` -/
theorem perm_flatMap_update {α β κ : Type} [BEq κ] [LawfulBEq κ] (φ : α → List β) (key : α → κ) (g : α → α) (k : κ)
    (X : β) : ∀ (l : List α), (∀ x ∈ l, key x = k → φ (g x) ~ φ x ++ [X]) → (l.map key).Nodup → k ∈ l.map key →
      (l.map fun x => if key x == k then g x else x).flatMap φ ~ l.flatMap φ ++ [X]
  | [], _, _, hk => by simp at hk
  | x :: l, hg, hnd, hk => by
    simp only [List.map_cons, List.nodup_cons] at hnd
    by_cases hx : key x = k
    · have hnot : ∀ y ∈ l, ¬ key y = k := by
        intro y hy hyk
        exact hnd.1 (hx ▸ hyk ▸ List.mem_map_of_mem hy)
      have hid : (l.map fun x => if key x == k then g x else x) = l := by
        conv => rhs; rw [← List.map_id l]
        apply List.map_congr_left
        intro y hy
        simp [hnot y hy]
      simp only [List.map_cons, hx, BEq.rfl, if_true, List.flatMap_cons, hid]
      have := hg x (by simp) hx
      exact (this.append_right _).trans (by
        simp only [List.append_assoc]
        exact Perm.append_left _ perm_append_comm)
    · have hk' : k ∈ l.map key := by
        simp only [List.map_cons, List.mem_cons] at hk
        rcases hk with hk | hk
        · exact absurd hk.symm hx
        · exact hk
      have ih := perm_flatMap_update φ key g k X l (fun y hy => hg y (by simp [hy])) hnd.2 hk'
      have hx' : (key x == k) = false := by simpa using hx
      simp only [List.map_cons, hx', Bool.false_eq_true, if_false, List.flatMap_cons, List.append_assoc]
      exact Perm.append_left _ ih

theorem map_key_update {α κ : Type} [BEq κ] [LawfulBEq κ] (key : α → κ) (g : α → α) (k : κ)
    (hg : ∀ x, key (g x) = key x) (l : List α) :
    (l.map fun x => if key x == k then g x else x).map key = l.map key := by
  rw [List.map_map]
  apply List.map_congr_left
  intro x _
  simp only [Function.comp]
  split <;> simp [hg]

def forestItem : PreItem → List SItem
  | .mk _ a r m f _ =>
    forestEntries .space f ++ forestEntries .gt m ++ forestEntries .minus r ++ forestEntries .plus a

def ruleItems : PreRule → List PreItem | .mk _ _ items => items

theorem forestItems_eq_flatMap : ∀ l : List PreItem, forestItems l = l.flatMap forestItem
  | [] => by simp [forestItems]
  | .mk _ a r m f _ :: rest => by
    simp [forestItems, forestItem, forestItems_eq_flatMap rest]

theorem forestRules_eq_flatMap : ∀ l : List PreRule, forestRules l = l.flatMap fun r => forestItems (ruleItems r)
  | [] => by simp [forestRules]
  | .mk _ _ items :: rest => by
    simp [forestRules, ruleItems, forestRules_eq_flatMap rest]

theorem forestEntries_append (s : Sign) : ∀ (a b : List PreEntry),
    forestEntries s (a ++ b) = forestEntries s a ++ forestEntries s b
  | [], b => by simp [forestEntries]
  | .mk _ _ :: a, b => by simp [forestEntries, forestEntries_append s a b]

theorem forestEntries_single (s : Sign) (e : PreEntry) : forestEntries s [e] = [entryS forestPre s e] := by
  cases e; simp [forestEntries, entryS]

theorem push_key (op : Op) (e : PreEntry) (it : PreItem) : (it.push op e).key = it.key := by
  cases it; cases op <;> rfl

theorem perm_insert_end {α : Type} (P Q : List α) (X : α) : P ++ [X] ++ Q ~ P ++ Q ++ [X] := by
  simp only [List.append_assoc]
  exact Perm.append_left _ perm_append_comm

theorem forestItem_push (op : Op) (sg : Sign) (hs : signOfOp op = some sg) (e : PreEntry) (it : PreItem) :
    forestItem (it.push op e) ~ forestItem it ++ [entryS forestPre sg e] := by
  obtain ⟨k, a, r, m, f, u⟩ := it
  cases op <;> simp only [signOfOp, Option.some.injEq, reduceCtorEq] at hs <;> subst hs <;>
    simp only [PreItem.push, forestItem, forestEntries_append, forestEntries_single]
  · -- added
    simp only [List.append_assoc]
    exact Perm.refl _
  · -- removed
    have := perm_insert_end (forestEntries .space f ++ forestEntries .gt m ++ forestEntries .minus r)
      (forestEntries .plus a) (entryS forestPre .minus e)
    simpa only [List.append_assoc] using this
  · -- affected
    have := perm_insert_end (forestEntries .space f)
      (forestEntries .gt m ++ forestEntries .minus r ++ forestEntries .plus a) (entryS forestPre .space e)
    simpa only [List.append_assoc] using this
  · -- moved
    have := perm_insert_end (forestEntries .space f ++ forestEntries .gt m)
      (forestEntries .minus r ++ forestEntries .plus a) (entryS forestPre .gt e)
    simpa only [List.append_assoc] using this

/-- the keys of the items of a rule are pairwise distinct -/
def WFI (items : List PreItem) : Prop := (items.map PreItem.key).Nodup

/-- the raw rules are pairwise distinct, and so are the keys under each of them -/
def WFR (rules : List PreRule) : Prop :=
  (rules.map PreRule.raw).Nodup ∧ ∀ r ∈ rules, WFI (ruleItems r)

theorem any_key_iff {α κ : Type} [BEq κ] [LawfulBEq κ] (key : α → κ) (k : κ) (l : List α) :
    (l.any fun x => key x == k) = true ↔ k ∈ l.map key := by
  simp only [List.any_eq_true, beq_iff_eq, List.mem_map]

theorem pushItem_wf (key : List String) (op : Op) (e : PreEntry) (items : List PreItem) (h : WFI items) :
    WFI (pushItem key op e items) := by
  unfold pushItem
  split
  · unfold WFI
    rw [map_key_update PreItem.key (fun it => it.push op e) key (push_key op e)]
    exact h
  · rename_i hany
    have hk : key ∉ items.map PreItem.key := by
      rw [← any_key_iff]; exact hany
    unfold WFI
    rw [List.map_append, List.map_singleton, push_key]
    simp only [PreItem.key]
    exact List.nodup_append.mpr ⟨h, by simp, by
      intro a ha b hb
      simp only [List.mem_singleton] at hb
      subst hb
      intro hab
      exact hk (hab ▸ ha)⟩

theorem pushItem_perm (key : List String) (op : Op) (sg : Sign) (hs : signOfOp op = some sg) (e : PreEntry)
    (items : List PreItem) (h : WFI items) :
    forestItems (pushItem key op e items) ~ forestItems items ++ [entryS forestPre sg e] := by
  rw [forestItems_eq_flatMap, forestItems_eq_flatMap]
  unfold pushItem
  split
  · rename_i hany
    exact perm_flatMap_update forestItem PreItem.key (fun it => it.push op e) key _ items
      (fun x _ _ => forestItem_push op sg hs e x) h ((any_key_iff _ _ _).mp hany)
  · rw [List.flatMap_append]
    refine Perm.append_left _ ?_
    simp only [List.flatMap_cons, List.flatMap_nil, List.append_nil]
    have := forestItem_push op sg hs e (PreItem.mk key [] [] [] [] [])
    simpa [forestItem, forestEntries] using this

def pushRuleG (m : PMatch) (op : Op) (e : PreEntry) : PreRule → PreRule
  | .mk raw attrs items => .mk raw attrs (pushItem m.key op e items)

theorem pushRule_eq (m : PMatch) (op : Op) (e : PreEntry) (rules : List PreRule) :
    pushRule m op e rules =
      if rules.any (fun r => r.raw == m.rawRule) then
        rules.map fun r => if r.raw == m.rawRule then pushRuleG m op e r else r
      else rules ++ [.mk m.rawRule m.attrs (pushItem m.key op e [])] := by
  unfold pushRule
  split
  · apply List.map_congr_left
    intro r _
    cases r
    simp only [PreRule.raw, pushRuleG]
    by_cases hc : (‹String› == m.rawRule) = true <;> simp [hc]
  · rfl

theorem pushRuleG_raw (m : PMatch) (op : Op) (e : PreEntry) (r : PreRule) : (pushRuleG m op e r).raw = r.raw := by
  cases r; rfl

theorem wfi_nil : WFI [] := by simp [WFI]

theorem wfr_nil : WFR [] := by simp [WFR]

theorem pushRule_wf (m : PMatch) (op : Op) (e : PreEntry) (rules : List PreRule) (h : WFR rules) :
    WFR (pushRule m op e rules) := by
  rw [pushRule_eq]
  split
  · refine ⟨?_, ?_⟩
    · rw [map_key_update PreRule.raw (pushRuleG m op e) m.rawRule (pushRuleG_raw m op e)]
      exact h.1
    · intro r hr
      simp only [List.mem_map] at hr
      obtain ⟨r0, hr0, rfl⟩ := hr
      split
      · cases r0
        simp only [pushRuleG, ruleItems]
        exact pushItem_wf _ _ _ _ (h.2 _ hr0)
      · exact h.2 _ hr0
  · rename_i hany
    have hk : m.rawRule ∉ rules.map PreRule.raw := by
      rw [← any_key_iff]; exact hany
    refine ⟨?_, ?_⟩
    · rw [List.map_append, List.map_singleton]
      simp only [PreRule.raw]
      exact List.nodup_append.mpr ⟨h.1, by simp, by
        intro a ha b hb
        simp only [List.mem_singleton] at hb
        subst hb
        intro hab
        exact hk (hab ▸ ha)⟩
    · intro r hr
      simp only [List.mem_append, List.mem_singleton] at hr
      rcases hr with hr | rfl
      · exact h.2 _ hr
      · exact pushItem_wf _ _ _ _ wfi_nil

theorem pushRule_perm (m : PMatch) (op : Op) (sg : Sign) (hs : signOfOp op = some sg) (e : PreEntry)
    (rules : List PreRule) (h : WFR rules) :
    forestRules (pushRule m op e rules) ~ forestRules rules ++ [entryS forestPre sg e] := by
  rw [pushRule_eq, forestRules_eq_flatMap, forestRules_eq_flatMap]
  split
  · rename_i hany
    refine perm_flatMap_update (fun r => forestItems (ruleItems r)) PreRule.raw (pushRuleG m op e) m.rawRule _ rules
      ?_ h.1 ((any_key_iff _ _ _).mp hany)
    intro r hr _
    have := h.2 r hr
    cases r
    simp only [pushRuleG, ruleItems] at this ⊢
    exact pushItem_perm _ _ _ hs _ _ this
  · rw [List.flatMap_append]
    refine Perm.append_left _ ?_
    simp only [List.flatMap_cons, List.flatMap_nil, List.append_nil, ruleItems]
    have := pushItem_perm m.key op sg hs e [] wfi_nil
    simpa [forestItems] using this

/-- `make_pre` adds exactly the entries of the diff, children regrouped recursively -/
theorem makePreAcc_spermv : ∀ (d : List DItem) (s : List SItem) (acc : List PreRule), WFR acc →
    signedList d = some s → SPermv (forestRules (makePreAcc d acc)) (forestRules acc ++ s)
  | [], s, acc, _, hs => by
    simp only [signedList, Option.some.injEq] at hs
    subst hs
    simpa [makePreAcc] using SPermv.refl _
  | .mk op row ch m :: rest, s, acc, hw, hs => by
    simp only [signedList, signedItem] at hs
    cases h1 : signOfOp op with
    | none => simp [h1] at hs
    | some sg =>
      cases h2 : signedList ch with
      | none => simp [h1, h2] at hs
      | some cs =>
        cases h3 : signedList rest with
        | none => simp [h1, h2, h3] at hs
        | some srest =>
          simp only [h1, h2, h3, Option.some.injEq] at hs
          subst hs
          have ihc := makePreAcc_spermv ch cs [] wfr_nil h2
          have ihr := makePreAcc_spermv rest srest _ (pushRule_wf m op (entryOf (.mk op row ch m)) acc hw) h3
          have hp := pushRule_perm m op sg h1 (entryOf (.mk op row ch m)) acc hw
          simp only [makePreAcc, DItem.m, DItem.op]
          refine ihr.trans ?_
          refine (SPermv.append_right _ (SPermv.of_perm hp)).trans ?_
          simp only [List.append_assoc, List.singleton_append]
          refine SPermv.append_left _ (.cons ?_ (SPermv.refl _))
          simp only [entryOf, entryS, forestPre]
          exact SEqv.mk (by simpa [forestRules] using ihc)

end Annet.DiffText
